(* C06 (second proof extension) — the tree-READING predicates under completion:
   `consecutive` (the code as it is, with its recorded defect K_cons_rel of C04), `nth`, `count`.
   Each is related on t and on an identity-preserving completion t' (Eval3Facts.compl).
   No model definition is changed; the class predicates defined here are the guards of the
   `_partial` theorems of Props/C06.v. *)
From ISLA Require Import Eval3 EvalFacts GrammarFacts FuzzFacts PathFacts TreeFacts PredsFacts Eval3Facts Eval3Compl Eval3Stable.
From Coq Require Import Lia ZArith.

(* ------------------------------------------------------------------ *)
(* paths                                                               *)
(* ------------------------------------------------------------------ *)
Lemma sprefix_nil_l p : p <> [] -> sprefix [] p.
Proof. destruct p as [|a r]; [congruence|]. intros _. exists a, r. reflexivity. Qed.

(* a path left of an extension of q is left of q, or below q *)
Lemma doc_lt_ext_r : forall q p r, doc_lt p (q ++ r) -> doc_lt p q \/ sprefix q p.
Proof.
  induction q as [|b q IH]; intros p r H.
  - right. apply sprefix_nil_l. intros ->. exact (doc_lt_nil_l _ H).
  - destruct p as [|a p]; [exfalso; exact (doc_lt_nil_l _ H)|].
    simpl in H. apply doc_lt_cons_inv in H as [Hlt|[-> H]].
    + left. apply doc_lt_head. assumption.
    + destruct (IH p r H) as [X|X]; [left; apply doc_lt_cons; assumption | right; apply sprefix_cons; assumption].
Qed.

Lemma doc_lt_ext_l : forall q p r, doc_lt (q ++ r) p -> doc_lt q p \/ sprefix q p.
Proof.
  induction q as [|b q IH]; intros p r H.
  - right. apply sprefix_nil_l. intros ->. exact (doc_lt_nil_r _ H).
  - destruct p as [|a p]; [exfalso; exact (doc_lt_nil_r _ H)|].
    simpl in H. apply doc_lt_cons_inv in H as [Hlt|[-> H]].
    + left. apply doc_lt_head. assumption.
    + destruct (IH p r H) as [X|X]; [left; apply doc_lt_cons; assumption | right; apply sprefix_cons; assumption].
Qed.

(* ------------------------------------------------------------------ *)
(* trees                                                               *)
(* ------------------------------------------------------------------ *)
(* every tree has a leaf (a node without children) *)
Lemma leaf_below : forall u : tree, exists r n, subtree u r = Some n /\ kids n = [].
Proof.
  induction u as [l i o ks IH] using tree_ind'.
  destruct ks as [|k ks].
  - exists [], (Node l i o []). split; reflexivity.
  - inversion IH as [|x y Hx Hy]; subst. destruct Hx as (r & n & Hr & Hn).
    exists (0 :: r), n. simpl. split; assumption.
Qed.

Lemma compl_leaf_inv g n n' : compl g n n' -> kids n' = [] -> kids n = [].
Proof.
  intros H Hk. inversion H as [A i t0 Hl Hi Hw | l i ks ks' HF]; subst; simpl in *; [reflexivity|].
  subst ks'. inversion HF. reflexivity.
Qed.

Lemma is_leaf_kids n : is_leaf n = true <-> kids n = [].
Proof. unfold is_leaf. destruct (kids n); split; congruence. Qed.

Lemma in_leaves u q n : In (q, n) (py_leaves u) <-> subtree u q = Some n /\ kids n = [].
Proof.
  unfold py_leaves, py_paths. rewrite filter_In, nodes_spec. simpl. rewrite is_leaf_kids. tauto.
Qed.

(* ------------------------------------------------------------------ *)
(* consecutive (code as it is: leaf paths relative to the common prefix) *)
(* ------------------------------------------------------------------ *)
(* the test applied to one leaf path *)
Definition betw (p1 p2 q : path) : bool :=
  negb (path_eqb q p1) && negb (path_eqb q p2) && is_before p1 q && is_before q p2.

Lemma betw_spec p1 p2 q : betw p1 p2 q = true <-> doc_lt p1 q /\ doc_lt q p2.
Proof.
  unfold betw. rewrite !andb_true_iff, !negb_true_iff, !before_spec, !path_eqb_neq. split.
  - tauto.
  - intros [H1 H2]. repeat split; try assumption.
    + intros ->. exact (doc_lt_irrefl _ H1).
    + intros ->. exact (doc_lt_irrefl _ H2).
Qed.

(* the test is kept by every extension of the leaf path (pure path reasoning) *)
Lemma betw_ext p1 p2 q r : betw p1 p2 q = true -> betw p1 p2 (q ++ r) = true.
Proof.
  rewrite !betw_spec. intros [H1 H2]. split; [apply doc_lt_app_r | apply doc_lt_app_l]; assumption.
Qed.

(* an extension passes the test although q does not: q is a proper (list) prefix of an argument *)
Lemma betw_new p1 p2 q r : betw p1 p2 (q ++ r) = true -> betw p1 p2 q = false ->
  sprefix q p1 \/ sprefix q p2.
Proof.
  intros H Hn. apply betw_spec in H as [H1 H2].
  destruct (doc_lt_ext_r q p1 r H1) as [X1|X1]; [|left; assumption].
  destruct (doc_lt_ext_l q p2 r H2) as [X2|X2]; [|right; assumption].
  assert (betw p1 p2 q = true) by (apply betw_spec; split; assumption). congruence.
Qed.

Lemma consecutive_unfold t p1 p2 :
  consecutive t p1 p2 =
  if path_eqb p1 p2 || negb (is_before p1 p2) then Ok false else
  match py_get_subtree t (lcp p1 p2) with
  | Raise e => Raise e
  | Ok None => Raise AttrErr
  | Ok (Some s) => Ok (negb (existsb (fun pt => betw p1 p2 (fst pt)) (py_leaves s)))
  end.
Proof. reflexivity. Qed.

(* class of open trees on which the defect K_cons_rel can make `consecutive` unstable: an open leaf
   at o = c ++ q (c, q non-empty), the node at c has at least two children (only then is c the
   longest common prefix of two arguments), and q and c are prefix-comparable as lists — only then
   can the c-relative path q of the open leaf be a proper list prefix of an absolute argument path
   c ++ p below the common prefix c. *)
Definition cons_unsafe (t : tree) : bool :=
  existsb (fun ps => opn (snd ps) &&
             existsb (fun k => match subtree t (firstn k (fst ps)) with
                               | Some s => Nat.ltb 1 (length (kids s))
                               | None => false
                               end
                               && (prefixb (skipn k (fst ps)) (firstn k (fst ps))
                                   || prefixb (firstn k (fst ps)) (skipn k (fst ps))))
                     (seq 1 (length (fst ps) - 1))) (nodes t).

(* two paths in document order branch below their longest common prefix *)
Lemma doc_lt_lcp : forall p q, doc_lt p q ->
  exists a b r1 r2, p = lcp p q ++ a :: r1 /\ q = lcp p q ++ b :: r2 /\ a < b.
Proof.
  induction p as [|x p IH]; intros q H; [exfalso; exact (doc_lt_nil_l _ H)|].
  destruct q as [|y q]; [exfalso; exact (doc_lt_nil_r _ H)|].
  apply doc_lt_cons_inv in H as [Hlt | [-> H]].
  - simpl. destruct (Nat.eqb x y) eqn:E; [apply Nat.eqb_eq in E; lia|]. exists x, y, p, q. simpl. auto.
  - simpl. rewrite Nat.eqb_refl. destruct (IH q H) as (a & b & r1 & r2 & E1 & E2 & L).
    exists a, b, r1, r2. simpl. repeat split; [f_equal; exact E1 | f_equal; exact E2 | exact L].
Qed.

Section Cons.
  Variable g : grammar.
  Variables t t' : tree.
  Hypothesis Hc : compl g t t'.
  Hypothesis Hcl : is_openT t' = false.

  Lemma py_sub_t p s : subtree t p = Some s -> py_get_subtree t p = Ok (Some s).
  Proof. apply py_get_subtree_valid. exact (compl_shape_ok g t t' Hc). Qed.
  Lemma py_sub_t' p s : subtree t' p = Some s -> py_get_subtree t' p = Ok (Some s).
  Proof. apply py_get_subtree_valid. apply closed_shape_ok. assumption. Qed.

  (* leaves of the two subtrees at a common position *)
  Lemma leaf_down s s' q n : compl g s s' -> subtree s q = Some n -> kids n = [] ->
    exists r m, subtree s' (q ++ r) = Some m /\ kids m = [].
  Proof.
    intros Hs Hq Hk. destruct (compl_keeps_nodes g q s s' n Hs Hq) as (n' & Hn' & _).
    destruct (leaf_below n') as (r & m & Hr & Hm). exists r, m. rewrite subtree_app, Hn'. auto.
  Qed.

  Lemma leaf_up s s' w m : compl g s s' -> subtree s' w = Some m -> kids m = [] ->
    (exists n, subtree s w = Some n /\ kids n = []) \/
    (exists q r n, w = q ++ r /\ r <> [] /\ subtree s q = Some n /\ opn n = true /\ kids n = []).
  Proof.
    intros Hs Hw Hk. destruct (subtree s w) as [n|] eqn:E.
    - left. exists n. split; [reflexivity|].
      destruct (compl_keeps_nodes g w s s' n Hs E) as (n' & Hn' & _ & _ & Hcn).
      rewrite Hw in Hn'. inversion Hn'; subst n'. eapply compl_leaf_inv; eassumption.
    - right. destruct (compl_new_node g w s s' m Hs Hw E) as (q & r & n & x & -> & Hr & Hq & Ho & Hq' & Hx).
      exists q, r, n. repeat split; try assumption.
      destruct (compl_keeps_nodes g q s s' n Hs Hq) as (n' & _ & _ & _ & Hcn).
      destruct (compl_open_inv g n n' Hcn Ho) as (Hkn & _). assumption.
  Qed.

  (* FALSE is stable without any guard; TRUE is stable when no open leaf of the subtree at the
     common prefix has a relative path that is a proper list prefix of an argument *)
  Definition cons_guard_at (p1 p2 : path) : Prop :=
    forall q n, subtree t (lcp p1 p2 ++ q) = Some n -> opn n = true -> ~ sprefix q p1 /\ ~ sprefix q p2.

  Lemma consecutive_compl_gen p1 p2 s1 b b' :
    subtree t p1 = Some s1 ->
    consecutive t p1 p2 = Ok b -> consecutive t' p1 p2 = Ok b' ->
    (b = false -> b' = false) /\ (cons_guard_at p1 p2 -> b' = b).
  Proof.
    intros H1 H H'. rewrite consecutive_unfold in H, H'.
    destruct (path_eqb p1 p2 || negb (is_before p1 p2)) eqn:E0.
    - inversion H; inversion H'; subst. split; reflexivity.
    - destruct (lcp_prefix_l p1 p2) as [r1 Hr1].
      destruct (subtree t (lcp p1 p2)) as [s|] eqn:Hs.
      2:{ exfalso. rewrite Hr1, subtree_app, Hs in H1. discriminate. }
      destruct (compl_keeps_nodes g _ t t' s Hc Hs) as (s' & Hs' & _ & _ & Hcs).
      rewrite (py_sub_t _ _ Hs) in H. rewrite (py_sub_t' _ _ Hs') in H'.
      inversion H as [Hb]; inversion H' as [Hb']. clear H H'.
      split.
      + intro Ef. apply negb_false_iff in Ef. apply negb_false_iff.
        apply existsb_exists in Ef as ([q n] & Hin & HB). simpl in HB.
        apply in_leaves in Hin as [Hq Hk].
        destruct (leaf_down s s' q n Hcs Hq Hk) as (r & m & Hm & Hkm).
        apply existsb_exists. exists (q ++ r, m). split; [apply in_leaves; auto|]. simpl. apply betw_ext. assumption.
      + intro Hg. f_equal.
        destruct (existsb (fun pt => betw p1 p2 (fst pt)) (py_leaves s)) eqn:Ex.
        * apply existsb_exists in Ex as ([q n] & Hin & HB). simpl in HB.
          apply in_leaves in Hin as [Hq Hk].
          destruct (leaf_down s s' q n Hcs Hq Hk) as (r & m & Hm & Hkm).
          apply existsb_exists. exists (q ++ r, m). split; [apply in_leaves; auto|]. simpl. apply betw_ext. assumption.
        * destruct (existsb (fun pt => betw p1 p2 (fst pt)) (py_leaves s')) eqn:Ex'; [exfalso | reflexivity].
          apply existsb_exists in Ex' as ([w m] & Hin & HB). simpl in HB.
          apply in_leaves in Hin as [Hw Hk].
          destruct (leaf_up s s' w m Hcs Hw Hk) as [(n & Hn & Hkn) | (q & r & n & -> & Hr & Hq & Ho & Hkn)].
          -- assert (In (w, n) (py_leaves s)) by (apply in_leaves; auto).
             pose proof (existsb_false_In _ _ _ Ex H) as X. simpl in X. congruence.
          -- assert (Hin : In (q, n) (py_leaves s)) by (apply in_leaves; auto).
             pose proof (existsb_false_In _ _ _ Ex Hin) as X. simpl in X.
             destruct (Hg q n) as [G1 G2]; [rewrite subtree_app, Hs; assumption | assumption |].
             destruct (betw_new p1 p2 q r HB X); contradiction.
  Qed.

  (* the static class implies the dynamic guard for valid argument paths *)
  Lemma cons_unsafe_guard p1 p2 s1 s2 :
    subtree t p1 = Some s1 -> subtree t p2 = Some s2 -> is_before p1 p2 = true ->
    cons_unsafe t = false -> cons_guard_at p1 p2.
  Proof.
    intros H1 H2 Hb Hu q n Hq Ho.
    apply before_spec in Hb. destruct (doc_lt_lcp p1 p2 Hb) as (a1 & a2 & r1 & r2 & Hr1 & Hr2 & Hlt).
    set (c := lcp p1 p2) in *.
    assert (Hkn : kids n = []).
    { destruct (compl_keeps_nodes g _ t t' n Hc Hq) as (n' & _ & _ & _ & Hcn).
      destruct (compl_open_inv g n n' Hcn Ho) as (Hkn & _). assumption. }
    (* an open leaf has nothing below it *)
    assert (Hnb : forall p x, subtree t p = Some x -> ~ sprefix (c ++ q) p).
    { intros p x Hp (a & r & ->). rewrite subtree_app, Hq in Hp. simpl in Hp. rewrite Hkn in Hp. destruct a; discriminate. }
    (* the node at c has at least two children *)
    destruct (subtree t c) as [s|] eqn:Hs; [|rewrite Hr2, subtree_app, Hs in H2; discriminate].
    assert (Hk2 : 1 < length (kids s)).
    { rewrite Hr2, subtree_app, Hs in H2. simpl in H2.
      destruct (nth_error (kids s) a2) eqn:E; [|discriminate].
      assert (X : nth_error (kids s) a2 <> None) by congruence. apply nth_error_Some in X. lia. }
    assert (Hqne : q <> []).
    { intros ->. rewrite app_nil_r in Hq. rewrite Hs in Hq. inversion Hq; subst n. rewrite Hkn in Hk2. simpl in Hk2. lia. }
    assert (Hgen : forall p r x, p = c ++ r -> subtree t p = Some x -> ~ sprefix q p).
    { intros p r x -> Hp Hsp.
      destruct c as [|c0 c1] eqn:Ec.
      - simpl in *. exact (Hnb r x Hp Hsp).
      - rewrite <- Ec in *.
        assert (Hpc : prefix q c \/ prefix c q).
        { apply (prefix_comparable q c (c ++ r)); [apply sprefix_prefix; assumption | exists r; reflexivity]. }
        assert (Hin : In (c ++ q, n) (nodes t)) by (apply nodes_spec; assumption).
        unfold cons_unsafe in Hu. pose proof (existsb_false_In _ _ _ Hu Hin) as X. simpl in X. rewrite Ho in X. simpl in X.
        assert (Hk : In (length c) (seq 1 (length (c ++ q) - 1))).
        { apply in_seq. rewrite app_length. rewrite Ec. simpl. destruct q; [congruence|]. simpl. lia. }
        pose proof (existsb_false_In _ _ _ X Hk) as Y. simpl in Y.
        rewrite firstn_app, Nat.sub_diag, firstn_all, app_nil_r in Y. simpl in Y.
        rewrite skipn_app, Nat.sub_diag, skipn_all in Y. simpl in Y.
        rewrite Hs in Y. apply Nat.ltb_lt in Hk2. rewrite Hk2 in Y. simpl in Y.
        apply orb_false_iff in Y as [Y1 Y2].
        destruct Hpc as [P|P]; apply prefixb_spec in P; congruence. }
    split.
    - apply (Hgen p1 (a1 :: r1) s1 Hr1 H1).
    - apply (Hgen p2 (a2 :: r2) s2 Hr2 H2).
  Qed.

  Theorem consecutive_compl p1 p2 s1 s2 b b' :
    subtree t p1 = Some s1 -> subtree t p2 = Some s2 -> cons_unsafe t = false ->
    consecutive t p1 p2 = Ok b -> consecutive t' p1 p2 = Ok b' -> b' = b.
  Proof.
    intros H1 H2 Hu H H'.
    destruct (is_before p1 p2) eqn:Eb.
    - destruct (consecutive_compl_gen p1 p2 s1 b b' H1 H H') as [_ X]. apply X.
      eapply cons_unsafe_guard; eassumption.
    - rewrite consecutive_unfold in H, H'. rewrite Eb in H, H'. simpl in H, H'. rewrite orb_true_r in H, H'. congruence.
  Qed.

  Theorem consecutive_false_compl p1 p2 s1 b' :
    subtree t p1 = Some s1 ->
    consecutive t p1 p2 = Ok false -> consecutive t' p1 p2 = Ok b' -> b' = false.
  Proof.
    intros H1 H H'. destruct (consecutive_compl_gen p1 p2 s1 false b' H1 H H') as [X _]. auto.
  Qed.
End Cons.

(* ------------------------------------------------------------------ *)
(* nth                                                                 *)
(* ------------------------------------------------------------------ *)
Definition pre_ltb (p q : path) : bool := (prefixb p q && negb (path_eqb p q)) || doc_ltb p q.
Definition pre_leb (p q : path) : bool := path_eqb p q || pre_ltb p q.

Lemma pre_ltb_spec p q : pre_ltb p q = true <-> pre_lt p q.
Proof.
  unfold pre_ltb, pre_lt. rewrite orb_true_iff, andb_true_iff, negb_true_iff, prefixb_spec, path_eqb_neq, doc_ltb_spec, sprefix_iff.
  tauto.
Qed.

Lemma pre_leb_spec p q : pre_leb p q = true <-> pre_le p q.
Proof. unfold pre_leb, pre_le. rewrite orb_true_iff, path_eqb_eq, pre_ltb_spec. tauto. Qed.

Lemma pre_lt_prepend c p q : pre_lt p q -> pre_lt (c ++ p) (c ++ q).
Proof. induction c as [|a c IH]; simpl; [auto|]. intro H. apply pre_lt_cons. auto. Qed.

Lemma pre_lt_ext o r : r <> [] -> pre_lt o (o ++ r).
Proof. intro Hr. left. destruct r as [|a r]; [congruence|]. exists a, r. reflexivity. Qed.

Lemma pre_lt_asym p q : pre_lt p q -> ~ pre_le q p.
Proof.
  intros H [->|H2]; [exact (pre_lt_irrefl _ H)|]. exact (pre_lt_irrefl _ (pre_lt_trans _ _ _ H H2)).
Qed.

(* the number nth compares with n: nodes of label L at or before the position q1 (pre-order) *)
Definition cntQ (L : str) (q1 : path) : path -> str -> bool := fun q l => str_eqb l L && pre_leb q q1.

Lemma nth_scan_count L n p1 p2 q1 : p1 = p2 ++ q1 -> forall l idx,
  Sorted.StronglySorted pre_lt (map fst l) ->
  (exists s1, In (q1, s1) l /\ lbl s1 = L) ->
  nth_scan l L n idx p1 p2 = Nat.eqb (idx + length (filter (selQ (cntQ L q1)) l)) n.
Proof.
  intros ->. induction l as [|[q s] l IH]; intros idx Hs (s1 & Hin & Hl); [contradiction|].
  simpl in Hs. apply Sorted.StronglySorted_inv in Hs as [Hs Hall]. rewrite Forall_forall in Hall.
  simpl nth_scan. simpl filter.
  destruct (path_eqb (p2 ++ q) (p2 ++ q1)) eqn:Eq.
  - apply path_eqb_eq in Eq. apply app_inv_head in Eq. subst q.
    assert (Hnil : filter (selQ (cntQ L q1)) l = []).
    { clear IH Hin. induction l as [|[q' s'] l IHl]; [reflexivity|]. simpl.
      assert (X : selQ (cntQ L q1) (q', s') = false).
      { unfold selQ, cntQ. simpl. destruct (pre_leb q' q1) eqn:E; [|apply andb_false_r].
        exfalso. apply pre_leb_spec in E. apply (pre_lt_asym q1 q'); [|assumption]. apply Hall. simpl. auto. }
      rewrite X. apply IHl.
      - simpl in Hs. apply Sorted.StronglySorted_inv in Hs as [Hs' _]. assumption.
      - intros x Hx. apply Hall. simpl. auto. }
    rewrite Hnil. unfold selQ at 1, cntQ. simpl fst; simpl snd.
    assert (R : pre_leb q1 q1 = true) by (apply pre_leb_spec; left; reflexivity). rewrite R, andb_true_r.
    destruct (str_eqb (lbl s) L); cbn [length]; f_equal; lia.
  - apply path_eqb_neq in Eq.
    assert (Hin' : In (q1, s1) l).
    { destruct Hin as [E|E]; [|assumption]. inversion E; subst. congruence. }
    assert (Hlt : pre_lt q q1). { apply Hall. apply in_map_iff. exists (q1, s1). auto. }
    assert (Hsel : selQ (cntQ L q1) (q, s) = str_eqb (lbl s) L).
    { unfold selQ, cntQ. simpl. assert (R : pre_leb q q1 = true) by (apply pre_leb_spec; right; assumption).
      rewrite R. apply andb_true_r. }
    rewrite Hsel.
    assert (Hpos : 1 <= length (filter (selQ (cntQ L q1)) l)).
    { assert (X : In (q1, s1) (filter (selQ (cntQ L q1)) l)).
      { apply filter_In. split; [assumption|]. unfold selQ, cntQ. simpl. rewrite Hl, str_eqb_refl.
        apply pre_leb_spec. left. reflexivity. }
      destruct (filter (selQ (cntQ L q1)) l); [contradiction | simpl; lia]. }
    set (idx' := if str_eqb (lbl s) L then S idx else idx).
    destruct (Nat.leb n idx') eqn:El.
    + apply Nat.leb_le in El. symmetry. apply Nat.eqb_neq. subst idx'.
      destruct (str_eqb (lbl s) L); cbn [length]; lia.
    + rewrite (IH idx' Hs); [|eauto]. subst idx'. destruct (str_eqb (lbl s) L); cbn [length]; f_equal; lia.
Qed.

(* class: an open leaf precedes (pre-order) a node of t whose label it can still produce *)
Definition nth_unsafe (g : grammar) (t : tree) : bool :=
  existsb (fun o => opn (snd o) &&
             existsb (fun n => pre_ltb (fst o) (fst n) && reachb g (lbl (snd o)) (lbl (snd n))) (nodes t))
          (nodes t).

Section Nth.
  Variable g : grammar.
  Variables t t' : tree.
  Hypothesis Hc : compl g t t'.
  Hypothesis Hcl : is_openT t' = false.
  Hypothesis Hrc : reach_closedb g = true.

  (* exact dynamic guard: no open leaf inside node_2, before node_1 in pre-order, can reach the label *)
  Definition nth_guard_at (p2 q1 : path) (L : str) : Prop :=
    forall o n, subtree t (p2 ++ o) = Some n -> opn n = true -> pre_lt o q1 -> reachb g (lbl n) L = false.

  Lemma nth_count_compl s2 s2' L q1 : compl g s2 s2' -> is_nt L = true ->
    (forall o n, subtree s2 o = Some n -> opn n = true -> pre_lt o q1 -> reachb g (lbl n) L = false) ->
    length (filter (selQ (cntQ L q1)) (nodes s2')) = length (filter (selQ (cntQ L q1)) (nodes s2)).
  Proof.
    intros Hcs Hnt Hg.
    rewrite <- (map_length fst (filter (selQ (cntQ L q1)) (nodes s2'))), <- (map_length fst (filter (selQ (cntQ L q1)) (nodes s2))).
    f_equal. apply (sel_eq g s2 s2' Hcs). intros p x Hp Hn.
    destruct (cntQ L q1 p (lbl x)) eqn:E; [exfalso | reflexivity].
    unfold cntQ in E. apply andb_true_iff in E as [El Ep]. apply str_eqb_eq in El. apply pre_leb_spec in Ep.
    assert (Hntx : is_nt (lbl x) = true) by (rewrite El; assumption).
    destruct (compl_new_label g s2 s2' p x Hrc Hcs Hp Hn Hntx) as (o & r & n & -> & Hr & Ho & Hon & _ & Hreach).
    rewrite El in Hreach.
    assert (Hlt : pre_lt o q1).
    { destruct Ep as [<-|Ep]; [apply pre_lt_ext; assumption|]. eapply pre_lt_trans; [apply pre_lt_ext; eassumption | assumption]. }
    rewrite (Hg o n Ho Hon Hlt) in Hreach. discriminate.
  Qed.

  Theorem is_nth_compl n p1 p2 s1 s2 : subtree t p1 = Some s1 -> subtree t p2 = Some s2 ->
    (forall q1, p1 = p2 ++ q1 -> nth_guard_at p2 q1 (lbl s1)) ->
    is_nth t' n p1 p2 = is_nth t n p1 p2.
  Proof.
    intros H1 H2 Hg. unfold is_nth.
    destruct (in_tree p1 p2) eqn:Ei; simpl; [|reflexivity].
    unfold in_tree in Ei. apply path_eqb_eq in Ei. apply prefix_firstn in Ei. destruct Ei as [q1 E1].
    destruct (compl_keeps_nodes g p1 t t' s1 Hc H1) as (s1' & H1' & Hl1 & _ & _).
    destruct (compl_keeps_nodes g p2 t t' s2 Hc H2) as (s2' & H2' & _ & _ & Hcs).
    rewrite (py_sub_t g t t' Hc _ _ H1), (py_sub_t' t' Hcl _ _ H1'), (py_sub_t g t t' Hc _ _ H2), (py_sub_t' t' Hcl _ _ H2').
    rewrite Hl1. destruct (is_nt (lbl s1)) eqn:Ent; simpl; [|reflexivity]. f_equal.
    assert (Hq : subtree s2 q1 = Some s1). { rewrite E1, subtree_app, H2 in H1. assumption. }
    assert (Hq' : subtree s2' q1 = Some s1'). { rewrite E1, subtree_app, H2' in H1'. assumption. }
    unfold py_paths. rewrite (nth_scan_count (lbl s1) n p1 p2 q1 E1 (nodes s2) 0).
    2:{ rewrite <- positions_nodes. apply positions_sorted. }
    2:{ exists s1. split; [apply nodes_spec; assumption | reflexivity]. }
    rewrite (nth_scan_count (lbl s1) n p1 p2 q1 E1 (nodes s2') 0).
    2:{ rewrite <- positions_nodes. apply positions_sorted. }
    2:{ exists s1'. split; [apply nodes_spec; assumption | assumption]. }
    f_equal. f_equal. apply nth_count_compl; try assumption.
    intros o x Ho Hox Hlt. apply (Hg q1 E1 o x); [rewrite subtree_app, H2; assumption | assumption | assumption].
  Qed.

  (* the static class implies the dynamic guard *)
  Lemma nth_unsafe_guard p1 p2 q1 s1 : subtree t p1 = Some s1 -> p1 = p2 ++ q1 ->
    nth_unsafe g t = false -> nth_guard_at p2 q1 (lbl s1).
  Proof.
    intros H1 -> Hu o n Ho Hon Hlt. unfold nth_unsafe in Hu.
    assert (Hin : In (p2 ++ o, n) (nodes t)) by (apply nodes_spec; assumption).
    pose proof (existsb_false_In _ _ _ Hu Hin) as X. simpl in X. rewrite Hon in X. simpl in X.
    assert (Hin1 : In (p2 ++ q1, s1) (nodes t)) by (apply nodes_spec; assumption).
    pose proof (existsb_false_In _ _ _ X Hin1) as Y. simpl in Y.
    assert (P : pre_ltb (p2 ++ o) (p2 ++ q1) = true) by (apply pre_ltb_spec; apply pre_lt_prepend; assumption).
    rewrite P in Y. exact Y.
  Qed.

  Corollary is_nth_compl_static n p1 p2 s1 s2 : subtree t p1 = Some s1 -> subtree t p2 = Some s2 ->
    nth_unsafe g t = false -> is_nth t' n p1 p2 = is_nth t n p1 p2.
  Proof.
    intros H1 H2 Hu. apply (is_nth_compl n p1 p2 s1 s2 H1 H2). intros q1 E. eapply nth_unsafe_guard; eassumption.
  Qed.
End Nth.

(* ------------------------------------------------------------------ *)
(* count                                                               *)
(* ------------------------------------------------------------------ *)
Definition needleQ (needle : str) : path -> str -> bool := fun _ l => str_eqb l needle.

Lemma count_nodes_sel needle s : count_nodes needle s = length (map fst (filter (selQ (needleQ needle)) (nodes s))).
Proof. rewrite map_length. reflexivity. Qed.

(* "more needles possible": some open leaf can still derive the needle *)
Definition more_needles (g : grammar) (s : tree) (needle : str) : bool :=
  existsb (fun ps : path * tree => reachb g (lbl (snd ps)) needle) (filter (fun ps => opn (snd ps)) (nodes s)).

Section Count.
  Variable g : grammar.
  Hypothesis Hrc : reach_closedb g = true.

  Lemma count_nodes_compl_le s s' needle : compl g s s' -> count_nodes needle s <= count_nodes needle s'.
  Proof.
    intro Hcs. rewrite !count_nodes_sel. apply NoDup_incl_length.
    - apply (sorted_NoDup pre_lt); [apply pre_lt_irrefl | apply sel_sorted].
    - intros p Hp. apply (sel_sub g s s' Hcs). assumption.
  Qed.

  Lemma count_nodes_compl_eq s s' needle : compl g s s' -> is_nt needle = true ->
    more_needles g s needle = false -> count_nodes needle s' = count_nodes needle s.
  Proof.
    intros Hcs Hnt Hm. rewrite !count_nodes_sel. f_equal. apply (sel_eq g s s' Hcs). intros p x Hp Hn.
    destruct (needleQ needle p (lbl x)) eqn:E; [exfalso | reflexivity].
    unfold needleQ in E. apply str_eqb_eq in E.
    assert (Hntx : is_nt (lbl x) = true) by (rewrite E; assumption).
    destruct (compl_new_label g s s' p x Hrc Hcs Hp Hn Hntx) as (o & r & n & -> & Hr & Ho & Hon & _ & Hreach).
    rewrite E in Hreach. unfold more_needles in Hm.
    assert (Hin : In (o, n) (filter (fun ps : path * tree => opn (snd ps)) (nodes s))).
    { apply filter_In. split; [apply nodes_spec; assumption | assumption]. }
    pose proof (existsb_false_In _ _ _ Hm Hin) as X. simpl in X. congruence.
  Qed.

  (* when does the model's count answer definitely on a (possibly open) tree *)
  Theorem count_definite_spec s needle num target : py_int num = Some target ->
    let n := Z.of_nat (count_nodes needle s) in
    ((exists b, count_eval (reachb g) count_open3 s needle num = Ok (tv_of_bool b)) <->
     (target < 0 \/ target < n \/ more_needles g s needle = false)%Z) /\
    (count_eval (reachb g) count_open3 s needle num = Ok UU <->
     (0 <= target /\ more_needles g s needle = true /\ n = target)%Z) /\
    ((exists e, count_eval (reachb g) count_open3 s needle num = Raise e) <->
     (more_needles g s needle = true /\ n < target)%Z).
  Proof.
    intros Hp n. unfold count_eval. rewrite Hp. fold (more_needles g s needle). fold n.
    destruct (target <? 0)%Z eqn:E0; [apply Z.ltb_lt in E0 | apply Z.ltb_ge in E0];
    (destruct (target <? n)%Z eqn:E1; [apply Z.ltb_lt in E1 | apply Z.ltb_ge in E1]);
    destruct (more_needles g s needle) eqn:Em; simpl;
    try (destruct (n =? target)%Z eqn:E2; [apply Z.eqb_eq in E2 | apply Z.eqb_neq in E2]); unfold count_open3;
    repeat split; intros;
      repeat match goal with
      | H : exists _, _ |- _ => destruct H
      | H : _ /\ _ |- _ => destruct H
      | H : _ \/ _ |- _ => destruct H
      end;
      try discriminate; try lia; try congruence;
      try (exists false; reflexivity); try (exists true; reflexivity);
      try (eexists; reflexivity);
      try (match goal with H : Ok UU = Ok (tv_of_bool ?x) |- _ => destruct x; discriminate end);
      try (left; lia); try (right; left; lia); try (right; right; reflexivity).
  Qed.

  (* soundness of count's verdict under completion (the insertion regime raises NotImpl in the model
     and is excluded by the returns-premise) *)
  Theorem count_eval_compl s s' needle num r r' : compl g s s' -> is_openT s' = false -> is_nt needle = true ->
    count_eval (reachb g) count_open3 s needle num = Ok r ->
    count_eval (reachb g) count_open3 s' needle num = Ok r' -> tv_le r r'.
  Proof.
    intros Hcs Hcl Hnt H H'. unfold count_eval in H, H'.
    rewrite (closed_no_open_nodes s' Hcl) in H'. simpl in H'.
    fold (more_needles g s needle) in H.
    destruct (py_int num) as [target|]; [|discriminate].
    pose proof (count_nodes_compl_le s s' needle Hcs) as Hle.
    destruct (target <? 0)%Z eqn:E0; simpl in H, H'; [inversion H; inversion H'; right; reflexivity|].
    destruct (target <? Z.of_nat (count_nodes needle s))%Z eqn:E1; simpl in H.
    - apply Z.ltb_lt in E1.
      assert (E1' : (target <? Z.of_nat (count_nodes needle s'))%Z = true) by (apply Z.ltb_lt; lia).
      rewrite E1' in H'. inversion H; inversion H'; right; reflexivity.
    - destruct (more_needles g s needle) eqn:Em; simpl in H.
      + destruct (Z.of_nat (count_nodes needle s) =? target)%Z; [inversion H; left; reflexivity | discriminate].
      + rewrite (count_nodes_compl_eq s s' needle Hcs Hnt Em) in H'. rewrite E1 in H'. simpl in H'.
        right. congruence.
  Qed.
End Count.
