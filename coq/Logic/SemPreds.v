(* Model of the library SEMANTIC predicates of isla/isla_predicates.py on CLOSED argument
   trees: count, crop, just (ljust / rjust / ljust_crop / rjust_crop / extend_crop) and
   the octal_to_dec family.  No proofs here.

   The Earley parser that the predicates call to build replacement trees is NOT modelled:
   `pre_eval` returns the parser REQUEST (`PParse key nt input`); `sem_eval` composes it
   with an arbitrary `parse` function (a Section variable of the theorems, with the
   soundness hypothesis of C10).

   Domain of the string model: code points < 256 (Python's int() additionally accepts
   non-ASCII decimal digits and more Unicode whitespace; the harness stays below 256).   *)
From ISLA Require Export Outcome Tree Grammar.
From Coq Require Export BinInt.

(* ------------------------------------------------------------------------------------ *)
(* Numerals: str(n), oct(n)[2:], int(s), int(s, 8)                                        *)
(* ------------------------------------------------------------------------------------ *)

(* value of an ASCII digit character below base b (b <= 10) *)
Definition digit_of (b c : N) : option N :=
  if (48 <=? c)%N && (c <? 48 + b)%N then Some (c - 48)%N else None.

(* most significant digit first; `fuel` bounds the number of digits *)
Fixpoint to_digits_aux (b : N) (fuel : nat) (n : N) (acc : str) : str :=
  match fuel with
  | O => acc
  | S f => let acc' := (48 + n mod b)%N :: acc in
           if (n / b =? 0)%N then acc' else to_digits_aux b f (n / b)%N acc'
  end.

Definition to_digits (b n : N) : str := to_digits_aux b (S (N.to_nat (N.log2 n))) n [].

Definition dec_of_N (n : N) : str := to_digits 10 n.
Definition oct_of_N (n : N) : str := to_digits 8 n.
Definition dec_of_nat (n : nat) : str := dec_of_N (N.of_nat n).

(* oct(z)[2:]   ("0o17"[2:] = "17",  "-0o17"[2:] = "o17") *)
Definition py_oct_tail (z : Z) : str :=
  if (z <? 0)%Z then 111%N :: oct_of_N (Z.abs_N z) else oct_of_N (Z.to_N z).

(* the characters int() strips, for code points < 256 (measured: 9-13, 32, 0x85, 0xa0) *)
Definition is_ws (c : N) : bool :=
  ((9 <=? c) && (c <=? 13) || (c =? 32) || (c =? 133) || (c =? 160))%N.

Fixpoint lstrip (s : str) : str :=
  match s with
  | c :: s' => if is_ws c then lstrip s' else s
  | [] => []
  end.
Definition strip (s : str) : str := rev (lstrip (rev (lstrip s))).

(* digits, single underscores only between digits, at least one digit *)
Fixpoint digits_loop (b : N) (s : str) (acc : N) (prev_digit : bool) : option N :=
  match s with
  | [] => if prev_digit then Some acc else None
  | c :: s' =>
      if (c =? 95)%N then (if prev_digit then digits_loop b s' acc false else None)
      else match digit_of b c with
           | Some d => digits_loop b s' (acc * b + d)%N true
           | None => None
           end
  end.

(* int(s) (b = 10) and int(s, 8) (b = 8: optional prefix 0o / 0O, one underscore after it) *)
Definition split_sign (s : str) : bool * str :=
  match s with
  | c :: r => if (c =? 43)%N then (false, r) else if (c =? 45)%N then (true, r) else (false, s)
  | [] => (false, s)
  end.

(* base 8 only: "0o" / "0O", then at most one underscore *)
Definition skip_prefix8 (s : str) : str :=
  match s with
  | c0 :: c1 :: r =>
      if ((c0 =? 48) && ((c1 =? 111) || (c1 =? 79)))%N
      then match r with
           | c2 :: r' => if (c2 =? 95)%N then r' else r
           | [] => r
           end
      else s
  | _ => s
  end.

Definition py_int (b : N) (s : str) : option Z :=
  let '(neg, s2) := split_sign (strip s) in
  let s3 := if (b =? 8)%N then skip_prefix8 s2 else s2 in
  match digits_loop b s3 0%N false with
  | Some n => Some (if neg then (- Z.of_N n)%Z else Z.of_N n)
  | None => None
  end.

(* s[:w] for an arbitrary integer w *)
Definition py_take (w : Z) (s : str) : str :=
  if (w <? 0)%Z then firstn (Z.to_nat (Z.of_nat (length s) + w)) s else firstn (Z.to_nat w) s.

(* the loop of octal_to_dec_concrete_octal:
   for idx, digit in enumerate(reversed(octal_str)): n += 8**idx * int(digit) *)
Fixpoint oct_sum (rs : str) (idx : N) : option N :=
  match rs with
  | [] => Some 0%N
  | c :: r => match digit_of 10 c, oct_sum r (idx + 1)%N with
              | Some d, Some v => Some (8 ^ idx * d + v)%N
              | _, _ => None
              end
  end.
Definition octal_str_value (s : str) : option N := oct_sum (rev s) 0%N.

(* len(tree.filter(lambda t: t.value == needle)) *)
Fixpoint count_lbl (needle : str) (t : tree) : nat :=
  match t with
  | Node l _ _ ks => (if str_eqb l needle then 1 else 0) + list_sum (map (count_lbl needle) ks)
  end.

(* ------------------------------------------------------------------------------------ *)
(* Calls and results                                                                      *)
(* ------------------------------------------------------------------------------------ *)

Inductive targ := TVar | TTree (t : tree).                                (* Variable | DerivationTree *)
Inductive warg := WVar | WTree (t : tree) | WInt (z : Z) | WStr (s : str). (* ... | int | str *)

Inductive call :=
| CCount (in_tree : targ) (needle : str) (num : warg)
| CCrop (t : targ) (w : warg)
| CJust (lj cr : bool) (t : targ) (w : warg) (fill : option str)
| COctal (octal_start decimal_start : str) (o d : targ).

(* SemPredEvalResult before the parser is run.  `key` = index of the predicate argument
   that is the key of the returned assignment. *)
Inductive pre :=
| PBool (b : bool)
| PNotReady
| PNum (key : nat) (label : str)            (* {arg: DerivationTree(label, None)} *)
| PParse (key : nat) (nt : str) (inp : str) (* {arg: tree of parser(nt)(inp)[0] below <start>} *)
| POutOfScope.                              (* open in_tree of count: not modelled *)

Definition count_verdict (c : nat) (z : Z) : bool :=
  if ((z <? 0) || (z <? Z.of_nat c))%Z then false else (Z.of_nat c =? z)%Z.

Definition count (it : targ) (needle : str) (num : warg) : res pre :=
  match it with
  | TVar => Ok PNotReady
  | TTree t =>
      if is_openT t then Ok POutOfScope else
      let c := count_lbl needle t in
      match num with
      | WVar => Ok (PNum 2 (dec_of_nat c))
      | WStr s => match py_int 10 s with
                  | None => Raise AttrErr      (* the assert message evaluates num.value on a str *)
                  | Some z => Ok (PBool (count_verdict c z))
                  end
      | WTree n => match kids n with
                   | _ :: _ => Raise AssertErr
                   | [] => match py_int 10 (lbl n) with
                           | None => Raise AssertErr
                           | Some z => Ok (PBool (count_verdict c z))
                           end
                   end
      | WInt _ => Raise AssertErr
      end
  end.

Definition crop (ta : targ) (w : warg) : res pre :=
  match ta with
  | TVar => Raise AttrErr
  | TTree t =>
      if is_openT t then Ok PNotReady else
      let s := yield t in
      match w with
      | WVar => Ok (PNum 1 (dec_of_nat (length s)))
      | WTree wt =>
          if is_openT wt then Ok PNotReady else
          match py_int 10 (yield wt) with
          | None => Raise ValueErr
          | Some z => if (Z.of_nat (length s) <=? z)%Z then Ok (PBool true)
                      else Ok (PParse 0 (lbl t) (py_take z s))
          end
      | _ => Raise AssertErr
      end
  end.

(* fill_char is None (extend_crop): the string must be non-empty and uniform *)
Definition fill_of (fill : option str) (s : str) : res str :=
  match fill with
  | Some f => Ok f
  | None => match s with
            | [] => Raise AssertErr
            | c :: _ => if forallb (N.eqb c) s then Ok [c] else Raise AssertErr
            end
  end.

(* None = "width tree not complete" *)
Definition width_of (w : warg) : res (option Z) :=
  match w with
  | WInt z => Ok (Some z)
  | WTree wt => if is_openT wt then Ok None
                else match py_int 10 (yield wt) with
                     | Some z => Ok (Some z)
                     | None => Raise ValueErr
                     end
  | _ => Raise AssertErr
  end.

Definition pad (lj : bool) (c : chr) (z : Z) (s : str) : str :=
  let k := Z.to_nat (z - Z.of_nat (length s)) in
  if lj then s ++ repeat c k else repeat c k ++ s.

Definition just_output (lj cr : bool) (c : chr) (z : Z) (s : str) : str :=
  let out := pad lj c z s in
  if cr then (if lj then py_take z out
              else skipn (Z.to_nat (Z.of_nat (length out) - z)) out)
  else out.

Definition just (lj cr : bool) (ta : targ) (w : warg) (fill : option str) : res pre :=
  match ta with
  | TVar => Raise AttrErr
  | TTree t =>
      if is_openT t then Ok PNotReady else
      let s := yield t in
      match w with
      | WVar => Ok (PNum 1 (dec_of_nat (length s)))
      | _ =>
        bind (fill_of fill s) (fun f =>
        match f with
        | [c] =>
            bind (width_of w) (fun oz =>
            match oz with
            | None => Ok PNotReady
            | Some z =>
                if (Z.of_nat (length s) =? z)%Z then Ok (PBool true) else
                if negb cr && negb (Z.of_nat (length (pad lj c z s)) =? z)%Z then Raise AssertErr
                else Ok (PParse 0 (lbl t) (just_output lj cr c z s))
            end)
        | _ => Raise TypeErr
        end)
      end
  end.

Definition conc_octal (ds : str) (ot : tree) : res pre :=
  if is_openT ot then Ok PNotReady else
  match octal_str_value (yield ot) with
  | None => Raise ValueErr
  | Some n => Ok (PParse 1 ds (dec_of_N n))
  end.

Definition conc_decimal (os : str) (dt : tree) : res pre :=
  if is_openT dt then Ok PNotReady else
  match py_int 10 (yield dt) with
  | None => Raise ValueErr
  | Some z => Ok (PParse 0 os (py_oct_tail z))
  end.

(* pinned code:  int(oct(int(str(octal)))[2:]) == int(str(decimal)) *)
Definition both_trees_pinned (ot dt : tree) : res pre :=
  match py_int 10 (yield dt) with
  | None => Raise ValueErr
  | Some dz =>
      match py_int 10 (yield ot) with
      | None => Raise ValueErr
      | Some oz => match py_int 10 (py_oct_tail oz) with
                   | None => Raise ValueErr
                   | Some v => Ok (PBool (v =? dz)%Z)
                   end
      end
  end.

(* proposed fix (proposed_fixes/C20-octal-both-trees.diff):  int(str(octal), 8) == int(str(decimal)) *)
Definition both_trees_fixed (ot dt : tree) : res pre :=
  match py_int 10 (yield dt) with
  | None => Raise ValueErr
  | Some dz =>
      match py_int 8 (yield ot) with
      | None => Raise ValueErr
      | Some oz => Ok (PBool (oz =? dz)%Z)
      end
  end.

(* `fx` selects the both-trees branch: false = pinned code, true = with the proposed fix *)
Definition octal (fx : bool) (os ds : str) (o d : targ) : res pre :=
  match o, d with
  | TVar, TVar => Raise AssertErr
  | TTree ot, TVar => conc_octal ds ot
  | TVar, TTree dt => conc_decimal os dt
  | TTree ot, TTree dt =>
      if is_openT dt then conc_octal ds ot
      else if is_openT ot then conc_decimal os dt
      else if fx then both_trees_fixed ot dt else both_trees_pinned ot dt
  end.

Definition pre_eval (fx : bool) (c : call) : res pre :=
  match c with
  | CCount it needle num => count it needle num
  | CCrop t w => crop t w
  | CJust lj cr t w fill => just lj cr t w fill
  | COctal os ds o d => octal fx os ds o d
  end.

(* ---- composition with the (unmodelled) parser ---- *)
Inductive sres :=
| SBool (b : bool)
| SNotReady
| SAssign (key : nat) (r : tree)
| SOutOfScope.

Definition finish (parse : str -> str -> res tree) (p : pre) : res sres :=
  match p with
  | PBool b => Ok (SBool b)
  | PNotReady => Ok SNotReady
  | PNum k l => Ok (SAssign k (Node l 0%N true []))
  | PParse k nt s => bind (parse nt s) (fun r => Ok (SAssign k r))
  | POutOfScope => Ok SOutOfScope
  end.

Definition sem_eval (parse : str -> str -> res tree) (fx : bool) (c : call) : res sres :=
  bind (pre_eval fx c) (finish parse).

(* ------------------------------------------------------------------------------------ *)
(* Acceptance of an observed implementation outcome (used by the correspondence check)    *)
(* ------------------------------------------------------------------------------------ *)
Inductive iout :=
| IBool (b : bool)
| INotReady
| IAssign (key : nat) (r : tree)
| IRaise (e : exn).

(* Independent description of the languages of the harness grammar's nonterminals, used to
   judge a SyntaxError of the parser:  nt |-> (prefixes, charset, min body length, suffix);
   the language is  p ++ body ++ suffix  with p one of the prefixes, body over charset. *)
Definition lang_entry := (list str * str * nat * str)%type.

Fixpoint strip_prefix (p s : str) : option str :=
  match p, s with
  | [], _ => Some s
  | a :: p', b :: s' => if (a =? b)%N then strip_prefix p' s' else None
  | _ :: _, [] => None
  end.

Definition body_ok (cs : str) (minlen : nat) (suffix s : str) : bool :=
  let k := length s - length suffix in
  Nat.leb (length suffix) (length s) && str_eqb (skipn k s) suffix
  && Nat.leb minlen k && forallb (fun c => existsb (N.eqb c) cs) (firstn k s).

Definition charset_lang (tbl : list (str * lang_entry)) (nt s : str) : bool :=
  match find (fun e => str_eqb nt (fst e)) tbl with
  | Some (_, (ps, cs, minlen, suffix)) =>
      existsb (fun p => match strip_prefix p s with
                        | Some rest => body_ok cs minlen suffix rest
                        | None => false
                        end) ps
  | None => false
  end.

Definition agrees (g : grammar) (inl : str -> str -> bool) (m : res pre) (i : iout) : bool :=
  match m, i with
  | Ok (PBool b), IBool b' => Bool.eqb b b'
  | Ok PNotReady, INotReady => true
  | Ok (PNum k l), IAssign k' r =>
      Nat.eqb k k' && str_eqb (lbl r) l && opn r && match kids r with [] => true | _ => false end
  | Ok (PParse k nt s), IAssign k' r =>
      inl nt s && Nat.eqb k k' && str_eqb (lbl r) nt && str_eqb (yield r) s
      && wf_treeb g r && closedb r
  | Ok (PParse _ nt s), IRaise SyntaxErr => negb (inl nt s)
  | Raise e, IRaise e' => exn_eqb e e'
  | _, _ => false
  end.
