(* C08 wave 3 — END-TO-END composition for the XPath-free surface fragment.
     elab g s = Ok c  ->  ev c = ev (elab_doc s)
   where [elab_doc_nox] is the documented core translation: plain connectives (SugarWalk.walk_doc), NO renaming pass,
   and one `forall v in start` per free nonterminal around the WHOLE formula ([nest]).
   The boolean guard [sugar_guard_nox] re-runs the stages of the model and checks the side conditions of the stage
   theorems on the intermediate formulas (all are violated only by name clashes, class K_fresh_clash / K_pushin_rebind):
     - no XPath expression registered,
     - the binder names are pairwise distinct before both passes of ensure_unique_bound_variables,
     - and/or nodes have >= 2 operands,
     - the closure variables are pairwise distinct, different from `start`, not bound inside the formula, and no
       quantifier ranges over one of its own variables.
   The remaining premise is semantic: no closure variable has an empty domain (class K_pushin_empty, refuted otherwise). *)
From Coq Require Import List NArith Bool Arith Lia.
Import ListNotations.
From ISLA Require Import Str Outcome Tree Grammar Formula Sugar SugarFacts SugarMore SugarTotal SugarClose SugarUniq SugarWalk.

Definition closure_vars (st : wst) : list var := map snd (rev (w_fnt st)).

Definition walk0 (s : sform) : res (wst * cform) := walk (sform_names s) (decls s) (MkW [] []) s.

(* documented core translation, XPath-free fragment *)
Definition elab_doc_nox (s : sform) : res cform :=
  bind (walk_doc (sform_names s) (decls s) (MkW [] []) s) (fun '(st, f) => Ok (nest (closure_vars st) f)).

(* the variables that stand for the free nonterminals of s (innermost closure quantifier first) *)
Definition sugar_closure_vars (s : sform) : list var :=
  match walk0 s with Ok (st, _) => closure_vars st | Raise _ => [] end.

Fixpoint nodupv (l : list var) : bool :=
  match l with [] => true | x :: r => negb (vmem x r) && nodupv r end.
Lemma nodupv_NoDup : forall l, nodupv l = true -> NoDup l.
Proof.
  induction l as [|x l IH]; intros H; [constructor|]. simpl in H. apply andb_true_iff in H as [H1 H2].
  constructor; [apply vmem_false; apply negb_true_iff; exact H1|apply IH; exact H2].
Qed.

Definition uniq_pre (f : cform) : bool := arity_ok f && nodupb (names (binders f)).
Definition close_pre (vs : list var) (f : cform) : bool :=
  nodupv vs && negb (vmem start_c vs) && forallb (fun v => negb (vmem v (bvars f))) vs &&
  negb (vmem start_c (bvars f)) && inq_ok f && arity_ok f.

Definition sugar_guard_nox (s : sform) : bool :=
  match walk0 s with
  | Ok (st, f0) =>
      isnil (w_xp st) && uniq_pre f0 &&
      match uniq (S (fsize f0)) [] f0 with
      | Ok (f1, _) =>
          close_pre (closure_vars st) f1 &&
          match close_fnt (sunion (sform_names s) (names (allvars f1))) st f1 with
          | Ok (f2, _, _) => uniq_pre f2
          | Raise _ => false
          end
      | Raise _ => false
      end
  | Raise _ => false
  end.

Lemma isnil_nil : forall {X} (l : list X), isnil l = true -> l = [].
Proof. intros X [|x l] H; [reflexivity|discriminate]. Qed.

Lemma uniq_pre_use : forall f, uniq_pre f = true ->
  arity_ok f = true /\ NoDup (names (binders f)) /\ (forall x, In x (names (binders f)) -> ~ In x (@nil str)).
Proof.
  intros f H. unfold uniq_pre in H. apply andb_true_iff in H as [H1 H2].
  repeat split; [exact H1|apply nodupb_NoDup; exact H2|intros x _ []].
Qed.

Section Compose.
  Variable D : Type.
  Variable aev : N -> list D -> bool.
  Variable pev : str -> list (D + str) -> bool.
  Variable dom : D -> var -> option mexpr -> list (list (var * D)).
  Variable idom : list D.
  Variable tval : tree -> D.
  Hypothesis dom_ext : forall d v m k, mexpr_eqb m k = true -> dom d v m = dom d v k.
  Hypothesis dom_keys : forall d v m asg, In asg (dom d v m) ->
    forall x, existsb (fun p => var_eqb (fst p) x) asg = vmem x (qbound v m).
  Notation ev := (ev D aev pev dom idom tval).

  (* the stages of elab inside the guard *)
  Lemma guard_stages : forall g s, sugar_guard_nox s = true ->
    exists st f0 f1 f2 f4 U1 U4,
      walk0 s = Ok (st, f0) /\ w_xp st = [] /\
      uniq (S (fsize f0)) [] f0 = Ok (f1, U1) /\ sem_eq D aev pev dom idom tval f1 f0 /\
      close_pre (closure_vars st) f1 = true /\
      close_fnt (sunion (sform_names s) (names (allvars f1))) st f1 =
        Ok (f2, sunion (sform_names s) (names (allvars f1)), []) /\
      uniq (S (fsize f2)) [] f2 = Ok (f4, U4) /\ sem_eq D aev pev dom idom tval f4 f2 /\
      elab g s = (if forallb (fun v => match vk v with VConst => true | _ => false end) (fv f4)
                  then Ok f4 else Raise SyntaxErr).
  Proof.
    intros g s H. unfold sugar_guard_nox in H.
    destruct (walk0 s) as [[st f0]|e] eqn:Ew; [|discriminate].
    apply andb_true_iff in H as [H H3]. apply andb_true_iff in H as [Hx Hp0].
    apply isnil_nil in Hx.
    destruct (uniq_pre_use _ Hp0) as [Ha0 [Hn0 Hu0]].
    destruct (uniq_nodup_sound D aev pev dom idom tval dom_ext (S (fsize f0)) [] f0 (Nat.lt_succ_diag_r _) Ha0 Hn0 Hu0)
      as [f1 [U1 [Eu1 [S1 _]]]].
    rewrite Eu1 in H3. apply andb_true_iff in H3 as [Hc H3].
    assert (Ha1 : arity_ok f1 = true).
    { unfold close_pre in Hc. apply andb_true_iff in Hc as [_ Hc]. exact Hc. }
    destruct (close_fnt_total (sunion (sform_names s) (names (allvars f1))) st f1 Hx Ha1) as [f2 [Ec Ha2]].
    rewrite Ec in H3.
    destruct (uniq_pre_use _ H3) as [_ [Hn2 Hu2]].
    destruct (uniq_nodup_sound D aev pev dom idom tval dom_ext (S (fsize f2)) [] f2 (Nat.lt_succ_diag_r _) Ha2 Hn2 Hu2)
      as [f4 [U4 [Eu4 [S4 _]]]].
    exists st, f0, f1, f2, f4, U1, U4. repeat split; try assumption.
    unfold elab. unfold walk0 in Ew. rewrite Ew. cbn [bind]. rewrite Eu1. cbn [bind]. rewrite Ec. cbn [bind].
    cbn [close_xp]. cbn [bind]. rewrite Eu4. cbn [bind]. reflexivity.
  Qed.

  (* TOTALITY inside the guard: the only possible failure is the final "Unbound variables" SyntaxError *)
  Theorem elab_total_nox : forall g s, sugar_guard_nox s = true ->
    (exists c, elab g s = Ok c) \/ elab g s = Raise SyntaxErr.
  Proof.
    intros g s H. destruct (guard_stages g s H) as [st [f0 [f1 [f2 [f4 [U1 [U4 [_ [_ [_ [_ [_ [_ [_ [_ E]]]]]]]]]]]]]]].
    rewrite E. destruct (forallb _ (fv f4)); [left; exists f4; reflexivity|right; reflexivity].
  Qed.

  Lemma close_pre_use : forall vs f, close_pre vs f = true ->
    NoDup vs /\ ~ In start_c vs /\ (forall v, In v vs -> ~ In v (bvars f)) /\ ~ In start_c (bvars f) /\ inq_ok f = true.
  Proof.
    intros vs f H. unfold close_pre in H.
    apply andb_true_iff in H as [H _]. apply andb_true_iff in H as [H H5]. apply andb_true_iff in H as [H H4].
    apply andb_true_iff in H as [H H3]. apply andb_true_iff in H as [H1 H2].
    repeat split.
    - apply nodupv_NoDup; exact H1.
    - apply vmem_false. apply negb_true_iff. exact H2.
    - intros v Hv. rewrite forallb_forall in H3. apply vmem_false. apply negb_true_iff. apply H3. exact Hv.
    - apply vmem_false. apply negb_true_iff. exact H4.
    - exact H5.
  Qed.

  (* SOUNDNESS: simplified syntax == documented core translation *)
  Theorem sugar_core_noxpath : forall g s c, sugar_guard_nox s = true -> elab g s = Ok c ->
    exists c', elab_doc_nox s = Ok c' /\
      forall rho, (forall v, In v (sugar_closure_vars s) -> K_pushin_empty D dom tval rho v (InVar start_c) None = false) ->
        ev rho c = ev rho c'.
  Proof.
    intros g s c H Hc.
    destruct (guard_stages g s H) as [st [f0 [f1 [f2 [f4 [U1 [U4 [Ew [Hx [Eu1 [S1 [Hcp [Ec [Eu4 [S4 E]]]]]]]]]]]]]]].
    rewrite E in Hc. destruct (forallb _ (fv f4)); [|discriminate]. inversion Hc; subst c.
    unfold walk0 in Ew. destruct (walk_equiv D aev pev dom idom tval dom_ext _ _ _ _ _ _ Ew) as [fd [Ed Sd]].
    exists (nest (closure_vars st) fd). split.
    { unfold elab_doc_nox. rewrite Ed. reflexivity. }
    intros rho Hne. unfold sugar_closure_vars, walk0 in Hne. rewrite Ew in Hne.
    destruct (close_pre_use _ _ Hcp) as [Hnd [Hs [Hbv [Hsb Hok]]]].
    rewrite (S4 rho).
    rewrite (close_fnt_sound D aev pev dom idom tval dom_keys _ st f1 f2 _ _ rho Hx Ec Hnd Hs Hbv Hsb Hok Hne).
    apply (nest_congr D aev pev dom idom tval dom_keys); [exact Hs|].
    intros rho' _. rewrite (S1 rho'). apply Sd.
  Qed.
End Compose.

(* totality does not depend on the semantic parameters *)
Theorem elab_total_noxpath : forall g s, sugar_guard_nox s = true ->
  (exists c, elab g s = Ok c) \/ elab g s = Raise SyntaxErr.
Proof.
  intros g s H.
  exact (elab_total_nox unit (fun _ _ => true) (fun _ _ => true) (fun _ _ _ => []) [] (fun _ => tt)
           (fun _ _ _ _ _ => eq_refl) g s H).
Qed.

(* non-vacuity: `<a> = "x" and <b> = "y"` lies inside the guard; the model gives ISLa's pushed-in AST, the documented
   translation the closure of the whole conjunction; on a domain with a <b> node the semantic premise holds *)
Example sugar_core_noxpath_nonvacuous :
  sugar_guard_nox S_wit = true /\ elab G0 S_wit = Ok sugar_wit /\ elab_doc_nox S_wit = Ok doc_wit /\
  sugar_closure_vars S_wit = [vb; va] /\
  (forall v, In v (sugar_closure_vars S_wit) ->
     K_pushin_empty str (dom_k (fun _ => [121]%N)) (fun _ => []) rho0 v (InVar start_c) None = false).
Proof.
  repeat split; try (vm_compute; reflexivity).
Qed.
