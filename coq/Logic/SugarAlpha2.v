(* C08 wave 4 — soundness of ensure_unique_bound_variables (`uniq`) WITH renaming (main induction).
   See SugarAlpha.v for the substitution lemma and the premise dom_ren. *)
From Coq Require Import List NArith Bool Arith Lia.
Import ListNotations.
From ISLA Require Import Str Outcome Tree Grammar Formula Sugar SugarFacts SugarMore SugarTotal SugarUniq SugarFresh SugarAlpha.

(* ---------- what fresh_vars returns, in terms of the renaming function ---------- *)
Lemma NoDup_map_inj : forall {X Y} (h : X -> Y) l, NoDup (map h l) -> forall a b, In a l -> In b l -> h a = h b -> a = b.
Proof.
  intros X Y h l. induction l as [|x l IH]; intros Hn a b Ha Hb E; [destruct Ha|]. simpl in Hn.
  inversion Hn as [|? ? Hx Hl]; subst. destruct Ha as [->|Ha], Hb as [->|Hb]; auto.
  - exfalso. apply Hx. rewrite E. apply in_map. exact Hb.
  - exfalso. apply Hx. rewrite <- E. apply in_map. exact Ha.
Qed.

Lemma fresh_facts : forall own U1 s U2, fresh_vars own U1 = (s, U2) -> NoDup own ->
  (forall y, In y own -> vk y = VBound) -> (N.of_nat (length U1 + length own) < BIG)%N ->
  (forall z, ~ In z own -> rlook s z = z) /\
  (forall y, In y own -> rlook s y = y \/
     exists j, (N.of_nat j < BIG)%N /\ rlook s y = MkVar VBound (with_idx (strip_idx (vname y)) j) (vtype y)) /\
  (forall y, In y own -> ~ In (vname (rlook s y)) U1) /\
  (forall y1 y2, In y1 own -> In y2 own -> rlook s y1 = rlook s y2 -> y1 = y2) /\
  U2 = U1 ++ names (map (rlook s) own) /\ kt_pres (rlook s).
Proof.
  intros own U1 s U2 H Hnd Hvb Hb.
  destruct (fresh_vars_spec own U1 s U2 H Hb) as [H1 [H2 [H3 [H4 H5]]]].
  assert (Hk : NoDup (map fst s)) by (rewrite H1; exact Hnd).
  assert (Hsnd : map snd s = map (rlook s) own).
  { rewrite <- H1, map_map. apply map_ext_in. intros [a b] Hp. simpl. symmetry. apply rlook_in; assumption. }
  assert (R1 : forall z, ~ In z own -> rlook s z = z) by (intros z Hz; apply rlook_notin; rewrite H1; exact Hz).
  assert (R2 : forall y, In y own -> rlook s y = y \/
     exists j, (N.of_nat j < BIG)%N /\ rlook s y = MkVar VBound (with_idx (strip_idx (vname y)) j) (vtype y)).
  { intros y Hy. rewrite <- H1 in Hy. pose proof (rlook_pair s y Hy Hk) as Hp.
    rewrite Forall_forall in H3. destruct (H3 _ Hp) as [E|[j [Hj E]]]; simpl in E; [left; exact E|right; exists j; auto]. }
  assert (KT : kt_pres (rlook s)).
  { intros z. destruct (vmem z own) eqn:Hz.
    - apply vmem_In in Hz. destruct (R2 z Hz) as [E|[j [_ E]]]; rewrite E; [split; reflexivity|]. simpl.
      apply Hvb in Hz. split; [symmetry; exact Hz|reflexivity].
    - apply vmem_false in Hz. rewrite (R1 z Hz). split; reflexivity. }
  split; [exact R1|]. split; [exact R2|]. split; [|split; [|split; [|exact KT]]].
  - intros y Hy. apply H5. rewrite Hsnd. apply in_map. apply in_map. exact Hy.
  - intros y1 y2 Hy1 Hy2 E. rewrite Hsnd in H4. apply (NoDup_map_inj (rlook s) own); try assumption.
    apply (NoDup_map_inv' vname). exact H4.
  - rewrite H2, Hsnd. reflexivity.
Qed.

Definition goodS (f : cform) : Prop :=
  arity_ok f = true /\ nosh f = true /\ vbound_all f = true /\ inq_ok f = true.
(* a free bound-kind variable is protected from the invented names: its name is in the used set, or no binder of the
   formula has the same stem (fresh names are stem_0, stem_1, ...) *)
Definition scopedS (U : list str) (f : cform) : Prop :=
  forall x, In x (fv f) -> vk x = VBound ->
    In (vname x) U \/ (forall y, In y (binders f) -> strip_idx (vname y) <> strip_idx (vname x)).
Definition smallB (U : list str) (f : cform) : Prop := (N.of_nat (length U + length (binders f)) < BIG)%N.

Lemma filter_none2 : forall {X} (q : X -> bool) l, (forall x, In x l -> q x = false) -> filter q l = [].
Proof.
  intros X q l H. induction l as [|x l IH]; simpl; [reflexivity|].
  rewrite (H x (or_introl eq_refl)). apply IH. intros y Hy. apply H. right; exact Hy.
Qed.

Section Alpha2.
  Variable D : Type.
  Variable aev : N -> list D -> bool.
  Variable pev : str -> list (D + str) -> bool.
  Variable dom : D -> var -> option mexpr -> list (list (var * D)).
  Variable idom : list D.
  Variable tval : tree -> D.
  Hypothesis dom_ext : forall d v m k, mexpr_eqb m k = true -> dom d v m = dom d v k.
  Hypothesis dom_keys : forall d v m asg, In asg (dom d v m) ->
    forall x, existsb (fun p => var_eqb (fst p) x) asg = vmem x (qbound v m).
  (* quantifier domains do not depend on the NAMES of the bound variables *)
  Hypothesis dom_ren : forall s d v m, kt_pres (rlook s) ->
    dom d (rlook s v) (sub_me s m) = map (ren_asg (rlook s)) (dom d v m).
  Notation ev := (ev D aev pev dom idom tval).
  Notation upds := (upds D).
  Notation ival := (ival D tval).
  Notation env := (var -> D).
  Notation sem_eq := (sem_eq D aev pev dom idom tval).

  Lemma upds_ren : forall (r : var -> var) own (rho : env) asg,
    (forall p, In p asg -> In (fst p) own) ->
    (forall y1 y2, In y1 own -> In y2 own -> r y1 = r y2 -> y1 = y2) ->
    forall x, In x own -> existsb (fun p => var_eqb (fst p) x) asg = true ->
      upds rho (ren_asg r asg) (r x) = upds rho asg x.
  Proof.
    intros r own rho asg Hk Hinj x Hx Hex. unfold SugarFacts.upds. induction asg as [|p asg IH]; simpl; [discriminate|].
    simpl in Hex.
    assert (E : var_eqb (r (fst p)) (r x) = var_eqb (fst p) x).
    { destruct (var_eqb (fst p) x) eqn:K.
      - apply var_eqb_eq in K. rewrite K. apply var_eqb_refl.
      - destruct (var_eqb (r (fst p)) (r x)) eqn:K2; [|reflexivity]. apply var_eqb_eq in K2.
        apply Hinj in K2; [|apply Hk; left; reflexivity|exact Hx]. rewrite K2, var_eqb_refl in K. discriminate. }
    rewrite E. destruct (var_eqb (fst p) x); [reflexivity|]. apply IH; [intros q Hq; apply Hk; right; exact Hq|exact Hex].
  Qed.

  Lemma upds_ren_out : forall (r : var -> var) own (rho : env) asg,
    (forall p, In p asg -> In (fst p) own) ->
    forall x', (forall y, In y own -> r y <> x') -> upds rho (ren_asg r asg) x' = rho x'.
  Proof.
    intros r own rho asg Hk x' Hx. apply upds_key. unfold ren_asg. rewrite existsb_map'. simpl.
    destruct (existsb (fun x => var_eqb (r (fst x)) x') asg) eqn:K; [|reflexivity]. exfalso.
    apply existsb_exists in K as [p [Hp E]]. apply var_eqb_eq in E. exact (Hx (fst p) (Hk p Hp) E).
  Qed.

  Definition uniq_spec2 (n : nat) : Prop :=
    forall U f f' U', uniq n U f = Ok (f', U') -> goodS f -> scopedS U f -> smallB U f ->
      sem_eq f' f /\ incl U U' /\ length U' <= length U + length (binders f).

  Lemma quant_core : forall n', uniq_spec2 n' -> forall U v i m b s U2 b'' Ux,
    let own := qbound v m in
    let U1 := sunion U (names (vdiff (vunion own (bvars b)) own)) in
    fresh_vars own U1 = (s, U2) ->
    uniq n' (sunion U (filter (fun x => negb (smem x U1)) U2)) (sub s b) = Ok (b'', Ux) ->
    arity_ok b = true -> isnil (vinter own (bvars b)) = true -> nosh b = true ->
    forallb is_vbound ((v :: me_bound m) ++ binders b) = true ->
    (match i with InVar w => negb (vmem w own) | InTree _ => true end) = true -> inq_ok b = true ->
    (forall x, In x (vdiff (vunion (in_vars i) (fv b)) own) -> vk x = VBound ->
       In (vname x) U \/ (forall y, In y ((v :: me_bound m) ++ binders b) -> strip_idx (vname y) <> strip_idx (vname x))) ->
    (N.of_nat (length U + length ((v :: me_bound m) ++ binders b)) < BIG)%N ->
    kt_pres (rlook s) /\
    (forall rho : env, ival rho (sub_in s i) = ival rho i) /\
    (forall (rho : env) asg, In asg (dom (ival rho i) v m) ->
        ev (upds rho (ren_asg (rlook s) asg)) b'' = ev (upds rho asg) b) /\
    incl U U2 /\ length U2 <= length U + length ((v :: me_bound m) ++ binders b).
  Proof.
    intros n' IH U v i m b s U2 b'' Ux own U1 Hfv Eb Har Hdj Hns Hvb Hi Hob Hsc Hsm.
    set (Ul := sunion U (filter (fun x => negb (smem x U1)) U2)) in *.
    assert (Hnd : NoDup own) by apply qbound_NoDup.
    rewrite forallb_forall in Hvb.
    assert (Hown_sub : forall y, In y own -> In y ((v :: me_bound m) ++ binders b)).
    { intros y Hy. apply qbound_In in Hy as [->|Hy]; [left; reflexivity|right; apply in_or_app; left; exact Hy]. }
    assert (Hvbo : forall y, In y own -> vk y = VBound).
    { intros y Hy. specialize (Hvb y (Hown_sub y Hy)). unfold is_vbound in Hvb. destruct (vk y); congruence. }
    assert (HlenU1 : length U1 <= length U + length (binders b)).
    { unfold U1. pose proof (len_sunion (names (vdiff (vunion own (bvars b)) own)) U) as L1.
      unfold names in L1. rewrite map_length in L1. pose proof (len_vdiff_vunion own (bvars b)) as L2. pose proof (len_bvars b) as L3. unfold names. lia. }
    assert (Hlenown : length own <= S (length (me_bound m))) by apply len_qbound.
    assert (Hlen1 : length U1 + length own <= length U + length ((v :: me_bound m) ++ binders b)).
    { rewrite app_length. simpl. lia. }
    destruct (fresh_facts own U1 s U2 Hfv Hnd Hvbo ltac:(lia)) as [R1 [R2 [R3 [R4 [R5 KT]]]]].
    assert (Hdisj : forall w, In w (bvars b) -> ~ In w own).
    { intros w Hw Ho. exact (proj1 (isnil_vinter _ _) Hdj w Ho Hw). }
    assert (HU1n : forall w, In w (bvars b) -> In (vname w) U1).
    { intros w Hw. unfold U1. apply sunion_In. right. apply in_map. apply vdiff_In. split; [apply vunion_In; right; exact Hw|apply Hdisj; exact Hw]. }
    assert (HUU1 : incl U U1) by (intros x Hx; unfold U1; apply sunion_In; left; exact Hx).
    assert (Hfix : fixes s b).
    { split.
      - intros w Hw. apply R1. apply Hdisj. apply binders_bvars. exact Hw.
      - intros z Hz. apply R1. intros Ho. apply Hz. apply Hvbo. exact Ho. }
    assert (Hnohit : nohit s b).
    { intros z Hz. destruct (vmem z own) eqn:Ez; [|apply R1; apply vmem_false; exact Ez].
      apply vmem_In in Ez. exfalso. apply (R3 z Ez). apply HU1n. exact Hz. }
    assert (HUl : forall x, In x Ul <-> In x U \/ (In x U2 /\ ~ In x U1)).
    { intros x. unfold Ul. rewrite sunion_In, filter_In, negb_true_iff, smem_false. reflexivity. }
    assert (HrUl : forall y, In y own -> In (vname (rlook s y)) Ul).
    { intros y Hy. apply HUl. right. split; [|apply R3; exact Hy]. rewrite R5. apply in_or_app. right.
      apply in_map. apply in_map. exact Hy. }
    (* the recursive call *)
    assert (Hgood : goodS (sub s b)).
    { repeat split.
      - rewrite sub_arity. exact Har.
      - rewrite (sub_nosh s b Hfix). exact Hns.
      - unfold vbound_all. rewrite (sub_binders s b Hfix). apply forallb_forall. intros w Hw. apply Hvb.
        right. apply in_or_app. right; exact Hw.
      - apply sub_inq; assumption. }
    assert (Hscop : scopedS Ul (sub s b)).
    { intros x' Hx' Hk. destruct (fv_sub s b Hfix x' Hx') as [y [Hy E]]. subst x'.
      destruct (vmem y own) eqn:Ey.
      - left. apply HrUl. apply vmem_In; exact Ey.
      - apply vmem_false in Ey. rewrite (R1 y Ey) in *.
        destruct (Hsc y) as [HU|Hst]; [apply vdiff_In; split; [apply vunion_In; right; exact Hy|exact Ey]|exact Hk| |].
        + left. apply HUl. left; exact HU.
        + right. intros y0 Hy0. rewrite (sub_binders s b Hfix) in Hy0. apply Hst. right. apply in_or_app. right; exact Hy0. }
    assert (HlenUl : length Ul <= length U + length own).
    { assert (EF : filter (fun x => negb (smem x U1)) U2 = filter (fun x => negb (smem x U1)) (names (map (rlook s) own))).
      { rewrite R5, filter_app. rewrite (filter_none2 (fun x => negb (smem x U1)) U1); [reflexivity|].
        intros x Hx. apply negb_false_iff. apply smem_In. exact Hx. }
      unfold Ul. rewrite EF.
      pose proof (len_sunion (filter (fun x => negb (smem x U1)) (names (map (rlook s) own))) U) as L1.
      pose proof (len_filter (fun x => negb (smem x U1)) (names (map (rlook s) own))) as L2.
      unfold names in *. rewrite !map_length in L2. lia. }
    assert (Hsmall : smallB Ul (sub s b)).
    { unfold smallB. rewrite (sub_binders s b Hfix). rewrite app_length in Hsm. simpl in Hsm. lia. }
    destruct (IH _ _ _ _ Eb Hgood Hscop Hsmall) as [Sb _].
    split; [exact KT|]. split; [|split; [|split]].
    - intros rho. destruct i as [w|t]; simpl; [|reflexivity]. rewrite R1; [reflexivity|].
      apply negb_true_iff in Hi. apply vmem_false in Hi. exact Hi.
    - intros rho asg Hasg. rewrite (Sb _).
      assert (Hk : forall p, In p asg -> In (fst p) own).
      { intros p Hp. apply vmem_In. rewrite <- (dom_keys _ _ _ _ Hasg). apply existsb_exists. exists p. split; [exact Hp|apply var_eqb_refl]. }
      apply (sub_ev D aev pev dom idom tval dom_keys s b Hfix Hnohit Hob).
      intros x Hx. destruct (vmem x own) eqn:Ex.
      + assert (Ex2 := Ex). apply vmem_In in Ex. symmetry. apply (upds_ren (rlook s) own); try assumption.
        rewrite (dom_keys _ _ _ _ Hasg). exact Ex2.
      + assert (Ex' := Ex). apply vmem_false in Ex. rewrite (R1 x Ex).
        rewrite (upds_key D rho asg x) by (rewrite (dom_keys _ _ _ _ Hasg); exact Ex').
        symmetry. apply (upds_ren_out (rlook s) own); [exact Hk|].
        intros y Hy E. destruct (R2 y Hy) as [E2|[j [Hj E2]]].
        * rewrite E2 in E. subst y. contradiction.
        * rewrite E2 in E.
          assert (Hkx : vk x = VBound) by (rewrite <- E; reflexivity).
          assert (Hnx : vname x = with_idx (strip_idx (vname y)) j) by (rewrite <- E; reflexivity).
          destruct (Hsc x) as [HU|Hst]; [apply vdiff_In; split; [apply vunion_In; right; exact Hx|exact Ex]|exact Hkx| |].
          -- apply (R3 y Hy). rewrite E2. simpl. rewrite <- Hnx. apply HUU1. exact HU.
          -- apply (Hst y (Hown_sub y Hy)). rewrite Hnx. rewrite (strip_with_idx _ _ Hj). reflexivity.
    - intros x Hx. rewrite R5. apply in_or_app. left. apply HUU1. exact Hx.
    - rewrite R5, app_length. unfold names. rewrite !map_length. lia.
  Qed.

  Lemma fold_raise : forall n' fs e, fold_left (ustep n') fs (Raise e) = Raise e.
  Proof. intros n' fs e. induction fs as [|g fs IH]; simpl; [reflexivity|exact IH]. Qed.

  Lemma scopedS_mono : forall U U' f, incl U U' -> scopedS U f -> scopedS U' f.
  Proof. intros U U' f Hi H x Hx Hk. destruct (H x Hx Hk) as [H1|H1]; [left; apply Hi; exact H1|right; exact H1]. Qed.

  Lemma many_sound : forall n', uniq_spec2 n' ->
    forall fs done Ua R, fold_left (ustep n') fs (Ok (done, Ua)) = Ok R ->
      (forall g, In g fs -> goodS g /\ scopedS Ua g) ->
      (N.of_nat (length Ua + length (flat_map binders fs)) < BIG)%N ->
      exists gs U', R = (done ++ gs, U') /\ Forall2 sem_eq gs fs /\ incl Ua U' /\
                    length U' <= length Ua + length (flat_map binders fs).
  Proof.
    intros n' IH. induction fs as [|g fs IHfs]; intros done Ua R H Hg Hsm; simpl in H.
    - inversion H; subst. exists [], Ua. rewrite app_nil_r. repeat split; [constructor|apply incl_refl|simpl; lia].
    - simpl in Hsm. rewrite app_length in Hsm.
      destruct (uniq n' Ua g) as [[g' Ub]|e] eqn:Eg; simpl in H; [|rewrite fold_raise in H; discriminate].
      destruct (Hg g (or_introl eq_refl)) as [Gg Sg].
      destruct (IH _ _ _ _ Eg Gg Sg) as [Sem [Hinc Hlen]]; [unfold smallB; lia|].
      destruct (IHfs (done ++ [g']) Ub R H) as [gs [U' [ER [Sgs [Hinc2 Hlen2]]]]].
      { intros h Hh. destruct (Hg h (or_intror Hh)) as [G1 S1]. split; [exact G1|apply (scopedS_mono Ua); assumption]. }
      { lia. }
      exists (g' :: gs), U'. rewrite <- app_assoc in ER. simpl in ER. repeat split.
      + exact ER.
      + constructor; assumption.
      + intros x Hx. apply Hinc2. apply Hinc. exact Hx.
      + simpl. rewrite app_length. lia.
  Qed.

  Lemma goodS_sub_list : forall (fs : list cform) g, In g fs ->
    (Nat.ltb 1 (length fs) && forallb arity_ok fs = true) -> forallb nosh fs = true ->
    forallb is_vbound (flat_map binders fs) = true -> forallb inq_ok fs = true -> goodS g.
  Proof.
    intros fs g Hg Ha Hn Hv Hi. apply andb_true_iff in Ha as [_ Ha].
    rewrite forallb_forall in Ha, Hn, Hv, Hi. repeat split; [apply Ha; exact Hg|apply Hn; exact Hg| |apply Hi; exact Hg].
    apply forallb_forall. intros w Hw. apply Hv. apply in_flat_map. exists g; auto.
  Qed.

  (* ALPHA-RENAMING THEOREM for ensure_unique_bound_variables *)
  Theorem uniq_sound : forall n, uniq_spec2 n.
  Proof.
    induction n as [|n IH]; intros U f f' U' H Hgood Hsc Hsm; [discriminate|].
    rewrite uniq_S in H. cbv zeta in H. destruct Hgood as [Har [Hns [Hvb Hok]]].
    destruct f as [a|p args|p args|g|fs|fs|v i m b|v i m b|v b|v b];
      try (inversion H; subst; split; [intros rho; reflexivity|split; [apply incl_refl|lia]]).
    - (* not *)
      destruct (uniq n U g) as [[g' Ug]|e] eqn:Eg; simpl in H; [|discriminate]. inversion H; subst.
      destruct (IH _ _ _ _ Eg) as [Sem [Hinc Hlen]]; [repeat split; assumption|exact Hsc|exact Hsm|].
      split; [|split; assumption]. intros rho. simpl. rewrite (Sem rho). reflexivity.
    - (* and *)
      destruct (fold_left (ustep n) fs (Ok ([], U))) as [[gs Ug]|e] eqn:Eg; simpl in H; [|discriminate]. inversion H; subst.
      destruct (many_sound n IH fs [] U _ Eg) as [gs' [U2 [ER [Sgs [Hinc Hlen]]]]].
      { intros g Hg. split; [apply (goodS_sub_list fs); assumption|].
        intros x Hx Hk. destruct (Hsc x) as [H1|H1]; [simpl; apply fvs_In; exists g; auto|exact Hk|left; exact H1|right].
        intros y Hy. apply H1. simpl. apply in_flat_map. exists g; auto. }
      { exact Hsm. }
      simpl in ER. inversion ER; subst. split; [|split; assumption].
      intros rho. rewrite (reduce_and_sound D aev pev dom idom tval dom_ext). simpl. apply forall2_forallb. exact Sgs.
    - (* or *)
      destruct (fold_left (ustep n) fs (Ok ([], U))) as [[gs Ug]|e] eqn:Eg; simpl in H; [|discriminate]. inversion H; subst.
      destruct (many_sound n IH fs [] U _ Eg) as [gs' [U2 [ER [Sgs [Hinc Hlen]]]]].
      { intros g Hg. split; [apply (goodS_sub_list fs); assumption|].
        intros x Hx Hk. destruct (Hsc x) as [H1|H1]; [simpl; apply fvs_In; exists g; auto|exact Hk|left; exact H1|right].
        intros y Hy. apply H1. simpl. apply in_flat_map. exists g; auto. }
      { exact Hsm. }
      simpl in ER. inversion ER; subst. split; [|split; assumption].
      intros rho. simpl. rewrite <- (forall2_existsb D aev pev dom idom tval gs' fs rho Sgs).
      destruct gs' as [|g0 gs'].
      { inversion Sgs; subst. simpl in Har. discriminate. }
      simpl. apply (fold_or_sound D aev pev dom idom tval dom_ext).
    - (* forall *)
      simpl in H, Har, Hns, Hok. unfold vbound_all in Hvb. simpl binders in Hvb, Hsm.
      apply andb_true_iff in Hns as [Hdj Hnb]. apply andb_true_iff in Hok as [Hi Hob].
      match type of H with (let '(s, U2) := fresh_vars ?own ?U1 in _) = _ =>
        destruct (fresh_vars own U1) as [s U2] eqn:Hfv end.
      match type of H with bind ?X _ = _ => destruct X as [[b'' Ux]|e] eqn:Eb end; simpl in H; [|discriminate].
      inversion H; subst f' U'. clear H.
      destruct (quant_core n IH U v i m b s U2 b'' Ux Hfv Eb Har Hdj Hnb Hvb Hi Hob Hsc Hsm) as [KT [Hiv [Hcore [Hinc Hlen]]]].
      split; [|split; [exact Hinc|exact Hlen]].
      intros rho. simpl. rewrite Hiv, (dom_ren s _ v m KT), forallb_map'.
      apply forallb_in_ext2. intros asg Hasg. apply Hcore. exact Hasg.
    - (* exists *)
      simpl in H, Har, Hns, Hok. unfold vbound_all in Hvb. simpl binders in Hvb, Hsm.
      apply andb_true_iff in Hns as [Hdj Hnb]. apply andb_true_iff in Hok as [Hi Hob].
      match type of H with (let '(s, U2) := fresh_vars ?own ?U1 in _) = _ =>
        destruct (fresh_vars own U1) as [s U2] eqn:Hfv end.
      match type of H with bind ?X _ = _ => destruct X as [[b'' Ux]|e] eqn:Eb end; simpl in H; [|discriminate].
      inversion H; subst f' U'. clear H.
      destruct (quant_core n IH U v i m b s U2 b'' Ux Hfv Eb Har Hdj Hnb Hvb Hi Hob Hsc Hsm) as [KT [Hiv [Hcore [Hinc Hlen]]]].
      split; [|split; [exact Hinc|exact Hlen]].
      intros rho. simpl. rewrite Hiv, (dom_ren s _ v m KT), existsb_map'.
      apply existsb_in_ext2. intros asg Hasg. apply Hcore. exact Hasg.
  Qed.
End Alpha2.

(* ---------- totality of the pass (no side condition): with fuel > fsize the function returns ---------- *)
Lemma uniq_total : forall n U f, fsize f < n -> exists f' U', uniq n U f = Ok (f', U').
Proof.
  induction n as [|n IH]; intros U f Hsz; [lia|]. rewrite uniq_S. cbv zeta.
  assert (Hmany : forall fs, (forall g, In g fs -> fsize g < n) -> forall done Ua,
            exists gs U', fold_left (ustep n) fs (Ok (done, Ua)) = Ok (gs, U')).
  { induction fs as [|g fs IHfs]; intros Hs done Ua; simpl; [eexists; eexists; reflexivity|].
    destruct (IH Ua g (Hs g (or_introl eq_refl))) as [g' [Ub E]]. rewrite E. simpl.
    apply IHfs. intros h Hh. apply Hs. right; exact Hh. }
  destruct f as [a|p args|p args|g|fs|fs|v i m b|v i m b|v b|v b]; try (eexists; eexists; reflexivity).
  - simpl in Hsz. destruct (IH U g ltac:(unfold cform in *; lia)) as [g' [U' E]]. rewrite E. simpl. eexists; eexists; reflexivity.
  - destruct (Hmany fs) with (done := @nil cform) (Ua := U) as [gs [U' E]].
    { intros g Hg. pose proof (In_sum fs g Hg). simpl in Hsz. unfold cform in *. lia. }
    rewrite E. simpl. eexists; eexists; reflexivity.
  - destruct (Hmany fs) with (done := @nil cform) (Ua := U) as [gs [U' E]].
    { intros g Hg. pose proof (In_sum fs g Hg). simpl in Hsz. unfold cform in *. lia. }
    rewrite E. simpl. eexists; eexists; reflexivity.
  - destruct (fresh_vars _ _) as [s U2]. simpl in Hsz.
    match goal with |- exists _ _, bind (uniq n ?Ul (sub s b)) _ = _ =>
      destruct (IH Ul (sub s b)) as [b' [Ux E]]; [rewrite sub_fsize; unfold cform in *; lia|rewrite E] end.
    simpl. eexists; eexists; reflexivity.
  - destruct (fresh_vars _ _) as [s U2]. simpl in Hsz.
    match goal with |- exists _ _, bind (uniq n ?Ul (sub s b)) _ = _ =>
      destruct (IH Ul (sub s b)) as [b' [Ux E]]; [rewrite sub_fsize; unfold cform in *; lia|rewrite E] end.
    simpl. eexists; eexists; reflexivity.
Qed.
