(* C07 — model of isla/language.py ISLaUnparser / unparse_isla, isla/z3_helpers.py
   smt_expr_to_str, fresh_variable / register_var_for_free_nonterminal, and of the READING
   side of a string literal (ANTLR STRING token, ISLaEmitter.exitSMTFormula's
   replace(r'\''', ''''''), Z3's SMT-LIB scanner and zstring escape decoding, Z3_get_lstring).
   No proofs here (UnparseFacts.v).  Texts are lists of code points (Base/Str.v).

   Encodings chosen by this property (Formula.v is shared and unchanged):
   * SMT atoms: A := satom = (sx * list var): s-expression + SMTFormula.free_variables_.
   * int predicate argument n: PTree (Node ''int'' |n| (n<0) [])   (see parg_int)
   * an optional `[...]` of a match expression: the harness flattens it into dummy elements
     ''['' , ... , '']'' (its __str__ is exactly that concatenation). *)
From ISLA Require Export Formula Outcome.
From Coq Require Import ZArith.
From Coq Require Import String Ascii.

Import ListNotations.
Open Scope N_scope.

(* ---------- text helpers ---------- *)
Fixpoint lit (s : String.string) : str :=
  match s with String.EmptyString => [] | String.String a r => Ascii.N_of_ascii a :: lit r end.
Arguments lit s%string.

Fixpoint join (sep : str) (ls : list str) : str :=
  match ls with
  | [] => []
  | x :: r => match r with [] => x | _ => x ++ sep ++ join sep r end
  end.

Fixpoint uint_str (u : Decimal.uint) : str :=
  match u with
  | Decimal.Nil => []
  | Decimal.D0 r => 48 :: uint_str r | Decimal.D1 r => 49 :: uint_str r
  | Decimal.D2 r => 50 :: uint_str r | Decimal.D3 r => 51 :: uint_str r
  | Decimal.D4 r => 52 :: uint_str r | Decimal.D5 r => 53 :: uint_str r
  | Decimal.D6 r => 54 :: uint_str r | Decimal.D7 r => 55 :: uint_str r
  | Decimal.D8 r => 56 :: uint_str r | Decimal.D9 r => 57 :: uint_str r
  end.
Definition dec_N (n : N) : str := uint_str (N.to_uint n).          (* str(int), int >= 0 *)
Definition dec_Z (z : Z) : str :=
  match z with Zneg p => 45 :: dec_N (Npos p) | _ => dec_N (Z.to_N z) end.

Definition map_first {X} (f : X -> X) (l : list X) : list X :=
  match l with [] => [] | x :: r => f x :: r end.
Fixpoint map_last {X} (f : X -> X) (l : list X) : list X :=
  match l with [] => [] | x :: r => match r with [] => [f x] | _ => x :: map_last f r end end.
Fixpoint all_but_last {X} (f : X -> X) (l : list X) : list X :=
  match l with [] => [] | x :: r => match r with [] => [x] | _ => f x :: all_but_last f r end end.

Fixpoint mem (x : str) (l : list str) : bool :=
  match l with [] => false | y :: r => str_eqb x y || mem x r end.

(* ---------- Z3 string values <-> text ---------- *)
Definition c_bs : chr := 92.  Definition c_q : chr := 34.  Definition c_u : chr := 117.
Definition c_lb : chr := 123. Definition c_rb : chr := 125.

Definition hexdig (d : N) : chr := if d <? 10 then 48 + d else 87 + d.     (* 0-9 a-f *)
(* most significant first, no leading zeros, EMPTY for 0 (Z3: `while (ch > 0)`) *)
Fixpoint hex_pos (p : positive) (acc : str) (fuel : nat) : str :=
  match fuel with
  | O => acc
  | S k => let n := Npos p in
           match N.div n 16 with
           | N0 => hexdig (N.modulo n 16) :: acc
           | Npos q => hex_pos q (hexdig (N.modulo n 16) :: acc) k
           end
  end.
Definition hex_N (n : N) : str := match n with N0 => [] | Npos p => hex_pos p [] 40 end.

(* Z3_get_lstring (api_seq.cpp): ch == 0 || ch >= 256 || (ch == '\\' && next == 'u') is
   written as \u{hex}; everything else as the byte itself (z3py decodes latin-1). *)
Definition lesc (c : chr) : str := [c_bs; c_u; c_lb] ++ hex_N c ++ [c_rb].
Fixpoint z3_lstring (s : str) : str :=
  match s with
  | [] => []
  | c :: r =>
      (if (c =? 0) || (256 <=? c) || ((c =? c_bs) && match r with d :: _ => d =? c_u | [] => false end)
       then lesc c else [c]) ++ z3_lstring r
  end.

(* str.replace('''', r'\''') *)
Fixpoint esc_quotes (s : str) : str :=
  match s with [] => [] | c :: r => (if c =? c_q then [c_bs; c_q] else [c]) ++ esc_quotes r end.

(* str.replace(r''\u{}'', r''\u{0}'') : leftmost, non-overlapping *)
Fixpoint fix_nul_k (skip : nat) (s : str) : str :=
  match s with
  | [] => []
  | c :: r =>
      match skip with
      | S k => fix_nul_k k r
      | O =>
          match r with
          | d :: e :: f :: _ =>
              if (c =? c_bs) && (d =? c_u) && (e =? c_lb) && (f =? c_rb)
              then [c_bs; c_u; c_lb; 48; c_rb] ++ fix_nul_k 3 r else c :: fix_nul_k 0 r
          | _ => c :: fix_nul_k 0 r
          end
      end
  end.
Definition fix_nul (s : str) : str := fix_nul_k 0 s.

(* smt_expr_to_str on a string value *)
Definition str_lit (s : str) : str := [c_q] ++ fix_nul (esc_quotes (z3_lstring s)) ++ [c_q].

(* --- reading side --- *)
(* ANTLR  STRING: '''' (ESC|.)*? '''' ;  ESC : '\\' [btnr''\\]  — non-greedy, ESC before `.`.
   Input: text AFTER the opening quote; result: (token body, rest after the closing quote) *)
Definition is_esc_letter (c : chr) : bool :=
  (c =? 98) || (c =? 116) || (c =? 110) || (c =? 114) || (c =? c_q) || (c =? c_bs).
Fixpoint lex_body (fuel : nat) (s : str) : option (str * str) :=
  match fuel with
  | O => None
  | S k =>
      match s with
      | [] => None                                        (* token recognition error *)
      | c :: r =>
          if c =? c_q then Some ([], r)
          else match r with
               | d :: r' =>
                   if (c =? c_bs) && is_esc_letter d
                   then match lex_body k r' with Some (b, t) => Some (c :: d :: b, t) | None => None end
                   else match lex_body k r with Some (b, t) => Some (c :: b, t) | None => None end
               | [] => None
               end
      end
  end.
Definition lex_string (s : str) : option (str * str) :=
  match s with
  | c :: r => if c =? c_q then lex_body (S (List.length r)) r else None
  | [] => None
  end.

(* formula_text.replace(r'\''', '''''') *)
Fixpoint isla_prep (s : str) : str :=
  match s with
  | [] => []
  | c :: r =>
      match r with
      | d :: r' => if (c =? c_bs) && (d =? c_q) then c_q :: c_q :: isla_prep r' else c :: isla_prep r
      | [] => [c]
      end
  end.

(* Z3 smt2 scanner, read_string: after the opening quote; `''''` is a quote, a lone `''` ends *)
Fixpoint z3_scan (s : str) : option (str * str) :=
  match s with
  | [] => None                                             (* unexpected end of string *)
  | c :: r =>
      if c =? c_q then
        match r with
        | d :: r' => if d =? c_q then match z3_scan r' with Some (b, t) => Some (c_q :: b, t) | None => None end
                     else Some ([], r)
        | [] => Some ([], [])
        end
      else match z3_scan r with Some (b, t) => Some (c :: b, t) | None => None end
  end.

Definition hexval (c : chr) : option N :=
  if (48 <=? c) && (c <=? 57) then Some (c - 48)
  else if (97 <=? c) && (c <=? 102) then Some (c - 87)
  else if (65 <=? c) && (c <=? 70) then Some (c - 55) else None.

(* zstring::is_escape_char, braces form: up to 5 hex digits then '}' ; value <= 0x2FFFF *)
Fixpoint read_hex (n : nat) (acc : N) (s : str) : option (N * str) :=
  match s with
  | [] => None
  | c :: r =>
      if c =? c_rb then (if acc <=? 196607 then Some (acc, r) else None)
      else match n with
           | O => None
           | S k => match hexval c with Some d => read_hex k (16 * acc + d) r | None => None end
           end
  end.
Definition read_hex4 (s : str) : option (N * str) :=
  match s with
  | a :: b :: c :: d :: r =>
      match hexval a, hexval b, hexval c, hexval d with
      | Some x, Some y, Some z, Some w => Some (4096 * x + 256 * y + 16 * z + w, r)
      | _, _, _, _ => None
      end
  | _ => None
  end.
(* zstring(char const* s): escapes \u{X..}, \uXXXX; any other byte is the character.
   Bytes >= 0x80 are sign-extended by Z3 4.11.2 (char -> unsigned): 0xFFFFFF00 + b.
   The input here is the UTF-8 ENCODING of the text (see utf8). *)
Definition sx_byte (b : N) : chr := if 128 <=? b then 4294967040 + b else b.
Fixpoint z3_unesc_k (skip : nat) (s : str) : str :=
  match s with
  | [] => []
  | c :: r =>
      match skip with
      | S k => z3_unesc_k k r
      | O =>
          match r with
          | d :: r' =>
              if (c =? c_bs) && (d =? c_u) then
                match r' with
                | e :: r'' =>
                    if (e =? c_lb) && negb (match r'' with f :: _ => f =? c_rb | [] => false end) then
                      match read_hex 5 0 r'' with
                      | Some (v, rest) => v :: z3_unesc_k (List.length r - List.length rest) r
                      | None => sx_byte c :: z3_unesc_k 0 r
                      end
                    else match read_hex4 r' with
                         | Some (v, _) => v :: z3_unesc_k 5 r
                         | None => sx_byte c :: z3_unesc_k 0 r
                         end
                | [] => sx_byte c :: z3_unesc_k 0 r
                end
              else sx_byte c :: z3_unesc_k 0 r
          | [] => [sx_byte c]
          end
      end
  end.
Definition z3_unesc (s : str) : str := z3_unesc_k 0 s.

(* Python str -> UTF-8 bytes (what ctypes hands to Z3) *)
Definition utf8c (c : chr) : str :=
  if c <? 128 then [c]
  else if c <? 2048 then [192 + c / 64; 128 + c mod 64]
  else if c <? 65536 then [224 + c / 4096; 128 + (c / 64) mod 64; 128 + c mod 64]
  else [240 + c / 262144; 128 + (c / 4096) mod 64; 128 + (c / 64) mod 64; 128 + c mod 64].
Definition utf8 (s : str) : str := flat_map utf8c s.

(* the whole reading side for a text that starts at the opening quote of a literal:
   ISLa lexer token, emitter's replace, Z3 scanner, Z3 escape decoding.
   Result: the Z3 string value and the text after the token. *)
Definition read_lit (s : str) : option (str * str) :=
  match lex_string s with
  | None => None
  | Some (body, rest) =>
      match z3_scan (utf8 (isla_prep (body ++ [c_q]))) with
      | Some (v, []) => Some (z3_unesc v, rest)
      | _ => None
      end
  end.

(* ---------- smt_expr_to_str ---------- *)
(* KLoopShort ps: an application of kind Z3_OP_RE_LOOP that carries fewer than two parameters
   (`(_ re.loop n)`: at least n; `(re.loop r lo hi)`: bounds as arguments): the code indexes
   f.params()[1] and raises IndexError *)
Inductive opk := KInRe | KSeqConcat | KReConcat | KStrToInt | KLoop (a b : N) | KLoopShort (ps : list N)
               | KPower (a : N) | KOther.
Inductive sx :=
| SVar (n : str)                (* is_z3_var: str(f) *)
| SStr (s : str)                (* is_string_value: the Z3 string as code points *)
| SInt (z : Z) | STrue | SFalse
| SApp (k : opk) (name : str) (args : list sx).    (* name = f.decl().name() *)

Definition is_ws (c : chr) : bool :=
  ((9 <=? c) && (c <=? 13)) || ((28 <=? c) && (c <=? 32)) || (c =? 133) || (c =? 160)
  || (c =? 5760) || ((8192 <=? c) && (c <=? 8202)) || (c =? 8232) || (c =? 8233)
  || (c =? 8239) || (c =? 8287) || (c =? 12288).
Fixpoint lstrip (s : str) : str :=
  match s with c :: r => if is_ws c then lstrip r else s | [] => [] end.
Definition strip (s : str) : str := rev (lstrip (rev (lstrip s))).

Definition op_text (k : opk) (name : str) : str :=
  match k with
  | KInRe => lit "str.in_re"%string | KSeqConcat => lit "str.++"%string | KReConcat => lit "re.++"%string
  | KStrToInt => lit "str.to.int"%string
  | KLoop a b => lit "(_ re.loop "%string ++ dec_N a ++ [32] ++ dec_N b ++ [41]
  | KLoopShort _ => []                       (* not reached: see sx_raises / unparse_res *)
  | KPower a => lit "(_ re.^ "%string ++ dec_N a ++ [41]
  | KOther => name
  end.

Fixpoint smt_str (e : sx) : str :=
  match e with
  | SVar n => n
  | SStr s => str_lit s
  | SInt z => dec_Z z
  | STrue => lit "true"%string
  | SFalse => lit "false"%string
  | SApp k name args =>
      match args with
      | [] => op_text k name
      | _ => strip ([40] ++ op_text k name ++ [32] ++ join [32] (map smt_str args)) ++ [41]
      end
  end.

(* ---------- ISLaUnparser ---------- *)
Definition satom : Type := sx * list var.
Definition cformula := formula satom.

Definition var_str (v : var) : str := match vk v with VDummy => vtype v | _ => vname v end.

Definition parg_int (z : Z) : parg := PTree (Node (lit "int"%string) (Z.abs_N z) (Z.ltb z 0) []).
Definition parg_str (a : parg) : str :=
  match a with
  | PVar v => var_str v
  | PStr s => [c_q] ++ s ++ [c_q]
  | PTree (Node l n neg _) =>
      if str_eqb l (lit "int"%string) then (if neg then 45 :: dec_N n else dec_N n) else l
  end.

(* BindExpression.__str__ *)
Definition melem_str (v : var) : str :=
  match vk v with
  | VDummy => vtype v
  | _ => [c_lb] ++ vtype v ++ [32] ++ vname v ++ [c_rb]
  end.
Definition mexpr_str (m : option mexpr) : str :=
  match m with
  | None => []
  | Some me => [61; c_q] ++ flat_map melem_str (me_elems me) ++ [c_q]
  end.
Definition invar_str (i : invar) : str :=
  match i with InVar v => var_str v | InTree t => lbl t end.

Definition qheader (q : str) (v : var) (i : invar) (m : option mexpr) : str :=
  q ++ [32] ++ vtype v ++ [32] ++ vname v ++ mexpr_str m ++ lit " in "%string ++ invar_str i ++ [58].
Definition indent (l : str) : str := 32 :: 32 :: l.

Definition comb (c : str) (crs : list (list str)) : list str :=
  let crs1 := all_but_last (fun cr => map (cons 32) (map_last (fun l => l ++ 32 :: c) cr)) crs in
  let crs2 := map_first (map_first (fun l => 40 :: tl l)) crs1 in
  let crs3 := map_last (map_last (fun l => l ++ [41])) crs2 in
  List.concat crs3.

Fixpoint unp (f : cformula) : list str :=
  match f with
  | FSmt a => [smt_str (fst a)]
  | FSPred n args | FSemPred n args => [n ++ [40] ++ join [44; 32] (map parg_str args) ++ [41]]
  | FNot g => map_last (fun l => l ++ [41]) (map_first (fun l => lit "not("%string ++ l) (unp g))
  | FAnd fs => comb (lit "and"%string) (map unp fs)
  | FOr fs => comb (lit "or"%string) (map unp fs)
  | FForall v i m b => qheader (lit "forall"%string) v i m :: map indent (unp b)
  | FExists v i m b => qheader (lit "exists"%string) v i m :: map indent (unp b)
  | FForallInt v b => (lit "forall int "%string ++ vname v ++ [58]) :: map indent (unp b)
  | FExistsInt v b => (lit "exists int "%string ++ vname v ++ [58]) :: map indent (unp b)
  end.

(* VariablesCollector.collect order (pre-order) *)
Definition parg_vars (args : list parg) : list var :=
  flat_map (fun a => match a with PVar v => [v] | _ => [] end) args.
Definition mexpr_vars (m : option mexpr) : list var :=
  match m with None => [] | Some me => filter (fun v => vkind_eqb (vk v) VBound) (me_elems me) end.
Definition invar_vars (i : invar) : list var := match i with InVar v => [v] | InTree _ => [] end.
Fixpoint fvars (f : cformula) : list var :=
  match f with
  | FSmt a => snd a
  | FSPred _ args | FSemPred _ args => parg_vars args
  | FNot g => fvars g
  | FAnd fs | FOr fs => flat_map fvars fs
  | FForall v i m b | FExists v i m b => invar_vars i ++ [v] ++ mexpr_vars m ++ fvars b
  | FForallInt v b | FExistsInt v b => v :: fvars b
  end.

Definition is_top_const (v : var) : bool :=
  vkind_eqb (vk v) VConst && negb (str_eqb (vtype v) (lit "NUM"%string)).
Definition first_const (f : cformula) : option var := find is_top_const (fvars f).
Definition start_const : var := MkVar VConst (lit "start"%string) (lit "<start>"%string).

Definition header (f : cformula) : str :=
  match first_const f with
  | Some c => if var_eqb c start_const then []
              else lit "const "%string ++ vname c ++ lit ": "%string ++ vtype c ++ [59; 10; 10]
  | None => []
  end.

Definition unparse (f : cformula) : str := header f ++ join [10] (unp f).

(* ---------- fresh_variable / register_var_for_free_nonterminal ---------- *)
(* Python: while name in used: name = f''{base}_{idx}''; idx += 1   (unbounded loop -> fuel) *)
Fixpoint fresh_loop (fuel : nat) (used : list str) (base name : str) (idx : N) : option str :=
  match fuel with
  | O => None
  | S k => if mem name used then fresh_loop k used base (base ++ [95] ++ dec_N idx) (N.succ idx)
           else Some name
  end.
Definition fresh_name (used : list str) (base : str) : option str :=
  fresh_loop (S (S (List.length used))) used base base 0.

Definition strip_angle (nt : str) : str := removelast (tl nt).       (* nonterminal[1:-1] *)
Fixpoint lookup (k : str) (m : list (str * str)) : option str :=
  match m with [] => None | (a, b) :: r => if str_eqb k a then Some b else lookup k r end.
(* used = self.used_variables | self.vars_for_free_nonterminals : the union with a DICT
   iterates its KEYS (the nonterminals), not the names of the variables already made.
   free : nonterminal -> variable name *)
Definition register_free (used : list str) (free : list (str * str)) (nt : str) : option str :=
  match lookup nt free with
  | Some n => Some n
  | None => fresh_name (used ++ map fst free) (strip_angle nt)
  end.

(* ---------- classes of the recorded defects (guards of the _partial theorems) ---------- *)
(* a backslash directly before a quote or at the end of a string value *)
Fixpoint K_str_bs (s : str) : bool :=
  match s with
  | [] => false
  | c :: r => ((c =? c_bs) && match r with d :: _ => d =? c_q | [] => true end) || K_str_bs r
  end.
(* a character that is printed as a raw non-ASCII byte (128..255) or is not a Z3 character *)
Definition K_str_hi (s : str) : bool :=
  existsb (fun c => ((128 <=? c) && (c <? 256)) || (196607 <? c)) s.
Definition K_str (s : str) : bool := K_str_bs s || K_str_hi s.

Fixpoint sx_strs (e : sx) : list str :=
  match e with SStr s => [s] | SApp _ _ args => flat_map sx_strs args | _ => [] end.
Fixpoint fatoms (f : cformula) : list sx :=
  match f with
  | FSmt a => [fst a]
  | FSPred _ _ | FSemPred _ _ => []
  | FNot g => fatoms g
  | FAnd fs | FOr fs => flat_map fatoms fs
  | FForall _ _ _ b | FExists _ _ _ b | FForallInt _ b | FExistsInt _ b => fatoms b
  end.
Definition K_smt_string (f : cformula) : bool :=
  existsb K_str (flat_map sx_strs (fatoms f)).

(* a terminal of a match expression contains a character with a meaning in the match
   expression / string-token syntax: '' { } [ \   (printed unescaped) *)
Definition mexpr_special (c : chr) : bool :=
  (c =? c_q) || (c =? c_lb) || (c =? c_rb) || (c =? 91) || (c =? c_bs).
Fixpoint fmexprs (f : cformula) : list mexpr :=
  match f with
  | FSmt _ | FSPred _ _ | FSemPred _ _ => []
  | FNot g => fmexprs g
  | FAnd fs | FOr fs => flat_map fmexprs fs
  | FForall _ _ m b | FExists _ _ m b => (match m with Some me => [me] | None => [] end) ++ fmexprs b
  | FForallInt _ b | FExistsInt _ b => fmexprs b
  end.
(* flattened optionals appear as dummies ''['' / '']'' (exactly one character): not counted *)
Definition K_mexpr_terminal (f : cformula) : bool :=
  existsb (fun me => existsb (fun v => vkind_eqb (vk v) VDummy && negb (is_nt (vtype v))
                                       && negb (str_eqb (vtype v) [91]) && negb (str_eqb (vtype v) [93])
                                       && existsb mexpr_special (vtype v)) (me_elems me)) (fmexprs f).

(* a quantifier binds a variable that carries the name of the global constant *)
Fixpoint fbound (f : cformula) : list var :=
  match f with
  | FSmt _ | FSPred _ _ | FSemPred _ _ => []
  | FNot g => fbound g
  | FAnd fs | FOr fs => flat_map fbound fs
  | FForall v _ m b | FExists v _ m b => v :: mexpr_vars m ++ fbound b
  | FForallInt v b | FExistsInt v b => v :: fbound b
  end.
Definition K_shadow_const (f : cformula) : bool :=
  existsb (fun v => str_eqb (vname v) (lit "start"%string)) (fbound f).

(* an SMT atom whose printed form the ISLa grammar cannot read back as the same atom:
   operator names str.< and if (ite) are no tokens of the lexer grammar; `not` is no s-expression
   operator (a `not` below the top of the atom is a parse error) and a top-level `not` over a
   connective is re-built through z3's negation, which rewrites it *)
Definition is_conn (n : str) : bool :=
  mem n [lit "and"; lit "or"; lit "=>"; lit "not"; lit "xor"; lit "if"].
Definition head_name (e : sx) : str := match e with SApp _ n _ => n | _ => [] end.
Fixpoint sx_bad (top : bool) (e : sx) : bool :=
  match e with
  | SApp _ n args =>
      str_eqb n (lit "str.<") || str_eqb n (lit "if")
      || (str_eqb n (lit "not") && (negb top || existsb (fun a => is_conn (head_name a)) args))
      || existsb (sx_bad false) args
  | _ => false
  end.
Definition K_smt_op (f : cformula) : bool := existsb (sx_bad true) (fatoms f).

(* the same numeric-quantifier variable is bound twice (iff / xor / XPath alternatives copy
   sub-formulas; the parser rejects the second declaration) *)
Fixpoint numq_names (f : cformula) : list str :=
  match f with
  | FSmt _ | FSPred _ _ | FSemPred _ _ => []
  | FNot g => numq_names g
  | FAnd fs | FOr fs => flat_map numq_names fs
  | FForall _ _ _ b | FExists _ _ _ b => numq_names b
  | FForallInt v b | FExistsInt v b => vname v :: numq_names b
  end.
Fixpoint has_dup (l : list str) : bool :=
  match l with [] => false | x :: r => mem x r || has_dup r end.
Definition K_numq_dup (f : cformula) : bool := has_dup (numq_names f).

(* smt_expr_to_str raises IndexError (f.params()[1]) on a re.loop with fewer than two parameters;
   parse_isla accepts `((_ re.loop 1) r)` and `(re.loop r 1 2)` *)
Fixpoint sx_raises (e : sx) : bool :=
  match e with
  | SApp k _ args => (match k with KLoopShort _ => true | _ => false end) || existsb sx_raises args
  | _ => false
  end.
Definition K_loop_arity (f : cformula) : bool := existsb sx_raises (fatoms f).

(* unparse_isla with its exception as outcome *)
Definition unparse_res (f : cformula) : res str :=
  if K_loop_arity f then Raise IndexErr else Ok (unparse f).

(* all recorded classes *)
Definition K_any (f : cformula) : bool :=
  K_smt_string f || K_smt_op f || K_mexpr_terminal f || K_shadow_const f || K_numq_dup f
  || K_loop_arity f.
