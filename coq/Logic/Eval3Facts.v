(* C06 — specification and proofs about verdicts on partial (open) derivation trees.
   Models: Logic/Eval.v (evaluate_legacy, by the C03 builder), Logic/Eval3.v (might-match test,
   reachability, atoms with substitutions).

   Specification vocabulary defined here, independently of the models:
   * compl g t t'  : t' is a completion of t with the SAME node identities (every node of t,
                     open leaves included, is found at the same path in t' with the same label
                     and id; an open leaf is replaced by a valid tree of the grammar);
   * reach g A B   : B occurs in an alternative of A or of a nonterminal reachable from A;
   * tv_le         : information order on verdicts, UU below TT and FF.                       *)
From ISLA Require Import Eval3 EvalFacts GrammarFacts FuzzFacts PathFacts TreeFacts.
From Coq Require Import Lia ZArith.

(* ------------------------------------------------------------------ *)
(* completion with node identities                                     *)
(* ------------------------------------------------------------------ *)
Inductive compl (g : grammar) : tree -> tree -> Prop :=
| cp_open : forall A i t', lbl t' = A -> tid t' = i -> wf_tree g t' -> compl g (Node A i true []) t'
| cp_node : forall l i ks ks', Forall2 (compl g) ks ks' -> compl g (Node l i false ks) (Node l i false ks').

(* it is a completion in the sense of the fuzzer specification (C12) *)
Lemma compl_completion g t : forall t', compl g t t' -> completion g t t'.
Proof.
  induction t as [l i o ks IH] using tree_ind'. intros t' H.
  inversion H as [A i' t0 Hl Hi Hw | l' i' ks0 ks' HF]; subst.
  - apply c_open; [reflexivity | assumption].
  - apply c_node. clear H. induction HF as [|k k' r r' Hk _ IHF]; [constructor|].
    inversion IH as [|x y Hx Hy]; subst. constructor; [apply Hx; assumption | apply IHF; assumption].
Qed.

Lemma compl_root g t t' : compl g t t' -> lbl t' = lbl t /\ tid t' = tid t.
Proof. intro H. inversion H; subst; simpl; auto. Qed.

(* every node of t sits at the same path in t', same label and id (open leaves included) *)
Theorem compl_keeps_nodes g : forall p t t' s,
  compl g t t' -> subtree t p = Some s ->
  exists s', subtree t' p = Some s' /\ lbl s' = lbl s /\ tid s' = tid s /\ compl g s s'.
Proof.
  induction p as [|n p IH]; intros t t' s Hc Hs.
  - simpl in Hs. inversion Hs; subst. exists t'. simpl. destruct (compl_root _ _ _ Hc). auto.
  - inversion Hc as [A i t0 Hl Hi Hw | l i ks ks' HF]; subst; simpl in Hs.
    + destruct n; discriminate.
    + destruct (nth_error ks n) as [k|] eqn:E; [|discriminate].
      destruct (Forall2_nth_error _ _ _ _ _ HF E) as (k' & E' & Hk).
      destruct (IH _ _ _ Hk Hs) as (s' & Hs' & Hrest). exists s'. simpl. rewrite E'. auto.
Qed.

(* ------------------------------------------------------------------ *)
(* information order on verdicts; the connectives are monotone         *)
(* ------------------------------------------------------------------ *)
Definition tv_le (x y : TV) : Prop := x = UU \/ x = y.

Lemma tv_le_refl x : tv_le x x.
Proof. right. reflexivity. Qed.

Lemma tv_not_mono x y : tv_le x y -> tv_le (tv_not x) (tv_not y).
Proof. intros [->| ->]; [left | right]; reflexivity. Qed.

Lemma le_exists_ff l l' : Forall2 tv_le l l' -> existsb is_ff l = true -> existsb is_ff l' = true.
Proof.
  induction 1 as [|x y l l' Hxy _ IH]; simpl; [auto|]. intro H.
  apply orb_true_iff in H as [H|H].
  - destruct Hxy as [->| ->]; [discriminate | rewrite H; reflexivity].
  - rewrite (IH H). apply orb_true_r.
Qed.

Lemma le_exists_tt l l' : Forall2 tv_le l l' -> existsb is_tt l = true -> existsb is_tt l' = true.
Proof.
  induction 1 as [|x y l l' Hxy _ IH]; simpl; [auto|]. intro H.
  apply orb_true_iff in H as [H|H].
  - destruct Hxy as [->| ->]; [discriminate | rewrite H; reflexivity].
  - rewrite (IH H). apply orb_true_r.
Qed.

Lemma le_no_uu l l' : Forall2 tv_le l l' -> existsb is_uu l = false -> l' = l.
Proof.
  induction 1 as [|x y l l' Hxy _ IH]; simpl; [auto|]. intro H.
  apply orb_false_iff in H as [H1 H2]. rewrite (IH H2).
  destruct Hxy as [->| ->]; [discriminate | reflexivity].
Qed.

Theorem tv_all_mono l l' : Forall2 tv_le l l' -> tv_le (tv_all l) (tv_all l').
Proof.
  intro H. unfold tv_all. destruct (existsb is_ff l) eqn:Ef.
  - rewrite (le_exists_ff _ _ H Ef). apply tv_le_refl.
  - destruct (existsb is_uu l) eqn:Eu; [left; reflexivity|].
    rewrite (le_no_uu _ _ H Eu), Ef, Eu. apply tv_le_refl.
Qed.

Theorem tv_any_mono l l' : Forall2 tv_le l l' -> tv_le (tv_any l) (tv_any l').
Proof.
  intro H. unfold tv_any. destruct (existsb is_tt l) eqn:Ef.
  - rewrite (le_exists_tt _ _ H Ef). apply tv_le_refl.
  - destruct (existsb is_uu l) eqn:Eu; [left; reflexivity|].
    rewrite (le_no_uu _ _ H Eu), Ef, Eu. apply tv_le_refl.
Qed.

(* ------------------------------------------------------------------ *)
(* reachability                                                        *)
(* ------------------------------------------------------------------ *)
Inductive reach (g : grammar) : str -> str -> Prop :=
| reach_one : forall A B, In B (succs g A) -> reach g A B
| reach_more : forall A C B, In C (succs g A) -> reach g C B -> reach g A B.

Lemma mem_str_In x l : mem_str x l = true <-> In x l.
Proof.
  unfold mem_str. rewrite existsb_exists. split.
  - intros (y & Hy & E). apply str_eqb_eq in E. subst. assumption.
  - intro H. exists x. split; [assumption | apply str_eqb_refl].
Qed.

Lemma add_new_In xs : forall acc x, In x (add_new xs acc) <-> In x xs \/ In x acc.
Proof.
  induction xs as [|y xs IH]; intros acc x; simpl.
  - tauto.
  - destruct (mem_str y acc) eqn:E.
    + rewrite IH. apply mem_str_In in E. split; [tauto|]. intros [[->|H]|H]; auto.
    + rewrite IH, in_app_iff. simpl. tauto.
Qed.

(* every member of the iterated set is reachable, provided the start set is *)
Lemma reach_iter_sound g A n : forall S,
  (forall x, In x S -> reach g A x) -> forall x, In x (reach_iter g n S) -> reach g A x.
Proof.
  induction n as [|n IH]; intros S HS x Hx; simpl in Hx; [auto|].
  apply (IH (reach_step g S)); [|assumption].
  intros y Hy. unfold reach_step in Hy. apply add_new_In in Hy as [Hy|Hy]; [|auto].
  apply in_flat_map in Hy as (C & HC & HyC).
  clear - HS HC HyC. specialize (HS _ HC).
  induction HS as [A B HB | A C' B HC' _ IH'].
  - eapply reach_more; [eassumption | apply reach_one; assumption].
  - eapply reach_more; [eassumption | apply IH'; assumption].
Qed.

Theorem reachb_sound g A B : reachb g A B = true -> reach g A B.
Proof.
  unfold reachb, reach_set. intro H. apply mem_str_In in H.
  eapply reach_iter_sound; [|eassumption].
  intros x Hx. apply add_new_In in Hx as [Hx|[]]. apply reach_one. assumption.
Qed.

Lemma reach_iter_incl g n : forall S x, In x S -> In x (reach_iter g n S).
Proof.
  induction n as [|n IH]; intros S x Hx; simpl; [assumption|].
  apply IH. unfold reach_step. apply add_new_In. auto.
Qed.

(* completeness, under the (decidable, harness-evaluated) closedness of the computed set *)
Theorem reachb_complete g A B :
  set_closedb g (reach_set g A) = true -> reach g A B -> reachb g A B = true.
Proof.
  intros Hc Hr. unfold reachb. apply mem_str_In.
  assert (Hcl : forall C D, In C (reach_set g A) -> In D (succs g C) -> In D (reach_set g A)).
  { intros C D HC HD. unfold set_closedb in Hc. rewrite forallb_forall in Hc.
    specialize (Hc _ HC). rewrite forallb_forall in Hc. apply mem_str_In. apply Hc. assumption. }
  assert (H0 : forall D, In D (succs g A) -> In D (reach_set g A)).
  { intros D HD. unfold reach_set. apply reach_iter_incl. apply add_new_In. auto. }
  revert H0. generalize (reach_set g A) Hcl. clear Hc Hcl. intros S Hcl.
  induction Hr as [A B HB | A C B HC _ IH]; intro H0.
  - apply H0. assumption.
  - apply IH. intros D HD. eapply Hcl; [apply H0; eassumption | assumption].
Qed.

(* ------------------------------------------------------------------ *)
(* the might-match test without match expression, no already-matched set *)
(* ------------------------------------------------------------------ *)
Theorem qmm3_none_spec g ref v ip leaf :
  qmm3 g ref [] v ip None leaf = true <->
  exists node, subtree ref leaf = Some node /\ prefix ip leaf /\ lbl node <> vtype v /\
               reachb g (lbl node) (vtype v) = true.
Proof.
  unfold qmm3. destruct (subtree ref leaf) as [node|]; [|split; [discriminate | intros (n & E & _); discriminate]].
  destruct (prefixb ip leaf) eqn:Ep; simpl.
  - apply prefixb_spec in Ep. destruct (str_eqb (vtype v) (lbl node)) eqn:El.
    + apply str_eqb_eq in El. split; [discriminate|]. intros (n & E & _ & Hne & _). inversion E; subst. congruence.
    + apply str_eqb_neq in El. destruct (reachb g (lbl node) (vtype v)) eqn:Er.
      * split; [|reflexivity]. intros _. exists node. repeat split; auto.
      * split; [discriminate|]. intros (n & E & _ & _ & Hr). inversion E; subst. congruence.
  - split; [discriminate|]. intros (n & _ & Hp & _). apply prefixb_spec in Hp. congruence.
Qed.

(* ------------------------------------------------------------------ *)
(* UNKNOWN is forced: SMT atoms over open trees, quantifiers with a potential match *)
(* ------------------------------------------------------------------ *)
Section Forced.
  Variable A : Type.
  Variable afree : A -> list var.
  Variable aopen : A -> bool.
  Variable aeval : A -> asg -> res TV.
  Variable qmm : var -> path -> option mexpr -> asg -> path -> bool.
  Variable reach' : str -> str -> bool.
  Variable count_open : tree -> str -> Z -> res TV.
  Variable ref : tree.
  Let ev := eval_legacy A afree aopen aeval qmm reach' count_open ref.

  Theorem smt_open_unknown x a : aopen x = true -> ev (FSmt x) a = Ok UU.
  Proof. intro H. unfold ev. simpl. rewrite H, orb_true_r. reflexivity. Qed.

  Theorem smt_unassigned_unknown x a v : In v (afree x) -> dict_mem a v = false -> ev (FSmt x) a = Ok UU.
  Proof.
    intros Hin Hm. unfold ev. simpl.
    assert (E : existsb (fun v => negb (dict_mem a v)) (afree x) = true).
    { apply existsb_exists. exists v. rewrite Hm. auto. }
    rewrite E. reflexivity.
  Qed.

  Definition potential (v : var) (ip : path) (m : option mexpr) (a : asg) : bool :=
    existsb (fun ps => qmm v ip m a (fst ps)) (open_leaves ref).

  (* a universal quantifier with a potential match never gets a definite verdict *)
  Theorem forall_potential_unknown v s ip s0 m b a r :
    find_by_id ref s = Some (ip, s0) -> potential v ip m a = true ->
    ev (FForall v (InTree s) m b) a = Ok r -> r = UU.
  Proof.
    intros Hf Hp. unfold ev. simpl. unfold eval_quant. rewrite Hf.
    match goal with |- context [match ?d with Ok _ => _ | Raise _ => _ end] => destruct d as [news|e] end; [|discriminate].
    match goal with |- context [if ?c then _ else _] => destruct c end; [discriminate|].
    unfold potential in Hp. rewrite Hp. intro H. inversion H. reflexivity.
  Qed.

  (* an existential quantifier with a potential match is never FALSE *)
  Theorem exists_potential_not_false v s ip s0 m b a r :
    find_by_id ref s = Some (ip, s0) -> potential v ip m a = true ->
    ev (FExists v (InTree s) m b) a = Ok r -> r <> FF.
  Proof.
    intros Hf Hp. unfold ev. simpl. unfold eval_quant. rewrite Hf.
    match goal with |- context [match ?d with Ok _ => _ | Raise _ => _ end] => destruct d as [news|e] end; [|discriminate].
    match goal with |- context [if ?c then _ else _] => destruct c end; [discriminate|].
    unfold potential in Hp. rewrite Hp.
    match goal with |- context [collect ?l] => destruct (collect l) as [l0|e] end; [|discriminate].
    intro H. inversion H. destruct (tv_any l0); simpl; discriminate.
  Qed.
End Forced.

(* instantiating the constant with an open reference tree leaves a substitution: the atom is UNKNOWN *)
Theorem ainst3_open cst t x :
  is_openT t = true -> existsb (var_eqb cst) (afree3 x) = true ->
  exists x', ainst3 cst t x = Ok x' /\ aopen3 x' = true.
Proof.
  intros Ho Hf. unfold ainst3. rewrite Hf, Ho. simpl. eexists. split; [reflexivity|].
  unfold aopen3. simpl. rewrite existsb_app. simpl. rewrite Ho. rewrite orb_true_r. reflexivity.
Qed.

Theorem evaluate_smt_open_unknown g T cst x :
  is_openT T = true -> existsb (var_eqb cst) (afree3 x) = true ->
  m3_evaluate g T cst (FSmt x) = Ok UU.
Proof.
  intros Ho Hf. unfold m3_evaluate, evaluate. simpl. rewrite Hf.
  destruct (ainst3_open cst T x Ho Hf) as (x' & E & Hop). rewrite E. simpl.
  rewrite Hop, orb_true_r. reflexivity.
Qed.

(* ------------------------------------------------------------------ *)
(* the six path predicates do not look at the tree                     *)
(* ------------------------------------------------------------------ *)
Definition path_only (name : str) : bool :=
  str_eqb name s_before || str_eqb name s_after || str_eqb name s_inside
  || str_eqb name s_same_position || str_eqb name s_different_position || str_eqb name s_direct_child.

Theorem path_preds_tree_independent ref ref' name args :
  path_only name = true -> spred_call ref name args = spred_call ref' name args.
Proof.
  unfold path_only. rewrite !orb_true_iff, !str_eqb_eq.
  intros [[[[[->| ->]| ->]| ->]| ->]| ->];
    destruct args as [|[p|s] [|[q|s'] [|[r|s''] [|[u|s'''] [|x xs]]]]]; reflexivity.
Qed.

(* ------------------------------------------------------------------ *)
(* the full statement, and its refutation on the faithful model        *)
(* ------------------------------------------------------------------ *)
Definition verdict_stable_stmt : Prop :=
  forall g t t' cst f v,
    wf_tree g t -> compl g t t' -> is_openT t' = false -> uniq_ids t' ->
    m3_evaluate g t cst f = Ok v -> v <> UU -> m3_evaluate g t' cst f = Ok v.

Ltac compl_tac :=
  repeat (first [ apply cp_node | apply Forall2_cons | apply Forall2_nil
                | (apply cp_open; [reflexivity | reflexivity | apply wf_treeb_spec; vm_compute; reflexivity]) ]).

(* SR: grammar {'<start>': ['<a>'], '<a>': ['x<a>', 'y']}, input 'xxy', cut at [(0,)], formula forall <a> v in start: direct_child(v, start); implementation: ('ok', 'TT') on the open tree, ('ok', 'FF') on the completion *)
Definition SR_g : grammar := [([60;115;116;97;114;116;62]%N, [[[60;97;62]%N]]); ([60;97;62]%N, [[[120]%N; [60;97;62]%N]; [[121]%N]])].
Definition SR_t : tree := (Node [60;115;116;97;114;116;62]%N 6%N false [(Node [60;97;62]%N 5%N true [])]).
Definition SR_t' : tree := (Node [60;115;116;97;114;116;62]%N 6%N false [(Node [60;97;62]%N 5%N false [(Node [120]%N 0%N false []); (Node [60;97;62]%N 4%N false [(Node [120]%N 1%N false []); (Node [60;97;62]%N 3%N false [(Node [121]%N 2%N false [])])])])]).
Definition SR_f : formula atom3 := lift3 (FForall (MkVar VBound [118]%N [60;97;62]%N) (InVar (MkVar VConst [115;116;97;114;116]%N [60;115;116;97;114;116;62]%N)) None (FSPred [100;105;114;101;99;116;95;99;104;105;108;100]%N [(PVar (MkVar VBound [118]%N [60;97;62]%N)); (PVar (MkVar VConst [115;116;97;114;116]%N [60;115;116;97;114;116;62]%N))])).
(* NTH: grammar {'<start>': ['<list>'], '<list>': ['<item>', '<item>,<list>'], '<item>': ['<d>', '(<list>)'], '<d>': ['1', '2', '3']}, input '(1,2),3', cut at [(0, 0)], formula exists <item> i in start: (nth("2", i, start) and i = "3"); implementation: ('ok', 'TT') on the open tree, ('ok', 'FF') on the completion *)
Definition NTH_g : grammar := [([60;115;116;97;114;116;62]%N, [[[60;108;105;115;116;62]%N]]); ([60;108;105;115;116;62]%N, [[[60;105;116;101;109;62]%N]; [[60;105;116;101;109;62]%N; [44]%N; [60;108;105;115;116;62]%N]]); ([60;105;116;101;109;62]%N, [[[60;100;62]%N]; [[40]%N; [60;108;105;115;116;62]%N; [41]%N]]); ([60;100;62]%N, [[[49]%N]; [[50]%N]; [[51]%N]])].
Definition NTH_t : tree := (Node [60;115;116;97;114;116;62]%N 18%N false [(Node [60;108;105;115;116;62]%N 17%N false [(Node [60;105;116;101;109;62]%N 11%N true []); (Node [44]%N 12%N false []); (Node [60;108;105;115;116;62]%N 16%N false [(Node [60;105;116;101;109;62]%N 15%N false [(Node [60;100;62]%N 14%N false [(Node [51]%N 13%N false [])])])])])]).
Definition NTH_t' : tree := (Node [60;115;116;97;114;116;62]%N 18%N false [(Node [60;108;105;115;116;62]%N 17%N false [(Node [60;105;116;101;109;62]%N 11%N false [(Node [40]%N 0%N false []); (Node [60;108;105;115;116;62]%N 9%N false [(Node [60;105;116;101;109;62]%N 3%N false [(Node [60;100;62]%N 2%N false [(Node [49]%N 1%N false [])])]); (Node [44]%N 4%N false []); (Node [60;108;105;115;116;62]%N 8%N false [(Node [60;105;116;101;109;62]%N 7%N false [(Node [60;100;62]%N 6%N false [(Node [50]%N 5%N false [])])])])]); (Node [41]%N 10%N false [])]); (Node [44]%N 12%N false []); (Node [60;108;105;115;116;62]%N 16%N false [(Node [60;105;116;101;109;62]%N 15%N false [(Node [60;100;62]%N 14%N false [(Node [51]%N 13%N false [])])])])])]).
Definition NTH_f : formula atom3 := lift3 (FExists (MkVar VBound [105]%N [60;105;116;101;109;62]%N) (InVar (MkVar VConst [115;116;97;114;116]%N [60;115;116;97;114;116;62]%N)) None (FAnd [(FSPred [110;116;104]%N [(PStr [50]%N); (PVar (MkVar VBound [105]%N [60;105;116;101;109;62]%N)); (PVar (MkVar VConst [115;116;97;114;116]%N [60;115;116;97;114;116;62]%N))]); (FSmt (AStr false (SVar (MkVar VBound [105]%N [60;105;116;101;109;62]%N)) (SLit [51]%N)))])).
Definition W_cst3 : var := (MkVar VConst [115;116;97;114;116]%N [60;115;116;97;114;116;62]%N).

(* K_selfrec_open: an open leaf of the quantified, self-reachable type is not reported as a
   potential match; the universal quantifier is TRUE on the open tree, FALSE on `xxy` *)
Theorem selfrec_unstable_refuted :
  wf_tree SR_g SR_t /\ compl SR_g SR_t SR_t' /\ is_openT SR_t' = false /\ uniq_ids SR_t' /\
  m3_evaluate SR_g SR_t W_cst3 SR_f = Ok TT /\ m3_evaluate SR_g SR_t' W_cst3 SR_f = Ok FF /\
  K_selfrec_open atom3 SR_g SR_t SR_f = true /\ K_nth_open atom3 SR_t SR_f = false.
Proof.
  split; [apply wf_treeb_spec; vm_compute; reflexivity|].
  split; [unfold SR_t, SR_t'; compl_tac|].
  split; [vm_compute; reflexivity|].
  split; [apply uniq_idsb_spec; vm_compute; reflexivity|].
  repeat split; vm_compute; reflexivity.
Qed.

(* K_nth_open: nth counts same-label nodes in pre-order; expanding an earlier open leaf shifts the
   count.  The existential is TRUE on `<item>,3` (second <item> is "3") and FALSE on `(1,2),3` *)
Theorem nth_unstable_refuted :
  wf_tree NTH_g NTH_t /\ compl NTH_g NTH_t NTH_t' /\ is_openT NTH_t' = false /\ uniq_ids NTH_t' /\
  m3_evaluate NTH_g NTH_t W_cst3 NTH_f = Ok TT /\ m3_evaluate NTH_g NTH_t' W_cst3 NTH_f = Ok FF /\
  K_nth_open atom3 NTH_t NTH_f = true.
Proof.
  split; [apply wf_treeb_spec; vm_compute; reflexivity|].
  split; [unfold NTH_t, NTH_t'; compl_tac|].
  split; [vm_compute; reflexivity|].
  split; [apply uniq_idsb_spec; vm_compute; reflexivity|].
  repeat split; vm_compute; reflexivity.
Qed.

Theorem verdict_stable_refuted : ~ verdict_stable_stmt.
Proof.
  intro H. destruct selfrec_unstable_refuted as (Hw & Hc & Hcl & Hu & Ht & Hf & _).
  specialize (H _ _ _ _ _ TT Hw Hc Hcl Hu Ht). rewrite Hf in H.
  assert (E : Ok FF = Ok TT) by (apply H; discriminate). discriminate.
Qed.

(* ------------------------------------------------------------------ *)
(* partial stability: the quantifier-free fragment over the six path predicates *)
(* ------------------------------------------------------------------ *)
Section PredFrag.
  Variable A : Type.
  Variable afree : A -> list var.
  Variable aopen : A -> bool.
  Variable aeval : A -> asg -> res TV.
  Variable qmm qmm' : var -> path -> option mexpr -> asg -> path -> bool.
  Variable reach' : str -> str -> bool.
  Variable count_open : tree -> str -> Z -> res TV.

  Fixpoint pfrag (f : formula A) : bool :=
    match f with
    | FSPred n args => path_only n && forallb (fun x => match x with PTree _ => false | _ => true end) args
    | FNot h => pfrag h
    | FAnd fs | FOr fs => forallb pfrag fs
    | _ => false
    end.

  (* the two dictionaries bind the same variables to the same PATHS (the trees may differ: in a
     completion the subtree at a path is the completed subtree) *)
  Definition same_paths (a a' : asg) : Prop :=
    forall v, option_map fst (dict_get a v) = option_map fst (dict_get a' v).

  Lemma arg_inst_same ref ref' a a' x :
    same_paths a a' -> match x with PTree _ => false | _ => true end = true ->
    arg_inst ref a x = arg_inst ref' a' x.
  Proof.
    intros Hs Hx. destruct x as [v|s|t]; [|reflexivity|discriminate]. simpl.
    specialize (Hs v). destruct (dict_get a v) as [[p s]|], (dict_get a' v) as [[p' s']|]; simpl in *;
      try discriminate; [inversion Hs; reflexivity | reflexivity].
  Qed.

  Lemma mapM_arg_inst_same ref ref' a a' args :
    same_paths a a' -> forallb (fun x => match x with PTree _ => false | _ => true end) args = true ->
    mapM (arg_inst ref a) args = mapM (arg_inst ref' a') args.
  Proof.
    intros Hs. induction args as [|x args IH]; simpl; [reflexivity|]. intro H.
    apply andb_true_iff in H as [Hx Hr]. rewrite (arg_inst_same ref ref' a a' x Hs Hx), (IH Hr). reflexivity.
  Qed.

  Theorem pred_frag_stable ref ref' f : forall a a',
    pfrag f = true -> same_paths a a' ->
    eval_legacy A afree aopen aeval qmm reach' count_open ref f a
    = eval_legacy A afree aopen aeval qmm' reach' count_open ref' f a'.
  Proof.
    induction f as [x|n args|n args|h IH|fs IH|fs IH|v i m b IH|v i m b IH|v b IH|v b IH] using formula_ind';
      intros a a' Hf Hs; simpl in Hf; try discriminate.
    - apply andb_true_iff in Hf as [Hn Ha]. simpl. unfold eval_spred.
      rewrite (mapM_arg_inst_same ref ref' a a' args Hs Ha).
      destruct (mapM (arg_inst ref' a') args) as [l|e]; [|reflexivity].
      rewrite (path_preds_tree_independent ref ref' n l Hn). reflexivity.
    - simpl. rewrite (IH a a' Hf Hs). reflexivity.
    - simpl. replace (map (fun g => eval_legacy A afree aopen aeval qmm reach' count_open ref g a) fs)
        with (map (fun g => eval_legacy A afree aopen aeval qmm' reach' count_open ref' g a') fs); [reflexivity|].
      apply map_ext_in. intros g Hg. rewrite Forall_forall in IH. rewrite forallb_forall in Hf.
      symmetry. apply IH; auto.
    - simpl. replace (map (fun g => eval_legacy A afree aopen aeval qmm reach' count_open ref g a) fs)
        with (map (fun g => eval_legacy A afree aopen aeval qmm' reach' count_open ref' g a') fs); [reflexivity|].
      apply map_ext_in. intros g Hg. rewrite Forall_forall in IH. rewrite forallb_forall in Hf.
      symmetry. apply IH; auto.
  Qed.
End PredFrag.

(* non-vacuity: a formula of the fragment and two dictionaries with the same paths *)
Example pfrag_example :
  pfrag atom3 (FAnd [FSPred s_before [PVar W_cst3; PVar W_cst3]; FNot (FSPred s_inside [PVar W_cst3; PVar W_cst3])]) = true
  /\ same_paths [(W_cst3, ([], SR_t))] [(W_cst3, ([], SR_t'))].
Proof. split; [reflexivity|]. intro v. simpl. destruct (var_eqb W_cst3 v); reflexivity. Qed.

Example qmm3_none_example :
  qmm3 NTH_g NTH_t [] (MkVar VBound [118]%N [60;100;62]%N) [] None [0;0] = true.
Proof. vm_compute. reflexivity. Qed.

Example reach_closed_example : reach_closedb NTH_g = true /\ reachb NTH_g [60;105;116;101;109;62]%N [60;105;116;101;109;62]%N = true.
Proof. split; vm_compute; reflexivity. Qed.
