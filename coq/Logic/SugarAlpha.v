(* C08 wave 4 — ALPHA-RENAMING: ensure_unique_bound_variables (`uniq`, blind substitution `sub`, fresh_vars with the
   threaded used-name set) preserves the meaning of every formula WITHOUT SHADOWING whose free variables cannot be hit
   by an invented name.  Technique of C09 (Logic/RewriteMore.v: substitution lemma for capture-free renamings +
   freshness of fresh_vars), redone for the Sugar model's formulas and the abstract evaluation `ev`.
   New spec-side premise dom_ren: quantifier domains are invariant under kind/type-preserving renaming of the bound
   variables (the assignments are renamed accordingly); satisfied by the tree domains dom_t. *)
From Coq Require Import List NArith Bool Arith Lia.
Import ListNotations.
From ISLA Require Import Str Outcome Tree Grammar Formula Sugar SugarFacts SugarMore SugarTotal SugarUniq SugarFresh.

Definition kt_pres (r : var -> var) : Prop := forall z, vk (r z) = vk z /\ vtype (r z) = vtype z.
Definition ren_asg {D} (r : var -> var) (asg : list (var * D)) : list (var * D) :=
  map (fun p => (r (fst p), snd p)) asg.

(* no quantifier re-binds a variable that an enclosing quantifier binds *)
Fixpoint nosh (f : cform) : bool :=
  match f with
  | FNot x => nosh x
  | FAnd fs | FOr fs => forallb nosh fs
  | FForall v i m b | FExists v i m b => isnil (vinter (qbound v m) (bvars b)) && nosh b
  | FForallInt v b | FExistsInt v b => negb (vmem v (bvars b)) && nosh b
  | _ => true
  end.
Definition is_vbound (w : var) : bool := match vk w with VBound => true | _ => false end.
Definition vbound_all (f : cform) : bool := forallb is_vbound (binders f).

Lemma binders_bvars : forall f x, In x (binders f) -> In x (bvars f).
Proof.
  intros f. induction f as [a|n args|n args|g IH|fs IH|fs IH|v i m b IH|v i m b IH|v b IH|v b IH]
    using formula_ind'; intros x H; simpl in *; try contradiction; auto.
  - apply in_flat_map in H as [g [Hg Hx]]. apply fvs_In. exists g. split; [exact Hg|].
    rewrite Forall_forall in IH. apply IH; assumption.
  - apply in_flat_map in H as [g [Hg Hx]]. apply fvs_In. exists g. split; [exact Hg|].
    rewrite Forall_forall in IH. apply IH; assumption.
  - apply vunion_In. destruct H as [->|H]; [left; apply qbound_In; left; reflexivity|].
    apply in_app_iff in H as [H|H]; [left; apply qbound_In; right; exact H|right; apply IH; exact H].
  - apply vunion_In. destruct H as [->|H]; [left; apply qbound_In; left; reflexivity|].
    apply in_app_iff in H as [H|H]; [left; apply qbound_In; right; exact H|right; apply IH; exact H].
  - apply vunion_In. destruct H as [->|H]; [left; left; reflexivity|right; apply IH; exact H].
  - apply vunion_In. destruct H as [->|H]; [left; left; reflexivity|right; apply IH; exact H].
Qed.

(* ---------- lengths ---------- *)
Lemma len_vadd : forall v l, length (vadd v l) <= S (length l).
Proof. intros v l. unfold vadd. destruct (vmem v l); [lia|rewrite app_length; simpl; lia]. Qed.
Lemma len_vunion : forall b a, length (vunion a b) <= length a + length b.
Proof.
  unfold vunion. induction b as [|x b IH]; intros a; simpl; [lia|].
  specialize (IH (vadd x a)). pose proof (len_vadd x a). lia.
Qed.
Lemma len_sadd : forall v l, length (sadd v l) <= S (length l).
Proof. intros v l. unfold sadd. destruct (smem v l); [lia|rewrite app_length; simpl; lia]. Qed.
Lemma len_sunion : forall b a, length (sunion a b) <= length a + length b.
Proof.
  unfold sunion. induction b as [|x b IH]; intros a; simpl; [lia|].
  specialize (IH (sadd x a)). pose proof (len_sadd x a). lia.
Qed.
Lemma len_filter : forall {X} (p : X -> bool) l, length (filter p l) <= length l.
Proof. intros X p l. induction l as [|x l IH]; simpl; [lia|]. destruct (p x); simpl; lia. Qed.

Lemma len_fold_vunion : forall (h k : cform -> list var) fs, Forall (fun g => length (h g) <= length (k g)) fs ->
  forall acc, length (fold_left vunion (map h fs) acc) <= length acc + length (flat_map k fs).
Proof.
  intros h k fs H. induction H as [|g fs Hg Hfs IH]; intros acc; simpl; [lia|].
  specialize (IH (vunion acc (h g))). pose proof (len_vunion (h g) acc). rewrite app_length. lia.
Qed.

Lemma len_bvars : forall f, length (bvars f) <= length (binders f).
Proof.
  intros f. induction f as [a|n args|n args|g IH|fs IH|fs IH|v i m b IH|v i m b IH|v b IH|v b IH]
    using formula_ind'; simpl; try lia.
  - pose proof (len_fold_vunion bvars binders fs IH []). simpl in *. lia.
  - pose proof (len_fold_vunion bvars binders fs IH []). simpl in *. lia.
  - pose proof (len_vunion (bvars b) (qbound v m)). unfold qbound in *. pose proof (len_vunion (me_bound m) [v]).
    rewrite app_length. simpl in *. lia.
  - pose proof (len_vunion (bvars b) (qbound v m)). unfold qbound in *. pose proof (len_vunion (me_bound m) [v]).
    rewrite app_length. simpl in *. lia.
  - pose proof (len_vunion (bvars b) [v]). simpl in *. lia.
  - pose proof (len_vunion (bvars b) [v]). simpl in *. lia.
Qed.

Lemma len_qbound : forall v m, length (qbound v m) <= S (length (me_bound m)).
Proof. intros v m. unfold qbound. pose proof (len_vunion (me_bound m) [v]). simpl in *. lia. Qed.

Lemma len_vdiff_vunion : forall a b, length (vdiff (vunion a b) a) <= length b.
Proof.
  intros a b. unfold vdiff, vunion.
  assert (G : forall b acc, length (filter (fun v => negb (vmem v a)) (fold_left (fun acc v => vadd v acc) b acc)) <=
                            length (filter (fun v => negb (vmem v a)) acc) + length b).
  { induction b0 as [|x b0 IH]; intros acc; simpl; [lia|]. specialize (IH (vadd x acc)).
    assert (length (filter (fun v => negb (vmem v a)) (vadd x acc)) <= S (length (filter (fun v => negb (vmem v a)) acc))).
    { unfold vadd. destruct (vmem x acc); [lia|]. rewrite filter_app, app_length. simpl. destruct (negb (vmem x a)); simpl; lia. }
    lia. }
  specialize (G b a).
  assert (E : filter (fun v => negb (vmem v a)) a = []).
  { apply filter_none. intros x Hx. apply negb_false_iff. apply vmem_In. exact Hx. }
  rewrite E in G. simpl in G. exact G.
Qed.

Lemma vadd_NoDup : forall v l, NoDup l -> NoDup (vadd v l).
Proof.
  intros v l H. unfold vadd. destruct (vmem v l) eqn:E; [exact H|].
  apply vmem_false in E. induction H as [|x l Hx Hl IH]; simpl; [constructor; [intros []|constructor]|].
  constructor.
  - intros Hin. apply in_app_iff in Hin as [Hin|[->|[]]]; [contradiction|]. apply E. left; reflexivity.
  - apply IH. intros Hin. apply E. right; exact Hin.
Qed.
Lemma vunion_NoDup : forall b a, NoDup a -> NoDup (vunion a b).
Proof. unfold vunion. induction b as [|x b IH]; intros a H; simpl; [exact H|]. apply IH. apply vadd_NoDup. exact H. Qed.
Lemma qbound_NoDup : forall v m, NoDup (qbound v m).
Proof. intros v m. unfold qbound. apply vunion_NoDup. constructor; [intros []|constructor]. Qed.

Lemma me_bound_vbound : forall m x, In x (me_bound m) -> vk x = VBound.
Proof. intros [e|] x H; simpl in H; [|destruct H]. apply filter_In in H as [_ H]. destruct (vk x); congruence. Qed.

(* ---------- the blind substitution on a formula whose binders it does not touch ---------- *)
Definition fixes (s : ren) (f : cform) : Prop :=
  (forall w, In w (binders f) -> rlook s w = w) /\ (forall z, vk z <> VBound -> rlook s z = z).

Lemma fixes_sub : forall s f g, fixes s f -> (forall w, In w (binders g) -> In w (binders f)) -> fixes s g.
Proof. intros s f g [H1 H2] Hi. split; [intros w Hw; apply H1; apply Hi; exact Hw|exact H2]. Qed.

Lemma sub_me_fix : forall s m, (forall w, In w (me_bound m) -> rlook s w = w) ->
  (forall z, vk z <> VBound -> rlook s z = z) -> sub_me s m = m.
Proof.
  intros s [[el tr]|] H1 H2; simpl in *; [|reflexivity]. f_equal. f_equal.
  rewrite <- (map_id el) at 2. apply map_ext_in. intros x Hx.
  destruct (vk x) eqn:K; try (apply H2; congruence).
  apply H1. apply filter_In. split; [exact Hx|rewrite K; reflexivity].
Qed.

Lemma fixes_forall : forall s (fa : bool) v i m b, fixes s ((if fa then FForall else FExists) v i m b) ->
  rlook s v = v /\ sub_me s m = m /\ fixes s b.
Proof.
  intros s fa v i m b [H1 H2].
  assert (Hb : forall w, In w (binders (FForall v i m b)) -> rlook s w = w) by (destruct fa; exact H1).
  repeat split.
  - apply Hb. left; reflexivity.
  - apply sub_me_fix; [|exact H2]. intros w Hw. apply Hb. right. apply in_or_app. left; exact Hw.
  - intros w Hw. apply Hb. right. apply in_or_app. right; exact Hw.
  - exact H2.
Qed.

Lemma fixes_int : forall s (fa : bool) v b, fixes s ((if fa then FForallInt else FExistsInt) v b) ->
  rlook s v = v /\ fixes s b.
Proof.
  intros s fa v b [H1 H2].
  assert (Hb : forall w, In w (binders (FForallInt v b)) -> rlook s w = w) by (destruct fa; exact H1).
  repeat split; [apply Hb; left; reflexivity|intros w Hw; apply Hb; right; exact Hw|exact H2].
Qed.

Lemma fixes_list : forall s fs g, (forall w, In w (flat_map binders fs) -> rlook s w = w) ->
  (forall z, vk z <> VBound -> rlook s z = z) -> In g fs -> fixes s g.
Proof. intros s fs g H1 H2 Hg. split; [|exact H2]. intros w Hw. apply H1. apply in_flat_map. exists g; auto. Qed.

Lemma sub_fsize : forall s f, fsize (sub s f) = fsize f.
Proof.
  intros s f. induction f as [a|n args|n args|g IH|fs IH|fs IH|v i m b IH|v i m b IH|v b IH|v b IH]
    using formula_ind'; simpl; try reflexivity; try (rewrite IH; reflexivity).
  - f_equal. rewrite map_map. f_equal. apply map_ext_in. intros g Hg. rewrite Forall_forall in IH. apply IH; exact Hg.
  - f_equal. rewrite map_map. f_equal. apply map_ext_in. intros g Hg. rewrite Forall_forall in IH. apply IH; exact Hg.
Qed.

Lemma forallb_map' : forall {X Y} (p : Y -> bool) (h : X -> Y) l, forallb p (map h l) = forallb (fun x => p (h x)) l.
Proof. intros X Y p h l. induction l as [|x l IH]; simpl; [reflexivity|]. rewrite IH. reflexivity. Qed.
Lemma existsb_map' : forall {X Y} (p : Y -> bool) (h : X -> Y) l, existsb p (map h l) = existsb (fun x => p (h x)) l.
Proof. intros X Y p h l. induction l as [|x l IH]; simpl; [reflexivity|]. rewrite IH. reflexivity. Qed.

Lemma sub_arity : forall s f, arity_ok (sub s f) = arity_ok f.
Proof.
  intros s f. induction f as [a|n args|n args|g IH|fs IH|fs IH|v i m b IH|v i m b IH|v b IH|v b IH]
    using formula_ind'; simpl; try reflexivity; try exact IH.
  - rewrite map_length, forallb_map'. f_equal. apply forallb_in_ext. intros g Hg. rewrite Forall_forall in IH. apply IH; exact Hg.
  - rewrite map_length, forallb_map'. f_equal. apply forallb_in_ext. intros g Hg. rewrite Forall_forall in IH. apply IH; exact Hg.
Qed.

Lemma flat_map_ext_in' : forall {X Y} (h k : X -> list Y) l, (forall x, In x l -> h x = k x) -> flat_map h l = flat_map k l.
Proof. intros X Y h k l H. induction l as [|x l IH]; simpl; [reflexivity|].
       rewrite (H x (or_introl eq_refl)), IH; [reflexivity|]. intros y Hy. apply H. right; exact Hy. Qed.

Lemma sub_binders : forall s f, fixes s f -> binders (sub s f) = binders f.
Proof.
  intros s f. induction f as [a|n args|n args|g IH|fs IH|fs IH|v i m b IH|v i m b IH|v b IH|v b IH]
    using formula_ind'; intros Hf; simpl; try reflexivity.
  - apply IH. exact Hf.
  - destruct Hf as [H1 H2]. simpl in H1. rewrite flat_map_concat_map, map_map, <- flat_map_concat_map.
    apply flat_map_ext_in'. intros g Hg. rewrite Forall_forall in IH. apply IH; [exact Hg|]. apply (fixes_list s fs); assumption.
  - destruct Hf as [H1 H2]. simpl in H1. rewrite flat_map_concat_map, map_map, <- flat_map_concat_map.
    apply flat_map_ext_in'. intros g Hg. rewrite Forall_forall in IH. apply IH; [exact Hg|]. apply (fixes_list s fs); assumption.
  - destruct (fixes_forall s true v i m b Hf) as [Hv [Hm Hb]]. rewrite Hv, Hm, (IH Hb). reflexivity.
  - destruct (fixes_forall s false v i m b Hf) as [Hv [Hm Hb]]. rewrite Hv, Hm, (IH Hb). reflexivity.
  - destruct (fixes_int s true v b Hf) as [Hv Hb]. rewrite Hv, (IH Hb). reflexivity.
  - destruct (fixes_int s false v b Hf) as [Hv Hb]. rewrite Hv, (IH Hb). reflexivity.
Qed.

Lemma sub_bvars : forall s f, fixes s f -> bvars (sub s f) = bvars f.
Proof.
  intros s f. induction f as [a|n args|n args|g IH|fs IH|fs IH|v i m b IH|v i m b IH|v b IH|v b IH]
    using formula_ind'; intros Hf; simpl; try reflexivity.
  - apply IH. exact Hf.
  - destruct Hf as [H1 H2]. simpl in H1. rewrite map_map. f_equal.
    apply map_ext_in. intros g Hg. rewrite Forall_forall in IH. apply IH; [exact Hg|]. apply (fixes_list s fs); assumption.
  - destruct Hf as [H1 H2]. simpl in H1. rewrite map_map. f_equal.
    apply map_ext_in. intros g Hg. rewrite Forall_forall in IH. apply IH; [exact Hg|]. apply (fixes_list s fs); assumption.
  - destruct (fixes_forall s true v i m b Hf) as [Hv [Hm Hb]]. rewrite Hv, Hm, (IH Hb). reflexivity.
  - destruct (fixes_forall s false v i m b Hf) as [Hv [Hm Hb]]. rewrite Hv, Hm, (IH Hb). reflexivity.
  - destruct (fixes_int s true v b Hf) as [Hv Hb]. rewrite Hv, (IH Hb). reflexivity.
  - destruct (fixes_int s false v b Hf) as [Hv Hb]. rewrite Hv, (IH Hb). reflexivity.
Qed.

Lemma sub_nosh : forall s f, fixes s f -> nosh (sub s f) = nosh f.
Proof.
  intros s f. induction f as [a|n args|n args|g IH|fs IH|fs IH|v i m b IH|v i m b IH|v b IH|v b IH]
    using formula_ind'; intros Hf; simpl; try reflexivity.
  - apply IH. exact Hf.
  - destruct Hf as [H1 H2]. simpl in H1. rewrite forallb_map'. apply forallb_in_ext. intros g Hg.
    rewrite Forall_forall in IH. apply IH; [exact Hg|]. apply (fixes_list s fs); assumption.
  - destruct Hf as [H1 H2]. simpl in H1. rewrite forallb_map'. apply forallb_in_ext. intros g Hg.
    rewrite Forall_forall in IH. apply IH; [exact Hg|]. apply (fixes_list s fs); assumption.
  - destruct (fixes_forall s true v i m b Hf) as [Hv [Hm Hb]]. rewrite Hv, Hm, (IH Hb), (sub_bvars s b Hb). reflexivity.
  - destruct (fixes_forall s false v i m b Hf) as [Hv [Hm Hb]]. rewrite Hv, Hm, (IH Hb), (sub_bvars s b Hb). reflexivity.
  - destruct (fixes_int s true v b Hf) as [Hv Hb]. rewrite Hv, (IH Hb), (sub_bvars s b Hb). reflexivity.
  - destruct (fixes_int s false v b Hf) as [Hv Hb]. rewrite Hv, (IH Hb), (sub_bvars s b Hb). reflexivity.
Qed.

(* r maps nothing else onto a bound variable of f *)
Definition nohit (s : ren) (f : cform) : Prop := forall z, In (rlook s z) (bvars f) -> rlook s z = z.

Lemma nohit_sub : forall s f g, nohit s f -> (forall w, In w (bvars g) -> In w (bvars f)) -> nohit s g.
Proof. intros s f g H Hi z Hz. apply H. apply Hi. exact Hz. Qed.

Lemma sub_inq : forall s f, fixes s f -> nohit s f -> inq_ok f = true -> inq_ok (sub s f) = true.
Proof.
  intros s f. induction f as [a|n args|n args|g IH|fs IH|fs IH|v i m b IH|v i m b IH|v b IH|v b IH]
    using formula_ind'; intros Hf Hn Hok; simpl in *; try reflexivity.
  - apply IH; assumption.
  - destruct Hf as [H1 H2]. simpl in H1. rewrite forallb_map'. apply forallb_forall. intros g Hg.
    rewrite Forall_forall in IH. rewrite forallb_forall in Hok. apply IH; [exact Hg|apply (fixes_list s fs); assumption| |apply Hok; exact Hg].
    apply (nohit_sub s (FAnd fs)); [exact Hn|]. intros w Hw. simpl. apply fvs_In. exists g; auto.
  - destruct Hf as [H1 H2]. simpl in H1. rewrite forallb_map'. apply forallb_forall. intros g Hg.
    rewrite Forall_forall in IH. rewrite forallb_forall in Hok. apply IH; [exact Hg|apply (fixes_list s fs); assumption| |apply Hok; exact Hg].
    apply (nohit_sub s (FOr fs)); [exact Hn|]. intros w Hw. simpl. apply fvs_In. exists g; auto.
  - destruct (fixes_forall s true v i m b Hf) as [Hv [Hm Hb]]. rewrite Hv, Hm.
    apply andb_true_iff in Hok as [Hi Hob]. apply andb_true_iff. split.
    + destruct i as [w|t]; simpl; [|reflexivity]. apply negb_true_iff. apply vmem_false. intros Hin.
      assert (E : rlook s w = w). { apply Hn. simpl. apply vunion_In. left; exact Hin. }
      rewrite E in Hin. apply negb_true_iff in Hi. apply vmem_false in Hi. contradiction.
    + apply IH; [exact Hb| |exact Hob]. apply (nohit_sub s (FForall v i m b)); [exact Hn|].
      intros w Hw. simpl. apply vunion_In. right; exact Hw.
  - destruct (fixes_forall s false v i m b Hf) as [Hv [Hm Hb]]. rewrite Hv, Hm.
    apply andb_true_iff in Hok as [Hi Hob]. apply andb_true_iff. split.
    + destruct i as [w|t]; simpl; [|reflexivity]. apply negb_true_iff. apply vmem_false. intros Hin.
      assert (E : rlook s w = w). { apply Hn. simpl. apply vunion_In. left; exact Hin. }
      rewrite E in Hin. apply negb_true_iff in Hi. apply vmem_false in Hi. contradiction.
    + apply IH; [exact Hb| |exact Hob]. apply (nohit_sub s (FExists v i m b)); [exact Hn|].
      intros w Hw. simpl. apply vunion_In. right; exact Hw.
  - destruct (fixes_int s true v b Hf) as [Hv Hb]. apply IH; [exact Hb| |exact Hok].
    apply (nohit_sub s (FForallInt v b)); [exact Hn|]. intros w Hw. simpl. apply vunion_In. right; exact Hw.
  - destruct (fixes_int s false v b Hf) as [Hv Hb]. apply IH; [exact Hb| |exact Hok].
    apply (nohit_sub s (FExistsInt v b)); [exact Hn|]. intros w Hw. simpl. apply vunion_In. right; exact Hw.
Qed.

(* free variables of the renamed formula are images of free variables *)
Lemma fv_sub : forall s f, fixes s f -> forall x, In x (fv (sub s f)) -> exists y, In y (fv f) /\ x = rlook s y.
Proof.
  intros s f. induction f as [a|n args|n args|g IH|fs IH|fs IH|v i m b IH|v i m b IH|v b IH|v b IH]
    using formula_ind'; intros Hf x Hx; simpl in *.
  - apply vunion_In in Hx as [[]|Hx]. apply in_map_iff in Hx as [y [E Hy]]. exists y. split; [apply vunion_In; right; exact Hy|auto].
  - apply parg_vars_In in Hx. apply in_map_iff in Hx as [[y|t|t] [E Hy]]; simpl in E; try discriminate.
    inversion E; subst. exists y. split; [apply parg_vars_In; exact Hy|reflexivity].
  - apply parg_vars_In in Hx. apply in_map_iff in Hx as [[y|t|t] [E Hy]]; simpl in E; try discriminate.
    inversion E; subst. exists y. split; [apply parg_vars_In; exact Hy|reflexivity].
  - apply IH; assumption.
  - destruct Hf as [H1 H2]. simpl in H1. rewrite map_map in Hx. apply (fvs_In x (fun g => fv (sub s g))) in Hx as [g [Hg Hx]].
    rewrite Forall_forall in IH. destruct (IH g Hg (fixes_list s fs g H1 H2 Hg) x Hx) as [y [Hy E]].
    exists y. split; [apply fvs_In; exists g; auto|exact E].
  - destruct Hf as [H1 H2]. simpl in H1. rewrite map_map in Hx. apply (fvs_In x (fun g => fv (sub s g))) in Hx as [g [Hg Hx]].
    rewrite Forall_forall in IH. destruct (IH g Hg (fixes_list s fs g H1 H2 Hg) x Hx) as [y [Hy E]].
    exists y. split; [apply fvs_In; exists g; auto|exact E].
  - destruct (fixes_forall s true v i m b Hf) as [Hv [Hm Hb]]. rewrite Hv, Hm in Hx.
    apply vdiff_In in Hx as [Hx Hq]. apply vunion_In in Hx as [Hx|Hx].
    + destruct i as [w|t]; simpl in Hx; [|destruct Hx]. destruct Hx as [<-|[]]. exists w. split; [|reflexivity].
      apply vdiff_In. split; [apply vunion_In; left; left; reflexivity|]. intros Hw. apply Hq.
      destruct Hf as [H1 _]. rewrite H1; [exact Hw|]. simpl. apply qbound_In in Hw as [->|Hw]; [left; reflexivity|right; apply in_or_app; left; exact Hw].
    + destruct (IH Hb x Hx) as [y [Hy E]]. exists y. split; [|exact E]. apply vdiff_In. split; [apply vunion_In; right; exact Hy|].
      intros Hw. apply Hq. subst x. destruct Hf as [H1 _]. rewrite H1; [exact Hw|]. simpl.
      apply qbound_In in Hw as [->|Hw]; [left; reflexivity|right; apply in_or_app; left; exact Hw].
  - destruct (fixes_forall s false v i m b Hf) as [Hv [Hm Hb]]. rewrite Hv, Hm in Hx.
    apply vdiff_In in Hx as [Hx Hq]. apply vunion_In in Hx as [Hx|Hx].
    + destruct i as [w|t]; simpl in Hx; [|destruct Hx]. destruct Hx as [<-|[]]. exists w. split; [|reflexivity].
      apply vdiff_In. split; [apply vunion_In; left; left; reflexivity|]. intros Hw. apply Hq.
      destruct Hf as [H1 _]. rewrite H1; [exact Hw|]. simpl. apply qbound_In in Hw as [->|Hw]; [left; reflexivity|right; apply in_or_app; left; exact Hw].
    + destruct (IH Hb x Hx) as [y [Hy E]]. exists y. split; [|exact E]. apply vdiff_In. split; [apply vunion_In; right; exact Hy|].
      intros Hw. apply Hq. subst x. destruct Hf as [H1 _]. rewrite H1; [exact Hw|]. simpl.
      apply qbound_In in Hw as [->|Hw]; [left; reflexivity|right; apply in_or_app; left; exact Hw].
  - destruct (fixes_int s true v b Hf) as [Hv Hb]. rewrite Hv in Hx. apply vdiff_In in Hx as [Hx Hq].
    destruct (IH Hb x Hx) as [y [Hy E]]. exists y. split; [|exact E]. apply vdiff_In. split; [exact Hy|].
    intros [<-|[]]. apply Hq. left. subst x. symmetry; exact Hv.
  - destruct (fixes_int s false v b Hf) as [Hv Hb]. rewrite Hv in Hx. apply vdiff_In in Hx as [Hx Hq].
    destruct (IH Hb x Hx) as [y [Hy E]]. exists y. split; [|exact E]. apply vdiff_In. split; [exact Hy|].
    intros [<-|[]]. apply Hq. left. subst x. symmetry; exact Hv.
Qed.

Section Alpha.
  Variable D : Type.
  Variable aev : N -> list D -> bool.
  Variable pev : str -> list (D + str) -> bool.
  Variable dom : D -> var -> option mexpr -> list (list (var * D)).
  Variable idom : list D.
  Variable tval : tree -> D.
  Hypothesis dom_ext : forall d v m k, mexpr_eqb m k = true -> dom d v m = dom d v k.
  Hypothesis dom_keys : forall d v m asg, In asg (dom d v m) ->
    forall x, existsb (fun p => var_eqb (fst p) x) asg = vmem x (qbound v m).
  Notation ev := (ev D aev pev dom idom tval).
  Notation upds := (upds D).
  Notation ival := (ival D tval).
  Notation env := (var -> D).
  Notation sem_eq := (sem_eq D aev pev dom idom tval).

  (* SUBSTITUTION LEMMA: a renaming that leaves the binders of f alone and maps nothing else onto one of them acts
     on the meaning as composition of the environment *)
  Lemma sub_ev : forall s f, fixes s f -> nohit s f -> inq_ok f = true ->
    forall e e' : env, (forall x, In x (fv f) -> e' x = e (rlook s x)) -> ev e (sub s f) = ev e' f.
  Proof.
    intros s f. induction f as [a|n args|n args|g IH|fs IH|fs IH|v i m b IH|v i m b IH|v b IH|v b IH]
      using formula_ind'; intros Hf Hn Hok e e' He.
    - simpl. unfold atom_ev. simpl. destruct (at_id a =? 0)%N; [reflexivity|]. do 2 f_equal.
      rewrite map_map. apply map_ext_in. intros x Hx. symmetry. apply He. simpl. apply vunion_In. right; exact Hx.
    - simpl. f_equal. rewrite map_map. apply map_ext_in. intros [x|t|t] Hx; simpl; try reflexivity.
      f_equal. symmetry. apply He. simpl. apply parg_vars_In. exact Hx.
    - simpl. f_equal. rewrite map_map. apply map_ext_in. intros [x|t|t] Hx; simpl; try reflexivity.
      f_equal. symmetry. apply He. simpl. apply parg_vars_In. exact Hx.
    - simpl. f_equal. apply IH; assumption.
    - simpl. rewrite forallb_map'. apply forallb_in_ext2. intros g Hg. rewrite Forall_forall in IH.
      destruct Hf as [H1 H2]. simpl in H1. simpl in Hok. rewrite forallb_forall in Hok.
      apply IH; [exact Hg|apply (fixes_list s fs); assumption| |apply Hok; exact Hg|].
      + apply (nohit_sub s (FAnd fs)); [exact Hn|]. intros w Hw. simpl. apply fvs_In. exists g; auto.
      + intros x Hx. apply He. simpl. apply fvs_In. exists g; auto.
    - simpl. rewrite existsb_map'. apply existsb_in_ext2. intros g Hg. rewrite Forall_forall in IH.
      destruct Hf as [H1 H2]. simpl in H1. simpl in Hok. rewrite forallb_forall in Hok.
      apply IH; [exact Hg|apply (fixes_list s fs); assumption| |apply Hok; exact Hg|].
      + apply (nohit_sub s (FOr fs)); [exact Hn|]. intros w Hw. simpl. apply fvs_In. exists g; auto.
      + intros x Hx. apply He. simpl. apply fvs_In. exists g; auto.
    - destruct (fixes_forall s true v i m b Hf) as [Hv [Hm Hb]]. simpl sub. rewrite Hv, Hm.
      simpl in Hok. apply andb_true_iff in Hok as [Hi Hob].
      assert (Hnb : nohit s b).
      { apply (nohit_sub s (FForall v i m b)); [exact Hn|]. intros w Hw. simpl. apply vunion_In. right; exact Hw. }
      assert (Hiv : ival e (sub_in s i) = ival e' i).
      { destruct i as [w|t]; simpl; [|reflexivity]. symmetry. apply He. simpl. apply vdiff_In. split.
        - apply vunion_In. left. left. reflexivity.
        - apply negb_true_iff in Hi. apply vmem_false in Hi. exact Hi. }
      simpl. rewrite Hiv. apply forallb_in_ext2. intros asg Hasg. apply IH; [exact Hb|exact Hnb|exact Hob|].
      intros x Hx. destruct (existsb (fun p => var_eqb (fst p) x) asg) eqn:K.
      + assert (Hxq : In x (qbound v m)) by (apply vmem_In; rewrite <- (dom_keys _ _ _ _ Hasg); exact K).
        assert (E : rlook s x = x).
        { destruct Hf as [H1 _]. apply H1. simpl. apply qbound_In in Hxq as [->|Hq]; [left; reflexivity|right; apply in_or_app; left; exact Hq]. }
        rewrite E. apply upds_same. exact K.
      + rewrite (upds_key D _ _ _ K).
        assert (K' : existsb (fun p => var_eqb (fst p) (rlook s x)) asg = false).
        { destruct (existsb (fun p => var_eqb (fst p) (rlook s x)) asg) eqn:K2; [|reflexivity]. exfalso.
          assert (Hq : In (rlook s x) (qbound v m)) by (apply vmem_In; rewrite <- (dom_keys _ _ _ _ Hasg); exact K2).
          assert (E : rlook s x = x). { apply Hn. simpl. apply vunion_In. left; exact Hq. }
          rewrite E in K2. congruence. }
        rewrite (upds_key D _ _ _ K'). apply He. simpl. apply vdiff_In. split; [apply vunion_In; right; exact Hx|].
        rewrite (dom_keys _ _ _ _ Hasg) in K. apply vmem_false in K. exact K.
    - destruct (fixes_forall s false v i m b Hf) as [Hv [Hm Hb]]. simpl sub. rewrite Hv, Hm.
      simpl in Hok. apply andb_true_iff in Hok as [Hi Hob].
      assert (Hnb : nohit s b).
      { apply (nohit_sub s (FExists v i m b)); [exact Hn|]. intros w Hw. simpl. apply vunion_In. right; exact Hw. }
      assert (Hiv : ival e (sub_in s i) = ival e' i).
      { destruct i as [w|t]; simpl; [|reflexivity]. symmetry. apply He. simpl. apply vdiff_In. split.
        - apply vunion_In. left. left. reflexivity.
        - apply negb_true_iff in Hi. apply vmem_false in Hi. exact Hi. }
      simpl. rewrite Hiv. apply existsb_in_ext2. intros asg Hasg. apply IH; [exact Hb|exact Hnb|exact Hob|].
      intros x Hx. destruct (existsb (fun p => var_eqb (fst p) x) asg) eqn:K.
      + assert (Hxq : In x (qbound v m)) by (apply vmem_In; rewrite <- (dom_keys _ _ _ _ Hasg); exact K).
        assert (E : rlook s x = x).
        { destruct Hf as [H1 _]. apply H1. simpl. apply qbound_In in Hxq as [->|Hq]; [left; reflexivity|right; apply in_or_app; left; exact Hq]. }
        rewrite E. apply upds_same. exact K.
      + rewrite (upds_key D _ _ _ K).
        assert (K' : existsb (fun p => var_eqb (fst p) (rlook s x)) asg = false).
        { destruct (existsb (fun p => var_eqb (fst p) (rlook s x)) asg) eqn:K2; [|reflexivity]. exfalso.
          assert (Hq : In (rlook s x) (qbound v m)) by (apply vmem_In; rewrite <- (dom_keys _ _ _ _ Hasg); exact K2).
          assert (E : rlook s x = x). { apply Hn. simpl. apply vunion_In. left; exact Hq. }
          rewrite E in K2. congruence. }
        rewrite (upds_key D _ _ _ K'). apply He. simpl. apply vdiff_In. split; [apply vunion_In; right; exact Hx|].
        rewrite (dom_keys _ _ _ _ Hasg) in K. apply vmem_false in K. exact K.
    - destruct (fixes_int s true v b Hf) as [Hv Hb]. simpl sub. rewrite Hv. simpl in Hok.
      assert (Hnb : nohit s b).
      { apply (nohit_sub s (FForallInt v b)); [exact Hn|]. intros w Hw. simpl. apply vunion_In. right; exact Hw. }
      simpl. apply forallb_in_ext2. intros d _. apply IH; [exact Hb|exact Hnb|exact Hok|].
      intros x Hx. unfold SugarFacts.upds. simpl.
      destruct (var_eqb v x) eqn:K.
      + apply var_eqb_eq in K. subst x. rewrite Hv, var_eqb_refl. reflexivity.
      + destruct (var_eqb v (rlook s x)) eqn:K2.
        * exfalso. apply var_eqb_eq in K2. assert (E : rlook s x = x). { apply Hn. rewrite <- K2. simpl. apply vunion_In. left; left; reflexivity. }
          rewrite E in K2. subst x. rewrite var_eqb_refl in K. discriminate.
        * apply He. simpl. apply vdiff_In. split; [exact Hx|]. intros [E|[]]. subst x. rewrite var_eqb_refl in K. discriminate.
    - destruct (fixes_int s false v b Hf) as [Hv Hb]. simpl sub. rewrite Hv. simpl in Hok.
      assert (Hnb : nohit s b).
      { apply (nohit_sub s (FExistsInt v b)); [exact Hn|]. intros w Hw. simpl. apply vunion_In. right; exact Hw. }
      simpl. apply existsb_in_ext2. intros d _. apply IH; [exact Hb|exact Hnb|exact Hok|].
      intros x Hx. unfold SugarFacts.upds. simpl.
      destruct (var_eqb v x) eqn:K.
      + apply var_eqb_eq in K. subst x. rewrite Hv, var_eqb_refl. reflexivity.
      + destruct (var_eqb v (rlook s x)) eqn:K2.
        * exfalso. apply var_eqb_eq in K2. assert (E : rlook s x = x). { apply Hn. rewrite <- K2. simpl. apply vunion_In. left; left; reflexivity. }
          rewrite E in K2. subst x. rewrite var_eqb_refl in K. discriminate.
        * apply He. simpl. apply vdiff_In. split; [exact Hx|]. intros [E|[]]. subst x. rewrite var_eqb_refl in K. discriminate.
  Qed.
End Alpha.
