(* C08 — specification side (abstract evaluation `ev`, documented meaning of the derived connectives and of the
   universal closure) and proofs about the model Logic/Sugar.v. *)
From Coq Require Import List NArith Bool Arith Lia.
Import ListNotations.
From ISLA Require Import Str Outcome Tree Grammar Formula Sugar.

(* ---------- equality deciders are sound ---------- *)
Lemma vkind_eqb_eq : forall a b, vkind_eqb a b = true -> a = b.
Proof. intros a b H; destruct a, b; simpl in H; congruence. Qed.

Lemma var_eqb_eq : forall a b, var_eqb a b = true -> a = b.
Proof.
  intros [ka na ta] [kb nb tb] H. unfold var_eqb in H; simpl in H.
  apply andb_true_iff in H as [H Ht]. apply andb_true_iff in H as [Hk Hn].
  apply vkind_eqb_eq in Hk. apply str_eqb_eq in Hn. apply str_eqb_eq in Ht. subst. reflexivity.
Qed.

Lemma leqb_eq : forall {X} (e : X -> X -> bool), (forall x y, e x y = true -> x = y) ->
  forall a b, leqb e a b = true -> a = b.
Proof.
  intros X e He a. induction a as [|x a IH]; intros [|y b] H; simpl in H; try discriminate; auto.
  apply andb_true_iff in H as [H1 H2]. f_equal; auto.
Qed.

Lemma forallb_ext_in' : forall {X} (f g : X -> bool) l, (forall x, f x = g x) -> forallb f l = forallb g l.
Proof. intros X f g l H. induction l as [|x l IH]; simpl; [reflexivity|]. rewrite H, IH. reflexivity. Qed.
Lemma existsb_ext_in' : forall {X} (f g : X -> bool) l, (forall x, f x = g x) -> existsb f l = existsb g l.
Proof. intros X f g l H. induction l as [|x l IH]; simpl; [reflexivity|]. rewrite H, IH. reflexivity. Qed.

(* ---------- abstract evaluation (spec side) ----------
   D: values (derivation trees); the quantifier domain `dom d v m` lists, for container value d, bound
   variable v (its type matters) and optional match expression m, the assignments (v and the variables bound by m)
   of all matches — possibly the EMPTY list.  Atoms and predicates are evaluated by abstract functions of the
   argument values.  This is the two-valued semantics of closed trees of islaspec.rst with everything
   tree-specific abstracted. *)
Section Sem.
  Variable D : Type.
  Variable aev : N -> list D -> bool.
  Variable pev : str -> list (D + str) -> bool.
  Variable dom : D -> var -> option mexpr -> list (list (var * D)).
  Variable idom : list D.
  Variable tval : tree -> D.
  (* the semantics of match expressions does not look at the names of dummy variables *)
  Hypothesis dom_ext : forall d v m k, mexpr_eqb m k = true -> dom d v m = dom d v k.

  Definition env := var -> D.
  Definition upds (rho : env) (asg : list (var * D)) : env :=
    fun x => match find (fun p => var_eqb (fst p) x) asg with Some p => snd p | None => rho x end.
  Definition ival (rho : env) (i : invar) : D := match i with InVar v => rho v | InTree t => tval t end.
  Definition pargv (rho : env) (a : parg) : D + str :=
    match a with PVar v => inl (rho v) | PStr s => inr s | PTree t => inl (tval t) end.
  Definition atom_ev (rho : env) (a : satom) : bool :=
    if (at_id a =? 0)%N then negb (at_neg a) else xorb (at_neg a) (aev (at_id a) (map rho (at_vars a))).

  Fixpoint ev (rho : env) (f : cform) : bool :=
    match f with
    | FSmt a => atom_ev rho a
    | FSPred p args | FSemPred p args => pev p (map (pargv rho) args)
    | FNot x => negb (ev rho x)
    | FAnd fs => forallb (ev rho) fs
    | FOr fs => existsb (ev rho) fs
    | FForall v i m b => forallb (fun asg => ev (upds rho asg) b) (dom (ival rho i) v m)
    | FExists v i m b => existsb (fun asg => ev (upds rho asg) b) (dom (ival rho i) v m)
    | FForallInt v b => forallb (fun d => ev (upds rho [(v, d)]) b) idom
    | FExistsInt v b => existsb (fun d => ev (upds rho [(v, d)]) b) idom
    end.

  (* ---------- flattened equality implies equal meaning ---------- *)
  Lemma ev_split_and : forall rho f, ev rho f = forallb (ev rho) (split_and f).
  Proof.
    intros rho f. induction f as [a|n args|n args|g IH|fs IH|fs IH|v i m b IH|v i m b IH|v b IH|v b IH]
      using formula_ind'; simpl; try (rewrite andb_true_r; reflexivity).
    induction IH as [|g fs Hg Hfs IHfs]; simpl; auto.
    rewrite forallb_app, <- Hg, IHfs. reflexivity.
  Qed.

  Lemma ev_split_or : forall rho f, ev rho f = existsb (ev rho) (split_or f).
  Proof.
    intros rho f. induction f as [a|n args|n args|g IH|fs IH|fs IH|v i m b IH|v i m b IH|v b IH|v b IH]
      using formula_ind'; simpl; try (rewrite orb_false_r; reflexivity).
    induction IH as [|g fs Hg Hfs IHfs]; simpl; auto.
    rewrite existsb_app, <- Hg, IHfs. reflexivity.
  Qed.

  Lemma leqb_map_eq : forall {X Y} (e : X -> X -> bool) (h : X -> Y),
    (forall x y, e x y = true -> h x = h y) -> forall a b, leqb e a b = true -> map h a = map h b.
  Proof.
    intros X Y e h He a. induction a as [|x a IH]; intros [|y b] H; simpl in H; try discriminate; auto.
    apply andb_true_iff in H as [H1 H2]. simpl. f_equal; auto.
  Qed.

  Lemma atom_eqb_ev : forall rho x y, atom_eqb x y = true -> atom_ev rho x = atom_ev rho y.
  Proof.
    intros rho [nx ix vx] [ny iy vy] H. unfold atom_eqb in H; simpl in H.
    apply andb_true_iff in H as [H Hv]. apply andb_true_iff in H as [Hn Hi].
    apply eqb_prop in Hn. apply N.eqb_eq in Hi. apply (leqb_eq var_eqb var_eqb_eq) in Hv. subst. reflexivity.
  Qed.

  Lemma parg_eqb_v : forall rho a b, parg_eqb a b = true -> pargv rho a = pargv rho b.
  Proof.
    intros rho [v|s|t] [w|s'|t'] H; simpl in H; try discriminate.
    - apply var_eqb_eq in H; subst; reflexivity.
    - apply str_eqb_eq in H; subst; reflexivity.
  Qed.

  Lemma invar_eqb_eq : forall i j, invar_eqb i j = true -> i = j.
  Proof. intros [v|t] [w|t'] H; simpl in H; try discriminate. apply var_eqb_eq in H; subst; reflexivity. Qed.

  Lemma feqb_sound : forall n a b, feqb n a b = true -> forall rho, ev rho a = ev rho b.
  Proof.
    induction n as [|n IH]; intros a b H rho; [discriminate|].
    destruct a as [x|p xs|p xs|x|xs|xs|v i m x|v i m x|v x|v x];
    destruct b as [y|q ys|q ys|y|ys|ys|w j k y|w j k y|w y|w y]; simpl in H; try discriminate.
    - simpl. apply atom_eqb_ev; exact H.
    - apply andb_true_iff in H as [Hp Ha]. apply str_eqb_eq in Hp. subst q. simpl. f_equal.
      apply (leqb_map_eq parg_eqb (pargv rho) (parg_eqb_v rho)); exact Ha.
    - apply andb_true_iff in H as [Hp Ha]. apply str_eqb_eq in Hp. subst q. simpl. f_equal.
      apply (leqb_map_eq parg_eqb (pargv rho) (parg_eqb_v rho)); exact Ha.
    - simpl. f_equal. apply IH; exact H.
    - rewrite (ev_split_and rho (FAnd xs)), (ev_split_and rho (FAnd ys)).
      simpl split_and. revert H. generalize (flat_map split_and xs) (flat_map split_and ys).
      intros l. induction l as [|g l IHl]; intros [|h r] H; simpl in H; try discriminate; auto.
      apply andb_true_iff in H as [H1 H2]. simpl. rewrite (IH _ _ H1 rho), (IHl _ H2). reflexivity.
    - rewrite (ev_split_or rho (FOr xs)), (ev_split_or rho (FOr ys)).
      simpl split_or. revert H. generalize (flat_map split_or xs) (flat_map split_or ys).
      intros l. induction l as [|g l IHl]; intros [|h r] H; simpl in H; try discriminate; auto.
      apply andb_true_iff in H as [H1 H2]. simpl. rewrite (IH _ _ H1 rho), (IHl _ H2). reflexivity.
    - apply andb_true_iff in H as [H Hm]. apply andb_true_iff in H as [H Hb]. apply andb_true_iff in H as [Hv Hi].
      apply var_eqb_eq in Hv. apply invar_eqb_eq in Hi. subst. simpl. rewrite (dom_ext _ _ _ _ Hm).
      apply forallb_ext_in'. intros asg. apply IH; exact Hb.
    - apply andb_true_iff in H as [H Hm]. apply andb_true_iff in H as [H Hb]. apply andb_true_iff in H as [Hv Hi].
      apply var_eqb_eq in Hv. apply invar_eqb_eq in Hi. subst. simpl. rewrite (dom_ext _ _ _ _ Hm).
      apply existsb_ext_in'. intros asg. apply IH; exact Hb.
    - apply andb_true_iff in H as [Hv Hb]. apply var_eqb_eq in Hv. subst. simpl.
      apply forallb_ext_in'. intros d. apply IH; exact Hb.
    - apply andb_true_iff in H as [Hv Hb]. apply var_eqb_eq in Hv. subst. simpl.
      apply existsb_ext_in'. intros d. apply IH; exact Hb.
  Qed.

  Lemma eqf_sound : forall a b, eqf a b = true -> forall rho, ev rho a = ev rho b.
  Proof. intros a b H. exact (feqb_sound _ _ _ H). Qed.

  Lemma is_true_ev : forall rho f, is_true_f f = true -> ev rho f = true.
  Proof.
    intros rho [a| | | | | | | | | ] H; simpl in H; try discriminate.
    apply andb_true_iff in H as [Hi Hn]. simpl. unfold atom_ev. rewrite Hi. exact Hn.
  Qed.
  Lemma is_false_ev : forall rho f, is_false_f f = true -> ev rho f = false.
  Proof.
    intros rho [a| | | | | | | | | ] H; simpl in H; try discriminate.
    apply andb_true_iff in H as [Hi Hn]. simpl. unfold atom_ev. rewrite Hi, Hn. reflexivity.
  Qed.
  Lemma is_neg_of_ev : forall rho a b, is_neg_of a b = true -> ev rho a = negb (ev rho b).
  Proof.
    intros rho [ | | |x| | | | | | ] b H; simpl in H; try discriminate.
    simpl. rewrite (eqf_sound _ _ H rho). reflexivity.
  Qed.

  (* Formula.__and__ / __or__ with all their shortcuts mean conjunction / disjunction *)
  Lemma f_and_sound : forall rho a b, ev rho (f_and a b) = ev rho a && ev rho b.
  Proof.
    intros rho a b. unfold f_and.
    destruct (eqf a b) eqn:E. { rewrite <- (eqf_sound _ _ E rho). destruct (ev rho a); reflexivity. }
    destruct (is_false_f a) eqn:Fa. { rewrite (is_false_ev rho _ Fa). reflexivity. }
    destruct (is_false_f b) eqn:Fb. { rewrite (is_false_ev rho _ Fb). destruct (ev rho a); reflexivity. }
    destruct (is_true_f a) eqn:Ta. { rewrite (is_true_ev rho _ Ta). reflexivity. }
    destruct (is_true_f b) eqn:Tb. { rewrite (is_true_ev rho _ Tb). destruct (ev rho a); reflexivity. }
    destruct (is_neg_of a b) eqn:Na. { rewrite (is_neg_of_ev rho _ _ Na). destruct (ev rho b); reflexivity. }
    destruct (is_neg_of b a) eqn:Nb. { rewrite (is_neg_of_ev rho _ _ Nb). destruct (ev rho a); reflexivity. }
    simpl. rewrite andb_true_r. reflexivity.
  Qed.

  Lemma f_or_sound : forall rho a b, ev rho (f_or a b) = ev rho a || ev rho b.
  Proof.
    intros rho a b. unfold f_or.
    destruct (eqf a b) eqn:E. { rewrite <- (eqf_sound _ _ E rho). destruct (ev rho a); reflexivity. }
    destruct (is_true_f a) eqn:Ta. { rewrite (is_true_ev rho _ Ta). reflexivity. }
    destruct (is_true_f b) eqn:Tb. { rewrite (is_true_ev rho _ Tb). destruct (ev rho a); reflexivity. }
    destruct (is_false_f a) eqn:Fa. { rewrite (is_false_ev rho _ Fa). reflexivity. }
    destruct (is_false_f b) eqn:Fb. { rewrite (is_false_ev rho _ Fb). destruct (ev rho a); reflexivity. }
    destruct (is_neg_of a b) eqn:Na. { rewrite (is_neg_of_ev rho _ _ Na). destruct (ev rho b); reflexivity. }
    destruct (is_neg_of b a) eqn:Nb. { rewrite (is_neg_of_ev rho _ _ Nb). destruct (ev rho a); reflexivity. }
    simpl. rewrite orb_false_r. reflexivity.
  Qed.

  Lemma fold_or_sound : forall rho l a,
    ev rho (fold_left f_or l a) = ev rho a || existsb (ev rho) l.
  Proof.
    intros rho l. induction l as [|x l IH]; intros a; simpl. { rewrite orb_false_r; reflexivity. }
    rewrite IH, f_or_sound, orb_assoc. reflexivity.
  Qed.
  Lemma fold_and_sound : forall rho l a,
    ev rho (fold_left f_and l a) = ev rho a && forallb (ev rho) l.
  Proof.
    intros rho l. induction l as [|x l IH]; intros a; simpl. { rewrite andb_true_r; reflexivity. }
    rewrite IH, f_and_sound, andb_assoc. reflexivity.
  Qed.
  Lemma reduce_or_sound : forall rho l, ev rho (reduce1 f_or f_false l) = existsb (ev rho) l.
  Proof. intros rho [|x l]; simpl; [reflexivity|]. apply fold_or_sound. Qed.
  Lemma reduce_and_sound : forall rho l, ev rho (reduce1 f_and f_true l) = forallb (ev rho) l.
  Proof. intros rho [|x l]; simpl; [reflexivity|]. apply fold_and_sound. Qed.

  (* Formula.__neg__ (De Morgan with the smart constructors, quantifier dualisation, SMT negation) means negation *)
  Lemma f_neg_sound : forall f rho, ev rho (f_neg f) = negb (ev rho f).
  Proof.
    intros f. induction f as [a|n args|n args|g IH|fs IH|fs IH|v i m b IH|v i m b IH|v b IH|v b IH]
      using formula_ind'; intros rho; simpl; try reflexivity.
    - unfold atom_ev. simpl. destruct (at_id a =? 0)%N; [reflexivity|].
      destruct (at_neg a), (aev (at_id a) (map rho (at_vars a))); reflexivity.
    - rewrite negb_involutive. reflexivity.
    - rewrite reduce_or_sound. induction IH as [|g fs Hg Hfs IHfs]; simpl; [reflexivity|].
      rewrite Hg, IHfs. destruct (ev rho g); reflexivity.
    - rewrite reduce_and_sound. induction IH as [|g fs Hg Hfs IHfs]; simpl; [reflexivity|].
      rewrite Hg, IHfs. destruct (ev rho g); reflexivity.
    - induction (dom (ival rho i) v m) as [|asg l IHl]; simpl; [reflexivity|].
      rewrite IH, IHl. destruct (ev (upds rho asg) b); reflexivity.
    - induction (dom (ival rho i) v m) as [|asg l IHl]; simpl; [reflexivity|].
      rewrite IH, IHl. destruct (ev (upds rho asg) b); reflexivity.
    - induction idom as [|d l IHl]; simpl; [reflexivity|].
      rewrite IH, IHl. destruct (ev (upds rho [(v, d)]) b); reflexivity.
    - induction idom as [|d l IHl]; simpl; [reflexivity|].
      rewrite IH, IHl. destruct (ev (upds rho [(v, d)]) b); reflexivity.
  Qed.

  (* implies / iff / xor as built by exitImplication / exitEquivalence / exitExclusiveOr *)
  Theorem derived_connectives : forall l r rho,
    ev rho (f_imp l r) = implb (ev rho l) (ev rho r) /\
    ev rho (f_iff l r) = Bool.eqb (ev rho l) (ev rho r) /\
    ev rho (f_xor l r) = xorb (ev rho l) (ev rho r).
  Proof.
    intros l r rho. unfold f_imp, f_iff, f_xor.
    repeat rewrite ?f_or_sound, ?f_and_sound, ?f_neg_sound.
    destruct (ev rho l), (ev rho r); auto.
  Qed.

  (* ---------- the universal closure: documented form vs. pushed-in form ----------
     Documented (islaspec.rst, "Free Nonterminals"): forall v in start: (whole formula).
     Implemented (univ_close_over_var_push_in): conjuncts/disjuncts not mentioning v stay outside.
     [indep rho v i m e]: the meaning of e does not depend on the assignment chosen for the new quantifier. *)
  Definition indep (rho : env) (v : var) (i : invar) (m : option mexpr) (e : cform) : Prop :=
    forall asg, In asg (dom (ival rho i) v m) -> ev (upds rho asg) e = ev rho e.

  Lemma forallb_const : forall {X} (l : list X) (c : bool), l <> [] -> forallb (fun _ => c) l = c.
  Proof. intros X l c H. induction l as [|x [|y l] IH]; [congruence| simpl; apply andb_true_r |].
         simpl in *. rewrite IH by discriminate. destruct c; reflexivity. Qed.

  Lemma forallb_and_split : forall {X} (f g : X -> bool) l,
    forallb (fun x => f x && g x) l = forallb f l && forallb g l.
  Proof. intros X f g l. induction l as [|x l IH]; simpl; [reflexivity|]. rewrite IH.
         destruct (f x), (g x), (forallb f l); reflexivity. Qed.

  Lemma forallb_in_ext : forall {X} (f g : X -> bool) l, (forall x, In x l -> f x = g x) -> forallb f l = forallb g l.
  Proof. intros X f g l H. induction l as [|x l IH]; simpl; [reflexivity|].
         rewrite (H x (or_introl eq_refl)), IH; [reflexivity|]. intros y Hy. apply H. right; exact Hy. Qed.

  (* K_pushin_empty: the domain of the quantifier added by the elaboration is empty *)
  Definition K_pushin_empty (rho : env) (v : var) (i : invar) (m : option mexpr) : bool :=
    isnil (dom (ival rho i) v m).

  (* conjunction: sound exactly when the class K_pushin_empty is excluded *)
  Theorem pushin_and_sound : forall rho v i m (I O : list cform),
    Forall (indep rho v i m) I ->
    K_pushin_empty rho v i m = false ->
    ev rho (FAnd (I ++ [FForall v i m (FAnd O)])) = ev rho (FForall v i m (FAnd (I ++ O))).
  Proof.
    intros rho v i m I O HI HK. unfold K_pushin_empty in HK. simpl. rewrite forallb_app. simpl. rewrite andb_true_r.
    assert (Hne : dom (ival rho i) v m <> []) by (destruct (dom (ival rho i) v m); [discriminate|discriminate]).
    transitivity (forallb (fun asg => forallb (ev rho) I && forallb (ev (upds rho asg)) O) (dom (ival rho i) v m)).
    - rewrite forallb_and_split. rewrite (forallb_const _ _ Hne). reflexivity.
    - apply forallb_in_ext. intros asg Hin. rewrite forallb_app. f_equal.
      induction HI as [|e I He HI' IH]; simpl; [reflexivity|]. rewrite (He asg Hin), IH. reflexivity.
  Qed.

  (* disjunction: always sound, also for an empty domain *)
  Theorem pushin_or_sound : forall rho v i m (I O : list cform),
    Forall (indep rho v i m) I ->
    ev rho (FOr (I ++ [FForall v i m (FOr O)])) = ev rho (FForall v i m (FOr (I ++ O))).
  Proof.
    intros rho v i m I O HI. simpl. rewrite existsb_app. simpl. rewrite orb_false_r.
    transitivity (forallb (fun asg => existsb (ev rho) I || existsb (ev (upds rho asg)) O) (dom (ival rho i) v m)).
    - induction (dom (ival rho i) v m) as [|asg l IHl]; simpl.
      + destruct (existsb (ev rho) I); reflexivity.
      + rewrite <- IHl. destruct (existsb (ev rho) I), (existsb (ev (upds rho asg)) O); reflexivity.
    - apply forallb_in_ext. intros asg Hin. rewrite existsb_app. f_equal.
      induction HI as [|e I He HI' IH]; simpl; [reflexivity|]. rewrite (He asg Hin), IH. reflexivity.
  Qed.

  (* early return of univ_close_over_var_push_in (variable does not occur): same guard *)
  Theorem pushin_absent_sound : forall rho v i m f,
    indep rho v i m f -> K_pushin_empty rho v i m = false -> ev rho f = ev rho (FForall v i m f).
  Proof.
    intros rho v i m f Hf HK. unfold K_pushin_empty in HK. simpl.
    assert (Hne : dom (ival rho i) v m <> []) by (destruct (dom (ival rho i) v m); [discriminate|discriminate]).
    rewrite (forallb_in_ext _ (fun _ => ev rho f) _ Hf). symmetry. apply forallb_const. exact Hne.
  Qed.
End Sem.

(* ---------- XPath child axis: nth_occ picks the pos-th occurrence (documented meaning of <type>[pos]) ---------- *)
Definition occ_before (alt : list str) (t : str) (k : nat) : nat := length (filter (str_eqb t) (firstn k alt)).

Lemma nth_occ_spec_gen : forall alt t n idx k,
  nth_occ alt t n idx = Some k <->
  exists j, k = idx + j /\ (exists e, nth_error alt j = Some e /\ str_eqb e t = true) /\ occ_before alt t j = n.
Proof.
  induction alt as [|e alt IH]; intros t n idx k; simpl.
  - split; [discriminate|]. intros [j [_ [[e [He _]] _]]]. destruct j; discriminate.
  - destruct (str_eqb e t) eqn:E.
    + assert (Et : str_eqb t e = true) by (apply str_eqb_eq in E; subst; apply str_eqb_refl).
      destruct n as [|n'].
      * split.
        -- intros H; inversion H; subst. exists 0. repeat split; [lia| exists e; auto].
        -- intros [j [Hk [[e' [He' Ee']] Hc]]]. destruct j as [|j]; [f_equal; lia|].
           unfold occ_before in Hc. simpl in Hc. rewrite Et in Hc. simpl in Hc. discriminate.
      * rewrite IH. split.
        -- intros [j [Hk [Hn Hc]]]. exists (S j). repeat split; [lia|exact Hn|].
           unfold occ_before in *. simpl. rewrite Et. simpl. f_equal. exact Hc.
        -- intros [j [Hk [Hn Hc]]]. destruct j as [|j].
           { unfold occ_before in Hc. simpl in Hc. discriminate. }
           exists j. repeat split; [lia|exact Hn|].
           unfold occ_before in *. simpl in Hc. rewrite Et in Hc. simpl in Hc. lia.
    + assert (Et : str_eqb t e = false).
      { destruct (str_eqb t e) eqn:X; [|reflexivity]. apply str_eqb_eq in X; subst. rewrite str_eqb_refl in E. discriminate. }
      rewrite IH. split.
      * intros [j [Hk [Hn Hc]]]. exists (S j). repeat split; [lia|exact Hn|].
        unfold occ_before in *. simpl. rewrite Et. exact Hc.
      * intros [j [Hk [[e' [He' Ee']] Hc]]]. destruct j as [|j].
        { simpl in He'. inversion He'; subst. congruence. }
        exists j. repeat split; [lia| exists e'; auto |].
        unfold occ_before in *. simpl in Hc. rewrite Et in Hc. exact Hc.
Qed.

(* one child step: the cursor of every generated match expression sits on the child that the documentation
   describes ("the pos-th direct child of type t", counting from 0 here), and every alternative with such a
   child is generated *)
Theorem xpath_child_sound : forall alt t pos k,
  nth_occ alt t pos 0 = Some k <-> (nth_error alt k = Some t /\ occ_before alt t k = pos).
Proof.
  intros alt t pos k. rewrite nth_occ_spec_gen. split.
  - intros [j [Hk [[e [He Ee]] Hc]]]. simpl in Hk. subst j. apply str_eqb_eq in Ee. subst e. auto.
  - intros [Hn Hc]. exists k. repeat split; auto. exists t. split; [exact Hn|apply str_eqb_refl].
Qed.

Theorem expand_step_spec : forall g leaves cur t pos res,
  In res (expand_step g [(leaves, cur)] (t, pos)) <->
  exists alt k, In alt (alts g (nth cur leaves [])) /\ nth_error alt k = Some t /\ occ_before alt t k = pos /\
                res = (firstn cur leaves ++ alt ++ skipn (S cur) leaves, cur + k).
Proof.
  intros g leaves cur t pos res. unfold expand_step. simpl. rewrite app_nil_r. rewrite in_flat_map. split.
  - intros [alt [Ha Hin]]. destruct (nth_occ alt t pos 0) eqn:E; [|contradiction].
    destruct Hin as [Hin|[]]. apply xpath_child_sound in E as [E1 E2]. exists alt, n. auto.
  - intros [alt [k [Ha [Hn [Hc Hr]]]]]. exists alt. split; [exact Ha|].
    assert (E : nth_occ alt t pos 0 = Some k) by (apply xpath_child_sound; auto). rewrite E. left. symmetry; exact Hr.
Qed.

(* ---------- concrete witnesses ---------- *)
Definition nt (c : N) : str := [60; c; 62]%N.
Definition G0 : grammar :=
  [(s_start_nt, [[nt 115]]); (nt 115, [[nt 97]; [nt 97; nt 98]]); (nt 97, [[[120]]; [[122]]]%N); (nt 98, [[[121]]; [[119]]]%N)].
(* <a> = "x" and <b> = "y"   (payload 1 = equality with "x", payload 2 = equality with "y") *)
Definition S_wit : sform := SAnd (SAtom true 1 [TFree (nt 97)]) (SAtom true 2 [TFree (nt 98)]).
Definition va : var := MkVar VBound [97]%N (nt 97).
Definition vb : var := MkVar VBound [98]%N (nt 98).
Definition sugar_wit : cform :=
  FAnd [FForall vb (InVar start_c) None (FSmt (MkAtom false 2 [vb])); FForall va (InVar start_c) None (FSmt (MkAtom false 1 [va]))].
Definition doc_wit : cform :=
  FForall va (InVar start_c) None (FForall vb (InVar start_c) None (FAnd [FSmt (MkAtom false 1 [va]); FSmt (MkAtom false 2 [vb])])).
(* the input "z": one <a> node with string "z", no <b> node *)
Definition dom_z (d : str) (v : var) (m : option mexpr) : list (list (var * str)) :=
  if str_eqb (vtype v) (nt 97) then [[(v, [122]%N)]] else [].
Definition aev_z (id : N) (args : list str) : bool :=
  match args with [d] => str_eqb d (if (id =? 1)%N then [120]%N else [121]%N) | _ => false end.
Definition ev_z := ev str aev_z (fun _ _ => false) dom_z [] (fun _ => []).
Definition rho0 : var -> str := fun _ => [].

Theorem pushin_refuted :
  elab G0 S_wit = Ok sugar_wit /\ ev_z rho0 sugar_wit = false /\ ev_z rho0 doc_wit = true /\
  K_pushin_empty str dom_z (fun _ => []) rho0 vb (InVar start_c) None = true.
Proof. vm_compute. repeat split; reflexivity. Qed.

(* non-vacuity of pushin_and_sound: on input "xy" (one <a> = "x", one <b> = "y") both forms are true *)
Definition dom_xy (d : str) (v : var) (m : option mexpr) : list (list (var * str)) :=
  if str_eqb (vtype v) (nt 97) then [[(v, [120]%N)]] else [[(v, [121]%N)]].
Example pushin_and_nonvacuous :
  K_pushin_empty str dom_xy (fun _ => []) rho0 vb (InVar start_c) None = false /\
  ev str aev_z (fun _ _ => false) dom_xy [] (fun _ => []) rho0 sugar_wit = true /\
  ev str aev_z (fun _ _ => false) dom_xy [] (fun _ => []) rho0 doc_wit = true.
Proof. vm_compute. repeat split; reflexivity. Qed.

(* invented names are not fresh: <t>.<a>[2] together with a free <a> (class K_fresh_clash).
   well_scoped: the in-variable of every quantifier is a constant or bound by an ENCLOSING quantifier. *)
Fixpoint well_scoped (bound : list var) (f : cform) : bool :=
  match f with
  | FNot x => well_scoped bound x
  | FAnd fs | FOr fs => forallb (well_scoped bound) fs
  | FForall v i m b | FExists v i m b =>
      match i with
      | InVar w => match vk w with VConst => true | _ => vmem w bound end
      | InTree _ => true
      end && well_scoped (qbound v m ++ bound) b
  | FForallInt v b | FExistsInt v b => well_scoped (v :: bound) b
  | _ => true
  end.
Definition G3 : grammar :=
  [(s_start_nt, [[nt 115]]); (nt 115, [[nt 116; nt 117]; [nt 117]]); (nt 116, [[nt 97; nt 97]; [nt 97]]);
   (nt 117, [[nt 98]; [nt 116; [121]%N]]); (nt 97, [[[120]]; [[122]]]%N); (nt 98, [[[121]]; [[119]]]%N)].
(* forall <t> in <a>: (<t> = <t>.<a>[2]) *)
Definition S_clash : sform :=
  SQ true (nt 116) None (InType (nt 97)) None (SAtom true 50 [TFree (nt 116); TXPath [[(nt 116, 0); (nt 97, 1)]]]).
Theorem fresh_clash_refuted : exists f, elab G3 S_clash = Ok f /\ well_scoped [] f = false.
Proof. eexists. split; [vm_compute; reflexivity|vm_compute; reflexivity]. Qed.
