(* C07 — print/parse round trip, part 2: the token parser reads `toks f` as the raw tree of f, name
   resolution rebuilds the variables, and parse_core (unparse f) = Some (opaque f) on the fragment
   wf_core.  `opaque f` = f with every SMT atom replaced by its printed text (the parser keeps
   atoms as text); unparse (opaque f) = unparse f for every f. *)
From ISLA Require Import Unparse ParseCore ParseCoreFacts.
From Coq Require Import Lia ZArith String DecimalN DecimalPos.
Import ListNotations.
Open Scope N_scope.

(* ---------- raw tree of a formula (specification side) ---------- *)
Definition raw_arg (a : parg) : rarg :=
  match a with
  | PVar v => RId (vname v)
  | PStr s => RStr s
  | PTree (Node _ n neg _) => RInt (if neg then Z.opp (Z.of_N n) else Z.of_N n)
  end.
Fixpoint raw_of (f : cformula) : raw :=
  match f with
  | FSmt a => RAtom (smt_str (fst a))
  | FSPred n args | FSemPred n args => RPred n (map raw_arg args)
  | FNot g => RNot (raw_of g)
  | FAnd fs => match fs with [a; b] => RAnd (raw_of a) (raw_of b) | _ => RAtom [] end
  | FOr fs => match fs with [a; b] => ROr (raw_of a) (raw_of b) | _ => RAtom [] end
  | FForall v i _ b => RQ false (vtype v) (vname v) (invar_str i) (raw_of b)
  | FExists v i _ b => RQ true (vtype v) (vname v) (invar_str i) (raw_of b)
  | FForallInt v b => RQInt false (vname v) (raw_of b)
  | FExistsInt v b => RQInt true (vname v) (raw_of b)
  end.
(* fuel needed at level LF *)
Fixpoint fh (f : cformula) : nat :=
  match f with
  | FSmt _ | FSPred _ _ | FSemPred _ _ => 1
  | FNot g => 4 + fh g
  | FAnd fs | FOr fs => match fs with [a; b] => 3 + Nat.max (fh a) (fh b) | _ => 1 end
  | FForall _ _ _ b | FExists _ _ _ b | FForallInt _ b | FExistsInt _ b => S (fh b)
  end.

(* ---------- numerals and predicate arguments ---------- *)
Lemma uint_rt u : uint_of_str (uint_str u) = Some u.
Proof. induction u; simpl; try rewrite IHu; reflexivity. Qed.

Lemma digit_not45 c : is_digit c = true -> (c =? 45) = false.
Proof.
  unfold is_digit. rewrite andb_true_iff, !N.leb_le. intros [H1 H2]. apply N.eqb_neq. lia.
Qed.
Lemma letter_not_num c : is_letter c = true -> is_digit c || (c =? 45) = false.
Proof.
  unfold is_letter, is_digit. rewrite !orb_true_iff, !andb_true_iff, !N.leb_le, N.eqb_eq. intro H.
  apply orb_false_iff. split; [apply andb_false_iff; rewrite !N.leb_gt | apply N.eqb_neq]; lia.
Qed.

Lemma int_of_dec n : int_of_word (dec_N n) = Some (Z.of_N n).
Proof.
  unfold dec_N. pose proof (uint_digits (N.to_uint n)) as Hd. pose proof (dec_N_ne n) as Hne. unfold dec_N in Hne.
  unfold int_of_word. destruct (uint_str (N.to_uint n)) as [|c r] eqn:E; [congruence|].
  simpl in Hd. apply andb_true_iff in Hd as [Hc _]. rewrite (digit_not45 c Hc).
  rewrite <- E, uint_rt, DecimalN.Unsigned.of_to. reflexivity.
Qed.
Lemma int_of_neg n : int_of_word (45 :: dec_N n) = Some (Z.opp (Z.of_N n)).
Proof.
  pose proof (dec_N_ne n) as Hne. unfold int_of_word. simpl (45 =? 45).
  cbv iota. destruct (dec_N n) as [|c r] eqn:E; [congruence|].
  rewrite <- E. unfold dec_N. rewrite uint_rt, DecimalN.Unsigned.of_to. reflexivity.
Qed.

Lemma arg_of_neg n : arg_of (TWord (45 :: dec_N n)) = Some (RInt (Z.opp (Z.of_N n))).
Proof.
  unfold arg_of. change (is_digit 45 || (45 =? 45)) with true. cbv iota. rewrite int_of_neg. reflexivity.
Qed.
Lemma arg_of_pos n : arg_of (TWord (dec_N n)) = Some (RInt (Z.of_N n)).
Proof.
  pose proof (int_of_dec n) as H. pose proof (dec_N_ne n) as Hne. pose proof (uint_digits (N.to_uint n)) as Hd.
  fold (dec_N n) in Hd. unfold arg_of. destruct (dec_N n) as [|c r] eqn:E; [congruence|].
  simpl in Hd. apply andb_true_iff in Hd as [Hc _]. rewrite Hc. simpl orb. cbv iota. rewrite H. reflexivity.
Qed.

Lemma arg_of_tok a : wf_argb a = true -> arg_of (arg_tok a) = Some (raw_arg a).
Proof.
  destruct a as [v|s|t]; simpl.
  - rewrite andb_true_iff. intros [Hd Hn]. unfold var_str, not_dummy in *.
    assert (E : (match vk v with VDummy => vtype v | _ => vname v end) = vname v) by (destruct (vk v); try reflexivity; discriminate).
    rewrite E. pose proof Hn as Hn'. unfold is_name, is_id in Hn. destruct (vname v) as [|c r]; [discriminate|].
    rewrite !andb_true_iff in Hn. destruct Hn as [[Hc _] _]. rewrite (letter_not_num c Hc), Hn'. reflexivity.
  - reflexivity.
  - destruct t as [l n neg ks]. rewrite !andb_true_iff. intros [[Hl Hk] Hn].
    apply str_eqb_eq in Hl. subst l. destruct neg.
    + change (arg_tok (PTree (Node (lit "int") n true ks))) with (TWord (45 :: dec_N n)).
      apply arg_of_neg.
    + change (arg_tok (PTree (Node (lit "int") n false ks))) with (TWord (dec_N n)).
      apply arg_of_pos.
Qed.

Lemma pargs_comma t a r' : arg_of t = Some a ->
  pargs (t :: TComma :: r') = match pargs r' with Some (l, r'') => Some (a :: l, r'') | None => None end.
Proof. intro H. simpl. rewrite H. reflexivity. Qed.

Lemma pargs_ok args rest :
  forallb wf_argb args = true -> args <> [] ->
  pargs (sepc (map arg_tok args) ++ TRP :: rest) = Some (map raw_arg args, rest).
Proof.
  induction args as [|a r IH]; intros H Hne; [congruence|].
  simpl in H. apply andb_true_iff in H as [Ha Hr].
  destruct r as [|b r].
  - simpl. rewrite (arg_of_tok a Ha). reflexivity.
  - change (sepc (map arg_tok (a :: b :: r)) ++ TRP :: rest) with
      (arg_tok a :: TComma :: (sepc (map arg_tok (b :: r)) ++ TRP :: rest)).
    rewrite (pargs_comma _ _ _ (arg_of_tok a Ha)). rewrite IH by (auto; discriminate). reflexivity.
Qed.

(* ---------- unfolding equations of the token parser ---------- *)
Lemma P_LD k ts :
  P (S k) LD ts = match P k LC ts with Some (f, r) => loopP (P k LC) (lit "or") ROr k f r | None => None end.
Proof. reflexivity. Qed.
Lemma P_LC k ts :
  P (S k) LC ts = match P k LF ts with Some (f, r) => loopP (P k LF) (lit "and") RAnd k f r | None => None end.
Proof. reflexivity. Qed.
Lemma P_lp k r :
  P (S k) LF (TLP :: r) = match P k LD r with Some (f, TRP :: r') => Some (f, r') | _ => None end.
Proof. reflexivity. Qed.
Lemma P_not k r :
  P (S k) LF (TWord (lit "not") :: r) = match P k LF r with Some (f, r') => Some (RNot f, r') | None => None end.
Proof. reflexivity. Qed.

Definition nw (ts : list tok) : bool := match ts with TWord _ :: _ => false | _ => true end.
Lemma loopP_nw sub kw mk n acc ts : nw ts = true -> loopP sub kw mk n acc ts = Some (acc, ts).
Proof. destruct n, ts as [|[] r]; simpl; try reflexivity; discriminate. Qed.
Lemma loopP_other sub kw mk n acc w r :
  str_eqb w kw = false -> loopP sub kw mk n acc (TWord w :: r) = Some (acc, TWord w :: r).
Proof. intro H. destruct n; simpl; rewrite H; reflexivity. Qed.
Lemma loopP_step sub kw mk n acc w r :
  str_eqb w kw = true ->
  loopP sub kw mk (S n) acc (TWord w :: r) =
  match sub r with Some (g, r') => loopP sub kw mk n (mk acc g) r' | None => None end.
Proof. intro H. simpl. rewrite H. reflexivity. Qed.

(* from level LF up to level LD when no connective follows *)
Lemma P_up k f ts r : nw r = true -> P k LF ts = Some (f, r) -> P (S (S k)) LD ts = Some (f, r).
Proof.
  intros Hr H. rewrite P_LD, P_LC, H. rewrite loopP_nw by exact Hr. apply loopP_nw, Hr.
Qed.

Lemma P_forall k a b i x r' :
  P (S k) LF (TWord (lit "forall") :: TWord a :: TWord b :: TWord i :: TWord x :: TColon :: r') =
  if is_vartype a && is_name b && str_eqb i (lit "in") && is_name x then
    match P k LF r' with Some (f, r'') => Some (RQ false a b x f, r'') | None => None end
  else None.
Proof. reflexivity. Qed.
Lemma P_exists k a b i x r' :
  P (S k) LF (TWord (lit "exists") :: TWord a :: TWord b :: TWord i :: TWord x :: TColon :: r') =
  if is_vartype a && is_name b && str_eqb i (lit "in") && is_name x then
    match P k LF r' with Some (f, r'') => Some (RQ true a b x f, r'') | None => None end
  else None.
Proof. reflexivity. Qed.
Lemma P_forall_int k b r' :
  P (S k) LF (TWord (lit "forall") :: TWord (lit "int") :: TWord b :: TColon :: r') =
  if is_name b then match P k LF r' with Some (f, r'') => Some (RQInt false b f, r'') | None => None end else None.
Proof. reflexivity. Qed.
Lemma P_exists_int k b r' :
  P (S k) LF (TWord (lit "exists") :: TWord (lit "int") :: TWord b :: TColon :: r') =
  if is_name b then match P k LF r' with Some (f, r'') => Some (RQInt true b f, r'') | None => None end else None.
Proof. reflexivity. Qed.
Lemma P_word_other k w r :
  str_eqb w (lit "not") = false -> is_q w = None ->
  P (S k) LF (TWord w :: r) =
  match r with
  | TLP :: r1 =>
      if is_name w then
        match pargs r1 with Some (args, r') => Some (RPred w args, r') | None => None end
      else None
  | _ => None
  end.
Proof.
  intros H1 H2.
  change (P (S k) LF (TWord w :: r)) with
    (if str_eqb w (lit "not") then
       match P k LF r with Some (f, r') => Some (RNot f, r') | None => None end
     else
       match is_q w with
       | Some ex =>
           match r with
           | TWord a :: TWord b :: r2 =>
               match r2 with
               | TColon :: r' =>
                   if str_eqb a (lit "int") && is_name b then
                     match P k LF r' with Some (f, r'') => Some (RQInt ex b f, r'') | None => None end
                   else None
               | TWord i :: TWord x :: TColon :: r' =>
                   if is_vartype a && is_name b && str_eqb i (lit "in") && is_name x then
                     match P k LF r' with Some (f, r'') => Some (RQ ex a b x f, r'') | None => None end
                   else None
               | _ => None
               end
           | _ => None
           end
       | None =>
           match r with
           | TLP :: r1 =>
               if is_name w then
                 match pargs r1 with Some (args, r') => Some (RPred w args, r') | None => None end
               else None
           | _ => None
           end
       end).
  rewrite H1, H2. reflexivity.
Qed.
Lemma P_pred k n r1 :
  is_name n = true ->
  P (S k) LF (TWord n :: TLP :: r1) =
  match pargs r1 with Some (args, r') => Some (RPred n args, r') | None => None end.
Proof.
  intro H. rewrite P_word_other.
  - rewrite H. reflexivity.
  - apply (name_nokw n _ H). simpl. tauto.
  - unfold is_q. rewrite (name_nokw n (lit "forall") H), (name_nokw n (lit "exists") H) by (simpl; tauto).
    reflexivity.
Qed.

Lemma pred_info_ar n s k : pred_info n = Some (s, k) -> (2 <= k)%nat.
Proof.
  unfold pred_info. repeat match goal with |- context [if ?b then _ else _] => destruct b end;
    intro H; inversion H; lia.
Qed.

Lemma P_predicate sem n args k rest :
  wf_predb sem n args = true -> (1 <= k)%nat ->
  P k LF (pred_toks n args ++ rest) = Some (RPred n (map raw_arg args), rest).
Proof.
  unfold wf_predb. rewrite !andb_true_iff. intros [[Hn Hi] Ha] Hk.
  destruct k as [|k]; [lia|]. unfold pred_toks. simpl app. rewrite P_pred by exact Hn.
  rewrite <- app_assoc. simpl app. rewrite pargs_ok; [reflexivity | exact Ha |].
  unfold pinfo_eqb in Hi. destruct (pred_info n) as [[s ar]|] eqn:E; [|discriminate].
  apply andb_true_iff in Hi as [_ Hl]. apply Nat.eqb_eq in Hl. apply pred_info_ar in E.
  destruct args; [simpl in Hl; lia | discriminate].
Qed.

Lemma fh_pos f : (1 <= fh f)%nat.
Proof. destruct f; simpl; try lia; destruct fs as [|? [|? [|? ?]]]; lia. Qed.

Theorem parse_toks_ok f :
  wf_shapeb f = true -> forall k rest, (fh f <= k)%nat -> P k LF (toks f ++ rest) = Some (raw_of f, rest).
Proof.
  induction f as [a|n args|n args|g IH|fs IH|fs IH|v i m b IH|v i m b IH|v b IH|v b IH] using formula_ind';
    intros H k rest Hk; simpl in H, Hk.
  - destruct k; [lia|]. reflexivity.
  - apply (P_predicate false); [exact H | lia].
  - apply (P_predicate true); [exact H | lia].
  - apply andb_true_iff in H as [Hp Hg].
    destruct k as [|[|[|[|k]]]]; try lia.
    simpl toks. simpl app. rewrite P_not, P_lp. rewrite <- app_assoc. simpl app.
    rewrite (P_up _ (raw_of g) _ (TRP :: rest)); [reflexivity | reflexivity |].
    apply IH; [exact Hg | lia].
  - destruct fs as [|a [|b [|c r]]]; try discriminate. apply andb_true_iff in H as [Ha Hb].
    inversion IH as [|? ? IHa IH2]; subst. inversion IH2 as [|? ? IHb _]; subst.
    pose proof (fh_pos a) as Hpa. pose proof (fh_pos b) as Hpb.
    destruct k as [|[|[|[|k]]]]; try lia.
    simpl toks. simpl app. rewrite <- !app_assoc. simpl app. rewrite P_lp, P_LD, P_LC.
    rewrite (IHa Ha) by lia. rewrite loopP_step by reflexivity. rewrite (IHb Hb) by lia.
    rewrite loopP_nw by reflexivity. rewrite loopP_nw by reflexivity. reflexivity.
  - destruct fs as [|a [|b [|c r]]]; try discriminate. apply andb_true_iff in H as [Ha Hb].
    inversion IH as [|? ? IHa IH2]; subst. inversion IH2 as [|? ? IHb _]; subst.
    pose proof (fh_pos a) as Hpa. pose proof (fh_pos b) as Hpb.
    destruct k as [|[|[|[|k]]]]; try lia.
    simpl toks. simpl app. rewrite <- !app_assoc. simpl app. rewrite P_lp, P_LD, P_LC.
    rewrite (IHa Ha) by lia. rewrite loopP_other by reflexivity. rewrite loopP_step by reflexivity.
    rewrite P_LC. rewrite (IHb Hb) by lia.
    rewrite loopP_nw by reflexivity. rewrite loopP_nw by reflexivity. reflexivity.
  - apply andb_true_iff in H as [Hq Hb]. destruct k; [lia|].
    pose proof Hq as Hq'. unfold wf_qb in Hq. rewrite !andb_true_iff in Hq. destruct Hq as [[[Hm Ht] Hn] Hi].
    destruct i as [w|t]; [|discriminate]. apply andb_true_iff in Hi as [Hd Hw].
    destruct w as [[] wn wt]; try discriminate; simpl in Hw;
    simpl toks; simpl raw_of; simpl app; unfold var_str; simpl vk; cbv iota; simpl vname; rewrite P_forall, Ht, Hn, Hw; simpl;
    rewrite (IH Hb) by lia; reflexivity.
  - apply andb_true_iff in H as [Hq Hb]. destruct k; [lia|].
    pose proof Hq as Hq'. unfold wf_qb in Hq. rewrite !andb_true_iff in Hq. destruct Hq as [[[Hm Ht] Hn] Hi].
    destruct i as [w|t]; [|discriminate]. apply andb_true_iff in Hi as [Hd Hw].
    destruct w as [[] wn wt]; try discriminate; simpl in Hw;
    simpl toks; simpl raw_of; simpl app; unfold var_str; simpl vk; cbv iota; simpl vname; rewrite P_exists, Ht, Hn, Hw; simpl;
    rewrite (IH Hb) by lia; reflexivity.
  - apply andb_true_iff in H as [Hq Hb]. destruct k; [lia|]. unfold wf_nb in Hq.
    simpl toks. simpl app. rewrite P_forall_int, Hq. rewrite (IH Hb) by lia. reflexivity.
  - apply andb_true_iff in H as [Hq Hb]. destruct k; [lia|]. unfold wf_nb in Hq.
    simpl toks. simpl app. rewrite P_exists_int, Hq. rewrite (IH Hb) by lia. reflexivity.
Qed.

Lemma fh_le f : (fh f <= 3 * List.length (toks f))%nat.
Proof.
  induction f as [a|n args|n args|g IH|fs IH|fs IH|v i m b IH|v i m b IH|v b IH|v b IH] using formula_ind';
    simpl; try lia.
  - rewrite ?app_length; simpl; rewrite ?app_length; simpl; lia.
  - destruct fs as [|a [|b [|c r]]]; simpl; try lia.
    inversion IH as [|? ? IHa IH2]; subst. inversion IH2 as [|? ? IHb _]; subst.
    rewrite ?app_length; simpl; rewrite ?app_length; simpl; rewrite ?app_length; simpl; lia.
  - destruct fs as [|a [|b [|c r]]]; simpl; try lia.
    inversion IH as [|? ? IHa IH2]; subst. inversion IH2 as [|? ? IHb _]; subst.
    rewrite ?app_length; simpl; rewrite ?app_length; simpl; rewrite ?app_length; simpl; lia.
Qed.

(* ---------- name resolution ---------- *)
Fixpoint opaque (f : cformula) : cformula :=
  match f with
  | FSmt a => FSmt (SVar (smt_str (fst a)), snd a)
  | FSPred n args => FSPred n args
  | FSemPred n args => FSemPred n args
  | FNot g => FNot (opaque g)
  | FAnd fs => FAnd (map opaque fs)
  | FOr fs => FOr (map opaque fs)
  | FForall v i m b => FForall v i m (opaque b)
  | FExists v i m b => FExists v i m (opaque b)
  | FForallInt v b => FForallInt v (opaque b)
  | FExistsInt v b => FExistsInt v (opaque b)
  end.

Lemma var_eqb_true v w : var_eqb v w = true -> v = w.
Proof.
  destruct v as [k1 n1 t1], w as [k2 n2 t2]. unfold var_eqb. simpl. rewrite !andb_true_iff.
  intros [[Hk Hn] Ht]. apply str_eqb_eq in Hn, Ht. subst. destruct k1, k2; try discriminate; reflexivity.
Qed.
Fixpoint vars_eqb (a b : list var) : bool :=
  match a, b with
  | [], [] => true
  | x :: r, y :: s => var_eqb x y && vars_eqb r s
  | _, _ => false
  end.
Lemma vars_eqb_true a : forall b, vars_eqb a b = true -> a = b.
Proof.
  induction a as [|x r IH]; intros [|y s] H; try discriminate; [reflexivity|].
  simpl in H. apply andb_true_iff in H as [H1 H2]. apply var_eqb_true in H1. apply IH in H2. congruence.
Qed.

(* a use of variable v is resolved to v; a declaration of v yields v *)
Definition var_is (c : var) (D : list var) (v : var) : bool :=
  match rv c D (vname v) with Some w => var_eqb w v | None => false end.
Definition decl_ok (c v : var) (ty : str) : bool := var_eqb (bvar c (vname v) ty) v.
Fixpoint names_okb (c : var) (D : list var) (f : cformula) : bool :=
  match f with
  | FSmt a => vars_eqb (snd a) (atom_vars c D (smt_str (fst a)))
  | FSPred _ args | FSemPred _ args =>
      forallb (fun a => match a with PVar v => var_is c D v | _ => true end) args
  | FNot g => names_okb c D g
  | FAnd fs | FOr fs => match fs with [a; b] => names_okb c D a && names_okb c D b | _ => false end
  | FForall v i _ b | FExists v i _ b =>
      decl_ok c v (vtype v) && match i with InVar w => var_is c D w | InTree _ => false end && names_okb c D b
  | FForallInt v b | FExistsInt v b => decl_ok c v num_type && names_okb c D b
  end.

Lemma var_is_rv c D v : var_is c D v = true -> rv c D (vname v) = Some v.
Proof.
  unfold var_is. destruct (rv c D (vname v)) as [w|]; [|discriminate]. intro H. apply var_eqb_true in H. congruence.
Qed.

Lemma res_args_ok c D args :
  forallb wf_argb args = true ->
  forallb (fun a => match a with PVar v => var_is c D v | _ => true end) args = true ->
  res_args c D (map raw_arg args) = Some args.
Proof.
  induction args as [|a r IH]; intros Hw Hn; [reflexivity|].
  simpl in Hw, Hn. apply andb_true_iff in Hw as [Hwa Hwr]. apply andb_true_iff in Hn as [Hna Hnr].
  simpl. rewrite (IH Hwr Hnr).
  destruct a as [v|s|t]; simpl.
  - rewrite (var_is_rv _ _ _ Hna). reflexivity.
  - reflexivity.
  - destruct t as [l n neg ks]. simpl in Hwa. rewrite !andb_true_iff in Hwa. destruct Hwa as [[Hl Hk] Hp].
    apply str_eqb_eq in Hl. subst l. destruct ks; [|discriminate].
    destruct neg, n as [|p]; simpl in Hp; try discriminate; reflexivity.
Qed.

Lemma pinfo_eq n sem ar : pinfo_eqb (pred_info n) sem ar = true -> pred_info n = Some (sem, ar).
Proof.
  unfold pinfo_eqb. destruct (pred_info n) as [[s k]|]; [|discriminate]. rewrite andb_true_iff.
  intros [H1 H2]. apply Bool.eqb_prop in H1. apply Nat.eqb_eq in H2. congruence.
Qed.

Lemma res_pred c D sem n args :
  wf_predb sem n args = true ->
  forallb (fun a => match a with PVar v => var_is c D v | _ => true end) args = true ->
  resolve c D (RPred n (map raw_arg args)) = Some (if sem then FSemPred n args else FSPred n args).
Proof.
  unfold wf_predb. rewrite !andb_true_iff. intros [[Hn Hi] Ha] Hv. simpl.
  rewrite (pinfo_eq _ _ _ Hi), (res_args_ok c D args Ha Hv), Nat.eqb_refl. reflexivity.
Qed.

Theorem resolve_ok c D f :
  wf_shapeb f = true -> names_okb c D f = true ->
  resolve c D (raw_of f) = Some (opaque f) /\ rdecls c (raw_of f) = fbound f.
Proof.
  induction f as [a|n args|n args|g IH|fs IH|fs IH|v i m b IH|v i m b IH|v b IH|v b IH] using formula_ind';
    intros Hw Hn; simpl in Hw, Hn.
  - split; [|reflexivity]. simpl. apply vars_eqb_true in Hn. rewrite <- Hn. reflexivity.
  - split; [|reflexivity]. apply (res_pred c D false); assumption.
  - split; [|reflexivity]. apply (res_pred c D true); assumption.
  - apply andb_true_iff in Hw as [Hp Hg]. destruct (IH Hg Hn) as [H1 H2]. split; [|exact H2].
    simpl. rewrite H1. destruct g; try discriminate; reflexivity.
  - destruct fs as [|a [|b [|x r]]]; try discriminate.
    apply andb_true_iff in Hw as [Hwa Hwb]. apply andb_true_iff in Hn as [Hna Hnb].
    inversion IH as [|? ? IHa IH2]; subst. inversion IH2 as [|? ? IHb _]; subst.
    destruct (IHa Hwa Hna) as [A1 A2]. destruct (IHb Hwb Hnb) as [B1 B2].
    simpl. rewrite A1, B1, A2, B2, app_nil_r. split; reflexivity.
  - destruct fs as [|a [|b [|x r]]]; try discriminate.
    apply andb_true_iff in Hw as [Hwa Hwb]. apply andb_true_iff in Hn as [Hna Hnb].
    inversion IH as [|? ? IHa IH2]; subst. inversion IH2 as [|? ? IHb _]; subst.
    destruct (IHa Hwa Hna) as [A1 A2]. destruct (IHb Hwb Hnb) as [B1 B2].
    simpl. rewrite A1, B1, A2, B2, app_nil_r. split; reflexivity.
  - apply andb_true_iff in Hw as [Hq Hb]. rewrite !andb_true_iff in Hn. destruct Hn as [[Hd Hi] Hnb].
    unfold wf_qb in Hq. rewrite !andb_true_iff in Hq. destruct Hq as [[[Hm _] _] Hiw].
    destruct m; [discriminate|]. destruct i as [w|t]; [|discriminate].
    apply andb_true_iff in Hiw as [Hdw _].
    assert (Hs : var_str w = vname w) by (unfold var_str; unfold not_dummy in Hdw; destruct (vk w); try reflexivity; discriminate).
    destruct (IH Hb Hnb) as [B1 B2]. apply var_eqb_true in Hd.
    simpl. rewrite Hs, (var_is_rv _ _ _ Hi), B1, B2, Hd. split; reflexivity.
  - apply andb_true_iff in Hw as [Hq Hb]. rewrite !andb_true_iff in Hn. destruct Hn as [[Hd Hi] Hnb].
    unfold wf_qb in Hq. rewrite !andb_true_iff in Hq. destruct Hq as [[[Hm _] _] Hiw].
    destruct m; [discriminate|]. destruct i as [w|t]; [|discriminate].
    apply andb_true_iff in Hiw as [Hdw _].
    assert (Hs : var_str w = vname w) by (unfold var_str; unfold not_dummy in Hdw; destruct (vk w); try reflexivity; discriminate).
    destruct (IH Hb Hnb) as [B1 B2]. apply var_eqb_true in Hd.
    simpl. rewrite Hs, (var_is_rv _ _ _ Hi), B1, B2, Hd. split; reflexivity.
  - apply andb_true_iff in Hw as [_ Hb]. apply andb_true_iff in Hn as [Hd Hnb].
    destruct (IH Hb Hnb) as [B1 B2]. apply var_eqb_true in Hd. simpl. rewrite B1, B2, Hd. split; reflexivity.
  - apply andb_true_iff in Hw as [_ Hb]. apply andb_true_iff in Hn as [Hd Hnb].
    destruct (IH Hb Hnb) as [B1 B2]. apply var_eqb_true in Hd. simpl. rewrite B1, B2, Hd. split; reflexivity.
Qed.

(* ---------- the fragment and the round trip ---------- *)
Definition hconst (f : cformula) : var := match first_const f with Some c => c | None => start_const end.
Definition hdr_okb (f : cformula) : bool :=
  match first_const f with
  | Some c => var_eqb c start_const || (is_name (vname c) && is_vartype (vtype c))
  | None => true
  end.
(* wf_core: shape of the fragment (opaque atoms `(op …)` with balanced parentheses, the standard
   predicates with variable / int / quote-free string arguments, `not` over predicate atoms only,
   BINARY and/or, quantifiers with name and `in`, no match expression), names resolve (every use of a
   variable is the declared constant or the variable bound by the quantifier of that name; an
   atom's free-variable list is the list of declared variables that occur as words of its text, in
   order of first occurrence), and the constant of a printed header is a legal declaration *)
Definition wf_coreb (f : cformula) : bool :=
  wf_shapeb f && names_okb (hconst f) (fbound f) f && hdr_okb f.
Definition wf_core (f : cformula) : Prop := wf_coreb f = true.

Lemma split_header_word w r :
  str_eqb w (lit "const") = false -> split_header (TWord w :: r) = Some (start_const, TWord w :: r).
Proof. intro H. unfold split_header. rewrite H. reflexivity. Qed.
Lemma split_header_toks f : wf_shapeb f = true -> split_header (toks f) = Some (start_const, toks f).
Proof.
  destruct f; intro H; try reflexivity; simpl in H.
  - unfold wf_predb in H. rewrite !andb_true_iff in H. destruct H as [[Hn _] _].
    apply (split_header_word name). apply (name_nokw name _ Hn). simpl. tauto.
  - unfold wf_predb in H. rewrite !andb_true_iff in H. destruct H as [[Hn _] _].
    apply (split_header_word name). apply (name_nokw name _ Hn). simpl. tauto.
Qed.

Lemma parse_toks_body c f :
  wf_shapeb f = true -> names_okb c (fbound f) f = true ->
  match P (3 * List.length (toks f) + 3) LD (toks f) with
  | Some (r, []) => resolve c (rdecls c r) r
  | _ => None
  end = Some (opaque f).
Proof.
  intros Hw Hn.
  replace (3 * List.length (toks f) + 3)%nat with (S (S (3 * List.length (toks f) + 1)))%nat by lia.
  rewrite (P_up _ (raw_of f) _ []); [| reflexivity |].
  - destruct (resolve_ok c (fbound f) f Hw Hn) as [H1 H2]. rewrite H2. exact H1.
  - rewrite <- (app_nil_r (toks f)) at 2. apply parse_toks_ok; [exact Hw|]. pose proof (fh_le f). lia.
Qed.

Lemma LX_header c :
  is_name (vname c) = true -> is_vartype (vtype c) = true ->
  LX (lit "const " ++ vname c ++ lit ": " ++ vtype c ++ [59; 10; 10])
     [TWord (lit "const"); TWord (vname c); TColon; TWord (vtype c); TSemi].
Proof.
  intros Hn Ht.
  replace (lit "const " ++ vname c ++ lit ": " ++ vtype c ++ [59; 10; 10]) with
    ((lit "const" ++ [32]) ++ (vname c ++ [58]) ++ [32] ++ (vtype c ++ [59]) ++ [10] ++ [10])
    by (rewrite <- !app_assoc; reflexivity).
  change [TWord (lit "const"); TWord (vname c); TColon; TWord (vtype c); TSemi] with
    ([TWord (lit "const")] ++ [TWord (vname c); TColon] ++ [] ++ [TWord (vtype c); TSemi] ++ [] ++ []).
  repeat apply LX_app.
  - apply LX_word_sp, word_const.
  - apply LX_word_colon, name_word, Hn.
  - apply LX_sp.
  - apply LX_word_semi, vartype_word, Ht.
  - apply LX_nl.
  - apply LX_nl.
Qed.

Theorem print_parse f : wf_core f -> parse_core (unparse f) = Some (opaque f).
Proof.
  unfold wf_core, wf_coreb. rewrite !andb_true_iff. intros [[Hw Hn] Hh].
  pose proof (lex_unp_text f Hw) as HL.
  unfold parse_core, lex, unparse, header. unfold hconst in Hn. unfold hdr_okb in Hh.
  assert (Body : lexm (MW []) (join [10] (unp f)) = Some (toks f)).
  { rewrite <- (app_nil_r (join [10] (unp f))). rewrite HL. simpl. rewrite app_nil_r. reflexivity. }
  destruct (first_const f) as [c|] eqn:Ec.
  - destruct (var_eqb c start_const) eqn:Es.
    + apply var_eqb_true in Es. subst c. simpl app. rewrite Body.
      unfold parse_toks. rewrite (split_header_toks f Hw). apply parse_toks_body; assumption.
    + simpl in Hh. apply andb_true_iff in Hh as [Hcn Hct].
      cbv iota. rewrite (LX_header c Hcn Hct). rewrite Body. simpl omap.
      unfold parse_toks. simpl split_header. rewrite Hcn, Hct. simpl andb. cbv iota.
      assert (Ek : MkVar VConst (vname c) (vtype c) = c).
      { unfold first_const in Ec. apply find_some in Ec. destruct Ec as [_ Ec]. unfold is_top_const in Ec.
        apply andb_true_iff in Ec as [Ek _]. destruct c as [k n t]. simpl in *. destruct k; try discriminate; reflexivity. }
      rewrite Ek. apply parse_toks_body; assumption.
  - simpl app. rewrite Body. unfold parse_toks. rewrite (split_header_toks f Hw). apply parse_toks_body; assumption.
Qed.

(* ---------- the printer does not see the difference between f and opaque f ---------- *)
Lemma unp_opaque f : unp (opaque f) = unp f.
Proof.
  induction f as [a|n args|n args|g IH|fs IH|fs IH|v i m b IH|v i m b IH|v b IH|v b IH] using formula_ind';
    simpl; try rewrite IH; try reflexivity.
  - rewrite map_map. f_equal. apply map_ext_in. intros x Hx. rewrite Forall_forall in IH. apply IH, Hx.
  - rewrite map_map. f_equal. apply map_ext_in. intros x Hx. rewrite Forall_forall in IH. apply IH, Hx.
Qed.
Lemma fvars_opaque f : fvars (opaque f) = fvars f.
Proof.
  induction f as [a|n args|n args|g IH|fs IH|fs IH|v i m b IH|v i m b IH|v b IH|v b IH] using formula_ind';
    simpl; try rewrite IH; try reflexivity.
  - induction IH as [|x r Hx _ IHr]; [reflexivity|]. simpl. rewrite Hx, IHr. reflexivity.
  - induction IH as [|x r Hx _ IHr]; [reflexivity|]. simpl. rewrite Hx, IHr. reflexivity.
Qed.
Theorem unparse_opaque f : unparse (opaque f) = unparse f.
Proof. unfold unparse, header, first_const. rewrite unp_opaque, fvars_opaque. reflexivity. Qed.

Lemma opaque_idem f : opaque (opaque f) = opaque f.
Proof.
  induction f as [a|n args|n args|g IH|fs IH|fs IH|v i m b IH|v i m b IH|v b IH|v b IH] using formula_ind';
    simpl; try rewrite IH; try reflexivity.
  - f_equal. rewrite map_map. apply map_ext_in. intros x Hx. rewrite Forall_forall in IH. apply IH, Hx.
  - f_equal. rewrite map_map. apply map_ext_in. intros x Hx. rewrite Forall_forall in IH. apply IH, Hx.
Qed.

(* atoms already kept as text: the round trip is the identity *)
Definition atoms_opaque (f : cformula) : Prop := opaque f = f.
Theorem print_parse_exact f : wf_core f -> atoms_opaque f -> parse_core (unparse f) = Some f.
Proof. intros H Ho. rewrite (print_parse f H). rewrite Ho. reflexivity. Qed.

Theorem unparse_parse_idem f :
  wf_core f -> exists g, parse_core (unparse f) = Some g /\ unparse g = unparse f.
Proof. intro H. exists (opaque f). split; [apply print_parse, H | apply unparse_opaque]. Qed.

(* ---------- non-vacuity: two formulas of the fragment (multi-line layout, nested connectives, a
   negated predicate, a numeric quantifier, int/string arguments, a string literal containing a
   parenthesis; the second one with a `const` header and an inner quantifier as FIRST child) ---------- *)
Definition pp_x := MkVar VBound (lit "x") (lit "<var>").
Definition pp_y := MkVar VBound (lit "y") (lit "<var>").
Definition pp_c := MkVar VConst (lit "c") (lit "<stmt>").
Definition pp_at1 : cformula := FSmt (SApp KOther (lit "=") [SVar (lit "x"); SStr (lit "a b(")], [pp_x]).
Definition pp_at2 : cformula := FSmt (SApp KOther (lit "=") [SVar (lit "y"); SVar (lit "x")], [pp_y; pp_x]).
Definition pp_ex1 : cformula :=
  FForall pp_x (InVar start_const) None
    (FAnd [pp_at1;
           FOr [FNot (FSPred (lit "inside") [PVar pp_x; PVar start_const]);
                FExistsInt (MkVar VBound (lit "n") (lit "NUM"))
                  (FSemPred (lit "count") [PVar pp_x; PStr (lit "<var>"); parg_int (Zneg 3)])]]).
Definition pp_ex2 : cformula :=
  FForall pp_x (InVar pp_c) None (FAnd [FExists pp_y (InVar pp_x) None pp_at2; pp_at1]).

Example print_parse_nonvacuous :
  wf_core pp_ex1 /\ parse_core (unparse pp_ex1) = Some (opaque pp_ex1) /\ opaque pp_ex1 <> pp_ex1 /\
  wf_core pp_ex2 /\ header pp_ex2 <> [] /\ parse_core (unparse pp_ex2) = Some (opaque pp_ex2) /\
  wf_core (opaque pp_ex2) /\ atoms_opaque (opaque pp_ex2).
Proof.
  repeat split; try (vm_compute; reflexivity); try discriminate.
Qed.

(* ---------- structural comparison used by the correspondence check (harness/c07.py, stream `core`):
   the canonical AST of parse_isla(unparse_isla f) against parse_core of the same text ---------- *)
Definition parg_ceqb (a b : parg) : bool :=
  match a, b with
  | PVar v, PVar w => var_eqb v w
  | PStr s, PStr t => str_eqb s t
  | PTree (Node l n o []), PTree (Node l' n' o' []) => str_eqb l l' && (n =? n') && Bool.eqb o o'
  | _, _ => false
  end.
Fixpoint pargs_ceqb (a b : list parg) : bool :=
  match a, b with
  | [], [] => true
  | x :: r, y :: s => parg_ceqb x y && pargs_ceqb r s
  | _, _ => false
  end.
Fixpoint ceqb (f g : cformula) {struct f} : bool :=
  match f, g with
  | FSmt (SVar t, vs), FSmt (SVar u, ws) => str_eqb t u && vars_eqb vs ws
  | FSPred n a, FSPred m b => str_eqb n m && pargs_ceqb a b
  | FSemPred n a, FSemPred m b => str_eqb n m && pargs_ceqb a b
  | FNot x, FNot y => ceqb x y
  | FAnd [a; b], FAnd [c; d] => ceqb a c && ceqb b d
  | FOr [a; b], FOr [c; d] => ceqb a c && ceqb b d
  | FForall v (InVar i) None x, FForall w (InVar j) None y => var_eqb v w && var_eqb i j && ceqb x y
  | FExists v (InVar i) None x, FExists w (InVar j) None y => var_eqb v w && var_eqb i j && ceqb x y
  | FForallInt v x, FForallInt w y => var_eqb v w && ceqb x y
  | FExistsInt v x, FExistsInt w y => var_eqb v w && ceqb x y
  | _, _ => false
  end.
(* one case of the stream: f (atoms as text), the text unparse_isla printed, the canonical AST of
   parse_isla of that text.  Outside the fragment nothing is claimed. *)
Definition core_case_ok (c : cformula * str * option cformula) : bool :=
  let '(f, t, g) := c in
  negb (wf_coreb f)
  || (str_eqb (unparse f) t
      && match parse_core t, g with Some a, Some b => ceqb a b && ceqb b f | _, _ => false end).
