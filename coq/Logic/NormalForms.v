(* C09 proof extension 2 — SHAPE of the outputs of convert_to_nnf / convert_to_dnf (no semantics).

   nnf:  * `nnf_idempotent`: convert_to_nnf(convert_to_nnf(f, b)) = convert_to_nnf(f, b) (exact AST
           equality), given that z3_push_in_negations(., False) leaves its own outputs and the
           constants true/false alone (`push_stable`, premise about z3; proved for the concrete atoms);
         * `nnf_shape`: outside quantifier bodies every NegatedFormula of the output sits on a
           predicate atom (`is_nnf false`), unconditionally; everywhere (`is_nnf true`) if the
           quantifier bodies that nnf does not traverse are in that form already (`bodies_nnf`).
   dnf:  FULL STATEMENT `is_dnf g` for every output g (every disjunct of split_disjunction(g) is free of
         disjunctions outside quantifier bodies) is FALSE - `dnf_shape_refuted`:
         ((s or t) and not s) and r  is returned unchanged, because each argument of the outer
         conjunction converts to ONE disjunct ((s and not s) simplifies to false) and convert_to_dnf
         then returns the ORIGINAL formula (`return formula`).  Reproduced on /repo from a parsed
         constraint.  `dnf_shape_partial`: outside exactly that class (`K_dnf_shortcut`) the output is
         in DNF; `dnf_dsafe`: the output again satisfies the precondition of convert_to_dnf. *)
From Coq Require Import List NArith Bool Arith Lia.
From ISLA Require Import Rewrite RewriteFacts FreshFacts RewriteMore.
Import ListNotations.

(* ---------- specification of the shapes ---------- *)
Definition is_pred {A} (f : formula A) : bool :=
  match f with FSPred _ _ | FSemPred _ _ => true | _ => false end.

(* negation normal form; deep = also inside quantifier bodies *)
Fixpoint is_nnf {A} (deep : bool) (f : formula A) : bool :=
  match f with
  | FNot g => is_pred g
  | FAnd fs | FOr fs => forallb (is_nnf deep) fs
  | FForall _ _ _ b | FExists _ _ _ b | FForallInt _ b | FExistsInt _ b => if deep then is_nnf deep b else true
  | _ => true
  end.

(* the quantifier bodies convert_to_nnf leaves untouched (bodies of un-negated quantifiers) are in nnf *)
Fixpoint bodies_nnf {A} (neg : bool) (f : formula A) : bool :=
  match f with
  | FNot g => bodies_nnf (negb neg) g
  | FAnd fs | FOr fs => forallb (bodies_nnf neg) fs
  | FForall _ _ _ b | FExists _ _ _ b | FForallInt _ b | FExistsInt _ b =>
      if neg then bodies_nnf true b else is_nnf true b
  | _ => true
  end.

(* a clause: no disjunction reachable through conjunctions (quantifier bodies are not inspected) *)
Fixpoint or_free {A} (f : formula A) : bool :=
  match f with
  | FOr _ => false
  | FAnd fs => forallb or_free fs
  | _ => true
  end.

(* disjunctive normal form: a disjunction (any nesting) of clauses *)
Definition is_dnf {A} (f : formula A) : bool := forallb or_free (split_disj A f).

(* z3_push_in_negations(., False) does not change its own results nor the Boolean constants *)
Definition push_stable {A} (O : ops A) : Prop :=
  (forall b a, o_push O false (o_push O b a) = o_push O b a) /\
  o_push O false (o_true O) = o_true O /\
  o_push O false (o_false O) = o_false O.

Lemma push_stable_cops : push_stable cops.
Proof. split; [|split]; try reflexivity. intros b [| |v s n]; destruct b; try destruct n; reflexivity. Qed.

(* ================= nnf ================= *)
Section NnfShape.
  Variable A : Type.
  Variable O : ops A.
  Notation form := (formula A).

  Lemma nnf_and_eq (fs : list form) neg :
    Nnf O (FAnd fs) neg =
    if neg then reduce1 A (Or O) (FalseF O) (map (fun a => Nnf O a neg) fs)
    else reduce1 A (And O) (TrueF O) (map (fun a => Nnf O a neg) fs).
  Proof. reflexivity. Qed.
  Lemma nnf_or_eq (fs : list form) neg :
    Nnf O (FOr fs) neg =
    if neg then reduce1 A (And O) (TrueF O) (map (fun a => Nnf O a neg) fs)
    else reduce1 A (Or O) (FalseF O) (map (fun a => Nnf O a neg) fs).
  Proof. reflexivity. Qed.

  (* ----- shape ----- *)
  Lemma is_nnf_reduce_and d (l : list form) : forallb (is_nnf d) l = true ->
    is_nnf d (reduce1 A (And O) (TrueF O) l) = true.
  Proof.
    intros H. apply (P_reduce_and A O (fun g => is_nnf d g = true)); try reflexivity.
    - intros a b Ha Hb. simpl. now rewrite Ha, Hb.
    - apply Forall_forall. now apply forallb_forall.
  Qed.
  Lemma is_nnf_reduce_or d (l : list form) : forallb (is_nnf d) l = true ->
    is_nnf d (reduce1 A (Or O) (FalseF O) l) = true.
  Proof.
    intros H. apply (P_reduce_or A O (fun g => is_nnf d g = true)); try reflexivity.
    - intros a b Ha Hb. simpl. now rewrite Ha, Hb.
    - apply Forall_forall. now apply forallb_forall.
  Qed.

  Theorem nnf_shape_gen d (f : form) : forall neg,
    (d = true -> bodies_nnf neg f = true) -> is_nnf d (Nnf O f neg) = true.
  Proof.
    induction f as [a|n xs|n xs|f IH|fs IH|fs IH|v i m b IH|v i m b IH|v b IH|v b IH] using formula_ind';
      intros neg H.
    - reflexivity.
    - destruct neg; reflexivity.
    - destruct neg; reflexivity.
    - change (Nnf O (FNot f) neg) with (Nnf O f (negb neg)). apply IH. intros Hd. now apply H.
    - rewrite nnf_and_eq.
      assert (Hall : forallb (is_nnf d) (map (fun a => Nnf O a neg) fs) = true).
      { rewrite forallb_map. apply forallb_forall. intros x Hx. apply (Forall_In _ _ IH x Hx).
        intros Hd. specialize (H Hd). simpl in H. rewrite forallb_forall in H. now apply H. }
      destruct neg; [now apply is_nnf_reduce_or | now apply is_nnf_reduce_and].
    - rewrite nnf_or_eq.
      assert (Hall : forallb (is_nnf d) (map (fun a => Nnf O a neg) fs) = true).
      { rewrite forallb_map. apply forallb_forall. intros x Hx. apply (Forall_In _ _ IH x Hx).
        intros Hd. specialize (H Hd). simpl in H. rewrite forallb_forall in H. now apply H. }
      destruct neg; [now apply is_nnf_reduce_and | now apply is_nnf_reduce_or].
    - destruct neg; unfold Nnf; simpl; fold (Nnf O b true); (destruct d; [|reflexivity]).
      + apply IH. intros _. now apply H.
      + now apply H.
    - destruct neg; unfold Nnf; simpl; fold (Nnf O b true); (destruct d; [|reflexivity]).
      + apply IH. intros _. now apply H.
      + now apply H.
    - destruct neg; unfold Nnf; simpl; fold (Nnf O b true); (destruct d; [|reflexivity]).
      + apply IH. intros _. now apply H.
      + now apply H.
    - destruct neg; unfold Nnf; simpl; fold (Nnf O b true); (destruct d; [|reflexivity]).
      + apply IH. intros _. now apply H.
      + now apply H.
  Qed.

  Theorem nnf_shape_top (f : form) neg : is_nnf false (Nnf O f neg) = true.
  Proof. apply nnf_shape_gen. discriminate. Qed.
  Theorem nnf_shape_deep (f : form) neg : bodies_nnf neg f = true -> is_nnf true (Nnf O f neg) = true.
  Proof. intros H. apply nnf_shape_gen. now intros _. Qed.

  (* ----- idempotence ----- *)
  Hypothesis HP : push_stable O.
  Definition nfix (g : form) : Prop := Nnf O g false = g.

  Lemma nfix_true : nfix (TrueF O).
  Proof. unfold nfix, Nnf, TrueF. simpl. f_equal. apply HP. Qed.
  Lemma nfix_false : nfix (FalseF O).
  Proof. unfold nfix, Nnf, FalseF. simpl. f_equal. apply HP. Qed.

  Lemma nfix_And a b : nfix a -> nfix b -> nfix (And O a b).
  Proof.
    intros Ha Hb. destruct (and_cases A O a b) as [H|[H|[H|H]]].
    - now rewrite H.
    - now rewrite H.
    - rewrite H. apply nfix_false.
    - unfold nfix. rewrite H at 1. rewrite nnf_and_eq. cbn [map reduce1 fold_left].
      unfold nfix in Ha, Hb. now rewrite Ha, Hb.
  Qed.
  Lemma nfix_Or a b : nfix a -> nfix b -> nfix (Or O a b).
  Proof.
    intros Ha Hb. destruct (or_cases A O a b) as [H|[H|[H|H]]].
    - now rewrite H.
    - now rewrite H.
    - rewrite H. apply nfix_true.
    - unfold nfix. rewrite H at 1. rewrite nnf_or_eq. cbn [map reduce1 fold_left].
      unfold nfix in Ha, Hb. now rewrite Ha, Hb.
  Qed.
  Lemma nfix_fold_and l : forall x, nfix x -> Forall nfix l -> nfix (fold_left (And O) l x).
  Proof.
    induction l as [|a l IH]; intros x Hx Hl; simpl; [assumption|].
    inversion Hl as [|a' l' Ha Hl']. subst. apply IH; [now apply nfix_And | assumption].
  Qed.
  Lemma nfix_fold_or l : forall x, nfix x -> Forall nfix l -> nfix (fold_left (Or O) l x).
  Proof.
    induction l as [|a l IH]; intros x Hx Hl; simpl; [assumption|].
    inversion Hl as [|a' l' Ha Hl']. subst. apply IH; [now apply nfix_Or | assumption].
  Qed.
  Lemma nfix_reduce_and l : Forall nfix l -> nfix (reduce1 A (And O) (TrueF O) l).
  Proof.
    intros Hl. destruct l as [|x l]; simpl; [apply nfix_true|].
    inversion Hl as [|a' l' Ha Hl']. subst. now apply nfix_fold_and.
  Qed.
  Lemma nfix_reduce_or l : Forall nfix l -> nfix (reduce1 A (Or O) (FalseF O) l).
  Proof.
    intros Hl. destruct l as [|x l]; simpl; [apply nfix_false|].
    inversion Hl as [|a' l' Ha Hl']. subst. now apply nfix_fold_or.
  Qed.

  Theorem nnf_idempotent (f : form) : forall neg, Nnf O (Nnf O f neg) false = Nnf O f neg.
  Proof.
    induction f as [a|n xs|n xs|f IH|fs IH|fs IH|v i m b IH|v i m b IH|v b IH|v b IH] using formula_ind';
      intros neg.
    - unfold Nnf. simpl. f_equal. apply HP.
    - destruct neg; reflexivity.
    - destruct neg; reflexivity.
    - change (Nnf O (FNot f) neg) with (Nnf O f (negb neg)). apply IH.
    - rewrite nnf_and_eq.
      assert (Hall : Forall nfix (map (fun a => Nnf O a neg) fs)).
      { apply Forall_forall. intros g Hg. apply in_map_iff in Hg. destruct Hg as [x [Hx Hin]]. subst g.
        apply (Forall_In _ _ IH x Hin). }
      destruct neg; [now apply nfix_reduce_or | now apply nfix_reduce_and].
    - rewrite nnf_or_eq.
      assert (Hall : Forall nfix (map (fun a => Nnf O a neg) fs)).
      { apply Forall_forall. intros g Hg. apply in_map_iff in Hg. destruct Hg as [x [Hx Hin]]. subst g.
        apply (Forall_In _ _ IH x Hin). }
      destruct neg; [now apply nfix_reduce_and | now apply nfix_reduce_or].
    - destruct neg; reflexivity.
    - destruct neg; reflexivity.
    - destruct neg; reflexivity.
    - destruct neg; reflexivity.
  Qed.
End NnfShape.

(* ================= dnf ================= *)
(* the recursive calls of convert_to_dnf on the arguments of a connective (always deep=True) *)
Fixpoint dnf_args {A} (O : ops A) (l : list (formula A)) : res (list (formula A)) :=
  match l with
  | [] => Ok []
  | a :: l' => bind (Dnf O true a) (fun r => bind (dnf_args O l') (fun rs => Ok (r :: rs)))
  end.

Definition disjuncts_of {A} (O : ops A) (a : formula A) : list (formula A) :=
  match Dnf O true a with Ok r => split_disj A r | Raise _ => [] end.

(* no conjunction visited by convert_to_dnf (outside quantifier bodies) is returned unconverted
   although it contains a disjunction: a visited conjunction is a clause already, or one of its
   arguments converts to more than one disjunct *)
Fixpoint sc_ok {A} (O : ops A) (f : formula A) : bool :=
  match f with
  | FAnd fs => forallb (sc_ok O) fs && (forallb or_free fs || negb (forallb len1 (map (disjuncts_of O) fs)))
  | FOr fs => forallb (sc_ok O) fs
  | _ => true
  end.
(* class of the observation `dnf-shortcut` *)
Definition K_dnf_shortcut {A} (O : ops A) (f : formula A) : bool := negb (sc_ok O f).

Section DnfShape.
  Variable A : Type.
  Variable O : ops A.
  Notation form := (formula A).

  Lemma dnf_or_eq deep (fs : list form) :
    Dnf O deep (FOr fs) = bind (dnf_args O fs) (fun rs => Ok (fold_left (Or O) rs (FalseF O))).
  Proof.
    unfold Dnf. simpl. f_equal. induction fs as [|a fs IH]; simpl; [reflexivity|]. now rewrite IH.
  Qed.

  Lemma dnf_and_eq deep (fs : list form) :
    Dnf O deep (FAnd fs) =
    bind (dnf_args O fs) (fun rs =>
      dnf_conj A (o_aeq O) (o_true O) (o_false O) (o_is_true O) (o_is_false O) (FAnd fs) (map (split_disj A) rs)).
  Proof.
    unfold Dnf. simpl.
    match goal with |- bind ?G _ = _ => assert (HG : G = bind (dnf_args O fs) (fun rs => Ok (map (split_disj A) rs))) end.
    { induction fs as [|a fs IH]; simpl; [reflexivity|]. rewrite IH. unfold Dnf.
      destruct (dnf A (o_aeq O) (o_true O) (o_false O) (o_is_true O) (o_is_false O) true a) as [r|e]; simpl; [|reflexivity].
      destruct (dnf_args O fs) as [rs|e]; reflexivity. }
    rewrite HG. destruct (dnf_args O fs) as [rs|e]; reflexivity.
  Qed.

  Lemma dnf_args_In (fs : list form) rs : dnf_args O fs = Ok rs ->
    forall r, In r rs -> exists a, In a fs /\ Dnf O true a = Ok r.
  Proof.
    revert rs. induction fs as [|a fs IH]; intros rs H r Hr; simpl in H.
    - inversion H. subst. destruct Hr.
    - destruct (Dnf O true a) as [r0|e] eqn:Ha; simpl in H; [|discriminate].
      destruct (dnf_args O fs) as [rs0|e] eqn:Hrs; simpl in H; [|discriminate]. inversion H. subst.
      destruct Hr as [Hr|Hr].
      + subst. exists a. split; [now left | assumption].
      + destruct (IH _ eq_refl r Hr) as [x [Hx Hd]]. exists x. split; [now right | assumption].
  Qed.

  Lemma dnf_args_disjuncts (fs : list form) rs : dnf_args O fs = Ok rs ->
    map (disjuncts_of O) fs = map (split_disj A) rs.
  Proof.
    revert rs. induction fs as [|a fs IH]; intros rs H; simpl in H.
    - inversion H. reflexivity.
    - destruct (Dnf O true a) as [r0|e] eqn:Ha; simpl in H; [|discriminate].
      destruct (dnf_args O fs) as [rs0|e] eqn:Hrs; simpl in H; [|discriminate]. inversion H. subst.
      simpl. unfold disjuncts_of at 1. rewrite Ha. f_equal. now apply IH.
  Qed.

  (* ----- clauses ----- *)
  Lemma or_free_is_dnf (f : form) : or_free f = true -> is_dnf f = true.
  Proof. unfold is_dnf. destruct f; simpl; intros H; try discriminate; now rewrite ?H. Qed.

  Lemma or_free_split_conj (f : form) : or_free f = true -> forallb or_free (split_conj A f) = true.
  Proof.
    induction f as [a|n xs|n xs|f IH|fs IH|fs IH|v i m b IH|v i m b IH|v b IH|v b IH] using formula_ind';
      intros H; try reflexivity; try discriminate.
    simpl in H. cbn [split_conj]. rewrite forallb_flat_map. apply forallb_forall. intros x Hx.
    apply (Forall_In _ _ IH x Hx). rewrite forallb_forall in H. now apply H.
  Qed.

  Lemma dedup_In (l : list form) x : In x (dedup A (o_aeq O) l) -> In x l.
  Proof.
    revert x. induction l as [|a l IH]; intros x H; simpl in H; [assumption|].
    destruct H as [H|H]; [now left|]. apply filter_In in H. right. apply IH. apply H.
  Qed.

  Lemma or_free_fold_and l : forall x : form, or_free x = true -> forallb or_free l = true ->
    or_free (fold_left (And O) l x) = true.
  Proof.
    intros x Hx Hl. apply (P_fold_and A O (fun g => or_free g = true)); try assumption; try reflexivity.
    - intros a b Ha Hb. simpl. now rewrite Ha, Hb.
    - apply Forall_forall. now apply forallb_forall.
  Qed.
  Lemma or_free_reduce_and (l : list form) : forallb or_free l = true ->
    or_free (reduce1 A (And O) (TrueF O) l) = true.
  Proof.
    intros Hl. apply (P_reduce_and A O (fun g => or_free g = true)); try reflexivity.
    - intros a b Ha Hb. simpl. now rewrite Ha, Hb.
    - apply Forall_forall. now apply forallb_forall.
  Qed.

  Lemma or_free_clause (c : list form) : forallb or_free c = true ->
    or_free (dnf_clause A (o_aeq O) (o_true O) (o_false O) (o_is_true O) (o_is_false O) c) = true.
  Proof.
    intros Hc. unfold dnf_clause.
    apply (or_free_fold_and _ (TrueF O)); [reflexivity|].
    apply forallb_forall. intros x Hx. apply dedup_In in Hx.
    pose proof (or_free_split_conj _ (or_free_reduce_and c Hc)) as Hs.
    rewrite forallb_forall in Hs. now apply Hs.
  Qed.

  Lemma product_In {X} (ls : list (list X)) : forall c, In c (product ls) ->
    forall x, In x c -> exists l, In l ls /\ In x l.
  Proof.
    induction ls as [|l ls IH]; intros c Hc x Hx; simpl in Hc.
    - destruct Hc as [Hc|[]]. subst. destruct Hx.
    - apply in_flat_map in Hc. destruct Hc as [y [Hy Hc]]. apply in_map_iff in Hc.
      destruct Hc as [c' [Hc' Hin]]. subst c. destruct Hx as [Hx|Hx].
      + subst. exists l. split; [now left | assumption].
      + destruct (IH c' Hin x Hx) as [l' [Hl' Hxl]]. exists l'. split; [now right | assumption].
  Qed.

  (* ----- disjunctions of clauses ----- *)
  Lemma is_dnf_or2 (a b : form) : is_dnf a = true -> is_dnf b = true -> is_dnf (FOr [a; b]) = true.
  Proof.
    unfold is_dnf. intros Ha Hb. cbn [split_disj flat_map]. rewrite app_nil_r, forallb_app.
    fold (split_disj A a). fold (split_disj A b). now rewrite Ha, Hb.
  Qed.
  Lemma is_dnf_fold_or l : forall x : form, is_dnf x = true -> Forall (fun g => is_dnf g = true) l ->
    is_dnf (fold_left (Or O) l x) = true.
  Proof.
    intros x Hx Hl. apply (P_fold_or A O (fun g => is_dnf g = true)); try assumption; try reflexivity.
    intros a b. apply is_dnf_or2.
  Qed.

  (* PARTIAL (guard = exactly the refuted class): outside K_dnf_shortcut every output of
     convert_to_dnf, deep or not, is a disjunction of clauses *)
  Theorem dnf_shape_partial (f : form) : forall deep g,
    K_dnf_shortcut O f = false -> Dnf O deep f = Ok g -> is_dnf g = true.
  Proof.
    unfold K_dnf_shortcut.
    induction f as [a|n xs|n xs|f IH|fs IH|fs IH|v i m b IH|v i m b IH|v b IH|v b IH] using formula_ind';
      intros deep g HK H; apply negb_false_iff in HK.
    - unfold Dnf in H. simpl in H. inversion H. reflexivity.
    - unfold Dnf in H. simpl in H. inversion H. reflexivity.
    - unfold Dnf in H. simpl in H. inversion H. reflexivity.
    - unfold Dnf in H. simpl in H. destruct (is_comb A f); [discriminate|]. inversion H. reflexivity.
    - rewrite dnf_and_eq in H. destruct (dnf_args O fs) as [rs|e] eqn:Hrs; simpl in H; [|discriminate].
      simpl in HK. apply andb_true_iff in HK. destruct HK as [HK1 HK2].
      assert (Hall : forall r, In r rs -> is_dnf r = true).
      { intros r Hr. destruct (dnf_args_In fs rs Hrs r Hr) as [a [Ha Hd]].
        apply (Forall_In _ _ IH a Ha true r); [|assumption].
        apply negb_false_iff. rewrite forallb_forall in HK1. now apply HK1. }
      unfold dnf_conj in H. rewrite (dnf_args_disjuncts fs rs Hrs) in HK2.
      destruct (forallb len1 (map (split_disj A) rs)) eqn:Hl1; inversion H; subst g.
      + rewrite orb_false_r in HK2. apply or_free_is_dnf. exact HK2.
      + apply is_dnf_fold_or; [reflexivity|]. apply Forall_forall. intros cl Hcl.
        apply in_map_iff in Hcl. destruct Hcl as [c [Hc Hin]]. subst cl.
        apply or_free_is_dnf. apply or_free_clause. apply forallb_forall. intros x Hx.
        destruct (product_In _ c Hin x Hx) as [l [Hl Hxl]]. apply in_map_iff in Hl.
        destruct Hl as [r [Hr Hrin]]. subst l. specialize (Hall r Hrin). unfold is_dnf in Hall.
        rewrite forallb_forall in Hall. now apply Hall.
    - rewrite dnf_or_eq in H. destruct (dnf_args O fs) as [rs|e] eqn:Hrs; simpl in H; [|discriminate].
      inversion H. subst g. simpl in HK.
      apply is_dnf_fold_or; [reflexivity|]. apply Forall_forall. intros r Hr.
      destruct (dnf_args_In fs rs Hrs r Hr) as [a [Ha Hd]].
      apply (Forall_In _ _ IH a Ha true r); [|assumption].
      apply negb_false_iff. rewrite forallb_forall in HK. now apply HK.
    - unfold Dnf in H. simpl in H. destruct deep; simpl in H; [|inversion H; reflexivity].
      destruct (dnf A (o_aeq O) (o_true O) (o_false O) (o_is_true O) (o_is_false O) true b); simpl in H;
        [|discriminate]. inversion H. reflexivity.
    - unfold Dnf in H. simpl in H. destruct deep; simpl in H; [|inversion H; reflexivity].
      destruct (dnf A (o_aeq O) (o_true O) (o_false O) (o_is_true O) (o_is_false O) true b); simpl in H;
        [|discriminate]. inversion H. reflexivity.
    - unfold Dnf in H. simpl in H. inversion H. reflexivity.
    - unfold Dnf in H. simpl in H. inversion H. reflexivity.
  Qed.

  (* the clauses handed to the solver: split_disjunction(dnf(nnf(f), deep=False)) *)
  Theorem invariant_clauses_partial (f : form) l :
    K_dnf_shortcut O (Nnf O f false) = false -> Invariant O f = Ok l -> forallb or_free l = true.
  Proof.
    intros HK H. unfold Invariant, establish_invariant in H.
    fold (Nnf O f false) in H. fold (Dnf O false (Nnf O f false)) in H.
    destruct (Dnf O false (Nnf O f false)) as [g|e] eqn:Hg; simpl in H; [|discriminate].
    inversion H. subst l. apply (dnf_shape_partial _ _ _ HK Hg).
  Qed.
End DnfShape.

(* ---------- the output of convert_to_dnf satisfies its own precondition again ---------- *)
Section DnfSafe.
  Variable A : Type.
  Variable O : ops A.
  Notation form := (formula A).

  Lemma dsafe_split_disj (f : form) : dsafe f = true -> forallb dsafe (split_disj A f) = true.
  Proof.
    induction f as [a|n xs|n xs|f IH|fs IH|fs IH|v i m b IH|v i m b IH|v b IH|v b IH] using formula_ind';
      intros H; try (cbn [split_disj forallb]; now rewrite H).
    simpl in H. cbn [split_disj]. rewrite forallb_flat_map. apply forallb_forall. intros x Hx.
    apply (Forall_In _ _ IH x Hx). rewrite forallb_forall in H. now apply H.
  Qed.
  Lemma dsafe_split_conj (f : form) : dsafe f = true -> forallb dsafe (split_conj A f) = true.
  Proof.
    induction f as [a|n xs|n xs|f IH|fs IH|fs IH|v i m b IH|v i m b IH|v b IH|v b IH] using formula_ind';
      intros H; try (cbn [split_conj forallb]; now rewrite H).
    simpl in H. cbn [split_conj]. rewrite forallb_flat_map. apply forallb_forall. intros x Hx.
    apply (Forall_In _ _ IH x Hx). rewrite forallb_forall in H. now apply H.
  Qed.

  Lemma dsafe_clause (c : list form) : forallb dsafe c = true ->
    dsafe (dnf_clause A (o_aeq O) (o_true O) (o_false O) (o_is_true O) (o_is_false O) c) = true.
  Proof.
    intros Hc. unfold dnf_clause. apply (dsafe_fold_and A O _ (TrueF O)); [reflexivity|].
    apply forallb_forall. intros x Hx. apply dedup_In in Hx.
    pose proof (dsafe_split_conj _ (dsafe_reduce_and A O c Hc)) as Hs.
    rewrite forallb_forall in Hs. now apply Hs.
  Qed.

  Theorem dnf_dsafe (f : form) : forall deep g, dsafe f = true -> Dnf O deep f = Ok g -> dsafe g = true.
  Proof.
    induction f as [a|n xs|n xs|f IH|fs IH|fs IH|v i m b IH|v i m b IH|v b IH|v b IH] using formula_ind';
      intros deep g Hs H.
    - unfold Dnf in H. simpl in H. inversion H. now subst.
    - unfold Dnf in H. simpl in H. inversion H. now subst.
    - unfold Dnf in H. simpl in H. inversion H. now subst.
    - unfold Dnf in H. simpl in H. destruct (is_comb A f); [discriminate|]. inversion H. now subst.
    - rewrite dnf_and_eq in H. destruct (dnf_args O fs) as [rs|e] eqn:Hrs; simpl in H; [|discriminate].
      assert (Hall : forall r, In r rs -> dsafe r = true).
      { intros r Hr. destruct (dnf_args_In A O fs rs Hrs r Hr) as [a [Ha Hd]].
        apply (Forall_In _ _ IH a Ha true r); [|assumption].
        simpl in Hs. rewrite forallb_forall in Hs. now apply Hs. }
      unfold dnf_conj in H.
      destruct (forallb len1 (map (split_disj A) rs)) eqn:Hl1; inversion H; subst g; [assumption|].
      apply (dsafe_fold_or A O); [reflexivity|]. apply forallb_forall. intros cl Hcl.
      apply in_map_iff in Hcl. destruct Hcl as [c [Hc Hin]]. subst cl.
      apply dsafe_clause. apply forallb_forall. intros x Hx.
      destruct (product_In _ c Hin x Hx) as [l [Hl Hxl]]. apply in_map_iff in Hl.
      destruct Hl as [r [Hr Hrin]]. subst l. pose proof (dsafe_split_disj r (Hall r Hrin)) as Hd.
      rewrite forallb_forall in Hd. now apply Hd.
    - rewrite dnf_or_eq in H. destruct (dnf_args O fs) as [rs|e] eqn:Hrs; simpl in H; [|discriminate].
      inversion H. subst g. apply (dsafe_fold_or A O); [reflexivity|]. apply forallb_forall. intros r Hr.
      destruct (dnf_args_In A O fs rs Hrs r Hr) as [a [Ha Hd]].
      apply (Forall_In _ _ IH a Ha true r); [|assumption].
      simpl in Hs. rewrite forallb_forall in Hs. now apply Hs.
    - unfold Dnf in H. simpl in H. destruct deep; simpl in H; [|inversion H; now subst].
      fold (Dnf O true b) in H. destruct (Dnf O true b) as [b'|e] eqn:Hb; simpl in H; [|discriminate].
      inversion H. subst g. simpl. apply (IH true b'); assumption.
    - unfold Dnf in H. simpl in H. destruct deep; simpl in H; [|inversion H; now subst].
      fold (Dnf O true b) in H. destruct (Dnf O true b) as [b'|e] eqn:Hb; simpl in H; [|discriminate].
      inversion H. subst g. simpl. apply (IH true b'); assumption.
    - unfold Dnf in H. simpl in H. inversion H. now subst.
    - unfold Dnf in H. simpl in H. inversion H. now subst.
  Qed.
End DnfSafe.

(* ---------- clauses are fixed points of convert_to_dnf(., deep=False) ---------- *)
Section DnfClause.
  Variable A : Type.
  Variable O : ops A.
  Notation form := (formula A).

  Lemma clause_single (f : form) : forall deep, dsafe f = true -> or_free f = true ->
    exists r, Dnf O deep f = Ok r /\ len1 (split_disj A r) = true /\
              (match f with FForall _ _ _ _ | FExists _ _ _ _ => deep = false | _ => True end -> r = f).
  Proof.
    induction f as [a|n xs|n xs|f IH|fs IH|fs IH|v i m b IH|v i m b IH|v b IH|v b IH] using formula_ind';
      intros deep Hs Ho; try discriminate.
    - exists (FSmt a). now repeat split.
    - exists (FSPred n xs). now repeat split.
    - exists (FSemPred n xs). now repeat split.
    - exists (FNot f). unfold Dnf. simpl. simpl in Hs. apply negb_true_iff in Hs. rewrite Hs. now repeat split.
    - exists (FAnd fs). rewrite dnf_and_eq.
      assert (Hargs : exists rs, dnf_args O fs = Ok rs /\ forallb len1 (map (split_disj A) rs) = true).
      { simpl in Hs, Ho. induction IH as [|x l Hx _ IHl]; simpl; [now exists []|].
        simpl in Hs, Ho. apply andb_true_iff in Hs. apply andb_true_iff in Ho.
        destruct Hs as [Hs1 Hs2], Ho as [Ho1 Ho2].
        destruct (Hx true Hs1 Ho1) as [r [Hr [Hl _]]]. destruct (IHl Hs2 Ho2) as [rs [Hrs Hall]].
        exists (r :: rs). rewrite Hr. simpl. rewrite Hrs. simpl. now rewrite Hl, Hall. }
      destruct Hargs as [rs [Hrs Hall]]. rewrite Hrs. simpl. unfold dnf_conj. rewrite Hall. now repeat split.
    - destruct deep.
      + simpl in Hs. destruct (dnf_total A O true b) as [b' Hb]; [unfold K_dnf_not_nnf; now rewrite Hs|].
        exists (FForall v i m b'). unfold Dnf in *. simpl. rewrite Hb. simpl. repeat split. discriminate.
      + exists (FForall v i m b). now repeat split.
    - destruct deep.
      + simpl in Hs. destruct (dnf_total A O true b) as [b' Hb]; [unfold K_dnf_not_nnf; now rewrite Hs|].
        exists (FExists v i m b'). unfold Dnf in *. simpl. rewrite Hb. simpl. repeat split. discriminate.
      + exists (FExists v i m b). now repeat split.
    - exists (FForallInt v b). now repeat split.
    - exists (FExistsInt v b). now repeat split.
  Qed.

  Theorem dnf_clause_fixed (f : form) : dsafe f = true -> or_free f = true -> Dnf O false f = Ok f.
  Proof.
    intros Hs Ho. destruct (clause_single f false Hs Ho) as [r [Hr [_ Heq]]].
    rewrite Hr. f_equal. apply Heq. destruct f; auto.
  Qed.
End DnfClause.

(* ---------- refutation of the full statement ---------- *)
Definition p_s : cform := FSPred (s_of [115]%N) [PVar v_x; PVar v_start].
Definition p_t : cform := FSPred (s_of [116]%N) [PVar v_x; PVar v_start].
Definition p_r : cform := FSPred (s_of [114]%N) [PVar v_x; PVar v_start].
(* ((s or t) and not s) and r  - what `&` builds for the text  (s or t) and not s and r *)
Definition w_dnf_shortcut : cform := FAnd [FAnd [FOr [p_s; p_t]; FNot p_s]; p_r].

Lemma dnf_shape_refuted : exists f : cform,
  arity_ok catom f = true /\ K_dnf_not_nnf f = false /\ Nnf cops f false = f /\
  Dnf cops true f = Ok f /\ Dnf cops false f = Ok f /\ is_dnf f = false /\
  Invariant cops f = Ok [f] /\ K_dnf_shortcut cops f = true.
Proof. exists w_dnf_shortcut. repeat split; vm_compute; reflexivity. Qed.

(* convert_to_dnf is NOT idempotent:  (u or v) and (((s or t) and not s) and r)  converts to 2 disjuncts
   that still contain `s or t`; converting again gives 4 *)
Definition p_u : cform := FSPred (s_of [117]%N) [PVar v_x; PVar v_start].
Definition p_v : cform := FSPred (s_of [118]%N) [PVar v_x; PVar v_start].
Definition w_dnf_twice : cform := FAnd [FOr [p_u; p_v]; w_dnf_shortcut].

Lemma dnf_idempotent_refuted : exists f g h : cform,
  arity_ok catom f = true /\ Nnf cops f false = f /\
  Dnf cops false f = Ok g /\ Dnf cops false g = Ok h /\ c_seqb g h = false /\
  length (split_disj catom g) = 2 /\ length (split_disj catom h) = 4 /\ is_dnf g = false.
Proof.
  exists w_dnf_twice. eexists. eexists. split; [reflexivity|]. split; [vm_compute; reflexivity|].
  split; [vm_compute; reflexivity|]. split; [vm_compute; reflexivity|]. repeat split; vm_compute; reflexivity.
Qed.

(* non-vacuity of the partial theorem: a formula outside the class that IS converted *)
Example dnf_shape_partial_nonvacuous :
  K_dnf_shortcut cops w_nary = false /\ exists g, Dnf cops false w_nary = Ok g /\ g <> w_nary /\ is_dnf g = true.
Proof. split; [vm_compute; reflexivity|]. eexists. split; [vm_compute; reflexivity|]. split; [discriminate | vm_compute; reflexivity]. Qed.

(* non-vacuity of the hypotheses of nnf_shape_deep / dnf_dsafe / dnf_clause_fixed *)
Example nnf_shape_deep_nonvacuous :
  bodies_nnf false (FAnd [FNot (FForall v_x (InVar v_start) None (FNot (FAnd [p_s; p_t])));
                          FExists v_x (InVar v_start) None (FOr [FNot p_s; p_t])] : cform) = true.
Proof. reflexivity. Qed.

Example dnf_clause_fixed_nonvacuous :
  let c : cform := FAnd [FAnd [p_s; FNot p_t]; FForall v_x (InVar v_start) None (FOr [p_s; p_t])] in
  dsafe c = true /\ or_free c = true /\ is_dnf c = true.
Proof. repeat split; reflexivity. Qed.
