(* Facts about the canonical decimal numerals [dec] of IslaNames.v: parse_dec inverts dec,
   dec is injective, a numeral is not a nonterminal; a boolean test for "is a canonical numeral". *)
From ISLA Require Export Eval2.
From Coq Require Import ZArith Lia DecimalN DecimalPos.


Lemma parse_from_acc d : forall acc,
  parse_dec_from (Npos acc) (uint_str d) = Some (Npos (Pos.of_uint_acc d acc)).
Proof.
  induction d as [|d IH|d IH|d IH|d IH|d IH|d IH|d IH|d IH|d IH|d IH]; intro acc;
    cbn [uint_str parse_dec_from Pos.of_uint_acc]; [reflexivity|..];
    match goal with |- context [digit_of ?c] => change (digit_of c) with (Some (c - 48)%N) end;
    cbv iota beta; rewrite <- IH; f_equal; lia.
Qed.

Lemma parse_from_zero d : parse_dec_from 0%N (uint_str d) = Some (Pos.of_uint d).
Proof.
  induction d as [|d IH|d IH|d IH|d IH|d IH|d IH|d IH|d IH|d IH|d IH];
    cbn [uint_str parse_dec_from Pos.of_uint]; [reflexivity|..];
    match goal with |- context [digit_of ?c] => change (digit_of c) with (Some (c - 48)%N) end;
    cbv iota beta.
  - exact IH.
  - apply (parse_from_acc d 1).
  - apply (parse_from_acc d 2).
  - apply (parse_from_acc d 3).
  - apply (parse_from_acc d 4).
  - apply (parse_from_acc d 5).
  - apply (parse_from_acc d 6).
  - apply (parse_from_acc d 7).
  - apply (parse_from_acc d 8).
  - apply (parse_from_acc d 9).
Qed.

Lemma uint_str_nil d : uint_str d = [] -> d = Decimal.Nil.
Proof. destruct d; simpl; intro H; try discriminate; reflexivity. Qed.

Lemma dec_nonnil n : dec n <> [].
Proof.
  unfold dec. intro H. apply uint_str_nil in H.
  pose proof (DecimalN.Unsigned.of_to n) as E. rewrite H in E. simpl in E. subst n. discriminate.
Qed.

Lemma parse_dec_dec n : parse_dec (dec n) = Some n.
Proof.
  pose proof (dec_nonnil n) as Hn. unfold parse_dec. destruct (dec n) as [|c r] eqn:E; [congruence|].
  rewrite <- E. unfold dec. rewrite parse_from_zero. f_equal. apply (DecimalN.Unsigned.of_to n).
Qed.

Lemma dec_inj n m : dec n = dec m -> n = m.
Proof. intro H. pose proof (parse_dec_dec n) as E. rewrite H, parse_dec_dec in E. congruence. Qed.

Lemma parse_dec_head c r k : parse_dec (c :: r) = Some k -> digit_of c <> None.
Proof. unfold parse_dec. simpl. destruct (digit_of c); [discriminate | discriminate]. Qed.

Lemma dec_not_nt n : is_nt (dec n) = false.
Proof.
  pose proof (parse_dec_dec n) as H. destruct (dec n) as [|c r]; [reflexivity|].
  apply parse_dec_head in H. unfold is_nt.
  destruct (N.eqb_spec c c_lt) as [->|Hne]; [|reflexivity].
  exfalso. apply H. reflexivity.
Qed.

Lemma yield_num_tree n : yield (num_tree n) = dec n.
Proof. unfold num_tree. simpl. rewrite dec_not_nt. reflexivity. Qed.

(* s is a canonical numeral *)
Definition is_canon (s : str) : bool :=
  match parse_dec s with Some n => str_eqb (dec n) s | None => false end.

Lemma is_canon_true s : is_canon s = true -> exists n, s = dec n.
Proof.
  unfold is_canon. destruct (parse_dec s) as [n|]; [|discriminate].
  intro H. apply str_eqb_eq in H. eauto.
Qed.

Lemma is_canon_false s : is_canon s = false -> forall n, s <> dec n.
Proof.
  unfold is_canon. intros H n ->. rewrite parse_dec_dec, str_eqb_refl in H. discriminate.
Qed.

Lemma is_canon_dec n : is_canon (dec n) = true.
Proof. unfold is_canon. rewrite parse_dec_dec. apply str_eqb_refl. Qed.

Lemma str_to_int_dec n : str_to_int (dec n) = Z.of_N n.
Proof. unfold str_to_int. rewrite parse_dec_dec. reflexivity. Qed.
