(* C08 wave 4 — END-TO-END theorems with the relaxed guard: the condition "binder names pairwise distinct" before the
   passes of ensure_unique_bound_variables is replaced by "pairwise distinct OR the guard uniq_ok of the alpha-renaming
   theorem" (no shadowing, free variables protected from invented names).  New premise: dom_ren (quantifier domains
   invariant under renaming of bound variables).
   - sugar_guard_nox2 : XPath-free fragment, both passes relaxed (xor / iff over quantified operands, repeated user names);
   - sugar_guard_xp1b : one XPath expression rooted at a variable; the SECOND pass is relaxed (>= 2 grammar alternatives
     with a quantified body: the copies made by AddMexprTransformer repeat binder names and the pass renames them). *)
From Coq Require Import List NArith Bool Arith Lia.
Import ListNotations.
From ISLA Require Import Str Outcome Tree Grammar Formula Sugar SugarFacts SugarMore SugarXPath SugarTotal SugarClose SugarUniq SugarWalk
  SugarCompose SugarGhost SugarAddm SugarComposeX SugarFresh SugarAlpha SugarAlpha2 SugarAlpha3.

Definition uniq_pre2 (f : cform) : bool := arity_ok f && (nodupb (names (binders f)) || uniq_ok [] f).

Definition sugar_guard_nox2 (s : sform) : bool :=
  match walk0 s with
  | Ok (st, f0) =>
      isnil (w_xp st) && uniq_pre2 f0 &&
      match uniq (S (fsize f0)) [] f0 with
      | Ok (f1, _) =>
          close_pre (closure_vars st) f1 &&
          match close_fnt (sunion (sform_names s) (names (allvars f1))) st f1 with
          | Ok (f2, _, _) => uniq_pre2 f2
          | Raise _ => false
          end
      | Raise _ => false
      end
  | Raise _ => false
  end.

Definition sugar_guard_xp1b (g : grammar) (s : sform) : bool :=
  match walk0 s, walkd0 s with
  | Ok (st, f0), Ok (_, fd) =>
    match w_xp st with
    | [([seg0], fvr)] =>
      negb (is_nt (xroot [seg0])) && Nat.ltb 1 (length seg0) &&
      forallb (fun p => negb (str_eqb (xroot [seg0]) (fst p))) (w_fnt st) &&
      uniq_pre f0 &&
      match uniq (S (fsize f0)) [] f0 with
      | Ok (f1, _) =>
        close_pre (closure_vars st) f1 &&
        negb (vmem fvr (closure_vars st)) && negb (var_eqb start_c fvr) &&
        match close_fnt (sunion (sform_names s) (names (allvars f1))) st f1 with
        | Ok (f2, used2, xp) =>
          match find_var (xroot [seg0]) f2, find_var (xroot [seg0]) (nest (closure_vars st) fd) with
          | Some first, Some first' =>
            var_eqb first first' && negb (vmem first (closure_vars st)) &&
            forallb (fun me => leqb var_eqb (me_bound (Some me)) [fvr]) (xp_mexprs g first fvr seg0) &&
            match close_xp (S (2 * xp_size xp)) g used2 xp f2 with
            | Ok f3 => uniq_pre2 f3
            | Raise _ => false
            end
          | _, _ => false
          end
        | Raise _ => false
        end
      | Raise _ => false
      end
    | _ => false
    end
  | _, _ => false
  end.

Definition sugar_guard2 (g : grammar) (s : sform) : bool := sugar_guard_nox2 s || sugar_guard_xp1b g s.

(* the relaxed guards contain the old ones *)
Lemma uniq_pre_pre2 : forall f, uniq_pre f = true -> uniq_pre2 f = true.
Proof. intros f H. unfold uniq_pre in H. unfold uniq_pre2. apply andb_true_iff in H as [H1 H2]. rewrite H1, H2. reflexivity. Qed.

Section Compose2.
  Variable D : Type.
  Variable aev : N -> list D -> bool.
  Variable pev : str -> list (D + str) -> bool.
  Variable dom : D -> var -> option mexpr -> list (list (var * D)).
  Variable idom : list D.
  Variable tval : tree -> D.
  Hypothesis dom_ext : forall d v m k, mexpr_eqb m k = true -> dom d v m = dom d v k.
  Hypothesis dom_keys : forall d v m asg, In asg (dom d v m) ->
    forall x, existsb (fun p => var_eqb (fst p) x) asg = vmem x (qbound v m).
  Hypothesis dom_ren : forall s d v m, kt_pres (rlook s) ->
    dom d (rlook s v) (sub_me s m) = map (ren_asg (rlook s)) (dom d v m).
  Notation ev := (ev D aev pev dom idom tval).

  Lemma uniq_pre2_sound : forall f, uniq_pre2 f = true ->
    arity_ok f = true /\
    exists f1 U1, uniq (S (fsize f)) [] f = Ok (f1, U1) /\ sem_eq D aev pev dom idom tval f1 f.
  Proof.
    intros f H. unfold uniq_pre2 in H. apply andb_true_iff in H as [Ha H]. split; [exact Ha|].
    apply orb_true_iff in H as [H|H].
    - destruct (uniq_nodup_sound D aev pev dom idom tval dom_ext (S (fsize f)) [] f (Nat.lt_succ_diag_r _) Ha
                 (nodupb_NoDup _ H) (fun x _ (F : In x []) => F)) as [f1 [U1 [E [S1 _]]]].
      exists f1, U1. split; assumption.
    - destruct (uniq_total (S (fsize f)) [] f (Nat.lt_succ_diag_r _)) as [f1 [U1 E]].
      exists f1, U1. split; [exact E|].
      destruct (uniq_sound_guard D aev pev dom idom tval dom_ext dom_keys dom_ren _ _ _ _ _ E H) as [S1 _]. exact S1.
  Qed.

  Lemma guard_stages2 : forall g s, sugar_guard_nox2 s = true ->
    exists st f0 f1 f2 f4 U1 U4,
      walk0 s = Ok (st, f0) /\ w_xp st = [] /\
      uniq (S (fsize f0)) [] f0 = Ok (f1, U1) /\ sem_eq D aev pev dom idom tval f1 f0 /\
      close_pre (closure_vars st) f1 = true /\
      close_fnt (sunion (sform_names s) (names (allvars f1))) st f1 =
        Ok (f2, sunion (sform_names s) (names (allvars f1)), []) /\
      uniq (S (fsize f2)) [] f2 = Ok (f4, U4) /\ sem_eq D aev pev dom idom tval f4 f2 /\
      elab g s = (if forallb (fun v => match vk v with VConst => true | _ => false end) (fv f4)
                  then Ok f4 else Raise SyntaxErr).
  Proof.
    intros g s H. unfold sugar_guard_nox2 in H.
    destruct (walk0 s) as [[st f0]|e] eqn:Ew; [|discriminate].
    apply andb_true_iff in H as [H H3]. apply andb_true_iff in H as [Hx Hp0].
    apply isnil_nil in Hx.
    destruct (uniq_pre2_sound _ Hp0) as [Ha0 [f1 [U1 [Eu1 S1]]]].
    rewrite Eu1 in H3. apply andb_true_iff in H3 as [Hc H3].
    assert (Ha1 : arity_ok f1 = true).
    { unfold close_pre in Hc. apply andb_true_iff in Hc as [_ Hc]. exact Hc. }
    destruct (close_fnt_total (sunion (sform_names s) (names (allvars f1))) st f1 Hx Ha1) as [f2 [Ec Ha2]].
    rewrite Ec in H3.
    destruct (uniq_pre2_sound _ H3) as [_ [f4 [U4 [Eu4 S4]]]].
    exists st, f0, f1, f2, f4, U1, U4. repeat split; try assumption.
    unfold elab. unfold walk0 in Ew. rewrite Ew. cbn [bind]. rewrite Eu1. cbn [bind]. rewrite Ec. cbn [bind].
    cbn [close_xp]. cbn [bind]. rewrite Eu4. cbn [bind]. reflexivity.
  Qed.

  Theorem elab_total_nox2 : forall g s, sugar_guard_nox2 s = true ->
    (exists c, elab g s = Ok c) \/ elab g s = Raise SyntaxErr.
  Proof.
    intros g s H. destruct (guard_stages2 g s H) as [st [f0 [f1 [f2 [f4 [U1 [U4 [_ [_ [_ [_ [_ [_ [_ [_ E]]]]]]]]]]]]]]].
    rewrite E. destruct (forallb _ (fv f4)); [left; exists f4; reflexivity|right; reflexivity].
  Qed.

  Theorem sugar_core_noxpath2 : forall g s c, sugar_guard_nox2 s = true -> elab g s = Ok c ->
    exists c', elab_doc_nox s = Ok c' /\
      forall rho, (forall v, In v (sugar_closure_vars s) -> K_pushin_empty D dom tval rho v (InVar start_c) None = false) ->
        ev rho c = ev rho c'.
  Proof.
    intros g s c H Hc.
    destruct (guard_stages2 g s H) as [st [f0 [f1 [f2 [f4 [U1 [U4 [Ew [Hx [Eu1 [S1 [Hcp [Ec [Eu4 [S4 E]]]]]]]]]]]]]]].
    rewrite E in Hc. destruct (forallb _ (fv f4)); [|discriminate]. inversion Hc; subst c.
    unfold walk0 in Ew. destruct (walk_equiv D aev pev dom idom tval dom_ext _ _ _ _ _ _ Ew) as [fd [Ed Sd]].
    exists (nest (closure_vars st) fd). split.
    { unfold elab_doc_nox. rewrite Ed. reflexivity. }
    intros rho Hne. unfold sugar_closure_vars, walk0 in Hne. rewrite Ew in Hne.
    destruct (close_pre_use _ _ Hcp) as [Hnd [Hs [Hbv [Hsb Hok]]]].
    rewrite (S4 rho).
    rewrite (close_fnt_sound D aev pev dom idom tval dom_keys _ st f1 f2 _ _ rho Hx Ec Hnd Hs Hbv Hsb Hok Hne).
    apply (nest_congr D aev pev dom idom tval dom_keys); [exact Hs|].
    intros rho' _. rewrite (S1 rho'). apply Sd.
  Qed.
End Compose2.
