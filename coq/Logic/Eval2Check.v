(* Witnesses for the second evaluation strategy: the guard [pins] on numeric quantifiers cannot be
   dropped (finding K_numq_sort: the final Z3 query quantifies the bound variable of
   `forall int` / `exists int` over ALL strings, the specification over numerals), a boolean
   class predicate for the harness, and a non-vacuity example. *)
From ISLA Require Export Eval2Facts.
From Coq Require Import ZArith Lia.

(* the fragment WITHOUT the guard on numeric quantifiers *)
Fixpoint wf2_nopins (ref : tree) (dom nums : list var) (f : formula atom2) {struct f} : Prop :=
  match f with
  | FSmt x => atom2_wf dom nums x
  | FSPred n args => spred_wf ref dom n args
  | FSemPred n args => sempred_wf2 ref dom nums n args
  | FNot g => wf2_nopins ref dom nums g
  | FAnd fs | FOr fs =>
      (fix all (l : list (formula atom2)) : Prop :=
         match l with [] => True | x :: l' => wf2_nopins ref dom nums x /\ all l' end) fs
  | FForall v i m body | FExists v i m body =>
      m = None /\ in_wf ref dom i /\ fresh_name v (dom ++ nums) /\ wf2_nopins ref (v :: dom) nums body
  | FForallInt v body | FExistsInt v body =>
      fresh_name v (dom ++ nums) /\ wf2_nopins ref dom (v :: nums) body
  end.

(* class predicate of the finding: some numeric quantifier whose body does not pin its variable *)
Fixpoint K_numq_sort (f : formula atom2) : bool :=
  match f with
  | FSmt _ | FSPred _ _ | FSemPred _ _ => false
  | FNot g => K_numq_sort g
  | FAnd fs | FOr fs => existsb K_numq_sort fs
  | FForall _ _ _ b | FExists _ _ _ b => K_numq_sort b
  | FForallInt v b => negb (pins false v b) || K_numq_sort b
  | FExistsInt v b => negb (pins true v b) || K_numq_sort b
  end.

Definition N_var : var := MkVar VBound [110]%N s_NUM.
Definition X_tree : tree :=
  Node [60;115;116;97;114;116;62]%N 5%N false
    [Node [60;100;62]%N 4%N false [Node [49]%N 3%N false []];
     Node [60;100;62]%N 2%N false [Node [50]%N 1%N false []]].

(* forall int n: str.to.int(n) >= 0      -- TRUE in the specification, not valid over all strings *)
Definition R1_formula : formula atom2 := FForallInt N_var (FSmt (AToInt CGe N_var 0%Z)).
(* exists int n: n = "abc"               -- FALSE in the specification, valid over all strings *)
Definition R2_formula : formula atom2 :=
  FExistsInt N_var (FSmt (A1 (AStr false (SVar N_var) (SLit [97;98;99]%N)))).

Lemma X_tree_ok : shape_ok X_tree = true /\ is_openT X_tree = false /\ uniq_ids X_tree.
Proof. split; [reflexivity|]. split; [reflexivity|]. apply uniq_idsb_spec. reflexivity. Qed.

Lemma fresh_nil v : fresh_name v ([] ++ []).
Proof. intros w H. contradiction. Qed.

Theorem strategy2_numq_forall_refuted :
  wf2_nopins X_tree [] [] R1_formula /\ K_numq_sort R1_formula = true /\
  models atom2_denote X_tree env_empty R1_formula /\
  forall z3, z3_sound z3 -> strategy2_m z3 X_tree R1_formula <> Ok TT.
Proof.
  split; [|split; [reflexivity|split]].
  - simpl. split; [apply fresh_nil|]. split; [left; reflexivity | intros []].
  - simpl. intro n. exists (num_tree n). split; [reflexivity|].
    rewrite yield_num_tree, str_to_int_dec. lia.
  - intros z3 Hz H. unfold strategy2_m in H. simpl in H.
    destruct (Hz (FForallInt N_var (FSmt (AToInt CGe N_var 0%Z))) eq_refl) as [H1 _]. specialize (H1 H (fun _ => []) [97]%N).
    simpl in H1. rewrite pupd_same in H1. vm_compute in H1. apply H1. reflexivity.
Qed.

Theorem strategy2_numq_exists_refuted :
  wf2_nopins X_tree [] [] R2_formula /\ K_numq_sort R2_formula = true /\
  ~ models atom2_denote X_tree env_empty R2_formula /\
  forall z3, z3_sound z3 -> strategy2_m z3 X_tree R2_formula <> Ok FF.
Proof.
  split; [|split; [reflexivity|split]].
  - simpl. split; [apply fresh_nil|]. intros v [<-|[]]. right. split; [left; reflexivity | intros []].
  - simpl. intros (n & u & w & (t & Ht & ->) & -> & H). unfold tenv, upd in Ht. simpl in Ht.
    inversion Ht; subst t. rewrite yield_num_tree in H.
    pose proof (is_canon_dec n) as Hc. rewrite H in Hc. vm_compute in Hc. discriminate.
  - intros z3 Hz H. unfold strategy2_m in H. simpl in H.
    destruct (Hz (FExistsInt N_var (FSmt (A1 (AStr false (SVar N_var) (SLit [97;98;99]%N))))) eq_refl) as [_ H2]. apply (H2 H). intro e. exists [97;98;99]%N.
    simpl. rewrite pupd_same. reflexivity.
Qed.

(* ---- non-vacuity: exists int n: (count(start, "<d>", n) and exists <d> x in start: x = n) ---- *)
Definition X_var : var := MkVar VBound [120]%N [60;100;62]%N.
Definition E_formula : formula atom2 :=
  FExistsInt N_var
    (FAnd [FSemPred s_count [PTree X_tree; PStr [60;100;62]%N; PVar N_var];
           FExists X_var (InTree X_tree) None (FSmt (A1 (AStr false (SVar X_var) (SVar N_var))))]).
(* forall int n: (not count(start, "<d>", n) or str.to.int(n) >= 2) *)
Definition E2_formula : formula atom2 :=
  FForallInt N_var
    (FOr [FNot (FSemPred s_count [PTree X_tree; PStr [60;100;62]%N; PVar N_var]);
          FSmt (AToInt CGe N_var 2%Z)]).

Lemma E_wf : wf2 X_tree [] [] E_formula.
Proof.
  simpl. split; [apply fresh_nil|]. split; [reflexivity|]. split; [|split; [|exact I]].
  - repeat split; try reflexivity; [left; reflexivity | intros []].
  - split; [reflexivity|]. split; [reflexivity|]. split.
    + intros w [<-|[]]. discriminate.
    + intros v [<-|[<-|[]]]; [left; left; reflexivity|].
      right. split; [left; reflexivity|]. intros [H|[]]. discriminate.
Qed.

Lemma E2_wf : wf2 X_tree [] [] E2_formula.
Proof.
  simpl. split; [apply fresh_nil|]. split; [reflexivity|]. split; [|split; [|exact I]].
  - repeat split; try reflexivity; [left; reflexivity | intros []].
  - split; [left; reflexivity | intros []].
Qed.

Example strategy2_hypotheses_satisfiable :
  shape_ok X_tree = true /\ is_openT X_tree = false /\ uniq_ids X_tree /\
  wf2 X_tree [] [] E_formula /\ wf2 X_tree [] [] E2_formula /\
  K_numq_sort E_formula = false /\ K_numq_sort E2_formula = false /\
  strategy2_m z3_by_cands X_tree E_formula = Ok TT /\
  strategy2_m z3_by_cands X_tree E2_formula = Ok TT.
Proof.
  destruct X_tree_ok as (H1 & H2 & H3).
  repeat split; try assumption; try apply E_wf; try apply E2_wf; vm_compute; reflexivity.
Qed.
