(* C07 — token-level reference parser `parse_core` for the core concrete syntax that the unparser
   model (Logic/Unparse.v) emits: SMT atoms as opaque parenthesised s-expressions, predicate calls,
   `not`, parenthesised `and` / `or`, `forall <T> v in w:` / `exists <T> v in w:` (no match
   expression), `forall int n:` / `exists int n:`, and the `const` header.
   Mirrors, for that fragment, the ANTLR grammar IslaLanguage.g4 (quantifiers and `not` bind tighter
   than `and`, `and` tighter than `or`, both left associative and BINARY) and ISLaEmitter (variables
   are resolved by NAME through the VariableManager: the declared constant, else the variable
   declared by some quantifier of the constraint).
   Deliberately partial (returns None) where the emitter does more than the fragment needs:
   `not` over anything but a predicate atom (Formula.__neg__ pushes the negation inwards), quantifiers
   without a name or without `in`, match expressions, XPath, infix/prefix SMT syntax, `true`/`false`.
   Not mirrored: the simplifications of Formula.__and__/__or__ (A and A = A, A and not A = false).
   An SMT atom `(op …)` is kept as text: parse_core returns it as `(SVar text, vars)`
   (smt_str (SVar t) = t), vars = the declared variables whose names occur as words of the text
   outside string literals, in order of first occurrence.
   No proofs here (ParseCoreFacts.v). *)
From ISLA Require Export Unparse.
From Coq Require Import ZArith String.
Import ListNotations.
Open Scope N_scope.

(* ---------- tokens ---------- *)
Inductive tok := TLP | TRP | TComma | TColon | TSemi
               | TWord (w : str)        (* maximal run of non-delimiter characters *)
               | TStr (s : str)         (* "..." outside an atom: raw contents *)
               | TAtom (t : str).       (* a whole parenthesised s-expression, parentheses included *)

Definition is_wsc (c : chr) : bool := (c =? 32) || (c =? 10) || (c =? 9) || (c =? 13).
Definition punct (c : chr) : option tok :=
  if c =? 41 then Some TRP else if c =? 44 then Some TComma
  else if c =? 58 then Some TColon else if c =? 59 then Some TSemi else None.
Definition is_delim (c : chr) : bool :=
  is_wsc c || (c =? 40) || (c =? c_q) || match punct c with Some _ => true | None => false end.

Definition conn_words : list str :=
  [lit "forall"; lit "exists"; lit "not"; lit "and"; lit "or"; lit "xor"; lit "=>"; lit "implies"; lit "iff"].

(* the word at the start of a text, and what follows it *)
Fixpoint head_word (s : str) : str * str :=
  match s with
  | [] => ([], [])
  | c :: r => if is_delim c then ([], s) else let (w, t) := head_word r in (c :: w, t)
  end.
(* text after an opening parenthesis: `op ` with op no connective/quantifier keyword starts an
   s-expression (SepxrApp); everything else is a parenthesised formula *)
Definition atom_start (r : str) : bool :=
  let (w, t) := head_word r in
  match w with [] => false | _ => true end
  && match t with c :: _ => c =? 32 | [] => false end
  && negb (mem w conn_words).

(* string-literal state inside an s-expression (ANTLR STRING: '"' (ESC|.)*? '"') *)
Inductive smode := SN | SS | SB.
Inductive lmode :=
| MW (acc : str)                               (* between tokens / inside a word (reversed) *)
| MStr (bs : bool) (acc : str)                 (* inside "..." ; bs: an escape is pending *)
| MAtom (d : nat) (sm : smode) (acc : str).    (* inside an s-expression at depth d *)

Definition ctok (t : tok) (k : option (list tok)) : option (list tok) :=
  match k with Some ts => Some (t :: ts) | None => None end.
Definition flush (acc : str) (k : option (list tok)) : option (list tok) :=
  match acc with [] => k | _ => ctok (TWord (rev acc)) k end.

Fixpoint lexm (m : lmode) (s : str) : option (list tok) :=
  match s with
  | [] => match m with MW acc => flush acc (Some []) | _ => None end
  | c :: r =>
      match m with
      | MW acc =>
          if is_wsc c then flush acc (lexm (MW []) r)
          else if c =? 40 then
            flush acc (if atom_start r then lexm (MAtom 1 SN [c]) r else ctok TLP (lexm (MW []) r))
          else if c =? c_q then flush acc (lexm (MStr false []) r)
          else match punct c with
               | Some t => flush acc (ctok t (lexm (MW []) r))
               | None => lexm (MW (c :: acc)) r
               end
      | MStr bs acc =>
          if bs then lexm (MStr false (c :: acc)) r
          else if c =? c_q then ctok (TStr (rev acc)) (lexm (MW []) r)
          else lexm (MStr (c =? c_bs) (c :: acc)) r
      | MAtom d sm acc =>
          match sm with
          | SS => lexm (MAtom d (if c =? c_q then SN else if c =? c_bs then SB else SS) (c :: acc)) r
          | SB => lexm (MAtom d SS (c :: acc)) r
          | SN =>
              if c =? c_q then lexm (MAtom d SS (c :: acc)) r
              else if c =? 40 then lexm (MAtom (S d) SN (c :: acc)) r
              else if c =? 41 then
                match d with
                | O => None
                | S O => ctok (TAtom (rev (c :: acc))) (lexm (MW []) r)
                | S d' => lexm (MAtom d' SN (c :: acc)) r
                end
              else lexm (MAtom d SN (c :: acc)) r
          end
      end
  end.
Definition lex (s : str) : option (list tok) := lexm (MW []) s.

(* ---------- lexical classes of the ANTLR grammar ---------- *)
Definition is_letter (c : chr) : bool := ((97 <=? c) && (c <=? 122)) || ((65 <=? c) && (c <=? 90)) || (c =? 95).
Definition is_digit (c : chr) : bool := (48 <=? c) && (c <=? 57).
Definition is_idc (c : chr) : bool := is_letter c || is_digit c || (c =? 45) || (c =? 46) || (c =? 94).
(* ID: INIT_ID_LETTER (ID_LETTER | DIGIT)* *)
Definition is_id (w : str) : bool := match w with c :: r => is_letter c && forallb is_idc r | [] => false end.
Definition keywords : list str :=
  [lit "forall"; lit "exists"; lit "not"; lit "and"; lit "or"; lit "xor"; lit "implies"; lit "iff";
   lit "in"; lit "int"; lit "const"; lit "true"; lit "false"; lit "div"; lit "mod"; lit "abs"].
Definition is_name (w : str) : bool := is_id w && negb (mem w keywords).
(* VAR_TYPE: LT ID GT *)
Definition is_vartype (w : str) : bool :=
  match w with c :: r => (c =? 60) && match rev r with e :: m => (e =? 62) && is_id (rev m) | [] => false end | [] => false end.

Fixpoint uint_of_str (s : str) : option Decimal.uint :=
  match s with
  | [] => Some Decimal.Nil
  | c :: r =>
      match uint_of_str r with
      | None => None
      | Some u =>
          if c =? 48 then Some (Decimal.D0 u) else if c =? 49 then Some (Decimal.D1 u)
          else if c =? 50 then Some (Decimal.D2 u) else if c =? 51 then Some (Decimal.D3 u)
          else if c =? 52 then Some (Decimal.D4 u) else if c =? 53 then Some (Decimal.D5 u)
          else if c =? 54 then Some (Decimal.D6 u) else if c =? 55 then Some (Decimal.D7 u)
          else if c =? 56 then Some (Decimal.D8 u) else if c =? 57 then Some (Decimal.D9 u)
          else None
      end
  end.
(* INT: '-'? DIGIT+ ; value = Python int(text) *)
Definition int_of_word (w : str) : option Z :=
  match w with
  | [] => None
  | c :: r =>
      if c =? 45 then
        match r with
        | [] => None
        | _ => match uint_of_str r with Some u => Some (Z.opp (Z.of_N (N.of_uint u))) | None => None end
        end
      else match uint_of_str w with Some u => Some (Z.of_N (N.of_uint u)) | None => None end
  end.

(* ---------- raw syntax trees (names, no variables yet) ---------- *)
Inductive rarg := RId (n : str) | RInt (z : Z) | RStr (s : str).
Inductive raw :=
| RAtom (t : str)
| RPred (n : str) (args : list rarg)
| RNot (r : raw)
| RAnd (a b : raw)
| ROr (a b : raw)
| RQ (ex : bool) (ty n w : str) (b : raw)        (* forall/exists <ty> n in w: b *)
| RQInt (ex : bool) (n : str) (b : raw).         (* forall/exists int n: b *)

Definition pres : Type := option (raw * list tok).

Definition arg_of (t : tok) : option rarg :=
  match t with
  | TStr s => Some (RStr s)
  | TWord w =>
      match w with
      | c :: _ => if is_digit c || (c =? 45)
                  then match int_of_word w with Some z => Some (RInt z) | None => None end
                  else if is_name w then Some (RId w) else None
      | [] => None
      end
  | _ => None
  end.

(* predicateArg (',' predicateArg)* ')' *)
Fixpoint pargs (ts : list tok) : option (list rarg * list tok) :=
  match ts with
  | t :: r =>
      match arg_of t with
      | None => None
      | Some a =>
          match r with
          | TComma :: r' => match pargs r' with Some (l, r'') => Some (a :: l, r'') | None => None end
          | TRP :: r' => Some ([a], r')
          | _ => None
          end
      end
  | [] => None
  end.

(* left-associative chain  acc (kw sub)*  *)
Fixpoint loopP (sub : list tok -> pres) (kw : str) (mk : raw -> raw -> raw) (n : nat) (acc : raw)
         (ts : list tok) : pres :=
  match ts with
  | TWord w :: r =>
      if str_eqb w kw then
        match n with
        | O => None
        | S n' => match sub r with Some (g, r') => loopP sub kw mk n' (mk acc g) r' | None => None end
        end
      else Some (acc, ts)
  | _ => Some (acc, ts)
  end.

Inductive lvl := LD | LC | LF.    (* disjunction / conjunction / prefix-and-primary level *)
Definition is_q (w : str) : option bool :=
  if str_eqb w (lit "forall") then Some false else if str_eqb w (lit "exists") then Some true else None.

Fixpoint P (fuel : nat) (l : lvl) (ts : list tok) : pres :=
  match fuel with
  | O => None
  | S k =>
      match l with
      | LD => match P k LC ts with Some (f, r) => loopP (P k LC) (lit "or") ROr k f r | None => None end
      | LC => match P k LF ts with Some (f, r) => loopP (P k LF) (lit "and") RAnd k f r | None => None end
      | LF =>
          match ts with
          | TAtom t :: r => Some (RAtom t, r)
          | TLP :: r => match P k LD r with Some (f, TRP :: r') => Some (f, r') | _ => None end
          | TWord w :: r =>
              if str_eqb w (lit "not") then
                match P k LF r with Some (f, r') => Some (RNot f, r') | None => None end
              else
                match is_q w with
                | Some ex =>
                    match r with
                    | TWord a :: TWord b :: r2 =>
                        match r2 with
                        | TColon :: r' =>
                            if str_eqb a (lit "int") && is_name b then
                              match P k LF r' with Some (f, r'') => Some (RQInt ex b f, r'') | None => None end
                            else None
                        | TWord i :: TWord x :: TColon :: r' =>
                            if is_vartype a && is_name b && str_eqb i (lit "in") && is_name x then
                              match P k LF r' with Some (f, r'') => Some (RQ ex a b x f, r'') | None => None end
                            else None
                        | _ => None
                        end
                    | _ => None
                    end
                | None =>
                    match r with
                    | TLP :: r1 =>
                        if is_name w then
                          match pargs r1 with Some (args, r') => Some (RPred w args, r') | None => None end
                        else None
                    | _ => None
                    end
                end
          | _ => None
          end
      end
  end.

(* ---------- name resolution (VariableManager / get_var) ---------- *)
Definition num_type : str := lit "NUM".
(* get_var(name, type) at a declaration *)
Definition bvar (c : var) (n ty : str) : var := if str_eqb n (vname c) then c else MkVar VBound n ty.
(* declared variables, pre-order *)
Fixpoint rdecls (c : var) (r : raw) : list var :=
  match r with
  | RAtom _ | RPred _ _ => []
  | RNot a => rdecls c a
  | RAnd a b | ROr a b => rdecls c a ++ rdecls c b
  | RQ _ ty n _ b => bvar c n ty :: rdecls c b
  | RQInt _ n b => bvar c n num_type :: rdecls c b
  end.
(* get_var(name) at a use *)
Definition rv (c : var) (D : list var) (n : str) : option var :=
  if str_eqb n (vname c) then Some c else find (fun v => str_eqb (vname v) n) D.

(* words of an s-expression outside its string literals *)
Fixpoint atom_words (sm : smode) (acc : str) (s : str) : list str :=
  let fl := match acc with [] => [] | _ => [rev acc] end in
  match s with
  | [] => fl
  | c :: r =>
      match sm with
      | SS => atom_words (if c =? c_q then SN else if c =? c_bs then SB else SS) [] r
      | SB => atom_words SS [] r
      | SN => if c =? c_q then fl ++ atom_words SS [] r
              else if is_delim c then fl ++ atom_words SN [] r
              else atom_words SN (c :: acc) r
      end
  end.
Fixpoint add_var (v : var) (l : list var) : list var :=
  match l with [] => [v] | x :: r => if var_eqb x v then l else x :: add_var v r end.
Definition atom_vars (c : var) (D : list var) (t : str) : list var :=
  fold_left (fun l w => match rv c D w with Some v => add_var v l | None => l end) (atom_words SN [] t) [].

(* the standard predicate tables handed to parse_isla: name -> (semantic?, arity) *)
Definition pred_info (n : str) : option (bool * nat) :=
  if mem n [lit "before"; lit "after"; lit "inside"; lit "same_position"; lit "different_position";
            lit "direct_child"; lit "consecutive"] then Some (false, 2%nat)
  else if str_eqb n (lit "nth") then Some (false, 3%nat)
  else if str_eqb n (lit "level") then Some (false, 4%nat)
  else if str_eqb n (lit "count") then Some (true, 3%nat)
  else None.

Definition res_arg (c : var) (D : list var) (a : rarg) : option parg :=
  match a with
  | RId n => match rv c D n with Some v => Some (PVar v) | None => None end
  | RInt z => Some (parg_int z)
  | RStr s => Some (PStr s)
  end.
Fixpoint res_args (c : var) (D : list var) (l : list rarg) : option (list parg) :=
  match l with
  | [] => Some []
  | a :: r => match res_arg c D a, res_args c D r with Some x, Some xs => Some (x :: xs) | _, _ => None end
  end.

Fixpoint resolve (c : var) (D : list var) (r : raw) : option cformula :=
  match r with
  | RAtom t => Some (FSmt (SVar t, atom_vars c D t))
  | RPred n args =>
      match pred_info n, res_args c D args with
      | Some (sem, ar), Some l =>
          if Nat.eqb (List.length l) ar then Some (if sem then FSemPred n l else FSPred n l) else None
      | _, _ => None
      end
  | RNot a =>
      match resolve c D a with
      | Some (FSPred n l) => Some (FNot (FSPred n l))
      | Some (FSemPred n l) => Some (FNot (FSemPred n l))
      | _ => None                                   (* Formula.__neg__ rewrites: not modelled *)
      end
  | RAnd a b => match resolve c D a, resolve c D b with Some x, Some y => Some (FAnd [x; y]) | _, _ => None end
  | ROr a b => match resolve c D a, resolve c D b with Some x, Some y => Some (FOr [x; y]) | _, _ => None end
  | RQ ex ty n w b =>
      match rv c D w, resolve c D b with
      | Some i, Some x => Some ((if ex then FExists else FForall) (bvar c n ty) (InVar i) None x)
      | _, _ => None
      end
  | RQInt ex n b =>
      match resolve c D b with
      | Some x => Some ((if ex then FExistsInt else FForallInt) (bvar c n num_type) x)
      | None => None
      end
  end.

(* constDecl? formula *)
Definition split_header (ts : list tok) : option (var * list tok) :=
  match ts with
  | TWord k :: r =>
      if str_eqb k (lit "const") then
        match r with
        | TWord n :: TColon :: TWord ty :: TSemi :: body =>
            if is_name n && is_vartype ty then Some (MkVar VConst n ty, body) else None
        | _ => None
        end
      else Some (start_const, ts)
  | _ => Some (start_const, ts)
  end.

Definition parse_toks (ts : list tok) : option cformula :=
  match split_header ts with
  | Some (c, body) =>
      match P (3 * List.length body + 3) LD body with
      | Some (r, []) => resolve c (rdecls c r) r
      | _ => None
      end
  | None => None
  end.

Definition parse_core (s : str) : option cformula :=
  match lex s with Some ts => parse_toks ts | None => None end.
