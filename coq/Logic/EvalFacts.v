(* Proofs connecting the evaluator model (Eval.v) with the specification semantics
   (Semantics.v).  Main result: eval_correct — on a closed reference tree with unique ids and
   branching degree <= 28, for well-scoped formulas without match expressions and numeric
   quantifiers, evaluate_legacy returns TT exactly when the formula holds in the specification
   semantics and FF exactly when it does not; it never returns UU and never raises. *)
From ISLA Require Import Semantics Eval EvalAtoms.
From Coq Require Import Lia ZArith.

(* ------------------------------------------------------------------ *)
(* generic helpers                                                     *)
(* ------------------------------------------------------------------ *)
Lemma vkind_eqb_eq a b : vkind_eqb a b = true <-> a = b.
Proof. destruct a, b; simpl; split; intro H; congruence. Qed.

Lemma var_eqb_eq a b : var_eqb a b = true <-> a = b.
Proof.
  destruct a as [k n t], b as [k' n' t']. unfold var_eqb. simpl.
  rewrite !andb_true_iff, vkind_eqb_eq, !str_eqb_eq. split.
  - intros [[-> ->] ->]. reflexivity.
  - intro H. inversion H. auto.
Qed.

Lemma var_eqb_refl a : var_eqb a a = true.
Proof. apply var_eqb_eq. reflexivity. Qed.

Lemma var_eqb_neq a b : var_eqb a b = false <-> a <> b.
Proof.
  split; intro H.
  - intro E. apply var_eqb_eq in E. congruence.
  - destruct (var_eqb a b) eqn:E; [|reflexivity]. apply var_eqb_eq in E. contradiction.
Qed.

Lemma tree_eqb_refl t : tree_eqb t t = true.
Proof.
  induction t as [l i o ks IH] using tree_ind'. simpl.
  rewrite str_eqb_refl, N.eqb_refl, Bool.eqb_reflx. simpl.
  induction IH as [|k ks Hk Hks IHks]; [reflexivity|]. rewrite Hk. simpl. exact IHks.
Qed.

Lemma NoDup_map_eq {B C} (f : B -> C) l x y :
  NoDup (map f l) -> In x l -> In y l -> f x = f y -> x = y.
Proof.
  induction l as [|a l IH]; simpl; intros Hnd Hx Hy E; [contradiction|].
  inversion Hnd as [|? ? Hn Hd]; subst.
  destruct Hx as [->|Hx], Hy as [->|Hy]; try reflexivity.
  - exfalso. apply Hn. rewrite E. apply in_map. assumption.
  - exfalso. apply Hn. rewrite <- E. apply in_map. assumption.
  - apply IH; assumption.
Qed.

(* ---- dictionaries ---- *)
Definition keys {B} (d : list (var * B)) : list var := map fst d.

Lemma dict_get_In {B} (d : list (var * B)) v x : dict_get d v = Some x -> In (v, x) d.
Proof.
  induction d as [|[k y] d IH]; simpl; [discriminate|].
  destruct (var_eqb k v) eqn:E.
  - apply var_eqb_eq in E. subst. intro H. inversion H. left. reflexivity.
  - intro H. right. auto.
Qed.

Lemma dict_get_None {B} (d : list (var * B)) v : dict_get d v = None <-> ~ In v (keys d).
Proof.
  induction d as [|[k y] d IH]; simpl; [tauto|].
  destruct (var_eqb k v) eqn:E.
  - apply var_eqb_eq in E. subst. split; [discriminate | intro H; exfalso; apply H; auto].
  - apply var_eqb_neq in E. rewrite IH. split; [intros H [H'|H']; auto | intros H H'; apply H; auto].
Qed.

Lemma dict_mem_In {B} (d : list (var * B)) v : dict_mem d v = true <-> In v (keys d).
Proof.
  unfold dict_mem. destruct (dict_get d v) eqn:E.
  - split; [|reflexivity]. intros _. apply dict_get_In in E. apply in_map_iff. exists (v, b). auto.
  - apply dict_get_None in E. split; [discriminate | contradiction].
Qed.

Lemma dict_set_fresh {B} (d : list (var * B)) v x : ~ In v (keys d) -> dict_set d v x = d ++ [(v, x)].
Proof.
  induction d as [|[k y] d IH]; simpl; intro H; [reflexivity|].
  destruct (var_eqb k v) eqn:E.
  - apply var_eqb_eq in E. subst. exfalso. apply H. auto.
  - rewrite IH; [reflexivity|]. intro H'. apply H. auto.
Qed.

Lemma dict_union_fresh {B} (a d : list (var * B)) :
  NoDup (keys d) -> (forall v, In v (keys a) -> ~ In v (keys d)) -> dict_union a d = a ++ d.
Proof.
  unfold dict_union. revert a. induction d as [|[k y] d IH]; simpl; intros a Hnd Hfr.
  - rewrite app_nil_r. reflexivity.
  - inversion Hnd as [|? ? Hn Hd]; subst.
    rewrite dict_set_fresh.
    + rewrite IH; [rewrite <- app_assoc; reflexivity | assumption |].
      intros v Hv. unfold keys in Hv. rewrite map_app in Hv. apply in_app_iff in Hv as [Hv|Hv].
      * intro H'. apply (Hfr v Hv). right. assumption.
      * simpl in Hv. destruct Hv as [<-|[]]. assumption.
    + intro H'. apply (Hfr k H'). left. reflexivity.
Qed.

(* ---- three-valued lists ---- *)
Lemma collect_decided {B} (f : B -> res TV) (P : B -> Prop) (xs : list B) :
  (forall x, In x xs -> (f x = Ok TT /\ P x) \/ (f x = Ok FF /\ ~ P x)) ->
  exists l, collect (map f xs) = Ok l /\
    ((tv_all l = TT /\ Forall P xs) \/ (tv_all l = FF /\ ~ Forall P xs)) /\
    ((tv_any l = TT /\ Exists P xs) \/ (tv_any l = FF /\ ~ Exists P xs)).
Proof.
  induction xs as [|x xs IH]; intro H.
  - exists []. simpl. split; [reflexivity|]. split.
    + left. split; [reflexivity | constructor].
    + right. split; [reflexivity|]. intro E. inversion E.
  - destruct IH as (l & Hl & Hall & Hany); [intros y Hy; apply H; right; assumption|].
    simpl. destruct (H x (or_introl eq_refl)) as [[Hx HP]|[Hx HP]]; rewrite Hx, Hl.
    + exists (TT :: l). split; [reflexivity|]. split.
      * destruct Hall as [[Ha Hf]|[Ha Hf]].
        -- left. split; [|constructor; assumption]. unfold tv_all in *. simpl. exact Ha.
        -- right. split; [unfold tv_all in *; simpl; exact Ha|]. intro E. inversion E. contradiction.
      * left. split; [reflexivity | constructor; assumption].
    + exists (FF :: l). split; [reflexivity|]. split.
      * right. split; [reflexivity|]. intro E. inversion E. contradiction.
      * destruct Hany as [[Ha Hf]|[Ha Hf]].
        -- left. split; [unfold tv_any in *; simpl; exact Ha | apply Exists_cons_tl; assumption].
        -- right. split; [unfold tv_any in *; simpl; exact Ha|]. intro E. inversion E; contradiction.
Qed.

(* ---- trees ---- *)
Lemma closed_nodes t : is_openT t = false -> forall p s, In (p, s) (nodes t) -> opn s = false.
Proof.
  induction t as [l i o ks IH] using tree_ind'. intros Hc p s Hin.
  simpl in Hc. apply orb_false_iff in Hc as [Ho Hks].
  apply nodes_spec in Hin. destruct p as [|k p]; simpl in Hin.
  - injection Hin as <-. exact Ho.
  - destruct (nth_error ks k) as [c|] eqn:Ek; [|discriminate].
    assert (Hc : In c ks) by (eapply nth_error_In; eauto).
    rewrite Forall_forall in IH. apply (IH c Hc) with (p := p).
    + destruct (is_openT c) eqn:E; [|reflexivity].
      assert (existsb is_openT ks = true) by (apply existsb_exists; eauto). congruence.
    + apply nodes_spec. assumption.
Qed.

Lemma closed_subtree t p s : is_openT t = false -> subtree t p = Some s -> is_openT s = false.
Proof.
  revert t. induction p as [|k p IH]; intros t Hc H; simpl in H.
  - inversion H; subst. assumption.
  - destruct (nth_error (kids t) k) as [c|] eqn:Ek; [|discriminate].
    apply (IH c); [|assumption]. destruct t as [l i o ks]. simpl in *.
    apply orb_false_iff in Hc as [_ Hks]. destruct (is_openT c) eqn:E; [|reflexivity].
    assert (existsb is_openT ks = true) by (apply existsb_exists; exists c; split; [eapply nth_error_In; eauto | assumption]).
    congruence.
Qed.

Lemma closed_no_open_nodes t : is_openT t = false -> filter (fun ps => opn (snd ps)) (nodes t) = [].
Proof.
  intro Hc. induction (nodes t) as [|[p s] l IH] eqn:E in Hc |- *; [reflexivity|].
  pose proof (closed_nodes t Hc) as H.
  assert (forall l', (forall p s, In (p, s) l' -> opn s = false) -> filter (fun ps : path * tree => opn (snd ps)) l' = []) as Hgen.
  { induction l' as [|[p' s'] l' IHl']; intro Hl'; [reflexivity|]. simpl.
    rewrite (Hl' p' s' (or_introl eq_refl)). apply IHl'. intros; apply (Hl' p0 s0). right. assumption. }
  rewrite <- E. apply Hgen. exact H.
Qed.

Lemma list_sum_filter_concat {B} (f : B -> bool) (ls : list (list B)) :
  length (filter f (concat ls)) = list_sum (map (fun l => length (filter f l)) ls).
Proof.
  induction ls as [|l ls IH]; [reflexivity|]. simpl.
  rewrite filter_app, app_length, IH. reflexivity.
Qed.

Definition hitf (nt : str) (ps : path * tree) : bool := str_eqb (lbl (snd ps)) nt.

Lemma count_kids_aux nt ks : forall i0,
  Forall (fun t => length (filter (hitf nt) (nodes t)) = count_lbl nt t) ks ->
  length (filter (hitf nt)
    (concat (mapi_from (fun i c => map (fun pt : path * tree => (i :: fst pt, snd pt)) c) i0 (map nodes ks))))
  = list_sum (map (count_lbl nt) ks).
Proof.
  induction ks as [|k ks IHks]; intros i0 H; [reflexivity|].
  inversion H as [|? ? Hk Hks]; subst. simpl.
  rewrite filter_app, app_length, IHks by assumption. f_equal.
  rewrite <- Hk. clear. induction (nodes k) as [|[p s] l' IHl]; [reflexivity|].
  simpl. unfold hitf. simpl. fold (hitf nt). destruct (str_eqb (lbl s) nt); simpl; rewrite IHl; reflexivity.
Qed.

Lemma count_nodes_lbl nt t : count_nodes nt t = count_lbl nt t.
Proof.
  unfold count_nodes. change (length (filter (hitf nt) (nodes t)) = count_lbl nt t).
  induction t as [l i o ks IH] using tree_ind'.
  rewrite nodes_unfold.
  assert (E : forall x rest, length (filter (hitf nt) (x :: rest))
                             = (if hitf nt x then 1 else 0) + length (filter (hitf nt) rest)).
  { intros x rest. simpl. destruct (hitf nt x); reflexivity. }
  rewrite E. simpl count_lbl. f_equal. apply count_kids_aux. exact IH.
Qed.

Lemma var_eqb_sym a b : var_eqb a b = var_eqb b a.
Proof.
  destruct (var_eqb a b) eqn:E.
  - apply var_eqb_eq in E. subst. symmetry. apply var_eqb_refl.
  - symmetry. apply var_eqb_neq. apply var_eqb_neq in E. congruence.
Qed.

Lemma py_int_dec s k : parse_dec s = Some k -> py_int s = Some (Z.of_N k).
Proof.
  intro H. unfold py_int. rewrite H. destruct s as [|ch s']; [reflexivity|].
  assert (Hd : digit_of ch <> None).
  { unfold parse_dec in H. simpl in H. destruct (digit_of ch); [discriminate | discriminate H]. }
  destruct (N.eqb_spec ch 45) as [->|_]; [exfalso; apply Hd; reflexivity|].
  destruct (N.eqb_spec ch 43) as [->|_]; [exfalso; apply Hd; reflexivity|]. reflexivity.
Qed.

(* ------------------------------------------------------------------ *)
(* correctness of evaluate_legacy on closed trees                      *)
(* ------------------------------------------------------------------ *)
Section Correct.
  Variable A : Type.
  Variable afree : A -> list var.
  Variable aopen : A -> bool.
  Variable aeval : A -> asg -> res TV.
  Variable qmm : var -> path -> option mexpr -> asg -> path -> bool.
  Variable reach : str -> str -> bool.
  Variable count_open : tree -> str -> Z -> res TV.
  Variable adenote : A -> (var -> option tree) -> Prop.
  Variable ref : tree.

  Definition uniq_ids (t : tree) : Prop := NoDup (map (fun ps : path * tree => tid (snd ps)) (nodes t)).
  (* no child index >= 28 anywhere: excludes the known-finding class K_wide *)
  Definition narrow (t : tree) : Prop := forall p s, In (p, s) (nodes t) -> trie_ok p = true.

  Hypothesis Hshape : shape_ok ref = true.
  Hypothesis Hclosed : is_openT ref = false.
  Hypothesis Huniq : uniq_ids ref.
  Hypothesis Hnarrow : narrow ref.

  (* the assignments dictionary of the evaluator represents the specification's assignment *)
  Definition inv (a : asg) (b : env) : Prop :=
    NoDup (map (fun kv : var * (path * tree) => vname (fst kv)) a) /\
    (forall v, b v = match dict_get a v with Some pt => Some (VPos (fst pt)) | None => None end) /\
    Forall (fun kv : var * (path * tree) =>
              subtree ref (fst (snd kv)) = Some (snd (snd kv)) /\ lbl (snd (snd kv)) = vtype (fst kv)) a.

  (* every instantiated atom is decided, and decided as its meaning says *)
  Hypothesis Hatom : forall x a b, inv a b -> (forall v, In v (afree x) -> In v (keys a)) -> aopen x = false ->
      (aeval x a = Ok TT /\ adenote x (tenv ref b)) \/ (aeval x a = Ok FF /\ ~ adenote x (tenv ref b)).

  (* ---- well-scoped formulas of the fragment ---- *)
  Definition arg_wf (dom : list var) (x : parg) : Prop :=
    match x with PVar v => In v dom | PTree t => t = ref | PStr _ => False end.
  Definition arg_nt (x : parg) : Prop :=
    match x with PVar v => is_nt (vtype v) = true | PTree t => is_nt (lbl t) = true | PStr _ => False end.
  (* `consecutive` is NOT covered: /repo's consecutive() compares absolute argument paths with leaf
     paths relative to the common prefix (C04 finding consecutive-relative-paths, class K_cons_rel;
     the fix was withdrawn because a shipped formalization depends on the behaviour).  Almost every
     pair of nodes of a real tree shares the prefix (0,) below <start>, so a guard on the path
     pairs would be empty in practice: the theorem excludes formulas that use `consecutive`. *)
  Definition names2 : list str :=
    [s_before; s_after; s_inside; s_same_position; s_different_position; s_direct_child].

  Definition spred_wf (dom : list var) (n : str) (args : list parg) : Prop :=
    match args with
    | [a1; a2] => In n names2 /\ arg_wf dom a1 /\ arg_wf dom a2
    | [a0; a1; a2] =>
        match a0 with
        | PStr k => n = s_nth /\ parse_dec k <> None /\ arg_wf dom a1 /\ arg_nt a1 /\ arg_wf dom a2
        | _ => False
        end
    | [a0; a0'; a1; a2] =>
        match a0, a0' with
        | PStr op, PStr nt => n = s_level /\ lvl_of_str op <> None /\ arg_wf dom a1 /\ arg_wf dom a2
        | _, _ => False
        end
    | _ => False
    end.

  Definition sempred_wf (dom : list var) (n : str) (args : list parg) : Prop :=
    match args with
    | [x; PStr needle; PStr num] => n = s_count /\ arg_wf dom x /\ parse_dec num <> None
    | _ => False
    end.

  Definition in_wf (dom : list var) (i : invar) : Prop :=
    match i with InVar w => In w dom | InTree t => t = ref end.
  (* excludes the class K_rebound_name: a quantifier re-using a name that is in scope *)
  Definition fresh_name (v : var) (dom : list var) : Prop := forall w, In w dom -> vname w <> vname v.

  Fixpoint wf (dom : list var) (f : formula A) {struct f} : Prop :=
    match f with
    | FSmt x => (forall v, In v (afree x) -> In v dom) /\ aopen x = false
    | FSPred n args => spred_wf dom n args
    | FSemPred n args => sempred_wf dom n args
    | FNot g => wf dom g
    | FAnd fs | FOr fs =>
        (fix all (l : list (formula A)) : Prop :=
           match l with [] => True | x :: l' => wf dom x /\ all l' end) fs
    | FForall v i m body | FExists v i m body =>
        m = None /\ in_wf dom i /\ fresh_name v dom /\ wf (v :: dom) body
    | FForallInt _ _ | FExistsInt _ _ => False
    end.

  Notation ev := (eval_legacy A afree aopen aeval qmm reach count_open ref).

  (* ---- invariants ---- *)
  Lemma inv_keys_nodup a b : inv a b -> NoDup (keys a).
  Proof.
    intros (Hn & _ & _). unfold keys. rewrite <- (map_map fst vname) in Hn.
    eapply NoDup_map_inv. exact Hn.
  Qed.

  Lemma inv_get a b v p s : inv a b -> dict_get a v = Some (p, s) ->
    subtree ref p = Some s /\ lbl s = vtype v /\ b v = Some (VPos p).
  Proof.
    intros (_ & Hb & Hf) Hg. rewrite Forall_forall in Hf.
    destruct (Hf (v, (p, s)) (dict_get_In _ _ _ Hg)) as [H1 H2]. simpl in *.
    repeat split; try assumption. rewrite Hb, Hg. reflexivity.
  Qed.

  Lemma inv_in_keys a b v : inv a b -> In v (keys a) -> exists p s, dict_get a v = Some (p, s).
  Proof.
    intros _ Hin. destruct (dict_get a v) as [[p s]|] eqn:E; [eauto|].
    apply dict_get_None in E. contradiction.
  Qed.

  Lemma find_by_id_root : find_by_id ref ref = Some ([], ref).
  Proof.
    unfold find_by_id. destruct ref as [l i o ks]. rewrite nodes_unfold. simpl.
    rewrite N.eqb_refl. reflexivity.
  Qed.

  Lemma root_in_nodes : In ([], ref) (nodes ref).
  Proof. apply nodes_spec. reflexivity. Qed.

  Lemma pos_of_root p : pos_of ref ref p <-> p = [].
  Proof.
    split.
    - intros (s & Hs & Hid). apply nodes_spec in Hs.
      assert (E : (p, s) = ([], ref)).
      { eapply (NoDup_map_eq (fun ps : path * tree => tid (snd ps))); [exact Huniq | exact Hs | exact root_in_nodes | exact Hid]. }
      inversion E. reflexivity.
    - intros ->. exists ref. split; reflexivity.
  Qed.

  Lemma arg_resolve a b x : inv a b -> arg_wf (keys a) x ->
    exists p s, arg_inst ref a x = Ok (SPath p) /\ subtree ref p = Some s /\
                (forall p', arg_pos ref b x p' <-> p' = p) /\ (arg_nt x -> is_nt (lbl s) = true).
  Proof.
    intros Hinv Hwf. destruct x as [v|str0|t]; simpl in Hwf; [| contradiction |].
    - destruct (inv_in_keys a b v Hinv Hwf) as (p & s & Hg).
      destruct (inv_get a b v p s Hinv Hg) as (Hs & Hl & Hb).
      exists p, s. simpl. rewrite Hg. simpl. repeat split; try assumption.
      + rewrite Hb. intro H. inversion H. reflexivity.
      + intros ->. assumption.
      + rewrite Hl. auto.
    - subst t. exists [], ref. simpl. rewrite find_by_id_root. simpl. repeat split.
      + apply pos_of_root.
      + apply pos_of_root.
      + auto.
  Qed.

  Lemma valid_of_subtree p s : subtree ref p = Some s -> valid ref p.
  Proof. unfold valid. intro H. rewrite H. discriminate. Qed.

  (* ---- structural predicates ---- *)
  Lemma spred_call2 n p q : valid ref p -> valid ref q -> In n names2 ->
    exists bb, spred_call ref n [SPath p; SPath q] = Ok bb /\ (bb = true <-> path2 ref n p q).
  Proof.
    intros Hp Hq Hn. unfold names2 in Hn. simpl in Hn.
    destruct Hn as [<-|[<-|[<-|[<-|[<-|[<-|[]]]]]]]; simpl;
      (eexists; split; [reflexivity|]; rewrite <- path2b_spec; unfold path2b; simpl;
       rewrite ?orb_false_r; tauto).
  Qed.

  Lemma tv_bool_cases (bb : bool) (P : Prop) : (bb = true <-> P) ->
    (Ok (tv_of_bool bb) = Ok TT /\ P) \/ (Ok (tv_of_bool bb) = Ok FF /\ ~ P).
  Proof.
    intro H. destruct bb; simpl.
    - left. split; [reflexivity | apply H; reflexivity].
    - right. split; [reflexivity|]. intro HP. apply H in HP. discriminate.
  Qed.

  Lemma spred_correct a b n args : inv a b -> spred_wf (keys a) n args ->
    (eval_spred ref a n args = Ok TT /\ spred_sem ref b n args) \/
    (eval_spred ref a n args = Ok FF /\ ~ spred_sem ref b n args).
  Proof.
    intros Hinv Hwf. unfold spred_wf in Hwf.
    destruct args as [|a0 [|a1 [|a2 [|a3 [|a4 r]]]]]; try contradiction.
    - (* binary predicates *)
      destruct Hwf as (Hn & H0 & H1).
      destruct (arg_resolve a b a0 Hinv H0) as (p & sp & Ep & Hsp & Hup & _).
      destruct (arg_resolve a b a1 Hinv H1) as (q & sq & Eq & Hsq & Huq & _).
      destruct (spred_call2 n p q (valid_of_subtree _ _ Hsp) (valid_of_subtree _ _ Hsq) Hn) as (bb & Hc & Hiff).
      unfold eval_spred. simpl. rewrite Ep, Eq. rewrite Hc.
      apply tv_bool_cases. rewrite Hiff. unfold spred_sem. split.
      + intro H. exists p, q. split; [apply Hup; reflexivity|]. split; [apply Huq; reflexivity|]. assumption.
      + intros (p' & q' & Hp' & Hq' & H). apply Hup in Hp'. apply Huq in Hq'. subst. assumption.
    - (* nth *)
      destruct a0 as [v0|k|t0]; try contradiction.
      destruct Hwf as (-> & Hk & H1 & Hnt & H2).
      destruct (parse_dec k) as [kk|] eqn:Ek; [|congruence].
      destruct (arg_resolve a b a1 Hinv H1) as (p & sp & Ep & Hsp & Hup & Hntp).
      destruct (arg_resolve a b a2 Hinv H2) as (q & sq & Eq & Hsq & Huq & _).
      specialize (Hntp Hnt).
      destruct (nth_correct ref (N.to_nat kk) p q sp Hshape (valid_of_subtree _ _ Hsq) Hsp Hntp) as [[bb Hb] Hiff].
      unfold eval_spred. simpl. rewrite Ep, Eq. simpl.
      assert (Hsem : spred_sem ref b s_nth [PStr k; a1; a2] <-> nth_spec ref (N.to_nat kk) p q).
      { unfold spred_sem. split.
        - intros (_ & k' & p' & q' & Hk' & Hp' & Hq' & H). apply Hup in Hp'. apply Huq in Hq'.
          rewrite Ek in Hk'. inversion Hk'. subst. assumption.
        - intro H. split; [reflexivity|]. exists kk, p, q.
          split; [first [exact Ek | reflexivity]|]. split; [apply Hup; reflexivity|]. split; [apply Huq; reflexivity|]. assumption. }
      rewrite Hsem. destruct (in_tree p q) eqn:Ein; simpl.
      + rewrite Ek, Hb. apply tv_bool_cases. rewrite <- Hiff, Hb.
        split; [intros ->; reflexivity | intro H; inversion H; reflexivity].
      + right. split; [reflexivity|]. intros [Hpre _]. apply inside_spec in Hpre. congruence.
    - (* level *)
      destruct a0 as [v0|op|t0]; try contradiction.
      destruct a1 as [v1|nt|t1]; try contradiction.
      destruct Hwf as (-> & Ho & H2 & H3).
      destruct (lvl_of_str op) as [o|] eqn:Eo; [|congruence].
      destruct (arg_resolve a b a2 Hinv H2) as (p & sp & Ep & Hsp & Hup & _).
      destruct (arg_resolve a b a3 Hinv H3) as (q & sq & Eq & Hsq & Huq & _).
      unfold eval_spred. simpl. rewrite Ep, Eq. simpl. rewrite Eo.
      apply tv_bool_cases. rewrite (level_correct ref o nt p q Hshape). unfold spred_sem. split.
      + intro H. split; [reflexivity|]. exists o, p, q.
        split; [first [exact Eo | reflexivity]|]. split; [apply Hup; reflexivity|]. split; [apply Huq; reflexivity|]. assumption.
      + intros (_ & o' & p' & q' & Ho' & Hp' & Hq' & H). apply Hup in Hp'. apply Huq in Hq'.
        try rewrite Eo in Ho'. inversion Ho'. subst. assumption.
  Qed.

  (* ---- count ---- *)
  Lemma count_eval_closed s needle num k : is_openT s = false -> parse_dec num = Some k ->
    count_eval reach count_open s needle num =
      Ok (tv_of_bool (N.eqb (N.of_nat (count_lbl needle s)) k)).
  Proof.
    intros Hc Hk. unfold count_eval. rewrite (py_int_dec _ _ Hk), (closed_no_open_nodes s Hc). simpl.
    rewrite count_nodes_lbl.
    destruct (Z.ltb_spec (Z.of_N k) 0) as [H0|H0]; [lia|]. simpl.
    destruct (Z.ltb_spec (Z.of_N k) (Z.of_nat (count_lbl needle s))) as [H1|H1]; simpl.
    - destruct (N.eqb_spec (N.of_nat (count_lbl needle s)) k) as [E|E]; [lia | reflexivity].
    - destruct (Z.eqb_spec (Z.of_nat (count_lbl needle s)) (Z.of_N k)) as [E|E];
        destruct (N.eqb_spec (N.of_nat (count_lbl needle s)) k) as [E'|E']; try reflexivity; lia.
  Qed.

  Lemma sempred_correct a b n args : inv a b -> sempred_wf (keys a) n args ->
    (eval_sempred reach count_open a n args = Ok TT /\ sempred_sem ref b n args) \/
    (eval_sempred reach count_open a n args = Ok FF /\ ~ sempred_sem ref b n args).
  Proof.
    intros Hinv Hwf. unfold sempred_wf in Hwf.
    destruct args as [|x [|y [|z [|w r]]]]; simpl in Hwf; try contradiction;
      destruct y as [vy|needle|ty]; simpl in Hwf; try contradiction;
      destruct z as [vz|num|tz]; simpl in Hwf; try contradiction.
    destruct Hwf as (-> & Hx & Hnum).
    destruct (parse_dec num) as [k|] eqn:Ek; [|congruence].
    destruct (arg_resolve a b x Hinv Hx) as (p & s & Ep & Hs & Hup & _).
    assert (Hev : eval_sempred reach count_open a s_count [x; PStr needle; PStr num]
                  = count_eval reach count_open s needle num).
    { unfold eval_sempred. simpl. destruct x as [v|s0|t]; simpl in Hx; [| contradiction |].
      - simpl in Ep. destruct (dict_get a v) as [[p' s']|] eqn:Eg; [|discriminate].
        simpl in Ep. inversion Ep; subst p'.
        destruct (inv_get a b v p s' Hinv Eg) as (Hs' & _ & _). rewrite Hs in Hs'. inversion Hs'. reflexivity.
      - subst t. simpl in Ep. rewrite find_by_id_root in Ep. simpl in Ep. inversion Ep; subst p.
        simpl in Hs. inversion Hs. reflexivity. }
    rewrite Hev, (count_eval_closed s needle num k (closed_subtree ref p s Hclosed Hs) Ek).
    apply tv_bool_cases. rewrite N.eqb_eq. unfold sempred_sem. split.
    - intro H. split; [reflexivity|]. exists p, s, k.
      split; [apply Hup; reflexivity|]. split; [assumption|]. split; [exact Ek | assumption].
    - intros (_ & p' & s' & k' & Hp' & Hs' & Hk' & H). apply Hup in Hp'. subst p'.
      rewrite Hs in Hs'. simpl in Hk'. rewrite Ek in Hk'. congruence.
  Qed.

  (* ---- quantifier domain ---- *)
  Lemma in_resolve a b i : inv a b -> in_wf (keys a) i ->
    exists p0 s0, (match i with
                   | InTree t => match find_by_id ref t with Some ps => Ok ps | None => Raise StopIter end
                   | InVar w => match dict_get a w with Some pt => Ok pt | None => Raise AssertErr end
                   end) = Ok (p0, s0) /\
                  (forall p', in_pos ref b i p' <-> p' = p0).
  Proof.
    intros Hinv Hwf. destruct i as [w|t]; simpl in Hwf.
    - destruct (inv_in_keys a b w Hinv Hwf) as (p & s & Hg).
      destruct (inv_get a b w p s Hinv Hg) as (_ & _ & Hb).
      exists p, s. rewrite Hg. split; [reflexivity|]. simpl. intro p'. rewrite Hb. split.
      + intro H. inversion H. reflexivity.
      + intros ->. reflexivity.
    - subst t. exists [], ref. rewrite find_by_id_root. split; [reflexivity|]. simpl. apply pos_of_root.
  Qed.

  Definition dom (p0 : path) (T : str) : list (path * tree) :=
    filter (fun ps : path * tree => str_eqb (lbl (snd ps)) T) (trie_items ref p0).

  Lemma dom_spec b i p0 T q s : (forall p', in_pos ref b i p' <-> p' = p0) ->
    (In (q, s) (dom p0 T) <-> in_dom ref b i T q /\ subtree ref q = Some s).
  Proof.
    intro Hu. unfold dom, trie_items, in_dom. rewrite !filter_In. simpl. split.
    - intros [[Hin Hp] Hl]. apply andb_true_iff in Hp as [Hp _]. apply prefixb_spec in Hp.
      apply str_eqb_eq in Hl. apply nodes_spec in Hin. split; [|assumption].
      exists p0, s. split; [apply Hu; reflexivity|]. auto.
    - intros [(p0' & s' & Hi & Hp & Hs' & Hl) Hs]. apply Hu in Hi. subst p0'.
      rewrite Hs in Hs'. inversion Hs'; subst s'. apply nodes_spec in Hs.
      split; [split; [assumption|] | apply str_eqb_eq; assumption].
      apply andb_true_iff. split; [apply prefixb_spec; assumption | eapply Hnarrow; eassumption].
  Qed.

  Lemma inv_extend a b v q s : inv a b -> fresh_name v (keys a) ->
    subtree ref q = Some s -> lbl s = vtype v ->
    inv ((v, (q, s)) :: a) (upd b v (VPos q)).
  Proof.
    intros (Hn & Hb & Hf) Hfr Hs Hl. split; [|split].
    - simpl. constructor; [|assumption]. intro Hin. apply in_map_iff in Hin as ([w pt] & Hw & Hin).
      simpl in Hw. apply (Hfr w); [|assumption]. apply in_map_iff. exists (w, pt). auto.
    - intro w. unfold upd. simpl. rewrite (var_eqb_sym v w).
      destruct (var_eqb w v); [reflexivity | apply Hb].
    - constructor; [simpl; auto | assumption].
  Qed.

  Lemma asg_ok_inv a b : inv a b -> asg_ok ref a = true.
  Proof.
    intros (_ & _ & Hf). unfold asg_ok. apply forallb_forall. intros [w [p s]] Hin.
    rewrite Forall_forall in Hf. destruct (Hf _ Hin) as [Hs _]. simpl in *.
    rewrite Hs, (py_get_subtree_valid ref Hshape p s Hs), tree_eqb_refl. simpl.
    rewrite andb_true_r. apply existsb_exists. exists (p, s). split; [apply nodes_spec; assumption|].
    simpl. apply N.eqb_refl.
  Qed.

  Lemma open_leaves_nil : open_leaves ref = [].
  Proof. unfold open_leaves. apply closed_no_open_nodes. assumption. Qed.

  Lemma quant_correct (is_forall : bool) v i body a b :
    inv a b -> in_wf (keys a) i -> fresh_name v (keys a) ->
    (forall a' b', inv a' b' -> keys a' = v :: keys a ->
        (ev body a' = Ok TT /\ models adenote ref b' body) \/
        (ev body a' = Ok FF /\ ~ models adenote ref b' body)) ->
    let Q := fun q => models adenote ref (upd b v (VPos q)) body in
    let r := eval_quant qmm ref is_forall v i None (fun a' => ev body a') a in
    if is_forall
    then (r = Ok TT /\ (forall q, in_dom ref b i (vtype v) q -> Q q)) \/
         (r = Ok FF /\ ~ (forall q, in_dom ref b i (vtype v) q -> Q q))
    else (r = Ok TT /\ (exists q, in_dom ref b i (vtype v) q /\ Q q)) \/
         (r = Ok FF /\ ~ (exists q, in_dom ref b i (vtype v) q /\ Q q)).
  Proof.
    intros Hinv Hi Hfr IH Q r.
    destruct (in_resolve a b i Hinv Hi) as (p0 & s0 & Hres & Hu).
    set (D := dom p0 (vtype v)).
    assert (Hnews : map (fun na : asg => dict_union na a) (map (fun ps : path * tree => [(v, ps)]) D)
                    = map (fun ps : path * tree => (v, ps) :: a) D).
    { rewrite map_map. apply map_ext. intro ps. rewrite dict_union_fresh; [reflexivity | eapply inv_keys_nodup; eassumption |].
      intros w Hw Hin. simpl in Hw. destruct Hw as [Hw|[]]. subst w.
      apply (Hfr v Hin). reflexivity. }
    assert (HD : forall ps, In ps D -> inv ((v, ps) :: a) (upd b v (VPos (fst ps)))).
    { intros [q s] Hin. apply (dom_spec b i p0 (vtype v) q s Hu) in Hin as [(p0' & s' & _ & _ & Hs' & Hl) Hs].
      rewrite Hs in Hs'. inversion Hs'; subst s'. apply inv_extend; assumption. }
    assert (Hok : forallb (asg_ok ref) (map (fun ps : path * tree => (v, ps) :: a) D) = true).
    { apply forallb_forall. intros x Hx. apply in_map_iff in Hx as (ps & <- & Hin).
      eapply asg_ok_inv. apply HD. assumption. }
    destruct (collect_decided (fun ps : path * tree => ev body ((v, ps) :: a)) (fun ps => Q (fst ps)) D)
      as (l & Hl & Hall & Hany).
    { intros ps Hin. apply IH; [apply HD; assumption | reflexivity]. }
    assert (Hr : r = if is_forall then Ok (tv_all l) else Ok (tv_any l)).
    { unfold r, eval_quant. rewrite Hres. fold (dom p0 (vtype v)). fold D.
      unfold asg in *. rewrite Hnews, Hok, open_leaves_nil. simpl. rewrite map_map, Hl.
      destruct is_forall; [reflexivity|]. rewrite andb_false_r. reflexivity. }
    assert (HallQ : Forall (fun ps : path * tree => Q (fst ps)) D <-> (forall q, in_dom ref b i (vtype v) q -> Q q)).
    { rewrite Forall_forall. split.
      - intros H q Hq. pose proof Hq as (p0' & s & _ & _ & Hs & _).
        apply (H (q, s)). apply (dom_spec b i p0 (vtype v) q s Hu). auto.
      - intros H [q s] Hin. apply (dom_spec b i p0 (vtype v) q s Hu) in Hin as [Hq _]. simpl. auto. }
    assert (HanyQ : Exists (fun ps : path * tree => Q (fst ps)) D <-> (exists q, in_dom ref b i (vtype v) q /\ Q q)).
    { rewrite Exists_exists. split.
      - intros ([q s] & Hin & H). apply (dom_spec b i p0 (vtype v) q s Hu) in Hin as [Hq _]. eauto.
      - intros (q & Hq & H). pose proof Hq as (p0' & s & _ & _ & Hs & _).
        exists (q, s). split; [apply (dom_spec b i p0 (vtype v) q s Hu); auto | assumption]. }
    rewrite Hr. destruct is_forall.
    - rewrite <- HallQ. destruct Hall as [[-> H]|[-> H]]; [left | right]; auto.
    - rewrite <- HanyQ. destruct Hany as [[-> H]|[-> H]]; [left | right]; auto.
  Qed.

  Lemma afree_assigned (a : asg) x : (forall v, In v (afree x) -> In v (keys a)) ->
    existsb (fun v => negb (dict_mem a v)) (afree x) = false.
  Proof.
    intro H. destruct (existsb (fun v => negb (dict_mem a v)) (afree x)) eqn:E; [|reflexivity].
    apply existsb_exists in E as (v & Hin & Hn). apply negb_true_iff in Hn.
    apply H in Hin. apply dict_mem_In in Hin. congruence.
  Qed.

  (* ---- the main theorem ---- *)
  Theorem eval_correct f : forall a b, inv a b -> wf (keys a) f ->
    (ev f a = Ok TT /\ models adenote ref b f) \/ (ev f a = Ok FF /\ ~ models adenote ref b f).
  Proof.
    induction f as [x|n args|n args|g IH|fs IH|fs IH|v i m body IH|v i m body IH|v body IH|v body IH]
      using formula_ind'; intros a b Hinv Hwf; simpl in Hwf; try contradiction.
    - destruct Hwf as [Hfv Hop]. simpl. rewrite (afree_assigned a x Hfv), Hop. simpl.
      apply Hatom; assumption.
    - simpl. apply spred_correct; assumption.
    - simpl. apply sempred_correct; assumption.
    - simpl. destruct (IH a b Hinv Hwf) as [[-> H]|[-> H]]; simpl; [right | left]; auto.
    - simpl.
      destruct (collect_decided (fun g => ev g a) (fun g => models adenote ref b g) fs) as (l & Hl & Hall & _).
      { intros g Hin. rewrite Forall_forall in IH. apply IH; [assumption | assumption|].
        clear - Hwf Hin. induction fs as [|x fs IHfs]; [contradiction|]. destruct Hwf as [Hx Hr].
        destruct Hin as [->|Hin]; auto. }
      rewrite Hl.
      assert (E : (fix all (l0 : list (formula A)) : Prop :=
                     match l0 with [] => True | x :: l' => models adenote ref b x /\ all l' end) fs
                  <-> Forall (fun g => models adenote ref b g) fs).
      { clear. induction fs as [|x fs IHfs]; [split; constructor|]. rewrite IHfs. split.
        - intros [H1 H2]. constructor; assumption.
        - intro H. inversion H. auto. }
      rewrite E. destruct Hall as [[-> H]|[-> H]]; [left | right]; auto.
    - simpl.
      destruct (collect_decided (fun g => ev g a) (fun g => models adenote ref b g) fs) as (l & Hl & _ & Hany).
      { intros g Hin. rewrite Forall_forall in IH. apply IH; [assumption | assumption|].
        clear - Hwf Hin. induction fs as [|x fs IHfs]; [contradiction|]. destruct Hwf as [Hx Hr].
        destruct Hin as [->|Hin]; auto. }
      rewrite Hl.
      assert (E : (fix any (l0 : list (formula A)) : Prop :=
                     match l0 with [] => False | x :: l' => models adenote ref b x \/ any l' end) fs
                  <-> Exists (fun g => models adenote ref b g) fs).
      { clear. induction fs as [|x fs IHfs]; [split; [contradiction | intro H; inversion H]|]. rewrite IHfs. split.
        - intros [H|H]; [apply Exists_cons_hd | apply Exists_cons_tl]; assumption.
        - intro H. inversion H; auto. }
      rewrite E. destruct Hany as [[-> H]|[-> H]]; [left | right]; auto.
    - destruct Hwf as (-> & Hi & Hfr & Hbody). simpl.
      apply (quant_correct true v i body a b Hinv Hi Hfr).
      intros a' b' Hinv' Hk. apply IH; [assumption|]. rewrite Hk. assumption.
    - destruct Hwf as (-> & Hi & Hfr & Hbody). simpl.
      apply (quant_correct false v i body a b Hinv Hi Hfr).
      intros a' b' Hinv' Hk. apply IH; [assumption|]. rewrite Hk. assumption.
  Qed.

  (* top level: empty dictionary, empty assignment *)
  Lemma inv_empty : inv [] env_empty.
  Proof. split; [constructor|]. split; [reflexivity | constructor]. Qed.

  Corollary eval_correct_top f : wf [] f ->
    (ev f [] = Ok TT <-> models adenote ref env_empty f) /\
    (ev f [] = Ok FF <-> ~ models adenote ref env_empty f) /\
    ev f [] <> Ok UU /\ (forall e, ev f [] <> Raise e).
  Proof.
    intro Hwf. destruct (eval_correct f [] env_empty inv_empty Hwf) as [[E H]|[E H]]; rewrite E.
    - repeat split; try tauto; try discriminate; try (intros; discriminate).
    - repeat split; try tauto; try discriminate; try (intros; discriminate).
  Qed.
End Correct.

(* ------------------------------------------------------------------ *)
(* the concrete atom family: its evaluation is its meaning              *)
(* ------------------------------------------------------------------ *)
Lemma nodup_vars_In v l : In v (nodup_vars l) <-> In v l.
Proof.
  induction l as [|w l IH]; simpl; [tauto|].
  destruct (existsb (var_eqb w) l) eqn:E.
  - rewrite IH. split; [auto|]. intros [<-|H]; [|assumption].
    apply existsb_exists in E as (u & Hu & Hw). apply var_eqb_eq in Hw. subst. assumption.
  - simpl. rewrite IH. tauto.
Qed.

Lemma find_unique {B} (g : B -> str) (l : list B) (e : B) :
  NoDup (map g l) -> In e l -> find (fun x => str_eqb (g x) (g e)) l = Some e.
Proof.
  induction l as [|x l IH]; simpl; intros Hnd Hin; [contradiction|].
  inversion Hnd as [|? ? Hn Hd]; subst. destruct Hin as [->|Hin].
  - rewrite str_eqb_refl. reflexivity.
  - destruct (str_eqb (g x) (g e)) eqn:E; [|auto].
    apply str_eqb_eq in E. exfalso. apply Hn. rewrite E. apply in_map. assumption.
Qed.

Section AtomSound.
  Variable ref : tree.

  Lemma by_name_get a b v p t : inv ref a b -> dict_get a v = Some (p, t) -> by_name a (vname v) = Some t.
  Proof.
    intros (Hn & _ & _) Hg. unfold by_name.
    pose proof (find_unique (fun kv : var * (path * tree) => vname (fst kv)) (rev a) (v, (p, t))) as H.
    simpl in H. rewrite H; [reflexivity | |].
    - rewrite map_rev. apply NoDup_rev. assumption.
    - apply -> in_rev. apply dict_get_In. assumption.
  Qed.

  Lemma sterm_sound a b x : inv ref a b -> (forall v, In v (sterm_vars x) -> In v (keys a)) ->
    exists u, sterm_val a x = Some u /\ forall w, sterm_den (tenv ref b) x w <-> w = u.
  Proof.
    intros Hinv Hv. destruct x as [v|s]; simpl.
    - destruct (inv_in_keys ref a b v Hinv (Hv v (or_introl eq_refl))) as (p & t & Hg).
      destruct (inv_get ref a b v p t Hinv Hg) as (Hs & _ & Hb).
      rewrite (by_name_get a b v p t Hinv Hg). exists (yield t). split; [reflexivity|].
      intro w. unfold tenv. rewrite Hb. simpl. rewrite Hs. split.
      + intros (t' & Ht & ->). inversion Ht. reflexivity.
      + intros ->. exists t. auto.
    - exists s. split; [reflexivity|]. tauto.
  Qed.

  Lemma cmp_eval_spec op x y : cmp_eval op x y = true <-> cmp_rel op x y.
  Proof.
    destruct op; simpl; rewrite ?negb_true_iff, ?Z.eqb_eq, ?Z.eqb_neq, ?Z.ltb_lt, ?Z.leb_le; lia.
  Qed.

  Theorem atom_sound x a b : inv ref a b -> (forall v, In v (atom_free x) -> In v (keys a)) ->
    (atom_eval x a = Ok TT /\ atom_denote x (tenv ref b)) \/
    (atom_eval x a = Ok FF /\ ~ atom_denote x (tenv ref b)).
  Proof.
    intros Hinv Hv. destruct x as [neg s t|op s n|bb]; simpl.
    - destruct (sterm_sound a b s Hinv) as (u & Eu & Hu).
      { intros v Hin. apply Hv. simpl. apply nodup_vars_In. apply in_app_iff. auto. }
      destruct (sterm_sound a b t Hinv) as (w & Ew & Hw).
      { intros v Hin. apply Hv. simpl. apply nodup_vars_In. apply in_app_iff. auto. }
      rewrite Eu, Ew. apply tv_bool_cases. split.
      + intro H. exists u, w. split; [apply Hu; reflexivity|]. split; [apply Hw; reflexivity|].
        destruct neg; rewrite ?xorb_true_l, ?xorb_false_l in H.
        * apply negb_true_iff in H. apply str_eqb_neq. assumption.
        * apply str_eqb_eq. assumption.
      + intros (u' & w' & Hu' & Hw' & H). apply Hu in Hu'. apply Hw in Hw'. subst.
        destruct neg; rewrite ?xorb_true_l, ?xorb_false_l.
        * apply negb_true_iff. apply str_eqb_neq. assumption.
        * apply str_eqb_eq. assumption.
    - destruct (sterm_sound a b s Hinv) as (u & Eu & Hu).
      { intros v Hin. apply Hv. simpl. assumption. }
      rewrite Eu. apply tv_bool_cases. rewrite cmp_eval_spec. split.
      + intro H. exists u. split; [apply Hu; reflexivity | assumption].
      + intros (u' & Hu' & H). apply Hu in Hu'. subst. assumption.
    - apply tv_bool_cases. tauto.
  Qed.
End AtomSound.

(* eval_correct for the concrete family: no premise about SMT atoms is left *)
Corollary eval_correct_atoms ref f :
  shape_ok ref = true -> is_openT ref = false -> uniq_ids ref -> narrow ref ->
  wf atom atom_free (fun _ => false) ref [] f ->
  (m_legacy ref f = Ok TT <-> models atom_denote ref env_empty f) /\
  (m_legacy ref f = Ok FF <-> ~ models atom_denote ref env_empty f) /\
  m_legacy ref f <> Ok UU /\ (forall e, m_legacy ref f <> Raise e).
Proof.
  intros Hs Hc Hu Hn Hwf. unfold m_legacy.
  apply (eval_correct_top atom atom_free (fun _ => false) atom_eval no_qmm no_reach no_count_open
           atom_denote ref Hs Hc Hu Hn); [|assumption].
  intros x a b Hinv Hv _. apply atom_sound; assumption.
Qed.

(* ------------------------------------------------------------------ *)
(* deciders for the hypotheses, used by the witnesses below             *)
(* ------------------------------------------------------------------ *)
Fixpoint nodupb (l : list N) : bool :=
  match l with [] => true | x :: l' => negb (existsb (N.eqb x) l') && nodupb l' end.
Lemma nodupb_spec l : nodupb l = true -> NoDup l.
Proof.
  induction l as [|x l IH]; simpl; intro H; [constructor|].
  apply andb_true_iff in H as [H1 H2]. constructor; [|auto].
  intro Hin. apply negb_true_iff in H1.
  assert (existsb (N.eqb x) l = true) by (apply existsb_exists; exists x; split; [assumption | apply N.eqb_refl]).
  congruence.
Qed.
Definition uniq_idsb (t : tree) : bool := nodupb (map (fun ps : path * tree => tid (snd ps)) (nodes t)).
Lemma uniq_idsb_spec t : uniq_idsb t = true -> uniq_ids t.
Proof. apply nodupb_spec. Qed.
Definition narrowb (t : tree) : bool := negb (wide_tree t).
Lemma narrowb_spec t : narrowb t = true -> narrow t.
Proof.
  unfold narrowb, wide_tree, narrow, K_wide. intros H p s Hin. apply negb_true_iff in H.
  destruct (trie_ok p) eqn:E; [reflexivity|].
  assert (existsb (fun ps : path * tree => negb (trie_ok (fst ps))) (nodes t) = true).
  { apply existsb_exists. exists (p, s). split; [assumption|]. simpl. rewrite E. reflexivity. }
  congruence.
Qed.

Lemma atom_dec_spec x e : atom_dec x e = true <-> atom_denote x e.
Proof.
  assert (Hget : forall s u, sterm_get e s = Some u <-> sterm_den e s u).
  { intros s u. destruct s as [v|s]; simpl.
    - destruct (e v) as [t|]; split.
      + intro H. inversion H. exists t. auto.
      + intros (t' & Ht & ->). inversion Ht. reflexivity.
      + discriminate.
      + intros (t' & Ht & _). discriminate.
    - split; intro H; [inversion H; reflexivity | subst; reflexivity]. }
  destruct x as [neg s t|op s n|bb]; simpl.
  - destruct (sterm_get e s) as [u|] eqn:Eu.
    + destruct (sterm_get e t) as [w|] eqn:Ew.
      * split.
        -- intro H. exists u, w. split; [apply Hget; assumption|]. split; [apply Hget; assumption|].
           destruct neg; rewrite ?xorb_true_l, ?xorb_false_l in H.
           ++ apply negb_true_iff in H. apply str_eqb_neq. assumption.
           ++ apply str_eqb_eq. assumption.
        -- intros (u' & w' & Hu' & Hw' & H). apply Hget in Hu'. apply Hget in Hw'.
           rewrite Eu in Hu'. rewrite Ew in Hw'. inversion Hu'. inversion Hw'. subst.
           destruct neg; rewrite ?xorb_true_l, ?xorb_false_l.
           ++ apply negb_true_iff. apply str_eqb_neq. assumption.
           ++ apply str_eqb_eq. assumption.
      * split; [discriminate|]. intros (u' & w' & _ & Hw' & _). apply Hget in Hw'. congruence.
    + split; [discriminate|]. intros (u' & w' & Hu' & _). apply Hget in Hu'. congruence.
  - destruct (sterm_get e s) as [u|] eqn:Eu.
    + rewrite cmp_eval_spec. split.
      * intro H. exists u. split; [apply Hget; assumption | assumption].
      * intros (u' & Hu' & H). apply Hget in Hu'. rewrite Eu in Hu'. inversion Hu'. subst. assumption.
    + split; [discriminate|]. intros (u' & Hu' & _). apply Hget in Hu'. congruence.
  - tauto.
Qed.

(* satb for the concrete family decides the specification semantics *)
Corollary s_sat_spec T cst f : shape_ok T = true -> no_numq f = true ->
  (s_sat T cst f = true <-> sat atom_denote T cst f).
Proof.
  intros Hs Hq. unfold s_sat, sat. apply (satb_spec atom atom_denote T atom_dec atom_dec_spec 0 f Hs Hq).
Qed.

(* ------------------------------------------------------------------ *)
(* witnesses (literals produced from the isla objects by the harness encoders) *)
(* ------------------------------------------------------------------ *)
Definition W_cst : var := (MkVar VConst [115;116;97;114;116]%N [60;115;116;97;114;116;62]%N).
Definition W1_tree : tree := (Node [60;115;116;97;114;116;62]%N 61%N false [(Node [60;114;111;119;62]%N 60%N false [(Node [60;99;62]%N 59%N false [(Node [48]%N 58%N false [])]); (Node [60;99;62]%N 57%N false [(Node [48]%N 56%N false [])]); (Node [60;99;62]%N 55%N false [(Node [48]%N 54%N false [])]); (Node [60;99;62]%N 53%N false [(Node [48]%N 52%N false [])]); (Node [60;99;62]%N 51%N false [(Node [48]%N 50%N false [])]); (Node [60;99;62]%N 49%N false [(Node [48]%N 48%N false [])]); (Node [60;99;62]%N 47%N false [(Node [48]%N 46%N false [])]); (Node [60;99;62]%N 45%N false [(Node [48]%N 44%N false [])]); (Node [60;99;62]%N 43%N false [(Node [48]%N 42%N false [])]); (Node [60;99;62]%N 41%N false [(Node [48]%N 40%N false [])]); (Node [60;99;62]%N 39%N false [(Node [48]%N 38%N false [])]); (Node [60;99;62]%N 37%N false [(Node [48]%N 36%N false [])]); (Node [60;99;62]%N 35%N false [(Node [48]%N 34%N false [])]); (Node [60;99;62]%N 33%N false [(Node [48]%N 32%N false [])]); (Node [60;99;62]%N 31%N false [(Node [48]%N 30%N false [])]); (Node [60;99;62]%N 29%N false [(Node [48]%N 28%N false [])]); (Node [60;99;62]%N 27%N false [(Node [48]%N 26%N false [])]); (Node [60;99;62]%N 25%N false [(Node [48]%N 24%N false [])]); (Node [60;99;62]%N 23%N false [(Node [48]%N 22%N false [])]); (Node [60;99;62]%N 21%N false [(Node [48]%N 20%N false [])]); (Node [60;99;62]%N 19%N false [(Node [48]%N 18%N false [])]); (Node [60;99;62]%N 17%N false [(Node [48]%N 16%N false [])]); (Node [60;99;62]%N 15%N false [(Node [48]%N 14%N false [])]); (Node [60;99;62]%N 13%N false [(Node [48]%N 12%N false [])]); (Node [60;99;62]%N 11%N false [(Node [48]%N 10%N false [])]); (Node [60;99;62]%N 9%N false [(Node [48]%N 8%N false [])]); (Node [60;99;62]%N 7%N false [(Node [48]%N 6%N false [])]); (Node [60;99;62]%N 5%N false [(Node [48]%N 4%N false [])]); (Node [60;99;62]%N 3%N false [(Node [49]%N 2%N false [])]); (Node [60;99;62]%N 1%N false [(Node [49]%N 0%N false [])])])]).
Definition W1_formula : formula atom := (FForall (MkVar VBound [120]%N [60;99;62]%N) (InTree (Node [60;115;116;97;114;116;62]%N 61%N false [(Node [60;114;111;119;62]%N 60%N false [(Node [60;99;62]%N 59%N false [(Node [48]%N 58%N false [])]); (Node [60;99;62]%N 57%N false [(Node [48]%N 56%N false [])]); (Node [60;99;62]%N 55%N false [(Node [48]%N 54%N false [])]); (Node [60;99;62]%N 53%N false [(Node [48]%N 52%N false [])]); (Node [60;99;62]%N 51%N false [(Node [48]%N 50%N false [])]); (Node [60;99;62]%N 49%N false [(Node [48]%N 48%N false [])]); (Node [60;99;62]%N 47%N false [(Node [48]%N 46%N false [])]); (Node [60;99;62]%N 45%N false [(Node [48]%N 44%N false [])]); (Node [60;99;62]%N 43%N false [(Node [48]%N 42%N false [])]); (Node [60;99;62]%N 41%N false [(Node [48]%N 40%N false [])]); (Node [60;99;62]%N 39%N false [(Node [48]%N 38%N false [])]); (Node [60;99;62]%N 37%N false [(Node [48]%N 36%N false [])]); (Node [60;99;62]%N 35%N false [(Node [48]%N 34%N false [])]); (Node [60;99;62]%N 33%N false [(Node [48]%N 32%N false [])]); (Node [60;99;62]%N 31%N false [(Node [48]%N 30%N false [])]); (Node [60;99;62]%N 29%N false [(Node [48]%N 28%N false [])]); (Node [60;99;62]%N 27%N false [(Node [48]%N 26%N false [])]); (Node [60;99;62]%N 25%N false [(Node [48]%N 24%N false [])]); (Node [60;99;62]%N 23%N false [(Node [48]%N 22%N false [])]); (Node [60;99;62]%N 21%N false [(Node [48]%N 20%N false [])]); (Node [60;99;62]%N 19%N false [(Node [48]%N 18%N false [])]); (Node [60;99;62]%N 17%N false [(Node [48]%N 16%N false [])]); (Node [60;99;62]%N 15%N false [(Node [48]%N 14%N false [])]); (Node [60;99;62]%N 13%N false [(Node [48]%N 12%N false [])]); (Node [60;99;62]%N 11%N false [(Node [48]%N 10%N false [])]); (Node [60;99;62]%N 9%N false [(Node [48]%N 8%N false [])]); (Node [60;99;62]%N 7%N false [(Node [48]%N 6%N false [])]); (Node [60;99;62]%N 5%N false [(Node [48]%N 4%N false [])]); (Node [60;99;62]%N 3%N false [(Node [49]%N 2%N false [])]); (Node [60;99;62]%N 1%N false [(Node [49]%N 0%N false [])])])])) None (FSmt (AStr false (SVar (MkVar VBound [120]%N [60;99;62]%N)) (SLit [48]%N)))).
(* evaluate: TRUE *)
Definition W2_tree : tree := (Node [60;115;116;97;114;116;62]%N 70%N false [(Node [60;115;116;109;116;62]%N 69%N false [(Node [60;97;115;115;103;110;62]%N 68%N false [(Node [60;118;97;114;62]%N 67%N false [(Node [121]%N 66%N false [])]); (Node [32;58;61;32]%N 65%N false []); (Node [60;114;104;115;62]%N 64%N false [(Node [60;118;97;114;62]%N 63%N false [(Node [120]%N 62%N false [])])])])])]).
Definition W2_formula : formula atom := (FForall (MkVar VBound [100]%N [60;100;105;103;105;116;62]%N) (InVar (MkVar VConst [115;116;97;114;116]%N [60;115;116;97;114;116;62]%N)) None (FSmt (ABool false))).
(* evaluate: TRUE since 0230f8f (was FALSE) *)
Definition E1_tree : tree := (Node [60;115;116;97;114;116;62]%N 88%N false [(Node [60;115;116;109;116;62]%N 87%N false [(Node [60;97;115;115;103;110;62]%N 86%N false [(Node [60;118;97;114;62]%N 85%N false [(Node [120]%N 84%N false [])]); (Node [32;58;61;32]%N 83%N false []); (Node [60;114;104;115;62]%N 82%N false [(Node [60;100;105;103;105;116;62]%N 81%N false [(Node [49]%N 80%N false [])])])]); (Node [32;59;32]%N 79%N false []); (Node [60;115;116;109;116;62]%N 78%N false [(Node [60;97;115;115;103;110;62]%N 77%N false [(Node [60;118;97;114;62]%N 76%N false [(Node [121]%N 75%N false [])]); (Node [32;58;61;32]%N 74%N false []); (Node [60;114;104;115;62]%N 73%N false [(Node [60;118;97;114;62]%N 72%N false [(Node [120]%N 71%N false [])])])])])])]).
Definition E1_formula : formula atom := (FForall (MkVar VBound [114]%N [60;114;104;115;62]%N) (InTree (Node [60;115;116;97;114;116;62]%N 88%N false [(Node [60;115;116;109;116;62]%N 87%N false [(Node [60;97;115;115;103;110;62]%N 86%N false [(Node [60;118;97;114;62]%N 85%N false [(Node [120]%N 84%N false [])]); (Node [32;58;61;32]%N 83%N false []); (Node [60;114;104;115;62]%N 82%N false [(Node [60;100;105;103;105;116;62]%N 81%N false [(Node [49]%N 80%N false [])])])]); (Node [32;59;32]%N 79%N false []); (Node [60;115;116;109;116;62]%N 78%N false [(Node [60;97;115;115;103;110;62]%N 77%N false [(Node [60;118;97;114;62]%N 76%N false [(Node [121]%N 75%N false [])]); (Node [32;58;61;32]%N 74%N false []); (Node [60;114;104;115;62]%N 73%N false [(Node [60;118;97;114;62]%N 72%N false [(Node [120]%N 71%N false [])])])])])])])) None (FExists (MkVar VBound [100]%N [60;97;115;115;103;110;62]%N) (InTree (Node [60;115;116;97;114;116;62]%N 88%N false [(Node [60;115;116;109;116;62]%N 87%N false [(Node [60;97;115;115;103;110;62]%N 86%N false [(Node [60;118;97;114;62]%N 85%N false [(Node [120]%N 84%N false [])]); (Node [32;58;61;32]%N 83%N false []); (Node [60;114;104;115;62]%N 82%N false [(Node [60;100;105;103;105;116;62]%N 81%N false [(Node [49]%N 80%N false [])])])]); (Node [32;59;32]%N 79%N false []); (Node [60;115;116;109;116;62]%N 78%N false [(Node [60;97;115;115;103;110;62]%N 77%N false [(Node [60;118;97;114;62]%N 76%N false [(Node [121]%N 75%N false [])]); (Node [32;58;61;32]%N 74%N false []); (Node [60;114;104;115;62]%N 73%N false [(Node [60;118;97;114;62]%N 72%N false [(Node [120]%N 71%N false [])])])])])])])) None (FAnd [(FSPred [105;110;115;105;100;101]%N [(PVar (MkVar VBound [114]%N [60;114;104;115;62]%N)); (PVar (MkVar VBound [100]%N [60;97;115;115;103;110;62]%N))]); (FOr [(FSmt (AStr false (SVar (MkVar VBound [114]%N [60;114;104;115;62]%N)) (SLit [49]%N))); (FOr [(FSPred [98;101;102;111;114;101]%N [(PVar (MkVar VBound [100]%N [60;97;115;115;103;110;62]%N)); (PVar (MkVar VBound [114]%N [60;114;104;115;62]%N))]); (FSemPred [99;111;117;110;116]%N [(PVar (MkVar VBound [100]%N [60;97;115;115;103;110;62]%N)); (PStr [60;118;97;114;62]%N); (PStr [50]%N)])])])]))).
(* evaluate: TRUE *)
Definition E2_formula : formula atom := (FForall (MkVar VBound [114]%N [60;114;104;115;62]%N) (InVar (MkVar VConst [115;116;97;114;116]%N [60;115;116;97;114;116;62]%N)) None (FExists (MkVar VBound [100]%N [60;97;115;115;103;110;62]%N) (InVar (MkVar VConst [115;116;97;114;116]%N [60;115;116;97;114;116;62]%N)) None (FAnd [(FSPred [105;110;115;105;100;101]%N [(PVar (MkVar VBound [114]%N [60;114;104;115;62]%N)); (PVar (MkVar VBound [100]%N [60;97;115;115;103;110;62]%N))]); (FSmt (AStr false (SVar (MkVar VBound [114]%N [60;114;104;115;62]%N)) (SLit [49]%N)))]))).
(* evaluate: FALSE *)

(* non-vacuity of eval_correct_atoms: the hypotheses hold on a real parse tree of the
   assignment language and an instantiated formula, and the verdict is TT *)
Example eval_correct_example :
  shape_ok E1_tree = true /\ is_openT E1_tree = false /\ uniq_ids E1_tree /\ narrow E1_tree /\
  wf atom atom_free (fun _ => false) E1_tree [] E1_formula /\ m_legacy E1_tree E1_formula = Ok TT.
Proof.
  split; [reflexivity|]. split; [reflexivity|].
  split; [apply uniq_idsb_spec; vm_compute; reflexivity|].
  split; [apply narrowb_spec; vm_compute; reflexivity|].
  split; [|vm_compute; reflexivity].
  simpl. unfold fresh_name, names2, arg_nt. simpl.
  repeat split; try reflexivity; try discriminate; try tauto; auto 10;
    try (intros w [<-|H]; [discriminate | try contradiction]);
    try (intros w H; contradiction).
Qed.

(* K_wide: with a node of 30 children the evaluator ignores the children at index >= 28:
   all hypotheses of eval_correct_atoms hold except `narrow`, the evaluator says TT, the
   specification says the formula does not hold (children 28 and 29 are "1", not "0"). *)
Theorem eval_wide_refuted :
  shape_ok W1_tree = true /\ is_openT W1_tree = false /\ uniq_ids W1_tree /\
  wf atom atom_free (fun _ => false) W1_tree [] W1_formula /\ wide_tree W1_tree = true /\
  m_legacy W1_tree W1_formula = Ok TT /\ ~ models atom_denote W1_tree env_empty W1_formula.
Proof.
  split; [reflexivity|]. split; [reflexivity|].
  split; [apply uniq_idsb_spec; vm_compute; reflexivity|].
  split.
  { simpl. unfold fresh_name. simpl. repeat split; try reflexivity; try tauto;
      try (intros v [<-|[]]; left; reflexivity). }
  split; [vm_compute; reflexivity|]. split; [vm_compute; reflexivity|].
  intro H. apply (satb_spec atom atom_denote W1_tree atom_dec atom_dec_spec 0 W1_formula
                    eq_refl eq_refl env_empty) in H.
  vm_compute in H. discriminate.
Qed.

(* Former finding K_vacuous_forall (fixed in /repo by 0230f8f): `forall <digit> d in start: false`
   on the tree of "y := x".  Instantiation used to drop the quantifier (verdict FF); the repaired
   code keeps it, and on this witness model and specification agree: there is no <digit>, the
   formula holds vacuously. *)
Theorem evaluate_vacuous_agrees :
  shape_ok W2_tree = true /\ is_openT W2_tree = false /\ uniq_ids W2_tree /\ narrow W2_tree /\
  m_evaluate W2_tree W_cst W2_formula = Ok TT /\ m_check W2_tree W_cst W2_formula = Ok true /\
  sat atom_denote W2_tree W_cst W2_formula.
Proof.
  split; [reflexivity|]. split; [reflexivity|].
  split; [apply uniq_idsb_spec; vm_compute; reflexivity|].
  split; [apply narrowb_spec; vm_compute; reflexivity|].
  split; [vm_compute; reflexivity|]. split; [vm_compute; reflexivity|].
  apply (s_sat_spec W2_tree W_cst W2_formula eq_refl eq_refl). vm_compute. reflexivity.
Qed.

(* K_mexpr_eps_shape: witnesses *)
Definition W3_tree : tree := (Node [60;115;116;97;114;116;62]%N 5%N false [(Node [60;97;62]%N 4%N false [(Node [60;99;62]%N 1%N false [(Node (@nil N) 0%N false [])]); (Node [60;98;62]%N 3%N false [(Node [122]%N 2%N false [])])])]).
Definition W3_formula : formula atom := (FExists (MkVar VBound [120]%N [60;97;62]%N) (InTree (Node [60;115;116;97;114;116;62]%N 5%N false [(Node [60;97;62]%N 4%N false [(Node [60;99;62]%N 1%N false [(Node (@nil N) 0%N false [])]); (Node [60;98;62]%N 3%N false [(Node [122]%N 2%N false [])])])])) (Some (MkMexpr [(MkVar VBound [118]%N [60;98;62]%N)] [((Node [60;97;62]%N 25%N false [(Node [60;99;62]%N 27%N false []); (Node [60;98;62]%N 28%N true [])]), [((MkVar VDummy [68;85;77;77;89;95;48]%N (@nil N)), [0]%nat); ((MkVar VBound [118]%N [60;98;62]%N), [1]%nat)])])) (FSmt (AStr false (SVar (MkVar VBound [118]%N [60;98;62]%N)) (SLit [122]%N)))).
(* evaluate: FALSE *)
Definition W3p_tree : tree := (Node [60;115;116;97;114;116;62]%N 10%N false [(Node [60;97;62]%N 9%N false [(Node [60;99;62]%N 8%N false []); (Node [60;98;62]%N 7%N false [(Node [122]%N 6%N false [])])])]).
Definition W3p_formula : formula atom := (FExists (MkVar VBound [120]%N [60;97;62]%N) (InTree (Node [60;115;116;97;114;116;62]%N 10%N false [(Node [60;97;62]%N 9%N false [(Node [60;99;62]%N 8%N false []); (Node [60;98;62]%N 7%N false [(Node [122]%N 6%N false [])])])])) (Some (MkMexpr [(MkVar VBound [118]%N [60;98;62]%N)] [((Node [60;97;62]%N 61%N false [(Node [60;99;62]%N 63%N false []); (Node [60;98;62]%N 64%N true [])]), [((MkVar VDummy [68;85;77;77;89;95;50]%N (@nil N)), [0]%nat); ((MkVar VBound [118]%N [60;98;62]%N), [1]%nat)])])) (FSmt (AStr false (SVar (MkVar VBound [118]%N [60;98;62]%N)) (SLit [122]%N)))).
(* evaluate: TRUE *)

(* does a match-expression prefix tree contain a CLOSED leaf labelled with a nonterminal
   (an epsilon-derived nonterminal of the match expression)? *)
Fixpoint has_closed_nt_leaf (t : tree) : bool :=
  match t with
  | Node l _ o ks => (negb o && is_nil ks && is_nt l) || existsb has_closed_nt_leaf ks
  end.
Definition K_mexpr_eps_shape := fix go (f : formula atom) : bool :=
  match f with
  | FSmt _ | FSPred _ _ | FSemPred _ _ => false
  | FNot g => go g
  | FAnd fs | FOr fs => existsb go fs
  | FForall _ _ m b | FExists _ _ m b =>
      match m with Some me => existsb (fun tp => has_closed_nt_leaf (fst tp)) (me_trees me) | None => false end
      || go b
  | FForallInt _ b | FExistsInt _ b => go b
  end.

(* Match expressions: the SAME derivation of "z" (with <c> -> epsilon) in its two ISLa
   representations — epsilon as `children = ()` (parser) and as a child labelled "" (fuzzer) —
   is judged differently by the evaluator for `exists <a> x="{<b> v}" in start: (= v "z")`;
   the specification's match accepts both (its prefix tree has the leaf <c> with no children,
   which constrains nothing).  language.match demands that the subject node has NO children. *)
Theorem mexpr_eps_shape_refuted :
  yield W3_tree = yield W3p_tree /\
  K_mexpr_eps_shape W3_formula = true /\
  m_legacy W3p_tree W3p_formula = Ok TT /\ models atom_denote W3p_tree env_empty W3p_formula /\
  m_legacy W3_tree W3_formula = Ok FF /\ models atom_denote W3_tree env_empty W3_formula.
Proof.
  split; [reflexivity|]. split; [vm_compute; reflexivity|].
  split; [vm_compute; reflexivity|].
  split; [apply (satb_spec atom atom_denote W3p_tree atom_dec atom_dec_spec 0 W3p_formula eq_refl eq_refl env_empty);
          vm_compute; reflexivity|].
  split; [vm_compute; reflexivity|].
  apply (satb_spec atom atom_denote W3_tree atom_dec atom_dec_spec 0 W3_formula eq_refl eq_refl env_empty).
  vm_compute. reflexivity.
Qed.


(* K_cons_rel (C04 finding consecutive-relative-paths, open): a formula using `consecutive` on two
   nodes that share a non-root prefix.  x, y, z are siblings below <b>; the evaluator says
   consecutive(x, z) although y lies between them. *)
Definition W4_tree : tree := cons_witness.
Definition W4_x : var := MkVar VBound [120]%N [120]%N.
Definition W4_z : var := MkVar VBound [122]%N [122]%N.
Definition W4_formula : formula atom :=
  FExists W4_x (InTree W4_tree) None
    (FExists W4_z (InTree W4_tree) None (FSPred s_consecutive [PVar W4_x; PVar W4_z])).

Theorem eval_consecutive_refuted :
  shape_ok W4_tree = true /\ is_openT W4_tree = false /\ uniq_ids W4_tree /\ narrow W4_tree /\
  K_cons_rel [1;0] [1;2] = true /\
  m_legacy W4_tree W4_formula = Ok TT /\ ~ models atom_denote W4_tree env_empty W4_formula.
Proof.
  split; [reflexivity|]. split; [reflexivity|].
  split; [apply uniq_idsb_spec; vm_compute; reflexivity|].
  split; [apply narrowb_spec; vm_compute; reflexivity|].
  split; [reflexivity|]. split; [vm_compute; reflexivity|].
  intro H. apply (satb_spec atom atom_denote W4_tree atom_dec atom_dec_spec 0 W4_formula
                    eq_refl eq_refl env_empty) in H.
  vm_compute in H. discriminate.
Qed.
