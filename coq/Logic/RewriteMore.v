(* C09 (proof extension) — capture avoidance of substitute_variables / ensure_unique_bound_variables
   for NAME-SENSITIVE interpretations.

   Specification side (written independently of the rewrites):
     * `nsem A D`: an interpretation whose states are assignments `env = var -> D`, keyed by the
       FULL variable (kind, name, type).  Atoms are denoted under an assignment; predicate
       formulas see the VALUES of their arguments; a tree quantifier `Q v in i (= m): b` ranges
       over a finite list of value tuples that depends on the value of `i`, the type of `v` and the
       kinds/types of the elements of `m` (not on names); each tuple is bound POSITIONALLY to the
       quantifier's own variables `q_bound v m`; numeric quantifiers range over a fixed list.
       `sem_of N` turns it into a `sem` of RewriteFacts.v, so `ev (sem_of N)` is the Tarski
       semantics with lexical scoping.
     * `atoms_rename O N afv`: the premises about the abstract atoms (z3): `afv a` are the free
       variables of atom a (coincidence), z3 substitution acts as composition on assignments, and
       it maps free variables along the renaming; true/false have no variables.
     * `fv`: free variables of a formula.

   Proofs: substitution lemma `subst_ev` (capture-free renaming = composition of the assignment),
   `rename_sound` (ensure_unique keeps the verdict on formulas without shadowing, by induction on
   the fuel using the freshness facts of FreshFacts.v), `unique_spine` (the output never re-binds
   a name in scope), and the refutation of global uniqueness across siblings. *)
From Coq Require Import List NArith Bool Arith Lia.
From ISLA Require Import Rewrite RewriteFacts FreshFacts.
Import ListNotations.

(* ---------- small list facts ---------- *)
Lemma filter_map_comm {X Y} (p : Y -> bool) (f : X -> Y) l :
  filter p (map f l) = map f (filter (fun x => p (f x)) l).
Proof.
  induction l as [|a l IH]; simpl; [reflexivity|]. destruct (p (f a)); simpl; now rewrite IH.
Qed.

Lemma In_uniq_vars x l : In x (uniq_vars l) <-> In x l.
Proof.
  induction l as [|a l IH]; simpl; [tauto|]. rewrite filter_In, IH. split.
  - intros [H|[H _]]; tauto.
  - intros [H|H]; [now left|]. destruct (var_eqb a x) eqn:E.
    + left. now apply var_eqb_eq.
    + right. split; [assumption|reflexivity].
Qed.

Lemma uniq_vars_map (r : var -> var) l :
  (forall x y, In x l -> In y l -> var_eqb (r x) (r y) = var_eqb x y) ->
  uniq_vars (map r l) = map r (uniq_vars l).
Proof.
  induction l as [|a l IH]; intros Hinj; simpl; [reflexivity|].
  rewrite IH by (intros x y Hx Hy; apply Hinj; now right).
  rewrite filter_map_comm. f_equal. f_equal. apply filter_ext_in.
  intros y Hy. rewrite Hinj; [reflexivity | now left | right; now apply In_uniq_vars].
Qed.

Lemma NoDup_map_inj_in {X Y} (f : X -> Y) l :
  NoDup (map f l) -> forall a b, In a l -> In b l -> f a = f b -> a = b.
Proof.
  induction l as [|x l IH]; intros Hnd a b Ha Hb Hab; [destruct Ha|].
  simpl in Hnd. inversion Hnd as [|y l' Hnot Hnd']. subst.
  destruct Ha as [Ha|Ha], Hb as [Hb|Hb]; subst.
  - reflexivity.
  - exfalso. apply Hnot. rewrite Hab. now apply in_map.
  - exfalso. apply Hnot. rewrite <- Hab. now apply in_map.
  - now apply IH.
Qed.

(* ---------- positional binding ---------- *)
Fixpoint index_of (y : var) (xs : list var) : option nat :=
  match xs with
  | [] => None
  | x :: xs' => if var_eqb x y then Some 0 else option_map S (index_of y xs')
  end.

Lemma index_of_none y xs : index_of y xs = None <-> ~ In y xs.
Proof.
  induction xs as [|x xs IH]; simpl; [tauto|].
  destruct (var_eqb x y) eqn:E.
  - apply var_eqb_eq in E. subst. split; [discriminate | intros H; exfalso; apply H; now left].
  - apply var_eqb_false in E. destruct (index_of y xs) as [k|]; simpl.
    + split; [discriminate|]. intros H. exfalso. destruct IH as [_ IH2].
      assert (Hn : ~ In y xs) by (intros Hin; apply H; now right). discriminate (IH2 Hn).
    + split; [|reflexivity]. intros _ [H|H]; [contradiction|]. destruct IH as [IH1 _]. now apply IH1.
Qed.

Lemma index_of_map (r : var -> var) y xs :
  (forall x, In x xs -> var_eqb (r x) (r y) = var_eqb x y) ->
  index_of (r y) (map r xs) = index_of y xs.
Proof.
  induction xs as [|x xs IH]; intros H; simpl; [reflexivity|].
  rewrite H by now left. rewrite IH by (intros z Hz; apply H; now right). reflexivity.
Qed.

Section NameSensitive.
  Variables A D : Type.
  Definition env := var -> D.

  Definition bindl (e : env) (xs : list var) (g : nat -> D) : env :=
    fun y => match index_of y xs with Some k => g k | None => e y end.
  Definition upd (e : env) (x : var) (d : D) : env := fun y => if var_eqb x y then d else e y.

  Inductive pval := PVd (d : D) | PVs (s : str) | PVt (t : tree).
  Definition arg_val (e : env) (a : parg) : pval :=
    match a with PVar v => PVd (e v) | PStr s => PVs s | PTree t => PVt t end.

  Definition mshape (m : option mexpr) : option (list (vkind * str)) :=
    option_map (fun x => map (fun v => (vk v, vtype v)) (me_elems x)) m.

  Record nsem := MkNSem {
    n_denote : env -> A -> bool;
    n_pred : bool -> str -> list pval -> bool;
    n_tree : tree -> D;
    n_dom : D -> str -> option (list (vkind * str)) -> list (nat -> D);
    n_idom : list D
  }.

  Definition in_val (N : nsem) (e : env) (i : invar) : D :=
    match i with InVar w => e w | InTree t => n_tree N t end.

  Definition sem_of (N : nsem) : sem A env :=
    MkSem A env (n_denote N)
      (fun e b n xs => n_pred N b n (map (arg_val e) xs))
      (fun e v i m => map (bindl e (q_bound v m)) (n_dom N (in_val N e i) (vtype v) (mshape m)))
      (fun e v => map (upd e v) (n_idom N)).

  (* premises about the abstract atoms *)
  Record atoms_rename (O : ops A) (N : nsem) (afv : A -> list var) : Prop := MkAR {
    ar_coinc : forall e1 e2 a, (forall x, In x (afv a) -> e1 x = e2 x) -> n_denote N e1 a = n_denote N e2 a;
    ar_subst : forall e rho a, n_denote N e (o_subst O rho a) = n_denote N (fun x => e (lookup rho x)) a;
    ar_fv : forall rho a x, In x (afv (o_subst O rho a)) -> exists y, In y (afv a) /\ x = lookup rho y;
    ar_true : afv (o_true O) = [];
    ar_false : afv (o_false O) = []
  }.

  (* free variables *)
  Definition parg_fv (a : parg) : list var := match a with PVar v => [v] | _ => [] end.
  Definition invar_fv (i : invar) : list var := match i with InVar v => [v] | _ => [] end.

  Fixpoint fv (afv : A -> list var) (f : formula A) : list var :=
    match f with
    | FSmt a => afv a
    | FSPred _ xs | FSemPred _ xs => flat_map parg_fv xs
    | FNot g => fv afv g
    | FAnd fs | FOr fs => flat_map (fv afv) fs
    | FForall v i m b | FExists v i m b =>
        invar_fv i ++ filter (fun x => negb (mem_var x (q_bound v m))) (fv afv b)
    | FForallInt v b | FExistsInt v b => filter (fun x => negb (var_eqb v x)) (fv afv b)
    end.

  (* the clause of atoms_sound about match expressions holds by construction *)
  Lemma dvar_eqb_shape a b : dvar_eqb a b = true ->
    (vk a, vtype a) = (vk b, vtype b) /\ (is_plain_bound a = true \/ is_plain_bound b = true -> a = b).
  Proof.
    unfold dvar_eqb, is_plain_bound. intros H.
    destruct (vk a) eqn:Ka, (vk b) eqn:Kb;
      try (apply var_eqb_eq in H; subst b; split; [congruence | intros _; reflexivity]).
    apply str_eqb_eq in H. rewrite H. split; [reflexivity|]. intros [C|C]; discriminate.
  Qed.

  Lemma mexpr_eqb_shape m n : omexpr_eqb m n = true ->
    mshape m = mshape n /\ mexpr_bvars m = mexpr_bvars n.
  Proof.
    destruct m as [m|], n as [n|]; simpl; try discriminate; [|intros _; split; reflexivity].
    unfold mexpr_eqb. destruct m as [em tm], n as [en tn]. simpl. clear tm tn.
    revert en. induction em as [|a em IH]; intros [|b en] H; simpl in H; try discriminate; [split; reflexivity|].
    apply andb_true_iff in H. destruct H as [Hab H]. destruct (IH _ H) as [IH1 IH2].
    destruct (dvar_eqb_shape _ _ Hab) as [Hs Hp]. simpl. split.
    - inversion IH1 as [IH1']. rewrite Hs. now rewrite IH1'.
    - destruct (is_plain_bound a) eqn:Pa.
      + rewrite <- (Hp (or_introl eq_refl)), Pa. now rewrite IH2.
      + destruct (is_plain_bound b) eqn:Pb; [|assumption].
        rewrite (Hp (or_intror eq_refl)) in Pa. congruence.
  Qed.

  Lemma sem_of_qdom_eq N e v i m m' : omexpr_eqb m m' = true ->
    s_qdom (sem_of N) e v i m = s_qdom (sem_of N) e v i m'.
  Proof.
    intros H. destruct (mexpr_eqb_shape _ _ H) as [Hs Hb]. simpl. unfold q_bound. now rewrite Hs, Hb.
  Qed.
End NameSensitive.

Arguments bindl {D}. Arguments upd {D}. Arguments arg_val {D}. Arguments in_val {A D}.
Arguments sem_of {A D}. Arguments n_denote {A D}. Arguments n_pred {A D}. Arguments n_tree {A D}.
Arguments n_dom {A D}. Arguments n_idom {A D}. Arguments fv {A}. Arguments atoms_rename {A D}.
Arguments ar_coinc {A D O N afv}. Arguments ar_subst {A D O N afv}. Arguments ar_fv {A D O N afv}.
Arguments ar_true {A D O N afv}. Arguments ar_false {A D O N afv}.

(* ---------- the results of & and | are among few shapes ---------- *)
Section Shapes.
  Variable A : Type.
  Variable O : ops A.
  Notation form := (formula A).

  Lemma and_cases (a b : form) :
    And O a b = a \/ And O a b = b \/ And O a b = FalseF O \/ And O a b = FAnd [a; b].
  Proof.
    unfold And, f_and.
    repeat match goal with |- context [if ?c then _ else _] => destruct c end; tauto.
  Qed.

  Lemma or_cases (a b : form) :
    Or O a b = a \/ Or O a b = b \/ Or O a b = TrueF O \/ Or O a b = FOr [a; b].
  Proof.
    unfold Or, f_or.
    repeat match goal with |- context [if ?c then _ else _] => destruct c end; tauto.
  Qed.

  Variable P : form -> Prop.
  Hypothesis P_true : P (TrueF O).
  Hypothesis P_false : P (FalseF O).
  Hypothesis P_and : forall a b, P a -> P b -> P (FAnd [a; b]).
  Hypothesis P_or : forall a b, P a -> P b -> P (FOr [a; b]).

  Lemma P_And a b : P a -> P b -> P (And O a b).
  Proof.
    intros Ha Hb. destruct (and_cases a b) as [H|[H|[H|H]]]; rewrite H; auto.
  Qed.
  Lemma P_Or a b : P a -> P b -> P (Or O a b).
  Proof.
    intros Ha Hb. destruct (or_cases a b) as [H|[H|[H|H]]]; rewrite H; auto.
  Qed.

  Lemma P_fold_and l : forall x, P x -> Forall P l -> P (fold_left (And O) l x).
  Proof.
    induction l as [|a l IH]; intros x Hx Hl; simpl; [assumption|].
    inversion Hl as [|a' l' Ha Hl']. subst. apply IH; [now apply P_And | assumption].
  Qed.
  Lemma P_fold_or l : forall x, P x -> Forall P l -> P (fold_left (Or O) l x).
  Proof.
    induction l as [|a l IH]; intros x Hx Hl; simpl; [assumption|].
    inversion Hl as [|a' l' Ha Hl']. subst. apply IH; [now apply P_Or | assumption].
  Qed.

  Lemma P_reduce_and l : Forall P l -> P (reduce1 A (And O) (TrueF O) l).
  Proof.
    intros Hl. destruct l as [|x l]; simpl; [assumption|].
    inversion Hl as [|a' l' Ha Hl']. subst. now apply P_fold_and.
  Qed.
  Lemma P_reduce_or l : Forall P l -> P (reduce1 A (Or O) (FalseF O) l).
  Proof.
    intros Hl. destruct l as [|x l]; simpl; [assumption|].
    inversion Hl as [|a' l' Ha Hl']. subst. now apply P_fold_or.
  Qed.
End Shapes.

Definition kt_preserving (r : var -> var) : Prop := forall z, vk (r z) = vk z /\ vtype (r z) = vtype z.

Lemma mexpr_bvars_subst rho m : kt_preserving (lookup rho) ->
  mexpr_bvars (option_map (subst_mexpr rho) m) = map (lookup rho) (mexpr_bvars m).
Proof.
  intros Hkt. destruct m as [m|]; simpl; [|reflexivity].
  rewrite filter_map_comm. f_equal. apply filter_ext. intros z. unfold is_plain_bound.
  now rewrite (proj1 (Hkt z)).
Qed.

Lemma mshape_subst rho m : kt_preserving (lookup rho) ->
  mshape (option_map (subst_mexpr rho) m) = mshape m.
Proof.
  intros Hkt. destruct m as [m|]; simpl; [|reflexivity]. f_equal. rewrite map_map.
  apply map_ext. intros z. destruct (Hkt z) as [H1 H2]. now rewrite H1, H2.
Qed.

Lemma q_bound_In x v m : In x (q_bound v m) <-> x = v \/ In x (mexpr_bvars m).
Proof. unfold q_bound. rewrite In_uniq_vars. simpl. split; intros [H|H]; auto. Qed.

Lemma q_bound_subst_id rho v m : kt_preserving (lookup rho) ->
  (forall w, w = v \/ In w (mexpr_bvars m) -> lookup rho w = w) ->
  q_bound (lookup rho v) (option_map (subst_mexpr rho) m) = q_bound v m.
Proof.
  intros Hkt Hid. unfold q_bound. rewrite (mexpr_bvars_subst _ _ Hkt).
  rewrite (Hid v (or_introl eq_refl)). f_equal. f_equal.
  rewrite <- (map_id (mexpr_bvars m)) at 2. apply map_ext_in. intros w Hw. apply Hid. now right.
Qed.


(* ---------- K_shadow (no quantifier re-binds a name in scope) ---------- *)
Lemma existsb_false_In {X} (p : X -> bool) l : existsb p l = false <-> (forall x, In x l -> p x = false).
Proof.
  induction l as [|a l IH]; simpl; [split; [intros _ x [] | reflexivity]|].
  rewrite orb_false_iff, IH. split.
  - intros [Ha Hl] x [Hx|Hx]; [now subst | now apply Hl].
  - intros H. split; [apply H; now left | intros x Hx; apply H; now right].
Qed.

Section Shadow.
  Variable A : Type.
  Variable O : ops A.
  Notation form := (formula A).
  Notation BV := (bvars A).

  Lemma K_shadow_names (f : form) : forall bnd, K_shadow bnd f = false ->
    forall w, In w (BV f) -> mem_str (vname w) bnd = false.
  Proof.
    induction f as [a|n xs|n xs|f IH|fs IH|fs IH|v i m b IH|v i m b IH|v b IH|v b IH] using formula_ind';
      intros bnd HK w Hw; simpl in Hw; try (now destruct Hw).
    - now apply (IH bnd).
    - simpl in HK. apply in_flat_map in Hw. destruct Hw as [g [Hg Hw]].
      apply (Forall_In _ _ IH g Hg bnd); [|assumption]. now apply (proj1 (existsb_false_In _ _) HK).
    - simpl in HK. apply in_flat_map in Hw. destruct Hw as [g [Hg Hw]].
      apply (Forall_In _ _ IH g Hg bnd); [|assumption]. now apply (proj1 (existsb_false_In _ _) HK).
    - cbn [K_shadow] in HK. apply orb_false_iff in HK. destruct HK as [H1 H2].
      assert (Hown : In w (q_bound v m) -> mem_str (vname w) bnd = false).
      { intros Hin. apply (proj1 (existsb_false_In _ _) H1). now apply in_map. }
      destruct Hw as [Hw|Hw]; [apply Hown; apply q_bound_In; now left|].
      apply in_app_or in Hw. destruct Hw as [Hw|Hw]; [apply Hown; apply q_bound_In; now right|].
      pose proof (IH _ H2 w Hw) as Hm. apply mem_str_false in Hm. apply mem_str_false.
      intros Hin. apply Hm. apply in_or_app. now right.
    - cbn [K_shadow] in HK. apply orb_false_iff in HK. destruct HK as [H1 H2].
      assert (Hown : In w (q_bound v m) -> mem_str (vname w) bnd = false).
      { intros Hin. apply (proj1 (existsb_false_In _ _) H1). now apply in_map. }
      destruct Hw as [Hw|Hw]; [apply Hown; apply q_bound_In; now left|].
      apply in_app_or in Hw. destruct Hw as [Hw|Hw]; [apply Hown; apply q_bound_In; now right|].
      pose proof (IH _ H2 w Hw) as Hm. apply mem_str_false in Hm. apply mem_str_false.
      intros Hin. apply Hm. apply in_or_app. now right.
    - cbn [K_shadow] in HK. apply orb_false_iff in HK. destruct HK as [H1 H2].
      destruct Hw as [Hw|Hw]; [now subst|].
      pose proof (IH _ H2 w Hw) as Hm. apply mem_str_false in Hm. apply mem_str_false.
      intros Hin. apply Hm. now right.
    - cbn [K_shadow] in HK. apply orb_false_iff in HK. destruct HK as [H1 H2].
      destruct Hw as [Hw|Hw]; [now subst|].
      pose proof (IH _ H2 w Hw) as Hm. apply mem_str_false in Hm. apply mem_str_false.
      intros Hin. apply Hm. now right.
  Qed.

  Lemma K_shadow_change (f : form) : forall bnd1 bnd2, K_shadow bnd1 f = false ->
    (forall w, In w (BV f) -> mem_str (vname w) bnd2 = false) -> K_shadow bnd2 f = false.
  Proof.
    induction f as [a|n xs|n xs|f IH|fs IH|fs IH|v i m b IH|v i m b IH|v b IH|v b IH] using formula_ind';
      intros bnd1 bnd2 HK Hn; try reflexivity.
    - simpl in *. now apply (IH bnd1).
    - simpl in *. apply existsb_false_In. intros g Hg. apply (Forall_In _ _ IH g Hg bnd1).
      + now apply (proj1 (existsb_false_In _ _) HK).
      + intros w Hw. apply Hn. apply in_flat_map. now exists g.
    - simpl in *. apply existsb_false_In. intros g Hg. apply (Forall_In _ _ IH g Hg bnd1).
      + now apply (proj1 (existsb_false_In _ _) HK).
      + intros w Hw. apply Hn. apply in_flat_map. now exists g.
    - cbn [K_shadow] in *. apply orb_false_iff in HK. destruct HK as [H1 H2]. apply orb_false_iff. split.
      + apply existsb_false_In. intros n Hin. apply in_map_iff in Hin. destruct Hin as [w [Hw Hin]]. subst n.
        apply Hn. apply q_bound_In in Hin. simpl. destruct Hin as [Hin|Hin]; [now left | right; apply in_or_app; now left].
      + apply (IH _ _ H2). intros w Hw. apply mem_str_false. intros Hin. apply in_app_or in Hin. destruct Hin as [Hin|Hin].
        * pose proof (K_shadow_names _ _ H2 w Hw) as Hm. apply mem_str_false in Hm. apply Hm. apply in_or_app. now left.
        * assert (Hm : mem_str (vname w) bnd2 = false) by (apply Hn; simpl; right; apply in_or_app; now right).
          apply mem_str_false in Hm. contradiction.
    - cbn [K_shadow] in *. apply orb_false_iff in HK. destruct HK as [H1 H2]. apply orb_false_iff. split.
      + apply existsb_false_In. intros n Hin. apply in_map_iff in Hin. destruct Hin as [w [Hw Hin]]. subst n.
        apply Hn. apply q_bound_In in Hin. simpl. destruct Hin as [Hin|Hin]; [now left | right; apply in_or_app; now left].
      + apply (IH _ _ H2). intros w Hw. apply mem_str_false. intros Hin. apply in_app_or in Hin. destruct Hin as [Hin|Hin].
        * pose proof (K_shadow_names _ _ H2 w Hw) as Hm. apply mem_str_false in Hm. apply Hm. apply in_or_app. now left.
        * assert (Hm : mem_str (vname w) bnd2 = false) by (apply Hn; simpl; right; apply in_or_app; now right).
          apply mem_str_false in Hm. contradiction.
    - cbn [K_shadow] in *. apply orb_false_iff in HK. destruct HK as [H1 H2]. apply orb_false_iff. split.
      + apply Hn. simpl. now left.
      + apply (IH _ _ H2). intros w Hw. apply mem_str_false. intros Hin. destruct Hin as [Hin|Hin].
        * pose proof (K_shadow_names _ _ H2 w Hw) as Hm. apply mem_str_false in Hm. apply Hm. now left.
        * assert (Hm : mem_str (vname w) bnd2 = false) by (apply Hn; simpl; now right).
          apply mem_str_false in Hm. contradiction.
    - cbn [K_shadow] in *. apply orb_false_iff in HK. destruct HK as [H1 H2]. apply orb_false_iff. split.
      + apply Hn. simpl. now left.
      + apply (IH _ _ H2). intros w Hw. apply mem_str_false. intros Hin. destruct Hin as [Hin|Hin].
        * pose proof (K_shadow_names _ _ H2 w Hw) as Hm. apply mem_str_false in Hm. apply Hm. now left.
        * assert (Hm : mem_str (vname w) bnd2 = false) by (apply Hn; simpl; now right).
          apply mem_str_false in Hm. contradiction.
  Qed.

  Lemma K_shadow_incl (f : form) bnd1 bnd2 : incl bnd1 bnd2 -> K_shadow bnd2 f = false -> K_shadow bnd1 f = false.
  Proof.
    intros Hi HK. apply (K_shadow_change f bnd2 bnd1 HK). intros w Hw.
    pose proof (K_shadow_names _ _ HK w Hw) as Hm. apply mem_str_false in Hm. apply mem_str_false.
    intros Hin. apply Hm. now apply Hi.
  Qed.

  Lemma K_shadow_subst rho : kt_preserving (lookup rho) -> forall (f : form),
    (forall w, In w (BV f) -> lookup rho w = w) ->
    forall bnd, K_shadow bnd f = false -> K_shadow bnd (Subst O rho f) = false.
  Proof.
    intros Hkt. unfold Subst.
    induction f as [a|n xs|n xs|f IH|fs IH|fs IH|v i m b IH|v i m b IH|v b IH|v b IH] using formula_ind';
      intros Hc1 bnd HK; try reflexivity.
    - simpl in *. now apply IH.
    - change (K_shadow bnd (reduce1 A (And O) (TrueF O) (map (Subst O rho) fs)) = false).
      apply (P_reduce_and A O (fun g => K_shadow bnd g = false)); try reflexivity.
      + intros a b Ha Hb. simpl. now rewrite Ha, Hb.
      + apply Forall_forall. intros g Hg. apply in_map_iff in Hg. destruct Hg as [a [Hga Hin]]. subst g.
        apply (Forall_In _ _ IH a Hin).
        * intros w Hw. apply Hc1. simpl. apply in_flat_map. now exists a.
        * simpl in HK. now apply (proj1 (existsb_false_In _ _) HK).
    - change (K_shadow bnd (reduce1 A (Or O) (FalseF O) (map (Subst O rho) fs)) = false).
      apply (P_reduce_or A O (fun g => K_shadow bnd g = false)); try reflexivity.
      + intros a b Ha Hb. simpl. now rewrite Ha, Hb.
      + apply Forall_forall. intros g Hg. apply in_map_iff in Hg. destruct Hg as [a [Hga Hin]]. subst g.
        apply (Forall_In _ _ IH a Hin).
        * intros w Hw. apply Hc1. simpl. apply in_flat_map. now exists a.
        * simpl in HK. now apply (proj1 (existsb_false_In _ _) HK).
    - cbn [subst_vars K_shadow] in *.
      assert (Hq : q_bound (lookup rho v) (option_map (subst_mexpr rho) m) = q_bound v m).
      { apply (q_bound_subst_id _ _ _ Hkt). intros w Hw. apply Hc1. simpl.
        destruct Hw as [Hw|Hw]; [now left | right; apply in_or_app; now left]. }
      rewrite Hq. apply orb_false_iff in HK. destruct HK as [H1 H2]. rewrite H1. simpl.
      apply IH; [|assumption]. intros w Hw. apply Hc1. simpl. right. apply in_or_app. now right.
    - cbn [subst_vars K_shadow] in *.
      assert (Hq : q_bound (lookup rho v) (option_map (subst_mexpr rho) m) = q_bound v m).
      { apply (q_bound_subst_id _ _ _ Hkt). intros w Hw. apply Hc1. simpl.
        destruct Hw as [Hw|Hw]; [now left | right; apply in_or_app; now left]. }
      rewrite Hq. apply orb_false_iff in HK. destruct HK as [H1 H2]. rewrite H1. simpl.
      apply IH; [|assumption]. intros w Hw. apply Hc1. simpl. right. apply in_or_app. now right.
    - cbn [subst_vars K_shadow] in *. rewrite (Hc1 v) by (simpl; now left).
      apply orb_false_iff in HK. destruct HK as [H1 H2]. rewrite H1. simpl.
      apply IH; [|assumption]. intros w Hw. apply Hc1. simpl. now right.
    - cbn [subst_vars K_shadow] in *. rewrite (Hc1 v) by (simpl; now left).
      apply orb_false_iff in HK. destruct HK as [H1 H2]. rewrite H1. simpl.
      apply IH; [|assumption]. intros w Hw. apply Hc1. simpl. now right.
  Qed.
End Shadow.

(* ---------- the renaming computed by fresh_vars ---------- *)
Section FreshRho.
  Variables (own : list var) (used1 : list str) (rho : list (var * var)) (used2 : list str).
  Hypothesis Hfv : fresh_vars own used1 = (rho, used2).
  Hypothesis Hown : forall x, In x own -> vk x = VBound.

  Lemma rho_out x : ~ In x own -> lookup rho x = x.
  Proof using Hfv.
    intros Hn. unfold lookup. destruct (find (fun p => var_eqb (fst p) x) rho) as [p|] eqn:Hf; [|reflexivity].
    exfalso. apply find_some in Hf. destruct Hf as [Hin Hx]. apply var_eqb_eq in Hx. apply Hn.
    destruct (fresh_vars_spec _ _ _ _ Hfv) as [H1 _]. rewrite <- H1, <- Hx. now apply in_map.
  Qed.

  Lemma rho_in x : In x own -> In (x, lookup rho x) rho.
  Proof using Hfv.
    intros Hin. destruct (fresh_vars_spec _ _ _ _ Hfv) as [H1 _]. rewrite <- H1 in Hin.
    apply in_map_iff in Hin. destruct Hin as [p [Hp Hin]].
    unfold lookup. destruct (find (fun p => var_eqb (fst p) x) rho) as [q|] eqn:Hf.
    - apply find_some in Hf. destruct Hf as [Hq Hx]. apply var_eqb_eq in Hx. destruct q as [q1 q2]. simpl in Hx. simpl. rewrite <- Hx. exact Hq.
    - exfalso. pose proof (find_none _ _ Hf p Hin) as Hc. simpl in Hc. rewrite Hp, var_eqb_refl in Hc. discriminate.
  Qed.

  Lemma rho_ok x : In x own ->
    (lookup rho x = x \/ (vk (lookup rho x) = VBound /\ vtype (lookup rho x) = vtype x)) /\
    ~ In (vname (lookup rho x)) used1.
  Proof using Hfv.
    intros Hin. pose proof (rho_in x Hin) as Hp.
    destruct (fresh_vars_spec _ _ _ _ Hfv) as [_ [_ [H3 [_ H5]]]]. split.
    - rewrite Forall_forall in H3. apply (H3 _ Hp).
    - apply H5. unfold img_names. apply in_map_iff. exists (x, lookup rho x). split; [reflexivity|assumption].
  Qed.

  Lemma rho_inj x y : In x own -> In y own -> lookup rho x = lookup rho y -> x = y.
  Proof using Hfv.
    intros Hx Hy Heq. destruct (fresh_vars_spec _ _ _ _ Hfv) as [_ [_ [_ [H4 _]]]].
    pose proof (NoDup_map_inj_in _ _ H4 _ _ (rho_in x Hx) (rho_in y Hy)) as Hpq. simpl in Hpq.
    rewrite Heq in Hpq. specialize (Hpq eq_refl). now inversion Hpq.
  Qed.

  Lemma rho_eqb x y : In x own -> In y own -> var_eqb (lookup rho x) (lookup rho y) = var_eqb x y.
  Proof using Hfv.
    intros Hx Hy. destruct (var_eqb x y) eqn:E.
    - apply var_eqb_eq in E. subst. apply var_eqb_refl.
    - apply var_eqb_false. intros Heq. apply var_eqb_false in E. apply E. now apply rho_inj.
  Qed.

  Lemma rho_kt : kt_preserving (lookup rho).
  Proof.
    intros z. destruct (mem_var z own) eqn:E.
    - apply mem_var_In in E. destruct (rho_ok z E) as [[H|[H1 H2]] _].
      + now rewrite H.
      + split; [|assumption]. rewrite H1. symmetry. now apply Hown.
    - apply mem_var_false in E. now rewrite (rho_out z E).
  Qed.

  Lemma rho_added : firstn (length used2 - length used1) used2 = rev (img_names rho).
  Proof using Hfv.
    destruct (fresh_vars_spec _ _ _ _ Hfv) as [_ [H2 _]]. rewrite H2.
    rewrite app_length, Nat.add_sub, firstn_app, Nat.sub_diag, firstn_all. simpl. now rewrite app_nil_r.
  Qed.

  Lemma rho_img_added x : In x own -> In (vname (lookup rho x)) (firstn (length used2 - length used1) used2).
  Proof using Hfv.
    intros Hin. rewrite rho_added. apply in_rev. rewrite rev_involutive. unfold img_names.
    apply in_map_iff. exists (x, lookup rho x). split; [reflexivity | now apply rho_in].
  Qed.

  Lemma rho_used2 : incl used1 used2.
  Proof using Hfv.
    destruct (fresh_vars_spec _ _ _ _ Hfv) as [_ [H2 _]]. rewrite H2. intros n Hn. apply in_or_app. now right.
  Qed.
End FreshRho.


(* ---------- unfolding equations of ensure_unique ---------- *)
Fixpoint ulist {A} (O : ops A) (k : nat) (l : list (formula A)) (u : list str)
  : option (list (formula A) * list str) :=
  match l with
  | [] => Some ([], u)
  | a :: l' =>
      match Unique O k a u with
      | Some (a', u') =>
          match ulist O k l' u' with
          | Some (r, u'') => Some (a' :: r, u'')
          | None => None
          end
      | None => None
      end
  end.

Section UniqueEq.
  Variable A : Type.
  Variable O : ops A.
  Notation form := (formula A).

  Lemma unique_and k (fs : list form) used :
    Unique O (S k) (FAnd fs) used =
    match ulist O k fs used with
    | Some (gs, u) => Some (reduce1 A (And O) (TrueF O) gs, u)
    | None => None
    end.
  Proof.
    unfold Unique. cbn [ensure_unique].
    match goal with |- match ?G fs used with _ => _ end = _ =>
      assert (HG : forall l u, G l u = ulist O k l u) end.
    { induction l as [|a l IHl]; intros u; [reflexivity|]. cbn [ulist]. unfold Unique.
      destruct (ensure_unique A (o_aeq O) (o_true O) (o_false O) (o_is_true O) (o_is_false O) (o_subst O) k a u)
        as [[a' u']|]; [|reflexivity]. now rewrite IHl. }
    rewrite HG. reflexivity.
  Qed.

  Lemma unique_or k (fs : list form) used :
    Unique O (S k) (FOr fs) used =
    match ulist O k fs used with
    | Some (gs, u) => Some (reduce1 A (Or O) (FalseF O) gs, u)
    | None => None
    end.
  Proof.
    unfold Unique. cbn [ensure_unique].
    match goal with |- match ?G fs used with _ => _ end = _ =>
      assert (HG : forall l u, G l u = ulist O k l u) end.
    { induction l as [|a l IHl]; intros u; [reflexivity|]. cbn [ulist]. unfold Unique.
      destruct (ensure_unique A (o_aeq O) (o_true O) (o_false O) (o_is_true O) (o_is_false O) (o_subst O) k a u)
        as [[a' u']|]; [|reflexivity]. now rewrite IHl. }
    rewrite HG. reflexivity.
  Qed.

  Definition quant_result (mk : var -> invar -> option mexpr -> form -> form) k v i m (b : form) used :=
    let own := q_bound v m in
    let used1 := names_not_in (uniq_vars (v :: mexpr_bvars m ++ bvars A b)) own ++ used in
    let (rho, used2) := fresh_vars own used1 in
    match Unique O k (Subst O rho b) (firstn (length used2 - length used1) used2 ++ used) with
    | Some (b'', _) => Some (mk (lookup rho v) (subst_invar rho i) (option_map (subst_mexpr rho) m) b'', used2)
    | None => None
    end.

  Lemma unique_forall k v i m (b : form) used :
    Unique O (S k) (FForall v i m b) used = quant_result (@FForall A) k v i m b used.
  Proof. reflexivity. Qed.
  Lemma unique_exists k v i m (b : form) used :
    Unique O (S k) (FExists v i m b) used = quant_result (@FExists A) k v i m b used.
  Proof. reflexivity. Qed.
End UniqueEq.


Fixpoint no_int_quant {A} (f : formula A) : bool :=
  match f with
  | FNot g => no_int_quant g
  | FAnd fs | FOr fs => forallb no_int_quant fs
  | FForall _ _ _ b | FExists _ _ _ b => no_int_quant b
  | FForallInt _ _ | FExistsInt _ _ => false
  | _ => true
  end.


Section Rename.
  Variables A D : Type.
  Variable O : ops A.
  Variable N : nsem A D.
  Variable afv : A -> list var.
  Hypothesis HS : atoms_sound O (sem_of N).
  Hypothesis HR : atoms_rename O N afv.
  Notation form := (formula A).
  Notation SM := (sem_of N).
  Notation EV := (ev (sem_of N)).
  Notation FV := (fv afv).
  Notation BV := (bvars A).

  Lemma fv_true : FV (TrueF O) = [].
  Proof. simpl. apply (ar_true HR). Qed.
  Lemma fv_false : FV (FalseF O) = [].
  Proof. simpl. apply (ar_false HR). Qed.

  (* ----- where the bound / free variables of a substituted formula come from ----- *)
  Lemma bvars_subst rho : kt_preserving (lookup rho) -> forall (f : form) w,
    In w (BV (Subst O rho f)) -> exists w0, In w0 (BV f) /\ w = lookup rho w0.
  Proof.
    intros Hkt. unfold Subst.
    induction f as [a|n xs|n xs|f IH|fs IH|fs IH|v i m b IH|v i m b IH|v b IH|v b IH] using formula_ind';
      intros w Hw; simpl in Hw; try (now destruct Hw).
    - now apply IH.
    - change (In w (BV (reduce1 A (And O) (TrueF O) (map (Subst O rho) fs)))) in Hw. revert w Hw.
      apply (P_reduce_and A O (fun g => forall w, In w (BV g) -> exists w0, In w0 (flat_map BV fs) /\ w = lookup rho w0)).
      + intros w [].
      + intros w [].
      + intros a b Ha Hb w Hw. simpl in Hw. rewrite app_nil_r in Hw. apply in_app_or in Hw. destruct Hw; auto.
      + apply Forall_forall. intros g Hg w Hw. apply in_map_iff in Hg. destruct Hg as [a [Hga Hin]]. subst g.
        destruct (Forall_In _ _ IH a Hin w Hw) as [w0 [Hw0 Hr]]. exists w0. split; [|assumption].
        apply in_flat_map. now exists a.
    - change (In w (BV (reduce1 A (Or O) (FalseF O) (map (Subst O rho) fs)))) in Hw. revert w Hw.
      apply (P_reduce_or A O (fun g => forall w, In w (BV g) -> exists w0, In w0 (flat_map BV fs) /\ w = lookup rho w0)).
      + intros w [].
      + intros w [].
      + intros a b Ha Hb w Hw. simpl in Hw. rewrite app_nil_r in Hw. apply in_app_or in Hw. destruct Hw; auto.
      + apply Forall_forall. intros g Hg w Hw. apply in_map_iff in Hg. destruct Hg as [a [Hga Hin]]. subst g.
        destruct (Forall_In _ _ IH a Hin w Hw) as [w0 [Hw0 Hr]]. exists w0. split; [|assumption].
        apply in_flat_map. now exists a.
    - rewrite (mexpr_bvars_subst _ _ Hkt) in Hw. destruct Hw as [Hw|Hw].
      + exists v. split; [now left | now symmetry].
      + apply in_app_or in Hw. destruct Hw as [Hw|Hw].
        * apply in_map_iff in Hw. destruct Hw as [w0 [Hr Hin]]. exists w0. split; [|now symmetry].
          right. apply in_or_app. now left.
        * destruct (IH w Hw) as [w0 [Hin Hr]]. exists w0. split; [|assumption]. right. apply in_or_app. now right.
    - rewrite (mexpr_bvars_subst _ _ Hkt) in Hw. destruct Hw as [Hw|Hw].
      + exists v. split; [now left | now symmetry].
      + apply in_app_or in Hw. destruct Hw as [Hw|Hw].
        * apply in_map_iff in Hw. destruct Hw as [w0 [Hr Hin]]. exists w0. split; [|now symmetry].
          right. apply in_or_app. now left.
        * destruct (IH w Hw) as [w0 [Hin Hr]]. exists w0. split; [|assumption]. right. apply in_or_app. now right.
    - destruct Hw as [Hw|Hw].
      + exists v. split; [now left | now symmetry].
      + destruct (IH w Hw) as [w0 [Hin Hr]]. exists w0. split; [now right | assumption].
    - destruct Hw as [Hw|Hw].
      + exists v. split; [now left | now symmetry].
      + destruct (IH w Hw) as [w0 [Hin Hr]]. exists w0. split; [now right | assumption].
  Qed.
  Lemma q_bound_subst_In rho v m y : kt_preserving (lookup rho) -> In y (q_bound v m) ->
    In (lookup rho y) (q_bound (lookup rho v) (option_map (subst_mexpr rho) m)).
  Proof.
    intros Hkt Hy. apply q_bound_In in Hy. apply q_bound_In. destruct Hy as [Hy|Hy]; [left; now subst|].
    right. rewrite (mexpr_bvars_subst _ _ Hkt). now apply in_map.
  Qed.

  Lemma fv_subst rho : kt_preserving (lookup rho) -> forall (f : form) x,
    In x (FV (Subst O rho f)) -> exists y, In y (FV f) /\ x = lookup rho y.
  Proof.
    intros Hkt. unfold Subst.
    assert (Hargs : forall xs x, In x (flat_map parg_fv (map (subst_parg rho) xs)) ->
              exists y, In y (flat_map parg_fv xs) /\ x = lookup rho y).
    { intros xs x Hx. apply in_flat_map in Hx. destruct Hx as [a' [Ha' Hx]].
      apply in_map_iff in Ha'. destruct Ha' as [a0 [Hs Hin]]. subst a'.
      destruct a0 as [v|s|t]; simpl in Hx; try (now destruct Hx).
      destruct Hx as [Hx|[]]. exists v. split; [|now symmetry]. apply in_flat_map. exists (PVar v). split; [assumption|now left]. }
    induction f as [a|n xs|n xs|f IH|fs IH|fs IH|v i m b IH|v i m b IH|v b IH|v b IH] using formula_ind';
      intros x Hx; cbn [subst_vars fv] in Hx.
    - apply (ar_fv HR _ _ _ Hx).
    - now apply Hargs.
    - now apply Hargs.
    - now apply IH.
    - change (In x (FV (reduce1 A (And O) (TrueF O) (map (Subst O rho) fs)))) in Hx. revert x Hx.
      apply (P_reduce_and A O (fun g => forall x, In x (FV g) -> exists y, In y (flat_map FV fs) /\ x = lookup rho y)).
      + intros x Hx. rewrite fv_true in Hx. destruct Hx.
      + intros x Hx. rewrite fv_false in Hx. destruct Hx.
      + intros a b Ha Hb x Hx. simpl in Hx. rewrite app_nil_r in Hx. apply in_app_or in Hx. destruct Hx; auto.
      + apply Forall_forall. intros g Hg x Hx. apply in_map_iff in Hg. destruct Hg as [a [Hga Hin]]. subst g.
        destruct (Forall_In _ _ IH a Hin x Hx) as [y [Hy Hr]]. exists y. split; [|assumption].
        apply in_flat_map. now exists a.
    - change (In x (FV (reduce1 A (Or O) (FalseF O) (map (Subst O rho) fs)))) in Hx. revert x Hx.
      apply (P_reduce_or A O (fun g => forall x, In x (FV g) -> exists y, In y (flat_map FV fs) /\ x = lookup rho y)).
      + intros x Hx. rewrite fv_true in Hx. destruct Hx.
      + intros x Hx. rewrite fv_false in Hx. destruct Hx.
      + intros a b Ha Hb x Hx. simpl in Hx. rewrite app_nil_r in Hx. apply in_app_or in Hx. destruct Hx; auto.
      + apply Forall_forall. intros g Hg x Hx. apply in_map_iff in Hg. destruct Hg as [a [Hga Hin]]. subst g.
        destruct (Forall_In _ _ IH a Hin x Hx) as [y [Hy Hr]]. exists y. split; [|assumption].
        apply in_flat_map. now exists a.
    - apply in_app_or in Hx. destruct Hx as [Hx|Hx].
      + destruct i as [z|t]; simpl in Hx; [|destruct Hx]. destruct Hx as [Hx|[]].
        exists z. split; [|now symmetry]. apply in_or_app. left. now left.
      + apply filter_In in Hx. destruct Hx as [Hx Hm]. destruct (IH x Hx) as [y [Hy Hr]].
        exists y. split; [|assumption]. apply in_or_app. right. apply filter_In. split; [assumption|].
        destruct (mem_var y (q_bound v m)) eqn:E; [|reflexivity]. exfalso.
        apply mem_var_In in E. apply (q_bound_subst_In rho _ _ _ Hkt) in E. rewrite <- Hr in E.
        apply mem_var_In in E. rewrite E in Hm. discriminate.
    - apply in_app_or in Hx. destruct Hx as [Hx|Hx].
      + destruct i as [z|t]; simpl in Hx; [|destruct Hx]. destruct Hx as [Hx|[]].
        exists z. split; [|now symmetry]. apply in_or_app. left. now left.
      + apply filter_In in Hx. destruct Hx as [Hx Hm]. destruct (IH x Hx) as [y [Hy Hr]].
        exists y. split; [|assumption]. apply in_or_app. right. apply filter_In. split; [assumption|].
        destruct (mem_var y (q_bound v m)) eqn:E; [|reflexivity]. exfalso.
        apply mem_var_In in E. apply (q_bound_subst_In rho _ _ _ Hkt) in E. rewrite <- Hr in E.
        apply mem_var_In in E. rewrite E in Hm. discriminate.
    - apply filter_In in Hx. destruct Hx as [Hx Hm]. destruct (IH x Hx) as [y [Hy Hr]].
      exists y. split; [|assumption]. apply filter_In. split; [assumption|].
      destruct (var_eqb v y) eqn:E; [|reflexivity]. apply var_eqb_eq in E. subst y. subst x.
      rewrite var_eqb_refl in Hm. discriminate.
    - apply filter_In in Hx. destruct Hx as [Hx Hm]. destruct (IH x Hx) as [y [Hy Hr]].
      exists y. split; [|assumption]. apply filter_In. split; [assumption|].
      destruct (var_eqb v y) eqn:E; [|reflexivity]. apply var_eqb_eq in E. subst y. subst x.
      rewrite var_eqb_refl in Hm. discriminate.
  Qed.

  (* ----- substitution lemma: a capture-free renaming is composition of the assignment ----- *)
  Theorem subst_ev rho : kt_preserving (lookup rho) -> forall (f : form),
    (forall w, In w (BV f) -> lookup rho w = w) ->
    (forall z, In (lookup rho z) (BV f) -> lookup rho z = z) ->
    forall e e', (forall x, In x (FV f) -> e' x = e (lookup rho x)) ->
    EV e (Subst O rho f) = EV e' f.
  Proof.
    intros Hkt. unfold Subst.
    assert (Hargs : forall xs (e e' : env D), (forall x, In x (flat_map parg_fv xs) -> e' x = e (lookup rho x)) ->
              map (arg_val e) (map (subst_parg rho) xs) = map (arg_val e') xs).
    { intros xs e e' Hag. rewrite map_map. apply map_ext_in. intros a Ha.
      destruct a as [v|s|t]; simpl; try reflexivity. f_equal. symmetry. apply Hag.
      apply in_flat_map. exists (PVar v). split; [assumption | now left]. }
    induction f as [a|n xs|n xs|f IH|fs IH|fs IH|v i m b IH|v i m b IH|v b IH|v b IH] using formula_ind';
      intros Hc1 Hc2 e e' Hag.
    - simpl. rewrite (ar_subst HR). apply (ar_coinc HR). intros x Hx. symmetry. now apply Hag.
    - simpl. f_equal. now apply Hargs.
    - simpl. f_equal. now apply Hargs.
    - simpl. f_equal. now apply IH.
    - change (EV e (reduce1 A (And O) (TrueF O) (map (Subst O rho) fs)) = forallb (fun x => EV e' x) fs).
      rewrite (reduce_and_sound A _ O SM HS), forallb_map. apply forallb_ext_in. intros x Hin.
      apply (Forall_In _ _ IH x Hin).
      + intros w Hw. apply Hc1. simpl. apply in_flat_map. now exists x.
      + intros z Hz. apply Hc2. simpl. apply in_flat_map. now exists x.
      + intros y Hy. apply Hag. simpl. apply in_flat_map. now exists x.
    - change (EV e (reduce1 A (Or O) (FalseF O) (map (Subst O rho) fs)) = existsb (fun x => EV e' x) fs).
      rewrite (reduce_or_sound A _ O SM HS), existsb_map. apply existsb_ext_in. intros x Hin.
      apply (Forall_In _ _ IH x Hin).
      + intros w Hw. apply Hc1. simpl. apply in_flat_map. now exists x.
      + intros z Hz. apply Hc2. simpl. apply in_flat_map. now exists x.
      + intros y Hy. apply Hag. simpl. apply in_flat_map. now exists x.
    - cbn [subst_vars ev s_qdom sem_of].
      assert (Hq : q_bound (lookup rho v) (option_map (subst_mexpr rho) m) = q_bound v m).
      { apply (q_bound_subst_id _ _ _ Hkt). intros w Hw. apply Hc1. simpl.
        destruct Hw as [Hw|Hw]; [now left | right; apply in_or_app; now left]. }
      assert (Hi : in_val N e (subst_invar rho i) = in_val N e' i).
      { destruct i as [z|t]; simpl; [|reflexivity]. symmetry. apply Hag. simpl. now left. }
      rewrite Hq, Hi, (mshape_subst _ _ Hkt), (proj2 (Hkt v)). rewrite !forallb_map.
      apply forallb_ext_in. intros g _. apply IH.
      + intros w Hw. apply Hc1. simpl. right. apply in_or_app. now right.
      + intros z Hz. apply Hc2. simpl. right. apply in_or_app. now right.
      + intros x Hx. unfold bindl. destruct (index_of x (q_bound v m)) as [k|] eqn:Ei.
        * assert (Hin : In x (q_bound v m)).
          { destruct (in_dec (fun a b => match var_eqb a b as c return var_eqb a b = c -> {a = b} + {a <> b} with
                                         | true => fun h => left (var_eqb_eq _ _ h)
                                         | false => fun h => right (proj1 (var_eqb_false _ _) h) end eq_refl)
                             x (q_bound v m)) as [Hy|Hn]; [assumption|].
            apply index_of_none in Hn. congruence. }
          rewrite Hc1; [now rewrite Ei|]. apply q_bound_In in Hin. simpl.
          destruct Hin as [Hin|Hin]; [now left | right; apply in_or_app; now left].
        * assert (Hnin : ~ In x (q_bound v m)) by now apply index_of_none.
          assert (Hr : index_of (lookup rho x) (q_bound v m) = None).
          { apply index_of_none. intros Hin. apply Hnin.
            assert (Hxx : lookup rho x = x).
            { apply Hc2. apply q_bound_In in Hin. simpl.
              destruct Hin as [Hin|Hin]; [now left | right; apply in_or_app; now left]. }
            now rewrite <- Hxx. }
          rewrite Hr. apply Hag. cbn [fv]. apply in_or_app. right. apply filter_In. split; [assumption|].
          apply negb_true_iff. now apply mem_var_false.
    - cbn [subst_vars ev s_qdom sem_of].
      assert (Hq : q_bound (lookup rho v) (option_map (subst_mexpr rho) m) = q_bound v m).
      { apply (q_bound_subst_id _ _ _ Hkt). intros w Hw. apply Hc1. simpl.
        destruct Hw as [Hw|Hw]; [now left | right; apply in_or_app; now left]. }
      assert (Hi : in_val N e (subst_invar rho i) = in_val N e' i).
      { destruct i as [z|t]; simpl; [|reflexivity]. symmetry. apply Hag. simpl. now left. }
      rewrite Hq, Hi, (mshape_subst _ _ Hkt), (proj2 (Hkt v)). rewrite !existsb_map.
      apply existsb_ext_in. intros g _. apply IH.
      + intros w Hw. apply Hc1. simpl. right. apply in_or_app. now right.
      + intros z Hz. apply Hc2. simpl. right. apply in_or_app. now right.
      + intros x Hx. unfold bindl. destruct (index_of x (q_bound v m)) as [k|] eqn:Ei.
        * assert (Hin : In x (q_bound v m)).
          { destruct (in_dec (fun a b => match var_eqb a b as c return var_eqb a b = c -> {a = b} + {a <> b} with
                                         | true => fun h => left (var_eqb_eq _ _ h)
                                         | false => fun h => right (proj1 (var_eqb_false _ _) h) end eq_refl)
                             x (q_bound v m)) as [Hy|Hn]; [assumption|].
            apply index_of_none in Hn. congruence. }
          rewrite Hc1; [now rewrite Ei|]. apply q_bound_In in Hin. simpl.
          destruct Hin as [Hin|Hin]; [now left | right; apply in_or_app; now left].
        * assert (Hnin : ~ In x (q_bound v m)) by now apply index_of_none.
          assert (Hr : index_of (lookup rho x) (q_bound v m) = None).
          { apply index_of_none. intros Hin. apply Hnin.
            assert (Hxx : lookup rho x = x).
            { apply Hc2. apply q_bound_In in Hin. simpl.
              destruct Hin as [Hin|Hin]; [now left | right; apply in_or_app; now left]. }
            now rewrite <- Hxx. }
          rewrite Hr. apply Hag. cbn [fv]. apply in_or_app. right. apply filter_In. split; [assumption|].
          apply negb_true_iff. now apply mem_var_false.
    - cbn [subst_vars ev s_idom sem_of]. rewrite (Hc1 v) by (simpl; now left). rewrite !forallb_map.
      apply forallb_ext_in. intros d _. apply IH.
      + intros w Hw. apply Hc1. simpl. now right.
      + intros z Hz. apply Hc2. simpl. now right.
      + intros x Hx. unfold upd. destruct (var_eqb v x) eqn:E.
        * apply var_eqb_eq in E. subst x. rewrite (Hc1 v) by (simpl; now left). now rewrite var_eqb_refl.
        * assert (Hr : var_eqb v (lookup rho x) = false).
          { apply var_eqb_false. intros Heq. apply var_eqb_false in E. apply E.
            rewrite Heq. apply Hc2. rewrite <- Heq. simpl. now left. }
          rewrite Hr. apply Hag. simpl. apply filter_In. split; [assumption|]. now rewrite E.
    - cbn [subst_vars ev s_idom sem_of]. rewrite (Hc1 v) by (simpl; now left). rewrite !existsb_map.
      apply existsb_ext_in. intros d _. apply IH.
      + intros w Hw. apply Hc1. simpl. now right.
      + intros z Hz. apply Hc2. simpl. now right.
      + intros x Hx. unfold upd. destruct (var_eqb v x) eqn:E.
        * apply var_eqb_eq in E. subst x. rewrite (Hc1 v) by (simpl; now left). now rewrite var_eqb_refl.
        * assert (Hr : var_eqb v (lookup rho x) = false).
          { apply var_eqb_false. intros Heq. apply var_eqb_false in E. apply E.
            rewrite Heq. apply Hc2. rewrite <- Heq. simpl. now left. }
          rewrite Hr. apply Hag. simpl. apply filter_In. split; [assumption|]. now rewrite E.
  Qed.

  (* ----- invariants of the recursion ----- *)
  Definition binders_bound (f : form) : Prop := forall w, In w (BV f) -> vk w = VBound.
  (* every free plain bound variable of f has its name in `bound` (the names in scope) *)
  Definition scoped (bound : list str) (f : form) : Prop :=
    forall x, In x (FV f) -> vk x = VBound -> In (vname x) bound.

  Lemma quant_step v i m (b : form) bound used rho used2 :
    let own := q_bound v m in
    let used1 := names_not_in (uniq_vars (v :: mexpr_bvars m ++ BV b)) own ++ used in
    fresh_vars own used1 = (rho, used2) ->
    (forall w, In w (v :: mexpr_bvars m ++ BV b) -> vk w = VBound) ->
    existsb (fun n => mem_str n bound) (map vname own) = false ->
    K_shadow (map vname own ++ bound) b = false ->
    (forall x, In x (invar_fv i ++ filter (fun x => negb (mem_var x own)) (FV b)) ->
               vk x = VBound -> In (vname x) bound) ->
    incl bound used ->
    let r := lookup rho in
    let bound' := map vname (map r own) ++ bound in
    kt_preserving r /\
    q_bound (r v) (option_map (subst_mexpr rho) m) = map r own /\
    subst_invar rho i = i /\
    (forall e g, EV (bindl e (map r own) g) (Subst O rho b) = EV (bindl e own g) b) /\
    binders_bound (Subst O rho b) /\
    K_shadow bound' (Subst O rho b) = false /\
    scoped bound' (Subst O rho b) /\
    incl bound' (firstn (length used2 - length used1) used2 ++ used).
  Proof.
    intros own used1 Hfv Hbb Hnb HKb Hsc Hbu r bound'. subst r.
    assert (HownB : forall x, In x own -> vk x = VBound).
    { intros x Hx. apply q_bound_In in Hx. apply Hbb. simpl.
      destruct Hx as [Hx|Hx]; [now left | right; apply in_or_app; now left]. }
    pose proof (rho_kt own used1 rho used2 Hfv HownB) as Hkt.
    assert (Fa : forall w, In w (BV b) -> ~ In w own).
    { intros w Hw Hin. pose proof (K_shadow_names A b _ HKb w Hw) as Hm. apply mem_str_false in Hm.
      apply Hm. apply in_or_app. left. now apply in_map. }
    assert (Fb : forall w, In w (BV b) -> lookup rho w = w).
    { intros w Hw. apply (rho_out own used1 rho used2 Hfv). now apply Fa. }
    assert (Fc : forall w, In w (BV b) -> In (vname w) used1).
    { intros w Hw. unfold used1. apply in_or_app. left. unfold names_not_in. apply in_map. apply filter_In. split.
      - apply In_uniq_vars. right. apply in_or_app. now right.
      - apply negb_true_iff. apply mem_var_false. now apply Fa. }
    assert (Fd : forall z, In (lookup rho z) (BV b) -> lookup rho z = z).
    { intros z Hz. destruct (mem_var z own) eqn:E.
      - apply mem_var_In in E. destruct (rho_ok own used1 rho used2 Hfv z E) as [_ Hn].
        exfalso. apply Hn. now apply Fc.
      - apply mem_var_false in E. now apply (rho_out own used1 rho used2 Hfv). }
    assert (Hu1 : incl used used1).
    { intros n Hn. unfold used1. apply in_or_app. now right. }
    assert (Fe : forall x, In x (FV b) -> ~ In x own -> ~ In x (map (lookup rho) own)).
    { intros x Hx Hnin Hin. apply in_map_iff in Hin. destruct Hin as [y [Hy Hyo]].
      destruct (rho_ok own used1 rho used2 Hfv y Hyo) as [[Hk|[Hk _]] Hn].
      - apply Hnin. rewrite <- Hy, Hk. assumption.
      - apply Hn. apply Hu1. apply Hbu. rewrite Hy. apply Hsc.
        + apply in_or_app. right. apply filter_In. split; [assumption|].
          apply negb_true_iff. now apply mem_var_false.
        + rewrite <- Hy. exact Hk. }
    split; [exact Hkt|]. split; [|split; [|split; [|split; [|split; [|split]]]]].
    - unfold own, q_bound. rewrite (mexpr_bvars_subst _ _ Hkt).
      change (lookup rho v :: map (lookup rho) (mexpr_bvars m)) with (map (lookup rho) (v :: mexpr_bvars m)).
      apply uniq_vars_map. intros x y Hx Hy.
      apply (rho_eqb own used1 rho used2 Hfv).
      + apply (proj2 (q_bound_In x v m)). destruct Hx as [Hx|Hx]; [left; now symmetry | now right].
      + apply (proj2 (q_bound_In y v m)). destruct Hy as [Hy|Hy]; [left; now symmetry | now right].
    - destruct i as [z|t]; simpl; [|reflexivity]. f_equal. apply (rho_out own used1 rho used2 Hfv).
      intros Hin.
      assert (Hzb : In (vname z) bound).
      { apply Hsc; [simpl; now left | now apply HownB]. }
      pose proof (proj1 (existsb_false_In _ _) Hnb (vname z) (in_map vname _ _ Hin)) as Hm.
      apply mem_str_false in Hm. contradiction.
    - intros e g. apply (subst_ev rho Hkt b Fb Fd). intros x Hx. unfold bindl.
      destruct (mem_var x own) eqn:E.
      + apply mem_var_In in E.
        rewrite (index_of_map (lookup rho) x own).
        * destruct (index_of x own) as [k|] eqn:Ei; [reflexivity|]. apply index_of_none in Ei. contradiction.
        * intros y Hy. now apply (rho_eqb own used1 rho used2 Hfv).
      + apply mem_var_false in E. rewrite (rho_out own used1 rho used2 Hfv x E).
        rewrite (proj2 (index_of_none x own) E).
        now rewrite (proj2 (index_of_none x (map (lookup rho) own)) (Fe x Hx E)).
    - intros w Hw. destruct (bvars_subst rho Hkt b w Hw) as [w0 [Hw0 Hr]]. subst w.
      rewrite (proj1 (Hkt w0)). apply Hbb. simpl. right. apply in_or_app. now right.
    - apply (K_shadow_subst A O rho Hkt b Fb). apply (K_shadow_change A b _ _ HKb).
      intros w Hw. apply mem_str_false. intros Hin. apply in_app_or in Hin. destruct Hin as [Hin|Hin].
      + apply in_map_iff in Hin. destruct Hin as [y' [Hy' Hin]]. apply in_map_iff in Hin.
        destruct Hin as [y [Hy Hyo]]. subst y'.
        destruct (rho_ok own used1 rho used2 Hfv y Hyo) as [_ Hn]. apply Hn. rewrite Hy'. now apply Fc.
      + pose proof (K_shadow_names A b _ HKb w Hw) as Hm. apply mem_str_false in Hm. apply Hm.
        apply in_or_app. now right.
    - intros x Hx Hk. destruct (fv_subst rho Hkt b x Hx) as [y [Hy Hr]]. unfold bound'. apply in_or_app.
      destruct (mem_var y own) eqn:E.
      + left. apply mem_var_In in E. subst x. apply in_map. now apply in_map.
      + right. apply mem_var_false in E. rewrite (rho_out own used1 rho used2 Hfv y E) in Hr. subst x.
        apply Hsc; [|assumption]. apply in_or_app. right. apply filter_In. split; [assumption|].
        apply negb_true_iff. now apply mem_var_false.
    - intros n Hn. apply in_app_or in Hn. apply in_or_app. destruct Hn as [Hn|Hn]; [left | right; now apply Hbu].
      apply in_map_iff in Hn. destruct Hn as [y' [Hy' Hn]]. apply in_map_iff in Hn. destruct Hn as [y [Hy Hyo]].
      subst y' n. now apply (rho_img_added own used1 rho used2 Hfv).
  Qed.

  (* ----- the caller-visible set only grows ----- *)
  Lemma ulist_mono k : (forall (f : form) used g u, Unique O k f used = Some (g, u) -> incl used u) ->
    forall l used gs u, ulist O k l used = Some (gs, u) -> incl used u.
  Proof.
    intros IH. induction l as [|a l IHl]; intros used gs u H; cbn [ulist] in H.
    - inversion H. apply incl_refl.
    - destruct (Unique O k a used) as [[a' u']|] eqn:Ha; [|discriminate].
      destruct (ulist O k l u') as [[r u'']|] eqn:Hr; [|discriminate]. inversion H. subst.
      apply (incl_tran (IH _ _ _ _ Ha)). apply (IHl _ _ _ Hr).
  Qed.

  Lemma unique_mono : forall fuel (f : form) used g u, Unique O fuel f used = Some (g, u) -> incl used u.
  Proof.
    induction fuel as [|k IH]; intros f used g u H; [discriminate|].
    destruct f as [a|n xs|n xs|f|fs|fs|v i m b|v i m b|v b|v b];
      try (unfold Unique in H; simpl in H; inversion H; apply incl_refl).
    - unfold Unique in H. cbn [ensure_unique] in H. fold (Unique O k f used) in H.
      destruct (Unique O k f used) as [[g' u']|] eqn:Hg; [|discriminate]. inversion H. subst.
      apply (IH _ _ _ _ Hg).
    - rewrite unique_and in H. destruct (ulist O k fs used) as [[gs u']|] eqn:Hl; [|discriminate].
      inversion H. subst. apply (ulist_mono k IH _ _ _ _ Hl).
    - rewrite unique_or in H. destruct (ulist O k fs used) as [[gs u']|] eqn:Hl; [|discriminate].
      inversion H. subst. apply (ulist_mono k IH _ _ _ _ Hl).
    - rewrite unique_forall in H. unfold quant_result in H. cbv zeta in H.
      destruct (fresh_vars (q_bound v m) _) as [rho used2] eqn:Hfv.
      destruct (Unique O k (Subst O rho b) _) as [[b'' u'']|]; [|discriminate]. inversion H. subst.
      intros n Hn. apply (rho_used2 _ _ _ _ Hfv). apply in_or_app. now right.
    - rewrite unique_exists in H. unfold quant_result in H. cbv zeta in H.
      destruct (fresh_vars (q_bound v m) _) as [rho used2] eqn:Hfv.
      destruct (Unique O k (Subst O rho b) _) as [[b'' u'']|]; [|discriminate]. inversion H. subst.
      intros n Hn. apply (rho_used2 _ _ _ _ Hfv). apply in_or_app. now right.
  Qed.

  (* ----- MAIN: ensure_unique_bound_variables keeps the verdict on formulas without shadowing ----- *)
  Theorem rename_sound : forall fuel (f : form) used g u, Unique O fuel f used = Some (g, u) ->
    forall bound, K_shadow bound f = false -> scoped bound f -> binders_bound f -> incl bound used ->
    forall e, EV e g = EV e f.
  Proof.
    induction fuel as [|k IH]; intros f used g u H bound HK Hsc Hbb Hbu e; [discriminate|].
    assert (Hlist : forall fs used0 gs u0, ulist O k fs used0 = Some (gs, u0) ->
      forall bound0, (forall a, In a fs -> K_shadow bound0 a = false /\ scoped bound0 a /\ binders_bound a) ->
      incl bound0 used0 -> Forall2 (fun a g' => forall e', EV e' g' = EV e' a) fs gs).
    { induction fs as [|a fs IHfs]; intros used0 gs u0 Hm bound0 Hall Hb0; cbn [ulist] in Hm.
      - inversion Hm. constructor.
      - destruct (Unique O k a used0) as [[a' u']|] eqn:Ha; [|discriminate].
        destruct (ulist O k fs u') as [[r u'']|] eqn:Hr; [|discriminate]. inversion Hm. subst.
        destruct (Hall a (or_introl eq_refl)) as [Ha1 [Ha2 Ha3]]. constructor.
        + intros e'. apply (IH _ _ _ _ Ha bound0 Ha1 Ha2 Ha3 Hb0).
        + apply (IHfs _ _ _ Hr bound0).
          * intros x Hx. apply Hall. now right.
          * apply (incl_tran Hb0). apply (unique_mono _ _ _ _ _ Ha). }
    destruct f as [a|n xs|n xs|f|fs|fs|v i m b|v i m b|v b|v b];
      try (unfold Unique in H; simpl in H; inversion H; reflexivity).
    - unfold Unique in H. cbn [ensure_unique] in H. fold (Unique O k f used) in H.
      destruct (Unique O k f used) as [[g' u']|] eqn:Hg; [|discriminate]. inversion H. subst.
      simpl. f_equal. apply (IH _ _ _ _ Hg bound); assumption.
    - rewrite unique_and in H. destruct (ulist O k fs used) as [[gs u']|] eqn:Hl; [|discriminate].
      inversion H. subst.
      assert (HF : Forall2 (fun a g' => forall e', EV e' g' = EV e' a) fs gs).
      { apply (Hlist _ _ _ _ Hl bound); [|assumption]. intros a Ha. split; [|split].
        - simpl in HK. now apply (proj1 (existsb_false_In _ _) HK).
        - intros x Hx. apply Hsc. simpl. apply in_flat_map. now exists a.
        - intros w Hw. apply Hbb. simpl. apply in_flat_map. now exists a. }
      change (EV e (reduce1 A (And O) (TrueF O) gs) = forallb (fun x => EV e x) fs).
      rewrite (reduce_and_sound A _ O SM HS). clear -HF.
      induction HF as [|a g' fs gs Hag _ IHF]; simpl; [reflexivity|]. now rewrite Hag, IHF.
    - rewrite unique_or in H. destruct (ulist O k fs used) as [[gs u']|] eqn:Hl; [|discriminate].
      inversion H. subst.
      assert (HF : Forall2 (fun a g' => forall e', EV e' g' = EV e' a) fs gs).
      { apply (Hlist _ _ _ _ Hl bound); [|assumption]. intros a Ha. split; [|split].
        - simpl in HK. now apply (proj1 (existsb_false_In _ _) HK).
        - intros x Hx. apply Hsc. simpl. apply in_flat_map. now exists a.
        - intros w Hw. apply Hbb. simpl. apply in_flat_map. now exists a. }
      change (EV e (reduce1 A (Or O) (FalseF O) gs) = existsb (fun x => EV e x) fs).
      rewrite (reduce_or_sound A _ O SM HS). clear -HF.
      induction HF as [|a g' fs gs Hag _ IHF]; simpl; [reflexivity|]. now rewrite Hag, IHF.
    - rewrite unique_forall in H. unfold quant_result in H. cbv zeta in H.
      destruct (fresh_vars (q_bound v m) _) as [rho used2] eqn:Hfv.
      cbn [K_shadow] in HK. apply orb_false_iff in HK. destruct HK as [H1 H2].
      destruct (quant_step v i m b bound used rho used2 Hfv Hbb H1 H2 Hsc Hbu)
        as [Hkt [Q1 [Q2 [Q3 [Q4 [Q5 [Q6 Q7]]]]]]].
      destruct (Unique O k (Subst O rho b) _) as [[b'' u'']|] eqn:Hb; [|discriminate]. inversion H. subst g u.
      cbn [ev s_qdom sem_of]. rewrite Q1, Q2, (proj2 (Hkt v)), (mshape_subst _ _ Hkt), !forallb_map.
      apply forallb_ext_in. intros g0 _. rewrite (IH _ _ _ _ Hb _ Q5 Q6 Q4 Q7). apply Q3.
    - rewrite unique_exists in H. unfold quant_result in H. cbv zeta in H.
      destruct (fresh_vars (q_bound v m) _) as [rho used2] eqn:Hfv.
      cbn [K_shadow] in HK. apply orb_false_iff in HK. destruct HK as [H1 H2].
      destruct (quant_step v i m b bound used rho used2 Hfv Hbb H1 H2 Hsc Hbu)
        as [Hkt [Q1 [Q2 [Q3 [Q4 [Q5 [Q6 Q7]]]]]]].
      destruct (Unique O k (Subst O rho b) _) as [[b'' u'']|] eqn:Hb; [|discriminate]. inversion H. subst g u.
      cbn [ev s_qdom sem_of]. rewrite Q1, Q2, (proj2 (Hkt v)), (mshape_subst _ _ Hkt), !existsb_map.
      apply existsb_ext_in. intros g0 _. rewrite (IH _ _ _ _ Hb _ Q5 Q6 Q4 Q7). apply Q3.
  Qed.

  (* ----- what the output guarantees about names: no re-binding along any nesting chain ----- *)
  Lemma no_int_subst rho : forall (f : form), no_int_quant f = true -> no_int_quant (Subst O rho f) = true.
  Proof.
    unfold Subst.
    induction f as [a|n xs|n xs|f IH|fs IH|fs IH|v i m b IH|v i m b IH|v b IH|v b IH] using formula_ind';
      intros Hn; try reflexivity; try discriminate.
    - simpl in *. now apply IH.
    - change (no_int_quant (reduce1 A (And O) (TrueF O) (map (Subst O rho) fs)) = true).
      apply (P_reduce_and A O (fun g => no_int_quant g = true)); try reflexivity.
      + intros a b Ha Hb. simpl. now rewrite Ha, Hb.
      + apply Forall_forall. intros g Hg. apply in_map_iff in Hg. destruct Hg as [a [Hga Hin]]. subst g.
        apply (Forall_In _ _ IH a Hin). simpl in Hn. rewrite forallb_forall in Hn. now apply Hn.
    - change (no_int_quant (reduce1 A (Or O) (FalseF O) (map (Subst O rho) fs)) = true).
      apply (P_reduce_or A O (fun g => no_int_quant g = true)); try reflexivity.
      + intros a b Ha Hb. simpl. now rewrite Ha, Hb.
      + apply Forall_forall. intros g Hg. apply in_map_iff in Hg. destruct Hg as [a [Hga Hin]]. subst g.
        apply (Forall_In _ _ IH a Hin). simpl in Hn. rewrite forallb_forall in Hn. now apply Hn.
    - simpl in *. now apply IH.
    - simpl in *. now apply IH.
  Qed.

  Lemma spine_step v m (b : form) used rho used2 (b'' : form) :
    let own := q_bound v m in
    let used1 := names_not_in (uniq_vars (v :: mexpr_bvars m ++ BV b)) own ++ used in
    fresh_vars own used1 = (rho, used2) ->
    (forall w, In w (v :: mexpr_bvars m ++ BV b) -> vk w = VBound) ->
    K_shadow (firstn (length used2 - length used1) used2 ++ used) b'' = false ->
    binders_bound (Subst O rho b) /\
    existsb (fun n => mem_str n used) (map vname (q_bound (lookup rho v) (option_map (subst_mexpr rho) m))) = false /\
    K_shadow (map vname (q_bound (lookup rho v) (option_map (subst_mexpr rho) m)) ++ used) b'' = false.
  Proof.
    intros own used1 Hfv Hbb HK.
    assert (HownB : forall x, In x own -> vk x = VBound).
    { intros x Hx. apply q_bound_In in Hx. apply Hbb. simpl.
      destruct Hx as [Hx|Hx]; [now left | right; apply in_or_app; now left]. }
    pose proof (rho_kt own used1 rho used2 Hfv HownB) as Hkt.
    assert (Hq : forall z, In z (q_bound (lookup rho v) (option_map (subst_mexpr rho) m)) ->
                 exists y, In y own /\ z = lookup rho y).
    { intros z Hz. apply q_bound_In in Hz. rewrite (mexpr_bvars_subst _ _ Hkt) in Hz. destruct Hz as [Hz|Hz].
      - exists v. split; [|assumption]. apply (proj2 (q_bound_In v v m)). now left.
      - apply in_map_iff in Hz. destruct Hz as [y [Hy Hin]]. exists y. split; [|now symmetry].
        apply (proj2 (q_bound_In y v m)). now right. }
    split; [|split].
    - intros w Hw. destruct (bvars_subst rho Hkt b w Hw) as [w0 [Hw0 Hr]]. subst w.
      rewrite (proj1 (Hkt w0)). apply Hbb. simpl. right. apply in_or_app. now right.
    - apply existsb_false_In. intros n Hn. apply in_map_iff in Hn. destruct Hn as [z [Hzn Hz]]. subst n.
      destruct (Hq z Hz) as [y [Hy Hr]]. subst z. apply mem_str_false. intros Hin.
      destruct (rho_ok own used1 rho used2 Hfv y Hy) as [_ Hn]. apply Hn. unfold used1. apply in_or_app. now right.
    - apply (K_shadow_incl A b'' _ _ ) with (2 := HK). intros n Hn. apply in_app_or in Hn. apply in_or_app.
      destruct Hn as [Hn|Hn]; [left | now right].
      apply in_map_iff in Hn. destruct Hn as [z [Hzn Hz]]. subst n.
      destruct (Hq z Hz) as [y [Hy Hr]]. subst z. now apply (rho_img_added own used1 rho used2 Hfv).
  Qed.

  Theorem unique_spine : forall fuel (f : form) used g u, Unique O fuel f used = Some (g, u) ->
    no_int_quant f = true -> binders_bound f -> K_shadow used g = false.
  Proof.
    induction fuel as [|k IH]; intros f used g u H Hni Hbb; [discriminate|].
    assert (Hlist : forall fs used0 gs u0, ulist O k fs used0 = Some (gs, u0) ->
      (forall a, In a fs -> no_int_quant a = true /\ binders_bound a) ->
      Forall (fun g' => K_shadow used0 g' = false) gs).
    { induction fs as [|a fs IHfs]; intros used0 gs u0 Hm Hall; cbn [ulist] in Hm.
      - inversion Hm. constructor.
      - destruct (Unique O k a used0) as [[a' u']|] eqn:Ha; [|discriminate].
        destruct (ulist O k fs u') as [[r u'']|] eqn:Hr; [|discriminate]. inversion Hm. subst.
        destruct (Hall a (or_introl eq_refl)) as [Ha1 Ha2]. constructor.
        + apply (IH _ _ _ _ Ha Ha1 Ha2).
        + assert (HF : Forall (fun g' => K_shadow u' g' = false) r).
          { apply (IHfs _ _ _ Hr). intros x Hx. apply Hall. now right. }
          rewrite Forall_forall in *. intros g' Hg'.
          apply (K_shadow_incl A g' used0 u' (unique_mono _ _ _ _ _ Ha)). now apply HF. }
    destruct f as [a|n xs|n xs|f|fs|fs|v i m b|v i m b|v b|v b];
      try (unfold Unique in H; simpl in H; inversion H; reflexivity); try discriminate.
    - unfold Unique in H. cbn [ensure_unique] in H. fold (Unique O k f used) in H.
      destruct (Unique O k f used) as [[g' u']|] eqn:Hg; [|discriminate]. inversion H. subst.
      simpl. apply (IH _ _ _ _ Hg); assumption.
    - rewrite unique_and in H. destruct (ulist O k fs used) as [[gs u']|] eqn:Hl; [|discriminate].
      inversion H. subst.
      apply (P_reduce_and A O (fun g => K_shadow used g = false)); try reflexivity.
      + intros a b Ha Hb. simpl. now rewrite Ha, Hb.
      + apply (Hlist _ _ _ _ Hl). intros a Ha. split.
        * simpl in Hni. rewrite forallb_forall in Hni. now apply Hni.
        * intros w Hw. apply Hbb. simpl. apply in_flat_map. now exists a.
    - rewrite unique_or in H. destruct (ulist O k fs used) as [[gs u']|] eqn:Hl; [|discriminate].
      inversion H. subst.
      apply (P_reduce_or A O (fun g => K_shadow used g = false)); try reflexivity.
      + intros a b Ha Hb. simpl. now rewrite Ha, Hb.
      + apply (Hlist _ _ _ _ Hl). intros a Ha. split.
        * simpl in Hni. rewrite forallb_forall in Hni. now apply Hni.
        * intros w Hw. apply Hbb. simpl. apply in_flat_map. now exists a.
    - rewrite unique_forall in H. unfold quant_result in H. cbv zeta in H.
      destruct (fresh_vars (q_bound v m) _) as [rho used2] eqn:Hfv.
      destruct (Unique O k (Subst O rho b) _) as [[b'' u'']|] eqn:Hb; [|discriminate]. inversion H. subst g u.
      assert (Hbb' : binders_bound (Subst O rho b)).
      { pose proof (spine_step v m b used rho used2 (TrueF O) Hfv Hbb eq_refl) as [Hx _]. exact Hx. }
      pose proof (IH _ _ _ _ Hb (no_int_subst rho b Hni) Hbb') as HKb.
      destruct (spine_step v m b used rho used2 b'' Hfv Hbb HKb) as [_ [S1 S2]].
      cbn [K_shadow]. now rewrite S1, S2.
    - rewrite unique_exists in H. unfold quant_result in H. cbv zeta in H.
      destruct (fresh_vars (q_bound v m) _) as [rho used2] eqn:Hfv.
      destruct (Unique O k (Subst O rho b) _) as [[b'' u'']|] eqn:Hb; [|discriminate]. inversion H. subst g u.
      assert (Hbb' : binders_bound (Subst O rho b)).
      { pose proof (spine_step v m b used rho used2 (TrueF O) Hfv Hbb eq_refl) as [Hx _]. exact Hx. }
      pose proof (IH _ _ _ _ Hb (no_int_subst rho b Hni) Hbb') as HKb.
      destruct (spine_step v m b used rho used2 b'' Hfv Hbb HKb) as [_ [S1 S2]].
      cbn [K_shadow]. now rewrite S1, S2.
  Qed.

End Rename.

Arguments binders_bound {A}. Arguments scoped {A}.
Arguments PVd {D}. Arguments PVs {D}. Arguments PVt {D}.

(* ================= concrete instance: non-vacuity and refutation witnesses ================= *)
(* a name-SENSITIVE interpretation keyed by the full variable: assignments var -> string; a tree
   quantifier `v in w` ranges over the characters of the value of w (every own variable of the
   quantifier receives the character); numeric quantifiers over "0", "1" *)
Definition cafv (a : catom) : list var := match a with CEq v _ _ => [v] | _ => [] end.

Definition cnsem : nsem catom str :=
  MkNSem catom str
    (fun e a => match a with
                | CTrue => true | CFalse => false
                | CEq v s n => xorb n (str_eqb (e v) s)
                end)
    (fun _ _ xs => match xs with [PVd a; PVd b] => str_eqb a b | _ => false end)
    (fun t => lbl t)
    (fun d _ _ => map (fun c (_ : nat) => [c]) d)
    [[48%N]; [49%N]].

Example atoms_sound_cnsem : atoms_sound cops_t (sem_of cnsem).
Proof.
  repeat split.
  - intros a b H e. destruct a as [| |v s n], b as [| |w t m]; simpl in H; try discriminate; try reflexivity.
    apply andb_true_iff in H. destruct H as [H Hn]. apply andb_true_iff in H. destruct H as [Hv Hs].
    apply var_eqb_eq in Hv. apply str_eqb_eq in Hs. apply Bool.eqb_prop in Hn. now subst.
  - intros a H e. now destruct a.
  - intros a H e. now destruct a.
  - intros e b a. destruct a as [| |v s n]; simpl; [now destruct b | now destruct b |].
    now rewrite xorb_assoc.
  - intros e v i m m' H. now apply sem_of_qdom_eq.
Qed.

Example atoms_rename_cnsem : atoms_rename cops_t cnsem cafv.
Proof.
  constructor.
  - intros e1 e2 a H. destruct a as [| |v s n]; simpl; try reflexivity. rewrite (H v); [reflexivity | now left].
  - intros e rho a. now destruct a.
  - intros rho a x Hx. destruct a as [| |v s n]; simpl in Hx; try (now destruct Hx).
    destruct Hx as [Hx|[]]. exists v. split; [now left | now symmetry].
  - reflexivity.
  - reflexivity.
Qed.

Definition v_y := MkVar VBound (s_of [121]%N) (s_of [60;98;62]%N).
Definition v_y0 := MkVar VBound (s_of [121;95;48]%N) (s_of [60;98;62]%N).
Definition y_is (v : var) (c : N) : cform := FSmt (CEq v (s_of [c]) false).

(* (forall x in start: (forall y in x: y = "a") and (forall y in x: y = "b")) and forall y_0 in start: y_0 = "c"
   - no shadowing, closed w.r.t. bound variables *)
Definition w_sibling : cform :=
  FAnd [FForall v_x (InVar v_start) None
          (FAnd [FForall v_y (InVar v_x) None (y_is v_y 97); FForall v_y (InVar v_x) None (y_is v_y 98)]);
        FForall v_y0 (InVar v_start) None (y_is v_y0 99)].

Fixpoint nodup_str (l : list str) : bool :=
  match l with [] => true | x :: l' => negb (mem_str x l') && nodup_str l' end.
(* all quantifiers of g bind pairwise different names *)
Definition bound_unique {A} (g : formula A) : bool := nodup_str (map vname (bvars A g)).

Lemma w_sibling_hyps :
  K_shadow [] w_sibling = false /\ scoped cafv [] w_sibling /\ binders_bound w_sibling /\
  no_int_quant w_sibling = true.
Proof.
  split; [reflexivity|]. split; [|split; [|reflexivity]].
  - intros x Hx Hk. simpl in Hx.
    repeat (destruct Hx as [Hx|Hx]; [subst x; discriminate Hk|]). destruct Hx.
  - intros w Hw. simpl in Hw.
    repeat (destruct Hw as [Hw|Hw]; [subst w; reflexivity|]). destruct Hw.
Qed.

(* the renaming really happens on this input, and the result binds y_0 twice *)
Lemma w_sibling_run : exists g u,
  Unique cops_t 40 w_sibling [] = Some (g, u) /\ g <> w_sibling /\ bound_unique g = false.
Proof. vm_compute. eexists. eexists. split; [reflexivity|]. split; [discriminate | reflexivity]. Qed.

Lemma rename_sound_nonvacuous :
  atoms_sound cops_t (sem_of cnsem) /\ atoms_rename cops_t cnsem cafv /\
  K_shadow [] w_sibling = false /\ scoped cafv [] w_sibling /\ binders_bound w_sibling /\
  exists g u, Unique cops_t 40 w_sibling [] = Some (g, u) /\ g <> w_sibling.
Proof.
  split; [exact atoms_sound_cnsem|]. split; [exact atoms_rename_cnsem|].
  destruct w_sibling_hyps as [H1 [H2 [H3 _]]]. repeat (split; [assumption|]).
  destruct w_sibling_run as [g [u [Hr [Hne _]]]]. exists g, u. now split.
Qed.

(* global uniqueness of bound names is NOT guaranteed, even on input without shadowing: names chosen
   inside the recursion are not propagated to the caller's used_names *)
Lemma unique_siblings_refuted : exists (f g : cform) u,
  K_shadow [] f = false /\ no_int_quant f = true /\
  Unique cops_t 40 f [] = Some (g, u) /\ bound_unique g = false.
Proof.
  destruct w_sibling_run as [g [u [Hr [_ Hb]]]]. exists w_sibling, g, u.
  repeat split; try reflexivity; assumption.
Qed.

Lemma unique_spine_nonvacuous :
  no_int_quant w_shadow = true /\ binders_bound w_shadow /\ K_shadow [] w_shadow = true /\
  exists g u, Unique cops 20 w_shadow [] = Some (g, u) /\ K_shadow [] g = false.
Proof.
  split; [reflexivity|]. split.
  - intros w Hw. simpl in Hw. repeat (destruct Hw as [Hw|Hw]; [subst w; reflexivity|]). destruct Hw.
  - split; [reflexivity|]. vm_compute. eexists. eexists. split; reflexivity.
Qed.

(* the substitution lemma on a concrete capture-free renaming x -> z of  forall y in x: y = "a" *)
Definition v_z := MkVar VBound (s_of [122]%N) (s_of [60;105;62]%N).
Lemma subst_ev_nonvacuous :
  let rho := [(v_x, v_z)] in let f : cform := FForall v_y (InVar v_x) None (y_is v_y 97) in
  kt_preserving (lookup rho) /\
  (forall w, In w (bvars catom f) -> lookup rho w = w) /\
  (forall z, In (lookup rho z) (bvars catom f) -> lookup rho z = z) /\
  Subst cops_t rho f <> f.
Proof.
  cbv zeta. split; [|split; [|split]].
  - intros z. unfold lookup. simpl. destruct (var_eqb v_x z) eqn:E; [|split; reflexivity].
    apply var_eqb_eq in E. subst z. split; reflexivity.
  - intros w Hw. simpl in Hw. destruct Hw as [Hw|[]]. subst w. reflexivity.
  - intros z Hz. simpl in Hz. destruct Hz as [Hz|[]]. unfold lookup in *. simpl in *.
    destruct (var_eqb v_x z) eqn:E; [discriminate Hz | reflexivity].
  - vm_compute. discriminate.
Qed.
