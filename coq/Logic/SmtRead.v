(* C07 — reference reader of the INSIDE of a printed SMT atom: `read_sexpr : str -> option sx`,
   the s-expression syntax that ISLa hands to Z3 (IslaLanguage.g4 rule sexpr, alternatives SexprTrue /
   SexprFalse / SexprNum / SexprId / SexprStr / SepxrApp, and z3.parse_smt2_string with the declared
   variables as String constants), as far as smt_expr_to_str prints it:
     word        true | false | INT ('-'? DIGIT+) | a zero-ary builtin (re.all re.allchar re.none) | variable (ID)
     "…"         string literal, read by read_lit (Logic/Unparse.v: ANTLR STRING token, the emitter's
                 replace, UTF-8, Z3's scanner and escape decoding)
     (op a1 … an)   n >= 1, op a word of the operator table, or an indexed operator
                    (_ re.loop lo hi) | (_ re.loop lo) | (_ re.^ n)
   The result is the `sx` the harness builds from the Z3 expression: kind + decl().name() + children,
   with the four kinds smt_expr_to_str renames (str.in_re, str.++, re.++, str.to.int -> decl name
   str.to_int) and `ite` -> decl name `if`.
   Operators outside the table are rejected (None): in particular `not` (no sexpr operator in the ISLa
   grammar), `if`, `str.<` (no tokens / unknown to Z3): the recorded class K_smt_op.
   The reader is UNTYPED: Z3's sort checking and arities are not modelled (every text it is tied on was
   accepted by Z3).  Whether a variable word is a DECLARED variable is checked by parse_full below
   (against the variable list that parse_core computed for the atom).
   No proofs here (SmtReadFacts.v). *)
From ISLA Require Export Unparse ParseCore ParseCoreMore ParseCoreNary.
From Coq Require Import ZArith String.
Import ListNotations.
Open Scope N_scope.

Definition nullary_ops : list str := [lit "re.all"; lit "re.allchar"; lit "re.none"].
(* operators whose decl name is the printed word *)
Definition app_ops : list str :=
  [lit "="; lit "distinct"; lit "and"; lit "or"; lit "=>"; lit "xor";
   lit "+"; lit "-"; lit "*"; lit "div"; lit "mod"; lit "abs"; lit "^";
   lit ">="; lit "<="; lit ">"; lit "<";
   lit "str.len"; lit "str.at"; lit "str.substr"; lit "str.prefixof"; lit "str.suffixof";
   lit "str.contains"; lit "str.indexof"; lit "str.replace"; lit "str.replace_all";
   lit "str.replace_re"; lit "str.replace_re_all"; lit "str.is_digit"; lit "str.to_code";
   lit "str.from_code"; lit "str.from_int"; lit "str.<="; lit "str.to_re";
   lit "re.+"; lit "re.*"; lit "re.union"; lit "re.inter"; lit "re.comp"; lit "re.diff";
   lit "re.opt"; lit "re.range"].
(* words with a meaning of their own: never variables *)
Definition special_ops : list str :=
  [lit "str.in_re"; lit "str.++"; lit "re.++"; lit "str.to.int"; lit "str.to_int"; lit "ite"; lit "if";
   lit "re.loop"; lit "re.^"; lit "_"; lit "re.nostr"; lit "str.<"].

Definition op_of_word (w : str) : option (opk * str) :=
  if str_eqb w (lit "str.in_re") then Some (KInRe, lit "str.in_re")
  else if str_eqb w (lit "str.++") then Some (KSeqConcat, lit "str.++")
  else if str_eqb w (lit "re.++") then Some (KReConcat, lit "re.++")
  else if str_eqb w (lit "str.to.int") || str_eqb w (lit "str.to_int") then Some (KStrToInt, lit "str.to_int")
  else if str_eqb w (lit "ite") then Some (KOther, lit "if")
  else if str_eqb w (lit "re.loop") then Some (KLoopShort [], lit "re.loop")     (* (re.loop r lo hi) *)
  else if mem w app_ops then Some (KOther, w)
  else None.

Fixpoint skip_ws (s : str) : str :=
  match s with c :: r => if is_wsc c then skip_ws r else s | [] => [] end.

(* a numeral DIGIT+ *)
Definition rd_nat (w : str) : option N :=
  match w with
  | [] => None
  | _ => match uint_of_str w with Some u => Some (N.of_uint u) | None => None end
  end.

Definition rd_word (w : str) : option sx :=
  if str_eqb w (lit "true") then Some STrue
  else if str_eqb w (lit "false") then Some SFalse
  else match w with
       | c :: _ =>
           if is_digit c || (c =? 45)
           then match int_of_word w with Some z => Some (SInt z) | None => None end
           else if mem w nullary_ops then Some (SApp KOther w [])
           else if is_name w && negb (mem w app_ops) && negb (mem w special_ops) then Some (SVar w)
           else None
       | [] => None
       end.

(* the text after `(` of an indexed operator: `_ re.loop lo hi)` | `_ re.loop lo)` | `_ re.^ n)` *)
Definition rd_indexed (s : str) : option (opk * str * str) :=
  let (u, s1) := head_word (skip_ws s) in
  if str_eqb u (lit "_") then
    let (w, s2) := head_word (skip_ws s1) in
    let (a, s3) := head_word (skip_ws s2) in
    match rd_nat a with
    | None => None
    | Some na =>
        if str_eqb w (lit "re.^") then
          match skip_ws s3 with
          | c :: r => if c =? 41 then Some (KPower na, lit "re.^", r) else None
          | [] => None
          end
        else if str_eqb w (lit "re.loop") then
          match skip_ws s3 with
          | c :: r =>
              if c =? 41 then Some (KLoopShort [na], lit "re.loop", r)
              else let (b, s4) := head_word (c :: r) in
                   match rd_nat b, skip_ws s4 with
                   | Some nb, d :: r' => if d =? 41 then Some (KLoop na nb, lit "re.loop", r') else None
                   | _, _ => None
                   end
          | [] => None
          end
        else None
    end
  else None.

(* the operator position: text after the opening parenthesis of an application *)
Definition rd_head (s : str) : option (opk * str * str) :=
  match skip_ws s with
  | d :: r2 =>
      if d =? 40 then rd_indexed r2
      else let (w, t) := head_word (d :: r2) in
           match op_of_word w with Some (k, n) => Some (k, n, t) | None => None end
  | [] => None
  end.

(* rd: one s-expression at the start of s (no leading blank); rd_list: `e1 … en )` *)
Fixpoint rd (fuel : nat) (s : str) : option (sx * str) :=
  match fuel with
  | O => None
  | S k =>
      match s with
      | [] => None
      | c :: r =>
          if c =? c_q then
            match read_lit s with Some (v, rest) => Some (SStr v, rest) | None => None end
          else if c =? 40 then
            match rd_head r with
            | Some (op, n, t) =>
                match rd_list k (skip_ws t) with
                | Some (a :: args, rest) => Some (SApp op n (a :: args), rest)
                | _ => None
                end
            | None => None
            end
          else let (w, t) := head_word s in
               match rd_word w with Some e => Some (e, t) | None => None end
      end
  end
with rd_list (fuel : nat) (s : str) : option (list sx * str) :=
  match fuel with
  | O => None
  | S k =>
      match s with
      | [] => None
      | c :: r =>
          if c =? 41 then Some ([], r)
          else match rd k s with
               | Some (e, t) =>
                   match rd_list k (skip_ws t) with Some (l, r') => Some (e :: l, r') | None => None end
               | None => None
               end
      end
  end.

Definition read_sexpr (t : str) : option sx :=
  match rd (S (List.length t)) t with
  | Some (e, rest) => match skip_ws rest with [] => Some e | _ => None end
  | None => None
  end.

(* ---------- parse_full = parse_core, then the atoms are read ---------- *)
Fixpoint sx_vars (e : sx) : list str :=
  match e with SVar n => [n] | SApp _ _ args => flat_map sx_vars args | _ => [] end.

(* the text of an atom -> its s-expression; every variable word must be one of the declared
   variables parse_core found in the text (Z3: unknown constant otherwise) *)
Definition read_atom (a : satom) : option satom :=
  match fst a with
  | SVar t =>
      match read_sexpr t with
      | Some e => if forallb (fun n => mem n (map vname (snd a))) (sx_vars e) then Some (e, snd a) else None
      | None => None
      end
  | _ => None
  end.

Definition omapl {X Y} (f : X -> option Y) : list X -> option (list Y) :=
  fix go (l : list X) : option (list Y) :=
    match l with
    | [] => Some []
    | x :: r => match f x, go r with Some y, Some ys => Some (y :: ys) | _, _ => None end
    end.

Fixpoint deopaque (f : cformula) : option cformula :=
  match f with
  | FSmt a => match read_atom a with Some b => Some (FSmt b) | None => None end
  | FSPred n args => Some (FSPred n args)
  | FSemPred n args => Some (FSemPred n args)
  | FNot g => match deopaque g with Some x => Some (FNot x) | None => None end
  | FAnd fs => match omapl deopaque fs with Some l => Some (FAnd l) | None => None end
  | FOr fs => match omapl deopaque fs with Some l => Some (FOr l) | None => None end
  | FForall v i m b => match deopaque b with Some x => Some (FForall v i m x) | None => None end
  | FExists v i m b => match deopaque b with Some x => Some (FExists v i m x) | None => None end
  | FForallInt v b => match deopaque b with Some x => Some (FForallInt v x) | None => None end
  | FExistsInt v b => match deopaque b with Some x => Some (FExistsInt v x) | None => None end
  end.

Definition parse_full (s : str) : option cformula :=
  match parse_core s with Some f => deopaque f | None => None end.

(* ---------- structural comparison used by the correspondence check (harness/c07.py, streams `atoms`, `full`) ---------- *)
Fixpoint ns_eqb (a b : list N) : bool :=
  match a, b with [], [] => true | x :: r, y :: s => (x =? y) && ns_eqb r s | _, _ => false end.
Definition opk_eqb (a b : opk) : bool :=
  match a, b with
  | KInRe, KInRe | KSeqConcat, KSeqConcat | KReConcat, KReConcat | KStrToInt, KStrToInt | KOther, KOther => true
  | KLoop x y, KLoop x' y' => (x =? x') && (y =? y')
  | KLoopShort p, KLoopShort q => ns_eqb p q
  | KPower x, KPower x' => x =? x'
  | _, _ => false
  end.
Fixpoint sx_eqb (a b : sx) {struct a} : bool :=
  match a, b with
  | SVar n, SVar m => str_eqb n m
  | SStr s, SStr t => str_eqb s t
  | SInt x, SInt y => Z.eqb x y
  | STrue, STrue | SFalse, SFalse => true
  | SApp k n l, SApp k' n' l' =>
      opk_eqb k k' && str_eqb n n' &&
      (fix go (l l' : list sx) : bool :=
         match l, l' with [], [] => true | x :: r, y :: s => sx_eqb x y && go r s | _, _ => false end) l l'
  | _, _ => false
  end.
(* as ceqb (ParseCoreMore.v), atoms compared as s-expressions *)
Fixpoint feqb (f g : cformula) {struct f} : bool :=
  match f, g with
  | FSmt (e, vs), FSmt (e', ws) => sx_eqb e e' && vars_eqb vs ws
  | FSPred n a, FSPred m b => str_eqb n m && pargs_ceqb a b
  | FSemPred n a, FSemPred m b => str_eqb n m && pargs_ceqb a b
  | FNot x, FNot y => feqb x y
  | FAnd [a; b], FAnd [c; d] => feqb a c && feqb b d
  | FOr [a; b], FOr [c; d] => feqb a c && feqb b d
  | FForall v (InVar i) None x, FForall w (InVar j) None y => var_eqb v w && var_eqb i j && feqb x y
  | FExists v (InVar i) None x, FExists w (InVar j) None y => var_eqb v w && var_eqb i j && feqb x y
  | FForallInt v x, FForallInt w y => var_eqb v w && feqb x y
  | FExistsInt v x, FExistsInt w y => var_eqb v w && feqb x y
  | _, _ => false
  end.
