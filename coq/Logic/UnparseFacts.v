(* C07 — specification-side statements and proofs about Logic/Unparse.v.
   What is proved here, for ALL inputs:
   * fresh_variable never returns a used name (fresh_is_fresh, register_is_fresh), and the two
     naming gaps of register_var_for_free_nonterminal as function-level counterexamples;
   * the string-literal round trip  read_lit (str_lit s ++ rest) = Some (s, rest)  for every
     string of `lit_safe` characters (printable ASCII incl. the quote, no backslash), through all
     stages (Z3_get_lstring, quote escaping, \u{} patch, ANTLR STRING token, the emitter's
     replace, UTF-8, Z3 scanner, Z3 escape decoding); counterexamples for the two recorded classes.
   The unrestricted statement (guard: negb (K_str s)) and print_parse are stated in
   Props/C07.v as comments: not proved, covered by the correspondence only. *)
From ISLA Require Import Unparse.
From Coq Require Import Lia ZArith String.
Import ListNotations.
Open Scope N_scope.

(* ---------- fresh names ---------- *)
Lemma mem_In x l : mem x l = true <-> In x l.
Proof.
  induction l as [|y l IH]; simpl.
  - split; [discriminate | tauto].
  - rewrite orb_true_iff, IH, str_eqb_eq. split; intros [H|H]; auto.
Qed.

Lemma fresh_loop_sound fuel : forall used base name idx n,
  fresh_loop fuel used base name idx = Some n -> mem n used = false.
Proof.
  induction fuel as [|k IH]; intros used base name idx n H; simpl in H.
  - discriminate.
  - destruct (mem name used) eqn:E.
    + eapply IH; exact H.
    + inversion H; subst; exact E.
Qed.

(* specification: the result is not a member of the used set (declarative: ~ In) *)
Theorem fresh_is_fresh used base n : fresh_name used base = Some n -> ~ In n used.
Proof.
  unfold fresh_name. intros H Hin. apply fresh_loop_sound in H.
  apply mem_In in Hin. congruence.
Qed.

(* the first candidate is the base name itself *)
Lemma fresh_unused used base : ~ In base used -> fresh_name used base = Some base.
Proof.
  intro H. unfold fresh_name. simpl.
  destruct (mem base used) eqn:E; [apply mem_In in E; contradiction | reflexivity].
Qed.

Theorem register_is_fresh used free nt n :
  lookup nt free = None -> register_free used free nt = Some n ->
  ~ In n used /\ ~ In n (map fst free).
Proof.
  intros Hl H. unfold register_free in H. rewrite Hl in H.
  apply fresh_is_fresh in H. split; intro Hin; apply H; apply in_or_app; auto.
Qed.

Example fresh_example :
  fresh_name [lit "var"; lit "var_0"; lit "x"] (lit "var") = Some (lit "var_1").
Proof. reflexivity. Qed.
Example register_example :
  lookup (lit "<var>") [] = None /\ register_free [lit "var"] [] (lit "<var>") = Some (lit "var_0").
Proof. split; reflexivity. Qed.

(* GAP 1: the used set never contains the name of the global constant: a free <start> is named
   `start`.   Full (false) statement: register_free used free nt = Some n -> n <> vname start_const *)
Theorem fresh_avoids_constant_refuted :
  exists used free nt, register_free used free nt = Some (vname start_const).
Proof. exists [], [], (lit "<start>"). reflexivity. Qed.

(* GAP 2: the union is taken with the dict's KEYS: names of variables already created for other
   free nonterminals are not avoided.
   Full (false) statement: lookup nt free = None -> register_free used free nt = Some n ->
   ~ In n (map snd free) *)
Theorem fresh_avoids_registered_refuted :
  exists used free nt n, lookup nt free = None /\ register_free used free nt = Some n /\
                         In n (map snd free).
Proof.
  exists [lit "a"], [(lit "<a>", lit "a_0")], (lit "<a_0>"), (lit "a_0").
  split; [reflexivity | split; [reflexivity | left; reflexivity]].
Qed.

(* ---------- string literals ---------- *)
(* plain characters: printable ASCII other than the quote and the backslash *)
Definition plain_c (c : chr) : bool := (32 <=? c) && (c <? 127) && negb (c =? 34) && negb (c =? 92).
Definition plain (s : str) : bool := forallb plain_c s.

Lemma plain_c_facts c : plain_c c = true -> 32 <= c /\ c < 127 /\ c <> 34 /\ c <> 92.
Proof.
  unfold plain_c. rewrite !andb_true_iff, !negb_true_iff, N.leb_le, N.ltb_lt, !N.eqb_neq. tauto.
Qed.

Ltac nfacts H := apply plain_c_facts in H; destruct H as (Hlo & Hhi & Hq & Hbs).
Ltac neq_false c k := replace (c =? k) with false by (symmetry; apply N.eqb_neq; lia).
Ltac split_plain H Hc Hr := simpl in H; apply andb_true_iff in H as [Hc Hr]; nfacts Hc.

Lemma lstring_plain s : plain s = true -> z3_lstring s = s.
Proof.
  induction s as [|c r IH]; intro H; [reflexivity|]. split_plain H Hc Hr.
  change (z3_lstring (c :: r)) with
    ((if (c =? 0) || (256 <=? c) || ((c =? c_bs) && match r with d :: _ => d =? c_u | [] => false end)
      then lesc c else [c]) ++ z3_lstring r).
  unfold c_bs. neq_false c 0. neq_false c 92.
  replace (256 <=? c) with false by (symmetry; apply N.leb_gt; lia).
  simpl. rewrite IH by exact Hr. reflexivity.
Qed.

Lemma esc_quotes_plain s : plain s = true -> esc_quotes s = s.
Proof.
  induction s as [|c r IH]; intro H; [reflexivity|]. split_plain H Hc Hr.
  change (esc_quotes (c :: r)) with ((if c =? c_q then [c_bs; c_q] else [c]) ++ esc_quotes r).
  unfold c_q. neq_false c 34. simpl. rewrite IH by exact Hr. reflexivity.
Qed.

Lemma fix_nul_k0_cons c r :
  fix_nul_k 0 (c :: r) =
  match r with
  | d :: e :: f :: _ =>
      if (c =? c_bs) && (d =? c_u) && (e =? c_lb) && (f =? c_rb)
      then [c_bs; c_u; c_lb; 48; c_rb] ++ fix_nul_k 3 r else c :: fix_nul_k 0 r
  | _ => c :: fix_nul_k 0 r
  end.
Proof. reflexivity. Qed.

Lemma fix_nul_plain s : plain s = true -> fix_nul s = s.
Proof.
  unfold fix_nul. induction s as [|c r IH]; intro H; [reflexivity|]. split_plain H Hc Hr.
  rewrite fix_nul_k0_cons. specialize (IH Hr).
  destruct r as [|d [|e [|f t]]]; try (rewrite IH; reflexivity).
  unfold c_bs. neq_false c 92. simpl andb. cbv iota. rewrite IH. reflexivity.
Qed.

Lemma lex_body_plain s : forall fuel rest,
  plain s = true -> (List.length s < fuel)%nat -> lex_body fuel (s ++ c_q :: rest) = Some (s, rest).
Proof.
  induction s as [|c r IH]; intros fuel rest H Hf.
  - destruct fuel as [|k]; [simpl in Hf; lia|]. reflexivity.
  - split_plain H Hc Hr. destruct fuel as [|k]; [simpl in Hf; lia|].
    simpl in Hf. assert (Hk : (List.length r < k)%nat) by lia.
    specialize (IH k rest Hr Hk).
    change (lex_body (S k) ((c :: r) ++ c_q :: rest)) with
      (if c =? c_q then Some ([], r ++ c_q :: rest)
       else match r ++ c_q :: rest with
            | d :: r' =>
                if (c =? c_bs) && is_esc_letter d
                then match lex_body k r' with Some (b, t) => Some (c :: d :: b, t) | None => None end
                else match lex_body k (r ++ c_q :: rest) with Some (b, t) => Some (c :: b, t) | None => None end
            | [] => None
            end).
    unfold c_q at 1. neq_false c 34. unfold c_bs. neq_false c 92. simpl andb.
    destruct (r ++ c_q :: rest) as [|d r'] eqn:E.
    + destruct r; discriminate.
    + cbv iota. rewrite IH. reflexivity.
Qed.

Lemma isla_prep_plain s : plain s = true -> isla_prep (s ++ [c_q]) = s ++ [c_q].
Proof.
  induction s as [|c r IH]; intro H; [reflexivity|]. split_plain H Hc Hr. specialize (IH Hr).
  change (isla_prep ((c :: r) ++ [c_q])) with
    (match r ++ [c_q] with
     | d :: r' => if (c =? c_bs) && (d =? c_q) then c_q :: c_q :: isla_prep r' else c :: isla_prep (r ++ [c_q])
     | [] => [c]
     end).
  rewrite <- app_comm_cons.
  destruct (r ++ [c_q]) as [|d r'] eqn:E.
  - destruct r; discriminate.
  - unfold c_bs. neq_false c 92. simpl andb. cbv iota. rewrite IH. reflexivity.
Qed.

Lemma utf8_plain s : plain s = true -> utf8 s = s.
Proof.
  unfold utf8. induction s as [|c r IH]; intro H; [reflexivity|]. split_plain H Hc Hr.
  change (flat_map utf8c (c :: r)) with (utf8c c ++ flat_map utf8c r).
  rewrite IH by exact Hr. unfold utf8c.
  replace (c <? 128) with true by (symmetry; apply N.ltb_lt; lia). reflexivity.
Qed.

Lemma z3_scan_plain s : plain s = true -> z3_scan (s ++ [c_q]) = Some (s, []).
Proof.
  induction s as [|c r IH]; intro H; [reflexivity|]. split_plain H Hc Hr. specialize (IH Hr).
  change (z3_scan ((c :: r) ++ [c_q])) with
    (if c =? c_q then
       match r ++ [c_q] with
       | d :: r' => if d =? c_q then match z3_scan r' with Some (b, t) => Some (c_q :: b, t) | None => None end
                    else Some ([], r ++ [c_q])
       | [] => Some ([], [])
       end
     else match z3_scan (r ++ [c_q]) with Some (b, t) => Some (c :: b, t) | None => None end).
  unfold c_q at 1. neq_false c 34. rewrite IH. reflexivity.
Qed.

Lemma z3_unesc_k0_cons c r :
  c <> 92 -> z3_unesc_k 0 (c :: r) = sx_byte c :: z3_unesc_k 0 r.
Proof.
  intro Hbs. destruct r as [|d r']; [reflexivity|].
  change (z3_unesc_k 0 (c :: d :: r')) with
    (if (c =? c_bs) && (d =? c_u) then
       match r' with
       | e :: r'' =>
           if (e =? c_lb) && negb (match r'' with f :: _ => f =? c_rb | [] => false end) then
             match read_hex 5 0 r'' with
             | Some (v, rest) => v :: z3_unesc_k (List.length (d :: r') - List.length rest) (d :: r')
             | None => sx_byte c :: z3_unesc_k 0 (d :: r')
             end
           else match read_hex4 r' with
                | Some (v, _) => v :: z3_unesc_k 5 (d :: r')
                | None => sx_byte c :: z3_unesc_k 0 (d :: r')
                end
       | [] => sx_byte c :: z3_unesc_k 0 (d :: r')
       end
     else sx_byte c :: z3_unesc_k 0 (d :: r')).
  unfold c_bs. neq_false c 92. reflexivity.
Qed.

Lemma z3_unesc_plain s : plain s = true -> z3_unesc s = s.
Proof.
  unfold z3_unesc. induction s as [|c r IH]; intro H; [reflexivity|]. split_plain H Hc Hr.
  rewrite z3_unesc_k0_cons by exact Hbs. rewrite IH by exact Hr.
  unfold sx_byte. replace (128 <=? c) with false by (symmetry; apply N.leb_gt; lia). reflexivity.
Qed.

(* the literal round trip on plain strings: every stage is the identity, the token ends at the
   closing quote, Z3 reads the same characters back *)
Theorem escape_roundtrip_plain s rest :
  plain s = true -> read_lit (str_lit s ++ rest) = Some (s, rest).
Proof.
  intro H. unfold str_lit.
  rewrite lstring_plain, esc_quotes_plain, fix_nul_plain by exact H.
  unfold read_lit, lex_string.
  change (([c_q] ++ s ++ [c_q]) ++ rest) with (c_q :: ((s ++ [c_q]) ++ rest)).
  rewrite <- app_assoc. change ([c_q] ++ rest) with (c_q :: rest).
  rewrite N.eqb_refl.
  rewrite lex_body_plain; [| exact H | rewrite app_length; simpl; lia].
  rewrite isla_prep_plain by exact H.
  unfold utf8. rewrite flat_map_app. fold (utf8 s). rewrite utf8_plain by exact H.
  change (flat_map utf8c [c_q]) with [c_q].
  rewrite z3_scan_plain by exact H. rewrite z3_unesc_plain by exact H. reflexivity.
Qed.

Example escape_roundtrip_plain_nonvacuous :
  plain (lit "a := (1 ; <x>)") = true /\
  read_lit (str_lit (lit "a := (1 ; <x>)") ++ [41]) = Some (lit "a := (1 ; <x>)", [41]).
Proof. split; vm_compute; reflexivity. Qed.

(* Full statement (FALSE):  forall s rest, read_lit (str_lit s ++ rest) = Some (s, rest).
   Counterexamples, one per recorded class: *)
Theorem escape_roundtrip_refuted_backslash :
  exists s, K_str_bs s = true /\ read_lit (str_lit s ++ [41]) = None.
Proof. exists [97; 92]. split; vm_compute; reflexivity. Qed.

Theorem escape_roundtrip_refuted_nonascii :
  exists s v, K_str_hi s = true /\ read_lit (str_lit s ++ [41]) = Some (v, [41]) /\ v <> s.
Proof.
  exists [233], [4294967235; 4294967209]. split; [vm_compute; reflexivity|].
  split; [vm_compute; reflexivity | discriminate].
Qed.

(* computed instances outside `plain` and outside K_str (quote, NUL, newline, harmless
   backslash, astral character): tests, not theorems *)
Example escape_roundtrip_samples :
  forallb (fun s => negb (K_str s) &&
                    match read_lit (str_lit s ++ [41]) with Some (v, r) => str_eqb v s && str_eqb r [41] | None => false end)
    [[97; 34; 98]; [0]; [0; 0; 120]; [10]; [97; 92; 98]; [92; 117; 123; 52; 49; 125]; [128512]; [92; 117];
     [34]; [34; 34]; [256]; [196607]; [127]; [92; 92; 110]] = true.
Proof. vm_compute. reflexivity. Qed.

(* ---------- the printer on concrete formulas (sanity, by computation) ---------- *)
Definition v_start := start_const.
Definition v_x := MkVar VBound (lit "x") (lit "<var>").
Example unparse_example :
  unparse (FForall v_x (InVar v_start) None
             (FAnd [FSmt (SApp KOther (lit "=") [SVar (lit "x"); SStr (lit "a")], [v_x]);
                    FNot (FSPred (lit "inside") [PVar v_x; PVar v_start])]))
  = lit "forall <var> x in start:" ++ [10] ++ lit "  ((= x ""a"") and" ++ [10] ++ lit "  not(inside(x, start)))".
Proof. vm_compute. reflexivity. Qed.

(* classes are inhabited and do not cover everything *)
Example K_classes_nonvacuous :
  K_any (FSmt (SApp KOther (lit "=") [SVar (lit "x"); SStr [97; 92]], [v_x])) = true /\
  K_any (FSmt (SApp KOther (lit "=") [SVar (lit "x"); SStr [97]], [v_x])) = false /\
  K_shadow_const (FForall (MkVar VBound (lit "start") (lit "<start>")) (InVar v_start) None
                    (FSPred (lit "inside") [PVar (MkVar VBound (lit "start") (lit "<start>")); PVar v_start])) = true.
Proof. repeat split; vm_compute; reflexivity. Qed.

(* ---------- unparse_isla raises on a re.loop with fewer than two parameters ---------- *)
(* Full statement (FALSE): forall f, exists t, unparse_res f = Ok t *)
Definition f_loop_short : cformula :=
  FForall v_x (InVar v_start) None
    (FSmt (SApp KInRe (lit "str.in_re")
             [SVar (lit "x"); SApp (KLoopShort [1]) (lit "re.loop") [SApp KOther (lit "str.to_re") [SStr (lit "a")]]],
           [v_x])).
Theorem unparse_total_refuted : exists f, unparse_res f = Raise IndexErr.
Proof. exists f_loop_short. vm_compute. reflexivity. Qed.

Theorem unparse_total_partial f : K_loop_arity f = false -> unparse_res f = Ok (unparse f).
Proof. intro H. unfold unparse_res. rewrite H. reflexivity. Qed.

Example unparse_total_partial_nonvacuous :
  K_loop_arity (FSmt (SApp KInRe (lit "str.in_re")
     [SVar (lit "x"); SApp (KLoop 1 0) (lit "re.loop") [SApp KOther (lit "str.to_re") [SStr (lit "a")]]], [v_x])) = false
  /\ smt_str (SApp (KLoop 1 0) (lit "re.loop") [SApp KOther (lit "str.to_re") [SStr (lit "a")]])
     = lit "((_ re.loop 1 0) (str.to_re ""a""))".
Proof. split; vm_compute; reflexivity. Qed.
