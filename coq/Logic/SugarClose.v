(* C08 — proof extension 4: the closure loop of close_over_free_nonterminals (no XPath expression registered)
   means the documented closure: the WHOLE formula wrapped in one `forall <T> v in start` per free nonterminal. *)
From Coq Require Import List NArith Bool Arith Lia.
Import ListNotations.
From ISLA Require Import Str Outcome Tree Grammar Formula Sugar SugarFacts SugarMore.

Lemma split_and_bvars : forall F x f, (In x (bvars f) -> In x (bvars F)) ->
  forall e, In e (split_and f) -> In x (bvars e) -> In x (bvars F).
Proof.
  intros F x. apply (split_and_prop (fun e => In x (bvars e) -> In x (bvars F))).
  intros fs g H Hg Hx. apply H. simpl. apply fvs_In. exists g; auto.
Qed.
Lemma split_or_bvars : forall F x f, (In x (bvars f) -> In x (bvars F)) ->
  forall e, In e (split_or f) -> In x (bvars e) -> In x (bvars F).
Proof.
  intros F x. apply (split_or_prop (fun e => In x (bvars e) -> In x (bvars F))).
  intros fs g H Hg Hx. apply H. simpl. apply fvs_In. exists g; auto.
Qed.

Lemma bvars_mk_comb : forall conj l x, In x (bvars (mk_comb conj l)) -> exists e, In e l /\ In x (bvars e).
Proof.
  intros conj [|a [|b l]] x H.
  - destruct conj; simpl in H; contradiction.
  - exists a. split; [left; reflexivity|exact H].
  - assert (H' : In x (fold_left vunion (map bvars (a :: b :: l)) [])) by (destruct conj; exact H).
    apply fvs_In in H'. exact H'.
Qed.

Section Inv.
  Variables (v inv : var) (qfd : list var).
  Hypothesis Hvi : v <> inv.

  Lemma wrap_inv : forall f, clean v inv f ->
    (forall x, In x (bvars (FForall v (InVar inv) None f)) -> x = v \/ In x (bvars f)) /\
    inq_ok (FForall v (InVar inv) None f) = true.
  Proof.
    intros f [_ [_ Hok]]. split.
    - intros x Hx. simpl in Hx. apply vunion_In in Hx as [Hx|Hx]; [|right; exact Hx].
      apply qbound_In in Hx as [->|[]]. left; reflexivity.
    - simpl. destruct (var_eqb inv v) eqn:E; [apply var_eqb_eq in E; congruence|]. simpl. exact Hok.
  Qed.

  Lemma comb_inv : forall n (conj : bool) (f : cform) f',
    (forall g g', push_in n v inv qfd g = Ok g' -> clean v inv g ->
        (forall x, In x (bvars g') -> x = v \/ In x (bvars g)) /\ inq_ok g' = true) ->
    let elems := if conj then split_and f else split_or f in
    (forall e, In e elems -> clean v inv e) ->
    (forall x e, In e elems -> In x (bvars e) -> In x (bvars f)) ->
    pcomb n v inv qfd f conj = Ok f' -> clean v inv f ->
    (forall x, In x (bvars f') -> x = v \/ In x (bvars f)) /\ inq_ok f' = true.
  Proof.
    intros n conj f f' IH elems Hel Hbv H Hc. unfold pcomb in H. fold elems in H.
    assert (HP : pP qfd inv elems = []).
    { apply pP_none. intros e He. destruct (Hel e He) as [_ [Hi _]]. exact Hi. }
    rewrite HP in H. simpl mapM in H. simpl bind in H.
    destruct (isnil (pI qfd elems) && isnil (@nil cform)); [inversion H; subst; apply wrap_inv; exact Hc|].
    assert (HI : forall e, In e (pI qfd elems) -> In e elems) by (intros e He; apply pI_In in He; tauto).
    assert (HR : forall O', (forall o, In o O' -> (forall x, In x (bvars o) -> x = v \/ In x (bvars f)) /\ inq_ok o = true) ->
               forall r, r = pI qfd elems ++ [] ++ O' ->
               (forall x, In x (bvars (if conj then FAnd r else FOr r)) -> x = v \/ In x (bvars f)) /\
               inq_ok (if conj then FAnd r else FOr r) = true).
    { intros O' HO r ->. split.
      - intros x Hx. assert (Hx' : In x (fold_left vunion (map bvars (pI qfd elems ++ [] ++ O')) [])) by (destruct conj; exact Hx).
        apply fvs_In in Hx' as [e [He Hxe]]. apply in_app_iff in He as [He|He].
        + right. apply (Hbv x e (HI e He) Hxe).
        + simpl in He. destruct (HO e He) as [Hb _]. apply Hb; exact Hxe.
      - assert (A : forallb inq_ok (pI qfd elems ++ [] ++ O') = true).
        { apply forallb_forall. intros e He. apply in_app_iff in He as [He|He].
          - destruct (Hel e (HI e He)) as [_ [_ Hok]]; exact Hok.
          - simpl in He. destruct (HO e He) as [_ Hok]; exact Hok. }
        destruct conj; exact A. }
    destruct (pO qfd inv elems) as [|o1 Or] eqn:EO.
    - simpl in H. destruct (Nat.ltb 1 (length (pI qfd elems ++ []))); [|discriminate].
      inversion H; subst f'. apply (HR []); [intros o []|reflexivity].
    - destruct (push_in n v inv qfd (mk_comb conj (o1 :: Or))) as [o|ex] eqn:Eo; simpl in H; [|discriminate].
      destruct (Nat.ltb 1 (length (pI qfd elems ++ [o]))); [|discriminate].
      inversion H; subst f'. apply (HR [o]); [|reflexivity]. intros o' [<-|[]].
      assert (HOel : forall e, In e (o1 :: Or) -> In e elems) by (intros e He; rewrite <- EO in He; apply pO_In in He; exact He).
      destruct (IH _ _ Eo) as [Hb Hok].
      + apply clean_mk. intros e He. apply Hel, HOel, He.
      + split; [|exact Hok]. intros x Hx. apply Hb in Hx as [->|Hx]; [left; reflexivity|right].
        apply bvars_mk_comb in Hx as [e [He Hxe]]. apply (Hbv x e (HOel e He) Hxe).
  Qed.

  Lemma push_in_inv : forall n f f', push_in n v inv qfd f = Ok f' -> clean v inv f ->
    (forall x, In x (bvars f') -> x = v \/ In x (bvars f)) /\ inq_ok f' = true.
  Proof.
    induction n as [|n IH]; intros f f' H Hc; [discriminate|]. rewrite push_in_S in H.
    destruct (isnil (vinter qfd (fv f))).
    { inversion H; subst f'. split; [auto|]. destruct Hc as [_ [_ Hok]]; exact Hok. }
    destruct f as [a|p args|p args|g|fs|fs|w i m b|w i m b|w b|w b];
      try (inversion H; subst f'; apply wrap_inv; exact Hc).
    - apply (comb_inv n true (FAnd fs) f' IH); [|intros x e He Hx; apply (split_and_bvars (FAnd fs) x (FAnd fs) (fun h => h) e He Hx)|exact H|exact Hc].
      apply (split_and_prop (clean v inv) (clean_and v inv)). exact Hc.
    - apply (comb_inv n false (FOr fs) f' IH); [|intros x e He Hx; apply (split_or_bvars (FOr fs) x (FOr fs) (fun h => h) e He Hx)|exact H|exact Hc].
      apply (split_or_prop (clean v inv) (clean_or v inv)). exact Hc.
    - destruct (negb (invar_eqb (InVar v) i)); [|inversion H; subst f'; apply wrap_inv; exact Hc].
      destruct (push_in n v inv qfd b) as [b'|ex] eqn:Eb; simpl in H; [|discriminate].
      inversion H; subst f'. destruct (clean_forall _ _ _ _ _ _ Hc) as [Hcb _].
      destruct (IH _ _ Eb Hcb) as [Hb Hok]. split.
      + intros x Hx. simpl in Hx. apply vunion_In in Hx as [Hx|Hx].
        * right. simpl. apply vunion_In. left; exact Hx.
        * apply Hb in Hx as [->|Hx]; [left; reflexivity|right]. simpl. apply vunion_In. right; exact Hx.
      + destruct Hc as [_ [_ Hq]]. simpl in Hq. apply andb_true_iff in Hq as [Hq _]. simpl. rewrite Hq, Hok. reflexivity.
  Qed.
End Inv.

(* documented closure: one universal quantifier in `start` per variable around the whole formula
   (the first variable of the list becomes the innermost quantifier, as in the loop) *)
Definition nest (l : list var) (f : cform) : cform :=
  fold_left (fun acc v => FForall v (InVar start_c) None acc) l f.

Lemma fold_bind_raise : forall {X P} (h : P -> X -> res X) l e,
  fold_left (fun acc p => bind acc (h p)) l (Raise e) = Raise e.
Proof. intros X P h l e. induction l as [|p l IH]; simpl; [reflexivity|exact IH]. Qed.

Lemma fold_bind_inv : forall {X P} (h : P -> X -> res X) l p x y,
  fold_left (fun acc p => bind acc (h p)) (p :: l) (Ok x) = Ok y ->
  exists x1, h p x = Ok x1 /\ fold_left (fun acc p => bind acc (h p)) l (Ok x1) = Ok y.
Proof.
  intros X P h l p x y H. simpl in H. destruct (h p x) as [x1|e] eqn:E; [exists x1; auto|].
  rewrite fold_bind_raise in H. discriminate.
Qed.

Section Loop.
  Variable D : Type.
  Variable aev : N -> list D -> bool.
  Variable pev : str -> list (D + str) -> bool.
  Variable dom : D -> var -> option mexpr -> list (list (var * D)).
  Variable idom : list D.
  Variable tval : tree -> D.
  Hypothesis dom_keys : forall d v m asg, In asg (dom d v m) ->
    forall x, existsb (fun p => var_eqb (fst p) x) asg = vmem x (qbound v m).
  Notation ev := (ev D aev pev dom idom tval).

  (* congruence of the nest under environments that agree on start *)
  Lemma nest_congr : forall l f g (rho : var -> D),
    ~ In start_c l ->
    (forall rho' : var -> D, rho' start_c = rho start_c -> ev rho' f = ev rho' g) ->
    ev rho (nest l f) = ev rho (nest l g).
  Proof.
    induction l as [|v l IH]; intros f g rho Hs H; simpl; [apply H; reflexivity|].
    apply IH; [intros Hin; apply Hs; right; exact Hin|]. intros rho' Hr. simpl.
    apply forallb_in_ext2. intros asg Ha. apply H. rewrite <- Hr.
    apply upds_key. rewrite (dom_keys _ _ _ _ Ha). apply vmem_false. intros Hx.
    apply qbound_In in Hx as [Hx|[]]. apply Hs. left. symmetry; exact Hx.
  Qed.

  Theorem close_loop_sound : forall (l : list var) f f' (rho : var -> D),
    fold_left (fun acc v => bind acc (fun g => push_in (S (fsize g)) v start_c [v] g)) l (Ok f) = Ok f' ->
    NoDup l -> ~ In start_c l ->
    (forall v, In v l -> ~ In v (bvars f)) -> ~ In start_c (bvars f) -> inq_ok f = true ->
    (forall v, In v l -> dom (rho start_c) v None <> []) ->
    ev rho f' = ev rho (nest l f).
  Proof.
    induction l as [|v l IH]; intros f f' rho H Hnd Hs Hbv Hsb Hok Hne.
    - inversion H; subst; reflexivity.
    - apply (fold_bind_inv (fun v g => push_in (S (fsize g)) v start_c [v] g)) in H as [f1 [E1 H]].
      assert (Hc : clean v start_c f).
      { repeat split; [apply Hbv; left; reflexivity|exact Hsb|exact Hok]. }
      assert (Hvs : v <> start_c) by (intros ->; apply Hs; left; reflexivity).
      destruct (push_in_inv v start_c [v] Hvs _ _ _ E1 Hc) as [Hb1 Hok1].
      inversion Hnd as [|? ? Hnv Hnd']; subst.
      simpl. rewrite (IH f1 f' rho H Hnd').
      + apply nest_congr; [intros Hin; apply Hs; right; exact Hin|]. intros rho' Hr.
        apply (push_in_sound D aev pev dom idom tval dom_keys v start_c [v] (or_introl eq_refl) _ _ _ rho' E1 Hc).
        rewrite Hr. apply Hne. left; reflexivity.
      + intros Hin; apply Hs; right; exact Hin.
      + intros w Hw Hx. apply Hb1 in Hx as [->|Hx]; [exact (Hnv Hw)|]. apply (Hbv w (or_intror Hw) Hx).
      + intros Hx. apply Hb1 in Hx as [Hx|Hx]; [apply Hs; left; symmetry; exact Hx|exact (Hsb Hx)].
      + exact Hok1.
      + intros w Hw. apply Hne. right; exact Hw.
  Qed.
End Loop.

Lemma fold_left_map_snd : forall {A P Q} (F : A -> Q -> A) (l : list (P * Q)) a,
  fold_left (fun acc p => F acc (snd p)) l a = fold_left F (map snd l) a.
Proof. intros A P Q F l. induction l as [|p l IH]; intros a; simpl; [reflexivity|apply IH]. Qed.

Lemma filter_all : forall {X} (l : list X), filter (fun _ => true) l = l.
Proof. intros X l. induction l as [|x l IH]; simpl; [reflexivity|rewrite IH; reflexivity]. Qed.

(* close_over_free_nonterminals without XPath expressions == the documented closure of the whole formula, outside
   K_pushin_empty; the variable conditions hold for the names invented by register_var_for_free_nonterminal unless
   they clash (K_fresh_clash) *)
Theorem close_fnt_sound : forall (D : Type) aev pev (dom : D -> var -> option mexpr -> list (list (var * D))) idom tval,
  (forall d v m asg, In asg (dom d v m) -> forall x, existsb (fun p => var_eqb (fst p) x) asg = vmem x (qbound v m)) ->
  forall used st f f' u xp rho,
    w_xp st = [] ->
    close_fnt used st f = Ok (f', u, xp) ->
    let vs := map snd (rev (w_fnt st)) in
    NoDup vs -> ~ In start_c vs ->
    (forall v, In v vs -> ~ In v (bvars f)) -> ~ In start_c (bvars f) -> inq_ok f = true ->
    (forall v, In v vs -> K_pushin_empty D dom tval rho v (InVar start_c) None = false) ->
    ev D aev pev dom idom tval rho f' = ev D aev pev dom idom tval rho (nest vs f).
Proof.
  intros D aev pev dom idom tval Hk used st f f' u xp rho Hx H vs Hnd Hs Hbv Hsb Hok Hne.
  unfold close_fnt in H. rewrite Hx in H. cbn [existsb negb] in H. rewrite filter_all in H.
  rewrite (fold_left_map_snd (fun acc v => bind acc (fun g => push_in (S (fsize g)) v start_c [v] g))) in H.
  fold vs in H.
  destruct (fold_left (fun acc v => bind acc (fun g => push_in (S (fsize g)) v start_c [v] g)) vs (Ok f)) as [f1|ex] eqn:E;
    [|discriminate].
  cbn in H. inversion H; subst f1.
  apply (close_loop_sound D aev pev dom idom tval Hk vs f f' rho E Hnd Hs Hbv Hsb Hok).
  intros v Hv E0. specialize (Hne v Hv). unfold K_pushin_empty in Hne. simpl in Hne. rewrite E0 in Hne. discriminate.
Qed.

(* non-vacuity: the state after walking `<a> = "x" and <b> = "y"`; the loop yields exactly sugar_wit (the AST of the
   refutation witness), the documented nest is doc_wit; on a domain where <b> exists all guards hold *)
Definition st_wit : wst := MkW [(nt 97, va); (nt 98, vb)] [].
Example close_fnt_nonvacuous :
  close_fnt [] st_wit (FAnd [at_a; at_b]) = Ok (sugar_wit, [], []) /\
  nest (map snd (rev (w_fnt st_wit))) (FAnd [at_a; at_b]) = doc_wit /\
  NoDup (map snd (rev (w_fnt st_wit))) /\ ~ In start_c (map snd (rev (w_fnt st_wit))) /\
  (forall v, In v (map snd (rev (w_fnt st_wit))) -> ~ In v (bvars (FAnd [at_a; at_b]))) /\
  ~ In start_c (bvars (FAnd [at_a; at_b])) /\ inq_ok (FAnd [at_a; at_b]) = true /\
  (forall v, In v (map snd (rev (w_fnt st_wit))) ->
     K_pushin_empty str (dom_k (fun _ => [121]%N)) (fun _ => []) rho0 v (InVar start_c) None = false).
Proof.
  repeat split; try (vm_compute; reflexivity).
  - simpl. repeat constructor; simpl; intuition discriminate.
  - simpl. intuition discriminate.
  - simpl. intuition.
  - simpl. intuition.
Qed.
