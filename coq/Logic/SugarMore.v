(* C08 — proof extension 1: variable-set lemmas, extensionality and the COINCIDENCE lemma of the abstract
   evaluation `ev` (a formula's meaning depends only on its free variables, as computed by the model's `fv`
   = Python free_variables()), and the soundness of the ACTUAL recursive `push_in`
   (univ_close_over_var_push_in) of Logic/Sugar.v.  Imports the existing files, changes nothing there. *)
From Coq Require Import List NArith Bool Arith Lia.
Import ListNotations.
From ISLA Require Import Str Outcome Tree Grammar Formula Sugar SugarFacts.

(* ---------- var_eqb is an equality decider ---------- *)
Lemma vkind_eqb_refl : forall a, vkind_eqb a a = true.
Proof. intros []; reflexivity. Qed.

Lemma var_eqb_refl : forall a, var_eqb a a = true.
Proof. intros [k n t]. unfold var_eqb; simpl. rewrite vkind_eqb_refl, !str_eqb_refl. reflexivity. Qed.

Lemma var_eqb_iff : forall a b, var_eqb a b = true <-> a = b.
Proof. intros a b; split; [apply var_eqb_eq|intros ->; apply var_eqb_refl]. Qed.

Lemma var_eqb_sym : forall a b, var_eqb a b = var_eqb b a.
Proof.
  intros a b. destruct (var_eqb a b) eqn:E.
  - apply var_eqb_eq in E; subst. symmetry; apply var_eqb_refl.
  - destruct (var_eqb b a) eqn:E2; [|reflexivity]. apply var_eqb_eq in E2; subst. rewrite var_eqb_refl in E. discriminate.
Qed.

Lemma vmem_In : forall v l, vmem v l = true <-> In v l.
Proof.
  intros v l. unfold vmem. rewrite existsb_exists. split.
  - intros [x [Hx E]]. apply var_eqb_eq in E; subst; exact Hx.
  - intros H. exists v. split; [exact H|apply var_eqb_refl].
Qed.

Lemma vmem_false : forall v l, vmem v l = false <-> ~ In v l.
Proof.
  intros v l. split.
  - intros H Hin. apply vmem_In in Hin. congruence.
  - intros H. destruct (vmem v l) eqn:E; [|reflexivity]. apply vmem_In in E. contradiction.
Qed.

Lemma vadd_In : forall x v l, In x (vadd v l) <-> x = v \/ In x l.
Proof.
  intros x v l. unfold vadd. destruct (vmem v l) eqn:E.
  - apply vmem_In in E. split; [auto|]. intros [->|H]; auto.
  - rewrite in_app_iff. simpl. split; [intros [H|[H|[]]]; auto|intros [H|H]; auto].
Qed.

Lemma vunion_In : forall x b a, In x (vunion a b) <-> In x a \/ In x b.
Proof.
  intros x b. unfold vunion. induction b as [|y b IH]; intros a; simpl.
  - split; [auto|intros [H|[]]; exact H].
  - rewrite IH, vadd_In. split; [intros [[H|H]|H]|intros [H|[H|H]]]; auto.
Qed.

Lemma vdiff_In : forall x a b, In x (vdiff a b) <-> In x a /\ ~ In x b.
Proof.
  intros x a b. unfold vdiff. rewrite filter_In. rewrite negb_true_iff, vmem_false. reflexivity.
Qed.

Lemma fold_vunion_In : forall x (ls : list (list var)) acc,
  In x (fold_left vunion ls acc) <-> In x acc \/ exists l, In l ls /\ In x l.
Proof.
  intros x ls. induction ls as [|l ls IH]; intros acc; simpl.
  - split; [auto|intros [H|[l [[] _]]]; exact H].
  - rewrite IH, vunion_In. split.
    + intros [[H|H]|[l' [H1 H2]]]; [auto|right; exists l; auto|right; exists l'; auto].
    + intros [H|[l' [[->|H1] H2]]]; [auto|auto|right; exists l'; auto].
Qed.

Lemma fvs_In : forall x (h : cform -> list var) fs,
  In x (fold_left vunion (map h fs) []) <-> exists f, In f fs /\ In x (h f).
Proof.
  intros x h fs. rewrite fold_vunion_In. split.
  - intros [[]|[l [Hl Hx]]]. apply in_map_iff in Hl as [f [<- Hf]]. exists f; auto.
  - intros [f [Hf Hx]]. right. exists (h f). split; [apply in_map; exact Hf|exact Hx].
Qed.

Lemma isnil_vinter : forall q l, isnil (vinter q l) = true <-> forall x, In x q -> ~ In x l.
Proof.
  intros q l. unfold vinter. split.
  - intros H x Hq Hl. assert (Hin : In x (filter (fun v => vmem v l) q)).
    { apply filter_In. split; [exact Hq|apply vmem_In; exact Hl]. }
    destruct (filter (fun v => vmem v l) q); [contradiction|discriminate].
  - intros H. destruct (filter (fun v => vmem v l) q) as [|y r] eqn:E; [reflexivity|].
    assert (Hin : In y (filter (fun v => vmem v l) q)) by (rewrite E; left; reflexivity).
    apply filter_In in Hin as [Hq Hl]. apply vmem_In in Hl. exfalso. exact (H y Hq Hl).
Qed.

Lemma parg_vars_In_gen : forall x args acc,
  In x (fold_left (fun acc a => match a with PVar v => vadd v acc | _ => acc end) args acc) <->
  In x acc \/ In (PVar x) args.
Proof.
  intros x args. induction args as [|a args IH]; intros acc; simpl.
  - split; [auto|intros [H|[]]; exact H].
  - rewrite IH. destruct a as [v|s|t].
    + rewrite vadd_In. split; [intros [[->|H]|H]; auto|intros [H|[H|H]]; auto]. inversion H; auto.
    + split; [intros [H|H]; auto|intros [H|[H|H]]; auto]. discriminate.
    + split; [intros [H|H]; auto|intros [H|[H|H]]; auto]. discriminate.
Qed.

Lemma parg_vars_In : forall x args, In x (parg_vars args) <-> In (PVar x) args.
Proof. intros x args. unfold parg_vars. rewrite parg_vars_In_gen. split; [intros [[]|H]; exact H|auto]. Qed.

Lemma qbound_In : forall x v m, In x (qbound v m) <-> x = v \/ In x (me_bound m).
Proof. intros x v m. unfold qbound. rewrite vunion_In. simpl. split; [intros [[H|[]]|H]; auto|intros [H|H]; auto]. Qed.

(* ---------- well-scopedness needed by the coincidence lemma ----------
   Python's free_variables() of a quantifier removes the bound variables from {in_variable} + fv(body): an
   in-variable that is bound by the SAME quantifier (class K_fresh_clash, C08_fresh_clash_refuted) is not reported
   free although the evaluation reads it from the environment.  [inq_ok f]: no quantifier of f ranges over one
   of its own bound variables. *)
Fixpoint inq_ok (f : cform) : bool :=
  match f with
  | FNot x => inq_ok x
  | FAnd fs | FOr fs => forallb inq_ok fs
  | FForall v i m b | FExists v i m b =>
      match i with InVar w => negb (vmem w (qbound v m)) | InTree _ => true end && inq_ok b
  | FForallInt _ b | FExistsInt _ b => inq_ok b
  | _ => true
  end.

Section Sem2.
  Variable D : Type.
  Variable aev : N -> list D -> bool.
  Variable pev : str -> list (D + str) -> bool.
  Variable dom : D -> var -> option mexpr -> list (list (var * D)).
  Variable idom : list D.
  Variable tval : tree -> D.
  (* the assignments of a quantifier domain bind exactly the quantifier's variable and the bound variables of its
     match expression (spec-side premise about `dom`; satisfied by matching derivation trees) *)
  Hypothesis dom_keys : forall d v m asg, In asg (dom d v m) ->
    forall x, existsb (fun p => var_eqb (fst p) x) asg = vmem x (qbound v m).

  Notation ev := (ev D aev pev dom idom tval).
  Notation upds := (upds D).
  Notation ival := (ival D tval).
  Notation env := (var -> D).

  Lemma upds_key : forall (rho : env) asg x,
    existsb (fun p => var_eqb (fst p) x) asg = false -> upds rho asg x = rho x.
  Proof.
    intros rho asg x H. unfold SugarFacts.upds.
    destruct (find (fun p => var_eqb (fst p) x) asg) as [p|] eqn:E; [|reflexivity].
    apply find_some in E as [Hin Hp]. assert (existsb (fun p => var_eqb (fst p) x) asg = true).
    { apply existsb_exists. exists p; auto. } congruence.
  Qed.

  Lemma upds_same : forall (rho rho' : env) asg x,
    existsb (fun p => var_eqb (fst p) x) asg = true -> upds rho asg x = upds rho' asg x.
  Proof.
    intros rho rho' asg x H. unfold SugarFacts.upds.
    destruct (find (fun p => var_eqb (fst p) x) asg) as [p|] eqn:E; [reflexivity|].
    apply existsb_exists in H as [p [Hin Hp]]. apply (find_none _ _ E) in Hin. congruence.
  Qed.

  Lemma forallb_in_ext2 : forall {X} (f g : X -> bool) l, (forall x, In x l -> f x = g x) -> forallb f l = forallb g l.
  Proof. intros X f g l H. induction l as [|x l IH]; simpl; [reflexivity|].
         rewrite (H x (or_introl eq_refl)), IH; [reflexivity|]. intros y Hy. apply H. right; exact Hy. Qed.
  Lemma existsb_in_ext2 : forall {X} (f g : X -> bool) l, (forall x, In x l -> f x = g x) -> existsb f l = existsb g l.
  Proof. intros X f g l H. induction l as [|x l IH]; simpl; [reflexivity|].
         rewrite (H x (or_introl eq_refl)), IH; [reflexivity|]. intros y Hy. apply H. right; exact Hy. Qed.

  (* COINCIDENCE: the meaning of a (well-scoped) formula depends only on the variables that the model's `fv`
     (= free_variables()) reports *)
  Lemma ev_coincidence : forall f, inq_ok f = true -> forall rho rho' : env,
    (forall x, In x (fv f) -> rho x = rho' x) -> ev rho f = ev rho' f.
  Proof.
    intros f. induction f as [a|n args|n args|g IH|fs IH|fs IH|v i m b IH|v i m b IH|v b IH|v b IH]
      using formula_ind'; intros Hok rho rho' H; simpl in *.
    - unfold atom_ev. destruct (at_id a =? 0)%N; [reflexivity|]. do 2 f_equal.
      apply map_ext_in. intros x Hx. apply H. apply vunion_In. right; exact Hx.
    - f_equal. apply map_ext_in. intros [x|s|t] Hx; simpl; [|reflexivity|reflexivity].
      f_equal. apply H. apply parg_vars_In. exact Hx.
    - f_equal. apply map_ext_in. intros [x|s|t] Hx; simpl; [|reflexivity|reflexivity].
      f_equal. apply H. apply parg_vars_In. exact Hx.
    - f_equal. apply IH; assumption.
    - apply forallb_in_ext2. intros g Hg. rewrite Forall_forall in IH. rewrite forallb_forall in Hok.
      apply IH; [exact Hg|apply Hok; exact Hg|]. intros x Hx. apply H. apply fvs_In. exists g; auto.
    - apply existsb_in_ext2. intros g Hg. rewrite Forall_forall in IH. rewrite forallb_forall in Hok.
      apply IH; [exact Hg|apply Hok; exact Hg|]. intros x Hx. apply H. apply fvs_In. exists g; auto.
    - apply andb_true_iff in Hok as [Hi Hb].
      assert (Hiv : ival rho i = ival rho' i).
      { destruct i as [w|t]; simpl; [|reflexivity]. apply H. apply vdiff_In. split.
        - apply vunion_In. left. left. reflexivity.
        - apply negb_true_iff in Hi. apply vmem_false in Hi. exact Hi. }
      rewrite <- Hiv. apply forallb_in_ext2. intros asg Hasg. apply IH; [exact Hb|].
      intros x Hx. destruct (existsb (fun p => var_eqb (fst p) x) asg) eqn:E.
      + apply upds_same; exact E.
      + rewrite !upds_key by exact E. apply H. apply vdiff_In. split.
        * apply vunion_In. right; exact Hx.
        * rewrite (dom_keys _ _ _ _ Hasg) in E. apply vmem_false in E. exact E.
    - apply andb_true_iff in Hok as [Hi Hb].
      assert (Hiv : ival rho i = ival rho' i).
      { destruct i as [w|t]; simpl; [|reflexivity]. apply H. apply vdiff_In. split.
        - apply vunion_In. left. left. reflexivity.
        - apply negb_true_iff in Hi. apply vmem_false in Hi. exact Hi. }
      rewrite <- Hiv. apply existsb_in_ext2. intros asg Hasg. apply IH; [exact Hb|].
      intros x Hx. destruct (existsb (fun p => var_eqb (fst p) x) asg) eqn:E.
      + apply upds_same; exact E.
      + rewrite !upds_key by exact E. apply H. apply vdiff_In. split.
        * apply vunion_In. right; exact Hx.
        * rewrite (dom_keys _ _ _ _ Hasg) in E. apply vmem_false in E. exact E.
    - apply forallb_in_ext2. intros d _. apply IH; [exact Hok|]. intros x Hx.
      destruct (existsb (fun p => var_eqb (fst p) x) [(v, d)]) eqn:E.
      + apply upds_same; exact E.
      + rewrite !upds_key by exact E. apply H. apply vdiff_In. split; [exact Hx|].
        simpl in E. rewrite orb_false_r in E. intros [Hv|[]]. subst x. rewrite var_eqb_refl in E. discriminate.
    - apply existsb_in_ext2. intros d _. apply IH; [exact Hok|]. intros x Hx.
      destruct (existsb (fun p => var_eqb (fst p) x) [(v, d)]) eqn:E.
      + apply upds_same; exact E.
      + rewrite !upds_key by exact E. apply H. apply vdiff_In. split; [exact Hx|].
        simpl in E. rewrite orb_false_r in E. intros [Hv|[]]. subst x. rewrite var_eqb_refl in E. discriminate.
  Qed.

  (* extensionality (no scoping condition) *)
  Lemma ev_ext : forall f (rho rho' : env), (forall x, rho x = rho' x) -> ev rho f = ev rho' f.
  Proof.
    intros f. induction f as [a|n args|n args|g IH|fs IH|fs IH|v i m b IH|v i m b IH|v b IH|v b IH]
      using formula_ind'; intros rho rho' H; simpl.
    - unfold atom_ev. destruct (at_id a =? 0)%N; [reflexivity|]. do 2 f_equal. apply map_ext. exact H.
    - f_equal. apply map_ext. intros [x|s|t]; simpl; [rewrite H|..]; reflexivity.
    - f_equal. apply map_ext. intros [x|s|t]; simpl; [rewrite H|..]; reflexivity.
    - f_equal. apply IH; exact H.
    - apply forallb_in_ext2. intros g Hg. rewrite Forall_forall in IH. apply IH; assumption.
    - apply existsb_in_ext2. intros g Hg. rewrite Forall_forall in IH. apply IH; assumption.
    - assert (Hiv : ival rho i = ival rho' i) by (destruct i; simpl; [apply H|reflexivity]).
      rewrite <- Hiv. apply forallb_in_ext2. intros asg _. apply IH. intros x. unfold SugarFacts.upds.
      destruct (find (fun p => var_eqb (fst p) x) asg); [reflexivity|apply H].
    - assert (Hiv : ival rho i = ival rho' i) by (destruct i; simpl; [apply H|reflexivity]).
      rewrite <- Hiv. apply existsb_in_ext2. intros asg _. apply IH. intros x. unfold SugarFacts.upds.
      destruct (find (fun p => var_eqb (fst p) x) asg); [reflexivity|apply H].
    - apply forallb_in_ext2. intros d _. apply IH. intros x. unfold SugarFacts.upds.
      destruct (find (fun p => var_eqb (fst p) x) [(v, d)]); [reflexivity|apply H].
    - apply existsb_in_ext2. intros d _. apply IH. intros x. unfold SugarFacts.upds.
      destruct (find (fun p => var_eqb (fst p) x) [(v, d)]); [reflexivity|apply H].
  Qed.

  (* ---------- generic list facts ---------- *)
  Lemma forallb_part3 : forall {X} (p a c : X -> bool) l,
    forallb p l = forallb p (filter a l) &&
                  (forallb p (filter (fun e => negb (a e) && c e) l) &&
                   forallb p (filter (fun e => negb (a e) && negb (c e)) l)).
  Proof.
    intros X p a c l. induction l as [|x l IH]; simpl; [reflexivity|]. rewrite IH.
    destruct (a x), (c x); simpl; destruct (p x); simpl;
      destruct (forallb p (filter a l)), (forallb p (filter (fun e => negb (a e) && c e) l)),
               (forallb p (filter (fun e => negb (a e) && negb (c e)) l)); reflexivity.
  Qed.

  Lemma existsb_part3 : forall {X} (p a c : X -> bool) l,
    existsb p l = existsb p (filter a l) ||
                  (existsb p (filter (fun e => negb (a e) && c e) l) ||
                   existsb p (filter (fun e => negb (a e) && negb (c e)) l)).
  Proof.
    intros X p a c l. induction l as [|x l IH]; simpl; [reflexivity|]. rewrite IH.
    destruct (a x), (c x); simpl; destruct (p x); simpl;
      destruct (existsb p (filter a l)), (existsb p (filter (fun e => negb (a e) && c e) l)),
               (existsb p (filter (fun e => negb (a e) && negb (c e)) l)); reflexivity.
  Qed.

  Lemma filter_none : forall {X} (q : X -> bool) l, (forall x, In x l -> q x = false) -> filter q l = [].
  Proof.
    intros X q l H. induction l as [|x l IH]; simpl; [reflexivity|].
    rewrite (H x (or_introl eq_refl)). apply IH. intros y Hy. apply H. right; exact Hy.
  Qed.

  Lemma forallb_or_const : forall {X} (c : bool) (q : X -> bool) l,
    forallb (fun a => c || q a) l = c || forallb q l.
  Proof. intros X c q l. destruct c; simpl; [|reflexivity]. induction l; simpl; auto. Qed.

  Lemma forallb_swap : forall {X Y} (p : X -> Y -> bool) la lb,
    forallb (fun a => forallb (fun b => p a b) lb) la = forallb (fun b => forallb (fun a => p a b) la) lb.
  Proof.
    intros X Y p la lb. induction la as [|a la IH]; simpl.
    - induction lb; simpl; auto.
    - rewrite IH. rewrite <- (forallb_and_split (fun b => p a b) (fun b => forallb (fun a0 => p a0 b) la)). reflexivity.
  Qed.

  Lemma mapM_Forall2 : forall {X Y} (h : X -> res Y) l l', mapM h l = Ok l' -> Forall2 (fun x y => h x = Ok y) l l'.
  Proof.
    intros X Y h l. induction l as [|x l IH]; intros l' H; simpl in H.
    - inversion H; constructor.
    - destruct (h x) as [y|e] eqn:E; simpl in H; [|discriminate].
      destruct (mapM h l) as [ys|e] eqn:E2; simpl in H; [|discriminate]. inversion H; subst.
      constructor; [exact E|apply IH; reflexivity].
  Qed.

  (* ---------- sub-elements inherit properties ---------- *)
  Lemma split_and_prop : forall (Q : cform -> Prop),
    (forall fs g, Q (FAnd fs) -> In g fs -> Q g) ->
    forall f, Q f -> forall e, In e (split_and f) -> Q e.
  Proof.
    intros Q HQ f. induction f as [a|n args|n args|g IH|fs IH|fs IH|v i m b IH|v i m b IH|v b IH|v b IH]
      using formula_ind'; intros Hf e He; simpl in He; try (destruct He as [<-|[]]; exact Hf).
    apply in_flat_map in He as [g [Hg He]]. rewrite Forall_forall in IH. apply (IH g Hg); [|exact He].
    apply (HQ fs); assumption.
  Qed.

  Lemma split_or_prop : forall (Q : cform -> Prop),
    (forall fs g, Q (FOr fs) -> In g fs -> Q g) ->
    forall f, Q f -> forall e, In e (split_or f) -> Q e.
  Proof.
    intros Q HQ f. induction f as [a|n args|n args|g IH|fs IH|fs IH|v i m b IH|v i m b IH|v b IH|v b IH]
      using formula_ind'; intros Hf e He; simpl in He; try (destruct He as [<-|[]]; exact Hf).
    apply in_flat_map in He as [g [Hg He]]. rewrite Forall_forall in IH. apply (IH g Hg); [|exact He].
    apply (HQ fs); assumption.
  Qed.

  (* ---------- univ_close_over_var_push_in: the recursive function is sound ----------
     [clean v inv f]: the formula to close does not re-bind the new variable v nor the container variable inv
     (so the documented `forall v in inv: f` is well-scoped), and is well-scoped itself. *)
  Definition clean (v inv : var) (f : cform) : Prop :=
    ~ In v (bvars f) /\ ~ In inv (bvars f) /\ inq_ok f = true.

  Lemma clean_and : forall v inv fs g, clean v inv (FAnd fs) -> In g fs -> clean v inv g.
  Proof.
    intros v inv fs g [Hv [Hi Hok]] Hg. simpl in *. rewrite forallb_forall in Hok. repeat split.
    - intros H. apply Hv. apply fvs_In. exists g; auto.
    - intros H. apply Hi. apply fvs_In. exists g; auto.
    - apply Hok; exact Hg.
  Qed.
  Lemma clean_or : forall v inv fs g, clean v inv (FOr fs) -> In g fs -> clean v inv g.
  Proof.
    intros v inv fs g [Hv [Hi Hok]] Hg. simpl in *. rewrite forallb_forall in Hok. repeat split.
    - intros H. apply Hv. apply fvs_In. exists g; auto.
    - intros H. apply Hi. apply fvs_In. exists g; auto.
    - apply Hok; exact Hg.
  Qed.
  Lemma clean_mk : forall v inv conj l, (forall e, In e l -> clean v inv e) -> clean v inv (mk_comb conj l).
  Proof.
    intros v inv conj l H.
    assert (HA : clean v inv (FAnd l) /\ clean v inv (FOr l)).
    { split; (repeat split; simpl;
        [intros Hx; apply fvs_In in Hx as [g [Hg Hx]]; destruct (H g Hg) as [H1 _]; exact (H1 Hx)
        |intros Hx; apply fvs_In in Hx as [g [Hg Hx]]; destruct (H g Hg) as [_ [H1 _]]; exact (H1 Hx)
        |apply forallb_forall; intros g Hg; destruct (H g Hg) as [_ [_ H1]]; exact H1]). }
    destruct HA as [HA HO]. unfold mk_comb. destruct l as [|x [|y l]]; try (destruct conj; assumption).
    apply H. left; reflexivity.
  Qed.
  Lemma clean_forall : forall v inv w i m b, clean v inv (FForall w i m b) ->
    clean v inv b /\ ~ In v (qbound w m) /\ ~ In inv (qbound w m).
  Proof.
    intros v inv w i m b [Hv [Hi Hok]]. simpl in *. apply andb_true_iff in Hok as [_ Hok].
    repeat split; try (intros H; (apply Hv + apply Hi); apply vunion_In; auto); exact Hok.
  Qed.

  Definition pI (qfd : list var) (elems : list cform) := filter (fun e => isnil (vinter qfd (fv e))) elems.
  Definition pP (qfd : list var) (inv : var) (elems : list cform) :=
    filter (fun e => negb (isnil (vinter qfd (fv e))) && vmem inv (bvars e)) elems.
  Definition pO (qfd : list var) (inv : var) (elems : list cform) :=
    filter (fun e => negb (isnil (vinter qfd (fv e))) && negb (vmem inv (bvars e))) elems.
  Definition pcomb (n' : nat) (v inv : var) (qfd : list var) (f : cform) (conj : bool) : res cform :=
    let elems := if conj then split_and f else split_or f in
    if isnil (pI qfd elems) && isnil (pP qfd inv elems) then Ok (FForall v (InVar inv) None f) else
    bind (mapM (push_in n' v inv qfd) (pP qfd inv elems)) (fun P' =>
    bind (match pO qfd inv elems with [] => Ok [] | _ => bind (push_in n' v inv qfd (mk_comb conj (pO qfd inv elems))) (fun o => Ok [o]) end)
         (fun O' =>
      let r := pI qfd elems ++ P' ++ O' in
      if Nat.ltb 1 (length r) then Ok (if conj then FAnd r else FOr r) else Raise AssertErr)).

  Lemma push_in_S : forall n' v inv qfd f,
    push_in (S n') v inv qfd f =
    if isnil (vinter qfd (fv f)) then Ok f else
    match f with
    | FAnd _ => pcomb n' v inv qfd f true
    | FOr _ => pcomb n' v inv qfd f false
    | FForall w i m b =>
        if negb (invar_eqb (InVar v) i) then
          bind (push_in n' v inv qfd b) (fun b' => Ok (FForall w i m b'))
        else Ok (FForall v (InVar inv) None f)
    | _ => Ok (FForall v (InVar inv) None f)
    end.
  Proof. intros n' v inv qfd f. destruct f; reflexivity. Qed.

  Lemma upds_comm : forall (rho : env) a1 a2,
    (forall x, existsb (fun p => var_eqb (fst p) x) a1 = true -> existsb (fun p => var_eqb (fst p) x) a2 = false) ->
    forall x, upds (upds rho a1) a2 x = upds (upds rho a2) a1 x.
  Proof.
    intros rho a1 a2 H x.
    destruct (existsb (fun p => var_eqb (fst p) x) a1) eqn:K1.
    - rewrite (upds_key _ a2 x (H x K1)). apply upds_same; exact K1.
    - rewrite (upds_key _ a1 x K1). destruct (existsb (fun p => var_eqb (fst p) x) a2) eqn:K2.
      + apply upds_same; exact K2.
      + rewrite !upds_key by assumption. reflexivity.
  Qed.

  Lemma asg_v_key : forall d v asg x, In asg (dom d v None) -> x <> v ->
    existsb (fun p => var_eqb (fst p) x) asg = false.
  Proof.
    intros d v asg x Hin Hx. rewrite (dom_keys _ _ _ _ Hin). apply vmem_false. simpl. intros [E|[]]. congruence.
  Qed.

  (* the syntactic test of univ_close_over_var_push_in implies semantic independence (premise `indep` of the
     one-step theorems C08_pushin_*_partial) *)
  Lemma indep_syn : forall v qfd e, inq_ok e = true -> In v qfd -> isnil (vinter qfd (fv e)) = true ->
    forall (rho : env) d asg, In asg (dom d v None) -> ev (upds rho asg) e = ev rho e.
  Proof.
    intros v qfd e Hok Hq Hi rho d asg Hin. apply ev_coincidence; [exact Hok|]. intros x Hx.
    apply upds_key. apply (asg_v_key d v); [exact Hin|]. intros ->.
    exact (proj1 (isnil_vinter _ _) Hi v Hq Hx).
  Qed.

  Lemma ev_mk_comb_and : forall (rho : env) l, ev rho (mk_comb true l) = forallb (ev rho) l.
  Proof. intros rho [|x [|y l]]; simpl; try reflexivity. rewrite andb_true_r; reflexivity. Qed.
  Lemma ev_mk_comb_or : forall (rho : env) l, ev rho (mk_comb false l) = existsb (ev rho) l.
  Proof. intros rho [|x [|y l]]; simpl; try reflexivity. rewrite orb_false_r; reflexivity. Qed.

  Lemma forallb_true_const : forall {X} (l : list X), forallb (fun _ => true) l = true.
  Proof. intros X l. induction l; simpl; auto. Qed.

  Lemma part3_and : forall (p : cform -> bool) qfd inv elems,
    forallb p elems = forallb p (pI qfd elems) && (forallb p (pP qfd inv elems) && forallb p (pO qfd inv elems)).
  Proof. intros p qfd inv elems.
         exact (forallb_part3 p (fun e => isnil (vinter qfd (fv e))) (fun e => vmem inv (bvars e)) elems). Qed.
  Lemma part3_or : forall (p : cform -> bool) qfd inv elems,
    existsb p elems = existsb p (pI qfd elems) || (existsb p (pP qfd inv elems) || existsb p (pO qfd inv elems)).
  Proof. intros p qfd inv elems.
         exact (existsb_part3 p (fun e => isnil (vinter qfd (fv e))) (fun e => vmem inv (bvars e)) elems). Qed.
  Lemma pP_none : forall qfd inv elems, (forall e, In e elems -> ~ In inv (bvars e)) -> pP qfd inv elems = [].
  Proof.
    intros qfd inv elems H. unfold pP. apply filter_none. intros e He. apply H in He.
    apply vmem_false in He. rewrite He. apply andb_false_r.
  Qed.
  Lemma pI_In : forall qfd elems e, In e (pI qfd elems) -> In e elems /\ isnil (vinter qfd (fv e)) = true.
  Proof. intros qfd elems e H. unfold pI in H. apply filter_In in H. exact H. Qed.
  Lemma pO_In : forall qfd inv elems e, In e (pO qfd inv elems) -> In e elems.
  Proof. intros qfd inv elems e H. unfold pO in H. apply filter_In in H. tauto. Qed.

  Theorem push_in_sound : forall v inv qfd, In v qfd ->
    forall n f f' (rho : env), push_in n v inv qfd f = Ok f' -> clean v inv f ->
      dom (rho inv) v None <> [] ->
      ev rho f' = ev rho (FForall v (InVar inv) None f).
  Proof.
    intros v inv qfd Hq. induction n as [|n IH]; intros f f' rho H Hc Hne; [discriminate|].
    rewrite push_in_S in H.
    destruct (isnil (vinter qfd (fv f))) eqn:Ei.
    { inversion H; subst f'. simpl. destruct Hc as [_ [_ Hok]].
      rewrite (forallb_in_ext2 _ (fun _ => ev rho f)).
      - symmetry; apply forallb_const; exact Hne.
      - intros asg Ha. apply (indep_syn v qfd e) with (d := rho inv) || apply (indep_syn v qfd f Hok Hq Ei rho (rho inv)); exact Ha. }
    destruct f as [a|p args|p args|g|fs|fs|w i m b|w i m b|w b|w b]; try (inversion H; subst; reflexivity).
    - (* conjunction *)
      unfold pcomb in H.
      set (elems := split_and (FAnd fs)) in *.
      assert (Hel : forall e, In e elems -> clean v inv e).
      { apply (split_and_prop (clean v inv) (clean_and v inv)). exact Hc. }
      assert (HP : pP qfd inv elems = []).
      { apply pP_none. intros e He. destruct (Hel e He) as [_ [Hi _]]. exact Hi. }
      assert (HR : forall O', forallb (ev rho) O' =
                     forallb (fun asg => forallb (ev (upds rho asg)) (pO qfd inv elems))
                             (dom (rho inv) v None) ->
              ev rho (FAnd (pI qfd elems ++ [] ++ O')) = ev rho (FForall v (InVar inv) None (FAnd fs))).
      { intros O' HO.
        assert (E1 : ev rho (FForall v (InVar inv) None (FAnd fs)) =
                     forallb (fun asg => forallb (ev (upds rho asg)) (pI qfd elems) &&
                                         forallb (ev (upds rho asg)) (pO qfd inv elems)) (dom (rho inv) v None)).
        { simpl. apply forallb_in_ext2. intros asg _.
          change (forallb (ev (upds rho asg)) fs) with (ev (upds rho asg) (FAnd fs)).
          rewrite (ev_split_and _ _ _ _ _ _ (upds rho asg) (FAnd fs)). fold elems.
          rewrite (part3_and (ev (upds rho asg)) qfd inv elems), HP. reflexivity. }
        rewrite E1, forallb_and_split. simpl. rewrite forallb_app, HO. f_equal.
        symmetry.
        rewrite (forallb_in_ext2 (fun asg => forallb (ev (upds rho asg)) (pI qfd elems))
                                 (fun _ => forallb (ev rho) (pI qfd elems)) (dom (rho inv) v None)).
        - apply forallb_const; exact Hne.
        - intros asg Ha. apply forallb_in_ext2. intros e He. apply pI_In in He as [He Hia].
          destruct (Hel e He) as [_ [_ Hok]]. apply (indep_syn v qfd e Hok Hq Hia rho (rho inv)); exact Ha. }
      rewrite HP in H. simpl mapM in H. simpl bind in H.
      destruct (isnil (pI qfd elems) && isnil (@nil cform)) eqn:E1; [inversion H; subst; reflexivity|].
      destruct (pO qfd inv elems) as [|o1 Or] eqn:EO.
      + simpl in H. destruct (Nat.ltb 1 (length (pI qfd elems ++ []))); [|discriminate].
        inversion H; subst f'. apply (HR []). simpl. symmetry. apply forallb_true_const.
      + destruct (push_in n v inv qfd (mk_comb true (o1 :: Or))) as [o|ex] eqn:Eo; simpl in H; [|discriminate].
        destruct (Nat.ltb 1 (length (pI qfd elems ++ [o]))); [|discriminate].
        inversion H; subst f'. apply (HR [o]). simpl. rewrite andb_true_r.
        rewrite (IH _ _ rho Eo); [|apply clean_mk; intros e He; apply Hel; rewrite <- EO in He; apply pO_In in He; exact He|exact Hne].
        exact (forallb_in_ext2 (fun asg => ev (upds rho asg) (mk_comb true (o1 :: Or))) _ _
                 (fun asg _ => ev_mk_comb_and (upds rho asg) (o1 :: Or))).
    - (* disjunction *)
      unfold pcomb in H.
      set (elems := split_or (FOr fs)) in *.
      assert (Hel : forall e, In e elems -> clean v inv e).
      { apply (split_or_prop (clean v inv) (clean_or v inv)). exact Hc. }
      assert (HP : pP qfd inv elems = []).
      { apply pP_none. intros e He. destruct (Hel e He) as [_ [Hi _]]. exact Hi. }
      assert (HR : forall O', existsb (ev rho) O' =
                     forallb (fun asg => existsb (ev (upds rho asg)) (pO qfd inv elems))
                             (dom (rho inv) v None) ->
              ev rho (FOr (pI qfd elems ++ [] ++ O')) = ev rho (FForall v (InVar inv) None (FOr fs))).
      { intros O' HO.
        assert (E1 : ev rho (FForall v (InVar inv) None (FOr fs)) =
                     forallb (fun asg => existsb (ev rho) (pI qfd elems) ||
                                         existsb (ev (upds rho asg)) (pO qfd inv elems)) (dom (rho inv) v None)).
        { simpl. apply forallb_in_ext2. intros asg Ha.
          change (existsb (ev (upds rho asg)) fs) with (ev (upds rho asg) (FOr fs)).
          rewrite (ev_split_or _ _ _ _ _ _ (upds rho asg) (FOr fs)). fold elems.
          rewrite (part3_or (ev (upds rho asg)) qfd inv elems), HP. simpl. f_equal.
          apply existsb_in_ext2. intros e He. apply pI_In in He as [He Hia].
          destruct (Hel e He) as [_ [_ Hok]]. apply (indep_syn v qfd e Hok Hq Hia rho (rho inv)); exact Ha. }
        rewrite E1, forallb_or_const. simpl. rewrite existsb_app, HO. reflexivity. }
      rewrite HP in H. simpl mapM in H. simpl bind in H.
      destruct (isnil (pI qfd elems) && isnil (@nil cform)) eqn:E1; [inversion H; subst; reflexivity|].
      destruct (pO qfd inv elems) as [|o1 Or] eqn:EO.
      + simpl in H. destruct (Nat.ltb 1 (length (pI qfd elems ++ []))); [|discriminate].
        inversion H; subst f'. apply (HR []). simpl. symmetry. apply forallb_const. exact Hne.
      + destruct (push_in n v inv qfd (mk_comb false (o1 :: Or))) as [o|ex] eqn:Eo; simpl in H; [|discriminate].
        destruct (Nat.ltb 1 (length (pI qfd elems ++ [o]))); [|discriminate].
        inversion H; subst f'. apply (HR [o]). simpl. rewrite orb_false_r.
        rewrite (IH _ _ rho Eo); [|apply clean_mk; intros e He; apply Hel; rewrite <- EO in He; apply pO_In in He; exact He|exact Hne].
        exact (forallb_in_ext2 (fun asg => ev (upds rho asg) (mk_comb false (o1 :: Or))) _ _
                 (fun asg _ => ev_mk_comb_or (upds rho asg) (o1 :: Or))).
    - (* universal quantifier: swap *)
      destruct (invar_eqb (InVar v) i) eqn:Ei2; simpl in H; [inversion H; subst; reflexivity|].
      destruct (push_in n v inv qfd b) as [b'|ex] eqn:Eb; simpl in H; [|discriminate].
      inversion H; subst f'. destruct (clean_forall _ _ _ _ _ _ Hc) as [Hcb [Hvq Hiq]].
      simpl.
      transitivity (forallb (fun aw => forallb (fun av => ev (upds (upds rho av) aw) b) (dom (rho inv) v None))
                            (dom (ival rho i) w m)).
      + apply forallb_in_ext2. intros aw Haw.
        assert (Hinv : upds rho aw inv = rho inv).
        { apply upds_key. rewrite (dom_keys _ _ _ _ Haw). apply vmem_false. exact Hiq. }
        rewrite (IH _ _ (upds rho aw) Eb Hcb); [|rewrite Hinv; exact Hne].
        simpl. rewrite Hinv. apply forallb_in_ext2. intros av Hav. apply ev_ext. intros x.
        apply upds_comm. intros y Hy. rewrite (dom_keys _ _ _ _ Haw) in Hy. apply vmem_In in Hy.
        apply (asg_v_key (rho inv) v); [exact Hav|]. intros ->. exact (Hvq Hy).
      + rewrite forallb_swap. apply forallb_in_ext2. intros av Hav.
        assert (Hiv : ival (upds rho av) i = ival rho i).
        { destruct i as [u|t]; simpl; [|reflexivity]. apply upds_key. apply (asg_v_key (rho inv) v); [exact Hav|].
          intros ->. simpl in Ei2. rewrite var_eqb_refl in Ei2. discriminate. }
        rewrite Hiv. reflexivity.
  Qed.

  (* ---------- the `..` axis, positive universal case ----------
     close_over_xpath_expressions turns `x..<T>` (x bound by a universal quantifier) into
     univ_close_over_var_push_in(formula, y, in_var = x): the new quantifier passes the binder of x and is pushed
     into its body.  Documented core reading: `forall <T> y in x` directly inside the quantifier of x
     (all <T>-descendants of x = the core quantifier domain). *)
  Theorem dotdot_forall_sound : forall y x qfd, In y qfd ->
    forall n w i m body f' (rho : env),
      push_in n y x qfd (FForall w i m body) = Ok f' ->
      isnil (vinter qfd (fv (FForall w i m body))) = false ->
      invar_eqb (InVar y) i = false ->
      clean y x body ->
      (forall aw, In aw (dom (ival rho i) w m) -> dom (upds rho aw x) y None <> []) ->
      ev rho f' = ev rho (FForall w i m (FForall y (InVar x) None body)).
  Proof.
    intros y x qfd Hq n w i m body f' rho H Hfv Hi Hc Hne.
    destruct n as [|n]; [discriminate|]. rewrite push_in_S in H. rewrite Hfv, Hi in H. simpl in H.
    destruct (push_in n y x qfd body) as [b'|ex] eqn:Eb; simpl in H; [|discriminate].
    inversion H; subst f'. simpl. apply forallb_in_ext2. intros aw Haw.
    exact (push_in_sound y x qfd Hq n body b' (upds rho aw) Eb Hc (Hne aw Haw)).
  Qed.
End Sem2.

(* boolean form of the guard of push_in_sound (class K_pushin_rebind: the closed-over or the container variable is
   bound again inside the formula, or a quantifier ranges over its own variable — all three only arise from name
   clashes, class K_fresh_clash) *)
Definition K_pushin_rebind (v inv : var) (f : cform) : bool :=
  vmem v (bvars f) || vmem inv (bvars f) || negb (inq_ok f).

Lemma K_pushin_rebind_clean : forall v inv f, K_pushin_rebind v inv f = false -> clean v inv f.
Proof.
  intros v inv f H. unfold K_pushin_rebind in H. apply orb_false_iff in H as [H H3]. apply orb_false_iff in H as [H1 H2].
  repeat split; [apply vmem_false; exact H1|apply vmem_false; exact H2|apply negb_false_iff; exact H3].
Qed.

Theorem pushin_sound_rec : forall (D : Type) aev pev (dom : D -> var -> option mexpr -> list (list (var * D))) idom tval,
  (forall d v m asg, In asg (dom d v m) -> forall x, existsb (fun p => var_eqb (fst p) x) asg = vmem x (qbound v m)) ->
  forall n v inv qfd f f' rho,
    push_in n v inv qfd f = Ok f' ->
    vmem v qfd = true ->
    K_pushin_rebind v inv f = false ->
    K_pushin_empty D dom tval rho v (InVar inv) None = false ->
    ev D aev pev dom idom tval rho f' = ev D aev pev dom idom tval rho (FForall v (InVar inv) None f).
Proof.
  intros D aev pev dom idom tval Hk n v inv qfd f f' rho H Hq Hc Hne.
  apply (push_in_sound D aev pev dom idom tval Hk v inv qfd (proj1 (vmem_In _ _) Hq) n f f' rho H).
  - apply K_pushin_rebind_clean; exact Hc.
  - unfold K_pushin_empty in Hne. simpl in Hne. intros E. rewrite E in Hne. discriminate.
Qed.

Theorem dotdot_forall_sound_rec : forall (D : Type) aev pev (dom : D -> var -> option mexpr -> list (list (var * D))) idom tval,
  (forall d v m asg, In asg (dom d v m) -> forall x, existsb (fun p => var_eqb (fst p) x) asg = vmem x (qbound v m)) ->
  forall n y x qfd w i m body f' rho,
    push_in n y x qfd (FForall w i m body) = Ok f' ->
    vmem y qfd = true ->
    isnil (vinter qfd (fv (FForall w i m body))) = false ->
    invar_eqb (InVar y) i = false ->
    K_pushin_rebind y x body = false ->
    (forall aw, In aw (dom (ival D tval rho i) w m) ->
                K_pushin_empty D dom tval (upds D rho aw) y (InVar x) None = false) ->
    ev D aev pev dom idom tval rho f' =
    ev D aev pev dom idom tval rho (FForall w i m (FForall y (InVar x) None body)).
Proof.
  intros D aev pev dom idom tval Hk n y x qfd w i m body f' rho H Hq Hfv Hi Hc Hne.
  apply (dotdot_forall_sound D aev pev dom idom tval Hk y x qfd (proj1 (vmem_In _ _) Hq) n w i m body f' rho H Hfv Hi).
  - apply K_pushin_rebind_clean; exact Hc.
  - intros aw Haw E. specialize (Hne aw Haw). unfold K_pushin_empty in Hne. simpl in Hne. rewrite E in Hne. discriminate.
Qed.

(* ---------- non-vacuity: concrete instances satisfying every hypothesis ---------- *)
(* a domain function that satisfies dom_keys: one assignment binding v and all bound variables of m *)
Definition dom_k (val : var -> str) (d : str) (v : var) (m : option mexpr) : list (list (var * str)) :=
  [(v, val v) :: map (fun w => (w, val w)) (me_bound m)].

Lemma dom_k_keys : forall val d v m asg, In asg (dom_k val d v m) ->
  forall x, existsb (fun p => var_eqb (fst p) x) asg = vmem x (qbound v m).
Proof.
  intros val d v m asg [<-|[]] x. apply eq_true_iff_eq. rewrite vmem_In, qbound_In, existsb_exists. split.
  - intros [p [[<-|Hp] E]]; simpl in E; apply var_eqb_eq in E; subst x; [left; reflexivity|right].
    apply in_map_iff in Hp as [w [<- Hw]]. exact Hw.
  - intros [->|H].
    + exists (v, val v). split; [left; reflexivity|apply var_eqb_refl].
    + exists (x, val x). split; [right; apply in_map_iff; exists x; auto|apply var_eqb_refl].
Qed.

Definition at_a : cform := FSmt (MkAtom false 1 [va]).
Definition at_b : cform := FSmt (MkAtom false 2 [vb]).
Definition vs_ : var := MkVar VBound [115]%N (nt 115).

Example pushin_rec_nonvacuous :
  push_in 4 vb start_c [vb] (FAnd [at_a; at_b]) = Ok (FAnd [at_a; FForall vb (InVar start_c) None at_b]) /\
  vmem vb [vb] = true /\ K_pushin_rebind vb start_c (FAnd [at_a; at_b]) = false /\
  K_pushin_empty str (dom_k (fun _ => [121]%N)) (fun _ => []) rho0 vb (InVar start_c) None = false.
Proof. vm_compute. repeat split; reflexivity. Qed.

Example dotdot_nonvacuous :
  push_in 4 vb vs_ [vb] (FForall vs_ (InVar start_c) None at_b) =
    Ok (FForall vs_ (InVar start_c) None (FForall vb (InVar vs_) None at_b)) /\
  vmem vb [vb] = true /\ isnil (vinter [vb] (fv (FForall vs_ (InVar start_c) None at_b))) = false /\
  invar_eqb (InVar vb) (InVar start_c) = false /\ K_pushin_rebind vb vs_ at_b = false /\
  (forall aw, In aw (dom_k (fun _ => [121]%N) (rho0 start_c) vs_ None) ->
     K_pushin_empty str (dom_k (fun _ => [121]%N)) (fun _ => []) (upds str rho0 aw) vb (InVar vs_) None = false).
Proof. vm_compute. repeat split; try reflexivity. Qed.

(* the syntactic test `not qfd_vars.intersection(e.free_variables())` implies the semantic premise `indep` of the
   one-step theorems C08_pushin_and_partial / _or_partial / _absent_partial *)
Theorem indep_syntactic : forall (D : Type) aev pev (dom : D -> var -> option mexpr -> list (list (var * D))) idom tval,
  (forall d v m asg, In asg (dom d v m) -> forall x, existsb (fun p => var_eqb (fst p) x) asg = vmem x (qbound v m)) ->
  forall rho v i qfd e, vmem v qfd = true -> inq_ok e = true -> isnil (vinter qfd (fv e)) = true ->
    indep D aev pev dom idom tval rho v i None e.
Proof.
  intros D aev pev dom idom tval Hk rho v i qfd e Hq Hok Hi asg Ha.
  exact (indep_syn D aev pev dom idom tval Hk v qfd e Hok (proj1 (vmem_In _ _) Hq) Hi rho _ asg Ha).
Qed.
