(* C08 wave 4 — ensure_unique_bound_variables introduces no new free variable (one of the fv-monotonicity lemmas needed
   to discharge the final "Unbound variables" check of exitStart): for every formula whose quantifiers bind
   BoundVariables, fv (result) is a subset of fv (input).  No freshness argument is needed for this direction. *)
From Coq Require Import List NArith Bool Arith Lia.
Import ListNotations.
From ISLA Require Import Str Outcome Tree Grammar Formula Sugar SugarFacts SugarMore SugarTotal SugarUniq SugarFresh SugarAlpha SugarAlpha2 SugarAlpha3.

Definition pair_kt (p : var * var) : Prop := snd p = fst p \/ (vk (snd p) = VBound /\ vtype (snd p) = vtype (fst p)).

Lemma fresh_vars_shape : forall own U s U2, fresh_vars own U = (s, U2) -> map fst s = own /\ Forall pair_kt s.
Proof.
  induction own as [|v own IH]; intros U s U2 H; simpl in H.
  - inversion H; subst. split; [reflexivity|constructor].
  - destruct (smem (vname v) U).
    + destruct (fresh_vars own _) as [s' U'] eqn:Hr. inversion H; subst. destruct (IH _ _ _ Hr) as [H1 H2].
      split; [simpl; rewrite H1; reflexivity|constructor; [right; split; reflexivity|exact H2]].
    + destruct (fresh_vars own _) as [s' U'] eqn:Hr. inversion H; subst. destruct (IH _ _ _ Hr) as [H1 H2].
      split; [simpl; rewrite H1; reflexivity|constructor; [left; reflexivity|exact H2]].
Qed.

Lemma fresh_kt : forall own U s U2, fresh_vars own U = (s, U2) -> NoDup own -> (forall y, In y own -> vk y = VBound) ->
  (forall z, ~ In z own -> rlook s z = z) /\ kt_pres (rlook s).
Proof.
  intros own U s U2 H Hnd Hvb. destruct (fresh_vars_shape _ _ _ _ H) as [H1 H2].
  assert (R1 : forall z, ~ In z own -> rlook s z = z) by (intros z Hz; apply rlook_notin; rewrite H1; exact Hz).
  split; [exact R1|]. intros z. destruct (vmem z own) eqn:Hz.
  - apply vmem_In in Hz. assert (Hp : In (z, rlook s z) s) by (apply rlook_pair; rewrite H1; assumption).
    rewrite Forall_forall in H2. destruct (H2 _ Hp) as [E|[E1 E2]]; simpl in *.
    + rewrite E. split; reflexivity.
    + rewrite E1, E2. split; [symmetry; apply Hvb; exact Hz|reflexivity].
  - apply vmem_false in Hz. rewrite (R1 z Hz). split; reflexivity.
Qed.

Section Gen.
  Variable s : ren.
  Hypothesis KT : kt_pres (rlook s).
  Notation r := (rlook s).

  Lemma qbound_ren : forall v m x, In x (qbound (r v) (sub_me s m)) <-> exists y, In y (qbound v m) /\ x = r y.
  Proof.
    intros v m x. rewrite qbound_In, (me_bound_ren s m KT), in_map_iff. split.
    - intros [->|[y [<- Hy]]]; [exists v|exists y]; split; try reflexivity; apply qbound_In; auto.
    - intros [y [Hy ->]]. apply qbound_In in Hy as [->|Hy]; [left; reflexivity|right; exists y; auto].
  Qed.

  Lemma binders_sub_gen : forall f, binders (sub s f) = map r (binders f).
  Proof.
    intros f. induction f as [a|n args|n args|g IH|fs IH|fs IH|v i m b IH|v i m b IH|v b IH|v b IH]
      using formula_ind'; simpl; try reflexivity; try exact IH.
    - induction IH as [|g fs Hg Hfs IHfs]; simpl; [reflexivity|]. rewrite map_app, Hg, IHfs. reflexivity.
    - induction IH as [|g fs Hg Hfs IHfs]; simpl; [reflexivity|]. rewrite map_app, Hg, IHfs. reflexivity.
    - rewrite (me_bound_ren s m KT), IH, map_app. reflexivity.
    - rewrite (me_bound_ren s m KT), IH, map_app. reflexivity.
    - rewrite IH. reflexivity.
    - rewrite IH. reflexivity.
  Qed.

  Lemma fv_sub_gen : forall f x, In x (fv (sub s f)) -> exists y, In y (fv f) /\ x = r y.
  Proof.
    intros f. induction f as [a|n args|n args|g IH|fs IH|fs IH|v i m b IH|v i m b IH|v b IH|v b IH]
      using formula_ind'; intros x Hx; simpl in *.
    - apply vunion_In in Hx as [[]|Hx]. apply in_map_iff in Hx as [y [E Hy]]. exists y. split; [apply vunion_In; right; exact Hy|auto].
    - apply parg_vars_In in Hx. apply in_map_iff in Hx as [[y|t|t] [E Hy]]; simpl in E; try discriminate.
      inversion E; subst. exists y. split; [apply parg_vars_In; exact Hy|reflexivity].
    - apply parg_vars_In in Hx. apply in_map_iff in Hx as [[y|t|t] [E Hy]]; simpl in E; try discriminate.
      inversion E; subst. exists y. split; [apply parg_vars_In; exact Hy|reflexivity].
    - apply IH; assumption.
    - rewrite map_map in Hx. apply (fvs_In x (fun g => fv (sub s g))) in Hx as [g [Hg Hx]].
      rewrite Forall_forall in IH. destruct (IH g Hg x Hx) as [y [Hy E]]. exists y. split; [apply fvs_In; exists g; auto|exact E].
    - rewrite map_map in Hx. apply (fvs_In x (fun g => fv (sub s g))) in Hx as [g [Hg Hx]].
      rewrite Forall_forall in IH. destruct (IH g Hg x Hx) as [y [Hy E]]. exists y. split; [apply fvs_In; exists g; auto|exact E].
    - apply vdiff_In in Hx as [Hx Hq]. apply vunion_In in Hx as [Hx|Hx].
      + destruct i as [w|t]; simpl in Hx; [|destruct Hx]. destruct Hx as [<-|[]]. exists w. split; [|reflexivity].
        apply vdiff_In. split; [apply vunion_In; left; left; reflexivity|]. intros Hw. apply Hq. apply qbound_ren. exists w; auto.
      + destruct (IH x Hx) as [y [Hy E]]. exists y. split; [|exact E]. apply vdiff_In. split; [apply vunion_In; right; exact Hy|].
        intros Hw. apply Hq. apply qbound_ren. exists y; auto.
    - apply vdiff_In in Hx as [Hx Hq]. apply vunion_In in Hx as [Hx|Hx].
      + destruct i as [w|t]; simpl in Hx; [|destruct Hx]. destruct Hx as [<-|[]]. exists w. split; [|reflexivity].
        apply vdiff_In. split; [apply vunion_In; left; left; reflexivity|]. intros Hw. apply Hq. apply qbound_ren. exists w; auto.
      + destruct (IH x Hx) as [y [Hy E]]. exists y. split; [|exact E]. apply vdiff_In. split; [apply vunion_In; right; exact Hy|].
        intros Hw. apply Hq. apply qbound_ren. exists y; auto.
    - apply vdiff_In in Hx as [Hx Hq]. destruct (IH x Hx) as [y [Hy E]]. exists y. split; [|exact E].
      apply vdiff_In. split; [exact Hy|]. intros [<-|[]]. apply Hq. left. symmetry; exact E.
    - apply vdiff_In in Hx as [Hx Hq]. destruct (IH x Hx) as [y [Hy E]]. exists y. split; [|exact E].
      apply vdiff_In. split; [exact Hy|]. intros [<-|[]]. apply Hq. left. symmetry; exact E.
  Qed.
End Gen.

(* ---------- the smart constructors introduce no variable ---------- *)
Lemma fv_pair : forall (a b : cform) x, In x (fold_left vunion (map fv [a; b]) []) <-> In x (fv a) \/ In x (fv b).
Proof.
  intros a b x. rewrite fvs_In. split.
  - intros [g [[<-|[<-|[]]] Hx]]; auto.
  - intros [H|H]; [exists a|exists b]; split; auto; simpl; auto.
Qed.

Lemma fv_f_and : forall a b x, In x (fv (f_and a b)) -> In x (fv a) \/ In x (fv b).
Proof.
  intros a b x. unfold f_and.
  destruct (eqf a b); [auto|]. destruct (is_false_f a); [auto|]. destruct (is_false_f b); [auto|].
  destruct (is_true_f a); [auto|]. destruct (is_true_f b); [auto|].
  destruct (is_neg_of a b); [intros []|]. destruct (is_neg_of b a); [intros []|].
  intros H. apply (fv_pair a b x). exact H.
Qed.
Lemma fv_f_or : forall a b x, In x (fv (f_or a b)) -> In x (fv a) \/ In x (fv b).
Proof.
  intros a b x. unfold f_or.
  destruct (eqf a b); [auto|]. destruct (is_true_f a); [auto|]. destruct (is_true_f b); [auto|].
  destruct (is_false_f a); [auto|]. destruct (is_false_f b); [auto|].
  destruct (is_neg_of a b); [intros []|]. destruct (is_neg_of b a); [intros []|].
  intros H. apply (fv_pair a b x). exact H.
Qed.

Lemma fv_fold_op : forall (op : cform -> cform -> cform),
  (forall a b x, In x (fv (op a b)) -> In x (fv a) \/ In x (fv b)) ->
  forall l a x, In x (fv (fold_left op l a)) -> In x (fv a) \/ exists g, In g l /\ In x (fv g).
Proof.
  intros op Hop. induction l as [|g l IH]; intros a x H; simpl in H; [left; exact H|].
  destruct (IH _ _ H) as [H1|[h [Hh Hx]]].
  - apply Hop in H1 as [H1|H1]; [left; exact H1|right; exists g; split; [left; reflexivity|exact H1]].
  - right. exists h. split; [right; exact Hh|exact Hx].
Qed.
Lemma fv_reduce1 : forall (op : cform -> cform -> cform),
  (forall a b x, In x (fv (op a b)) -> In x (fv a) \/ In x (fv b)) ->
  forall l x, In x (fv (reduce1 op f_true l)) -> exists g, In g l /\ In x (fv g).
Proof.
  intros op Hop [|a l] x H; simpl in H; [destruct H|].
  destruct (fv_fold_op op Hop l a x H) as [H1|[g [Hg Hx]]]; [exists a; split; [left; reflexivity|exact H1]|exists g; split; [right; exact Hg|exact Hx]].
Qed.

(* ---------- the uniqueness pass ---------- *)
Definition uniq_fv_spec (n : nat) : Prop :=
  forall U f f' U', uniq n U f = Ok (f', U') -> vbound_all f = true -> forall x, In x (fv f') -> In x (fv f).

Lemma many_fv : forall n', uniq_fv_spec n' -> forall fs done Ua R,
  fold_left (ustep n') fs (Ok (done, Ua)) = Ok R -> forallb is_vbound (flat_map binders fs) = true ->
  exists gs, fst R = done ++ gs /\ Forall2 (fun g' g => forall x, In x (fv g') -> In x (fv g)) gs fs.
Proof.
  intros n' IH. induction fs as [|g fs IHfs]; intros done Ua R H Hv; simpl in H.
  - inversion H; subst. exists []. simpl. rewrite app_nil_r. split; [reflexivity|constructor].
  - simpl in Hv. rewrite forallb_app in Hv. apply andb_true_iff in Hv as [Hvg Hvf].
    destruct (uniq n' Ua g) as [[g' Ub]|e] eqn:Eg; simpl in H.
    2:{ assert (F : forall l, fold_left (ustep n') l (Raise e) = Raise e) by (induction l; simpl; auto). rewrite F in H. discriminate. }
    destruct (IHfs (done ++ [g']) Ub R H Hvf) as [gs [E1 E2]].
    exists (g' :: gs). rewrite <- app_assoc in E1. split; [exact E1|]. constructor; [|exact E2].
    apply (IH _ _ _ _ Eg). exact Hvg.
Qed.

Theorem uniq_fv : forall n, uniq_fv_spec n.
Proof.
  induction n as [|n IH]; intros U f f' U' H Hvb x Hx; [discriminate|].
  rewrite uniq_S in H. cbv zeta in H.
  destruct f as [a|p args|p args|g|fs|fs|v i m b|v i m b|v b|v b]; try (inversion H; subst; exact Hx).
  - destruct (uniq n U g) as [[g' Ug]|e] eqn:Eg; simpl in H; [|discriminate]. inversion H; subst. simpl in *.
    apply (IH _ _ _ _ Eg Hvb). exact Hx.
  - destruct (fold_left (ustep n) fs (Ok ([], U))) as [[gs Ug]|e] eqn:Eg; simpl in H; [|discriminate]. inversion H; subst.
    destruct (many_fv n IH fs [] U _ Eg Hvb) as [gs' [E1 E2]]. simpl in E1. subst gs'.
    apply (fv_reduce1 f_and fv_f_and) in Hx as [g' [Hg' Hx]]. simpl. apply fvs_In.
    clear Eg H. unfold vbound_all in Hvb. simpl binders in Hvb. induction E2 as [|g1 f1 gs1 fs1 H1 H2 IH2]; [destruct Hg'|].
    destruct Hg' as [->|Hg']; [exists f1; split; [left; reflexivity|apply H1; exact Hx]|].
    simpl flat_map in Hvb. rewrite forallb_app in Hvb. apply andb_true_iff in Hvb as [_ Hvb].
    destruct (IH2 Hvb Hg') as [f2 [Hf2 Hx2]]. exists f2. split; [right; exact Hf2|exact Hx2].
  - destruct (fold_left (ustep n) fs (Ok ([], U))) as [[gs Ug]|e] eqn:Eg; simpl in H; [|discriminate]. inversion H; subst.
    destruct (many_fv n IH fs [] U _ Eg Hvb) as [gs' [E1 E2]]. simpl in E1. subst gs'.
    apply (fv_reduce1 f_or fv_f_or) in Hx as [g' [Hg' Hx]]. simpl. apply fvs_In.
    clear Eg H. unfold vbound_all in Hvb. simpl binders in Hvb. induction E2 as [|g1 f1 gs1 fs1 H1 H2 IH2]; [destruct Hg'|].
    destruct Hg' as [->|Hg']; [exists f1; split; [left; reflexivity|apply H1; exact Hx]|].
    simpl flat_map in Hvb. rewrite forallb_app in Hvb. apply andb_true_iff in Hvb as [_ Hvb].
    destruct (IH2 Hvb Hg') as [f2 [Hf2 Hx2]]. exists f2. split; [right; exact Hf2|exact Hx2].
  - simpl in H. unfold vbound_all in Hvb. simpl binders in Hvb.
    match type of H with (let '(s, U2) := fresh_vars ?own ?U1 in _) = _ =>
      destruct (fresh_vars own U1) as [s U2] eqn:Hfv end.
    match type of H with bind ?X _ = _ => destruct X as [[b'' Ux]|e] eqn:Eb end; simpl in H; [|discriminate].
    inversion H; subst f' U'. clear H.
    assert (Hown : forall y, In y (qbound v m) -> vk y = VBound).
    { intros y Hy. rewrite forallb_forall in Hvb. assert (Hin : In y ((v :: me_bound m) ++ binders b)).
      { apply qbound_In in Hy as [->|Hy]; [left; reflexivity|right; apply in_or_app; left; exact Hy]. }
      specialize (Hvb y Hin). unfold is_vbound in Hvb. destruct (vk y); congruence. }
    destruct (fresh_kt _ _ _ _ Hfv (qbound_NoDup v m) Hown) as [R1 KT].
    assert (Hvb' : vbound_all (sub s b) = true).
    { unfold vbound_all. rewrite (binders_sub_gen s KT). rewrite forallb_map'. apply forallb_forall. intros w Hw.
      unfold is_vbound. rewrite (proj1 (KT w)). rewrite forallb_forall in Hvb. apply (Hvb w). right. apply in_or_app. right; exact Hw. }
    simpl in Hx. apply vdiff_In in Hx as [Hx Hq]. simpl. apply vdiff_In.
    assert (G : forall y, x = rlook s y -> ~ In y (qbound v m) /\ x = y).
    { intros y E. assert (Hy : ~ In y (qbound v m)) by (intros Hy; apply Hq; apply (qbound_ren s KT); exists y; auto).
      split; [exact Hy|]. rewrite E. apply R1. exact Hy. }
    apply vunion_In in Hx as [Hx|Hx].
    + destruct i as [w|t]; simpl in Hx; [|destruct Hx]. destruct Hx as [Hx|[]]. destruct (G w (eq_sym Hx)) as [Hw E]. subst x. rewrite E.
      split; [apply vunion_In; left; left; reflexivity|exact Hw].
    + apply (IH _ _ _ _ Eb Hvb') in Hx. destruct (fv_sub_gen s KT b x Hx) as [y [Hy E]]. destruct (G y E) as [Hw E2]. subst y.
      split; [apply vunion_In; right; exact Hy|exact Hw].
  - simpl in H. unfold vbound_all in Hvb. simpl binders in Hvb.
    match type of H with (let '(s, U2) := fresh_vars ?own ?U1 in _) = _ =>
      destruct (fresh_vars own U1) as [s U2] eqn:Hfv end.
    match type of H with bind ?X _ = _ => destruct X as [[b'' Ux]|e] eqn:Eb end; simpl in H; [|discriminate].
    inversion H; subst f' U'. clear H.
    assert (Hown : forall y, In y (qbound v m) -> vk y = VBound).
    { intros y Hy. rewrite forallb_forall in Hvb. assert (Hin : In y ((v :: me_bound m) ++ binders b)).
      { apply qbound_In in Hy as [->|Hy]; [left; reflexivity|right; apply in_or_app; left; exact Hy]. }
      specialize (Hvb y Hin). unfold is_vbound in Hvb. destruct (vk y); congruence. }
    destruct (fresh_kt _ _ _ _ Hfv (qbound_NoDup v m) Hown) as [R1 KT].
    assert (Hvb' : vbound_all (sub s b) = true).
    { unfold vbound_all. rewrite (binders_sub_gen s KT). rewrite forallb_map'. apply forallb_forall. intros w Hw.
      unfold is_vbound. rewrite (proj1 (KT w)). rewrite forallb_forall in Hvb. apply (Hvb w). right. apply in_or_app. right; exact Hw. }
    simpl in Hx. apply vdiff_In in Hx as [Hx Hq]. simpl. apply vdiff_In.
    assert (G : forall y, x = rlook s y -> ~ In y (qbound v m) /\ x = y).
    { intros y E. assert (Hy : ~ In y (qbound v m)) by (intros Hy; apply Hq; apply (qbound_ren s KT); exists y; auto).
      split; [exact Hy|]. rewrite E. apply R1. exact Hy. }
    apply vunion_In in Hx as [Hx|Hx].
    + destruct i as [w|t]; simpl in Hx; [|destruct Hx]. destruct Hx as [Hx|[]]. destruct (G w (eq_sym Hx)) as [Hw E]. subst x. rewrite E.
      split; [apply vunion_In; left; left; reflexivity|exact Hw].
    + apply (IH _ _ _ _ Eb Hvb') in Hx. destruct (fv_sub_gen s KT b x Hx) as [y [Hy E]]. destruct (G y E) as [Hw E2]. subst y.
      split; [apply vunion_In; right; exact Hy|exact Hw].
Qed.
