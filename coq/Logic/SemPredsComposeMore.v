(* C20 proof extension 2 — the out-of-fuel outcome of the composed model is excluded for grammars
   whose specialisation (mk_grammar g nt, what isla_predicates.mk_parser hands to EarleyParser) has
   no cyclic unit/nullable derivation: C10's parse_complete (Grammar/EarleyAcyclic.v) applied to
   the specialised grammar.  Hence "a replacement exists iff the requested string is in L g nt"
   without the premise `... <> Raise OutOfFuel` of SemPredsCompose.*_assign_iff_partial. *)
From ISLA Require Import SemPreds SemPredsFacts SemPredsParser SemPredsCompose SemPredsGuard.
From ISLA Require Import Grammar GrammarFacts Earley EarleyFacts EarleyPrune EarleyTop EarleyTrees
  EarleyComplete EarleyForest EarleyFuel EarleyWrap EarleyCompleteMore EarleyAcyclic EarleySpecialise.
From Coq Require Import Lia ZArith List Bool.
Import ListNotations.

(* ------------------------------------------------------------------------------------ *)
(* mk_parse never runs out of fuel (acyclic specialised grammar, fuel >= fuel_bound)      *)
(* ------------------------------------------------------------------------------------ *)
Section MkParseAcyclicSpec.
  Variable g : grammar.
  Variables fxA fxB : bool.
  Variable fuel : nat.
  Variable nt : str.
  Hypothesis Hgood : good_grammar g.
  Hypothesis Hnd : NoDup (map fst g).
  Hypothesis Hwrap : defined g WRAP = false.
  Hypothesis Hnt : defined g nt = true.
  Hypothesis HfxB : fxB = true \/ K_recstart (mk_grammar g nt) START START = false.
  Hypothesis Hac : acyclicb (cgram (mk_grammar g nt) START) = true.

  (* a member of the specialised grammar's language gets a tree *)
  Theorem mk_parse_member_ok_spec w : fuel_bound (cgram (mk_grammar g nt) START) (length w) <= fuel ->
    L (mk_grammar g nt) START w -> exists r, mk_parse fxA fxB fuel g nt w = Ok r.
  Proof.
    intros Hf HL.
    destruct (parse_complete (mk_grammar g nt) START fxA fxB fuel START w 1
                (spec_good g nt Hgood Hnt) (spec_NoDup g nt Hnd) (spec_no_WRAP g nt Hwrap)
                (spec_defined_START g nt) (or_intror (spec_single_start g nt)) Hac Hf (le_n 1) HL)
      as (ts & Hne & E).
    destruct ts as [|t ts]; [contradiction Hne; reflexivity|].
    destruct (earley_head_child g fxA fxB fuel nt Hgood Hnd Hwrap Hnt HfxB w t ts E) as (k & i & Et & _).
    exists k. unfold mk_parse. rewrite E. subst t. reflexivity.
  Qed.

  Theorem mk_parse_no_outoffuel_spec w : fuel_bound (cgram (mk_grammar g nt) START) (length w) <= fuel ->
    mk_parse fxA fxB fuel g nt w <> Raise OutOfFuel.
  Proof.
    intros Hf E.
    destruct (mk_parse_outcomes_spec g fxA fxB fuel nt Hgood Hnd Hwrap Hnt HfxB w Hf)
      as [(r & E' & _)|[(E' & _)|(_ & HL)]]; try (rewrite E' in E; discriminate).
    destruct (mk_parse_member_ok_spec w Hf HL) as (r & E'). rewrite E' in E. discriminate.
  Qed.
End MkParseAcyclicSpec.

Section MkParseAcyclic.
  Variable g : grammar.
  Variables fxA fxB : bool.
  Variable fuel : nat.
  Variable nt : str.
  Hypothesis Hcanon : canonical_form g = true.
  Hypothesis Hnd : NoDup (map fst g).
  Hypothesis Ho : occurs_rhs g START = false.
  Hypothesis Hnt : defined g nt = true.
  Hypothesis Hne : nt <> START.
  Hypothesis Hac : acyclicb (cgram (mk_grammar g nt) START) = true.

  Let Hgood : good_grammar g := proj1 (canonical_form_good g Hcanon).
  Let Hwrap : defined g WRAP = false := proj2 (canonical_form_good g Hcanon).
  Let HfxB : fxB = true \/ K_recstart (mk_grammar g nt) START START = false :=
    or_intror (spec_no_recstart g nt Ho Hne).

  Theorem mk_parse_no_outoffuel w : fuel_bound (cgram (mk_grammar g nt) START) (length w) <= fuel ->
    mk_parse fxA fxB fuel g nt w <> Raise OutOfFuel.
  Proof. exact (mk_parse_no_outoffuel_spec g fxA fxB fuel nt Hgood Hnd Hwrap Hnt HfxB Hac w). Qed.

  (* exactly two outcomes: a member gets a tree, a non-member SyntaxError *)
  Theorem mk_parse_total w : fuel_bound (cgram (mk_grammar g nt) START) (length w) <= fuel ->
    (exists r, mk_parse fxA fxB fuel g nt w = Ok r /\ wf_tree g r /\ lbl r = nt /\ is_openT r = false
               /\ yield r = w /\ L g nt w)
    \/ (mk_parse fxA fxB fuel g nt w = Raise SyntaxErr /\ ~ L g nt w).
  Proof.
    intro Hf.
    destruct (mk_parse_outcomes g fxA fxB fuel nt Hcanon Hnd Ho Hnt Hne w Hf) as [H|[H|(E & _)]].
    - left. exact H.
    - right. exact H.
    - exfalso. exact (mk_parse_no_outoffuel w Hf E).
  Qed.

  Theorem mk_parse_ok_iff w : fuel_bound (cgram (mk_grammar g nt) START) (length w) <= fuel ->
    ((exists r, mk_parse fxA fxB fuel g nt w = Ok r) <-> L g nt w).
  Proof.
    intro Hf. apply (mk_parse_ok_iff_partial g fxA fxB fuel nt Hcanon Hnd Ho Hnt Hne w Hf).
    exact (mk_parse_no_outoffuel w Hf).
  Qed.
End MkParseAcyclic.

(* ------------------------------------------------------------------------------------ *)
(* the predicates with the Earley parser: assignment iff membership                      *)
(* ------------------------------------------------------------------------------------ *)
Section ComposeAcyclic.
  Variable g : grammar.
  Variables fxA fxB : bool.
  Variable fuel : nat.
  Hypothesis Hcanon : canonical_form g = true.
  Hypothesis Hnd : NoDup (map fst g).
  Hypothesis Ho : occurs_rhs g START = false.

  Let P := sem_eval_earley fxA fxB fuel g.

  Lemma request_no_outoffuel fx c k nt s : defined g nt = true -> nt <> START ->
    acyclicb (cgram (mk_grammar g nt) START) = true ->
    pre_eval fx c = Ok (PParse k nt s) ->
    fuel_bound (cgram (mk_grammar g nt) START) (length s) <= fuel ->
    P fx c <> Raise OutOfFuel.
  Proof.
    intros Hd Hne Hac Hp Hf. unfold P, sem_eval_earley. rewrite (sem_eval_request _ fx c k nt s Hp).
    pose proof (mk_parse_no_outoffuel g fxA fxB fuel nt Hcanon Hnd Ho Hd Hne Hac s Hf) as Hno.
    destruct (mk_parse fxA fxB fuel g nt s) as [r|e]; cbn [bind]; [discriminate|].
    intro E. apply Hno. inversion E as [Ee]. reflexivity.
  Qed.

  (* every parser request is answered: the replacement tree, or SyntaxError for a non-member *)
  Lemma request_total fx c k nt s : defined g nt = true -> nt <> START ->
    acyclicb (cgram (mk_grammar g nt) START) = true ->
    pre_eval fx c = Ok (PParse k nt s) ->
    fuel_bound (cgram (mk_grammar g nt) START) (length s) <= fuel ->
    (exists r, P fx c = Ok (SAssign k r) /\ wf_tree g r /\ lbl r = nt /\ is_openT r = false
               /\ yield r = s /\ L g nt s)
    \/ (P fx c = Raise SyntaxErr /\ ~ L g nt s).
  Proof.
    intros Hd Hne Hac Hp Hf.
    destruct (request_outcomes g fxA fxB fuel Hcanon Hnd Ho fx c k nt s Hd Hne Hp Hf) as [H|[H|(E & _)]].
    - left. exact H.
    - right. exact H.
    - exfalso. exact (request_no_outoffuel fx c k nt s Hd Hne Hac Hp Hf E).
  Qed.

  Lemma request_assign_iff_full fx c k nt s : defined g nt = true -> nt <> START ->
    acyclicb (cgram (mk_grammar g nt) START) = true ->
    pre_eval fx c = Ok (PParse k nt s) ->
    fuel_bound (cgram (mk_grammar g nt) START) (length s) <= fuel ->
    ((exists r, P fx c = Ok (SAssign k r)) <-> L g nt s).
  Proof.
    intros Hd Hne Hac Hp Hf.
    apply (request_assign_iff g fxA fxB fuel Hcanon Hnd Ho fx c k nt s Hd Hne Hp Hf).
    exact (request_no_outoffuel fx c k nt s Hd Hne Hac Hp Hf).
  Qed.

  Lemma firstn_len_lt {A} n (l : list A) : n < length l -> length (firstn n l) = n.
  Proof. intro H. rewrite firstn_length. lia. Qed.

  Theorem crop_assign_iff fx t wt n :
    is_openT t = false -> defined g (lbl t) = true -> lbl t <> START ->
    acyclicb (cgram (mk_grammar g (lbl t)) START) = true ->
    is_openT wt = false -> numeral 10 (yield wt) n -> N.to_nat n < length (yield t) ->
    fuel_bound (cgram (mk_grammar g (lbl t)) START) (N.to_nat n) <= fuel ->
    ((exists r, P fx (CCrop (TTree t) (WTree wt)) = Ok (SAssign 0 r))
     <-> L g (lbl t) (firstn (N.to_nat n) (yield t))).
  Proof.
    intros Hc Hd Hne Hac Hcw Hn Hlt Hf.
    apply (request_assign_iff_full fx _ 0 (lbl t) _ Hd Hne Hac).
    - exact (crop_request t wt n Hc Hcw Hn Hlt).
    - rewrite (firstn_len_lt _ _ Hlt). exact Hf.
  Qed.

  Theorem just_assign_iff fx lj cr t w z fill c :
    is_openT t = false -> defined g (lbl t) = true -> lbl t <> START ->
    acyclicb (cgram (mk_grammar g (lbl t)) START) = true ->
    width_denotes w z -> fill_of fill (yield t) = Ok [c] ->
    Z.of_nat (length (yield t)) <> z -> (cr = true \/ (Z.of_nat (length (yield t)) < z)%Z) ->
    fuel_bound (cgram (mk_grammar g (lbl t)) START) (length (just_output lj cr c z (yield t))) <= fuel ->
    ((exists r, P fx (CJust lj cr (TTree t) w fill) = Ok (SAssign 0 r))
     <-> L g (lbl t) (just_output lj cr c z (yield t))).
  Proof.
    intros Hc Hd Hne Hac Hw Hfill Hz Hcr Hf.
    apply (request_assign_iff_full fx _ 0 (lbl t) _ Hd Hne Hac); [|exact Hf].
    exact (just_request lj cr t w z fill c Hc Hw Hfill Hz Hcr).
  Qed.

  Theorem octal_to_decimal_assign_iff fx os ds o n :
    is_openT o = false -> defined g ds = true -> ds <> START ->
    acyclicb (cgram (mk_grammar g ds) START) = true -> numeral 8 (yield o) n ->
    fuel_bound (cgram (mk_grammar g ds) START) (length (dec_of_N n)) <= fuel ->
    ((exists r, P fx (COctal os ds (TTree o) TVar) = Ok (SAssign 1 r)) <-> L g ds (dec_of_N n)).
  Proof.
    intros Hc Hd Hne Hac Hn Hf. apply (request_assign_iff_full fx _ 1 ds _ Hd Hne Hac); [|exact Hf].
    exact (octal_to_decimal_request fx os ds o n Hc Hn).
  Qed.

  Theorem decimal_to_octal_assign_iff fx os ds d n :
    is_openT d = false -> defined g os = true -> os <> START ->
    acyclicb (cgram (mk_grammar g os) START) = true -> numeral 10 (yield d) n ->
    fuel_bound (cgram (mk_grammar g os) START) (length (oct_of_N n)) <= fuel ->
    ((exists r, P fx (COctal os ds TVar (TTree d)) = Ok (SAssign 0 r)) <-> L g os (oct_of_N n)).
  Proof.
    intros Hc Hd Hne Hac Hn Hf. apply (request_assign_iff_full fx _ 0 os _ Hd Hne Hac); [|exact Hf].
    exact (decimal_to_octal_request fx os ds d n Hc Hn).
  Qed.

  (* all outcomes of crop on closed arguments: the out-of-fuel line of crop_earley_outcomes is gone *)
  Theorem crop_earley_total fx t wt n :
    is_openT t = false -> defined g (lbl t) = true -> lbl t <> START ->
    acyclicb (cgram (mk_grammar g (lbl t)) START) = true ->
    is_openT wt = false -> numeral 10 (yield wt) n ->
    fuel_bound (cgram (mk_grammar g (lbl t)) START) (N.to_nat n) <= fuel ->
    let s := firstn (N.to_nat n) (yield t) in
    let out := P fx (CCrop (TTree t) (WTree wt)) in
    (length (yield t) <= N.to_nat n /\ out = Ok (SBool true))
    \/ (N.to_nat n < length (yield t) /\
        ((exists r, out = Ok (SAssign 0 r) /\ wf_tree g r /\ lbl r = lbl t /\ is_openT r = false /\ yield r = s /\ L g (lbl t) s)
         \/ (out = Raise SyntaxErr /\ ~ L g (lbl t) s))).
  Proof.
    intros Hc Hd Hne Hac Hcw Hn Hf s out.
    destruct (crop_earley_outcomes g fxA fxB fuel Hcanon Hnd Ho fx t wt n Hc Hd Hne Hcw Hn Hf)
      as [H|(Hlt & [H|[H|(E & _)]])].
    - left. exact H.
    - right. split; [exact Hlt|]. left. exact H.
    - right. split; [exact Hlt|]. right. exact H.
    - exfalso.
      apply (request_no_outoffuel fx (CCrop (TTree t) (WTree wt)) 0 (lbl t) s Hd Hne Hac
               (crop_request t wt n Hc Hcw Hn Hlt)); [|exact E].
      unfold s. rewrite (firstn_len_lt _ _ Hlt). exact Hf.
  Qed.
End ComposeAcyclic.

(* ------------------------------------------------------------------------------------ *)
(* the boolean guards (SemPredsGuard.v) imply the hypotheses above                        *)
(* ------------------------------------------------------------------------------------ *)
Lemma nodup_keysb_spec l : nodup_keysb l = true -> NoDup l.
Proof.
  induction l as [|x l IH]; intro H; [constructor|].
  cbn [nodup_keysb] in H. apply andb_true_iff in H as [Hx Hl]. constructor; [|exact (IH Hl)].
  intro Hin. apply mem_In in Hin. rewrite Hin in Hx. discriminate.
Qed.

Lemma grammar_guard_spec g : grammar_guard g = true ->
  canonical_form g = true /\ NoDup (map fst g) /\ occurs_rhs g START = false.
Proof.
  unfold grammar_guard. intro H. apply andb_true_iff in H as [H Ho]. apply andb_true_iff in H as [Hc Hn].
  split; [exact Hc|]. split; [exact (nodup_keysb_spec _ Hn)|]. apply negb_true_iff. exact Ho.
Qed.

Lemma parse_guard_spec fuel g nt n : parse_guard fuel g nt n = true ->
  nt <> START /\ defined g nt = true /\ acyclicb (cgram (mk_grammar g nt) START) = true
  /\ fuel_bound (cgram (mk_grammar g nt) START) n <= fuel.
Proof.
  unfold parse_guard. intro H. apply andb_true_iff in H as [H Hf]. apply andb_true_iff in H as [H Hac].
  apply andb_true_iff in H as [Hne Hd].
  split; [|split; [exact Hd | split; [exact Hac | apply Nat.leb_le; exact Hf]]].
  intro E. subst nt. rewrite str_eqb_refl in Hne. discriminate.
Qed.

(* what the end-to-end stage of harness/c20.py evaluates per case: inside the guard the composed
   model answers the request with the replacement tree or SyntaxError, decided by membership *)
Theorem request_guard_total g fxA fxB fuel fx c :
  grammar_guard g = true -> request_guard fuel g fx c = true ->
  exists k nt s, pre_eval fx c = Ok (PParse k nt s) /\
    ((exists r, sem_eval_earley fxA fxB fuel g fx c = Ok (SAssign k r) /\ wf_tree g r /\ lbl r = nt
                /\ is_openT r = false /\ yield r = s /\ L g nt s)
     \/ (sem_eval_earley fxA fxB fuel g fx c = Raise SyntaxErr /\ ~ L g nt s)).
Proof.
  intros Hg Hr. destruct (grammar_guard_spec g Hg) as (Hcanon & Hnd & Ho).
  unfold request_guard in Hr.
  destruct (pre_eval fx c) as [[b| |k l|k nt s|]|e] eqn:Hp; try discriminate.
  destruct (parse_guard_spec fuel g nt (length s) Hr) as (Hne & Hd & Hac & Hf).
  exists k, nt, s. split; [reflexivity|].
  exact (request_total g fxA fxB fuel Hcanon Hnd Ho fx c k nt s Hd Hne Hac Hp Hf).
Qed.

(* ------------------------------------------------------------------------------------ *)
(* non-vacuity: <start> ::= <o> ; <o> ::= <d><o> | <d> ; <d> ::= 1 | 7 | 0                 *)
(* ------------------------------------------------------------------------------------ *)
Example ex_acyclic_hyps :
  grammar_guard ex_gs = true /\
  acyclicb (cgram (mk_grammar ex_gs (lbl ex_o17)) START) = true /\
  parse_guard 200 ex_gs (lbl ex_o17) 3 = true /\
  request_guard 200 ex_gs false (CCrop (TTree ex_o17) (WTree ex_w1)) = true /\
  request_guard 200 ex_gs false (CJust true false (TTree ex_o17) (WInt 3) (Some [97%N])) = true /\
  (* a <start>-rooted argument is outside the guard *)
  request_guard 200 ex_gs false (CCrop (TTree ex_s17) (WTree ex_w1)) = false /\
  is_request false (CCrop (TTree ex_s17) (WTree ex_w1)) = true.
Proof. vm_compute. repeat split; reflexivity. Qed.

(* the guard acyclicb is a real restriction: <start> ::= <a>; <a> ::= <a> | "1" — the specialised
   grammar has the cyclic unit derivation <a> => <a>, and the model's full enumeration of the
   (infinite) forest does run out of fuel on the member "1" *)
Definition ex_gcyc : grammar :=
  [(START, [[[60; 97; 62]%N]]); ([60; 97; 62]%N, [[[60; 97; 62]%N]; [[49]%N]])].
Example ex_cyclic_outoffuel :
  grammar_guard ex_gcyc = true /\
  acyclicb (cgram (mk_grammar ex_gcyc [60; 97; 62]%N) START) = false /\
  fuel_bound (cgram (mk_grammar ex_gcyc [60; 97; 62]%N) START) 1 <= 60 /\
  mk_parse false false 60 ex_gcyc [60; 97; 62]%N [49]%N = Raise OutOfFuel.
Proof.
  split; [vm_compute; reflexivity|]. split; [vm_compute; reflexivity|].
  split; [apply Nat.leb_le; vm_compute; reflexivity|]. vm_compute. reflexivity.
Qed.

(* ------------------------------------------------------------------------------------ *)
(* the table form of the guard (computed once per grammar by the harness) is sound        *)
(* ------------------------------------------------------------------------------------ *)
Lemma tab_lookup_map (f : str -> bool) keys nt :
  tab_lookup nt (map (fun k => (k, f k)) keys) = true -> f nt = true.
Proof.
  induction keys as [|k keys IH]; cbn [map tab_lookup]; [discriminate|].
  destruct (str_eqb nt k) eqn:E; [|exact IH].
  apply str_eqb_eq in E. subst k. intro H. exact H.
Qed.

Lemma fuel_bound_mono cg n m : n <= m -> fuel_bound cg n <= fuel_bound cg m.
Proof.
  intro H. unfold fuel_bound.
  assert (item_shapes cg * S n <= item_shapes cg * S m) by (apply Nat.mul_le_mono_l; lia). lia.
Qed.

Lemma parse_guard_mono fuel g nt n m : n <= m -> parse_guard fuel g nt m = true -> parse_guard fuel g nt n = true.
Proof.
  intros Hnm. unfold parse_guard. intro H. apply andb_true_iff in H as [H Hf]. rewrite H. cbn [andb].
  apply Nat.leb_le. apply Nat.leb_le in Hf.
  pose proof (fuel_bound_mono (cgram (mk_grammar g nt) START) n m Hnm). lia.
Qed.

Theorem request_guard_tab_sound fuel g nmax fx c :
  request_guard_tab (guard_table fuel g nmax) nmax fx c = true -> request_guard fuel g fx c = true.
Proof.
  unfold request_guard_tab, request_guard.
  destruct (pre_eval fx c) as [[b| |k l|k nt s|]|e]; try discriminate.
  intro H. apply andb_true_iff in H as [Hlen Htab]. apply Nat.leb_le in Hlen.
  unfold guard_table in Htab.
  apply (tab_lookup_map (fun nt0 => parse_guard fuel g nt0 nmax)) in Htab.
  exact (parse_guard_mono fuel g nt (length s) nmax Hlen Htab).
Qed.
