(* C09 — MODEL of the formula rewrites of isla/language.py (no proofs in this file).

   Mirrors, as they are at the pinned commit:
     Formula.__eq__ (all classes; n-ary Conjunctive/DisjunctiveFormula compare their
       split_conjunction / split_disjunction lists, i.e. equality modulo re-nesting),
     Formula.__and__ / __or__ / __neg__ (every simplification case), SMTFormula.__neg__,
     split_conjunction / split_disjunction, replace_formula (formula argument),
     convert_to_nnf, convert_to_dnf(deep) (with its assert; itertools.product over whole
     combinations, as repaired by /repo commit 71bb9ab), ISLaSolver.establish_invariant = dnf(nnf(f), deep=False),
     substitute_variables, BoundVariablesCollector, fresh_vars, ensure_unique_bound_variables.

   Atoms (SMT formulas) are abstract: the Section variables below stand for z3's structural
   equality, z3.is_true / is_false, BoolVal(True/False), z3_push_in_negations(., negate)
   and z3 substitution of variables.

   Arity: Python cannot construct a Conjunctive/DisjunctiveFormula with < 2 arguments (the
   constructor raises RuntimeError), so `reduce(op, args)` never sees an empty list.  The
   model is total on such ill-formed ASTs by using the unit of the connective (`reduce1`
   default); `arity_ok` is the constructor's check.  The correspondence ranges over
   constructible formulas only. *)
From Coq Require Import List NArith Bool Arith.
From ISLA Require Export Str Outcome Tree Formula.
Import ListNotations.

(* ---------- equality of the non-formula parts ---------- *)
Fixpoint tree_eqb (s t : tree) : bool :=
  match s, t with
  | Node l1 i1 o1 k1, Node l2 i2 o2 k2 =>
      str_eqb l1 l2 && N.eqb i1 i2 && Bool.eqb o1 o2 &&
      (fix go (a b : list tree) : bool :=
         match a, b with
         | [], [] => true
         | x :: a', y :: b' => tree_eqb x y && go a' b'
         | _, _ => false
         end) k1 k2
  end.

Definition parg_eqb (a b : parg) : bool :=
  match a, b with
  | PVar v, PVar w => var_eqb v w
  | PStr s, PStr t => str_eqb s t
  | PTree s, PTree t => tree_eqb s t
  | _, _ => false
  end.

Fixpoint list_eqb {X} (e : X -> X -> bool) (a b : list X) : bool :=
  match a, b with
  | [], [] => true
  | x :: a', y :: b' => e x y && list_eqb e a' b'
  | _, _ => false
  end.

(* BindExpression.__eq__/__hash__: bound elements with dummy variables replaced by their type *)
Definition dvar_eqb (a b : var) : bool :=
  match vk a, vk b with
  | VDummy, VDummy => str_eqb (vtype a) (vtype b)
  | _, _ => var_eqb a b
  end.
Definition mexpr_eqb (m n : mexpr) : bool := list_eqb dvar_eqb (me_elems m) (me_elems n).
Definition omexpr_eqb (m n : option mexpr) : bool :=
  match m, n with
  | None, None => true
  | Some a, Some b => mexpr_eqb a b
  | _, _ => false
  end.
Definition invar_eqb (a b : invar) : bool :=
  match a, b with
  | InVar v, InVar w => var_eqb v w
  | InTree s, InTree t => tree_eqb s t
  | _, _ => false
  end.

Definition lookup (rho : list (var * var)) (v : var) : var :=
  match find (fun p => var_eqb (fst p) v) rho with Some p => snd p | None => v end.

Section Rewrite.
  Variable A : Type.
  Variable aeq : A -> A -> bool.                 (* SMTFormula.__eq__ : z3 structural equality *)
  Variable a_true a_false : A.                   (* z3.BoolVal(True) / BoolVal(False) *)
  Variable is_true is_false : A -> bool.         (* z3.is_true / z3.is_false *)
  Variable push_atom : bool -> A -> A.           (* z3_push_in_negations(formula, negate) *)
  Variable asubst : list (var * var) -> A -> A.  (* z3_subst on variable symbols *)

  Notation form := (formula A).
  Definition f_true : form := FSmt a_true.       (* language.true()  *)
  Definition f_false : form := FSmt a_false.     (* language.false() *)

  (* ---------- split_conjunction / split_disjunction ---------- *)
  Fixpoint split_conj (f : form) : list form :=
    match f with FAnd fs => flat_map split_conj fs | _ => [f] end.
  Fixpoint split_disj (f : form) : list form :=
    match f with FOr fs => flat_map split_disj fs | _ => [f] end.

  (* ---------- equality ---------- *)
  (* strict structural equality = what a dict/FrozenOrderedSet uses (equal hash and ==):
     the hashes of the combinators are structural, their __eq__ is coarser *)
  Fixpoint seqb (f g : form) : bool :=
    match f, g with
    | FSmt a, FSmt b => aeq a b
    | FSPred n xs, FSPred m ys => str_eqb n m && list_eqb parg_eqb xs ys
    | FSemPred n xs, FSemPred m ys => str_eqb n m && list_eqb parg_eqb xs ys
    | FNot a, FNot b => seqb a b
    | FAnd fs, FAnd gs =>
        (fix go (a b : list form) : bool :=
           match a, b with
           | [], [] => true
           | x :: a', y :: b' => seqb x y && go a' b'
           | _, _ => false
           end) fs gs
    | FOr fs, FOr gs =>
        (fix go (a b : list form) : bool :=
           match a, b with
           | [], [] => true
           | x :: a', y :: b' => seqb x y && go a' b'
           | _, _ => false
           end) fs gs
    | FForall v i m b, FForall w j n c =>
        var_eqb v w && invar_eqb i j && seqb b c && omexpr_eqb m n
    | FExists v i m b, FExists w j n c =>
        var_eqb v w && invar_eqb i j && seqb b c && omexpr_eqb m n
    | FForallInt v b, FForallInt w c => var_eqb v w && seqb b c
    | FExistsInt v b, FExistsInt w c => var_eqb v w && seqb b c
    | _, _ => false
    end.

  (* normal form of the flattening done by Conjunctive/DisjunctiveFormula.__eq__ at every level *)
  Fixpoint flat (f : form) : form :=
    match f with
    | FNot g => FNot (flat g)
    | FAnd fs => FAnd (flat_map (fun x => match flat x with FAnd l => l | y => [y] end) fs)
    | FOr fs => FOr (flat_map (fun x => match flat x with FOr l => l | y => [y] end) fs)
    | FForall v i m b => FForall v i m (flat b)
    | FExists v i m b => FExists v i m (flat b)
    | FForallInt v b => FForallInt v (flat b)
    | FExistsInt v b => FExistsInt v (flat b)
    | _ => f
    end.

  (* Python `f == g` on formulas *)
  Definition feqb (f g : form) : bool := seqb (flat f) (flat g).

  (* ---------- reduce ---------- *)
  Definition reduce1 (op : form -> form -> form) (unit : form) (l : list form) : form :=
    match l with [] => unit | x :: xs => fold_left op xs x end.

  (* ---------- __and__ / __or__ ---------- *)
  Definition smt_is (p : A -> bool) (f : form) : bool :=
    match f with FSmt a => p a | _ => false end.
  Definition neg_of (f g : form) : bool :=       (* isinstance(f, NegatedFormula) and f.args[0] == g *)
    match f with FNot f' => feqb f' g | _ => false end.

  Definition f_and (a b : form) : form :=
    if feqb a b then a
    else if smt_is is_false a then a
    else if smt_is is_false b then b
    else if smt_is is_true a then b
    else if smt_is is_true b then a
    else if neg_of a b then f_false
    else if neg_of b a then f_false
    else FAnd [a; b].

  Definition f_or (a b : form) : form :=
    if feqb a b then a
    else if smt_is is_true a then a
    else if smt_is is_true b then b
    else if smt_is is_false a then b
    else if smt_is is_false b then a
    else if neg_of a b then f_true
    else if neg_of b a then f_true
    else FOr [a; b].

  (* ---------- __neg__ ---------- *)
  Fixpoint f_neg (f : form) : form :=
    match f with
    | FSmt a => FSmt (push_atom true a)
    | FNot g => g
    | FAnd fs => reduce1 f_or f_false (map f_neg fs)
    | FOr fs => reduce1 f_and f_true (map f_neg fs)
    | FForall v i m b => FExists v i m (f_neg b)
    | FExists v i m b => FForall v i m (f_neg b)
    | FForallInt v b => FExistsInt v (f_neg b)
    | FExistsInt v b => FForallInt v (f_neg b)
    | FSPred _ _ | FSemPred _ _ => FNot f
    end.

  (* ---------- convert_to_nnf ---------- *)
  Fixpoint nnf (f : form) (neg : bool) : form :=
    match f with
    | FNot g => nnf g (negb neg)
    | FAnd fs =>
        let args := map (fun a => nnf a neg) fs in
        if neg then reduce1 f_or f_false args else reduce1 f_and f_true args
    | FOr fs =>
        let args := map (fun a => nnf a neg) fs in
        if neg then reduce1 f_and f_true args else reduce1 f_or f_false args
    | FSPred _ _ | FSemPred _ _ => if neg then FNot f else f
    | FSmt a => FSmt (push_atom neg a)
    (* bodies of quantifiers are only traversed when the quantifier is negated *)
    | FForall v i m b => if neg then FExists v i m (nnf b true) else FForall v i m b
    | FExists v i m b => if neg then FForall v i m (nnf b true) else FExists v i m b
    | FForallInt v b => if neg then FExistsInt v (nnf b true) else FForallInt v b
    | FExistsInt v b => if neg then FForallInt v (nnf b true) else FExistsInt v b
    end.

  (* ---------- convert_to_dnf ---------- *)
  Fixpoint dedup (l : list form) : list form :=          (* FrozenOrderedSet(l): first occurrences *)
    match l with
    | [] => []
    | x :: l' => x :: filter (fun y => negb (seqb x y)) (dedup l')
    end.

  Definition is_comb (f : form) : bool :=                 (* isinstance(f, PropositionalCombinator) *)
    match f with FNot _ | FAnd _ | FOr _ => true | _ => false end.
  Definition dnf_assert_fails (f : form) : bool :=
    match f with FNot g => is_comb g | _ => false end.

  Definition len1 {X} (l : list X) : bool := match l with [_] => true | _ => false end.
  Definition isnil {X} (l : list X) : bool := match l with [] => true | _ => false end.

  (* itertools.product over the lists: first list outermost *)
  Fixpoint product {X} (ls : list (list X)) : list (list X) :=
    match ls with
    | [] => [[]]
    | l :: ls' => flat_map (fun x => map (cons x) (product ls')) l
    end.

  (* reduce(&, FrozenOrderedSet(split_conjunction(reduce(&, combination))), true())
     (repaired code, /repo commit 71bb9ab: whole combinations of itertools.product instead of
     the 2-tuple unpacking `for left, right in ...` that raised ValueError for n != 2) *)
  Definition dnf_clause (c : list form) : form :=
    fold_left f_and (dedup (split_conj (reduce1 f_and f_true c))) f_true.

  (* the conjunction case once the arguments' disjunct lists are known *)
  Definition dnf_conj (f : form) (dl : list (list form)) : res form :=
    if forallb len1 dl then Ok f
    else Ok (fold_left f_or (map dnf_clause (product dl)) f_false).

  Fixpoint dnf (deep : bool) (f : form) : res form :=
    if dnf_assert_fails f then Raise AssertErr else
    match f with
    | FAnd fs =>
        bind ((fix go (l : list form) : res (list (list form)) :=
                 match l with
                 | [] => Ok []
                 | a :: l' => bind (dnf true a) (fun r => bind (go l') (fun rs => Ok (split_disj r :: rs)))
                 end) fs)
             (dnf_conj f)
    | FOr fs =>
        bind ((fix go (l : list form) : res (list form) :=
                 match l with
                 | [] => Ok []
                 | a :: l' => bind (dnf true a) (fun r => bind (go l') (fun rs => Ok (r :: rs)))
                 end) fs)
             (fun rs => Ok (fold_left f_or rs f_false))
    | FForall v i m b => if deep then bind (dnf true b) (fun b' => Ok (FForall v i m b')) else Ok f
    | FExists v i m b => if deep then bind (dnf true b) (fun b' => Ok (FExists v i m b')) else Ok f
    | _ => Ok f
    end.

  (* ISLaSolver.establish_invariant: the disjuncts of dnf(nnf(constraint), deep=False) *)
  Definition establish_invariant (f : form) : res (list form) :=
    bind (dnf false (nnf f false)) (fun g => Ok (split_disj g)).

  (* ---------- replace_formula(in_formula, to_replace : Formula, replace_with) ---------- *)
  Fixpoint replace_formula (f tr rw : form) : form :=
    if feqb f tr then rw else
    match f with
    | FAnd fs => reduce1 f_and f_true (map (fun c => replace_formula c tr rw) fs)
    | FOr fs => reduce1 f_or f_false (map (fun c => replace_formula c tr rw) fs)
    | FNot g =>
        let r := replace_formula g tr rw in
        if feqb r f_false then f_true else if feqb r f_true then f_false else FNot r
    | FForall v i m b => FForall v i m (replace_formula b tr rw)
    | FExists v i m b => FExists v i m (replace_formula b tr rw)
    | FForallInt v b => FForallInt v (replace_formula b tr rw)
    | FExistsInt v b => FExistsInt v (replace_formula b tr rw)
    | _ => f
    end.

  (* ---------- substitute_variables ---------- *)
  Definition subst_parg (rho : list (var * var)) (a : parg) : parg :=
    match a with PVar v => PVar (lookup rho v) | _ => a end.
  Definition subst_invar (rho : list (var * var)) (i : invar) : invar :=
    match i with InVar v => InVar (lookup rho v) | _ => i end.
  Definition subst_mexpr (rho : list (var * var)) (m : mexpr) : mexpr :=
    MkMexpr (map (lookup rho) (me_elems m))
            (map (fun tp => (fst tp, map (fun vp => (lookup rho (fst vp), snd vp)) (snd tp))) (me_trees m)).

  Fixpoint subst_vars (rho : list (var * var)) (f : form) : form :=
    match f with
    | FSmt a => FSmt (asubst rho a)
    | FSPred n xs => FSPred n (map (subst_parg rho) xs)
    | FSemPred n xs => FSemPred n (map (subst_parg rho) xs)
    | FNot g => FNot (subst_vars rho g)
    | FAnd fs => reduce1 f_and f_true (map (subst_vars rho) fs)
    | FOr fs => reduce1 f_or f_false (map (subst_vars rho) fs)
    | FForall v i m b =>
        FForall (lookup rho v) (subst_invar rho i) (option_map (subst_mexpr rho) m) (subst_vars rho b)
    | FExists v i m b =>
        FExists (lookup rho v) (subst_invar rho i) (option_map (subst_mexpr rho) m) (subst_vars rho b)
    | FForallInt v b => FForallInt (lookup rho v) (subst_vars rho b)
    | FExistsInt v b => FExistsInt (lookup rho v) (subst_vars rho b)
    end.

  (* ---------- BoundVariablesCollector ---------- *)
  Definition is_plain_bound (v : var) : bool :=            (* type(var) is BoundVariable *)
    match vk v with VBound => true | _ => false end.
  Definition mexpr_bvars (m : option mexpr) : list var :=
    match m with Some e => filter is_plain_bound (me_elems e) | None => [] end.

  Fixpoint bvars (f : form) : list var :=
    match f with
    | FNot g => bvars g
    | FAnd fs | FOr fs => flat_map bvars fs
    | FForall v _ m b | FExists v _ m b => v :: mexpr_bvars m ++ bvars b
    | FForallInt v b | FExistsInt v b => v :: bvars b
    | _ => []
    end.

  Definition mem_var (v : var) (l : list var) : bool := existsb (var_eqb v) l.
  Fixpoint uniq_vars (l : list var) : list var :=          (* FrozenOrderedSet of variables *)
    match l with
    | [] => []
    | x :: l' => x :: filter (fun y => negb (var_eqb x y)) (uniq_vars l')
    end.
  (* QuantifiedFormula.bound_variables() *)
  Definition q_bound (v : var) (m : option mexpr) : list var := uniq_vars (v :: mexpr_bvars m).

  (* ---------- fresh_vars ---------- *)
  Definition mem_str (s : str) (l : list str) : bool := existsb (str_eqb s) l.

  Definition c_us : chr := 95%N.                           (* '_' *)
  Definition is_digit (c : chr) : bool := (N.leb 48 c && N.leb c 57)%N.

  (* the regex match `^(.+any)_[0-9]+$` of fresh_vars, group 1: cut at the LAST '_' if only digits (>=1) follow *)
  Fixpoint strip_idx_aux (s : str) : option (option str) :=
    (* Some (Some pre): matched with prefix pre;  Some None: suffix is digits only so far
       (no '_' seen), None: a non-digit occurs after the last '_' *)
    match s with
    | [] => Some None
    | c :: s' =>
        match strip_idx_aux s' with
        | Some (Some pre) => Some (Some (c :: pre))
        | Some None =>
            if N.eqb c c_us then (if isnil s' then None else Some (Some []))
            else if is_digit c then Some None else None
        | None => None
        end
    end.
  Definition strip_idx (s : str) : option str :=
    match strip_idx_aux s with Some (Some pre) => Some pre | _ => None end.

  (* str(idx) *)
  Fixpoint dec_digits (fuel : nat) (n : N) (acc : str) : str :=
    match fuel with
    | O => acc
    | S k => let acc' := (48 + N.modulo n 10)%N :: acc in
             if N.ltb n 10 then acc' else dec_digits k (N.div n 10) acc'
    end.
  Definition dec (n : N) : str := dec_digits (S (N.to_nat (N.log2 n))) n [].

  Definition idx_name (p : str) (i : N) : str := p ++ c_us :: dec i.

  (* while proposal_idx in used_names: idx += 1   (fuel > |used| suffices) *)
  Fixpoint first_free (fuel : nat) (p : str) (used : list str) (i : N) : N :=
    match fuel with
    | O => i
    | S k => if mem_str (idx_name p i) used then first_free k p used (N.succ i) else i
    end.

  Fixpoint fresh_vars (orig : list var) (used : list str) : list (var * var) * list str :=
    match orig with
    | [] => ([], used)
    | v :: orig' =>
        if negb (mem_str (vname v) used) then
          let (rho, u) := fresh_vars orig' (vname v :: used) in ((v, v) :: rho, u)
        else
          let p := match strip_idx (vname v) with Some pre => pre | None => vname v end in
          let nm := idx_name p (first_free (S (length used)) p used 0%N) in
          let (rho, u) := fresh_vars orig' (nm :: used) in
          ((v, MkVar VBound nm (vtype v)) :: rho, u)
    end.

  (* ---------- ensure_unique_bound_variables ---------- *)
  (* `used_names` is a mutable set shared with the caller: the function returns the formula and
     the caller-visible set afterwards.  In the quantifier case the caller's set receives the
     names of the variables bound strictly inside and the fresh names of this quantifier's own
     variables, whereas the recursive call works on a private set (orig + own fresh names). *)
  Definition names_not_in (vs : list var) (excl : list var) : list str :=
    map vname (filter (fun v => negb (mem_var v excl)) vs).

  Fixpoint ensure_unique (fuel : nat) (f : form) (used : list str) : option (form * list str) :=
    match fuel with
    | O => None
    | S k =>
        let quant (mk : var -> invar -> option mexpr -> form -> form) v i m b :=
          let own := q_bound v m in
          let used1 := names_not_in (uniq_vars (bvars f)) own ++ used in
          let (rho, used2) := fresh_vars own used1 in
          let added := firstn (length used2 - length used1) used2 in
          let v' := lookup rho v in
          let i' := subst_invar rho i in
          let m' := option_map (subst_mexpr rho) m in
          let b' := subst_vars rho b in
          match ensure_unique k b' (added ++ used) with
          | Some (b'', _) => Some (mk v' i' m' b'', used2)
          | None => None
          end in
        match f with
        | FForall v i m b => quant (@FForall A) v i m b
        | FExists v i m b => quant (@FExists A) v i m b
        | FNot g =>
            match ensure_unique k g used with
            | Some (g', u) => Some (FNot g', u)
            | None => None
            end
        | FAnd fs =>
            match (fix go (l : list form) (u : list str) : option (list form * list str) :=
                     match l with
                     | [] => Some ([], u)
                     | a :: l' =>
                         match ensure_unique k a u with
                         | Some (a', u') =>
                             match go l' u' with
                             | Some (r, u'') => Some (a' :: r, u'')
                             | None => None
                             end
                         | None => None
                         end
                     end) fs used with
            | Some (gs, u) => Some (reduce1 f_and f_true gs, u)
            | None => None
            end
        | FOr fs =>
            match (fix go (l : list form) (u : list str) : option (list form * list str) :=
                     match l with
                     | [] => Some ([], u)
                     | a :: l' =>
                         match ensure_unique k a u with
                         | Some (a', u') =>
                             match go l' u' with
                             | Some (r, u'') => Some (a' :: r, u'')
                             | None => None
                             end
                         | None => None
                         end
                     end) fs used with
            | Some (gs, u) => Some (reduce1 f_or f_false gs, u)
            | None => None
            end
        | _ => Some (f, used)
        end
    end.

  (* the constructor's arity check, at every level *)
  Fixpoint arity_ok (f : form) : bool :=
    match f with
    | FNot g => arity_ok g
    | FAnd fs | FOr fs => Nat.leb 2 (length fs) && forallb arity_ok fs
    | FForall _ _ _ b | FExists _ _ _ b | FForallInt _ b | FExistsInt _ b => arity_ok b
    | _ => true
    end.
End Rewrite.

(* ---------- concrete atoms used by the correspondence check ----------
   z3 formulas of the shapes  True | False | x == "s" | Not(x == "s")  for a String symbol x.
   (z3_push_in_negations maps them to each other: simplify(Not(x == "s")) stays as it is.) *)
Inductive catom := CTrue | CFalse | CEq (v : var) (s : str) (neg : bool).

Definition caeq (a b : catom) : bool :=
  match a, b with
  | CTrue, CTrue | CFalse, CFalse => true
  | CEq v s n, CEq w t m => str_eqb (vname v) (vname w) && str_eqb s t && Bool.eqb n m
  | _, _ => false
  end.
Definition c_is_true (a : catom) : bool := match a with CTrue => true | _ => false end.
Definition c_is_false (a : catom) : bool := match a with CFalse => true | _ => false end.
Definition cpush (b : bool) (a : catom) : catom :=
  match a with
  | CTrue => if b then CFalse else CTrue
  | CFalse => if b then CTrue else CFalse
  | CEq v s n => CEq v s (xorb b n)
  end.
Definition casubst (rho : list (var * var)) (a : catom) : catom :=
  match a with CEq v s n => CEq (lookup rho v) s n | _ => a end.

Definition cform := formula catom.
Definition c_seqb := seqb catom caeq.
Definition c_feqb := feqb catom caeq.
Definition c_and := f_and catom caeq CFalse c_is_true c_is_false.
Definition c_or := f_or catom caeq CTrue c_is_true c_is_false.
Definition c_neg := f_neg catom caeq CTrue CFalse c_is_true c_is_false cpush.
Definition c_nnf := nnf catom caeq CTrue CFalse c_is_true c_is_false cpush.
Definition c_dnf := dnf catom caeq CTrue CFalse c_is_true c_is_false.
Definition c_invariant := establish_invariant catom caeq CTrue CFalse c_is_true c_is_false cpush.
Definition c_replace := replace_formula catom caeq CTrue CFalse c_is_true c_is_false.
Definition c_unique (f : cform) : option cform :=
  match ensure_unique catom caeq CTrue CFalse c_is_true c_is_false casubst
          (4 * fsize f + 8) f [] with
  | Some (g, _) => Some g
  | None => None
  end.
Definition c_split_conj := split_conj catom.
Definition c_split_disj := split_disj catom.

(* result comparison used by the generated cases: EXACT structural identity of the ASTs
   (variables by kind/name/type, match expressions by their element lists) *)
Definition cres_eqb (x y : res cform) : bool := res_eqb c_seqb x y.
Definition copt_eqb (x y : option cform) : bool :=
  match x, y with Some a, Some b => c_seqb a b | None, None => true | _, _ => false end.
