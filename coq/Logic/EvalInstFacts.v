(* C03, second proof extension: the instantiation step `instantiate_top_level_constant`
   (Eval.inst_const) preserves the specification semantics, so that the correctness theorem can be
   stated for `evaluate cst f` / `solver_check cst f` on the UNINSTANTIATED formula f (the
   property's observable) against `sat cst f`; the dispatch of `evaluate` (numeric quantifier
   anywhere -> second strategy) as an equation.
   Nothing existing is changed; the model (Eval.v) and the specification (Semantics.v) are untouched. *)
From ISLA Require Import Semantics Eval EvalAtoms EvalFacts MatchFacts EvalMexprFacts EvalMexprCheck.
From Coq Require Import ZArith Lia Permutation.

(* every match expression of the formula has at least one prefix tree (BindExpression.to_tree_prefix
   returned a non-empty list).  Needed: below a quantifier whose match expression has NO prefix tree
   the guard wfm says nothing about the body, but `evaluate` still looks into the body (dispatch on
   numeric quantifiers, free variables, instantiation). *)
Fixpoint me_nonempty {A} (f : formula A) : bool :=
  match f with
  | FSmt _ | FSPred _ _ | FSemPred _ _ => true
  | FNot g => me_nonempty g
  | FAnd fs | FOr fs => forallb me_nonempty fs
  | FForall _ _ m b | FExists _ _ m b =>
      match m with Some me => negb (is_nil (me_trees me)) | None => true end && me_nonempty b
  | FForallInt _ b | FExistsInt _ b => me_nonempty b
  end.

Lemma mapM_ok_Forall2 {B C} (g : B -> res C) (l : list B) : forall l',
  mapM g l = Ok l' -> Forall2 (fun x y => g x = Ok y) l l'.
Proof.
  induction l as [|x l IH]; simpl; intros l' H.
  - inversion H. constructor.
  - destruct (g x) as [y|e] eqn:Ex; [|discriminate].
    destruct (mapM g l) as [ys|e] eqn:El; [|discriminate]. inversion H; subst.
    constructor; [assumption | apply IH; reflexivity].
Qed.

Lemma mapM_total {B C} (g : B -> res C) (l : list B) :
  Forall (fun x => exists y, g x = Ok y) l -> exists l', mapM g l = Ok l'.
Proof.
  induction 1 as [|x l [y Hy] Hl [l' IH]]; simpl; [eexists; reflexivity|].
  rewrite Hy, IH. eexists; reflexivity.
Qed.

Lemma mapM_id {B} (g : B -> res B) (l : list B) :
  Forall (fun x => g x = Ok x) l -> mapM g l = Ok l.
Proof.
  induction 1 as [|x l Hx Hl IH]; simpl; [reflexivity|]. rewrite Hx, IH. reflexivity.
Qed.

Lemma remove_var_In v w l : In w (remove_var v l) <-> In w l /\ w <> v.
Proof.
  unfold remove_var. rewrite filter_In, negb_true_iff, var_eqb_neq. tauto.
Qed.

Lemma fold_remove_In (bound : list var) : forall l w,
  In w (fold_left (fun acc u => remove_var u acc) bound l) <-> In w l /\ ~ In w bound.
Proof.
  induction bound as [|u bound IH]; intros l w; simpl; [tauto|].
  rewrite IH, remove_var_In. split.
  - intros [[H1 H2] H3]. split; [assumption|]. intros [->|H]; [apply H2; reflexivity | apply H3; assumption].
  - intros [H1 H2]. split; [split; [assumption|] |]; intro H; apply H2; [left; symmetry | right]; assumption.
Qed.

Section InstCore.
  Variable A : Type.
  Variable afree : A -> list var.
  Variable aopen : A -> bool.
  Variable ainst : var -> tree -> A -> res A.
  Variable adenote : A -> (var -> option tree) -> Prop.
  Variable ref : tree.
  Variable cst : var.

  Notation inst := (inst_const A ainst ref cst).
  Notation iarg := (inst_arg ref cst).
  Notation iin := (inst_in ref cst).
  Notation WFM := (wfm A afree aopen ref).

  Definition pre_inst (f : formula A) : res (formula A) :=
    if existsb (var_eqb cst) (fvars A afree f) then inst f else Ok f.

  Lemma inst_has_numq f : forall f', inst f = Ok f' -> has_numq A f' = has_numq A f.
  Proof.
    induction f as [x|n args|n args|g IH|fs IH|fs IH|v i m body IH|v i m body IH|v body IH|v body IH]
      using formula_ind'; intros f' H; simpl in H.
    - destruct (ainst cst ref x); inversion H; reflexivity.
    - inversion H; reflexivity.
    - inversion H; reflexivity.
    - destruct (inst g) as [g'|e]; inversion H; subst. simpl. apply IH. reflexivity.
    - destruct (mapM inst fs) as [l|e] eqn:El; inversion H; subst. simpl.
      apply mapM_ok_Forall2 in El. clear H. induction El as [|x y fs l Hxy Hl IHl]; [reflexivity|].
      inversion IH as [|? ? Hx Hfs]; subst. simpl. rewrite (Hx y Hxy), (IHl Hfs). reflexivity.
    - destruct (mapM inst fs) as [l|e] eqn:El; inversion H; subst. simpl.
      apply mapM_ok_Forall2 in El. clear H. induction El as [|x y fs l Hxy Hl IHl]; [reflexivity|].
      inversion IH as [|? ? Hx Hfs]; subst. simpl. rewrite (Hx y Hxy), (IHl Hfs). reflexivity.
    - destruct (inst body) as [b'|e]; inversion H; subst. simpl. apply IH. reflexivity.
    - destruct (inst body) as [b'|e]; inversion H; subst. simpl. apply IH. reflexivity.
    - destruct (inst body) as [b'|e]; inversion H; subst. reflexivity.
    - destruct (inst body) as [b'|e]; inversion H; subst. reflexivity.
  Qed.

  (* ---------------------------------------------------------------- *)
  (* instantiation preserves guard and meaning                         *)
  (* ---------------------------------------------------------------- *)
  Hypothesis Huniq : uniq_ids ref.
  (* the constant has the type of the root and is a Constant (not a BoundVariable) *)
  Hypothesis Hroot : lbl ref = vtype cst.
  Hypothesis Hkind : vk cst = VConst.

  (* b: assignment of the uninstantiated formula (cst |-> root); b': of the instantiated one *)
  Definition crel (b b' : env) : Prop := b cst = Some (VPos []) /\ forall w, w <> cst -> b w = b' w.

  (* what is assumed of SMTFormula.substitute_expressions({cst: ref}) on abstract atoms
     (all five are PROVED for the concrete family, see atom_inst_* below) *)
  Hypothesis Hainst_ok : forall x, exists y, ainst cst ref x = Ok y.
  Hypothesis Hainst_free : forall x y, ainst cst ref x = Ok y ->
    forall v, In v (afree y) -> In v (afree x) /\ v <> cst.
  Hypothesis Hainst_open : forall x y, ainst cst ref x = Ok y -> aopen x = false -> aopen y = false.
  Hypothesis Hainst_den : forall x y b b', ainst cst ref x = Ok y -> crel b b' ->
    (adenote x (tenv ref b) <-> adenote y (tenv ref b')).
  Hypothesis Hainst_id : forall x, ~ In cst (afree x) -> ainst cst ref x = Ok x.

  Lemma crel_upd b b' v x : v <> cst -> crel b b' -> crel (upd b v x) (upd b' v x).
  Proof.
    intros Hv [H1 H2]. split.
    - unfold upd. destruct (var_eqb cst v) eqn:E; [apply var_eqb_eq in E; congruence | assumption].
    - intros w Hw. unfold upd. destruct (var_eqb w v); [reflexivity | apply H2; assumption].
  Qed.

  Lemma crel_upd_pos bs : forall b b', (forall w, In w (map fst bs) -> w <> cst) -> crel b b' ->
    crel (upd_pos b bs) (upd_pos b' bs).
  Proof.
    induction bs as [|[v p] bs IH]; intros b b' Hbs Hrel; simpl; [assumption|].
    apply crel_upd; [apply Hbs; left; reflexivity|]. apply IH; [|assumption].
    intros w Hw. apply Hbs. right. assumption.
  Qed.

  Lemma crel_top : crel (upd env_empty cst (VPos [])) env_empty.
  Proof.
    split.
    - unfold upd. rewrite var_eqb_refl. reflexivity.
    - intros w Hw. unfold upd. apply var_eqb_neq in Hw. rewrite Hw. reflexivity.
  Qed.

  Lemma arg_pos_inst b b' x p : crel b b' -> (arg_pos ref b x p <-> arg_pos ref b' (iarg x) p).
  Proof.
    intros [H1 H2]. destruct x as [v|s|t]; simpl; [|tauto|tauto].
    destruct (var_eqb v cst) eqn:E.
    - apply var_eqb_eq in E. subst v. simpl. rewrite H1, (pos_of_root ref Huniq). split.
      + intro H. inversion H. reflexivity.
      + intros ->. reflexivity.
    - apply var_eqb_neq in E. simpl. rewrite (H2 v E). tauto.
  Qed.

  Lemma in_pos_inst b b' i p : crel b b' -> (in_pos ref b i p <-> in_pos ref b' (iin i) p).
  Proof.
    intros [H1 H2]. destruct i as [v|t]; simpl; [|tauto].
    destruct (var_eqb v cst) eqn:E.
    - apply var_eqb_eq in E. subst v. simpl. rewrite H1, (pos_of_root ref Huniq). split.
      + intro H. inversion H. reflexivity.
      + intros ->. reflexivity.
    - apply var_eqb_neq in E. simpl. rewrite (H2 v E). tauto.
  Qed.

  Lemma in_dom_inst b b' i T q : crel b b' -> (in_dom ref b i T q <-> in_dom ref b' (iin i) T q).
  Proof.
    intro Hrel. unfold in_dom. split; intros (p0 & s & Hi & Hr); exists p0, s; split; try assumption;
      apply (in_pos_inst b b' i p0 Hrel); assumption.
  Qed.

  Lemma iarg_str x : match iarg x with PStr s => x = PStr s | _ => match x with PStr _ => False | _ => True end end.
  Proof. destruct x as [v|s|t]; simpl; auto. destruct (var_eqb v cst); exact I. Qed.

  Lemma ex2_inst b b' a1 a2 (R : path -> path -> Prop) : crel b b' ->
    ((exists p q, arg_pos ref b a1 p /\ arg_pos ref b a2 q /\ R p q) <->
     (exists p q, arg_pos ref b' (iarg a1) p /\ arg_pos ref b' (iarg a2) q /\ R p q)).
  Proof.
    intro Hrel. split; intros (p & q & Hp & Hq & H); exists p, q;
      (split; [apply (arg_pos_inst b b' a1 p Hrel); assumption|]);
      (split; [apply (arg_pos_inst b b' a2 q Hrel); assumption | assumption]).
  Qed.

  Lemma spred_sem_inst b b' n args : crel b b' ->
    (spred_sem ref b n args <-> spred_sem ref b' n (map iarg args)).
  Proof.
    intro Hrel. unfold spred_sem.
    destruct args as [|a0 [|a1 [|a2 [|a3 [|a4 r]]]]]; simpl; try tauto.
    - apply ex2_inst. assumption.
    - pose proof (iarg_str a0) as H0. destruct (iarg a0) as [v0|s0|t0] eqn:E0.
      + destruct a0; tauto.
      + subst a0. split; intros (Hn & k & p & q & Hk & Hp & Hq & H); (split; [assumption|]); exists k, p, q;
          (split; [assumption|]);
          (split; [apply (arg_pos_inst b b' a1 p Hrel); assumption|]);
          (split; [apply (arg_pos_inst b b' a2 q Hrel); assumption | assumption]).
      + destruct a0; tauto.
    - pose proof (iarg_str a0) as H0. pose proof (iarg_str a1) as H1.
      destruct (iarg a0) as [v0|s0|t0] eqn:E0.
      + destruct a0; tauto.
      + subst a0. destruct (iarg a1) as [v1|s1|t1] eqn:E1.
        * destruct a1; tauto.
        * subst a1. split; intros (Hn & o & p & q & Ho & Hp & Hq & H); (split; [assumption|]); exists o, p, q;
            (split; [assumption|]);
            (split; [apply (arg_pos_inst b b' a2 p Hrel); assumption|]);
            (split; [apply (arg_pos_inst b b' a3 q Hrel); assumption | assumption]).
        * destruct a1; tauto.
      + destruct a0; tauto.
  Qed.

  Lemma sempred_sem_inst D b b' n args : crel b b' -> sempred_wf ref D n args ->
    (sempred_sem ref b n args <-> sempred_sem ref b' n (map iarg args)).
  Proof.
    intros Hrel Hwf. unfold sempred_wf in Hwf.
    destruct args as [|x [|y [|z [|w r]]]]; simpl in Hwf; try contradiction;
      destruct y as [vy|needle|ty]; simpl in Hwf; try contradiction;
      destruct z as [vz|num|tz]; simpl in Hwf; try contradiction.
    simpl. split; intros (Hn & p & s & k & Hp & Hs & Hk & H); (split; [assumption|]); exists p, s, k;
      (split; [apply (arg_pos_inst b b' x p Hrel); assumption | auto]).
  Qed.

  (* ---- the guard is preserved: scope D = dom + the constant ---- *)
  Definition scope (D dom : list var) : Prop := forall w, In w D <-> w = cst \/ In w dom.

  Lemma scope_cons D dom pre : scope D dom -> scope (pre ++ D) (pre ++ dom).
  Proof. intros H w. rewrite !in_app_iff. rewrite (H w). tauto. Qed.

  Lemma arg_wf_inst D dom x : scope D dom -> arg_wf ref D x -> arg_wf ref dom (iarg x).
  Proof.
    intros HD. destruct x as [v|s|t]; simpl; auto.
    destruct (var_eqb v cst) eqn:E; simpl; [reflexivity|].
    apply var_eqb_neq in E. intro H. apply (proj1 (HD _)) in H as [H|H]; [contradiction | assumption].
  Qed.

  Lemma arg_nt_inst x : arg_nt x -> arg_nt (iarg x).
  Proof.
    destruct x as [v|s|t]; simpl; auto. destruct (var_eqb v cst) eqn:E; simpl; [|auto].
    apply var_eqb_eq in E. subst v. rewrite Hroot. auto.
  Qed.

  Lemma spred_wf_inst D dom n args : scope D dom ->
    spred_wf ref D n args -> spred_wf ref dom n (map iarg args).
  Proof.
    intros HD. pose proof (fun x => arg_wf_inst D dom x HD) as Ha. unfold spred_wf.
    destruct args as [|a0 [|a1 [|a2 [|a3 [|a4 r]]]]]; simpl; auto.
    - intros (H1 & H2 & H3). repeat split; auto.
    - destruct a0 as [v0|s0|t0]; try contradiction. simpl.
      intros (H1 & H2 & H3 & H4 & H5). repeat split; auto. apply arg_nt_inst. assumption.
    - destruct a0 as [v0|s0|t0]; try contradiction. destruct a1 as [v1|s1|t1]; try contradiction. simpl.
      intros (H1 & H2 & H3 & H4). repeat split; auto.
  Qed.

  Lemma sempred_wf_inst D dom n args : scope D dom ->
    sempred_wf ref D n args -> sempred_wf ref dom n (map iarg args).
  Proof.
    intros HD Hwf. pose proof (fun x => arg_wf_inst D dom x HD) as Ha. unfold sempred_wf in *.
    destruct args as [|x [|y [|z [|w r]]]]; simpl in Hwf; try contradiction;
      destruct y as [vy|needle|ty]; simpl in Hwf; try contradiction;
      destruct z as [vz|num|tz]; simpl in Hwf; try contradiction.
    simpl. destruct Hwf as (H1 & H2 & H3). repeat split; auto.
  Qed.

  Lemma in_wf_inst D dom i : scope D dom -> in_wf ref D i -> in_wf ref dom (iin i).
  Proof.
    intros HD. destruct i as [v|t]; simpl; auto.
    destruct (var_eqb v cst) eqn:E; simpl; [reflexivity|].
    apply var_eqb_neq in E. intro H. apply (proj1 (HD _)) in H as [H|H]; [contradiction | assumption].
  Qed.

  Lemma fresh_sub v D dom : scope D dom -> fresh_name v D -> fresh_name v dom.
  Proof. intros HD H w Hw. apply H. apply (proj2 (HD w)). right. assumption. Qed.

  Lemma fresh_neq v D dom : scope D dom -> fresh_name v D -> v <> cst.
  Proof. intros HD H E. subst v. apply (H cst); [apply (proj2 (HD cst)); left; reflexivity | reflexivity]. Qed.

  Lemma inst_total f : exists f', inst f = Ok f'.
  Proof.
    induction f as [x|n args|n args|g IH|fs IH|fs IH|v i m body IH|v i m body IH|v body IH|v body IH]
      using formula_ind'; simpl.
    - destruct (Hainst_ok x) as [y ->]. eexists; reflexivity.
    - eexists; reflexivity.
    - eexists; reflexivity.
    - destruct IH as [g' ->]. eexists; reflexivity.
    - destruct (mapM_total inst fs IH) as [l ->]. eexists; reflexivity.
    - destruct (mapM_total inst fs IH) as [l ->]. eexists; reflexivity.
    - destruct IH as [g' ->]. eexists; reflexivity.
    - destruct IH as [g' ->]. eexists; reflexivity.
    - destruct IH as [g' ->]. eexists; reflexivity.
    - destruct IH as [g' ->]. eexists; reflexivity.
  Qed.

  Notation M := (models adenote ref).

  Lemma all_fix_Forall (P : formula A -> Prop) fs :
    (fix all (l : list (formula A)) : Prop := match l with [] => True | x :: l' => P x /\ all l' end) fs
    <-> Forall P fs.
  Proof.
    induction fs as [|x fs IH]; [split; constructor|]. rewrite IH. split.
    - intros [H1 H2]. constructor; assumption.
    - intro H. inversion H. auto.
  Qed.

  Lemma any_fix_Exists (P : formula A -> Prop) fs :
    (fix any (l : list (formula A)) : Prop := match l with [] => False | x :: l' => P x \/ any l' end) fs
    <-> Exists P fs.
  Proof.
    induction fs as [|x fs IH]; [split; [contradiction | intro H; inversion H]|]. rewrite IH. split.
    - intros [H|H]; [apply Exists_cons_hd | apply Exists_cons_tl]; assumption.
    - intro H. inversion H; auto.
  Qed.

  (* variables bound by a match of a well-formed prefix tree are not the constant *)
  Lemma match_vars_neq v D dom tp s q bs : scope D dom -> mexpr_tree_ok v D tp ->
    smatch (fst tp) s (snd tp) q = Some bs -> forall w, In w (map fst bs) -> w <> cst.
  Proof.
    intros HD (_ & Hok & _ & Hfr) Hm w Hw.
    pose proof (smatch_perm _ _ _ _ _ Hok Hm) as Hp.
    assert (Hw' : In w (map fst (snd tp))).
    { apply (Permutation_in w (Permutation_map fst Hp)) in Hw. unfold MatchFacts.shift in Hw.
      rewrite map_map in Hw. simpl in Hw. assumption. }
    eapply fresh_neq; [exact HD | apply Hfr; assumption].
  Qed.

  Lemma mexpr_tree_ok_sub v D dom tp : scope D dom -> mexpr_tree_ok v D tp -> mexpr_tree_ok v dom tp.
  Proof.
    intros HD (H1 & H2 & H3 & H4). repeat split; try assumption.
    intros w Hw. eapply fresh_sub; [exact HD | apply H4; assumption].
  Qed.

  (* the main lemma: under the guard (with the constant in scope) the instantiated formula satisfies
     the guard WITHOUT the constant, and means the same *)
  Theorem inst_spec f : forall D dom f', scope D dom -> inst f = Ok f' -> WFM D f ->
    WFM dom f' /\ forall b b', crel b b' -> (M b f <-> M b' f').
  Proof.
    induction f as [x|n args|n args|g IH|fs IH|fs IH|v i m body IH|v i m body IH|v body IH|v body IH]
      using formula_ind'; intros D dom f' HD Hi Hwf; simpl in Hi, Hwf; try contradiction.
    - destruct (ainst cst ref x) as [y|e] eqn:Ey; inversion Hi; subst f'. destruct Hwf as [Hfv Hop]. split.
      + simpl. split; [|eapply Hainst_open; eassumption].
        intros w Hw. destruct (Hainst_free x y Ey w Hw) as [H1 H2].
        apply Hfv in H1. apply (proj1 (HD _)) in H1 as [H1|H1]; [contradiction | assumption].
      + intros b b' Hrel. simpl. apply Hainst_den; assumption.
    - inversion Hi; subst f'. split; [simpl; eapply spred_wf_inst; eassumption|].
      intros b b' Hrel. simpl. apply spred_sem_inst. assumption.
    - inversion Hi; subst f'. split; [simpl; eapply sempred_wf_inst; eassumption|].
      intros b b' Hrel. simpl. eapply sempred_sem_inst; eassumption.
    - destruct (inst g) as [g'|e] eqn:Eg; inversion Hi; subst f'.
      destruct (IH D dom g' HD eq_refl Hwf) as [H1 H2]. split; [exact H1|].
      intros b b' Hrel. simpl. rewrite (H2 b b' Hrel). tauto.
    - destruct (mapM inst fs) as [l|e] eqn:El; inversion Hi; subst f'. apply mapM_ok_Forall2 in El.
      apply all_fix_Forall in Hwf. clear Hi.
      assert (HH : Forall (WFM dom) l /\ forall b b', crel b b' -> (Forall (M b) fs <-> Forall (M b') l)).
      { induction El as [|x y fs l Hxy Hl IHl].
        { split; [apply Forall_nil|]. intros b b' _. split; intros _; apply Forall_nil. }
        inversion IH as [|? ? Hx Hfs]; subst. inversion Hwf as [|? ? Hwx Hwfs]; subst.
        destruct (Hx D dom y HD Hxy Hwx) as [H1 H2]. destruct (IHl Hfs Hwfs) as [H3 H4]. split.
        - constructor; assumption.
        - intros b b' Hrel. split; intro H; inversion H; subst; constructor;
            try (apply (H2 b b' Hrel); assumption); apply (H4 b b' Hrel); assumption. }
      destruct HH as [H1 H2]. split; [simpl; apply all_fix_Forall; assumption|].
      intros b b' Hrel. simpl. rewrite !all_fix_Forall. apply H2. assumption.
    - destruct (mapM inst fs) as [l|e] eqn:El; inversion Hi; subst f'. apply mapM_ok_Forall2 in El.
      apply all_fix_Forall in Hwf. clear Hi.
      assert (HH : Forall (WFM dom) l /\ forall b b', crel b b' -> (Exists (M b) fs <-> Exists (M b') l)).
      { induction El as [|x y fs l Hxy Hl IHl].
        { split; [apply Forall_nil|]. intros b b' _. split; intro H; inversion H. }
        inversion IH as [|? ? Hx Hfs]; subst. inversion Hwf as [|? ? Hwx Hwfs]; subst.
        destruct (Hx D dom y HD Hxy Hwx) as [H1 H2]. destruct (IHl Hfs Hwfs) as [H3 H4]. split.
        - constructor; assumption.
        - intros b b' Hrel. split; intro H; inversion H; subst;
            try (apply Exists_cons_hd; apply (H2 b b' Hrel); assumption);
            apply Exists_cons_tl; apply (H4 b b' Hrel); assumption. }
      destruct HH as [H1 H2]. split; [simpl; apply all_fix_Forall; assumption|].
      intros b b' Hrel. simpl. rewrite !any_fix_Exists. apply H2. assumption.
    - (* forall *)
      destruct (inst body) as [body'|e] eqn:Eb; inversion Hi; subst f'. clear Hi.
      destruct Hwf as (Hin & Hfr & Hm).
      pose proof (fresh_neq v D dom HD Hfr) as Hv.
      destruct m as [me|].
      + destruct Hm as [Hun Htp]. split.
        * simpl. split; [eapply in_wf_inst; eassumption|]. split; [eapply fresh_sub; eassumption|].
          split; [assumption|]. intros tp Htpin. destruct (Htp tp Htpin) as [Hok Hb].
          split; [eapply mexpr_tree_ok_sub; eassumption|].
          apply (IH (v :: map fst (snd tp) ++ D) (v :: map fst (snd tp) ++ dom) body'
                    (scope_cons D dom (v :: map fst (snd tp)) HD) eq_refl Hb).
        * intros b b' Hrel. simpl. split; intros H q s t2 P bs Hd Hs Htin Hsm.
          -- destruct (Htp (t2, P) Htin) as [Hok Hb].
             destruct (IH _ _ body' (scope_cons D dom (v :: map fst (snd (t2, P))) HD) eq_refl Hb) as [_ H2].
             apply (H2 (upd_pos (upd b v (VPos q)) bs) (upd_pos (upd b' v (VPos q)) bs)).
             ++ apply crel_upd_pos; [eapply (match_vars_neq v D dom (t2, P)); eassumption|].
                apply crel_upd; assumption.
             ++ eapply H; try eassumption. apply (in_dom_inst b b' i _ q Hrel). assumption.
          -- destruct (Htp (t2, P) Htin) as [Hok Hb].
             destruct (IH _ _ body' (scope_cons D dom (v :: map fst (snd (t2, P))) HD) eq_refl Hb) as [_ H2].
             apply (H2 (upd_pos (upd b v (VPos q)) bs) (upd_pos (upd b' v (VPos q)) bs)).
             ++ apply crel_upd_pos; [eapply (match_vars_neq v D dom (t2, P)); eassumption|].
                apply crel_upd; assumption.
             ++ eapply H; try eassumption. apply (in_dom_inst b b' i _ q Hrel). assumption.
      + destruct (IH (v :: D) (v :: dom) body' (scope_cons D dom [v] HD) eq_refl Hm) as [H1 H2]. split.
        * simpl. split; [eapply in_wf_inst; eassumption|]. split; [eapply fresh_sub; eassumption | exact H1].
        * intros b b' Hrel. simpl. split; intros H q Hd.
          -- apply (H2 (upd b v (VPos q)) (upd b' v (VPos q)) (crel_upd b b' v _ Hv Hrel)).
             apply H. apply (in_dom_inst b b' i _ q Hrel). assumption.
          -- apply (H2 (upd b v (VPos q)) (upd b' v (VPos q)) (crel_upd b b' v _ Hv Hrel)).
             apply H. apply (in_dom_inst b b' i _ q Hrel). assumption.
    - (* exists *)
      destruct (inst body) as [body'|e] eqn:Eb; inversion Hi; subst f'. clear Hi.
      destruct Hwf as (Hin & Hfr & Hm).
      pose proof (fresh_neq v D dom HD Hfr) as Hv.
      destruct m as [me|].
      + destruct Hm as [Hun Htp]. split.
        * simpl. split; [eapply in_wf_inst; eassumption|]. split; [eapply fresh_sub; eassumption|].
          split; [assumption|]. intros tp Htpin. destruct (Htp tp Htpin) as [Hok Hb].
          split; [eapply mexpr_tree_ok_sub; eassumption|].
          apply (IH (v :: map fst (snd tp) ++ D) (v :: map fst (snd tp) ++ dom) body'
                    (scope_cons D dom (v :: map fst (snd tp)) HD) eq_refl Hb).
        * intros b b' Hrel. simpl. split; intros (q & s & t2 & P & bs & Hd & Hs & Htin & Hsm & H);
            exists q, s, t2, P, bs.
          -- destruct (Htp (t2, P) Htin) as [Hok Hb].
             destruct (IH _ _ body' (scope_cons D dom (v :: map fst (snd (t2, P))) HD) eq_refl Hb) as [_ H2].
             split; [apply (in_dom_inst b b' i _ q Hrel); assumption|]. repeat (split; [assumption|]).
             apply (H2 (upd_pos (upd b v (VPos q)) bs) (upd_pos (upd b' v (VPos q)) bs)); [|assumption].
             apply crel_upd_pos; [eapply (match_vars_neq v D dom (t2, P)); eassumption|].
             apply crel_upd; assumption.
          -- destruct (Htp (t2, P) Htin) as [Hok Hb].
             destruct (IH _ _ body' (scope_cons D dom (v :: map fst (snd (t2, P))) HD) eq_refl Hb) as [_ H2].
             split; [apply (in_dom_inst b b' i _ q Hrel); assumption|]. repeat (split; [assumption|]).
             apply (H2 (upd_pos (upd b v (VPos q)) bs) (upd_pos (upd b' v (VPos q)) bs)); [|assumption].
             apply crel_upd_pos; [eapply (match_vars_neq v D dom (t2, P)); eassumption|].
             apply crel_upd; assumption.
      + destruct (IH (v :: D) (v :: dom) body' (scope_cons D dom [v] HD) eq_refl Hm) as [H1 H2]. split.
        * simpl. split; [eapply in_wf_inst; eassumption|]. split; [eapply fresh_sub; eassumption | exact H1].
        * intros b b' Hrel. simpl. split; intros (q & Hd & H); exists q.
          -- split; [apply (in_dom_inst b b' i _ q Hrel); assumption|].
             apply (H2 (upd b v (VPos q)) (upd b' v (VPos q)) (crel_upd b b' v _ Hv Hrel)). assumption.
          -- split; [apply (in_dom_inst b b' i _ q Hrel); assumption|].
             apply (H2 (upd b v (VPos q)) (upd b' v (VPos q)) (crel_upd b b' v _ Hv Hrel)). assumption.
  Qed.
  (* ---- the guard excludes numeric quantifiers (given non-empty match expressions) ---- *)
  Lemma wfm_no_numq f : forall D, WFM D f -> me_nonempty f = true -> has_numq A f = false.
  Proof.
    induction f as [x|n args|n args|g IH|fs IH|fs IH|v i m body IH|v i m body IH|v body IH|v body IH]
      using formula_ind'; intros D Hwf Hne; simpl in Hwf, Hne; try contradiction; simpl; try reflexivity.
    - eapply IH; eassumption.
    - apply all_fix_Forall in Hwf. induction IH as [|x l Hx Hl IHl]; [reflexivity|].
      inversion Hwf as [|? ? Hwx Hwl]; subst. simpl in Hne. apply andb_true_iff in Hne as [Hn1 Hn2].
      simpl. rewrite (Hx D Hwx Hn1). simpl. apply IHl; assumption.
    - apply all_fix_Forall in Hwf. induction IH as [|x l Hx Hl IHl]; [reflexivity|].
      inversion Hwf as [|? ? Hwx Hwl]; subst. simpl in Hne. apply andb_true_iff in Hne as [Hn1 Hn2].
      simpl. rewrite (Hx D Hwx Hn1). simpl. apply IHl; assumption.
    - destruct Hwf as (_ & _ & Hm). apply andb_true_iff in Hne as [Hn1 Hn2]. destruct m as [me|].
      + destruct Hm as [_ Htp]. destruct (me_trees me) as [|tp r] eqn:Et; [discriminate|].
        destruct (Htp tp (or_introl eq_refl)) as [_ Hb]. eapply IH; eassumption.
      + eapply IH; eassumption.
    - destruct Hwf as (_ & _ & Hm). apply andb_true_iff in Hne as [Hn1 Hn2]. destruct m as [me|].
      + destruct Hm as [_ Htp]. destruct (me_trees me) as [|tp r] eqn:Et; [discriminate|].
        destruct (Htp tp (or_introl eq_refl)) as [_ Hb]. eapply IH; eassumption.
      + eapply IH; eassumption.
  Qed.

  (* ---- a formula in which the constant does not occur free is left alone ---- *)
  Lemma iarg_id args : ~ In cst (parg_vars args) -> map iarg args = args.
  Proof.
    induction args as [|x args IH]; simpl; intro H; [reflexivity|].
    rewrite in_app_iff in H. rewrite IH by tauto. f_equal.
    destruct x as [v|s|t]; simpl; try reflexivity. destruct (var_eqb v cst) eqn:E; [|reflexivity].
    apply var_eqb_eq in E. subst v. exfalso. apply H. left. left. reflexivity.
  Qed.

  Definition qbound (v : var) (m : option mexpr) : list var :=
    v :: match m with
         | Some me => filter (fun w => match vk w with VBound => true | _ => false end) (me_elems me)
         | None => []
         end.
  Definition ivars (i : invar) : list var := match i with InVar w => [w] | InTree _ => [] end.

  Lemma fvars_forall v i m (body : formula A) : fvars A afree (FForall v i m body) =
    fold_left (fun acc u => remove_var u acc) (qbound v m) (ivars i ++ fvars A afree body).
  Proof. reflexivity. Qed.
  Lemma fvars_exists v i m (body : formula A) : fvars A afree (FExists v i m body) =
    fold_left (fun acc u => remove_var u acc) (qbound v m) (ivars i ++ fvars A afree body).
  Proof. reflexivity. Qed.

  Lemma quant_not_free v i m (body : formula A) D : In cst D -> fresh_name v D ->
    ~ In cst (fold_left (fun acc u => remove_var u acc) (qbound v m) (ivars i ++ fvars A afree body)) ->
    iin i = i /\ ~ In cst (fvars A afree body).
  Proof.
    intros HcD Hfr Hnf. rewrite fold_remove_In in Hnf.
    assert (Hb : ~ In cst (qbound v m)).
    { intros [E|Hin].
      - apply (Hfr cst HcD). rewrite E. reflexivity.
      - destruct m as [me|]; [|contradiction]. apply filter_In in Hin as [_ Hk]. rewrite Hkind in Hk. discriminate. }
    assert (Hn : ~ In cst (ivars i ++ fvars A afree body)).
    { intro Hx. apply Hnf. split; [exact Hx | exact Hb]. }
    rewrite in_app_iff in Hn. split; [|tauto].
    destruct i as [w|t]; simpl; [|reflexivity]. destruct (var_eqb w cst) eqn:E; [|reflexivity].
    apply var_eqb_eq in E. subst w. exfalso. apply Hn. left. left. reflexivity.
  Qed.

  Lemma inst_id f : forall D, In cst D -> WFM D f -> me_nonempty f = true ->
    ~ In cst (fvars A afree f) -> inst f = Ok f.
  Proof.
    induction f as [x|n args|n args|g IH|fs IH|fs IH|v i m body IH|v i m body IH|v body IH|v body IH]
      using formula_ind'; intros D HcD Hwf Hne Hnf; simpl in Hwf, Hne; try contradiction.
    - simpl in *. rewrite (Hainst_id x Hnf). reflexivity.
    - simpl in *. rewrite (iarg_id args Hnf). reflexivity.
    - simpl in *. rewrite (iarg_id args Hnf). reflexivity.
    - simpl in *. rewrite (IH D HcD Hwf Hne Hnf). reflexivity.
    - simpl in Hnf. simpl. rewrite mapM_id; [reflexivity|]. apply all_fix_Forall in Hwf.
      induction IH as [|x l Hx Hl IHl]; [constructor|].
      inversion Hwf as [|? ? Hwx Hwl]; subst. simpl in Hne. apply andb_true_iff in Hne as [Hn1 Hn2].
      simpl in Hnf. rewrite in_app_iff in Hnf. constructor; [apply (Hx D); tauto | apply IHl; tauto].
    - simpl in Hnf. simpl. rewrite mapM_id; [reflexivity|]. apply all_fix_Forall in Hwf.
      induction IH as [|x l Hx Hl IHl]; [constructor|].
      inversion Hwf as [|? ? Hwx Hwl]; subst. simpl in Hne. apply andb_true_iff in Hne as [Hn1 Hn2].
      simpl in Hnf. rewrite in_app_iff in Hnf. constructor; [apply (Hx D); tauto | apply IHl; tauto].
    - destruct Hwf as (_ & Hfr & Hm). apply andb_true_iff in Hne as [Hn1 Hn2].
      rewrite ?fvars_forall, ?fvars_exists in Hnf.
      destruct (quant_not_free v i m body D HcD Hfr Hnf) as [Ei Hnb].
      assert (Eb : inst body = Ok body).
      { destruct m as [me|].
        - destruct Hm as [_ Htp]. destruct (me_trees me) as [|tp r] eqn:Et; [discriminate|].
          destruct (Htp tp (or_introl eq_refl)) as [_ Hb].
          apply (IH (v :: map fst (snd tp) ++ D)); try assumption. right. apply in_app_iff. right. assumption.
        - apply (IH (v :: D)); try assumption. right. assumption. }
      simpl. rewrite Eb, Ei. reflexivity.
    - destruct Hwf as (_ & Hfr & Hm). apply andb_true_iff in Hne as [Hn1 Hn2].
      rewrite ?fvars_forall, ?fvars_exists in Hnf.
      destruct (quant_not_free v i m body D HcD Hfr Hnf) as [Ei Hnb].
      assert (Eb : inst body = Ok body).
      { destruct m as [me|].
        - destruct Hm as [_ Htp]. destruct (me_trees me) as [|tp r] eqn:Et; [discriminate|].
          destruct (Htp tp (or_introl eq_refl)) as [_ Hb].
          apply (IH (v :: map fst (snd tp) ++ D)); try assumption. right. apply in_app_iff. right. assumption.
        - apply (IH (v :: D)); try assumption. right. assumption. }
      simpl. rewrite Eb, Ei. reflexivity.
  Qed.

  (* in both branches of evaluate's test the formula handed on is the instantiated one *)
  Lemma pre_inst_inst f : WFM [cst] f -> me_nonempty f = true -> pre_inst f = inst f.
  Proof.
    intros Hwf Hne. unfold pre_inst. destruct (existsb (var_eqb cst) (fvars A afree f)) eqn:E; [reflexivity|].
    symmetry. apply (inst_id f [cst]); try assumption; [left; reflexivity|].
    intro Hin. assert (existsb (var_eqb cst) (fvars A afree f) = true); [|congruence].
    apply existsb_exists. exists cst. split; [assumption | apply var_eqb_refl].
  Qed.

  Lemma scope_top : scope [cst] [].
  Proof. intro w. simpl. split; [intros [<-|[]]; left; reflexivity | intros [->|[]]; left; reflexivity]. Qed.
End InstCore.

Section InstEval.
  Variable A : Type.
  Variable afree : A -> list var.
  Variable aopen : A -> bool.
  Variable aeval : A -> asg -> res TV.
  Variable ainst : var -> tree -> A -> res A.
  Variable qmm : var -> path -> option mexpr -> asg -> path -> bool.
  Variable reach : str -> str -> bool.
  Variable count_open : tree -> str -> Z -> res TV.
  Variable strategy2 : tree -> formula A -> res TV.
  Variable adenote : A -> (var -> option tree) -> Prop.
  Variable ref : tree.
  Variable cst : var.

  Notation inst := (inst_const A ainst ref cst).
  Notation WFM := (wfm A afree aopen ref).
  Notation PRE := (pre_inst A afree ainst ref cst).
  Notation ev := (eval_legacy A afree aopen aeval qmm reach count_open ref).
  Notation EVAL := (evaluate A afree aopen aeval ainst qmm reach count_open strategy2 ref cst).
  Notation CHECK := (solver_check A afree aopen aeval ainst qmm reach count_open strategy2 ref cst).
  Notation M := (models adenote ref).

  (* ---------------------------------------------------------------- *)
  (* the dispatch of evaluate (no hypotheses)                          *)
  (* ---------------------------------------------------------------- *)
  (* evaluate = instantiate (only if the constant occurs free), then: a numeric quantifier anywhere
     in the formula -> the second strategy (eliminate_quantifiers + Z3, the Section variable
     strategy2, an oracle); otherwise evaluate_legacy with the empty dictionary. *)
  Theorem evaluate_dispatch f :
    EVAL f = match PRE f with
             | Raise e => Raise e
             | Ok f' => if has_numq A f then strategy2 ref f' else ev f' []
             end.
  Proof.
    unfold evaluate, pre_inst. destruct (existsb (var_eqb cst) (fvars A afree f)).
    - destruct (inst f) as [f'|e] eqn:E; [|reflexivity].
      rewrite (inst_has_numq A ainst ref cst f f' E). reflexivity.
    - reflexivity.
  Qed.

  Corollary evaluate_dispatch_legacy f f' : has_numq A f = false -> PRE f = Ok f' ->
    EVAL f = ev f' [].
  Proof. intros Hq Hp. rewrite evaluate_dispatch, Hp, Hq. reflexivity. Qed.

  Corollary evaluate_dispatch_oracle f f' : has_numq A f = true -> PRE f = Ok f' ->
    EVAL f = strategy2 ref f'.
  Proof. intros Hq Hp. rewrite evaluate_dispatch, Hp, Hq. reflexivity. Qed.

  (* ISLaSolver.check: the verdict of evaluate as a bool, UNKNOWN raises *)
  Lemma solver_check_evaluate f :
    CHECK f = match EVAL f with
              | Raise e => Raise e
              | Ok TT => Ok true | Ok FF => Ok false | Ok UU => Raise OtherErr
              end.
  Proof. reflexivity. Qed.

  (* ---------------------------------------------------------------- *)
  (* evaluate / ISLaSolver.check on the uninstantiated formula          *)
  (* ---------------------------------------------------------------- *)
  Hypothesis Huniq : uniq_ids ref.
  Hypothesis Hroot : lbl ref = vtype cst.
  Hypothesis Hkind : vk cst = VConst.
  Hypothesis Hainst_ok : forall x, exists y, ainst cst ref x = Ok y.
  Hypothesis Hainst_free : forall x y, ainst cst ref x = Ok y ->
    forall v, In v (afree y) -> In v (afree x) /\ v <> cst.
  Hypothesis Hainst_open : forall x y, ainst cst ref x = Ok y -> aopen x = false -> aopen y = false.
  Hypothesis Hainst_den : forall x y b b', ainst cst ref x = Ok y -> crel cst b b' ->
    (adenote x (tenv ref b) <-> adenote y (tenv ref b')).
  Hypothesis Hainst_id : forall x, ~ In cst (afree x) -> ainst cst ref x = Ok x.
  Hypothesis Hshape : shape_ok ref = true.
  Hypothesis Hclosed : is_openT ref = false.
  Hypothesis Hnarrow : narrow ref.
  Hypothesis Hterm : term_leavesb ref = true.
  Hypothesis Hatom : forall x a b, inv ref a b -> (forall v, In v (afree x) -> In v (keys a)) -> aopen x = false ->
      (aeval x a = Ok TT /\ adenote x (tenv ref b)) \/ (aeval x a = Ok FF /\ ~ adenote x (tenv ref b)).

  Theorem evaluate_correct f : WFM [cst] f -> me_nonempty f = true ->
    (EVAL f = Ok TT <-> sat adenote ref cst f) /\
    (EVAL f = Ok FF <-> ~ sat adenote ref cst f) /\
    EVAL f <> Ok UU /\ (forall e, EVAL f <> Raise e).
  Proof.
    intros Hwf Hne. destruct (inst_total A ainst ref cst Hainst_ok f) as [f' Hf'].
    assert (Hp : PRE f = inst f) by (eapply pre_inst_inst; eassumption).
    assert (Hq : has_numq A f = false) by (eapply wfm_no_numq; eassumption).
    assert (Hs : WFM [] f' /\ forall b b', crel cst b b' -> (M b f <-> M b' f')).
    { eapply inst_spec; try eassumption. apply scope_top. }
    destruct Hs as [Hwf' Hm].
    rewrite evaluate_dispatch, Hp, Hf', Hq.
    unfold sat. rewrite (Hm _ _ (crel_top cst)).
    exact (eval_correct_mexpr_top A afree aopen aeval qmm reach count_open adenote ref
             Hshape Hclosed Huniq Hnarrow Hterm Hatom f' Hwf').
  Qed.

  Theorem solver_check_correct f : WFM [cst] f -> me_nonempty f = true ->
    (CHECK f = Ok true <-> sat adenote ref cst f) /\
    (CHECK f = Ok false <-> ~ sat adenote ref cst f) /\
    (forall e, CHECK f <> Raise e).
  Proof.
    intros Hwf Hne. destruct (evaluate_correct f Hwf Hne) as (H1 & H2 & H3 & H4).
    rewrite solver_check_evaluate.
    destruct (EVAL f) as [[| |]|e] eqn:E.
    - split; [|split]; [| |discriminate].
      + split; [intros _; apply H1; reflexivity | reflexivity].
      + split; [discriminate|]. intro Hn. apply H2 in Hn. discriminate.
    - split; [|split]; [| |discriminate].
      + split; [discriminate|]. intro Hs. apply H1 in Hs. discriminate.
      + split; [intros _; apply H2; reflexivity | reflexivity].
    - exfalso. apply H3. reflexivity.
    - exfalso. apply (H4 e). reflexivity.
  Qed.
End InstEval.


(* ------------------------------------------------------------------ *)
(* the concrete atom family: atom_inst meets every assumption made of  *)
(* SMTFormula.substitute_expressions above (closed reference tree)     *)
(* ------------------------------------------------------------------ *)
Section InstAtoms.
  Variable ref : tree.
  Variable cst : var.
  Hypothesis Hclosed : is_openT ref = false.

  Definition atom_subst (x : atom) : atom :=
    match x with
    | AStr neg s u => AStr neg (sterm_inst cst ref s) (sterm_inst cst ref u)
    | ALen op s n => ALen op (sterm_inst cst ref s) n
    | ABool b => ABool b
    end.

  Lemma atom_inst_unfold x : atom_inst cst ref x =
    if existsb (var_eqb cst) (atom_free x) && is_nil (atom_free (atom_subst x))
    then match atom_eval (atom_subst x) [] with
         | Ok TT => Ok (ABool true) | Ok FF => Ok (ABool false)
         | Ok UU => Raise AssertErr | Raise e => Raise e end
    else Ok (atom_subst x).
  Proof. unfold atom_inst. rewrite Hclosed. destruct x; reflexivity. Qed.

  Lemma sterm_inst_vars s v : In v (sterm_vars (sterm_inst cst ref s)) <-> In v (sterm_vars s) /\ v <> cst.
  Proof.
    destruct s as [w|l]; simpl; [|tauto]. destruct (var_eqb w cst) eqn:E; simpl.
    - apply var_eqb_eq in E. subst w. split; [contradiction|]. intros [[H|[]] Hn]. congruence.
    - apply var_eqb_neq in E. split.
      + intros [<-|[]]. auto.
      + tauto.
  Qed.

  Lemma atom_subst_free x v : In v (atom_free (atom_subst x)) <-> In v (atom_free x) /\ v <> cst.
  Proof.
    destruct x as [neg s u|op s n|bb]; simpl.
    - rewrite !nodup_vars_In, !in_app_iff, !sterm_inst_vars. tauto.
    - apply sterm_inst_vars.
    - tauto.
  Qed.

  Lemma sterm_inst_id s : ~ In cst (sterm_vars s) -> sterm_inst cst ref s = s.
  Proof.
    destruct s as [w|l]; simpl; [|reflexivity]. intro H. destruct (var_eqb w cst) eqn:E; [|reflexivity].
    apply var_eqb_eq in E. subst w. exfalso. apply H. left. reflexivity.
  Qed.

  Lemma is_nil_spec {B} (l : list B) : is_nil l = true <-> l = [].
  Proof. destruct l; simpl; split; intro H; congruence. Qed.

  (* a ground atom evaluates to TRUE or FALSE *)
  Lemma ground_eval y : atom_free y = [] ->
    (atom_eval y [] = Ok TT /\ atom_denote y (tenv ref env_empty)) \/
    (atom_eval y [] = Ok FF /\ ~ atom_denote y (tenv ref env_empty)).
  Proof.
    intro Hg. apply (atom_sound ref y [] env_empty (inv_empty ref)).
    intros v Hv. rewrite Hg in Hv. contradiction.
  Qed.

  Theorem atom_inst_ok x : exists y, atom_inst cst ref x = Ok y.
  Proof.
    rewrite atom_inst_unfold.
    destruct (existsb (var_eqb cst) (atom_free x) && is_nil (atom_free (atom_subst x))) eqn:E; [|eexists; reflexivity].
    apply andb_true_iff in E as [_ E]. apply is_nil_spec in E.
    destruct (ground_eval _ E) as [[-> _]|[-> _]]; eexists; reflexivity.
  Qed.

  Theorem atom_inst_free x y : atom_inst cst ref x = Ok y ->
    forall v, In v (atom_free y) -> In v (atom_free x) /\ v <> cst.
  Proof.
    rewrite atom_inst_unfold. intros H v Hv.
    destruct (existsb (var_eqb cst) (atom_free x) && is_nil (atom_free (atom_subst x))) eqn:E.
    - destruct (atom_eval (atom_subst x) []) as [[| |]|e]; inversion H; subst y; contradiction.
    - inversion H; subst y. apply atom_subst_free. assumption.
  Qed.

  Theorem atom_inst_id x : ~ In cst (atom_free x) -> atom_inst cst ref x = Ok x.
  Proof.
    intro Hn. rewrite atom_inst_unfold.
    assert (E : existsb (var_eqb cst) (atom_free x) = false).
    { destruct (existsb (var_eqb cst) (atom_free x)) eqn:E; [|reflexivity].
      apply existsb_exists in E as (w & Hw & Ew). apply var_eqb_eq in Ew. subst w. contradiction. }
    rewrite E. simpl. f_equal.
    destruct x as [neg s u|op s n|bb]; simpl in *.
    - rewrite nodup_vars_In, in_app_iff in Hn. rewrite !sterm_inst_id by tauto. reflexivity.
    - rewrite sterm_inst_id by assumption. reflexivity.
    - reflexivity.
  Qed.

  Lemma tenv_cst b : b cst = Some (VPos []) -> tenv ref b cst = Some ref.
  Proof. intro H. unfold tenv. rewrite H. reflexivity. Qed.

  Lemma sterm_den_inst b b' s u : crel cst b b' ->
    (sterm_den (tenv ref b) s u <-> sterm_den (tenv ref b') (sterm_inst cst ref s) u).
  Proof.
    intros [H1 H2]. destruct s as [w|l]; simpl; [|tauto]. destruct (var_eqb w cst) eqn:E; simpl.
    - apply var_eqb_eq in E. subst w. rewrite (tenv_cst b H1). split.
      + intros (t & Ht & ->). inversion Ht. reflexivity.
      + intros ->. exists ref. auto.
    - apply var_eqb_neq in E. unfold tenv. rewrite (H2 w E). tauto.
  Qed.

  Lemma atom_subst_den b b' x : crel cst b b' ->
    (atom_denote x (tenv ref b) <-> atom_denote (atom_subst x) (tenv ref b')).
  Proof.
    intro Hrel. destruct x as [neg s u|op s n|bb]; simpl; [| |tauto].
    - split; intros (a & w & Ha & Hw & H); exists a, w;
        (split; [apply (sterm_den_inst b b' s a Hrel); assumption|]);
        (split; [apply (sterm_den_inst b b' u w Hrel); assumption | assumption]).
    - split; intros (a & Ha & H); exists a; (split; [apply (sterm_den_inst b b' s a Hrel); assumption | assumption]).
  Qed.

  Lemma sterm_den_coincide e e' s u : (forall v, In v (sterm_vars s) -> e v = e' v) ->
    (sterm_den e s u <-> sterm_den e' s u).
  Proof. destruct s as [w|l]; simpl; [|tauto]. intro H. rewrite (H w (or_introl eq_refl)). tauto. Qed.

  Lemma atom_coincide e e' x : (forall v, In v (atom_free x) -> e v = e' v) ->
    (atom_denote x e <-> atom_denote x e').
  Proof.
    destruct x as [neg s u|op s n|bb]; simpl; intro H; [| |tauto].
    - assert (Hs : forall v, In v (sterm_vars s) -> e v = e' v).
      { intros v Hv. apply H. apply nodup_vars_In. apply in_app_iff. auto. }
      assert (Hu : forall v, In v (sterm_vars u) -> e v = e' v).
      { intros v Hv. apply H. apply nodup_vars_In. apply in_app_iff. auto. }
      split; intros (a & w & Ha & Hw & Hc); exists a, w;
        (split; [apply (sterm_den_coincide e e' s a Hs); assumption|]);
        (split; [apply (sterm_den_coincide e e' u w Hu); assumption | assumption]).
    - split; intros (a & Ha & Hc); exists a; (split; [apply (sterm_den_coincide e e' s a H); assumption | assumption]).
  Qed.

  Theorem atom_inst_den x y b b' : atom_inst cst ref x = Ok y -> crel cst b b' ->
    (atom_denote x (tenv ref b) <-> atom_denote y (tenv ref b')).
  Proof.
    rewrite atom_inst_unfold. intros H Hrel. rewrite (atom_subst_den b b' x Hrel).
    destruct (existsb (var_eqb cst) (atom_free x) && is_nil (atom_free (atom_subst x))) eqn:E.
    - apply andb_true_iff in E as [_ E]. apply is_nil_spec in E.
      assert (Hco : atom_denote (atom_subst x) (tenv ref b') <-> atom_denote (atom_subst x) (tenv ref env_empty)).
      { apply atom_coincide. intros v Hv. rewrite E in Hv. contradiction. }
      rewrite Hco. destruct (ground_eval _ E) as [[Ev Hd]|[Ev Hd]]; rewrite Ev in H; inversion H; subst y; simpl.
      + tauto.
      + split; [contradiction | discriminate].
    - inversion H; subst y. tauto.
  Qed.
End InstAtoms.

(* evaluate() and ISLaSolver.check() on the UNINSTANTIATED formula, concrete atoms: nothing is
   assumed about atoms or their instantiation *)
Theorem evaluate_correct_atoms ref cst f :
  shape_ok ref = true -> is_openT ref = false -> uniq_ids ref -> narrow ref -> term_leavesb ref = true ->
  lbl ref = vtype cst -> vk cst = VConst ->
  wfm atom atom_free (fun _ => false) ref [cst] f -> me_nonempty f = true ->
  (m_evaluate ref cst f = Ok TT <-> sat atom_denote ref cst f) /\
  (m_evaluate ref cst f = Ok FF <-> ~ sat atom_denote ref cst f) /\
  m_evaluate ref cst f <> Ok UU /\ (forall e, m_evaluate ref cst f <> Raise e).
Proof.
  intros Hs Hc Hu Hn Ht Hr Hk Hwf Hne. unfold m_evaluate.
  apply (evaluate_correct atom atom_free (fun _ => false) atom_eval atom_inst no_qmm no_reach no_count_open
           no_strategy2 atom_denote ref cst Hu Hr Hk); try assumption.
  - apply atom_inst_ok. assumption.
  - apply atom_inst_free. assumption.
  - reflexivity.
  - intros x y b b'. apply atom_inst_den. assumption.
  - apply atom_inst_id. assumption.
  - intros x a b Hinv Hv _. apply atom_sound; assumption.
Qed.

Theorem solver_check_correct_atoms ref cst f :
  shape_ok ref = true -> is_openT ref = false -> uniq_ids ref -> narrow ref -> term_leavesb ref = true ->
  lbl ref = vtype cst -> vk cst = VConst ->
  wfm atom atom_free (fun _ => false) ref [cst] f -> me_nonempty f = true ->
  (m_check ref cst f = Ok true <-> sat atom_denote ref cst f) /\
  (m_check ref cst f = Ok false <-> ~ sat atom_denote ref cst f) /\
  (forall e, m_check ref cst f <> Raise e).
Proof.
  intros Hs Hc Hu Hn Ht Hr Hk Hwf Hne. unfold m_check.
  apply (solver_check_correct atom atom_free (fun _ => false) atom_eval atom_inst no_qmm no_reach no_count_open
           no_strategy2 atom_denote ref cst Hu Hr Hk); try assumption.
  - apply atom_inst_ok. assumption.
  - apply atom_inst_free. assumption.
  - reflexivity.
  - intros x y b b'. apply atom_inst_den. assumption.
  - apply atom_inst_id. assumption.
  - intros x a b Hinv Hv _. apply atom_sound; assumption.
Qed.

(* all hypotheses as one boolean (what the harness evaluates on the PARSED / API-built formula) *)
Definition evaluate_guard (ref : tree) (cst : var) (f : formula atom) : bool :=
  shape_ok ref && negb (is_openT ref) && uniq_idsb ref && narrowb ref && term_leavesb ref &&
  str_eqb (lbl ref) (vtype cst) && vkind_eqb (vk cst) VConst && wfmb ref [cst] f && me_nonempty f.

Lemma evaluate_guard_hyps ref cst f : evaluate_guard ref cst f = true ->
  shape_ok ref = true /\ is_openT ref = false /\ uniq_ids ref /\ narrow ref /\ term_leavesb ref = true /\
  lbl ref = vtype cst /\ vk cst = VConst /\
  wfm atom atom_free (fun _ => false) ref [cst] f /\ me_nonempty f = true.
Proof.
  unfold evaluate_guard. intro H.
  apply andb_true_iff in H as [H H9]. apply andb_true_iff in H as [H H8]. apply andb_true_iff in H as [H H7].
  apply andb_true_iff in H as [H H6]. apply andb_true_iff in H as [H H5]. apply andb_true_iff in H as [H H4].
  apply andb_true_iff in H as [H H3]. apply andb_true_iff in H as [H1 H2]. apply negb_true_iff in H2.
  apply str_eqb_eq in H6. apply vkind_eqb_eq in H7.
  repeat split; auto using uniq_idsb_spec, narrowb_spec, wfmb_spec.
Qed.

Corollary evaluate_correct_guard ref cst f : evaluate_guard ref cst f = true ->
  ((m_evaluate ref cst f = Ok TT <-> sat atom_denote ref cst f) /\
   (m_evaluate ref cst f = Ok FF <-> ~ sat atom_denote ref cst f) /\
   m_evaluate ref cst f <> Ok UU /\ (forall e, m_evaluate ref cst f <> Raise e)) /\
  ((m_check ref cst f = Ok true <-> sat atom_denote ref cst f) /\
   (m_check ref cst f = Ok false <-> ~ sat atom_denote ref cst f) /\
   (forall e, m_check ref cst f <> Raise e)).
Proof.
  intro H. destruct (evaluate_guard_hyps ref cst f H) as (H1 & H2 & H3 & H4 & H5 & H6 & H7 & H8 & H9).
  split; [apply evaluate_correct_atoms | apply solver_check_correct_atoms]; assumption.
Qed.
