(* C08 — model of the elaboration of ISLa's simplified syntax (isla/language.py, class
   ISLaEmitter and helpers) into core ISLa.  MODEL FILE: definitions only, no proofs.

   Python                                         here
   Formula.__and__/__or__/__neg__                 f_and / f_or / f_neg   (smart constructors)
   Formula.__eq__ (Conj/Disj compare flattened)   feqb (fuel) / eqf
   split_conjunction / split_disjunction          split_and / split_or
   free_variables / BoundVariablesCollector       fv / bvars
   VariablesCollector                             allvars
   substitute_variables (blind renaming)          sub
   fresh_variable / fresh_bound_variable          fresh_name
   fresh_vars + ensure_unique_bound_variables     fresh_vars / uniq (fuel)
   univ_close_over_var_push_in (mexpr=None, as    push_in (fuel)
     at every call site in language.py)
   ISLaEmitter.expand_mexpr_trees + leaves()      expand (partial mexpr tree = its leaf list + cursor)
   AddMexprTransformer (quantifier w/o mexpr)     addm   (merging with an existing match expression is
                                                          NOT modelled: outcome Raise NotImpl)
   ISLaEmitter listener walk                      walk
   close_over_free_nonterminals                   close_fnt
   close_over_xpath_expressions                   close_xp (fuel)
   exitStart                                      elab

   Surface quantifiers may carry a user-written match expression (SQ ... (Some elems) ...: its variables count
   as used names and are declared before the quantifier's own variable; enterQfdFormula's pre-registration is
   NOT hooked to these forms) and numeric quantifiers (SInt; exitExistsInt's "already declared" SyntaxError is not
   modelled, generated names are unique).  Predicate ids >= 100 are semantic predicates (count).

   SMT atoms are abstract: (negated?, payload id, variables by argument position).  Payload 0 is the
   literal `true` (negated: `false`).  Assumption tied by the harness for every generated atom:
   z3.simplify is the identity on the atom and on its negation (so `-(-A) == A`).
   Out of fuel = Raise TimeoutErr (theorems exclude it). *)
From Coq Require Import List NArith Bool Arith.
Import ListNotations.
From ISLA Require Import Str Outcome Tree Grammar Formula.

(* ---------- small helpers ---------- *)
Definition smem (s : str) (l : list str) : bool := existsb (str_eqb s) l.
Definition sadd (s : str) (l : list str) : list str := if smem s l then l else l ++ [s].
Definition sunion (a b : list str) : list str := fold_left (fun acc s => sadd s acc) b a.
Definition vmem (v : var) (l : list var) : bool := existsb (var_eqb v) l.
Definition vadd (v : var) (l : list var) : list var := if vmem v l then l else l ++ [v].
Definition vunion (a b : list var) : list var := fold_left (fun acc v => vadd v acc) b a.
Definition vdiff (a b : list var) : list var := filter (fun v => negb (vmem v b)) a.
Definition vinter (a b : list var) : list var := filter (fun v => vmem v b) a.
Definition isnil {X} (l : list X) : bool := match l with [] => true | _ => false end.

Fixpoint leqb {X} (e : X -> X -> bool) (a b : list X) : bool :=
  match a, b with
  | [], [] => true
  | x :: a', y :: b' => e x y && leqb e a' b'
  | _, _ => false
  end.

Definition reduce1 {X} (op : X -> X -> X) (d : X) (l : list X) : X :=
  match l with [] => d | x :: r => fold_left op r x end.

Definition mapM {X Y} (f : X -> res Y) : list X -> res (list Y) :=
  fix go (l : list X) : res (list Y) :=
  match l with
  | [] => Ok []
  | x :: r => bind (f x) (fun y => bind (go r) (fun ys => Ok (y :: ys)))
  end.

(* ---------- core formulas with abstract SMT atoms ---------- *)
Record satom := MkAtom { at_neg : bool; at_id : N; at_vars : list var }.
Definition cform := formula satom.

Definition a_true : satom := MkAtom false 0 [].
Definition a_false : satom := MkAtom true 0 [].
Definition f_true : cform := FSmt a_true.
Definition f_false : cform := FSmt a_false.
Definition is_true_f (f : cform) : bool :=
  match f with FSmt a => (at_id a =? 0)%N && negb (at_neg a) | _ => false end.
Definition is_false_f (f : cform) : bool :=
  match f with FSmt a => (at_id a =? 0)%N && at_neg a | _ => false end.
Definition neg_atom (a : satom) : satom := MkAtom (negb (at_neg a)) (at_id a) (at_vars a).

Definition atom_eqb (a b : satom) : bool :=
  Bool.eqb (at_neg a) (at_neg b) && (at_id a =? at_id b)%N && leqb var_eqb (at_vars a) (at_vars b).

Definition parg_eqb (a b : parg) : bool :=
  match a, b with
  | PVar v, PVar w => var_eqb v w
  | PStr s, PStr t => str_eqb s t
  | _, _ => false
  end.

(* BindExpression.__eq__: dummies compare by their type only *)
Definition melem_eqb (a b : var) : bool :=
  match vk a, vk b with
  | VDummy, VDummy => str_eqb (vtype a) (vtype b)
  | VDummy, _ | _, VDummy => false
  | _, _ => var_eqb a b
  end.
Definition mexpr_eqb (a b : option mexpr) : bool :=
  match a, b with
  | None, None => true
  | Some x, Some y => leqb melem_eqb (me_elems x) (me_elems y)
  | _, _ => false
  end.
Definition invar_eqb (a b : invar) : bool :=
  match a, b with InVar v, InVar w => var_eqb v w | _, _ => false end.

Fixpoint split_and (f : cform) : list cform :=
  match f with FAnd fs => flat_map split_and fs | _ => [f] end.
Fixpoint split_or (f : cform) : list cform :=
  match f with FOr fs => flat_map split_or fs | _ => [f] end.

Fixpoint feqb (n : nat) (a b : cform) : bool :=
  match n with
  | 0 => false
  | S n' =>
    match a, b with
    | FSmt x, FSmt y => atom_eqb x y
    | FSPred p xs, FSPred q ys => str_eqb p q && leqb parg_eqb xs ys
    | FSemPred p xs, FSemPred q ys => str_eqb p q && leqb parg_eqb xs ys
    | FNot x, FNot y => feqb n' x y
    | FAnd _, FAnd _ => leqb (feqb n') (split_and a) (split_and b)
    | FOr _, FOr _ => leqb (feqb n') (split_or a) (split_or b)
    | FForall v i m x, FForall w j k y =>
        var_eqb v w && invar_eqb i j && feqb n' x y && mexpr_eqb m k
    | FExists v i m x, FExists w j k y =>
        var_eqb v w && invar_eqb i j && feqb n' x y && mexpr_eqb m k
    | FForallInt v x, FForallInt w y => var_eqb v w && feqb n' x y
    | FExistsInt v x, FExistsInt w y => var_eqb v w && feqb n' x y
    | _, _ => false
    end
  end.
Definition eqf (a b : cform) : bool := feqb (fsize a) a b.

Definition is_neg_of (a b : cform) : bool := match a with FNot x => eqf x b | _ => false end.

Definition f_and (a b : cform) : cform :=
  if eqf a b then a else
  if is_false_f a then a else if is_false_f b then b else
  if is_true_f a then b else if is_true_f b then a else
  if is_neg_of a b then f_false else if is_neg_of b a then f_false else FAnd [a; b].

Definition f_or (a b : cform) : cform :=
  if eqf a b then a else
  if is_true_f a then a else if is_true_f b then b else
  if is_false_f a then b else if is_false_f b then a else
  if is_neg_of a b then f_true else if is_neg_of b a then f_true else FOr [a; b].

Fixpoint f_neg (f : cform) : cform :=
  match f with
  | FSmt a => FSmt (neg_atom a)
  | FNot x => x
  | FAnd fs => reduce1 f_or f_false (map f_neg fs)
  | FOr fs => reduce1 f_and f_true (map f_neg fs)
  | FForall v i m b => FExists v i m (f_neg b)
  | FExists v i m b => FForall v i m (f_neg b)
  | FForallInt v b => FExistsInt v (f_neg b)
  | FExistsInt v b => FForallInt v (f_neg b)
  | FSPred _ _ | FSemPred _ _ => FNot f
  end.

(* derived connectives exactly as exitImplication / exitEquivalence / exitExclusiveOr *)
Definition f_imp (l r : cform) : cform := f_or (f_neg l) r.
Definition f_iff (l r : cform) : cform := f_or (f_and (f_neg l) (f_neg r)) (f_and l r).
Definition f_xor (l r : cform) : cform := f_or (f_and l (f_neg r)) (f_and (f_neg l) r).

(* ---------- variables of formulas ---------- *)
Definition me_bound (m : option mexpr) : list var :=
  match m with None => [] | Some e => filter (fun v => match vk v with VBound => true | _ => false end) (me_elems e) end.
Definition qbound (v : var) (m : option mexpr) : list var := vunion [v] (me_bound m).
Definition in_vars (i : invar) : list var := match i with InVar v => [v] | InTree _ => [] end.
Definition parg_vars (args : list parg) : list var :=
  fold_left (fun acc a => match a with PVar v => vadd v acc | _ => acc end) args [].

Fixpoint fv (f : cform) : list var :=
  match f with
  | FSmt a => vunion [] (at_vars a)
  | FSPred _ args | FSemPred _ args => parg_vars args
  | FNot x => fv x
  | FAnd fs | FOr fs => fold_left vunion (map fv fs) []
  | FForall v i m b | FExists v i m b => vdiff (vunion (in_vars i) (fv b)) (qbound v m)
  | FForallInt v b | FExistsInt v b => vdiff (fv b) [v]
  end.

Fixpoint bvars (f : cform) : list var :=
  match f with
  | FSmt _ | FSPred _ _ | FSemPred _ _ => []
  | FNot x => bvars x
  | FAnd fs | FOr fs => fold_left vunion (map bvars fs) []
  | FForall v i m b | FExists v i m b => vunion (qbound v m) (bvars b)
  | FForallInt v b | FExistsInt v b => vunion [v] (bvars b)
  end.

Fixpoint allvars (f : cform) : list var :=
  match f with
  | FSmt a => vunion [] (at_vars a)
  | FSPred _ args | FSemPred _ args => parg_vars args
  | FNot x => allvars x
  | FAnd fs | FOr fs => fold_left vunion (map allvars fs) []
  | FForall v i m b | FExists v i m b => vunion (vunion (vunion (in_vars i) [v]) (me_bound m)) (allvars b)
  | FForallInt v b | FExistsInt v b => vunion [v] (allvars b)
  end.

(* blind renaming *)
Definition ren := list (var * var).
Fixpoint rlook (s : ren) (v : var) : var :=
  match s with [] => v | (a, b) :: r => if var_eqb a v then b else rlook r v end.
Definition sub_me (s : ren) (m : option mexpr) : option mexpr :=
  match m with None => None | Some e => Some (MkMexpr (map (rlook s) (me_elems e)) (me_trees e)) end.
Definition sub_in (s : ren) (i : invar) : invar := match i with InVar v => InVar (rlook s v) | _ => i end.
Definition sub_arg (s : ren) (a : parg) : parg := match a with PVar v => PVar (rlook s v) | _ => a end.
Fixpoint sub (s : ren) (f : cform) : cform :=
  match f with
  | FSmt a => FSmt (MkAtom (at_neg a) (at_id a) (map (rlook s) (at_vars a)))
  | FSPred p args => FSPred p (map (sub_arg s) args)
  | FSemPred p args => FSemPred p (map (sub_arg s) args)
  | FNot x => FNot (sub s x)
  | FAnd fs => FAnd (map (sub s) fs)
  | FOr fs => FOr (map (sub s) fs)
  | FForall v i m b => FForall (rlook s v) (sub_in s i) (sub_me s m) (sub s b)
  | FExists v i m b => FExists (rlook s v) (sub_in s i) (sub_me s m) (sub s b)
  | FForallInt v b => FForallInt (rlook s v) (sub s b)
  | FExistsInt v b => FExistsInt (rlook s v) (sub s b)
  end.

(* ---------- fresh names ---------- *)
Fixpoint dec_aux (fuel : nat) (n : N) (acc : str) : str :=
  match fuel with
  | 0 => acc
  | S f => let acc' := (48 + N.modulo n 10)%N :: acc in
           if (N.div n 10 =? 0)%N then acc' else dec_aux f (N.div n 10) acc'
  end.
Definition dec (n : nat) : str := dec_aux 20 (N.of_nat n) [].
Definition c_us : chr := 95%N.
Definition with_idx (base : str) (i : nat) : str := base ++ c_us :: dec i.

Fixpoint first_free (used : list str) (base : str) (i k : nat) : str :=
  match k with
  | 0 => with_idx base i
  | S k' => if smem (with_idx base i) used then first_free used base (S i) k' else with_idx base i
  end.
(* fresh_variable(used, base): base, base_0, base_1, ... *)
Definition fresh_name (used : list str) (base : str) : str :=
  if smem base used then first_free used base 0 (length used) else base.

Definition nt_base (nt : str) : str := removelast (tl nt).

Definition is_digit (c : chr) : bool := (48 <=? c)%N && (c <=? 57)%N.
Fixpoint take_digits (s : str) : str * str :=
  match s with
  | c :: r => if is_digit c then let '(d, t) := take_digits r in (c :: d, t) else ([], s)
  | [] => ([], [])
  end.
(* fresh_vars strips a trailing _digits suffix (greedy regex group 1), else keeps s *)
Definition strip_idx (s : str) : str :=
  let '(d, t) := take_digits (rev s) in
  match d, t with
  | _ :: _, c :: r => if (c =? c_us)%N then rev r else s
  | _, _ => s
  end.

Definition names (vs : list var) : list str := map vname vs.

Fixpoint fresh_vars (own : list var) (U : list str) : ren * list str :=
  match own with
  | [] => ([], U)
  | v :: r =>
      if smem (vname v) U then
        let nm := first_free U (strip_idx (vname v)) 0 (length U) in
        let '(s, U') := fresh_vars r (U ++ [nm]) in
        ((v, MkVar VBound nm (vtype v)) :: s, U')
      else
        let '(s, U') := fresh_vars r (U ++ [vname v]) in ((v, v) :: s, U')
  end.

Definition out_of_fuel {X} : res X := Raise TimeoutErr.

(* ensure_unique_bound_variables with its shared mutable `used_names` set as threaded state *)
Fixpoint uniq (n : nat) (U : list str) (f : cform) : res (cform * list str) :=
  match n with
  | 0 => out_of_fuel
  | S n' =>
    let quant (fa : bool) v i m b :=
      let own := qbound v m in
      let U1 := sunion U (names (vdiff (bvars f) own)) in
      let '(s, U2) := fresh_vars own U1 in
      let Ul := sunion U (filter (fun x => negb (smem x U1)) U2) in
      bind (uniq n' Ul (sub s b)) (fun '(b', _) =>
        Ok ((if fa then FForall else FExists) (rlook s v) (sub_in s i) (sub_me s m) b', U2)) in
    let many (op : cform -> cform -> cform) (fs : list cform) :=
      bind (fold_left (fun acc g => bind acc (fun '(done, Ua) =>
              bind (uniq n' Ua g) (fun '(g', Ub) => Ok (done ++ [g'], Ub)))) fs (Ok ([], U)))
           (fun '(gs, U') => Ok (reduce1 op f_true gs, U')) in
    match f with
    | FForall v i m b => quant true v i m b
    | FExists v i m b => quant false v i m b
    | FNot x => bind (uniq n' U x) (fun '(x', U') => Ok (FNot x', U'))
    | FAnd fs => many f_and fs
    | FOr fs => many f_or fs
    | _ => Ok (f, U)
    end
  end.

(* ---------- univ_close_over_var_push_in (mexpr = None) ---------- *)
Definition mk_comb (conj : bool) (l : list cform) : cform :=
  match l with [x] => x | _ => if conj then FAnd l else FOr l end.

Fixpoint push_in (n : nat) (v inv : var) (qfd : list var) (f : cform) : res cform :=
  match n with
  | 0 => out_of_fuel
  | S n' =>
    if isnil (vinter qfd (fv f)) then Ok f else
    let wrap := Ok (FForall v (InVar inv) None f) in
    let comb (conj : bool) :=
      let elems := if conj then split_and f else split_or f in
      let indep e := isnil (vinter qfd (fv e)) in
      let pin e := vmem inv (bvars e) in
      let I := filter indep elems in
      let P := filter (fun e => negb (indep e) && pin e) elems in
      let O := filter (fun e => negb (indep e) && negb (pin e)) elems in
      if isnil I && isnil P then wrap else
      bind (mapM (push_in n' v inv qfd) P) (fun P' =>
      bind (match O with [] => Ok [] | _ => bind (push_in n' v inv qfd (mk_comb conj O)) (fun o => Ok [o]) end)
           (fun O' =>
        let r := I ++ P' ++ O' in
        if Nat.ltb 1 (length r) then Ok (if conj then FAnd r else FOr r) else Raise AssertErr)) in
    match f with
    | FAnd _ => comb true
    | FOr _ => comb false
    | FForall w i m b =>
        if negb (invar_eqb (InVar v) i) then
          bind (push_in n' v inv qfd b) (fun b' => Ok (FForall w i m b'))
        else wrap
    | _ => wrap
    end
  end.

(* ---------- XPath segments -> match expressions ---------- *)
Definition xseg := list (str * nat).
Definition xpath := list xseg.

Fixpoint nth_occ (alt : list str) (nt : str) (n idx : nat) : option nat :=
  match alt with
  | [] => None
  | e :: r => if str_eqb e nt
              then match n with 0 => Some idx | S n' => nth_occ r nt n' (S idx) end
              else nth_occ r nt n (S idx)
  end.

(* a partial match-expression tree is represented by its leaves and the index of the leaf to expand next *)
Definition expand_step (g : grammar) (st : list (list str * nat)) (step : str * nat) : list (list str * nat) :=
  flat_map (fun lc : list str * nat =>
    let '(leaves, cur) := lc in
    flat_map (fun alt => match nth_occ alt (fst step) (snd step) 0 with
                         | Some k => [(firstn cur leaves ++ alt ++ skipn (S cur) leaves, cur + k)]
                         | None => []
                         end) (alts g (nth cur leaves []))) st.
Definition expand (g : grammar) (start : str) (steps : xseg) : list (list str * nat) :=
  fold_left (expand_step g) steps [([start], 0)].

Definition dummy (ty : str) : var := MkVar VDummy [] ty.
Fixpoint mk_melems (leaves : list str) (cur : nat) (bv : var) : list var :=
  match leaves with
  | [] => []
  | l :: r =>
      match cur with
      | 0 => bv :: map dummy (filter (fun s => negb (isnil s)) r)
      | S c => (if isnil l then [] else [dummy l]) ++ mk_melems r c bv
      end
  end.
Definition mk_mexpr (bv : var) (lc : list str * nat) : mexpr := MkMexpr (mk_melems (fst lc) (snd lc) bv) [].

(* AddMexprTransformer for quantifiers that have no match expression yet *)
Fixpoint addm (qv : var) (ms : list mexpr) (f : cform) : res cform :=
  match f with
  | FForall v i m b =>
      bind (addm qv ms b) (fun b' =>
        if var_eqb v qv then
          match m with
          | Some _ => Raise NotImpl
          | None => Ok (reduce1 f_and f_true (map (fun me => FForall v i (Some me) b') ms))
          end
        else Ok (FForall v i m b'))
  | FExists v i m b =>
      bind (addm qv ms b) (fun b' =>
        if var_eqb v qv then
          match m with
          | Some _ => Raise NotImpl
          | None => Ok (reduce1 f_or f_true (map (fun me => FExists v i (Some me) b') ms))
          end
        else Ok (FExists v i m b'))
  | FNot x => bind (addm qv ms x) (fun x' => Ok (FNot x'))
  | FAnd fs => bind (mapM (addm qv ms) fs) (fun l => Ok (FAnd l))
  | FOr fs => bind (mapM (addm qv ms) fs) (fun l => Ok (FOr l))
  | FForallInt v b => bind (addm qv ms b) (fun b' => Ok (FForallInt v b'))
  | FExistsInt v b => bind (addm qv ms b) (fun b' => Ok (FExistsInt v b'))
  | _ => Ok f
  end.

(* ---------- surface syntax ---------- *)
Inductive sterm := TVar (n : str) | TFree (nt : str) | TXPath (x : xpath).
Inductive sin := InDefault | InName (n : str) | InType (t : str).
(* user-written match expression: bound variable {<ty> name} or a literal token (terminal text or <nonterminal>) *)
Inductive smelem := SMB (ty name : str) | SMD (tok : str).
Inductive sform :=
| SAtom (smt : bool) (id : N) (ts : list sterm)
| SNot (f : sform)
| SAnd (a b : sform) | SOr (a b : sform) | SImp (a b : sform) | SIff (a b : sform) | SXor (a b : sform)
| SQ (fa : bool) (ty : str) (name : option str) (i : sin) (me : option (list smelem)) (body : sform)
| SInt (fa : bool) (name : str) (body : sform).

Definition s_start : str := [115;116;97;114;116]%N.
Definition s_start_nt : str := (60 :: s_start ++ [62])%N.
Definition start_c : var := MkVar VConst s_start s_start_nt.

(* listener state *)
Record wst := MkW { w_fnt : list (str * var); w_xp : list (xpath * var) }.

Fixpoint alook {X} (k : str) (l : list (str * X)) : option X :=
  match l with [] => None | (a, b) :: r => if str_eqb a k then Some b else alook k r end.

Definition xstep_eqb (a b : str * nat) : bool := str_eqb (fst a) (fst b) && Nat.eqb (snd a) (snd b).
Definition xpath_eqb (a b : xpath) : bool := leqb (leqb xstep_eqb) a b.
Fixpoint xlook (k : xpath) (l : list (xpath * var)) : option var :=
  match l with [] => None | (a, b) :: r => if xpath_eqb a k then Some b else xlook k r end.
Definition xdel (k : xpath) (l : list (xpath * var)) := filter (fun p => negb (xpath_eqb (fst p) k)) l.
Definition xroot (x : xpath) : str := match x with ((r, _) :: _) :: _ => r | _ => [] end.
Definition xset_root (x : xpath) (r : str) : xpath :=
  match x with (_ :: s) :: t => ((r, 0) :: s) :: t | _ => x end.

Definition register_free (used : list str) (st : wst) (nt : str) : wst * var :=
  match alook nt (w_fnt st) with
  | Some v => (st, v)
  | None =>
      let v := MkVar VBound (fresh_name (used ++ map fst (w_fnt st)) (nt_base nt)) nt in
      (MkW (w_fnt st ++ [(nt, v)]) (w_xp st), v)
  end.

Definition xlast_nt (x : xpath) : str := fst (last (last x []) ([], 0)).

Definition register_xpath (used : list str) (st : wst) (x : xpath) : wst * var :=
  match xlook x (w_xp st) with
  | Some v => (st, v)
  | None =>
      let nt := xlast_nt x in
      let v := MkVar VBound (fresh_name (used ++ names (map snd (w_fnt st)) ++ names (map snd (w_xp st))) (nt_base nt)) nt in
      (MkW (w_fnt st) (w_xp st ++ [(x, v)]), v)
  end.

Definition s_num : str := [78;85;77]%N.   (* Variable.NUMERIC_NTYPE = "NUM" *)
Definition me_decls (me : option (list smelem)) : list (str * str) :=
  match me with
  | None => []
  | Some l => flat_map (fun e => match e with SMB ty n => [(n, ty)] | SMD _ => [] end) l
  end.

(* declarations name -> type in the order in which exitQfdFormula registers them (post-order) *)
Fixpoint decls (f : sform) : list (str * str) :=
  match f with
  | SAtom _ _ _ => []
  | SNot a => decls a
  | SAnd a b | SOr a b | SImp a b | SIff a b | SXor a b => decls a ++ decls b
  | SQ _ ty name _ me b =>
      decls b ++ me_decls me ++ match name with Some n => [(n, ty)] | None => [] end
  | SInt _ n b => decls b ++ [(n, s_num)]
  end.

Definition get_var (d : list (str * str)) (n : str) : res var :=
  if str_eqb n s_start then Ok start_c else
  match alook n d with Some ty => Ok (MkVar VBound n ty) | None => Raise SyntaxErr end.

Definition term (used : list str) (d : list (str * str)) (st : wst) (t : sterm) : res (wst * var) :=
  match t with
  | TVar n => bind (get_var d n) (fun v => Ok (st, v))
  | TFree nt => Ok (register_free used st nt)
  | TXPath x => Ok (register_xpath used st x)
  end.

Fixpoint terms (used : list str) (d : list (str * str)) (st : wst) (ts : list sterm) : res (wst * list var) :=
  match ts with
  | [] => Ok (st, [])
  | t :: r => bind (term used d st t) (fun '(st1, v) =>
              bind (terms used d st1 r) (fun '(st2, vs) => Ok (st2, v :: vs)))
  end.

(* exit of an unnamed quantifier: the free nonterminal is bound now *)
Definition rebind_xp (xp : list (xpath * var)) (ty : str) (nm : str) : list (xpath * var) :=
  fold_left (fun acc p =>
     if str_eqb (xroot (fst p)) ty then xdel (fst p) acc ++ [(xset_root (fst p) nm, snd p)] else acc) xp xp.

Fixpoint walk (used : list str) (d : list (str * str)) (st : wst) (f : sform) : res (wst * cform) :=
  match f with
  | SAtom smt id ts =>
      bind (terms used d st ts) (fun '(st1, vs) =>
        Ok (st1, if smt then FSmt (MkAtom false id vs)
                 else if (id <? 100)%N then FSPred [id] (map PVar vs) else FSemPred [id] (map PVar vs)))
  | SNot a => bind (walk used d st a) (fun '(st1, a') => Ok (st1, f_neg a'))
  | SAnd a b =>
      bind (walk used d st a) (fun '(st1, a') =>
      bind (walk used d st1 b) (fun '(st2, b') => Ok (st2, f_and a' b')))
  | SOr a b =>
      bind (walk used d st a) (fun '(st1, a') =>
      bind (walk used d st1 b) (fun '(st2, b') => Ok (st2, f_or a' b')))
  | SImp a b =>
      bind (walk used d st a) (fun '(st1, a') =>
      bind (walk used d st1 b) (fun '(st2, b') => Ok (st2, f_imp a' b')))
  | SIff a b =>
      bind (walk used d st a) (fun '(st1, a') =>
      bind (walk used d st1 b) (fun '(st2, b') => Ok (st2, f_iff a' b')))
  | SXor a b =>
      bind (walk used d st a) (fun '(st1, a') =>
      bind (walk used d st1 b) (fun '(st2, b') => Ok (st2, f_xor a' b')))
  | SInt fa n body =>
      bind (walk used d st body) (fun '(st1, b') =>
      bind (get_var d n) (fun v => Ok (st1, (if fa then FForallInt else FExistsInt) v b')))
  | SQ fa ty name i me body =>
      (* enterQfdFormula is only hooked to the quantifier forms WITHOUT match expression *)
      let st0 := match name, me with None, None => fst (register_free used st ty) | _, _ => st end in
      bind (walk used d st0 body) (fun '(st1, b') =>
      bind (match name with
            | Some n => bind (get_var d n) (fun v => Ok (st1, v))
            | None =>
                let '(st2, v) := register_free used st1 ty in
                Ok (MkW (filter (fun p => negb (str_eqb (fst p) ty)) (w_fnt st2))
                        (rebind_xp (w_xp st2) ty (vname v)), v)
            end) (fun '(st3, v) =>
      bind (match i with
            | InName n => bind (get_var d n) (fun w => Ok (st3, w))
            | InType t => if str_eqb t s_start_nt then Ok (st3, start_c) else Ok (register_free used st3 t)
            | InDefault => Ok (st3, start_c)
            end) (fun '(st4, w) =>
      bind (match me with
            | None => Ok None
            | Some l => bind (mapM (fun e => match e with SMB _ n => get_var d n | SMD tok => Ok (dummy tok) end) l)
                             (fun es => Ok (Some (MkMexpr es [])))
            end) (fun m =>
      Ok (st4, (if fa then FForall else FExists) v (InVar w) m b')))))
  end.

(* ---------- closing over free nonterminals ---------- *)
Definition cmp_nat (a b : nat) : comparison := Nat.compare a b.
Fixpoint cmp_str (a b : str) : comparison :=
  match a, b with
  | [], [] => Eq | [], _ => Lt | _, [] => Gt
  | x :: a', y :: b' => match N.compare x y with Eq => cmp_str a' b' | c => c end
  end.
Fixpoint cmp_list {X} (c : X -> X -> comparison) (a b : list X) : comparison :=
  match a, b with
  | [], [] => Eq | [], _ => Lt | _, [] => Gt
  | x :: a', y :: b' => match c x y with Eq => cmp_list c a' b' | r => r end
  end.
Definition cmp_step (a b : str * nat) : comparison :=
  match cmp_str (fst a) (fst b) with Eq => cmp_nat (snd a) (snd b) | c => c end.
Definition cmp_xpath : xpath -> xpath -> comparison := cmp_list (cmp_list cmp_step).
Fixpoint xinsert (p : xpath * var) (l : list (xpath * var)) : list (xpath * var) :=
  match l with
  | [] => [p]
  | q :: r => match cmp_xpath (fst p) (fst q) with Gt => q :: xinsert p r | _ => p :: q :: r end
  end.
Definition xsort (l : list (xpath * var)) : list (xpath * var) := fold_right xinsert [] l.

(* one group of close_over_free_nonterminals' second loop; sorted list consumed left to right *)
Fixpoint close_groups (n : nat) (srt : list (xpath * var)) (also : list (str * var))
         (used : list str) (xp : list (xpath * var)) (f : cform) : res (cform * list str * list (xpath * var)) :=
  match n with
  | 0 => out_of_fuel
  | S n' =>
    match srt with
    | [] => Ok (f, used, xp)
    | (x, _) :: _ =>
        let r := xroot x in
        let grp := filter (fun p => str_eqb (xroot (fst p)) r) srt in
        let rest := filter (fun p => negb (str_eqb (xroot (fst p)) r)) srt in
        if negb (is_nt r) then close_groups n' rest also used xp f else
        let v := MkVar VBound (fresh_name used (nt_base r)) r in
        let used' := sadd (vname v) used in
        let f1 := match alook r also with Some old => sub [(old, v)] f | None => f end in
        bind (push_in (S (fsize f1)) v start_c (fold_left (fun acc p => vadd (snd p) acc) grp []) f1) (fun f2 =>
          let xp' := fold_left (fun acc p => xdel (fst p) acc ++ [(xset_root (fst p) (vname v), snd p)]) grp xp in
          close_groups n' rest also used' xp' f2)
    end
  end.

Definition close_fnt (used : list str) (st : wst) (f : cform) : res (cform * list str * list (xpath * var)) :=
  let in_x nt := existsb (fun p => str_eqb (xroot (fst p)) nt) (w_xp st) in
  let fnv := filter (fun p => negb (in_x (fst p))) (w_fnt st) in
  let also := filter (fun p => in_x (fst p)) (w_fnt st) in
  bind (fold_left (fun acc p => bind acc (fun g => push_in (S (fsize g)) (snd p) start_c [snd p] g))
                  (rev fnv) (Ok f)) (fun f1 =>
    close_groups (S (length (w_xp st))) (xsort (w_xp st)) also used (w_xp st) f1).

(* ---------- closing over XPath expressions ---------- *)
Definition find_var (nm : str) (f : cform) : option var :=
  find (fun v => str_eqb (vname v) nm) (allvars f).

Fixpoint close_xp (n : nat) (g : grammar) (used : list str) (xp : list (xpath * var)) (f : cform) : res cform :=
  match n with
  | 0 => out_of_fuel
  | S n' =>
    match xp with
    | [] => Ok f
    | (x, fvr) :: xp' =>
        match x with
        | [] => Raise AssertErr
        | seg0 :: segs =>
          if isnil segs && Nat.leb (length seg0) 1 then Raise AssertErr else
          if negb (isnil segs) && Nat.eqb (length seg0) 1 then
            match find_var (xroot x) f with
            | None => Raise StopIter
            | Some inv =>
                match segs with
                | [[(ty, _)]] =>
                    if is_nt ty then
                      bind (push_in (S (fsize f)) fvr inv [fvr] f) (fun f' => close_xp n' g used xp' f')
                    else Raise AssertErr
                | _ => Raise AssertErr
                end
            end
          else
            match find_var (xroot x) f with
            | None => Raise SyntaxErr
            | Some first =>
                let trees := expand g (vtype first) (tl seg0) in
                if isnil trees then Raise SyntaxErr else
                let lastnt := fst (last seg0 ([], 0)) in
                let '(bv, used') :=
                  if isnil segs then (fvr, used)
                  else let nm := fresh_name used (nt_base lastnt) in (MkVar VBound nm lastnt, sadd nm used) in
                bind (addm first (map (mk_mexpr bv) trees) f) (fun f' =>
                  let xp'' := if isnil segs then xp' else xp' ++ [([(vname bv, 0)] :: segs, fvr)] in
                  close_xp n' g used' xp'' f')
            end
        end
    end
  end.

(* ---------- exitStart ---------- *)
Fixpoint sform_names (f : sform) : list str :=
  match f with
  | SAtom _ _ _ => []
  | SNot a => sform_names a
  | SAnd a b | SOr a b | SImp a b | SIff a b | SXor a b => sunion (sform_names a) (sform_names b)
  | SQ _ _ name _ me b =>
      sunion (match name with Some n => [n] | None => [] end) (sunion (map fst (me_decls me)) (sform_names b))
  | SInt _ _ b => sform_names b
  end.

Fixpoint xp_size (xp : list (xpath * var)) : nat :=
  match xp with [] => 0 | (x, _) :: r => S (length x + list_sum (map (@length _) x)) + xp_size r end.

Definition elab (g : grammar) (f : sform) : res cform :=
  let used := sform_names f in
  bind (walk used (decls f) (MkW [] []) f) (fun '(st, f0) =>
  bind (uniq (S (fsize f0)) [] f0) (fun '(f1, _) =>
  let used1 := sunion used (names (allvars f1)) in
  bind (close_fnt used1 st f1) (fun '(f2, used2, xp) =>
  bind (close_xp (S (2 * xp_size xp)) g used2 xp f2) (fun f3 =>
  bind (uniq (S (fsize f3)) [] f3) (fun '(f4, _) =>
    if forallb (fun v => match vk v with VConst => true | _ => false end) (fv f4)
    then Ok f4 else Raise SyntaxErr))))).

(* ---------- strict structural equality (used by the correspondence check only) ---------- *)
Fixpoint cf_eqb (a b : cform) : bool :=
  let go := fix go (xs ys : list cform) : bool :=
    match xs, ys with
    | [], [] => true
    | x :: xs', y :: ys' => cf_eqb x y && go xs' ys'
    | _, _ => false
    end in
  match a, b with
  | FSmt x, FSmt y => atom_eqb x y
  | FSPred p xs, FSPred q ys => str_eqb p q && leqb parg_eqb xs ys
  | FSemPred p xs, FSemPred q ys => str_eqb p q && leqb parg_eqb xs ys
  | FNot x, FNot y => cf_eqb x y
  | FAnd xs, FAnd ys => go xs ys
  | FOr xs, FOr ys => go xs ys
  | FForall v i m x, FForall w j k y => var_eqb v w && invar_eqb i j && mexpr_eqb m k && cf_eqb x y
  | FExists v i m x, FExists w j k y => var_eqb v w && invar_eqb i j && mexpr_eqb m k && cf_eqb x y
  | FForallInt v x, FForallInt w y => var_eqb v w && cf_eqb x y
  | FExistsInt v x, FExistsInt w y => var_eqb v w && cf_eqb x y
  | _, _ => false
  end.
