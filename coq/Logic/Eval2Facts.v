(* SPECIFICATION side and PROOFS for the model of the second evaluation strategy (Eval2.v).

   * [pholds e p]: the meaning of the PURE formula that is sent to Z3 (SMT atoms over string
     variables, not/and/or, quantifiers over ALL strings -- the bound variables of
     ExistsIntFormula / ForallIntFormula have Z3 sort String); [pvalid p] = true under every
     assignment of its (string) constants.  The oracle premise is
         z3_valid p = Ok TT -> pvalid p      z3_valid p = Ok FF -> ~ pvalid p     (pure p).
   * [atom2_denote]: the specification meaning of the extended atom family.
   * [elim_correct]: for formulas of the fragment [wf2] the pure formula produced by
     eliminate_quantifiers + evaluate_predicates_action means exactly [models] (Semantics.v,
     numeric quantifiers over numerals).  The guard [pins] on each numeric quantifier is what
     makes "all strings" and "numerals" agree; without it the statement is false (Eval2Check.v). *)
From ISLA Require Export Eval2Dec EvalFacts.
From Coq Require Import ZArith Lia.

(* ------------------------------------------------------------------ *)
(* meaning of pure formulas                                            *)
(* ------------------------------------------------------------------ *)
Definition patom (e : penv) (x : atom2) : Prop :=
  match x with
  | A1 (ABool b) => b = true
  | A1 (AStr neg s t) => if neg then sval e s <> sval e t else sval e s = sval e t
  | A1 (ALen op s n) => cmp_rel op (Z.of_nat (length (sval e s))) n
  | AToInt op v k => cmp_rel op (str_to_int (e v)) k
  end.

Fixpoint pholds (e : penv) (p : formula atom2) {struct p} : Prop :=
  match p with
  | FSmt x => patom e x
  | FNot g => ~ pholds e g
  | FAnd fs => (fix all (l : list (formula atom2)) : Prop :=
                  match l with [] => True | x :: l' => pholds e x /\ all l' end) fs
  | FOr fs => (fix any (l : list (formula atom2)) : Prop :=
                 match l with [] => False | x :: l' => pholds e x \/ any l' end) fs
  | FForallInt v g => forall s : str, pholds (pupd e v s) g
  | FExistsInt v g => exists s : str, pholds (pupd e v s) g
  | _ => False
  end.

(* validity: true whatever the string constants are *)
Definition pvalid (p : formula atom2) : Prop := forall e, pholds e p.

Fixpoint pureb (p : formula atom2) : bool :=
  match p with
  | FSmt _ => true
  | FNot g => pureb g
  | FAnd fs | FOr fs => forallb pureb fs
  | FForallInt _ g | FExistsInt _ g => pureb g
  | _ => false
  end.

(* specification meaning of the extended atoms under an assignment of trees *)
Definition atom2_denote (x : atom2) (en : var -> option tree) : Prop :=
  match x with
  | A1 a => atom_denote a en
  | AToInt op v k => exists t, en v = Some t /\ cmp_rel op (str_to_int (yield t)) k
  end.

Lemma pholds_and e fs : pholds e (FAnd fs) <-> Forall (pholds e) fs.
Proof.
  simpl. induction fs as [|x fs IH]; [split; constructor|]. rewrite IH. split.
  - intros [H1 H2]. constructor; assumption.
  - intro H. inversion H. auto.
Qed.

Lemma pholds_or e fs : pholds e (FOr fs) <-> Exists (pholds e) fs.
Proof.
  simpl. induction fs as [|x fs IH]; [split; [contradiction | intro H; inversion H]|]. rewrite IH. split.
  - intros [H|H]; [apply Exists_cons_hd | apply Exists_cons_tl]; assumption.
  - intro H. inversion H; auto.
Qed.

Lemma models_and {A} (ad : A -> (var -> option tree) -> Prop) c b fs :
  models ad c b (FAnd fs) <-> Forall (models ad c b) fs.
Proof.
  simpl. induction fs as [|x fs IH]; [split; constructor|]. rewrite IH. split.
  - intros [H1 H2]. constructor; assumption.
  - intro H. inversion H. auto.
Qed.

Lemma models_or {A} (ad : A -> (var -> option tree) -> Prop) c b fs :
  models ad c b (FOr fs) <-> Exists (models ad c b) fs.
Proof.
  simpl. induction fs as [|x fs IH]; [split; [contradiction | intro H; inversion H]|]. rewrite IH. split.
  - intros [H|H]; [apply Exists_cons_hd | apply Exists_cons_tl]; assumption.
  - intro H. inversion H; auto.
Qed.

Lemma cmp_eval_rel op x y : cmp_eval op x y = true <-> cmp_rel op x y.
Proof.
  destruct op; simpl; rewrite ?negb_true_iff, ?Z.eqb_eq, ?Z.eqb_neq, ?Z.ltb_lt, ?Z.leb_le; lia.
Qed.

Lemma patomb_spec e x : patomb e x = true <-> patom e x.
Proof.
  destruct x as [[neg s t|op s n|bb]|op v k]; simpl.
  - destruct (str_eqb (sval e s) (sval e t)) eqn:E; destruct neg; simpl; split; intro H;
      try discriminate; try reflexivity.
    + apply str_eqb_eq in E. contradiction.
    + apply str_eqb_eq. assumption.
    + intro E'. apply str_eqb_eq in E'. congruence.
    + apply str_eqb_eq in H. congruence.
  - apply cmp_eval_rel.
  - tauto.
  - apply cmp_eval_rel.
Qed.

(* ---- mapM ---- *)
Lemma mapM2_Forall2 {B C} (g : B -> res C) (R : B -> C -> Prop) (l : list B) :
  (forall x, In x l -> exists y, g x = Ok y /\ R x y) ->
  exists l', mapM g l = Ok l' /\ Forall2 R l l'.
Proof.
  induction l as [|x l IH]; intro H.
  - exists []. split; [reflexivity | constructor].
  - destruct (H x (or_introl eq_refl)) as (y & Hy & Hr).
    destruct IH as (l' & Hl & HF); [intros z Hz; apply H; right; assumption|].
    exists (y :: l'). simpl. rewrite Hy, Hl. split; [reflexivity | constructor; assumption].
Qed.

Lemma mapM2_inv {B C} (g : B -> res C) (l : list B) : forall l',
  mapM g l = Ok l' -> Forall2 (fun x y => g x = Ok y) l l'.
Proof.
  induction l as [|x l IH]; intros l' H; simpl in H.
  - inversion H. constructor.
  - destruct (g x) as [y|e] eqn:E; [|discriminate].
    destruct (mapM g l) as [ys|e] eqn:E2; [|discriminate]. inversion H; subst.
    constructor; [assumption | apply IH; reflexivity].
Qed.

Lemma find_nodup_N {B} (g : B -> N) (l : list B) x :
  NoDup (map g l) -> In x l -> find (fun y => N.eqb (g y) (g x)) l = Some x.
Proof.
  induction l as [|y l IH]; intros Hn Hin; [contradiction|]. simpl in *.
  inversion Hn as [|? ? Hny Hn']; subst. destruct Hin as [->|Hin].
  - rewrite N.eqb_refl. reflexivity.
  - destruct (N.eqb_spec (g y) (g x)) as [E|E]; [|auto].
    exfalso. apply Hny. rewrite E. apply in_map. assumption.
Qed.

Lemma is_nil_nodup_vars l : is_nil (nodup_vars l) = true -> l = [].
Proof.
  destruct l as [|v l]; [reflexivity|]. intro H.
  assert (Hin : In v (nodup_vars (v :: l))) by (apply nodup_vars_In; left; reflexivity).
  destruct (nodup_vars (v :: l)); [contradiction | discriminate].
Qed.

(* a ground atom is evaluated as its pure meaning says *)
Lemma atom_eval_ground e y : is_nil (atom_free y) = true ->
  atom_eval y [] = Ok (tv_of_bool (patomb e (A1 y))).
Proof.
  destruct y as [neg s t|op s n|bb]; simpl; intro H.
  - apply is_nil_nodup_vars in H. apply app_eq_nil in H as [Hs Ht].
    destruct s as [v|s]; [discriminate|]. destruct t as [v|t]; [discriminate|]. reflexivity.
  - destruct s as [v|s]; [discriminate|]. reflexivity.
  - reflexivity.
Qed.

Lemma of_tv_cases r (P : Prop) : (r = Ok TT /\ P) \/ (r = Ok FF /\ ~ P) ->
  exists p, of_tv r = Ok p /\ pureb p = true /\ forall e, (pholds e p <-> P).
Proof.
  intros [[-> H]|[-> H]]; [exists tt2 | exists ff2]; (split; [reflexivity|]); (split; [reflexivity|]);
    intro e; simpl; split; intro H'; try reflexivity; try assumption; try discriminate; contradiction.
Qed.


(* [pins true v f]: f can only be true if the value of v is a canonical numeral;
   [pins false v f]: f can only be false if it is.  Syntactic, sufficient. *)
Fixpoint pins (pol : bool) (v : var) (f : formula atom2) {struct f} : bool :=
  match f with
  | FSmt (A1 (AStr neg (SVar w) (SLit s))) => var_eqb w v && is_canon s && Bool.eqb neg (negb pol)
  | FSmt _ => false
  | FSPred _ _ => false
  | FSemPred n args =>
      pol && match args with
             | [_; PStr _; PVar w] => var_eqb w v
             | _ => false
             end
  | FNot g => pins (negb pol) v g
  | FAnd fs => if pol then existsb (pins true v) fs else forallb (pins false v) fs
  | FOr fs => if pol then forallb (pins true v) fs else existsb (pins false v) fs
  | FForall w _ None body => negb pol && negb (var_eqb w v) && pins false v body
  | FExists w _ None body => pol && negb (var_eqb w v) && pins true v body
  | FForall _ _ (Some _) _ | FExists _ _ (Some _) _ => false
  | FForallInt w body | FExistsInt w body => negb (var_eqb w v) && pins pol v body
  end.

Lemma mapM_map {B C D} (g : C -> res D) (h : B -> C) (l : list B) :
  mapM g (map h l) = mapM (fun x => g (h x)) l.
Proof.
  induction l as [|x l IH]; [reflexivity|]. simpl. destruct (g (h x)); [|reflexivity].
  rewrite IH. reflexivity.
Qed.

Lemma Forall2_Forall_iff {B C} (R : B -> C -> Prop) (P : C -> Prop) (Q : B -> Prop) l l' :
  Forall2 R l l' -> (forall x y, R x y -> (P y <-> Q x)) -> (Forall P l' <-> Forall Q l).
Proof.
  intros H HR. induction H as [|x y l l' Hxy H IH]; [split; constructor|].
  split; intro HF; inversion HF; subst; constructor; try (apply IH; assumption); apply (HR x y Hxy); assumption.
Qed.

Lemma Forall2_Exists_iff {B C} (R : B -> C -> Prop) (P : C -> Prop) (Q : B -> Prop) l l' :
  Forall2 R l l' -> (forall x y, R x y -> (P y <-> Q x)) -> (Exists P l' <-> Exists Q l).
Proof.
  intros H HR. induction H as [|x y l l' Hxy H IH]; [split; intro HF; inversion HF|].
  split; intro HF; inversion HF; subst;
    try (apply Exists_cons_hd; apply (HR x y Hxy); assumption);
    apply Exists_cons_tl; apply IH; assumption.
Qed.

Lemma Forall2_forallb {B C} (R : B -> C -> Prop) (g : C -> bool) l l' :
  Forall2 R l l' -> (forall x y, R x y -> g y = true) -> forallb g l' = true.
Proof.
  intros H HR. induction H as [|x y l l' Hxy H IH]; [reflexivity|]. simpl.
  rewrite (HR x y Hxy), IH. reflexivity.
Qed.

Lemma pupd_same e v s : pupd e v s v = s.
Proof. unfold pupd. rewrite var_eqb_refl. reflexivity. Qed.

Lemma pupd_other e v s w : var_eqb w v = false -> pupd e v s w = e w.
Proof. unfold pupd. intros ->. reflexivity. Qed.

Arguments sub_arg : simpl never.

Section S2.
  Variable ref : tree.
  Hypothesis Hshape : shape_ok ref = true.
  Hypothesis Hclosed : is_openT ref = false.
  Hypothesis Huniq : uniq_ids ref.

  (* the composed substitution of the model, with the positions as ghost state *)
  Definition strip (a : asg) : tsub := map (fun kv : var * (path * tree) => (fst kv, snd (snd kv))) a.

  Definition inv2 (a : asg) (b : env) : Prop :=
    NoDup (map (fun kv : var * (path * tree) => vname (fst kv)) a) /\
    (forall v pt, dict_get a v = Some pt -> b v = Some (VPos (fst pt))) /\
    Forall (fun kv : var * (path * tree) =>
              subtree ref (fst (snd kv)) = Some (snd (snd kv)) /\ lbl (snd (snd kv)) = vtype (fst kv)) a.

  (* numeric variables in scope: the string constant of the pure formula is the numeral *)
  Definition nrel (nums : list var) (e : penv) (b : env) : Prop :=
    forall v, In v nums -> exists n, b v = Some (VNum n) /\ e v = dec n.

  Lemma strip_get a v : dict_get (strip a) v = option_map (fun pt : path * tree => snd pt) (dict_get a v).
  Proof.
    induction a as [|[k [p s]] a IH]; simpl; [reflexivity|]. destruct (var_eqb k v); [reflexivity | exact IH].
  Qed.

  Lemma strip_keys a : keys (strip a) = keys a.
  Proof. unfold strip, keys. rewrite map_map. reflexivity. Qed.

  Lemma strip_mem a v : dict_mem (strip a) v = dict_mem a v.
  Proof. unfold dict_mem. rewrite strip_get. destruct (dict_get a v); reflexivity. Qed.

  Lemma inv2_get a b v p s : inv2 a b -> dict_get a v = Some (p, s) ->
    subtree ref p = Some s /\ lbl s = vtype v /\ b v = Some (VPos p).
  Proof.
    intros (_ & Hb & Hf) Hg. rewrite Forall_forall in Hf.
    destruct (Hf (v, (p, s)) (dict_get_In _ _ _ Hg)) as [H1 H2]. simpl in *.
    repeat split; try assumption. apply (Hb v (p, s) Hg).
  Qed.

  Lemma find_by_id_at q t : subtree ref q = Some t -> find_by_id ref t = Some (q, t).
  Proof.
    intro Hs. unfold find_by_id.
    exact (find_nodup_N (fun ps : path * tree => tid (snd ps)) (nodes ref) (q, t) Huniq
             (proj2 (nodes_spec ref q t) Hs)).
  Qed.

  Lemma pos_of_at q t p : subtree ref q = Some t -> (pos_of ref t p <-> p = q).
  Proof.
    intro Hq. split.
    - intros (s & Hs & Hid). apply nodes_spec in Hs. apply nodes_spec in Hq.
      assert (E : (p, s) = (q, t)).
      { eapply (NoDup_map_eq (fun ps : path * tree => tid (snd ps))); [exact Huniq | exact Hs | exact Hq | exact Hid]. }
      inversion E. reflexivity.
    - intros ->. exists t. split; [assumption | reflexivity].
  Qed.

  Lemma arg_resolve2 a b x : inv2 a b -> arg_wf ref (keys a) x ->
    exists p s, arg_inst ref [] (sub_arg (strip a) x) = Ok (SPath p) /\ subtree ref p = Some s /\
                (forall p', arg_pos ref b x p' <-> p' = p) /\ (arg_nt x -> is_nt (lbl s) = true).
  Proof.
    intros Hinv Hwf. destruct x as [v|s0|t]; simpl in Hwf; [|contradiction|].
    - destruct (dict_get a v) as [[p s]|] eqn:Hg; [|apply dict_get_None in Hg; contradiction].
      destruct (inv2_get a b v p s Hinv Hg) as (Hs & Hl & Hb).
      exists p, s. unfold sub_arg. rewrite strip_get, Hg. simpl. rewrite (find_by_id_at p s Hs). simpl.
      repeat split; try assumption.
      + rewrite Hb. intro H. inversion H. reflexivity.
      + intros ->. assumption.
      + rewrite Hl. auto.
    - subst t. exists [], ref. unfold sub_arg. simpl. rewrite (find_by_id_at [] ref eq_refl). simpl.
      repeat split; try (apply (pos_of_at [] ref p' eq_refl)). auto.
  Qed.

  Lemma valid_of_subtree2 p s : subtree ref p = Some s -> valid ref p.
  Proof. unfold valid. intro H. rewrite H. discriminate. Qed.

  Lemma spred_call2' n p q : valid ref p -> valid ref q -> In n names2 ->
    exists bb, spred_call ref n [SPath p; SPath q] = Ok bb /\ (bb = true <-> path2 ref n p q).
  Proof.
    intros Hp Hq Hn. unfold names2 in Hn. simpl in Hn.
    destruct Hn as [<-|[<-|[<-|[<-|[<-|[<-|[]]]]]]]; simpl;
      (eexists; split; [reflexivity|]; rewrite <- path2b_spec; unfold path2b; simpl;
       rewrite ?orb_false_r; tauto).
  Qed.

  Notation sg_of a := (strip a).

  Lemma spred_correct2 a b n args : inv2 a b -> spred_wf ref (keys a) n args ->
    let r := eval_spred ref [] n (map (sub_arg (sg_of a)) args) in
    (r = Ok TT /\ spred_sem ref b n args) \/ (r = Ok FF /\ ~ spred_sem ref b n args).
  Proof.
    intros Hinv Hwf r. unfold r. clear r. unfold spred_wf in Hwf.
    destruct args as [|a0 [|a1 [|a2 [|a3 [|a4 r]]]]]; try contradiction.
    - destruct Hwf as (Hn & H0 & H1).
      destruct (arg_resolve2 a b a0 Hinv H0) as (p & sp & Ep & Hsp & Hup & _).
      destruct (arg_resolve2 a b a1 Hinv H1) as (q & sq & Eq & Hsq & Huq & _).
      destruct (spred_call2' n p q (valid_of_subtree2 _ _ Hsp) (valid_of_subtree2 _ _ Hsq) Hn) as (bb & Hc & Hiff).
      unfold eval_spred. cbn [map mapM]. rewrite Ep, Eq. rewrite Hc.
      apply tv_bool_cases. rewrite Hiff. unfold spred_sem. split.
      + intro H. exists p, q. split; [apply Hup; reflexivity|]. split; [apply Huq; reflexivity|]. assumption.
      + intros (p' & q' & Hp' & Hq' & H). apply Hup in Hp'. apply Huq in Hq'. subst. assumption.
    - destruct a0 as [v0|k|t0]; try contradiction.
      destruct Hwf as (-> & Hk & H1 & Hnt & H2).
      destruct (parse_dec k) as [kk|] eqn:Ek; [|congruence].
      destruct (arg_resolve2 a b a1 Hinv H1) as (p & sp & Ep & Hsp & Hup & Hntp).
      destruct (arg_resolve2 a b a2 Hinv H2) as (q & sq & Eq & Hsq & Huq & _).
      specialize (Hntp Hnt).
      destruct (nth_correct ref (N.to_nat kk) p q sp Hshape (valid_of_subtree2 _ _ Hsq) Hsp Hntp) as [[bb Hb] Hiff].
      unfold eval_spred. cbn [map mapM]. change (sub_arg (strip a) (PStr k)) with (PStr k).
      cbn [arg_inst]. rewrite Ep, Eq. cbn [spred_call].
      assert (Hsem : spred_sem ref b s_nth [PStr k; a1; a2] <-> nth_spec ref (N.to_nat kk) p q).
      { unfold spred_sem. split.
        - intros (_ & k' & p' & q' & Hk' & Hp' & Hq' & H). apply Hup in Hp'. apply Huq in Hq'.
          rewrite Ek in Hk'. inversion Hk'. subst. assumption.
        - intro H. split; [reflexivity|]. exists kk, p, q.
          split; [exact Ek|]. split; [apply Hup; reflexivity|]. split; [apply Huq; reflexivity|]. assumption. }
      rewrite Hsem. change (str_eqb s_nth s_nth) with true. cbv iota. destruct (in_tree p q) eqn:Ein; simpl.
      + rewrite Ek, Hb. apply tv_bool_cases. rewrite <- Hiff, Hb.
        split; [intros ->; reflexivity | intro H; inversion H; reflexivity].
      + right. split; [reflexivity|]. intros [Hpre _]. apply inside_spec in Hpre. congruence.
    - destruct a0 as [v0|op|t0]; try contradiction.
      destruct a1 as [v1|nt|t1]; try contradiction.
      destruct Hwf as (-> & Ho & H2 & H3).
      destruct (lvl_of_str op) as [o|] eqn:Eo; [|congruence].
      destruct (arg_resolve2 a b a2 Hinv H2) as (p & sp & Ep & Hsp & Hup & _).
      destruct (arg_resolve2 a b a3 Hinv H3) as (q & sq & Eq & Hsq & Huq & _).
      unfold eval_spred. cbn [map mapM]. change (sub_arg (strip a) (PStr op)) with (PStr op).
      change (sub_arg (strip a) (PStr nt)) with (PStr nt).
      cbn [arg_inst]. rewrite Ep, Eq. cbn [spred_call]. change (str_eqb s_level s_level) with true. cbv iota.
      rewrite Eo.
      apply tv_bool_cases. rewrite (level_correct ref o nt p q Hshape). unfold spred_sem. split.
      + intro H. split; [reflexivity|]. exists o, p, q.
        split; [exact Eo|]. split; [apply Hup; reflexivity|]. split; [apply Huq; reflexivity|]. assumption.
      + intros (_ & o' & p' & q' & Ho' & Hp' & Hq' & H). apply Hup in Hp'. apply Huq in Hq'.
        rewrite Eo in Ho'. inversion Ho'. subst. assumption.
  Qed.

  (* ---- count ---- *)
  Definition sempred_wf2 (dom nums : list var) (n : str) (args : list parg) : Prop :=
    match args with
    | [x; PStr needle; PStr num] => n = s_count /\ arg_wf ref dom x /\ parse_dec num <> None
    | [x; PStr needle; PVar w] =>
        n = s_count /\ arg_wf ref dom x /\ In w nums /\ ~ In w dom /\ vtype w = s_NUM
    | _ => False
    end.

  Lemma arg_tree a b x : inv2 a b -> arg_wf ref (keys a) x ->
    exists p s, sub_arg (strip a) x = PTree s /\ subtree ref p = Some s /\
                (forall p', arg_pos ref b x p' <-> p' = p).
  Proof.
    intros Hinv Hwf. destruct x as [v|s0|t]; simpl in Hwf; [|contradiction|].
    - destruct (dict_get a v) as [[p s]|] eqn:Hg; [|apply dict_get_None in Hg; contradiction].
      destruct (inv2_get a b v p s Hinv Hg) as (Hs & Hl & Hb).
      exists p, s. unfold sub_arg. rewrite strip_get, Hg. simpl. repeat split; try assumption.
      + rewrite Hb. intro H. inversion H. reflexivity.
      + intros ->. assumption.
    - subst t. exists [], ref. unfold sub_arg. repeat split; apply (pos_of_at [] ref p' eq_refl).
  Qed.

  Lemma sub_arg_fresh a w : ~ In w (keys a) -> sub_arg (strip a) (PVar w) = PVar w.
  Proof.
    intro H. unfold sub_arg. rewrite strip_get.
    destruct (dict_get a w) as [pt|] eqn:E; [|reflexivity].
    exfalso. apply H. destruct pt as [p s]. apply dict_get_In in E.
    unfold keys. apply in_map_iff. exists (w, (p, s)). auto.
  Qed.

  Lemma sempred_correct2 a b e nums n args : inv2 a b -> nrel nums e b ->
    sempred_wf2 (keys a) nums n args ->
    exists p, sem_action (strip a) n args = Ok p /\ pureb p = true /\
              (pholds e p <-> sempred_sem ref b n args).
  Proof.
    intros Hinv Hnr Hwf. unfold sempred_wf2 in Hwf.
    destruct args as [|x [|y [|z [|w0 r]]]]; try contradiction;
      destruct y as [vy|needle|ty]; try contradiction;
      destruct z as [w|num|tz]; try contradiction.
    - (* count(t, N, n) with a numeric variable *)
      destruct Hwf as (-> & Hx & Hw & Hnd & Hty).
      destruct (arg_tree a b x Hinv Hx) as (p & s & Es & Hs & Hup).
      destruct (Hnr w Hw) as (n0 & Hbw & Hew).
      unfold sem_action. change (str_eqb s_count s_count) with true. cbn [negb map].
      rewrite Es, (sub_arg_fresh a w Hnd). change (sub_arg (strip a) (PStr needle)) with (PStr needle).
      cbv iota. rewrite (closed_subtree ref p s Hclosed Hs), Hty.
      change (str_eqb s_NUM s_NUM) with true. cbn [negb].
      eexists. split; [reflexivity|]. split; [reflexivity|].
      simpl. rewrite Hew, count_nodes_lbl. unfold sempred_sem. split.
      + intro H. apply dec_inj in H. split; [reflexivity|]. exists p, s, n0.
        split; [apply Hup; reflexivity|]. split; [assumption|]. split; [exact Hbw | congruence].
      + intros (_ & p' & s' & k & Hp' & Hs' & Hk & H). apply Hup in Hp'. subst p'.
        rewrite Hs in Hs'. inversion Hs'; subst s'. simpl in Hk. rewrite Hbw in Hk. inversion Hk. congruence.
    - (* count(t, N, "k") *)
      destruct Hwf as (-> & Hx & Hnum).
      destruct (parse_dec num) as [k|] eqn:Ek; [|congruence].
      destruct (arg_tree a b x Hinv Hx) as (p & s & Es & Hs & Hup).
      unfold sem_action. change (str_eqb s_count s_count) with true. cbn [negb map].
      rewrite Es. change (sub_arg (strip a) (PStr needle)) with (PStr needle).
      change (sub_arg (strip a) (PStr num)) with (PStr num). cbv iota.
      assert (Hev : eval_sempred no_reach no_count_open [] s_count [PTree s; PStr needle; PStr num]
                    = Ok (tv_of_bool (N.eqb (N.of_nat (count_lbl needle s)) k))).
      { unfold eval_sempred. change (str_eqb s_count s_count) with true. cbn [negb].
        apply count_eval_closed; [apply (closed_subtree ref p s Hclosed Hs) | exact Ek]. }
      rewrite Hev.
      destruct (of_tv_cases (Ok (tv_of_bool (N.eqb (N.of_nat (count_lbl needle s)) k)))
                  (sempred_sem ref b s_count [x; PStr needle; PStr num])) as (pp & Hp & Hpure & Hiff).
      { apply tv_bool_cases. rewrite N.eqb_eq. unfold sempred_sem. split.
        - intro H. split; [reflexivity|]. exists p, s, k.
          split; [apply Hup; reflexivity|]. split; [assumption|]. split; [exact Ek | assumption].
        - intros (_ & p' & s' & k' & Hp' & Hs' & Hk' & H). apply Hup in Hp'. subst p'.
          rewrite Hs in Hs'. simpl in Hk'. rewrite Ek in Hk'. congruence. }
      exists pp. split; [assumption|]. split; [assumption | apply Hiff].
  Qed.

  (* ---- atoms ---- *)
  Definition atom2_wf (dom nums : list var) (x : atom2) : Prop :=
    match x with
    | A1 a0 => forall v, In v (atom_free a0) -> In v dom \/ (In v nums /\ ~ In v dom)
    | AToInt _ v _ => In v nums /\ ~ In v dom
    end.

  Lemma tenv_num b v n : b v = Some (VNum n) -> tenv ref b v = Some (num_tree n).
  Proof. intro H. unfold tenv. rewrite H. reflexivity. Qed.

  Lemma sterm_sub_sem a b e nums x : inv2 a b -> nrel nums e b ->
    (forall v, In v (sterm_vars x) -> In v (keys a) \/ (In v nums /\ ~ In v (keys a))) ->
    forall u, sterm_den (tenv ref b) x u <-> u = sval e (sterm_sub (strip a) x).
  Proof.
    intros Hinv Hnr Hv u. destruct x as [v|s]; simpl; [|tauto].
    destruct (Hv v (or_introl eq_refl)) as [Hin|[Hin Hnot]].
    - destruct (dict_get a v) as [[p s]|] eqn:Hg; [|apply dict_get_None in Hg; contradiction].
      destruct (inv2_get a b v p s Hinv Hg) as (Hs & Hl & Hb).
      rewrite strip_get, Hg. simpl. unfold tenv. rewrite Hb. simpl. rewrite Hs. split.
      + intros (t & Ht & ->). inversion Ht. reflexivity.
      + intros ->. exists s. auto.
    - apply dict_get_None in Hnot. rewrite strip_get, Hnot. simpl.
      destruct (Hnr v Hin) as (n0 & Hb & He). rewrite (tenv_num b v n0 Hb), He. split.
      + intros (t & Ht & ->). inversion Ht. apply yield_num_tree.
      + intros ->. exists (num_tree n0). split; [reflexivity | symmetry; apply yield_num_tree].
  Qed.

  Lemma atom2_correct a b e nums x : inv2 a b -> nrel nums e b -> atom2_wf (keys a) nums x ->
    exists y, atom2_sub (strip a) x = Ok y /\ (patom e y <-> atom2_denote x (tenv ref b)).
  Proof.
    intros Hinv Hnr Hwf. destruct x as [a0|op v k]; simpl in Hwf.
    - assert (Hopen : existsb (fun v => match dict_get (strip a) v with Some t => is_openT t | None => false end)
                              (atom_free a0) = false).
      { destruct (existsb _ (atom_free a0)) eqn:E; [|reflexivity]. exfalso.
        apply existsb_exists in E as (v & _ & Hv). rewrite strip_get in Hv.
        destruct (dict_get a v) as [[p s]|] eqn:Hg; [|discriminate]. simpl in Hv.
        destruct (inv2_get a b v p s Hinv Hg) as (Hs & _ & _).
        rewrite (closed_subtree ref p s Hclosed Hs) in Hv. discriminate. }
      unfold atom2_sub. rewrite Hopen.
      set (y := match a0 with
                | AStr neg s u => AStr neg (sterm_sub (strip a) s) (sterm_sub (strip a) u)
                | ALen op s n => ALen op (sterm_sub (strip a) s) n
                | ABool bb => ABool bb
                end).
      assert (Hy : patom e (A1 y) <-> atom_denote a0 (tenv ref b)).
      { unfold y. destruct a0 as [neg s t|op s n|bb]; simpl.
        - assert (Hs : forall v, In v (sterm_vars s) -> In v (keys a) \/ (In v nums /\ ~ In v (keys a))).
          { intros v Hv. apply Hwf. simpl. apply nodup_vars_In. apply in_or_app. auto. }
          assert (Ht : forall v, In v (sterm_vars t) -> In v (keys a) \/ (In v nums /\ ~ In v (keys a))).
          { intros v Hv. apply Hwf. simpl. apply nodup_vars_In. apply in_or_app. auto. }
          split.
          + intro H. exists (sval e (sterm_sub (strip a) s)), (sval e (sterm_sub (strip a) t)).
            split; [apply (sterm_sub_sem a b e nums s Hinv Hnr Hs); reflexivity|].
            split; [apply (sterm_sub_sem a b e nums t Hinv Hnr Ht); reflexivity | exact H].
          + intros (u & w & Hu & Hw & H).
            apply (sterm_sub_sem a b e nums s Hinv Hnr Hs) in Hu.
            apply (sterm_sub_sem a b e nums t Hinv Hnr Ht) in Hw. subst. exact H.
        - assert (Hs : forall v, In v (sterm_vars s) -> In v (keys a) \/ (In v nums /\ ~ In v (keys a))).
          { intros v Hv. apply Hwf. simpl. assumption. }
          split.
          + intro H. exists (sval e (sterm_sub (strip a) s)).
            split; [apply (sterm_sub_sem a b e nums s Hinv Hnr Hs); reflexivity | exact H].
          + intros (u & Hu & H). apply (sterm_sub_sem a b e nums s Hinv Hnr Hs) in Hu. subst. exact H.
        - tauto. }
      destruct (existsb (fun v => dict_mem (strip a) v) (atom_free a0) && is_nil (atom_free y)) eqn:Ec.
      + apply andb_true_iff in Ec as [_ Hnil]. rewrite (atom_eval_ground e y Hnil).
        destruct (patomb e (A1 y)) eqn:Ep; simpl.
        * exists (A1 (ABool true)). split; [reflexivity|]. simpl. rewrite <- Hy, <- patomb_spec, Ep. tauto.
        * exists (A1 (ABool false)). split; [reflexivity|]. simpl. rewrite <- Hy, <- patomb_spec, Ep. tauto.
      + exists (A1 y). split; [reflexivity | exact Hy].
    - destruct Hwf as [Hin Hnot]. unfold atom2_sub. rewrite strip_mem.
      assert (Hm : dict_mem a v = false).
      { destruct (dict_mem a v) eqn:E; [|reflexivity]. apply dict_mem_In in E. contradiction. }
      rewrite Hm. exists (AToInt op v k). split; [reflexivity|]. simpl.
      destruct (Hnr v Hin) as (n0 & Hb & He). rewrite He. split.
      + intro H. exists (num_tree n0). split; [apply tenv_num; assumption|]. rewrite yield_num_tree. exact H.
      + intros (t & Ht & H). rewrite (tenv_num b v n0 Hb) in Ht. inversion Ht; subst t.
        rewrite yield_num_tree in H. exact H.
  Qed.
  (* ---- the guard [pins] does what it says ---- *)
  Lemma dict_mem_get_none {B} (d : list (var * B)) v : dict_mem d v = false -> dict_get d v = None.
  Proof. unfold dict_mem. destruct (dict_get d v); [discriminate | reflexivity]. Qed.

  Lemma ext_single sg w (s : tree) v : dict_mem sg v = false -> var_eqb w v = false ->
    dict_mem (ext sg [(w, s)]) v = false.
  Proof.
    intros Hm Hw. unfold ext. simpl. destruct (dict_mem sg w); [assumption|].
    unfold dict_mem. simpl. rewrite Hw. apply dict_mem_get_none in Hm. rewrite Hm. reflexivity.
  Qed.

  Lemma pins_atom v x sg y e : dict_mem sg v = false -> atom2_sub sg x = Ok y ->
    (forall n, e v <> dec n) ->
    (pins true v (FSmt x) = true -> ~ patom e y) /\ (pins false v (FSmt x) = true -> patom e y).
  Proof.
    intros Hm Hy Hnn.
    destruct x as [[neg [w|s0] [w'|s]|op s n|bb]|op w k]; simpl; try (split; discriminate).
    assert (Hgen : forall pol, var_eqb w v && is_canon s && Bool.eqb neg (negb pol) = true ->
                     y = A1 (AStr neg (SVar v) (SLit s)) /\ (exists n, s = dec n) /\ neg = negb pol).
    { intros pol H. apply andb_true_iff in H as [H H3]. apply andb_true_iff in H as [H1 H2].
      apply var_eqb_eq in H1. subst w. apply is_canon_true in H2. apply eqb_prop in H3.
      split; [|split; assumption].
      pose proof (dict_mem_get_none _ _ Hm) as Hg.
      unfold atom2_sub in Hy. simpl in Hy. rewrite Hg in Hy. simpl in Hy.
      unfold dict_mem in Hy. rewrite Hg in Hy. simpl in Hy. inversion Hy. reflexivity. }
    split; intro H.
    - destruct (Hgen true H) as (-> & (n & ->) & ->). simpl. apply Hnn.
    - destruct (Hgen false H) as (-> & (n & ->) & ->). simpl. apply Hnn.
  Qed.

  Lemma F2_Forall {B C} (R : B -> C -> Prop) (P : C -> Prop) l l' :
    Forall2 R l l' -> (forall x y, In x l -> R x y -> P y) -> Forall P l'.
  Proof.
    intros H HR. induction H as [|x y l l' Hxy H IH]; constructor.
    - apply (HR x y); [left; reflexivity | assumption].
    - apply IH. intros x' y' Hin. apply HR. right. assumption.
  Qed.

  Lemma F2_not_Exists {B C} (R : B -> C -> Prop) (P : C -> Prop) l l' :
    Forall2 R l l' -> (forall x y, In x l -> R x y -> ~ P y) -> ~ Exists P l'.
  Proof.
    intros H HR. induction H as [|x y l l' Hxy H IH]; intro HE; inversion HE; subst.
    - apply (HR x y (or_introl eq_refl) Hxy). assumption.
    - apply IH; [|assumption]. intros x' y' Hin. apply HR. right. assumption.
  Qed.

  Lemma F2_existsb_Exists {B C} (R : B -> C -> Prop) (g : B -> bool) (P : C -> Prop) l l' :
    Forall2 R l l' -> existsb g l = true -> (forall x y, In x l -> R x y -> g x = true -> P y) -> Exists P l'.
  Proof.
    intros H Hg HR. induction H as [|x y l l' Hxy H IH]; [discriminate|]. simpl in Hg.
    apply orb_true_iff in Hg as [Hg|Hg].
    - apply Exists_cons_hd. apply (HR x y (or_introl eq_refl) Hxy Hg).
    - apply Exists_cons_tl. apply IH; [assumption|]. intros x' y' Hin. apply HR. right. assumption.
  Qed.

  Lemma F2_forallb_Forall {B C} (R : B -> C -> Prop) (g : B -> bool) (P : C -> Prop) l l' :
    Forall2 R l l' -> forallb g l = true -> (forall x y, In x l -> R x y -> g x = true -> P y) -> Forall P l'.
  Proof.
    intros H Hg HR. induction H as [|x y l l' Hxy H IH]; [constructor|]. simpl in Hg.
    apply andb_true_iff in Hg as [Hg1 Hg2]. constructor.
    - apply (HR x y (or_introl eq_refl) Hxy Hg1).
    - apply IH; [assumption|]. intros x' y' Hin. apply HR. right. assumption.
  Qed.

  Lemma pins_sound v f : forall sg p e, dict_mem sg v = false -> elim ref f sg = Ok p ->
    (forall n, e v <> dec n) ->
    (pins true v f = true -> ~ pholds e p) /\ (pins false v f = true -> pholds e p).
  Proof.
    induction f as [x|n args|n args|g IH|fs IH|fs IH|w i m body IH|w i m body IH|w body IH|w body IH]
      using formula_ind'; intros sg p e Hm He Hnn.
    - cbn [elim] in He. destruct (atom2_sub sg x) as [y|ex] eqn:Ey; [|discriminate]. inversion He; subst p.
      apply (pins_atom v x sg y e Hm Ey Hnn).
    - simpl. split; discriminate.
    - split; [|simpl; discriminate]. intro Hp. cbn [pins] in Hp. simpl in Hp.
      destruct args as [|x0 [|[vy|nd|ty] [|[w|?|?] [|? ?]]]]; try discriminate.
      apply var_eqb_eq in Hp. subst w.
      cbn [elim] in He. unfold sem_action in He.
      destruct (negb (str_eqb n s_count)); [discriminate|]. cbn [map] in He.
      assert (Hv : sub_arg sg (PVar v) = PVar v).
      { unfold sub_arg. rewrite (dict_mem_get_none _ _ Hm). reflexivity. }
      rewrite Hv in He. change (sub_arg sg (PStr nd)) with (PStr nd) in He.
      destruct (sub_arg sg x0) as [?|?|t]; try discriminate.
      destruct (is_openT t); [discriminate|].
      destruct (negb (str_eqb (vtype v) s_NUM)); [discriminate|]. inversion He; subst p.
      simpl. apply Hnn.
    - cbn [elim] in He. destruct (elim ref g sg) as [g'|ex] eqn:Eg; [|discriminate]. inversion He; subst p.
      destruct (IH sg g' e Hm Eg Hnn) as [HT HF]. simpl. split; intro Hp.
      + intro H. apply H. apply HF. assumption.
      + apply HT. assumption.
    - cbn [elim] in He. destruct (mapM (fun g => elim ref g sg) fs) as [l|ex] eqn:El; [|discriminate].
      inversion He; subst p. apply mapM2_inv in El. cbn [pins]. rewrite pholds_and.
      rewrite Forall_forall in IH. split; intro H.
      + intro HF.
        assert (HE : Exists (fun y => ~ pholds e y) l).
        { apply (F2_existsb_Exists _ _ _ _ _ El H). intros x y Hin Hxy Hx.
          apply (proj1 (IH x Hin sg y e Hm Hxy Hnn) Hx). }
        apply Exists_exists in HE as (y & Hy & Hny). apply Hny.
        rewrite Forall_forall in HF. apply HF. assumption.
      + apply (F2_forallb_Forall _ _ _ _ _ El H). intros x y Hin Hxy Hx.
        apply (proj2 (IH x Hin sg y e Hm Hxy Hnn) Hx).
    - cbn [elim] in He. destruct (mapM (fun g => elim ref g sg) fs) as [l|ex] eqn:El; [|discriminate].
      inversion He; subst p. apply mapM2_inv in El. cbn [pins]. rewrite pholds_or.
      rewrite Forall_forall in IH. split; intro H.
      + intro HE.
        assert (HF : Forall (fun y => ~ pholds e y) l).
        { apply (F2_forallb_Forall _ _ _ _ _ El H). intros x y Hin Hxy Hx.
          apply (proj1 (IH x Hin sg y e Hm Hxy Hnn) Hx). }
        apply Exists_exists in HE as (y & Hy & Hhy). rewrite Forall_forall in HF. apply (HF y Hy Hhy).
      + apply (F2_existsb_Exists _ _ _ _ _ El H). intros x y Hin Hxy Hx.
        apply (proj2 (IH x Hin sg y e Hm Hxy Hnn) Hx).
    - destruct m as [me|]; [simpl; split; discriminate|].
      split; [simpl; discriminate|]. intro Hp. cbn [pins negb andb] in Hp.
      apply andb_true_iff in Hp as [Hw Hb]. apply negb_true_iff in Hw.
      cbn [elim] in He. destruct (resolve_in sg i) as [t|ex]; [|discriminate].
      destruct (is_openT t); [discriminate|]. cbn [q_matches] in He. rewrite mapM_map in He.
      destruct (mapM _ _) as [l|ex] eqn:El in He; [|discriminate]. apply mapM2_inv in El.
      assert (Hall : Forall (pholds e) l).
      { apply (F2_Forall _ _ _ _ El). intros ps y _ Hy. cbn [snd] in Hy.
        apply (proj2 (IH _ y e (ext_single sg w (snd ps) v Hm Hw) Hy Hnn) Hb). }
      destruct l as [|y0 l]; inversion He; subst p; [simpl; reflexivity | apply pholds_and; assumption].
    - destruct m as [me|]; [simpl; split; discriminate|].
      split; [|simpl; discriminate]. intro Hp. cbn [pins andb] in Hp.
      apply andb_true_iff in Hp as [Hw Hb]. apply negb_true_iff in Hw.
      cbn [elim] in He. destruct (resolve_in sg i) as [t|ex]; [|discriminate].
      destruct (is_openT t); [discriminate|]. cbn [q_matches] in He. rewrite mapM_map in He.
      destruct (mapM _ _) as [l|ex] eqn:El in He; [|discriminate]. apply mapM2_inv in El.
      assert (Hnone : ~ Exists (pholds e) l).
      { apply (F2_not_Exists _ _ _ _ El). intros ps y _ Hy. cbn [snd] in Hy.
        apply (proj1 (IH _ y e (ext_single sg w (snd ps) v Hm Hw) Hy Hnn) Hb). }
      destruct l as [|y0 l]; inversion He; subst p; [simpl; discriminate | rewrite pholds_or; assumption].
    - cbn [elim] in He. destruct (dict_mem sg w); [discriminate|].
      destruct (elim ref body sg) as [b'|ex] eqn:Eb; [|discriminate]. inversion He; subst p.
      cbn [pins]. split; intro Hp; apply andb_true_iff in Hp as [Hw Hb]; apply negb_true_iff in Hw;
        rewrite var_eqb_sym in Hw.
      + intro H. simpl in H.
        refine (proj1 (IH sg b' (pupd e w []) Hm Eb _) Hb (H [])).
        intro n. rewrite (pupd_other e w [] v Hw). apply Hnn.
      + simpl. intro s0. refine (proj2 (IH sg b' (pupd e w s0) Hm Eb _) Hb).
        intro n. rewrite (pupd_other e w s0 v Hw). apply Hnn.
    - cbn [elim] in He. destruct (dict_mem sg w); [discriminate|].
      destruct (elim ref body sg) as [b'|ex] eqn:Eb; [|discriminate]. inversion He; subst p.
      cbn [pins]. split; intro Hp; apply andb_true_iff in Hp as [Hw Hb]; apply negb_true_iff in Hw;
        rewrite var_eqb_sym in Hw.
      + intros (s0 & H).
        refine (proj1 (IH sg b' (pupd e w s0) Hm Eb _) Hb H).
        intro n. rewrite (pupd_other e w s0 v Hw). apply Hnn.
      + simpl. exists []. refine (proj2 (IH sg b' (pupd e w []) Hm Eb _) Hb).
        intro n. rewrite (pupd_other e w [] v Hw). apply Hnn.
  Qed.

  (* ---- the fragment ---- *)
  Fixpoint wf2 (dom nums : list var) (f : formula atom2) {struct f} : Prop :=
    match f with
    | FSmt x => atom2_wf dom nums x
    | FSPred n args => spred_wf ref dom n args
    | FSemPred n args => sempred_wf2 dom nums n args
    | FNot g => wf2 dom nums g
    | FAnd fs | FOr fs =>
        (fix all (l : list (formula atom2)) : Prop :=
           match l with [] => True | x :: l' => wf2 dom nums x /\ all l' end) fs
    | FForall v i m body | FExists v i m body =>
        m = None /\ in_wf ref dom i /\ fresh_name v (dom ++ nums) /\ wf2 (v :: dom) nums body
    | FForallInt v body =>
        fresh_name v (dom ++ nums) /\ pins false v body = true /\ wf2 dom (v :: nums) body
    | FExistsInt v body =>
        fresh_name v (dom ++ nums) /\ pins true v body = true /\ wf2 dom (v :: nums) body
    end.

  Lemma wf2_all dom nums fs g :
    (fix all (l : list (formula atom2)) : Prop :=
       match l with [] => True | x :: l' => wf2 dom nums x /\ all l' end) fs ->
    In g fs -> wf2 dom nums g.
  Proof.
    induction fs as [|x fs IHfs]; [contradiction|]. intros [Hx Hr] [->|Hin]; auto.
  Qed.

  Lemma fresh_not_in v l : fresh_name v l -> ~ In v l.
  Proof. intros H Hin. apply (H v Hin). reflexivity. Qed.

  Lemma fresh_app v l1 l2 : fresh_name v (l1 ++ l2) -> fresh_name v l1 /\ fresh_name v l2.
  Proof. intro H. split; intros w Hw; apply H; apply in_or_app; auto. Qed.

  Lemma not_in_mem a v : ~ In v (keys a) -> dict_mem (strip a) v = false.
  Proof.
    intro H. rewrite strip_mem. destruct (dict_mem a v) eqn:E; [|reflexivity].
    apply dict_mem_In in E. contradiction.
  Qed.

  Lemma inv2_extend a b v q s : inv2 a b -> fresh_name v (keys a) ->
    subtree ref q = Some s -> lbl s = vtype v ->
    inv2 ((v, (q, s)) :: a) (upd b v (VPos q)).
  Proof.
    intros (Hn & Hb & Hf) Hfr Hs Hl. split; [|split].
    - simpl. constructor; [|assumption]. intro Hin. apply in_map_iff in Hin as ([w pt] & Hw & Hin).
      simpl in Hw. apply (Hfr w); [|assumption]. apply in_map_iff. exists (w, pt). auto.
    - intros w pt. unfold upd. simpl. rewrite (var_eqb_sym v w).
      destruct (var_eqb w v); [intro H; inversion H; reflexivity | apply Hb].
    - constructor; [simpl; auto | assumption].
  Qed.

  Lemma inv2_num a b v n : inv2 a b -> ~ In v (keys a) -> inv2 a (upd b v (VNum n)).
  Proof.
    intros (Hn & Hb & Hf) Hnot. split; [assumption|]. split; [|assumption].
    intros w pt Hg. unfold upd. destruct (var_eqb w v) eqn:E; [|apply Hb; assumption].
    apply var_eqb_eq in E. subst w. exfalso. apply Hnot. destruct pt as [p s].
    apply dict_get_In in Hg. unfold keys. apply in_map_iff. exists (v, (p, s)). auto.
  Qed.

  Lemma nrel_pos nums e b v q : nrel nums e b -> ~ In v nums -> nrel nums e (upd b v (VPos q)).
  Proof.
    intros H Hnot w Hw. destruct (H w Hw) as (n & Hb & He). exists n. split; [|assumption].
    unfold upd. destruct (var_eqb w v) eqn:E; [|assumption].
    apply var_eqb_eq in E. subst w. contradiction.
  Qed.

  Lemma nrel_num nums e b v n : nrel nums e b -> ~ In v nums ->
    nrel (v :: nums) (pupd e v (dec n)) (upd b v (VNum n)).
  Proof.
    intros H Hnot w [<-|Hw].
    - exists n. unfold upd. rewrite var_eqb_refl, pupd_same. auto.
    - destruct (H w Hw) as (n' & Hb & He). exists n'.
      assert (E : var_eqb w v = false).
      { apply var_eqb_neq. intros ->. contradiction. }
      unfold upd. rewrite E, (pupd_other e v (dec n) w E). auto.
  Qed.

  (* the `in` tree and the quantifier domain: a traversal of the tree itself *)
  Lemma in_resolve2 a b i : inv2 a b -> in_wf ref (keys a) i ->
    exists p0 t, resolve_in (strip a) i = Ok t /\ subtree ref p0 = Some t /\
                 (forall p', in_pos ref b i p' <-> p' = p0).
  Proof.
    intros Hinv Hwf. destruct i as [w|t]; simpl in Hwf.
    - destruct (dict_get a w) as [[p s]|] eqn:Hg; [|apply dict_get_None in Hg; contradiction].
      destruct (inv2_get a b w p s Hinv Hg) as (Hs & _ & Hb).
      exists p, s. simpl. rewrite strip_get, Hg. simpl. split; [reflexivity|]. split; [assumption|].
      intro p'. rewrite Hb. split; [intro H; inversion H; reflexivity | intros ->; reflexivity].
    - subst t. exists [], ref. simpl. split; [reflexivity|]. split; [reflexivity|].
      intro p'. apply (pos_of_at [] ref p' eq_refl).
  Qed.

  Definition qdom (T : str) (t : tree) : list (path * tree) :=
    filter (fun ps : path * tree => str_eqb (lbl (snd ps)) T) (nodes t).

  Lemma qdom_spec b i p0 t T q : subtree ref p0 = Some t -> (forall p', in_pos ref b i p' <-> p' = p0) ->
    (in_dom ref b i T q <-> exists pr s, In (pr, s) (qdom T t) /\ q = p0 ++ pr).
  Proof.
    intros Hp0 Hu. unfold in_dom, qdom. split.
    - intros (p0' & s & Hi & [r Hr] & Hs & Hl). apply Hu in Hi. subst p0' q.
      rewrite subtree_app, Hp0 in Hs. exists r, s. split; [|reflexivity].
      apply filter_In. split; [apply nodes_spec; assumption | simpl; apply str_eqb_eq; assumption].
    - intros (pr & s & Hin & ->). apply filter_In in Hin as [Hin Hl]. simpl in Hl.
      apply str_eqb_eq in Hl. apply nodes_spec in Hin.
      exists p0, s. split; [apply Hu; reflexivity|]. split; [exists pr; reflexivity|].
      split; [rewrite subtree_app, Hp0; assumption | assumption].
  Qed.

  Notation mdl := (models atom2_denote ref).

  (* eliminate_quantifiers + evaluate_predicates_action produce a pure formula that means [models] *)
  Theorem elim_correct f : forall a b e nums, inv2 a b -> nrel nums e b -> wf2 (keys a) nums f ->
    exists p, elim ref f (strip a) = Ok p /\ pureb p = true /\ (pholds e p <-> mdl b f).
  Proof.
    induction f as [x|n args|n args|g IH|fs IH|fs IH|v i m body IH|v i m body IH|v body IH|v body IH]
      using formula_ind'; intros a b e nums Hinv Hnr Hwf; cbn [wf2] in Hwf.
    - destruct (atom2_correct a b e nums x Hinv Hnr Hwf) as (y & Hy & Hiff).
      exists (FSmt y). cbn [elim]. rewrite Hy. split; [reflexivity|]. split; [reflexivity | exact Hiff].
    - cbn [elim]. destruct (of_tv_cases _ _ (spred_correct2 a b n args Hinv Hwf)) as (p & Hp & Hpure & Hiff).
      exists p. split; [assumption|]. split; [assumption | apply Hiff].
    - cbn [elim]. apply (sempred_correct2 a b e nums n args Hinv Hnr Hwf).
    - destruct (IH a b e nums Hinv Hnr Hwf) as (p & Hp & Hpure & Hiff).
      exists (FNot p). cbn [elim]. rewrite Hp. split; [reflexivity|]. split; [assumption|].
      simpl. rewrite Hiff. tauto.
    - rewrite Forall_forall in IH.
      destruct (mapM2_Forall2 (fun g => elim ref g (strip a))
                  (fun g p => pureb p = true /\ (pholds e p <-> mdl b g)) fs) as (l & Hl & HF).
      { intros g Hin. destruct (IH g Hin a b e nums Hinv Hnr (wf2_all _ _ _ _ Hwf Hin)) as (p & Hp & H).
        exists p. auto. }
      exists (FAnd l). cbn [elim]. rewrite Hl. split; [reflexivity|]. split.
      + cbn [pureb]. apply (Forall2_forallb _ _ _ _ HF). intros x y [H _]. exact H.
      + rewrite pholds_and, models_and. apply (Forall2_Forall_iff _ _ _ _ _ HF). intros x y [_ H]. exact H.
    - rewrite Forall_forall in IH.
      destruct (mapM2_Forall2 (fun g => elim ref g (strip a))
                  (fun g p => pureb p = true /\ (pholds e p <-> mdl b g)) fs) as (l & Hl & HF).
      { intros g Hin. destruct (IH g Hin a b e nums Hinv Hnr (wf2_all _ _ _ _ Hwf Hin)) as (p & Hp & H).
        exists p. auto. }
      exists (FOr l). cbn [elim]. rewrite Hl. split; [reflexivity|]. split.
      + cbn [pureb]. apply (Forall2_forallb _ _ _ _ HF). intros x y [H _]. exact H.
      + rewrite pholds_or, models_or. apply (Forall2_Exists_iff _ _ _ _ _ HF). intros x y [_ H]. exact H.
    - destruct Hwf as (-> & Hi & Hfr & Hbody). apply fresh_app in Hfr as [Hfa Hfn].
      destruct (in_resolve2 a b i Hinv Hi) as (p0 & t & Hres & Hp0 & Hu).
      cbn [elim]. rewrite Hres, (closed_subtree ref p0 t Hclosed Hp0). cbn [q_matches]. rewrite mapM_map.
      fold (qdom (vtype v) t).
      destruct (mapM2_Forall2 (fun ps : path * tree => elim ref body (ext (strip a) [(v, snd ps)]))
                  (fun ps p => pureb p = true /\
                               (pholds e p <-> mdl (upd b v (VPos (p0 ++ fst ps))) body))
                  (qdom (vtype v) t)) as (l & Hl & HF).
      { intros [pr s] Hin. unfold qdom in Hin. apply filter_In in Hin as [Hin Hlb]. simpl in Hlb.
        apply str_eqb_eq in Hlb. apply nodes_spec in Hin.
        assert (Hs : subtree ref (p0 ++ pr) = Some s) by (rewrite subtree_app, Hp0; assumption).
        pose proof (inv2_extend a b v (p0 ++ pr) s Hinv Hfa Hs Hlb) as Hinv'.
        pose proof (nrel_pos nums e b v (p0 ++ pr) Hnr (fresh_not_in _ _ Hfn)) as Hnr'.
        destruct (IH _ _ e nums Hinv' Hnr' Hbody) as (p & Hp & H).
        exists p. split; [|exact H]. cbn [snd]. unfold ext. cbn [fold_left fst].
        rewrite (not_in_mem a v (fresh_not_in _ _ Hfa)). exact Hp. }
      rewrite Hl.
      assert (Hsem : Forall (pholds e) l <-> mdl b (FForall v i None body)).
      { rewrite (Forall2_Forall_iff _ _ (fun ps => mdl (upd b v (VPos (p0 ++ fst ps))) body) _ _ HF);
          [|intros x y [_ H]; exact H].
        cbn [models]. rewrite Forall_forall. split.
        - intros H q Hq. apply (qdom_spec b i p0 t (vtype v) q Hp0 Hu) in Hq as (pr & s & Hin & ->).
          apply (H (pr, s) Hin).
        - intros H [pr s] Hin. apply H. apply (qdom_spec b i p0 t (vtype v) _ Hp0 Hu). exists pr, s. auto. }
      assert (Hpure : forallb pureb l = true).
      { apply (Forall2_forallb _ _ _ _ HF). intros x y [H _]. exact H. }
      destruct l as [|y0 l].
      + exists tt2. split; [reflexivity|]. split; [reflexivity|]. rewrite <- Hsem. simpl. split; auto.
      + exists (FAnd (y0 :: l)). split; [reflexivity|]. split; [exact Hpure|]. rewrite pholds_and. exact Hsem.
    - destruct Hwf as (-> & Hi & Hfr & Hbody). apply fresh_app in Hfr as [Hfa Hfn].
      destruct (in_resolve2 a b i Hinv Hi) as (p0 & t & Hres & Hp0 & Hu).
      cbn [elim]. rewrite Hres, (closed_subtree ref p0 t Hclosed Hp0). cbn [q_matches]. rewrite mapM_map.
      fold (qdom (vtype v) t).
      destruct (mapM2_Forall2 (fun ps : path * tree => elim ref body (ext (strip a) [(v, snd ps)]))
                  (fun ps p => pureb p = true /\
                               (pholds e p <-> mdl (upd b v (VPos (p0 ++ fst ps))) body))
                  (qdom (vtype v) t)) as (l & Hl & HF).
      { intros [pr s] Hin. unfold qdom in Hin. apply filter_In in Hin as [Hin Hlb]. simpl in Hlb.
        apply str_eqb_eq in Hlb. apply nodes_spec in Hin.
        assert (Hs : subtree ref (p0 ++ pr) = Some s) by (rewrite subtree_app, Hp0; assumption).
        pose proof (inv2_extend a b v (p0 ++ pr) s Hinv Hfa Hs Hlb) as Hinv'.
        pose proof (nrel_pos nums e b v (p0 ++ pr) Hnr (fresh_not_in _ _ Hfn)) as Hnr'.
        destruct (IH _ _ e nums Hinv' Hnr' Hbody) as (p & Hp & H).
        exists p. split; [|exact H]. cbn [snd]. unfold ext. cbn [fold_left fst].
        rewrite (not_in_mem a v (fresh_not_in _ _ Hfa)). exact Hp. }
      rewrite Hl.
      assert (Hsem : Exists (pholds e) l <-> mdl b (FExists v i None body)).
      { rewrite (Forall2_Exists_iff _ _ (fun ps => mdl (upd b v (VPos (p0 ++ fst ps))) body) _ _ HF);
          [|intros x y [_ H]; exact H].
        cbn [models]. rewrite Exists_exists. split.
        - intros ([pr s] & Hin & H). exists (p0 ++ pr). split; [|exact H].
          apply (qdom_spec b i p0 t (vtype v) _ Hp0 Hu). exists pr, s. auto.
        - intros (q & Hq & H). apply (qdom_spec b i p0 t (vtype v) q Hp0 Hu) in Hq as (pr & s & Hin & ->).
          exists (pr, s). auto. }
      assert (Hpure : forallb pureb l = true).
      { apply (Forall2_forallb _ _ _ _ HF). intros x y [H _]. exact H. }
      destruct l as [|y0 l].
      + exists ff2. split; [reflexivity|]. split; [reflexivity|]. rewrite <- Hsem. simpl. split.
        * discriminate.
        * intro H. inversion H.
      + exists (FOr (y0 :: l)). split; [reflexivity|]. split; [exact Hpure|]. rewrite pholds_or. exact Hsem.
    - destruct Hwf as (Hfr & Hpin & Hbody). apply fresh_app in Hfr as [Hfa Hfn].
      pose proof (fresh_not_in _ _ Hfa) as Hna. pose proof (fresh_not_in _ _ Hfn) as Hnn.
      assert (Hstep : forall n, exists p, elim ref body (strip a) = Ok p /\ pureb p = true /\
                        (pholds (pupd e v (dec n)) p <-> mdl (upd b v (VNum n)) body)).
      { intro n. apply (IH a _ _ (v :: nums)); [apply inv2_num | apply nrel_num |]; assumption. }
      destruct (Hstep 0%N) as (p & Hp & Hpure & _).
      exists (FForallInt v p). cbn [elim]. rewrite (not_in_mem a v Hna), Hp.
      split; [reflexivity|]. split; [exact Hpure|]. simpl. split.
      + intros H n. destruct (Hstep n) as (p' & Hp' & _ & Hiff). rewrite Hp in Hp'. inversion Hp'; subst p'.
        apply Hiff. apply H.
      + intros H s. destruct (is_canon s) eqn:Ec.
        * apply is_canon_true in Ec as (n & ->).
          destruct (Hstep n) as (p' & Hp' & _ & Hiff). rewrite Hp in Hp'. inversion Hp'; subst p'.
          apply Hiff. apply H.
        * refine (proj2 (pins_sound v body (strip a) p (pupd e v s) (not_in_mem a v Hna) Hp _) Hpin).
          intro n. rewrite pupd_same. apply (is_canon_false s Ec).
    - destruct Hwf as (Hfr & Hpin & Hbody). apply fresh_app in Hfr as [Hfa Hfn].
      pose proof (fresh_not_in _ _ Hfa) as Hna. pose proof (fresh_not_in _ _ Hfn) as Hnn.
      assert (Hstep : forall n, exists p, elim ref body (strip a) = Ok p /\ pureb p = true /\
                        (pholds (pupd e v (dec n)) p <-> mdl (upd b v (VNum n)) body)).
      { intro n. apply (IH a _ _ (v :: nums)); [apply inv2_num | apply nrel_num |]; assumption. }
      destruct (Hstep 0%N) as (p & Hp & Hpure & _).
      exists (FExistsInt v p). cbn [elim]. rewrite (not_in_mem a v Hna), Hp.
      split; [reflexivity|]. split; [exact Hpure|]. simpl. split.
      + intros (s & H). destruct (is_canon s) eqn:Ec.
        * apply is_canon_true in Ec as (n & ->). exists n.
          destruct (Hstep n) as (p' & Hp' & _ & Hiff). rewrite Hp in Hp'. inversion Hp'; subst p'.
          apply Hiff. exact H.
        * exfalso.
          refine (proj1 (pins_sound v body (strip a) p (pupd e v s) (not_in_mem a v Hna) Hp _) Hpin H).
          intro n. rewrite pupd_same. apply (is_canon_false s Ec).
      + intros (n & H). exists (dec n).
        destruct (Hstep n) as (p' & Hp' & _ & Hiff). rewrite Hp in Hp'. inversion Hp'; subst p'.
        apply Hiff. exact H.
  Qed.
End S2.

(* ------------------------------------------------------------------ *)
(* the second strategy as a whole                                       *)
(* ------------------------------------------------------------------ *)
Section S2Top.
  (* is_valid(.) on the pure formula: the only external fact *)
  Variable z3_valid : formula atom2 -> res TV.
  Variable ref : tree.
  Hypothesis Hshape : shape_ok ref = true.
  Hypothesis Hclosed : is_openT ref = false.
  Hypothesis Huniq : uniq_ids ref.

  (* "Z3 decides validity of this fragment": an answer is right ... *)
  Definition z3_sound : Prop := forall p, pureb p = true ->
    (z3_valid p = Ok TT -> pvalid p) /\ (z3_valid p = Ok FF -> ~ pvalid p).
  (* ... and there is an answer (no timeout / unknown, no exception) *)
  Definition z3_decides : Prop := forall p, pureb p = true -> z3_valid p = Ok TT \/ z3_valid p = Ok FF.

  Lemma inv2_empty : inv2 ref [] env_empty.
  Proof. split; [constructor|]. split; [intros v pt H; discriminate | constructor]. Qed.

  Notation mdl := (models atom2_denote ref env_empty).

  (* the query that is sent to Z3 is pure and VALID iff the formula holds (specification) *)
  Theorem strategy2_query f : wf2 ref [] [] f ->
    exists p, elim ref f [] = Ok p /\ pureb p = true /\ (pvalid p <-> mdl f) /\
              strategy2_m z3_valid ref f = z3_valid p.
  Proof.
    intro Hwf.
    destruct (elim_correct ref Hshape Hclosed Huniq f [] env_empty (fun _ => []) [] inv2_empty
                (fun v (H : In v []) => match H with end) Hwf) as (p & Hp & Hpure & _).
    exists p. split; [exact Hp|]. split; [exact Hpure|]. split.
    - split.
      + intro Hv.
        destruct (elim_correct ref Hshape Hclosed Huniq f [] env_empty (fun _ => []) [] inv2_empty
                    (fun v (H : In v []) => match H with end) Hwf) as (p' & Hp' & _ & Hiff).
        simpl in Hp, Hp'. rewrite Hp in Hp'. inversion Hp'; subst p'. apply Hiff. apply Hv.
      + intros Hm e.
        destruct (elim_correct ref Hshape Hclosed Huniq f [] env_empty e [] inv2_empty
                    (fun v (H : In v []) => match H with end) Hwf) as (p' & Hp' & _ & Hiff).
        simpl in Hp, Hp'. rewrite Hp in Hp'. inversion Hp'; subst p'. apply Hiff. exact Hm.
    - unfold strategy2_m. rewrite Hclosed. simpl in Hp. rewrite Hp. reflexivity.
  Qed.

  (* soundness of the verdicts under the oracle premise *)
  Theorem strategy2_sound f : z3_sound -> wf2 ref [] [] f ->
    (strategy2_m z3_valid ref f = Ok TT -> mdl f) /\
    (strategy2_m z3_valid ref f = Ok FF -> ~ mdl f).
  Proof.
    intros Hz Hwf. destruct (strategy2_query f Hwf) as (p & _ & Hpure & Hiff & ->).
    destruct (Hz p Hpure) as [H1 H2]. split.
    - intro H. apply Hiff. apply H1. exact H.
    - intros H Hm. apply (H2 H). apply Hiff. exact Hm.
  Qed.

  (* with a deciding oracle: TRUE iff the formula holds, FALSE iff not, never UNKNOWN, no exception *)
  Theorem strategy2_correct f : z3_sound -> z3_decides -> wf2 ref [] [] f ->
    (strategy2_m z3_valid ref f = Ok TT <-> mdl f) /\
    (strategy2_m z3_valid ref f = Ok FF <-> ~ mdl f) /\
    strategy2_m z3_valid ref f <> Ok UU /\ (forall ex, strategy2_m z3_valid ref f <> Raise ex).
  Proof.
    intros Hz Hd Hwf. destruct (strategy2_query f Hwf) as (p & _ & Hpure & Hiff & ->).
    destruct (Hz p Hpure) as [H1 H2]. destruct (Hd p Hpure) as [E|E]; rewrite E.
    - pose proof (proj1 Hiff (H1 E)) as Hm.
      repeat split; try tauto; try discriminate; intros; discriminate.
    - assert (Hm : ~ mdl f) by (intro Hm; apply (H2 E); apply Hiff; exact Hm).
      repeat split; try tauto; try discriminate; intros; discriminate.
  Qed.
End S2Top.

(* evaluate() dispatches to the second strategy exactly when the instantiated formula has a
   numeric quantifier (unfolding of Eval.evaluate for the extended atom family) *)
Lemma m2_evaluate_dispatch z3 T cst f :
  m2_evaluate z3 T cst f =
    match (if existsb (var_eqb cst) (fvars atom2 atom2_free f)
           then inst_const atom2 atom2_inst T cst f else Ok f) with
    | Raise ex => Raise ex
    | Ok f' => if has_numq atom2 f' then strategy2_m z3 T f'
               else eval_legacy atom2 atom2_free (fun _ => false) atom2_eval no_qmm no_reach no_count_open T f' []
    end.
Proof. reflexivity. Qed.
