(* ISLa formula AST (model of the Formula classes of isla/language.py).
   The type of SMT atoms is a parameter: rewrites (C09) treat atoms abstractly, the
   evaluator (C03/C05) instantiates it with the SMT-LIB expression AST.

   Python class                      constructor
   SMTFormula                        FSmt a
   StructuralPredicateFormula        FSPred name args
   SemanticPredicateFormula          FSemPred name args
   NegatedFormula                    FNot f
   ConjunctiveFormula(args...)         FAnd fs      (n-ary, len >= 2 in Python)
   DisjunctiveFormula(args...)         FOr fs       (n-ary, len >= 2 in Python)
   ForallFormula / ExistsFormula     FForall / FExists v in_var mexpr body
   ForallIntFormula/ExistsIntFormula FForallInt / FExistsInt v body                  *)
From ISLA Require Export Tree.

Inductive vkind := VConst | VBound | VDummy.
Record var := MkVar { vk : vkind; vname : str; vtype : str }.

Definition vkind_eqb (a b : vkind) : bool :=
  match a, b with VConst, VConst | VBound, VBound | VDummy, VDummy => true | _, _ => false end.

(* Variable.__eq__: same class, same name, same type *)
Definition var_eqb (a b : var) : bool :=
  vkind_eqb (vk a) (vk b) && str_eqb (vname a) (vname b) && str_eqb (vtype a) (vtype b).

(* predicate arguments: variable, string literal (also numerals), or an instantiated tree *)
Inductive parg := PVar (v : var) | PStr (s : str) | PTree (t : tree).

(* match expression.  me_elems: bound_elements (variables incl. dummies for terminals);
   me_trees: the prefix trees computed by BindExpression.to_tree_prefix together with the
   paths of the bound variables — these are INPUTS of the model (DESIGN.md C03). *)
Record mexpr := MkMexpr {
  me_elems : list var;
  me_trees : list (tree * list (var * path))
}.

(* the `in` part of a quantifier: a variable, or (after instantiation) a tree *)
Inductive invar := InVar (v : var) | InTree (t : tree).

Inductive formula (A : Type) : Type :=
| FSmt (a : A)
| FSPred (name : str) (args : list parg)
| FSemPred (name : str) (args : list parg)
| FNot (f : formula A)
| FAnd (fs : list (formula A))
| FOr (fs : list (formula A))
| FForall (v : var) (i : invar) (m : option mexpr) (body : formula A)
| FExists (v : var) (i : invar) (m : option mexpr) (body : formula A)
| FForallInt (v : var) (body : formula A)
| FExistsInt (v : var) (body : formula A).

Arguments FSmt {A} a.
Arguments FSPred {A} name args.
Arguments FSemPred {A} name args.
Arguments FNot {A} f.
Arguments FAnd {A} fs.
Arguments FOr {A} fs.
Arguments FForall {A} v i m body.
Arguments FExists {A} v i m body.
Arguments FForallInt {A} v body.
Arguments FExistsInt {A} v body.

Section FormulaInd.
  Variable A : Type.
  Variable P : formula A -> Prop.
  Hypothesis HSmt : forall a, P (FSmt a).
  Hypothesis HSPred : forall n args, P (FSPred n args).
  Hypothesis HSemPred : forall n args, P (FSemPred n args).
  Hypothesis HNot : forall f, P f -> P (FNot f).
  Hypothesis HAnd : forall fs, Forall P fs -> P (FAnd fs).
  Hypothesis HOr : forall fs, Forall P fs -> P (FOr fs).
  Hypothesis HForall : forall v i m b, P b -> P (FForall v i m b).
  Hypothesis HExists : forall v i m b, P b -> P (FExists v i m b).
  Hypothesis HForallInt : forall v b, P b -> P (FForallInt v b).
  Hypothesis HExistsInt : forall v b, P b -> P (FExistsInt v b).

  Fixpoint formula_ind' (f : formula A) : P f :=
    let go := fix go (fs : list (formula A)) : Forall P fs :=
                match fs with
                | [] => Forall_nil P
                | x :: fs' => Forall_cons x (formula_ind' x) (go fs')
                end in
    match f with
    | FSmt a => HSmt a
    | FSPred n args => HSPred n args
    | FSemPred n args => HSemPred n args
    | FNot g => HNot g (formula_ind' g)
    | FAnd fs => HAnd fs (go fs)
    | FOr fs => HOr fs (go fs)
    | FForall v i m b => HForall v i m b (formula_ind' b)
    | FExists v i m b => HExists v i m b (formula_ind' b)
    | FForallInt v b => HForallInt v b (formula_ind' b)
    | FExistsInt v b => HExistsInt v b (formula_ind' b)
    end.
End FormulaInd.

Fixpoint fsize {A} (f : formula A) : nat :=
  match f with
  | FSmt _ | FSPred _ _ | FSemPred _ _ => 1
  | FNot g => S (fsize g)
  | FAnd fs | FOr fs => S (list_sum (map fsize fs))
  | FForall _ _ _ b | FExists _ _ _ b | FForallInt _ b | FExistsInt _ b => S (fsize b)
  end.
