(* SPECIFICATION semantics of ISLa formulas, transcribed from /repo/sphinx/islaspec.rst,
   section "Semantics" (atoms, propositional combinators, tree quantifiers without and with
   match expressions, numeric quantifiers) — independent of isla/evaluator.py.

   Conventions
   * The reference tree c (= beta(c) for the global constant) is a Section variable.
     Assignments map variables to POSITIONS (paths) in c — the spec identifies a subtree with
     its occurrence ("derivation trees have unique identifiers", footnote f5) — or, for the
     numeric quantifiers, to free-standing numerals.
   * subtrees(N, t) = the positions q at or below the position of t whose node is labelled N.
   * A formula may contain trees in argument places (the evaluator instantiates the global
     constant by the reference tree before evaluating).  A tree argument denotes the position(s)
     of c holding a node with the same identifier (path(t1,t2) of the spec).
   * SMT atoms are abstract: [adenote a e] with e : var -> option tree  (C05 gives the real one).
   * Structural predicates: the declarative specifications of C04 (PredsFacts.v / PathFacts.v).
   * count: node counting.
   * match(t, t', P): the four-case function of the spec, see [smatch].

   [satb] is an executable decision procedure with the PROVED [satb_spec] for formulas
   without numeric quantifiers; with numeric quantifiers it searches numerals < bound (only for
   failing-input search, never in a theorem). *)
From ISLA Require Export Formula PathFacts TreeFacts Preds PredsFacts IslaNames.
From Coq Require Import Lia.

(* the free-standing tree of a numeral: its string is the numeral *)
Definition num_tree (n : N) : tree := Node (dec n) 0%N false [].

(* ---- assignments ---- *)
Inductive aval := VPos (p : path) | VNum (n : N).
Definition env := var -> option aval.
Definition env_empty : env := fun _ => None.
Definition upd (b : env) (v : var) (x : aval) : env :=
  fun w => if var_eqb w v then Some x else b w.
(* union with the bindings of a match; on a clash the first binding of the list wins *)
Fixpoint upd_pos (b : env) (l : list (var * path)) : env :=
  match l with
  | [] => b
  | (v, p) :: l' => upd (upd_pos b l') v (VPos p)
  end.

(* number of nodes labelled nt in a tree (root included) *)
Fixpoint count_lbl (nt : str) (t : tree) : nat :=
  match t with
  | Node l _ _ ks => (if str_eqb l nt then 1 else 0) + list_sum (map (count_lbl nt) ks)
  end.

(* P_i: keep the paths starting with i, drop that first element *)
Definition restrict (P : list (var * path)) (i : nat) : list (var * path) :=
  flat_map (fun vp => match snd vp with
                      | j :: r => if Nat.eqb j i then [(fst vp, r)] else []
                      | [] => []
                      end) P.

(* match(t, t', P) of the spec; the result binds variables to positions: [here] is the
   position of t in the reference tree.  Cases, first applicable one applies:
     1. bottom      if l(t) <> l(t') or (numc(t') > 0 and numc(t) <> numc(t'))
     2. [v |-> t]   if P = [v |-> ()]
     3. bottom      if some child does not match
     4. union of the children's matches.
   The spec lets i range over 1..numc(t) and uses child(t', i); when numc(t') = 0 (a leaf of
   the match-expression tree that is not bound) t' has no children and the union is empty:
   t' is a PREFIX of t (the prose: "select only those of which some derivation tree for the
   match expression is a prefix"). *)
Fixpoint smatch (t' : tree) : tree -> list (var * path) -> path -> option (list (var * path)) :=
  fun t P here =>
  match t' with
  | Node l' _ _ ks' =>
      if negb (str_eqb (lbl t) l')
         || (negb (Nat.eqb (length ks') 0) && negb (Nat.eqb (length (kids t)) (length ks')))
      then None
      else match P with
           | [(v, [])] => Some [(v, here)]
           | _ =>
             (fix go (ks' ks : list tree) (i : nat) : option (list (var * path)) :=
                match ks', ks with
                | k' :: r', k :: r =>
                    match smatch k' k (restrict P i) (here ++ [i]), go r' r (S i) with
                    | Some a, Some b => Some (a ++ b)
                    | _, _ => None
                    end
                | _, _ => Some []
                end) ks' (kids t) 0
           end
  end.

Section Sem.
  Variable A : Type.
  (* meaning of an SMT-LIB atom under an assignment of trees to its variables *)
  Variable adenote : A -> (var -> option tree) -> Prop.
  (* the reference tree *)
  Variable c : tree.

  Definition tree_of (x : aval) : option tree :=
    match x with VPos p => subtree c p | VNum n => Some (num_tree n) end.
  Definition tenv (b : env) : var -> option tree :=
    fun v => match b v with Some x => tree_of x | None => None end.

  (* path(t, c): a position of c holding a node with t's identifier *)
  Definition pos_of (t : tree) (p : path) : Prop :=
    exists s, subtree c p = Some s /\ tid s = tid t.

  Definition in_pos (b : env) (i : invar) (p0 : path) : Prop :=
    match i with InVar v => b v = Some (VPos p0) | InTree t => pos_of t p0 end.

  (* q in subtrees(T, beta(in)) *)
  Definition in_dom (b : env) (i : invar) (T : str) (q : path) : Prop :=
    exists p0 s, in_pos b i p0 /\ prefix p0 q /\ subtree c q = Some s /\ lbl s = T.

  Definition arg_pos (b : env) (a : parg) (p : path) : Prop :=
    match a with
    | PVar v => b v = Some (VPos p)
    | PTree t => pos_of t p
    | PStr _ => False
    end.

  (* binary predicates on positions: the declarative definitions of C04 *)
  Definition path2 (name : str) (p q : path) : Prop :=
    (name = s_before /\ doc_lt p q) \/
    (name = s_after /\ doc_lt q p) \/
    (name = s_inside /\ prefix q p) \/
    (name = s_same_position /\ p = q) \/
    (name = s_different_position /\ p <> q) \/
    (name = s_direct_child /\ exists i, p = q ++ [i]) \/
    (name = s_consecutive /\ consecutive_spec c p q).

  Definition spred_sem (b : env) (name : str) (args : list parg) : Prop :=
    match args with
    | [a1; a2] => exists p q, arg_pos b a1 p /\ arg_pos b a2 q /\ path2 name p q
    | [a0; a1; a2] =>
        match a0 with
        | PStr n => name = s_nth /\ exists k p q, parse_dec n = Some k /\
                      arg_pos b a1 p /\ arg_pos b a2 q /\ nth_spec c (N.to_nat k) p q
        | _ => False
        end
    | [a0; a0'; a1; a2] =>
        match a0, a0' with
        | PStr op, PStr nt => name = s_level /\ exists o p q, lvl_of_str op = Some o /\
                      arg_pos b a1 p /\ arg_pos b a2 q /\ level_spec c o nt p q
        | _, _ => False
        end
    | _ => False
    end.

  (* the number denoted by the NUM argument of count *)
  Definition num_val (b : env) (a : parg) (k : N) : Prop :=
    match a with
    | PStr s => parse_dec s = Some k
    | PVar v => b v = Some (VNum k)
    | PTree t => parse_dec (lbl t) = Some k
    end.

  Definition sempred_sem (b : env) (name : str) (args : list parg) : Prop :=
    match args with
    | [a1; a2; a3] =>
        match a2 with
        | PStr needle => name = s_count /\ exists p s k, arg_pos b a1 p /\ subtree c p = Some s /\
                           num_val b a3 k /\ N.of_nat (count_lbl needle s) = k
        | _ => False
        end
    | _ => False
    end.

  (* beta |= phi *)
  Fixpoint models (b : env) (f : formula A) {struct f} : Prop :=
    match f with
    | FSmt a => adenote a (tenv b)
    | FSPred n args => spred_sem b n args
    | FSemPred n args => sempred_sem b n args
    | FNot g => ~ models b g
    | FAnd fs => (fix all (l : list (formula A)) : Prop :=
                    match l with [] => True | x :: l' => models b x /\ all l' end) fs
    | FOr fs => (fix any (l : list (formula A)) : Prop :=
                   match l with [] => False | x :: l' => models b x \/ any l' end) fs
    | FForall v i m body =>
        match m with
        | None => forall q, in_dom b i (vtype v) q -> models (upd b v (VPos q)) body
        | Some me =>
            forall q s t2 P bs, in_dom b i (vtype v) q -> subtree c q = Some s ->
              In (t2, P) (me_trees me) -> smatch t2 s P q = Some bs ->
              models (upd_pos (upd b v (VPos q)) bs) body
        end
    | FExists v i m body =>
        match m with
        | None => exists q, in_dom b i (vtype v) q /\ models (upd b v (VPos q)) body
        | Some me =>
            exists q s t2 P bs, in_dom b i (vtype v) q /\ subtree c q = Some s /\
              In (t2, P) (me_trees me) /\ smatch t2 s P q = Some bs /\
              models (upd_pos (upd b v (VPos q)) bs) body
        end
    | FForallInt v body => forall n : N, models (upd b v (VNum n)) body
    | FExistsInt v body => exists n : N, models (upd b v (VNum n)) body
    end.

  (* t |= phi  for the global constant cst:  [cst |-> t] |= phi *)
  Definition sat (cst : var) (f : formula A) : Prop := models (upd env_empty cst (VPos [])) f.

  (* ------------------------------------------------------------------ *)
  (* executable counterpart                                              *)
  (* ------------------------------------------------------------------ *)
  Variable adec : A -> (var -> option tree) -> bool.

  Definition ids_pos (t : tree) : list path :=
    map fst (filter (fun qs => N.eqb (tid (snd qs)) (tid t)) (nodes c)).

  Definition in_cands (b : env) (i : invar) : list path :=
    match i with
    | InVar v => match b v with Some (VPos p) => [p] | _ => [] end
    | InTree t => ids_pos t
    end.

  Definition dom_list (b : env) (i : invar) (T : str) : list (path * tree) :=
    filter (fun qs => existsb (fun p0 => prefixb p0 (fst qs)) (in_cands b i)
                      && str_eqb (lbl (snd qs)) T) (nodes c).

  Definition arg_cands (b : env) (a : parg) : list path :=
    match a with
    | PVar v => match b v with Some (VPos p) => [p] | _ => [] end
    | PTree t => ids_pos t
    | PStr _ => []
    end.

  Definition consecb (p q : path) : bool :=
    doc_ltb p q &&
    forallb (fun ls => negb (is_leaf (snd ls) && doc_ltb p (fst ls) && doc_ltb (fst ls) q)) (nodes c).

  Definition pre_leb (q p : path) : bool := prefixb q p || doc_ltb q p.

  Definition nthb (n : nat) (p1 p2 : path) : bool :=
    prefixb p2 p1 &&
    match subtree c p1 with
    | Some s1 => Nat.eqb (length (filter (fun qs => prefixb p2 (fst qs) && pre_leb (fst qs) p1
                                                     && str_eqb (lbl (snd qs)) (lbl s1)) (nodes c))) n
    | None => false
    end.

  Definition path2b (name : str) (p q : path) : bool :=
    (str_eqb name s_before && is_before p q) ||
    (str_eqb name s_after && is_after p q) ||
    (str_eqb name s_inside && in_tree p q) ||
    (str_eqb name s_same_position && is_same_position p q) ||
    (str_eqb name s_different_position && is_different_position p q) ||
    (str_eqb name s_direct_child && is_direct_child p q) ||
    (str_eqb name s_consecutive && consecb p q).

  Definition ex2 (b : env) (a1 a2 : parg) (f : path -> path -> bool) : bool :=
    existsb (fun p => existsb (fun q => f p q) (arg_cands b a2)) (arg_cands b a1).

  Definition spredb (b : env) (name : str) (args : list parg) : bool :=
    match args with
    | [a1; a2] => ex2 b a1 a2 (path2b name)
    | [a0; a1; a2] =>
        match a0 with
        | PStr n => str_eqb name s_nth &&
                    match parse_dec n with
                    | Some k => ex2 b a1 a2 (nthb (N.to_nat k))
                    | None => false
                    end
        | _ => false
        end
    | [a0; a0'; a1; a2] =>
        match a0, a0' with
        | PStr op, PStr nt => str_eqb name s_level &&
                    match lvl_of_str op with
                    | Some o => ex2 b a1 a2 (level_check c o nt)
                    | None => false
                    end
        | _, _ => false
        end
    | _ => false
    end.

  Definition num_valb (b : env) (a : parg) : option N :=
    match a with
    | PStr s => parse_dec s
    | PVar v => match b v with Some (VNum k) => Some k | _ => None end
    | PTree t => parse_dec (lbl t)
    end.

  Definition sempredb (b : env) (name : str) (args : list parg) : bool :=
    match args with
    | [a1; a2; a3] =>
        match a2 with
        | PStr needle => str_eqb name s_count &&
            match num_valb b a3 with
            | Some k => existsb (fun p => match subtree c p with
                                          | Some s => N.eqb (N.of_nat (count_lbl needle s)) k
                                          | None => false
                                          end) (arg_cands b a1)
            | None => false
            end
        | _ => false
        end
    | _ => false
    end.

  (* numerals 0 .. n-1 *)
  Definition nums (n : nat) : list N := map N.of_nat (seq 0 n).

  Fixpoint satb (bound : nat) (b : env) (f : formula A) {struct f} : bool :=
    match f with
    | FSmt a => adec a (tenv b)
    | FSPred n args => spredb b n args
    | FSemPred n args => sempredb b n args
    | FNot g => negb (satb bound b g)
    | FAnd fs => (fix all (l : list (formula A)) : bool :=
                    match l with [] => true | x :: l' => satb bound b x && all l' end) fs
    | FOr fs => (fix any (l : list (formula A)) : bool :=
                   match l with [] => false | x :: l' => satb bound b x || any l' end) fs
    | FForall v i m body =>
        match m with
        | None => forallb (fun qs => satb bound (upd b v (VPos (fst qs))) body) (dom_list b i (vtype v))
        | Some me =>
            forallb (fun qs =>
              forallb (fun tp => match smatch (fst tp) (snd qs) (snd tp) (fst qs) with
                                 | Some bs => satb bound (upd_pos (upd b v (VPos (fst qs))) bs) body
                                 | None => true
                                 end) (me_trees me)) (dom_list b i (vtype v))
        end
    | FExists v i m body =>
        match m with
        | None => existsb (fun qs => satb bound (upd b v (VPos (fst qs))) body) (dom_list b i (vtype v))
        | Some me =>
            existsb (fun qs =>
              existsb (fun tp => match smatch (fst tp) (snd qs) (snd tp) (fst qs) with
                                 | Some bs => satb bound (upd_pos (upd b v (VPos (fst qs))) bs) body
                                 | None => false
                                 end) (me_trees me)) (dom_list b i (vtype v))
        end
    | FForallInt v body => forallb (fun n => satb bound (upd b v (VNum n)) body) (nums bound)
    | FExistsInt v body => existsb (fun n => satb bound (upd b v (VNum n)) body) (nums bound)
    end.

  Fixpoint no_numq (f : formula A) : bool :=
    match f with
    | FSmt _ | FSPred _ _ | FSemPred _ _ => true
    | FNot g => no_numq g
    | FAnd fs | FOr fs => forallb no_numq fs
    | FForall _ _ _ b | FExists _ _ _ b => no_numq b
    | FForallInt _ _ | FExistsInt _ _ => false
    end.

  (* ------------------------------------------------------------------ *)
  (* proofs: satb decides models                                         *)
  (* ------------------------------------------------------------------ *)

  Lemma ids_pos_spec t p : In p (ids_pos t) <-> pos_of t p.
  Proof.
    unfold ids_pos, pos_of. rewrite in_map_iff. split.
    - intros ([q s] & Hq & Hin). simpl in Hq. subst q. apply filter_In in Hin as [Hin He].
      simpl in He. apply N.eqb_eq in He. apply nodes_spec in Hin. exists s. auto.
    - intros (s & Hs & Hid). exists (p, s). split; [reflexivity|]. apply filter_In. split.
      + apply nodes_spec. assumption.
      + simpl. apply N.eqb_eq. assumption.
  Qed.

  Lemma in_cands_spec b i p : In p (in_cands b i) <-> in_pos b i p.
  Proof.
    destruct i as [v|t]; simpl.
    - destruct (b v) as [[q|n]|]; simpl; split; intro H; try contradiction; try discriminate.
      + destruct H as [->|[]]. reflexivity.
      + inversion H. left. reflexivity.
    - apply ids_pos_spec.
  Qed.

  Lemma arg_cands_spec b a p : In p (arg_cands b a) <-> arg_pos b a p.
  Proof.
    destruct a as [v|s|t]; simpl.
    - destruct (b v) as [[q|n]|]; simpl; split; intro H; try contradiction; try discriminate.
      + destruct H as [->|[]]. reflexivity.
      + inversion H. left. reflexivity.
    - tauto.
    - apply ids_pos_spec.
  Qed.

  Lemma dom_list_spec b i T q s :
    In (q, s) (dom_list b i T) <-> in_dom b i T q /\ subtree c q = Some s.
  Proof.
    unfold dom_list, in_dom. rewrite filter_In, nodes_spec. simpl. rewrite andb_true_iff, existsb_exists.
    split.
    - intros (Hs & (p0 & Hin & Hp) & Hl). split; [|assumption].
      exists p0, s. apply in_cands_spec in Hin. apply prefixb_spec in Hp. apply str_eqb_eq in Hl. auto.
    - intros ((p0 & s' & Hin & Hp & Hs' & Hl) & Hs). rewrite Hs in Hs'. inversion Hs'; subst s'.
      split; [assumption|]. split.
      + exists p0. split; [apply in_cands_spec; assumption | apply prefixb_spec; assumption].
      + apply str_eqb_eq. assumption.
  Qed.

  Lemma ex2_spec b a1 a2 f (R : path -> path -> Prop) :
    (forall p q, f p q = true <-> R p q) ->
    (ex2 b a1 a2 f = true <-> exists p q, arg_pos b a1 p /\ arg_pos b a2 q /\ R p q).
  Proof.
    intro Hf. unfold ex2. rewrite existsb_exists. split.
    - intros (p & Hp & H). apply existsb_exists in H as (q & Hq & H).
      exists p, q. rewrite <- !arg_cands_spec, <- Hf. auto.
    - intros (p & q & Hp & Hq & H). exists p. split; [apply arg_cands_spec; assumption|].
      apply existsb_exists. exists q. split; [apply arg_cands_spec; assumption | apply Hf; assumption].
  Qed.

  Lemma is_leaf_spec s : is_leaf s = true <-> kids s = [].
  Proof. unfold is_leaf. destruct (kids s); split; intro H; congruence. Qed.

  Lemma consecb_spec p q : consecb p q = true <-> consecutive_spec c p q.
  Proof.
    unfold consecb, consecutive_spec. rewrite andb_true_iff, doc_ltb_spec, forallb_forall. split.
    - intros [Hlt Hall]. split; [assumption|]. intros l s Hs Hk [H1 H2].
      specialize (Hall (l, s)). simpl in Hall.
      specialize (Hall (proj2 (nodes_spec c l s) Hs)).
      apply negb_true_iff in Hall.
      rewrite (proj2 (is_leaf_spec s) Hk), (proj2 (doc_ltb_spec p l) H1), (proj2 (doc_ltb_spec l q) H2) in Hall.
      discriminate.
    - intros [Hlt Hall]. split; [assumption|]. intros [l s] Hin. simpl. apply nodes_spec in Hin.
      apply negb_true_iff. destruct (is_leaf s) eqn:El; [|reflexivity].
      destruct (doc_ltb p l) eqn:E1; [|reflexivity]. destruct (doc_ltb l q) eqn:E2; [|reflexivity].
      exfalso. apply (Hall l s Hin).
      + apply is_leaf_spec. assumption.
      + split; apply doc_ltb_spec; assumption.
  Qed.

  Lemma pre_leb_spec q p : pre_leb q p = true <-> pre_le q p.
  Proof.
    unfold pre_leb, pre_le, pre_lt. rewrite orb_true_iff, prefixb_spec, doc_ltb_spec. split.
    - intros [H|H]; [|auto].
      destruct (path_eqb q p) eqn:E; [apply path_eqb_eq in E; auto|].
      apply path_eqb_neq in E. right. left. apply sprefix_iff. auto.
    - intros [->|[H|H]]; [left; apply prefix_refl | left; apply sprefix_prefix; assumption | auto].
  Qed.

  Lemma nthb_spec n p1 p2 : nthb n p1 p2 = true <-> nth_spec c n p1 p2.
  Proof.
    unfold nthb, nth_spec. rewrite andb_true_iff, prefixb_spec.
    set (fl := fun s1 : tree => fun qs : path * tree =>
                 prefixb p2 (fst qs) && pre_leb (fst qs) p1 && str_eqb (lbl (snd qs)) (lbl s1)).
    assert (Hchar : forall s1 q, In q (map fst (filter (fl s1) (nodes c))) <->
              (prefix p2 q /\ pre_le q p1 /\ exists s, subtree c q = Some s /\ lbl s = lbl s1)).
    { intros s1 q. rewrite in_map_iff. split.
      - intros ([q' s] & Hq & Hin). simpl in Hq. subst q'. apply filter_In in Hin as [Hin Hf].
        unfold fl in Hf. simpl in Hf. apply andb_true_iff in Hf as [Hf H3]. apply andb_true_iff in Hf as [H1 H2].
        apply prefixb_spec in H1. apply pre_leb_spec in H2. apply str_eqb_eq in H3. apply nodes_spec in Hin.
        repeat split; try assumption. exists s. auto.
      - intros (H1 & H2 & s & Hs & Hl). exists (q, s). split; [reflexivity|]. apply filter_In. split.
        + apply nodes_spec. assumption.
        + unfold fl. simpl. rewrite (proj2 (prefixb_spec p2 q) H1), (proj2 (pre_leb_spec q p1) H2).
          simpl. apply str_eqb_eq. assumption. }
    assert (Hnd : forall s1, NoDup (map fst (filter (fl s1) (nodes c)))).
    { intro s1. apply NoDup_map_fst_filter. rewrite <- positions_nodes. apply positions_NoDup. }
    split.
    - intros [Hp H]. split; [assumption|]. destruct (subtree c p1) as [s1|] eqn:E1; [|discriminate].
      exists s1. split; [reflexivity|]. exists (map fst (filter (fl s1) (nodes c))).
      split; [apply Hnd|]. split; [|apply Hchar].
      rewrite map_length. apply Nat.eqb_eq. exact H.
    - intros (Hp & s1 & E1 & l & Hndl & Hlen & Hl). split; [assumption|]. rewrite E1.
      apply Nat.eqb_eq. rewrite <- Hlen.
      transitivity (length (map fst (filter (fl s1) (nodes c)))); [rewrite map_length; reflexivity|].
      apply NoDup_same_length; [apply Hnd | assumption|].
      intro q. rewrite Hchar, Hl. tauto.
  Qed.

  Lemma path2b_spec name p q : path2b name p q = true <-> path2 name p q.
  Proof.
    unfold path2b, path2.
    rewrite !orb_true_iff, !andb_true_iff, !str_eqb_eq.
    rewrite before_spec, after_spec, inside_spec, same_spec, diff_spec, child_spec, consecb_spec.
    tauto.
  Qed.

  Lemma spredb_spec b name args : shape_ok c = true ->
    (spredb b name args = true <-> spred_sem b name args).
  Proof.
    intro Hs. unfold spredb, spred_sem.
    destruct args as [|a0 [|a1 [|a2 [|a3 [|a4 r]]]]]; try (split; [discriminate | tauto]).
    - apply ex2_spec. apply path2b_spec.
    - destruct a0 as [v|n|t]; try (split; [discriminate | tauto]).
      rewrite andb_true_iff, str_eqb_eq. split.
      + intros [Hn H]. split; [assumption|]. destruct (parse_dec n) as [k|]; [|discriminate].
        apply (ex2_spec b a1 a2 _ _ (nthb_spec (N.to_nat k))) in H as (p & q & H).
        exists k, p, q. tauto.
      + intros [Hn (k & p & q & Hk & H)]. split; [assumption|]. rewrite Hk.
        apply (ex2_spec b a1 a2 _ _ (nthb_spec (N.to_nat k))). exists p, q. tauto.
    - destruct a0 as [v|op|t]; try (split; [discriminate | tauto]).
      destruct a1 as [v|nt|t]; try (split; [discriminate | tauto]).
      rewrite andb_true_iff, str_eqb_eq. split.
      + intros [Hn H]. split; [assumption|]. destruct (lvl_of_str op) as [o|]; [|discriminate].
        apply (ex2_spec b a2 a3 _ _ (fun p q => level_correct c o nt p q Hs)) in H as (p & q & H).
        exists o, p, q. tauto.
      + intros [Hn (o & p & q & Ho & H)]. split; [assumption|]. rewrite Ho.
        apply (ex2_spec b a2 a3 _ _ (fun p q => level_correct c o nt p q Hs)). exists p, q. tauto.
  Qed.

  Lemma num_valb_spec b a k : num_valb b a = Some k <-> num_val b a k.
  Proof.
    destruct a as [v|s|t]; simpl; try tauto.
    destruct (b v) as [[p|n]|]; split; intro H; try discriminate; congruence.
  Qed.

  Lemma sempredb_spec b name args : sempredb b name args = true <-> sempred_sem b name args.
  Proof.
    unfold sempredb, sempred_sem.
    destruct args as [|a1 [|a2 [|a3 [|a4 r]]]]; try (split; [discriminate | tauto]).
    destruct a2 as [v|needle|t]; try (split; [discriminate | tauto]).
    rewrite andb_true_iff, str_eqb_eq. split.
    - intros [Hn H]. split; [assumption|]. destruct (num_valb b a3) as [k|] eqn:Ek; [|discriminate].
      apply existsb_exists in H as (p & Hp & H). destruct (subtree c p) as [s|] eqn:Es; [|discriminate].
      exists p, s, k. apply arg_cands_spec in Hp. apply num_valb_spec in Ek. apply N.eqb_eq in H. auto.
    - intros [Hn (p & s & k & Hp & Hs & Hk & H)]. split; [assumption|].
      apply num_valb_spec in Hk. rewrite Hk. apply existsb_exists. exists p.
      split; [apply arg_cands_spec; assumption|]. rewrite Hs. apply N.eqb_eq. assumption.
  Qed.

  Hypothesis adec_spec : forall a e, adec a e = true <-> adenote a e.

  Theorem satb_spec bound f : shape_ok c = true -> no_numq f = true ->
    forall b, satb bound b f = true <-> models b f.
  Proof.
    intro Hs. induction f as [a|n args|n args|g IH|fs IH|fs IH|v i m body IH|v i m body IH|v body IH|v body IH]
      using formula_ind'; intros Hq b; simpl in Hq; try discriminate.
    - simpl. apply adec_spec.
    - simpl. apply spredb_spec. assumption.
    - simpl. apply sempredb_spec.
    - simpl. rewrite negb_true_iff. specialize (IH Hq b).
      destruct (satb bound b g); split; intro H; try discriminate; try reflexivity.
      + exfalso. apply H. apply IH. reflexivity.
      + intro Hm. apply IH in Hm. discriminate.
    - simpl. induction IH as [|x l Hx Hl IHl]; [tauto|].
      simpl in Hq. apply andb_true_iff in Hq as [Hq1 Hq2].
      rewrite andb_true_iff, (Hx Hq1 b), (IHl Hq2). tauto.
    - simpl. induction IH as [|x l Hx Hl IHl]; [split; [discriminate | tauto]|].
      simpl in Hq. apply andb_true_iff in Hq as [Hq1 Hq2].
      rewrite orb_true_iff, (Hx Hq1 b), (IHl Hq2). tauto.
    - simpl. destruct m as [me|].
      + rewrite forallb_forall. split.
        * intros H q s t2 P bs Hd Hsub Hin Hm.
          specialize (H (q, s) (proj2 (dom_list_spec b i (vtype v) q s) (conj Hd Hsub))).
          rewrite forallb_forall in H. specialize (H (t2, P) Hin). simpl in H. rewrite Hm in H.
          apply IH; assumption.
        * intros H [q s] Hin. apply dom_list_spec in Hin as [Hd Hsub]. apply forallb_forall.
          intros [t2 P] HinP. simpl. destruct (smatch t2 s P q) as [bs|] eqn:Hm; [|reflexivity].
          apply IH; [assumption|]. eapply H; eassumption.
      + rewrite forallb_forall. split.
        * intros H q Hd. pose proof Hd as (p0 & s & _ & _ & Hsub & _).
          specialize (H (q, s) (proj2 (dom_list_spec b i (vtype v) q s) (conj Hd Hsub))).
          simpl in H. apply IH; assumption.
        * intros H [q s] Hin. apply dom_list_spec in Hin as [Hd Hsub]. simpl.
          apply IH; [assumption|]. apply H. assumption.
    - simpl. destruct m as [me|].
      + rewrite existsb_exists. split.
        * intros ([q s] & Hin & H). apply dom_list_spec in Hin as [Hd Hsub].
          apply existsb_exists in H as ([t2 P] & HinP & H). simpl in H.
          destruct (smatch t2 s P q) as [bs|] eqn:Hm; [|discriminate].
          exists q, s, t2, P, bs. repeat split; try assumption. apply IH; assumption.
        * intros (q & s & t2 & P & bs & Hd & Hsub & HinP & Hm & H).
          exists (q, s). split; [apply dom_list_spec; auto|].
          apply existsb_exists. exists (t2, P). split; [assumption|]. simpl. rewrite Hm.
          apply IH; assumption.
      + rewrite existsb_exists. split.
        * intros ([q s] & Hin & H). apply dom_list_spec in Hin as [Hd Hsub]. simpl in H.
          exists q. split; [assumption|]. apply IH; assumption.
        * intros (q & Hd & H). pose proof Hd as (p0 & s & _ & _ & Hsub & _).
          exists (q, s). split; [apply dom_list_spec; auto|]. simpl. apply IH; assumption.
  Qed.

End Sem.

Arguments models {A} adenote c b f.
Arguments sat {A} adenote c cst f.
Arguments satb {A} c adec bound b f.
Arguments no_numq {A} f.
Arguments tenv c b v.
