(* Specification of the library semantic predicates (written independently of the model
   Logic/SemPreds.v) and proofs that the model meets it.

   Spec vocabulary:
     numeral b s n   : s is a base-b numeral (digits only, most significant first) of n
     count_nodes l t : number of positions of t whose node is labelled l
     octal_rel o d   : o (octal numeral) and d (decimal numeral) denote the same number
     width relation  : length (yield t) = w                                              *)
From ISLA Require Import SemPreds TreeFacts GrammarFacts.
From Coq Require Import Lia ZArith.

(* ------------------------------------------------------------------------------------ *)
(* Specification                                                                          *)
(* ------------------------------------------------------------------------------------ *)

Inductive numeral (b : N) : str -> N -> Prop :=
| num_digit : forall d, (d < b)%N -> numeral b [(48 + d)%N] d
| num_snoc : forall s n d, numeral b s n -> (d < b)%N ->
    numeral b (s ++ [(48 + d)%N]) (b * n + d)%N.

Definition count_nodes (needle : str) (t : tree) : nat :=
  length (filter (fun pt => str_eqb (lbl (snd pt)) needle) (nodes t)).

Definition octal_rel (o d : str) : Prop := exists n, numeral 8 o n /\ numeral 10 d n.

(* r is s left-/right-justified with one fill character and/or cropped *)
Definition just_rel (lj : bool) (s r : str) : Prop :=
  exists c m rest, if lj then s ++ repeat c m = r ++ rest else repeat c m ++ s = rest ++ r.

(* ------------------------------------------------------------------------------------ *)
(* count                                                                                  *)
(* ------------------------------------------------------------------------------------ *)

Lemma filter_map_len {A} (f : A -> bool) (h : A -> A) (l : list A) :
  (forall x, f (h x) = f x) -> length (filter f (map h l)) = length (filter f l).
Proof.
  intro Hf. induction l as [|x l IH]; simpl; [reflexivity|].
  rewrite Hf. destruct (f x); simpl; congruence.
Qed.

Lemma filter_concat_len {A} (f : A -> bool) (ls : list (list A)) :
  length (filter f (concat ls)) = list_sum (map (fun l => length (filter f l)) ls).
Proof.
  induction ls as [|l ls IH]; simpl; [reflexivity|].
  rewrite filter_app, app_length, IH. reflexivity.
Qed.

Lemma count_kids needle (ks : list tree) :
  Forall (fun t => count_lbl needle t = count_nodes needle t) ks ->
  forall i0,
  length (filter (fun pt : path * tree => str_eqb (lbl (snd pt)) needle)
            (concat (mapi_from (fun i c => map (fun pt : path * tree => (i :: fst pt, snd pt)) c) i0
                       (map nodes ks))))
  = list_sum (map (count_lbl needle) ks).
Proof.
  intro HF. induction HF as [|k ks Hk HF IH]; intro i0; simpl; [reflexivity|].
  rewrite filter_app, app_length, IH, Hk. unfold count_nodes.
  f_equal. apply filter_map_len. intro x. reflexivity.
Qed.

Lemma count_lbl_spec needle t : count_lbl needle t = count_nodes needle t.
Proof.
  induction t as [l i o ks IH] using tree_ind'.
  unfold count_nodes. rewrite nodes_unfold. simpl filter.
  cbn [snd lbl count_lbl].
  rewrite <- (count_kids needle ks IH 0).
  destruct (str_eqb l needle); reflexivity.
Qed.

(* ------------------------------------------------------------------------------------ *)
(* numerals: printing and parsing                                                         *)
(* ------------------------------------------------------------------------------------ *)

Definition is_digit (b c : N) : Prop := (48 <= c /\ c < 48 + b)%N.
Definition dstep (b : N) (a c : N) : N := (a * b + (c - 48))%N.

Lemma numeral_digits b s n : numeral b s n ->
  Forall (is_digit b) s /\ s <> [] /\ fold_left (dstep b) s 0%N = n.
Proof.
  intro H. induction H as [d Hd | s n d H IH Hd].
  - split; [|split].
    + constructor; [unfold is_digit; lia | constructor].
    + discriminate.
    + cbn [fold_left]. unfold dstep. lia.
  - destruct IH as (IH1 & IH2 & IH3). split; [|split].
    + apply Forall_app. split; [assumption|]. constructor; [unfold is_digit; lia | constructor].
    + intro E. apply app_eq_nil in E. destruct E as [_ E]. discriminate.
    + rewrite fold_left_app. cbn [fold_left]. unfold str, chr in *. rewrite IH3. unfold dstep. lia.
Qed.

Lemma numeral_fun b s n m : numeral b s n -> numeral b s m -> n = m.
Proof.
  intros H1 H2. apply numeral_digits in H1. apply numeral_digits in H2.
  destruct H1 as (_ & _ & H1). destruct H2 as (_ & _ & H2). congruence.
Qed.

Lemma digit_of_ok b c : (b <= 10)%N -> is_digit b c -> digit_of b c = Some (c - 48)%N.
Proof.
  intros Hb [H1 H2]. unfold digit_of.
  destruct (N.leb_spec 48 c); [|lia]. destruct (N.ltb_spec c (48 + b)); [|lia]. reflexivity.
Qed.

Lemma digits_loop_digits b s : (b <= 10)%N -> Forall (is_digit b) s ->
  forall acc pd, (s <> [] \/ pd = true) ->
  digits_loop b s acc pd = Some (fold_left (dstep b) s acc).
Proof.
  intros Hb HF. induction HF as [|c s Hc HF IH]; intros acc pd Hne.
  - destruct Hne as [Hne|Hne]; [congruence|]. subst pd. reflexivity.
  - simpl. destruct (N.eqb_spec c 95) as [E|E].
    + destruct Hc as [Hc1 Hc2]. lia.
    + rewrite (digit_of_ok b c Hb Hc). rewrite IH; [reflexivity | right; reflexivity].
Qed.

Lemma digit_not_ws b c : (b <= 10)%N -> is_digit b c -> is_ws c = false.
Proof.
  intros Hb [H1 H2]. unfold is_ws.
  destruct (N.leb_spec 9 c); destruct (N.leb_spec c 13); destruct (N.eqb_spec c 32);
    destruct (N.eqb_spec c 133); destruct (N.eqb_spec c 160); simpl; try reflexivity; lia.
Qed.

Lemma lstrip_digits b s : (b <= 10)%N -> Forall (is_digit b) s -> lstrip s = s.
Proof.
  intros Hb HF. destruct HF as [|c s Hc HF]; [reflexivity|].
  simpl. rewrite (digit_not_ws b c Hb Hc). reflexivity.
Qed.

Lemma strip_digits b s : (b <= 10)%N -> Forall (is_digit b) s -> strip s = s.
Proof.
  intros Hb HF. unfold strip. rewrite (lstrip_digits b s Hb HF).
  assert (E : lstrip (rev s) = rev s) by (apply (lstrip_digits b); [assumption | apply Forall_rev; assumption]).
  unfold str, chr in *. rewrite E. apply rev_involutive.
Qed.

Lemma split_sign_digits b s : (b <= 10)%N -> Forall (is_digit b) s -> split_sign s = (false, s).
Proof.
  intros Hb HF. destruct HF as [|c s Hc HF]; [reflexivity|].
  simpl. destruct Hc as [H1 H2].
  destruct (N.eqb_spec c 43); [lia|]. destruct (N.eqb_spec c 45); [lia|]. reflexivity.
Qed.

Lemma skip_prefix8_digits s : Forall (is_digit 8) s -> skip_prefix8 s = s.
Proof.
  intro HF. destruct HF as [|c0 s H0 HF]; [reflexivity|].
  destruct HF as [|c1 s H1 HF]; [reflexivity|].
  simpl. destruct H1 as [H1 H1'].
  destruct (N.eqb_spec c1 111); [lia|]. destruct (N.eqb_spec c1 79); [lia|].
  rewrite andb_false_r. reflexivity.
Qed.

(* int(s) / int(s, 8) read a plain numeral as its value *)
Lemma py_int_numeral b s n : (b = 8 \/ b = 10)%N -> numeral b s n -> py_int b s = Some (Z.of_N n).
Proof.
  intros Hb H. apply numeral_digits in H. destruct H as (HF & Hne & Hv).
  assert (Hb10 : (b <= 10)%N) by lia.
  unfold py_int. rewrite (strip_digits b s Hb10 HF), (split_sign_digits b s Hb10 HF).
  assert (E : (if (b =? 8)%N then skip_prefix8 s else s) = s).
  { destruct (N.eqb_spec b 8) as [E8|E8]; [|reflexivity]. subst b. apply skip_prefix8_digits. assumption. }
  rewrite E. rewrite (digits_loop_digits b s Hb10 HF); [|left; assumption].
  rewrite Hv. reflexivity.
Qed.

(* str(n) / oct(n)[2:] print the numeral of n *)
Lemma to_digits_aux_numeral b : (2 <= b)%N -> forall f n acc,
  f <> 0 -> (n < 2 ^ N.of_nat f)%N ->
  exists s, to_digits_aux b f n acc = s ++ acc /\ numeral b s n.
Proof.
  intros Hb f. induction f as [|f IH]; intros n acc Hf Hn; [congruence|].
  change (to_digits_aux b (S f) n acc) with (if (n / b =? 0)%N then (48 + n mod b)%N :: acc else to_digits_aux b f (n / b)%N ((48 + n mod b)%N :: acc)).
  assert (Hmod : (n mod b < b)%N) by (apply N.mod_lt; lia).
  assert (Hdm : n = (b * (n / b) + n mod b)%N) by (apply N.div_mod; lia).
  destruct (N.eqb_spec (n / b) 0) as [E|E].
  - exists [(48 + n mod b)%N]. split; [reflexivity|].
    assert (Hlt : (n < b)%N) by (apply N.div_small_iff; try assumption; lia).
    assert (En : (n mod b = n)%N) by (apply N.mod_small; assumption).
    rewrite En. constructor. lia.
  - assert (Hq : (n / b < 2 ^ N.of_nat f)%N).
    { apply N.div_lt_upper_bound; [lia|].
      rewrite Nnat.Nat2N.inj_succ, N.pow_succ_r' in Hn.
      nia. }
    assert (Hf' : f <> 0).
    { intro Ef. subst f. change (N.of_nat 0) with 0%N in Hq. rewrite N.pow_0_r in Hq. apply E. apply N.lt_1_r. exact Hq. }
    destruct (IH (n / b)%N ((48 + n mod b)%N :: acc) Hf' Hq) as (s & Hs & Hnum).
    exists (s ++ [(48 + n mod b)%N]). split.
    + rewrite Hs, <- app_assoc. reflexivity.
    + rewrite Hdm at 2. constructor; assumption.
Qed.

Lemma to_digits_numeral b n : (2 <= b)%N -> numeral b (to_digits b n) n.
Proof.
  intro Hb. unfold to_digits.
  destruct (to_digits_aux_numeral b Hb (S (N.to_nat (N.log2 n))) n []) as (s & Hs & Hnum).
  - discriminate.
  - rewrite Nnat.Nat2N.inj_succ, Nnat.N2Nat.id.
    destruct (N.eq_dec n 0) as [E|E]; [subst n; reflexivity|].
    apply N.log2_spec. lia.
  - rewrite Hs, app_nil_r. assumption.
Qed.

Lemma dec_of_N_numeral n : numeral 10 (dec_of_N n) n.
Proof. apply to_digits_numeral. lia. Qed.
Lemma oct_of_N_numeral n : numeral 8 (oct_of_N n) n.
Proof. apply to_digits_numeral. lia. Qed.

Lemma print_numeral n : numeral 10 (dec_of_N n) n /\ numeral 8 (oct_of_N n) n.
Proof. split; [apply dec_of_N_numeral | apply oct_of_N_numeral]. Qed.

(* the summation loop of octal_to_dec_concrete_octal on a proper octal numeral *)
Lemma oct_sum_shift r : forall idx,
  oct_sum r (idx + 1)%N = option_map (N.mul 8) (oct_sum r idx).
Proof.
  induction r as [|c r IH]; intro idx; cbn [oct_sum option_map].
  - reflexivity.
  - destruct (digit_of 10 c) as [d|]; [|reflexivity].
    rewrite IH. destruct (oct_sum r (idx + 1)%N) as [v|]; cbn [option_map]; [|reflexivity].
    f_equal. rewrite N.add_1_r, N.pow_succ_r'. ring.
Qed.

Lemma octal_value_numeral s n : numeral 8 s n -> octal_str_value s = Some n.
Proof.
  unfold octal_str_value. intro H. induction H as [d Hd | s n d H IH Hd].
  - cbn [rev app oct_sum]. rewrite (digit_of_ok 10 (48 + d)); [|lia|unfold is_digit; lia].
    f_equal. rewrite N.pow_0_r. lia.
  - rewrite rev_unit. cbn [oct_sum]. rewrite (digit_of_ok 10 (48 + d)); [|lia|unfold is_digit; lia].
    pose proof (oct_sum_shift (rev s) 0) as Hs. unfold str, chr in *.
    rewrite Hs, IH. cbn [option_map]. f_equal. rewrite N.pow_0_r. lia.
Qed.

(* ------------------------------------------------------------------------------------ *)
(* count on closed trees                                                                  *)
(* ------------------------------------------------------------------------------------ *)

Lemma count_verdict_spec c n : count_verdict c (Z.of_N n) = true <-> c = N.to_nat n.
Proof.
  unfold count_verdict.
  destruct (Z.ltb_spec (Z.of_N n) 0) as [H0|H0]; [lia|].
  destruct (Z.ltb_spec (Z.of_N n) (Z.of_nat c)) as [H1|H1]; cbn [orb].
  - split; [discriminate | lia].
  - rewrite Z.eqb_eq. lia.
Qed.

(* num is a Variable: the predicate answers with the numeral of the node count *)
Theorem count_var_spec needle t : is_openT t = false ->
  exists l, count (TTree t) needle WVar = Ok (PNum 2 l)
            /\ numeral 10 l (N.of_nat (count_nodes needle t)).
Proof.
  intro Hc. unfold count. rewrite Hc. eexists. split; [reflexivity|].
  rewrite count_lbl_spec. apply dec_of_N_numeral.
Qed.

(* num is a numeral string *)
Theorem count_closed_spec needle t s n : is_openT t = false -> numeral 10 s n ->
  exists b, count (TTree t) needle (WStr s) = Ok (PBool b)
            /\ (b = true <-> count_nodes needle t = N.to_nat n).
Proof.
  intros Hc Hn. unfold count. rewrite Hc.
  rewrite (py_int_numeral 10 s n (or_intror eq_refl) Hn).
  eexists. split; [reflexivity|]. rewrite count_lbl_spec. apply count_verdict_spec.
Qed.

(* num is a leaf tree (open or closed) labelled with a numeral *)
Theorem count_closed_tree_spec needle t s i o n : is_openT t = false -> numeral 10 s n ->
  exists b, count (TTree t) needle (WTree (Node s i o [])) = Ok (PBool b)
            /\ (b = true <-> count_nodes needle t = N.to_nat n).
Proof.
  intros Hc Hn. unfold count. rewrite Hc. cbn [kids lbl].
  rewrite (py_int_numeral 10 s n (or_intror eq_refl) Hn).
  eexists. split; [reflexivity|]. rewrite count_lbl_spec. apply count_verdict_spec.
Qed.

(* ------------------------------------------------------------------------------------ *)
(* widths: crop / just                                                                    *)
(* ------------------------------------------------------------------------------------ *)

Inductive width_denotes : warg -> Z -> Prop :=
| wd_int : forall z, width_denotes (WInt z) z
| wd_tree : forall wt n, is_openT wt = false -> numeral 10 (yield wt) n ->
    width_denotes (WTree wt) (Z.of_N n).

Lemma width_of_denotes w z : width_denotes w z -> width_of w = Ok (Some z).
Proof.
  intro H. destruct H as [z | wt n Hc Hn]; [reflexivity|].
  unfold width_of. rewrite Hc, (py_int_numeral 10 _ n (or_intror eq_refl) Hn). reflexivity.
Qed.

Definition fill_ok (fill : option str) (s : str) : Prop :=
  match fill with
  | Some f => exists c, f = [c]
  | None => exists c k, s = repeat c (S k)
  end.

Lemma forallb_repeat c k : forallb (N.eqb c) (repeat c k) = true.
Proof. induction k as [|k IH]; [reflexivity|]. simpl. rewrite N.eqb_refl, IH. reflexivity. Qed.

Lemma fill_of_ok fill s : fill_ok fill s -> exists c, fill_of fill s = Ok [c].
Proof.
  destruct fill as [f|]; cbn [fill_ok fill_of].
  - intros [c E]. subst f. exists c. reflexivity.
  - intros (c & k & E). subst s. exists c. cbn [repeat].
    change (c :: repeat c k) with (repeat c (S k)). rewrite forallb_repeat. reflexivity.
Qed.

Definition just_body (lj cr : bool) (t : tree) (c : chr) (z : Z) : res pre :=
  let s := yield t in
  if (Z.of_nat (length s) =? z)%Z then Ok (PBool true) else
  if negb cr && negb (Z.of_nat (length (pad lj c z s)) =? z)%Z then Raise AssertErr
  else Ok (PParse 0 (lbl t) (just_output lj cr c z s)).

Lemma just_cases lj cr t w z fill : is_openT t = false -> width_denotes w z ->
  just lj cr (TTree t) w fill =
  match fill_of fill (yield t) with
  | Raise e => Raise e
  | Ok [c] => just_body lj cr t c z
  | Ok _ => Raise TypeErr
  end.
Proof.
  intros Hc Hw. unfold just. rewrite Hc.
  pose proof (width_of_denotes w z Hw) as Hwo.
  destruct Hw as [z | wt n Hcw Hn];
    (destruct (fill_of fill (yield t)) as [[|c [|c' f]]|e]; cbn [bind]; try reflexivity;
     rewrite Hwo; reflexivity).
Qed.

Lemma just_body_true lj cr t c z :
  just_body lj cr t c z = Ok (PBool true) <-> Z.of_nat (length (yield t)) = z.
Proof.
  unfold just_body. destruct (Z.eqb_spec (Z.of_nat (length (yield t))) z) as [E|E].
  - split; auto.
  - destruct (negb cr && negb (Z.of_nat (length (pad lj c z (yield t))) =? z)%Z);
      (split; [discriminate | contradiction]).
Qed.

(* the verdict True is given only when the tree already has the requested width ... *)
Theorem just_true_only_if lj cr t w z fill : is_openT t = false -> width_denotes w z ->
  just lj cr (TTree t) w fill = Ok (PBool true) -> Z.of_nat (length (yield t)) = z.
Proof.
  intros Hc Hw. rewrite (just_cases lj cr t w z fill Hc Hw).
  destruct (fill_of fill (yield t)) as [[|c [|c' f]]|e]; try discriminate.
  apply just_body_true.
Qed.

(* ... and always then, when the fill argument is a single character (or, for extend_crop,
   the string is uniform and non-empty) *)
Theorem just_spec lj cr t w z fill : is_openT t = false -> width_denotes w z ->
  fill_ok fill (yield t) ->
  (just lj cr (TTree t) w fill = Ok (PBool true) <-> Z.of_nat (length (yield t)) = z).
Proof.
  intros Hc Hw Hf. rewrite (just_cases lj cr t w z fill Hc Hw).
  destruct (fill_of_ok fill (yield t) Hf) as [c Ec]. rewrite Ec. apply just_body_true.
Qed.

(* crop holds exactly when the tree is not longer than the width *)
Theorem crop_spec t wt n : is_openT t = false -> is_openT wt = false -> numeral 10 (yield wt) n ->
  (crop (TTree t) (WTree wt) = Ok (PBool true) <-> length (yield t) <= N.to_nat n).
Proof.
  intros Hc Hcw Hn. unfold crop. rewrite Hc, Hcw, (py_int_numeral 10 _ n (or_intror eq_refl) Hn).
  destruct (Z.leb_spec (Z.of_nat (length (yield t))) (Z.of_N n)) as [H|H].
  - split; [lia | reflexivity].
  - split; [discriminate | lia].
Qed.

(* width is a Variable: the answer is the numeral of the current length *)
Theorem width_var_spec lj cr t fill : is_openT t = false ->
  exists l, just lj cr (TTree t) WVar fill = Ok (PNum 1 l) /\ crop (TTree t) WVar = Ok (PNum 1 l)
            /\ numeral 10 l (N.of_nat (length (yield t))).
Proof.
  intro Hc. unfold just, crop. rewrite Hc. eexists. split; [reflexivity|]. split; [reflexivity|].
  apply dec_of_N_numeral.
Qed.

Lemma pad_length lj c z s :
  length (pad lj c z s) = length s + Z.to_nat (z - Z.of_nat (length s)).
Proof. unfold pad. destruct lj; rewrite app_length, repeat_length; lia. Qed.

Lemma just_output_length lj cr c z s : (0 <= z)%Z ->
  cr = true \/ Z.of_nat (length (pad lj c z s)) = z ->
  Z.of_nat (length (just_output lj cr c z s)) = z.
Proof.
  intros Hz Hcr. unfold just_output. pose proof (pad_length lj c z s) as Hp.
  destruct cr.
  - destruct lj.
    + unfold py_take. destruct (Z.ltb_spec z 0) as [H|H]; [lia|]. rewrite firstn_length. lia.
    + rewrite skipn_length. lia.
  - destruct Hcr as [Hcr|Hcr]; [discriminate | exact Hcr].
Qed.

Lemma just_output_rel lj cr c z s : just_rel lj s (just_output lj cr c z s).
Proof.
  unfold just_rel, just_output. exists c, (Z.to_nat (z - Z.of_nat (length s))).
  destruct cr.
  - destruct lj.
    + unfold py_take, pad. destruct (z <? 0)%Z; eexists; symmetry; apply firstn_skipn.
    + unfold pad. eexists. symmetry. apply firstn_skipn.
  - destruct lj; unfold pad.
    + exists []. rewrite app_nil_r. reflexivity.
    + exists []. reflexivity.
Qed.

(* ------------------------------------------------------------------------------------ *)
(* octal_to_decimal                                                                       *)
(* ------------------------------------------------------------------------------------ *)

Theorem octal_concrete_octal_spec fx os ds o n : is_openT o = false -> numeral 8 (yield o) n ->
  exists s, octal fx os ds (TTree o) TVar = Ok (PParse 1 ds s) /\ numeral 10 s n.
Proof.
  intros Hc Hn. unfold octal, conc_octal. rewrite Hc, (octal_value_numeral _ n Hn).
  eexists. split; [reflexivity | apply dec_of_N_numeral].
Qed.

Lemma py_oct_tail_N n : py_oct_tail (Z.of_N n) = oct_of_N n.
Proof.
  unfold py_oct_tail. destruct (Z.ltb_spec (Z.of_N n) 0) as [H|H]; [lia|].
  rewrite N2Z.id. reflexivity.
Qed.

Theorem octal_concrete_decimal_spec fx os ds d n : is_openT d = false -> numeral 10 (yield d) n ->
  exists s, octal fx os ds TVar (TTree d) = Ok (PParse 0 os s) /\ numeral 8 s n.
Proof.
  intros Hc Hn. unfold octal, conc_decimal.
  rewrite Hc, (py_int_numeral 10 _ n (or_intror eq_refl) Hn), py_oct_tail_N.
  eexists. split; [reflexivity | apply oct_of_N_numeral].
Qed.

(* both arguments closed trees, WITH the proposed fix: the verdict is the documented relation *)
Theorem octal_both_fixed_spec os ds o d n m : is_openT o = false -> is_openT d = false ->
  numeral 8 (yield o) n -> numeral 10 (yield d) m ->
  exists b, octal true os ds (TTree o) (TTree d) = Ok (PBool b)
            /\ (b = true <-> octal_rel (yield o) (yield d)).
Proof.
  intros Hco Hcd Hn Hm. unfold octal, both_trees_fixed. rewrite Hco, Hcd.
  rewrite (py_int_numeral 10 _ m (or_intror eq_refl) Hm), (py_int_numeral 8 _ n (or_introl eq_refl) Hn).
  eexists. split; [reflexivity|]. rewrite Z.eqb_eq. split.
  - intro E. assert (n = m) by lia. subst m. exists n. split; assumption.
  - intros (k & H8 & H10).
    rewrite (numeral_fun 8 _ _ _ Hn H8), (numeral_fun 10 _ _ _ Hm H10). reflexivity.
Qed.

(* pinned code: refuted on octal "17" / decimal "15" *)
Definition t_17 : tree := Node [49; 55]%N 0%N false [].
Definition t_15 : tree := Node [49; 53]%N 0%N false [].
Definition t_8 : tree := Node [56]%N 0%N false [].

Lemma numeral_17 : numeral 8 [49; 55]%N 15%N.
Proof. exact (num_snoc 8 [49%N] 1%N 7%N (num_digit 8 1%N eq_refl) eq_refl). Qed.
Lemma numeral_15 : numeral 10 [49; 53]%N 15%N.
Proof. exact (num_snoc 10 [49%N] 1%N 5%N (num_digit 10 1%N eq_refl) eq_refl). Qed.

Theorem octal_both_refuted : exists o d os ds,
  is_openT o = false /\ is_openT d = false /\ octal_rel (yield o) (yield d)
  /\ octal false os ds (TTree o) (TTree d) = Ok (PBool false).
Proof.
  exists t_17, t_15, [], []. split; [reflexivity|]. split; [reflexivity|]. split.
  - exists 15%N. split; [exact numeral_17 | exact numeral_15].
  - vm_compute. reflexivity.
Qed.

(* the fixed version judges the same witness True *)
Example octal_both_fixed_witness :
  octal true [] [] (TTree t_17) (TTree t_15) = Ok (PBool true).
Proof. vm_compute. reflexivity. Qed.

(* the digit 8 is accepted in the octal argument *)
Theorem octal_nonoctal_refuted : exists o ds,
  is_openT o = false /\ (forall n, ~ numeral 8 (yield o) n)
  /\ exists s, octal false [] ds (TTree o) TVar = Ok (PParse 1 ds s).
Proof.
  exists t_8, []. split; [reflexivity|]. split.
  - intros n Hn. apply numeral_digits in Hn. destruct Hn as (HF & _ & _).
    cbn [yield t_8 is_nt] in HF. inversion HF as [|c l Hd Hl]; subst. destruct Hd as [_ Hd]. lia.
  - eexists. vm_compute. reflexivity.
Qed.

(* ------------------------------------------------------------------------------------ *)
(* classes of the recorded findings (guards of the partial theorems)                      *)
(* ------------------------------------------------------------------------------------ *)
Definition octal_digitb (c : N) : bool := ((48 <=? c) && (c <? 56))%N.
Definition octal_strb (s : str) : bool := forallb octal_digitb s && negb (Nat.eqb (length s) 0).

Definition K_octal_both (c : call) : bool :=
  match c with
  | COctal _ _ (TTree o) (TTree d) => negb (is_openT o) && negb (is_openT d)
  | _ => false
  end.

Definition K_nonoctal (c : call) : bool :=
  match c with
  | COctal _ _ (TTree o) _ => negb (is_openT o) && negb (octal_strb (yield o))
  | _ => false
  end.

Definition width_negb (w : warg) : bool :=
  match w with
  | WInt z => (z <? 0)%Z
  | WTree wt => negb (is_openT wt) && match py_int 10 (yield wt) with Some z => (z <? 0)%Z | None => false end
  | _ => false
  end.

Definition K_neg_width (c : call) : bool :=
  match c with
  | CCrop _ w => width_negb w
  | CJust _ _ _ w _ => width_negb w
  | _ => false
  end.

Lemma numeral8_octal_strb s n : numeral 8 s n -> octal_strb s = true.
Proof.
  intro H. apply numeral_digits in H. destruct H as (HF & Hne & _). unfold octal_strb.
  apply andb_true_intro. split.
  - apply forallb_forall. intros c Hc. rewrite Forall_forall in HF. destruct (HF c Hc) as [H1 H2].
    unfold octal_digitb. destruct (N.leb_spec 48 c); [|lia]. destruct (N.ltb_spec c 56); [reflexivity|lia].
  - destruct s; [congruence | reflexivity].
Qed.

Lemma K_nonoctal_numeral os ds o d n : numeral 8 (yield o) n -> K_nonoctal (COctal os ds (TTree o) d) = false.
Proof.
  intro H. cbn [K_nonoctal]. rewrite (numeral8_octal_strb _ n H). apply andb_false_r.
Qed.

Lemma K_neg_width_denotes w z : width_denotes w z -> (width_negb w = false <-> (0 <= z)%Z).
Proof.
  intro H. destruct H as [z | wt n Hc Hn]; cbn [width_negb].
  - rewrite Z.ltb_ge. reflexivity.
  - rewrite Hc, (py_int_numeral 10 _ n (or_intror eq_refl) Hn). cbn [negb andb].
    rewrite Z.ltb_ge. reflexivity.
Qed.

(* a negative width makes ljust_crop propose a replacement that has not the requested width *)
Theorem neg_width_refuted : exists t z s,
  is_openT t = false /\ K_neg_width (CJust true true (TTree t) (WInt z) (Some [48%N])) = true
  /\ pre_eval false (CJust true true (TTree t) (WInt z) (Some [48%N])) = Ok (PParse 0 (lbl t) s)
  /\ Z.of_nat (length s) <> z.
Proof.
  exists t_17, (-1)%Z, [49%N]. split; [reflexivity|]. split; [reflexivity|]. split.
  - vm_compute. reflexivity.
  - discriminate.
Qed.

(* ------------------------------------------------------------------------------------ *)
(* replacement trees, under the soundness premise of the parser (C10: parse_sound)        *)
(* ------------------------------------------------------------------------------------ *)
Section Replacement.
  Variable g : grammar.
  Variable parse : str -> str -> res tree.
  Hypothesis parse_sound : forall nt s r, parse nt s = Ok r ->
    wf_tree g r /\ lbl r = nt /\ is_openT r = false /\ yield r = s.

  Lemma finish_parse k nt s k' r : finish parse (PParse k nt s) = Ok (SAssign k' r) ->
    k' = k /\ wf_tree g r /\ lbl r = nt /\ is_openT r = false /\ yield r = s.
  Proof.
    unfold finish, bind. destruct (parse nt s) as [r0|e] eqn:E; [|discriminate].
    intro H. inversion H; subst. split; [reflexivity|]. apply parse_sound. exact E.
  Qed.

  (* ljust / rjust / ljust_crop / rjust_crop / extend_crop with a non-negative width *)
  Theorem just_replacement_valid fx lj cr t w z fill k r :
    is_openT t = false -> width_denotes w z -> (0 <= z)%Z ->
    sem_eval parse fx (CJust lj cr (TTree t) w fill) = Ok (SAssign k r) ->
    k = 0 /\ wf_tree g r /\ lbl r = lbl t /\ is_openT r = false
    /\ Z.of_nat (length (yield r)) = z /\ just_rel lj (yield t) (yield r).
  Proof.
    intros Hc Hw Hz. unfold sem_eval, pre_eval. rewrite (just_cases lj cr t w z fill Hc Hw).
    destruct (fill_of fill (yield t)) as [[|c [|c' f]]|e]; cbn [bind]; try discriminate.
    unfold just_body.
    destruct (Z.eqb_spec (Z.of_nat (length (yield t))) z) as [E|E]; [cbn [bind finish]; discriminate|].
    destruct (negb cr && negb (Z.of_nat (length (pad lj c z (yield t))) =? z)%Z) eqn:EA;
      cbn [bind]; [discriminate|].
    intro H. apply finish_parse in H. destruct H as (Hk & Hwf & Hl & Hcl & Hy).
    repeat split; try assumption.
    - rewrite Hy. apply just_output_length; [assumption|].
      destruct cr; [left; reflexivity|]. right. cbn [negb andb] in EA.
      apply negb_false_iff in EA. apply Z.eqb_eq in EA. exact EA.
    - rewrite Hy. apply just_output_rel.
  Qed.

  Theorem crop_replacement_valid fx t wt n k r :
    is_openT t = false -> is_openT wt = false -> numeral 10 (yield wt) n ->
    sem_eval parse fx (CCrop (TTree t) (WTree wt)) = Ok (SAssign k r) ->
    k = 0 /\ wf_tree g r /\ lbl r = lbl t /\ is_openT r = false
    /\ length (yield r) = N.to_nat n /\ exists rest, yield t = yield r ++ rest.
  Proof.
    intros Hc Hcw Hn. unfold sem_eval, pre_eval, crop.
    rewrite Hc, Hcw, (py_int_numeral 10 _ n (or_intror eq_refl) Hn).
    destruct (Z.leb_spec (Z.of_nat (length (yield t))) (Z.of_N n)) as [H|H]; cbn [bind];
      [cbn [finish]; discriminate|].
    intro HH. apply finish_parse in HH. destruct HH as (Hk & Hwf & Hl & Hcl & Hy).
    repeat split; try assumption.
    - rewrite Hy. unfold py_take. destruct (Z.ltb_spec (Z.of_N n) 0) as [H0|H0]; [lia|].
      rewrite firstn_length. lia.
    - rewrite Hy. unfold py_take. destruct (Z.ltb_spec (Z.of_N n) 0) as [H0|H0]; [lia|].
      eexists. symmetry. apply firstn_skipn.
  Qed.

  Theorem octal_to_decimal_replacement fx os ds o n k r :
    is_openT o = false -> numeral 8 (yield o) n ->
    sem_eval parse fx (COctal os ds (TTree o) TVar) = Ok (SAssign k r) ->
    k = 1 /\ wf_tree g r /\ lbl r = ds /\ is_openT r = false /\ octal_rel (yield o) (yield r).
  Proof.
    intros Hc Hn. unfold sem_eval, pre_eval.
    destruct (octal_concrete_octal_spec fx os ds o n Hc Hn) as (s & Es & Hs). rewrite Es. cbn [bind].
    intro H. apply finish_parse in H. destruct H as (Hk & Hwf & Hl & Hcl & Hy).
    repeat split; try assumption. exists n. rewrite Hy. split; assumption.
  Qed.

  Theorem decimal_to_octal_replacement fx os ds d n k r :
    is_openT d = false -> numeral 10 (yield d) n ->
    sem_eval parse fx (COctal os ds TVar (TTree d)) = Ok (SAssign k r) ->
    k = 0 /\ wf_tree g r /\ lbl r = os /\ is_openT r = false /\ octal_rel (yield r) (yield d).
  Proof.
    intros Hc Hn. unfold sem_eval, pre_eval.
    destruct (octal_concrete_decimal_spec fx os ds d n Hc Hn) as (s & Es & Hs). rewrite Es. cbn [bind].
    intro H. apply finish_parse in H. destruct H as (Hk & Hwf & Hl & Hcl & Hy).
    repeat split; try assumption. exists n. rewrite Hy. split; assumption.
  Qed.
End Replacement.

(* ------------------------------------------------------------------------------------ *)
(* non-vacuity                                                                            *)
(* ------------------------------------------------------------------------------------ *)
Definition ex_grammar : grammar :=
  [([60; 111; 62]%N, [[[60; 100; 62]%N; [60; 111; 62]%N]; [[60; 100; 62]%N]]);     (* <o> ::= <d><o> | <d> *)
   ([60; 100; 62]%N, [[[49]%N]; [[55]%N]; [[48]%N]])].                              (* <d> ::= 1 | 7 | 0 *)
Definition ex_d (c : N) : tree := Node [60; 100; 62]%N 0%N false [Node [c] 0%N false []].
Definition ex_o17 : tree := Node [60; 111; 62]%N 0%N false [ex_d 49; Node [60; 111; 62]%N 0%N false [ex_d 55]].
Definition ex_o170 : tree :=
  Node [60; 111; 62]%N 0%N false
    [ex_d 49; Node [60; 111; 62]%N 0%N false [ex_d 55; Node [60; 111; 62]%N 0%N false [ex_d 48]]].
(* a parser for the example: knows exactly one sentence *)
Definition ex_parse (nt s : str) : res tree :=
  if str_eqb nt [60; 111; 62]%N && str_eqb s [49; 55; 48]%N then Ok ex_o170 else Raise SyntaxErr.

Example ex_parse_sound : forall nt s r, ex_parse nt s = Ok r ->
  wf_tree ex_grammar r /\ lbl r = nt /\ is_openT r = false /\ yield r = s.
Proof.
  intros nt s r. unfold ex_parse.
  destruct (str_eqb nt [60; 111; 62]%N) eqn:E1; [|discriminate].
  destruct (str_eqb s [49; 55; 48]%N) eqn:E2; [|discriminate].
  cbn [andb]. intro H. inversion H; subst r.
  apply str_eqb_eq in E1. apply str_eqb_eq in E2. subst.
  split; [|split; [reflexivity | split; reflexivity]].
  apply wf_treeb_spec. vm_compute. reflexivity.
Qed.

Example ex_just_replacement :
  is_openT ex_o17 = false /\ width_denotes (WInt 3) 3 /\ (0 <= 3)%Z /\
  sem_eval ex_parse false (CJust true false (TTree ex_o17) (WInt 3) (Some [48%N])) = Ok (SAssign 0 ex_o170).
Proof. split; [reflexivity|]. split; [constructor|]. split; [lia|]. vm_compute. reflexivity. Qed.

Example ex_count : is_openT ex_o17 = false /\ numeral 10 [50%N] 2%N
  /\ count (TTree ex_o17) [60; 100; 62]%N (WStr [50%N]) = Ok (PBool true).
Proof. split; [reflexivity|]. split; [exact (num_digit 10 2%N eq_refl)|]. vm_compute. reflexivity. Qed.

Example ex_just_spec_hyps : is_openT ex_o17 = false /\ width_denotes (WInt 2) 2
  /\ fill_ok (Some [48%N]) (yield ex_o17)
  /\ just false true (TTree ex_o17) (WInt 2) (Some [48%N]) = Ok (PBool true).
Proof. split; [reflexivity|]. split; [constructor|]. split; [exists 48%N; reflexivity|]. vm_compute. reflexivity. Qed.

Example ex_octal_hyps : is_openT ex_o17 = false /\ numeral 8 (yield ex_o17) 15%N
  /\ octal false [] [100%N] (TTree ex_o17) TVar = Ok (PParse 1 [100%N] [49; 53]%N).
Proof. split; [reflexivity|]. split; [exact numeral_17|]. vm_compute. reflexivity. Qed.
