(* Model of the structural predicates of isla/isla_predicates.py (as of the
   current /repo tree, i.e. including the `fix:` commit for is_after; `consecutive`
   is modelled WITH its defect: leaf paths relative to the common prefix are compared
   with absolute paths -- class K_cons_rel, see PredsFacts.v).  No proofs here. *)
From ISLA Require Export Outcome Tree.

(* ---- Python helpers on tuples ---- *)

(* DerivationTree.get_subtree:  while path: if not children: return None;
   node = children[path[0]]  (IndexError when out of range) *)
Fixpoint py_get_subtree (t : tree) (p : path) : res (option tree) :=
  match p with
  | [] => Ok (Some t)
  | i :: p' =>
      if opn t then Ok None else
      match kids t with
      | [] => Ok None
      | ks => match nth_error ks i with
              | Some c => py_get_subtree c p'
              | None => Raise IndexErr
              end
      end
  end.

(* DerivationTree.paths(): pre-order list of (path, node) *)
Definition py_paths (t : tree) : list (path * tree) := nodes t.

(* leaves(): nodes with `not children` *)
Definition is_leaf (t : tree) : bool := match kids t with [] => true | _ => false end.
Definition py_leaves (t : tree) : list (path * tree) :=
  filter (fun pt => is_leaf (snd pt)) (py_paths t).

(* ---- the predicates ---- *)

Fixpoint is_before (p q : path) : bool :=
  match p, q with
  | [], _ => false
  | _, [] => false
  | a :: p', b :: q' =>
      if Nat.ltb a b then true else if Nat.ltb b a then false else is_before p' q'
  end.

Definition is_after (p q : path) : bool := is_before q p.

Definition is_same_position (p q : path) : bool := path_eqb p q.
Definition is_different_position (p q : path) : bool := negb (is_same_position p q).

(* path_1[:len(path_2)] == path_2 *)
Definition in_tree (p1 p2 : path) : bool := path_eqb (firstn (length p2) p1) p2.

Definition is_direct_child (p1 p2 : path) : bool :=
  if negb (Nat.eqb (length p1) (length p2 + 1)) then false
  else path_eqb (firstn (length p2) p1) p2.

(* the scanning loop of is_nth *)
Fixpoint nth_scan (l : list (path * tree)) (nt : str) (n idx : nat) (p1 p2 : path) : bool :=
  match l with
  | [] => false
  | (q, s) :: l' =>
      let idx' := if str_eqb (lbl s) nt then S idx else idx in
      if path_eqb (p2 ++ q) p1 then Nat.eqb idx' n
      else if Nat.leb n idx' then false
      else nth_scan l' nt n idx' p1 p2
  end.

Definition is_nth (t : tree) (n : nat) (p1 p2 : path) : res bool :=
  if negb (in_tree p1 p2) then Ok false else
  match py_get_subtree t p1 with
  | Raise e => Raise e
  | Ok None => Raise AttrErr
  | Ok (Some s1) =>
      if negb (is_nt (lbl s1)) then Raise AssertErr else
      match py_get_subtree t p2 with
      | Raise e => Raise e
      | Ok None => Raise AttrErr
      | Ok (Some s2) => Ok (nth_scan (py_paths s2) (lbl s1) n 0 p1 p2)
      end
  end.

(* longest common prefix, as max([...], key=len) over the equal slices computes *)
Fixpoint lcp (p q : path) : path :=
  match p, q with
  | a :: p', b :: q' => if Nat.eqb a b then a :: lcp p' q' else []
  | _, _ => []
  end.

(* `rel = false`: the code as it is (leaf paths stay relative to the common prefix);
   `rel = true`: the repaired form (leaf paths made absolute), kept for the theorems *)
Definition consecutive_gen (absolute : bool) (t : tree) (p1 p2 : path) : res bool :=
  if path_eqb p1 p2 || negb (is_before p1 p2) then Ok false else
  let c := lcp p1 p2 in
  match py_get_subtree t c with
  | Raise e => Raise e
  | Ok None => Raise AttrErr
  | Ok (Some s) =>
      Ok (negb (existsb
                  (fun pt => let q := (if absolute then c else []) ++ fst pt in
                             negb (path_eqb q p1) && negb (path_eqb q p2)
                             && is_before p1 q && is_before q p2)
                  (py_leaves s)))
  end.

Definition consecutive := consecutive_gen false.
Definition consecutive_fixed := consecutive_gen true.

(* class of the recorded defect: the two paths share a non-empty common prefix *)
Definition K_cons_rel (p1 p2 : path) : bool := match lcp p1 p2 with [] => false | _ => true end.

Inductive lvl_op := EQ | GE | LE | GT | LT.

(* label of the node at a path, as context_tree.get_subtree(p).value *)
Definition lbl_at (t : tree) (p : path) : res str :=
  match py_get_subtree t p with
  | Raise e => Raise e
  | Ok None => Raise AttrErr
  | Ok (Some s) => Ok (lbl s)
  end.

Definition has_lbl (t : tree) (nt : str) (p : path) : bool :=
  match lbl_at t p with Ok l => str_eqb l nt | Raise _ => false end.

(* common nonterminal prefixes: [()] ++ [p1[:i+1] | i < min len, agree up to i, label = nt] *)
Fixpoint common_prefixes_from (t : tree) (nt : str) (acc : path) (p q : path) : list path :=
  match p, q with
  | a :: p', b :: q' =>
      if Nat.eqb a b then
        let pre := acc ++ [a] in
        (if has_lbl t nt pre then [pre] else []) ++ common_prefixes_from t nt pre p' q'
      else []
  | _, _ => []
  end.

(* [path[:idx] for idx in range(len(prefix)+1, len(path)) if label(path[:idx]) == nt] *)
Definition occs (t : tree) (nt : str) (pre p : path) : list path :=
  filter (has_lbl t nt)
         (map (fun idx => firstn idx p) (seq (length pre + 1) (length p - (length pre + 1)))).

Definition nonempty {A} (l : list A) : bool := match l with [] => false | _ => true end.

Definition level_one (op : lvl_op) (o1 o2 : bool) : bool :=
  match op with
  | EQ => negb o1 && negb o2
  | GE => negb o1
  | LE => negb o2
  | GT => negb o1 && o2
  | LT => negb o2 && o1
  end.

Definition level_check (t : tree) (op : lvl_op) (nt : str) (p1 p2 : path) : bool :=
  existsb (fun pre => level_one op (nonempty (occs t nt pre p1)) (nonempty (occs t nt pre p2)))
          ([] :: common_prefixes_from t nt [] p1 p2).
