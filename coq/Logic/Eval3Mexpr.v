(* C06 (second proof extension) — tree quantifiers WITH a match expression, restricted class:
   every node of the open tree t that carries the quantified type T is a CLOSED subtree (mx_ok).
   Then a match found on t is found unchanged on every completion t' (bind_match runs on the same
   closed subtree), a NEW match on t' sits at a new node of type T, which lies below an open leaf that
   can reach T - and such a leaf is a potential match (quantified_formula_might_match answers True by
   its same-type / reachability branches), so the verdict on t was UNKNOWN or a TRUE of an existential.
   The completeness of can_extend_leaf_to_make_quantifier_match_parent is NOT needed in this class. *)
From ISLA Require Import Eval3 EvalFacts EvalMexprFacts GrammarFacts FuzzFacts PathFacts TreeFacts PredsFacts Eval3Facts Eval3Compl Eval3Stable Eval3Preds.
From Coq Require Import Lia ZArith.

(* ------------------------------------------------------------------ *)
(* the runtime assertion of eval_quant gives the node invariant        *)
(* ------------------------------------------------------------------ *)
Lemma tree_eqb_eq : forall a b, tree_eqb a b = true -> a = b.
Proof.
  induction a as [l i o ks IH] using tree_ind'. intros [l' i' o' ks'] H. simpl in H.
  apply andb_true_iff in H as [H Hk]. apply andb_true_iff in H as [H Ho]. apply andb_true_iff in H as [Hl Hi].
  apply str_eqb_eq in Hl. apply N.eqb_eq in Hi. apply Bool.eqb_prop in Ho. subst. f_equal.
  revert ks' Hk. induction IH as [|x xs Hx _ IHl]; intros [|y ys] Hk; try discriminate; [reflexivity|].
  apply andb_true_iff in Hk as [H1 H2]. f_equal; [apply Hx; assumption | apply IHl; assumption].
Qed.

Definition validF (u : tree) (a : asg) : Prop :=
  Forall (fun kv : var * (path * tree) => subtree u (fst (snd kv)) = Some (snd (snd kv))) a.

Lemma asg_ok_valid u a : shape_ok u = true -> asg_ok u a = true -> validF u a.
Proof.
  intros Hs H. unfold asg_ok in H. rewrite forallb_forall in H. apply Forall_forall. intros [k [p x]] Hin.
  specialize (H _ Hin). simpl in *. apply andb_true_iff in H as [H H3]. apply andb_true_iff in H as [H1 _].
  destruct (subtree u p) as [s|] eqn:E; [|discriminate].
  rewrite (py_get_subtree_valid u Hs p s E) in H3. apply tree_eqb_eq in H3. congruence.
Qed.

(* same keys, same paths (no statement about the trees) *)
Definition wrel (a a' : asg) : Prop :=
  Forall2 (fun kv kv' : var * (path * tree) => fst kv = fst kv' /\ fst (snd kv) = fst (snd kv')) a a'.

Lemma wrel_refl a : wrel a a.
Proof. induction a; constructor; auto. Qed.

Lemma asg_rel_wrel t t' a a' : asg_rel t t' a a' -> wrel a a'.
Proof. induction 1 as [|kv kv' a a' (E1 & E2 & _) _ IH]; constructor; auto. Qed.

Lemma wrel_set d d' v x x' : wrel d d' -> fst x = fst x' -> wrel (dict_set d v x) (dict_set d' v x').
Proof.
  intros H Hx. induction H as [|[k y] [k' y'] d d' [Hk Hp] Hd IH]; simpl.
  - constructor; [auto | constructor].
  - simpl in Hk. subst k'. destruct (var_eqb k v); constructor; auto.
Qed.

Lemma wrel_union a a' : wrel a a' -> forall na na', wrel na na' -> wrel (dict_union na a) (dict_union na' a').
Proof.
  unfold dict_union. induction 1 as [|[k y] [k' y'] a a' [Hk Hp] _ IH]; intros na na' Hn; simpl; [assumption|].
  simpl in Hk, Hp. subst k'. apply IH. apply wrel_set; assumption.
Qed.

Lemma wrel_valid t t' U U' : wrel U U' -> validF t U -> validF t' U' -> asg_rel t t' U U'.
Proof.
  unfold validF. induction 1 as [|kv kv' U U' [Hk Hp] _ IH]; intros HV HV'; [constructor|].
  inversion HV; inversion HV'; subst. constructor; [|apply IH; assumption].
  repeat split; assumption.
Qed.

Lemma eq_by_fst {B} : forall (l1 l2 : list (path * B)), map fst l1 = map fst l2 ->
  (forall p x y, In (p, x) l1 -> In (p, y) l2 -> x = y) -> l1 = l2.
Proof.
  induction l1 as [|[p x] l1 IH]; intros [|[q y] l2] Hm Hu; simpl in Hm; try discriminate; [reflexivity|].
  inversion Hm; subst q. f_equal.
  - f_equal. apply (Hu p); left; reflexivity.
  - apply IH; [assumption|]. intros p' x' y' Hi1 Hi2. apply (Hu p'); right; assumption.
Qed.

(* ------------------------------------------------------------------ *)
(* mexpr_matches looks at the nodes of the quantified type only        *)
(* ------------------------------------------------------------------ *)
Section MM.
  Variable v : var.
  Variable me : mexpr.
  Definition isT : path -> str -> bool := fun _ l => str_eqb l (vtype v).

  Lemma mm_filter l : mexpr_matches v me l = mexpr_matches v me (filter (selQ isT) l).
  Proof.
    induction l as [|[p s] l IH]; [reflexivity|]. rewrite mexpr_matches_cons. simpl filter.
    unfold selQ at 1, isT. simpl. destruct (str_eqb (lbl s) (vtype v)) eqn:E.
    - rewrite mexpr_matches_cons, E, IH. reflexivity.
    - exact IH.
  Qed.

  Definition mk_match (p : path) (s : tree) (mm : asg) : asg :=
    fold_left (fun acc kv => dict_set acc (fst kv) (p ++ fst (snd kv), snd (snd kv))) mm [(v, (p, s))].

  Lemma mm_In : forall l r, mexpr_matches v me l = Ok r -> forall na,
    In na r <-> exists p s mm, In (p, s) l /\ str_eqb (lbl s) (vtype v) = true /\
                  bind_match (me_trees me) s = Ok (Some mm) /\ complete_match s [] mm = true /\ na = mk_match p s mm.
  Proof.
    induction l as [|[p s] l IH]; intros r H na.
    - simpl in H. inversion H; subst. split; [intros [] | intros (p & s & mm & [] & _)].
    - rewrite mexpr_matches_cons in H. destruct (str_eqb (lbl s) (vtype v)) eqn:E.
      + destruct (bind_match (me_trees me) s) as [[mm|]|e] eqn:Eb; [| |discriminate].
        * destruct (mexpr_matches v me l) as [rest|e] eqn:Er; [|discriminate].
          specialize (IH rest eq_refl na). inversion H; subst r. clear H.
          destruct (complete_match s [] mm) eqn:Ec.
          -- split.
             ++ intros [<-|Hin]; [exists p, s, mm; repeat split; auto; left; reflexivity|].
                apply IH in Hin as (p' & s' & mm' & Hi & Hrest). exists p', s', mm'. split; [right; assumption | assumption].
             ++ intros (p' & s' & mm' & [Hi|Hi] & Hl & Hb & Hcm & ->).
                ** inversion Hi; subst p' s'. rewrite Eb in Hb. inversion Hb; subst mm'. left. reflexivity.
                ** right. apply IH. exists p', s', mm'. auto.
          -- rewrite IH. split.
             ++ intros (p' & s' & mm' & Hi & Hrest). exists p', s', mm'. split; [right; assumption | assumption].
             ++ intros (p' & s' & mm' & [Hi|Hi] & Hl & Hb & Hcm & ->).
                ** inversion Hi; subst p' s'. rewrite Eb in Hb. inversion Hb; subst mm'. congruence.
                ** exists p', s', mm'. auto.
        * rewrite (IH r H na). split.
          -- intros (p' & s' & mm' & Hi & Hrest). exists p', s', mm'. split; [right; assumption | assumption].
          -- intros (p' & s' & mm' & [Hi|Hi] & Hl & Hb & Hrest).
             ++ inversion Hi; subst p' s'. rewrite Eb in Hb. discriminate.
             ++ exists p', s', mm'. auto.
      + rewrite (IH r H na). split.
        * intros (p' & s' & mm' & Hi & Hrest). exists p', s', mm'. split; [right; assumption | assumption].
        * intros (p' & s' & mm' & [Hi|Hi] & Hl & Hrest).
          -- inversion Hi; subst p' s'. congruence.
          -- exists p', s', mm'. auto.
  Qed.

  Lemma mm_incl l l' r r' : (forall x, In x (filter (selQ isT) l) -> In x l') ->
    mexpr_matches v me l = Ok r -> mexpr_matches v me l' = Ok r' -> forall na, In na r -> In na r'.
  Proof.
    intros Hsub H H' na Hin. apply (mm_In l r H) in Hin as (p & s & mm & Hi & Hl & Hrest).
    apply (mm_In l' r' H'). exists p, s, mm. split; [|auto].
    apply Hsub. apply filter_In. split; [assumption | exact Hl].
  Qed.
End MM.

(* ------------------------------------------------------------------ *)
(* the quantifier with a match expression                              *)
(* ------------------------------------------------------------------ *)
Definition quant_rest_mx (qmm : var -> path -> option mexpr -> asg -> path -> bool) (u : tree)
           (is_forall : bool) (v : var) (me : mexpr) (body : asg -> res TV) (a : asg) (ip : path) (inst : tree) : res TV :=
  match (match mexpr_matches v me (nodes inst) with
         | Raise e => Raise e
         | Ok l => Ok (map (map (fun kv : var * (path * tree) => (fst kv, (ip ++ fst (snd kv), snd (snd kv))))) l)
         end) with
  | Raise e => Raise e
  | Ok news0 =>
      let news := map (fun na => dict_union na a) news0 in
      if negb (forallb (asg_ok u) news) then Raise AssertErr else
      let potential := existsb (fun ps => qmm v ip (Some me) a (fst ps)) (open_leaves u) in
      if is_forall then
        if potential then Ok UU
        else match collect (map body news) with
             | Raise e => Raise e
             | Ok l => Ok (tv_all l)
             end
      else
        match collect (map body news) with
        | Raise e => Raise e
        | Ok l => let r := tv_any l in Ok (if negb (is_tt r) && potential then UU else r)
        end
  end.

Section StableMx.
  Variable qmm' : var -> path -> option mexpr -> asg -> path -> bool.
  Variable g : grammar.
  Variables t t' : tree.
  Hypothesis Hc : compl g t t'.
  Hypothesis Hcl : is_openT t' = false.
  Hypothesis Hu : uniq_ids t'.
  Hypothesis Hrc : reach_closedb g = true.

  (* guard on the type T of a quantifier with match expression: every T-node of t is a closed subtree *)
  Definition mx_ok (T : str) : Prop :=
    is_nt T = true /\ forall p n, subtree t p = Some n -> lbl n = T -> is_openT n = false.

  Lemma union_rel a a' na0 : asg_rel t t' a a' ->
    asg_ok t (dict_union na0 a) = true -> asg_ok t' (dict_union na0 a') = true ->
    asg_rel t t' (dict_union na0 a) (dict_union na0 a').
  Proof.
    intros Ha H H'. apply wrel_valid.
    - apply wrel_union; [eapply asg_rel_wrel; eassumption | apply wrel_refl].
    - apply asg_ok_valid; [exact (compl_shape_ok g t t' Hc) | assumption].
    - apply asg_ok_valid; [apply closed_shape_ok; assumption | assumption].
  Qed.

  Lemma quant_core_mx is_forall v me (body body' : asg -> res TV) a a' ip si si' r r' :
    asg_rel t t' a a' -> mx_ok (vtype v) ->
    (forall na na' x x', asg_rel t t' na na' -> body na = Ok x -> body' na' = Ok x' -> tv_le x x') ->
    subtree t ip = Some si -> subtree t' ip = Some si' ->
    quant_rest_mx (m3_qmm g t) t is_forall v me body a ip si = Ok r ->
    quant_rest_mx qmm' t' is_forall v me body' a' ip si' = Ok r' -> tv_le r r'.
  Proof.
    intros Ha [Hnt Hclosed] Hb Hip Hip' H H'. unfold quant_rest_mx in H, H'.
    destruct (mexpr_matches v me (nodes si)) as [l|e] eqn:El; [|discriminate].
    destruct (mexpr_matches v me (nodes si')) as [l'|e] eqn:El'; [|discriminate].
    set (sh := map (fun kv : var * (path * tree) => (fst kv, (ip ++ fst (snd kv), snd (snd kv))))) in *.
    destruct (forallb (asg_ok t) (map (fun na => dict_union na a) (map sh l))) eqn:Hok; [|discriminate].
    destruct (forallb (asg_ok t') (map (fun na => dict_union na a') (map sh l'))) eqn:Hok'; [|discriminate].
    simpl negb in H, H'. cbv iota in H, H'.
    assert (Hol : open_leaves t' = []) by (unfold open_leaves; apply closed_no_open_nodes; assumption).
    rewrite Hol in H'. simpl existsb in H'.
    rewrite forallb_forall in Hok, Hok'.
    (* the in-trees are related *)
    assert (Hcs : compl g si si').
    { destruct (compl_keeps_nodes g ip t t' si Hc Hip) as (s2 & Hs2 & _ & _ & X). rewrite Hip' in Hs2. inversion Hs2; subst. exact X. }
    (* every T-node of si is the same T-node of si' *)
    assert (Hsub : forall x, In x (filter (selQ (isT v)) (nodes si)) -> In x (nodes si')).
    { intros [p n] Hin. apply filter_In in Hin as [Hin HT]. apply nodes_spec in Hin. unfold selQ, isT in HT. simpl in HT.
      apply str_eqb_eq in HT.
      destruct (compl_keeps_nodes g p si si' n Hcs Hin) as (n' & Hn' & _ & _ & Hcn).
      assert (Hcn0 : is_openT n = false). { apply (Hclosed (ip ++ p)); [rewrite subtree_app, Hip; assumption | assumption]. }
      rewrite (compl_closed_eq g n n' Hcn Hcn0) in Hn'. apply nodes_spec. assumption. }
    assert (Hincl : forall na, In na l -> In na l') by (apply (mm_incl v me (nodes si) (nodes si') l l' Hsub El El')).
    (* related assignments for the same match *)
    assert (Hrel : forall na0, In na0 l -> In na0 l' ->
              asg_rel t t' (dict_union (sh na0) a) (dict_union (sh na0) a')).
    { intros na0 Hi Hi'. apply union_rel; [assumption| |].
      - apply Hok. apply (in_map (fun na => dict_union na a)). apply (in_map sh). assumption.
      - apply Hok'. apply (in_map (fun na => dict_union na a')). apply (in_map sh). assumption. }
    rewrite !map_map in H, H'.
    match type of H with context [map ?f l] => set (F := f) in H end.
    match type of H' with context [map ?f l'] => set (F' := f) in H' end.
    destruct (existsb (fun ps => m3_qmm g t v ip (Some me) a (fst ps)) (open_leaves t)) eqn:Epot.
    - (* a potential match on t *)
      destruct is_forall; [left; congruence|].
      destruct (collect (map F l)) as [vs|e] eqn:Ev; [|discriminate].
      destruct (collect (map F' l')) as [vs'|e] eqn:Ev'; [|discriminate].
      rewrite andb_false_r in H'. rewrite andb_true_r in H. inversion H; inversion H'; subst.
      destruct (tv_any vs) eqn:Et; simpl; try (left; reflexivity). right.
      apply tv_any_tt in Et. apply existsb_exists in Et as (y & Hy & Hyt). destruct y; try discriminate.
      destruct (Forall2_In_r _ _ _ _ (collect_Forall2 F l vs Ev) Hy) as (na0 & Hna0 & HF).
      pose proof (Hincl na0 Hna0) as Hna0'.
      destruct (Forall2_In_l _ _ _ _ (collect_Forall2 F' l' vs' Ev') Hna0') as (y' & Hy' & HF').
      destruct (Hb _ _ TT y' (Hrel na0 Hna0 Hna0') HF HF') as [X|X]; [discriminate|]. subst y'.
      symmetry. apply tv_any_tt. apply existsb_exists. exists TT. auto.
    - (* no potential match: no new node of type T, the same matches *)
      assert (Hnew : forall p x, subtree si' p = Some x -> subtree si p = None -> isT v p (lbl x) = false).
      { intros p x Hp Hn. unfold isT. destruct (str_eqb (lbl x) (vtype v)) eqn:E; [exfalso | reflexivity].
        apply str_eqb_eq in E. assert (Hntx : is_nt (lbl x) = true) by (rewrite E; assumption).
        destruct (compl_new_label g si si' p x Hrc Hcs Hp Hn Hntx) as (o & rr & n & -> & Hr & Ho & Hon & _ & Hreach).
        rewrite E in Hreach.
        assert (Hto : subtree t (ip ++ o) = Some n) by (rewrite subtree_app, Hip; assumption).
        assert (Hin : In (ip ++ o, n) (open_leaves t)).
        { unfold open_leaves. apply filter_In. split; [apply nodes_spec; assumption | exact Hon]. }
        pose proof (existsb_false_In _ _ _ Epot Hin) as X. simpl in X. unfold m3_qmm, qmm3 in X.
        rewrite Hto in X.
        assert (P : prefixb ip (ip ++ o) = true) by (apply prefixb_spec; exists o; reflexivity).
        rewrite P in X. simpl in X. rewrite Hreach in X. destruct (str_eqb (vtype v) (lbl n)); discriminate. }
      assert (Hsame : filter (selQ (isT v)) (nodes si') = filter (selQ (isT v)) (nodes si)).
      { apply eq_by_fst; [apply (sel_eq g si si' Hcs (isT v) Hnew)|].
        intros p x y Hx Hy. apply filter_In in Hy as [Hy HT].
        assert (Hy' : In (p, y) (nodes si')) by (apply Hsub; apply filter_In; auto).
        apply filter_In in Hx as [Hx _]. apply nodes_spec in Hx, Hy'. congruence. }
      assert (Ell : l' = l).
      { rewrite (mm_filter v me (nodes si')) in El'. rewrite (mm_filter v me (nodes si)) in El. rewrite Hsame in El'. congruence. }
      subst l'.
      destruct (collect (map F l)) as [vs|e] eqn:Ev; [|destruct is_forall; discriminate].
      destruct (collect (map F' l)) as [vs'|e] eqn:Ev'; [|destruct is_forall; discriminate].
      assert (Hl : Forall2 tv_le vs vs').
      { assert (HD : Forall2 (fun x x' : asg => x' = x) l l) by (clear; induction l; constructor; auto).
        eapply (collect_le F F' _ l l HD); [|exact Ev|exact Ev'].
        intros x x' y y' Hx Hx' -> Hy Hy'. eapply Hb; [|exact Hy|exact Hy']. apply Hrel; assumption. }
      destruct is_forall.
      + inversion H; inversion H'; subst. apply tv_all_mono. assumption.
      + rewrite andb_false_r in H, H'. inversion H; inversion H'; subst. apply tv_any_mono. assumption.
  Qed.

  Lemma quant_mono_mx is_forall v i i' me (body body' : asg -> res TV) a a' r r' :
    irel i i' -> asg_rel t t' a a' -> mx_ok (vtype v) ->
    (forall na na' x x', asg_rel t t' na na' -> body na = Ok x -> body' na' = Ok x' -> tv_le x x') ->
    eval_quant (m3_qmm g t) t is_forall v i (Some me) body a = Ok r ->
    eval_quant qmm' t' is_forall v i' (Some me) body' a' = Ok r' -> tv_le r r'.
  Proof.
    intros Hi Ha Hq Hb H H'. unfold eval_quant in H, H'. destruct Hi as [w | s s' Hts].
    - pose proof (rel_get t t' a a' w Ha) as G.
      destruct (dict_get a w) as [[ip si]|]; [|discriminate H].
      destruct (dict_get a' w) as [[ip' si']|]; [|contradiction G].
      simpl in G. destruct G as (-> & Hsi & Hsi').
      exact (quant_core_mx is_forall v me body body' a a' ip si si' r r' Ha Hq Hb Hsi Hsi' H H').
    - destruct (find_by_id t s) as [[ip si]|] eqn:F; [|discriminate H].
      destruct (find_by_id t' s') as [[ip' si']|] eqn:F'; [|discriminate H'].
      destruct (find_by_id_compl g t t' s s' ip si ip' si' Hc Hu Hts F F') as (-> & Hsi & Hsi').
      exact (quant_core_mx is_forall v me body body' a a' ip si si' r r' Ha Hq Hb Hsi Hsi' H H').
  Qed.
End StableMx.
