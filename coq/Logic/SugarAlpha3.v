(* C08 wave 4 — boolean guard of the alpha-renaming theorem, exported statement, the premise dom_ren holds for the
   tree domains dom_t and for dom_k, and the REFUTATION of the unguarded statement (an invented name captures a free
   variable: new defect class K_uniq_capture). *)
From Coq Require Import List NArith Bool Arith Lia.
Import ListNotations.
From ISLA Require Import Str Outcome Tree Grammar Formula Sugar SugarFacts SugarMore SugarXPath SugarTotal SugarClose SugarUniq SugarWalk
  SugarCompose SugarFresh SugarAlpha SugarAlpha2.

Definition scopedb (U : list str) (f : cform) : bool :=
  forallb (fun x => negb (is_vbound x) || smem (vname x) U ||
                    forallb (fun y => negb (str_eqb (strip_idx (vname y)) (strip_idx (vname x)))) (binders f)) (fv f).
Definition smallb (U : list str) (f : cform) : bool := (N.of_nat (length U + length (binders f)) <? BIG)%N.
(* guard of the alpha-renaming theorem *)
Definition uniq_ok (U : list str) (f : cform) : bool :=
  arity_ok f && nosh f && vbound_all f && inq_ok f && scopedb U f && smallb U f.

Lemma uniq_ok_use : forall U f, uniq_ok U f = true -> goodS f /\ scopedS U f /\ smallB U f.
Proof.
  intros U f H. unfold uniq_ok in H.
  apply andb_true_iff in H as [H H6]. apply andb_true_iff in H as [H H5]. apply andb_true_iff in H as [H H4].
  apply andb_true_iff in H as [H H3]. apply andb_true_iff in H as [H1 H2].
  split; [repeat split; assumption|]. split.
  - intros x Hx Hk. unfold scopedb in H5. rewrite forallb_forall in H5. specialize (H5 x Hx).
    apply orb_true_iff in H5 as [H5|H5].
    + apply orb_true_iff in H5 as [H5|H5].
      * unfold is_vbound in H5. rewrite Hk in H5. discriminate.
      * left. apply smem_In. exact H5.
    + right. intros y Hy E. rewrite forallb_forall in H5. specialize (H5 y Hy). rewrite E, str_eqb_refl in H5. discriminate.
  - unfold smallB. unfold smallb in H6. apply N.ltb_lt in H6. exact H6.
Qed.

(* exported form *)
Theorem uniq_sound_guard : forall (D : Type) aev pev (dom : D -> var -> option mexpr -> list (list (var * D))) idom tval,
  (forall d v m k, mexpr_eqb m k = true -> dom d v m = dom d v k) ->
  (forall d v m asg, In asg (dom d v m) -> forall x, existsb (fun p => var_eqb (fst p) x) asg = vmem x (qbound v m)) ->
  (forall s d v m, kt_pres (rlook s) -> dom d (rlook s v) (sub_me s m) = map (ren_asg (rlook s)) (dom d v m)) ->
  forall n U f f' U', uniq n U f = Ok (f', U') -> uniq_ok U f = true ->
    (forall rho, ev D aev pev dom idom tval rho f' = ev D aev pev dom idom tval rho f) /\ incl U U'.
Proof.
  intros D aev pev dom idom tval He Hk Hr n U f f' U' H Hg.
  destruct (uniq_ok_use U f Hg) as [G [S B]].
  destruct (uniq_sound D aev pev dom idom tval He Hk Hr n U f f' U' H G S B) as [Sem [Hi _]]. split; assumption.
Qed.

(* ---------- dom_ren holds for the tree semantics of match expressions ---------- *)
Lemma match_elems_ren : forall (r : var -> var), kt_pres r -> forall es ks,
  match_elems (map r es) ks = option_map (ren_asg r) (match_elems es ks).
Proof.
  intros r Hkt. induction es as [|e es IH]; intros [|k ks]; simpl; try reflexivity.
  destruct (Hkt e) as [Hk Ht]. rewrite Ht. destruct (str_eqb (vtype e) (lbl k)); [|reflexivity].
  rewrite IH. destruct (match_elems es ks) as [a|]; simpl; [|reflexivity]. rewrite Hk. destruct (vk e); reflexivity.
Qed.

Lemma dom_t_ren : forall cands s d v m, kt_pres (rlook s) ->
  dom_t cands d (rlook s v) (sub_me s m) = map (ren_asg (rlook s)) (dom_t cands d v m).
Proof.
  intros cands s d v m Hkt. destruct (Hkt v) as [_ Ht]. unfold dom_t. rewrite Ht. destruct m as [[el tr]|]; simpl.
  - induction (cands d (vtype v)) as [|t l IHl]; simpl; [reflexivity|]. rewrite map_app, <- IHl. f_equal.
    rewrite (match_elems_ren (rlook s) Hkt). destruct (match_elems el (kids t)); reflexivity.
  - rewrite map_map. reflexivity.
Qed.

Lemma me_bound_ren : forall s m, kt_pres (rlook s) -> me_bound (sub_me s m) = map (rlook s) (me_bound m).
Proof.
  intros s [[el tr]|] Hkt; simpl; [|reflexivity]. induction el as [|e el IH]; simpl; [reflexivity|].
  destruct (Hkt e) as [Hk _]. rewrite Hk. destruct (vk e); simpl; rewrite IH; reflexivity.
Qed.

Lemma dom_k_ren : forall (c : str) s d v m, kt_pres (rlook s) ->
  dom_k (fun _ => c) d (rlook s v) (sub_me s m) = map (ren_asg (rlook s)) (dom_k (fun _ => c) d v m).
Proof.
  intros c s d v m Hkt. unfold dom_k. simpl. rewrite (me_bound_ren s m Hkt). unfold ren_asg. rewrite !map_map. reflexivity.
Qed.

(* ---------- REFUTATION of the unguarded statement: an invented name captures a free variable ----------
   (exists <a> a in start: a = "x") and (forall <a> a in start: a = <a>)
   The free <a> is registered as a_0 (fresh w.r.t. the user-written name a); the uniqueness pass, whose used-name set
   starts EMPTY, renames the second binder a to a_0 as well: forall <a> a_0 in start: a_0 = a_0.  The closure of <a> then
   finds no free occurrence.  Documented: forall <a> a_0 in start: ((exists a: a = "x") and (forall a: a = a_0)). *)
Definition S_cap : sform :=
  SAnd (SQ false (nt 97) (Some [97]%N) InDefault None (SAtom true 1 [TVar [97]%N]))
       (SQ true (nt 97) (Some [97]%N) InDefault None (SAtom true 50 [TVar [97]%N; TFree (nt 97)])).
Definition va0 : var := MkVar VBound [97; 95; 48]%N (nt 97).
Definition sugar_cap : cform :=
  FAnd [FExists va (InVar start_c) None (FSmt (MkAtom false 1 [va]));
        FForall va0 (InVar start_c) None (FSmt (MkAtom false 50 [va0; va0]))].
Definition doc_cap : cform :=
  FForall va0 (InVar start_c) None
    (FAnd [FExists va (InVar start_c) None (FSmt (MkAtom false 1 [va]));
           FForall va (InVar start_c) None (FSmt (MkAtom false 50 [va; va0]))]).
(* a domain with two <a> nodes "x" and "z" (input xz); it satisfies all three premises about domains *)
Definition dom_kk (cv c : str) (d : str) (v : var) (m : option mexpr) : list (list (var * str)) :=
  [(v, cv) :: map (fun w => (w, c)) (me_bound m)].
Definition dom_2 (d : str) (v : var) (m : option mexpr) : list (list (var * str)) :=
  dom_kk [120]%N [120]%N d v m ++ dom_kk [122]%N [120]%N d v m.
Definition aev_c (id : N) (args : list str) : bool :=
  match args with
  | [d] => str_eqb d [120]%N
  | [d1; d2] => str_eqb d1 d2
  | _ => false
  end.
Definition ev_c := ev str aev_c (fun _ _ => false) dom_2 [] (fun _ => []).

Lemma dom_kk_keys : forall cv c d v m asg, In asg (dom_kk cv c d v m) ->
  forall x, existsb (fun p => var_eqb (fst p) x) asg = vmem x (qbound v m).
Proof.
  intros cv c d v m asg [<-|[]] x. apply eq_true_iff_eq. rewrite vmem_In, qbound_In, existsb_exists. split.
  - intros [p [[<-|Hp] E]]; simpl in E; apply var_eqb_eq in E; subst x; [left; reflexivity|right].
    apply in_map_iff in Hp as [w [<- Hw]]. exact Hw.
  - intros [->|H].
    + exists (v, cv). split; [left; reflexivity|apply var_eqb_refl].
    + exists (x, c). split; [right; apply in_map_iff; exists x; auto|apply var_eqb_refl].
Qed.
Lemma dom_2_keys : forall d v m asg, In asg (dom_2 d v m) ->
  forall x, existsb (fun p => var_eqb (fst p) x) asg = vmem x (qbound v m).
Proof. intros d v m asg H. unfold dom_2 in H. apply in_app_iff in H as [H|H]; eapply dom_kk_keys; exact H. Qed.
Lemma dom_2_ren : forall s d v m, kt_pres (rlook s) ->
  dom_2 d (rlook s v) (sub_me s m) = map (ren_asg (rlook s)) (dom_2 d v m).
Proof.
  intros s d v m Hkt. unfold dom_2, dom_kk. simpl. rewrite (me_bound_ren s m Hkt). unfold ren_asg. rewrite !map_map. reflexivity.
Qed.
Lemma dom_2_ext : forall d v m k, mexpr_eqb m k = true -> dom_2 d v m = dom_2 d v k.
Proof.
  intros d v [[el tr]|] [[el' tr']|] H; simpl in H; try discriminate; [|reflexivity].
  assert (E : me_bound (Some (MkMexpr el tr)) = me_bound (Some (MkMexpr el' tr'))).
  { simpl. revert el' H. induction el as [|e el IH]; intros [|e' el'] H; simpl in H; try discriminate; [reflexivity|].
    apply andb_true_iff in H as [He Hl]. simpl. rewrite (IH _ Hl). unfold melem_eqb in He.
    destruct (vk e) eqn:K, (vk e') eqn:K'; try discriminate; try reflexivity;
      apply var_eqb_eq in He; subst e'; congruence. }
  unfold dom_2, dom_kk. rewrite E. reflexivity.
Qed.

Theorem uniq_capture_refuted :
  elab G0 S_cap = Ok sugar_cap /\ elab_doc_nox S_cap = Ok doc_cap /\
  ev_c rho0 sugar_cap = true /\ ev_c rho0 doc_cap = false /\
  (exists st f0, walk0 S_cap = Ok (st, f0) /\ uniq_ok [] f0 = false /\ nodupb (names (binders f0)) = false).
Proof.
  split; [vm_compute; reflexivity|]. split; [vm_compute; reflexivity|]. split; [vm_compute; reflexivity|].
  split; [vm_compute; reflexivity|]. eexists. eexists. split; [vm_compute; reflexivity|]. split; vm_compute; reflexivity.
Qed.

(* non-vacuity of the alpha-renaming theorem: two sibling quantifiers over the same variable; the pass renames the
   second one, the guard holds *)
Definition f_dup : cform :=
  FAnd [FForall va (InVar start_c) None (FSmt (MkAtom false 1 [va])); FForall va (InVar start_c) None (FSmt (MkAtom false 2 [va]))].
Example uniq_sound_nonvacuous :
  uniq_ok [] f_dup = true /\
  uniq 4 [] f_dup = Ok (FAnd [FForall va (InVar start_c) None (FSmt (MkAtom false 1 [va]));
                               FForall va0 (InVar start_c) None (FSmt (MkAtom false 2 [va0]))], [[97]; [97; 95; 48]]%N).
Proof. split; vm_compute; reflexivity. Qed.
