(* MODEL of isla/evaluator.py: `evaluate` (dispatch) and `evaluate_legacy` with its handlers,
   `matches_for_quantified_formula`, `language.match`, `BindExpression.match`, the quantifier
   domain through `SubtreesTrie`, structural predicates by path (Preds.v), `count`.
   No proofs in this file.

   What is a parameter (Section variable) and why:
   * SMT atoms are abstract (type A).  afree = SMTFormula.free_variables(); aopen = "some tree in
     formula.substitutions is open"; aeval = evaluate_z3_expression + process_translation, with the
     Z3 fallback, on the assignments dictionary (result TT/FF/UU or an exception; DomainError is
     already turned into FF there); ainst = SMTFormula.substitute_expressions({const: tree}).
     A concrete family with its evaluation function is defined at the end of the file (atom).
   * qmm = quantified_formula_might_match (only consulted for OPEN leaves of the reference tree).
   * reach = grammar-graph reachability (count on open trees); count_open = the tree-insertion
     search of `count` on open trees that lack needles (unmodelled; C06 guards it).
   * strategy2 = eliminate_quantifiers + one Z3 validity query (numeric quantifiers): modelled at
     the dispatch level only.
   Match-expression prefix trees (me_trees) are INPUTS (DESIGN.md C03).

   Python dictionaries are association lists in insertion order with update-in-place. *)
From ISLA Require Export Formula Outcome Preds IslaNames.
From Coq Require Import ZArith.

Inductive TV := TT | FF | UU.

Definition tv_eqb (a b : TV) : bool :=
  match a, b with TT, TT | FF, FF | UU, UU => true | _, _ => false end.
Definition tv_of_bool (b : bool) : TV := if b then TT else FF.
Definition is_tt (x : TV) := match x with TT => true | _ => false end.
Definition is_ff (x : TV) := match x with FF => true | _ => false end.
Definition is_uu (x : TV) := match x with UU => true | _ => false end.
(* three_valued_truth.py: all / any / not_ *)
Definition tv_all (l : list TV) : TV :=
  if existsb is_ff l then FF else if existsb is_uu l then UU else TT.
Definition tv_any (l : list TV) : TV :=
  if existsb is_tt l then TT else if existsb is_uu l then UU else FF.
Definition tv_not (x : TV) : TV := match x with TT => FF | FF => TT | UU => UU end.

(* ---- dictionaries Variable -> (Path, DerivationTree) ---- *)
Definition asg := list (var * (path * tree)).

Fixpoint dict_get {B} (d : list (var * B)) (v : var) : option B :=
  match d with
  | [] => None
  | (k, x) :: d' => if var_eqb k v then Some x else dict_get d' v
  end.
Definition dict_mem {B} (d : list (var * B)) (v : var) : bool :=
  match dict_get d v with Some _ => true | None => false end.
Fixpoint dict_set {B} (d : list (var * B)) (v : var) (x : B) : list (var * B) :=
  match d with
  | [] => [(v, x)]
  | (k, y) :: d' => if var_eqb k v then (k, x) :: d' else (k, y) :: dict_set d' v x
  end.
(* a | b : keys of a keep their place, values of b win, new keys of b are appended *)
Definition dict_union {B} (a b : list (var * B)) : list (var * B) :=
  fold_left (fun acc kx => dict_set acc (fst kx) (snd kx)) b a.

(* DerivationTree.__eq__: value, id, openness, children (recursively) *)
Fixpoint tree_eqb (a b : tree) : bool :=
  match a, b with
  | Node l i o ks, Node l' i' o' ks' =>
      str_eqb l l' && N.eqb i i' && Bool.eqb o o' &&
      (fix go (xs ys : list tree) : bool :=
         match xs, ys with
         | [], [] => true
         | x :: xs', y :: ys' => tree_eqb x y && go xs' ys'
         | _, _ => false
         end) ks ks'
  end.

(* next((path, subtree) for path, subtree in reference_tree.paths() if subtree.id == t.id) *)
Definition find_by_id (ref t : tree) : option (path * tree) :=
  find (fun ps => N.eqb (tid (snd ps)) (tid t)) (nodes ref).

(* keys that survive in the datrie-backed SubtreesTrie: alphabet chr(0..29), index i is stored
   as chr(i+2), so every path containing an index >= 28 is silently dropped (K_wide) *)
Definition trie_ok (p : path) : bool := forallb (fun i => Nat.ltb i 28) p.
Definition K_wide (p : path) : bool := negb (trie_ok p).

(* reference_tree.trie().get_subtrie(in_path).items(), as absolute (path, node) pairs, pre-order *)
Definition trie_items (ref : tree) (in_path : path) : list (path * tree) :=
  filter (fun ps => prefixb in_path (fst ps) && trie_ok (fst ps)) (nodes ref).

Definition is_nil {B} (l : list B) : bool := match l with [] => true | _ => false end.
Definition is_dummy (v : var) : bool := match vk v with VDummy => true | _ => false end.

(* exceptions crossing a generator frame: StopIteration becomes RuntimeError (PEP 479) *)
Definition gen_exn (e : exn) : exn := match e with StopIter => RuntimeErr | _ => e end.

(* list(generator of evaluate_legacy calls): all elements are evaluated, the first exception wins *)
Fixpoint collect {B} (l : list (res B)) : res (list B) :=
  match l with
  | [] => Ok []
  | Ok x :: l' => match collect l' with Ok xs => Ok (x :: xs) | Raise e => Raise e end
  | Raise e :: _ => Raise (gen_exn e)
  end.

(* a fresh DummyVariable created inside language.match: the Python name comes from a global
   counter and is unobservable; the model makes it unique per position *)
Definition fresh_dummy (here : path) (ty : str) : var :=
  MkVar VDummy (0%N :: map N.of_nat here) ty.

(* is_complete_match: every leaf of t lies below some matched path (made relative to t) *)
Definition complete_match (t : tree) (here : path) (r : asg) : bool :=
  forallb (fun leaf =>
     existsb (fun kv => prefixb (skipn (length here) (fst (snd kv))) (fst leaf)) r)
    (py_leaves t).

(* language.match(t, mexpr_tree, mexpr_var_paths, path_in_t);  Ok None = no match *)
Fixpoint py_match (m : tree) : tree -> list (var * path) -> path -> res (option asg) :=
  fun t P here =>
  match m with
  | Node lm _ om km =>
      if negb (str_eqb (lbl t) lm) || (negb om && is_nil km && opn t) then Ok None
      else if om || (is_nil km && negb (opn t) && is_nil (kids t)) then
        (* a leaf of the match-expression tree: "we have a match" *)
        if negb (forallb (fun vp => is_nil (snd vp)) P) then Raise AssertErr
        else if negb (is_nt (lbl t)) then
          if negb (forallb (fun vp => is_dummy (fst vp)) P) then Raise AssertErr
          else if negb (is_nil P) && negb (str_eqb (concat (map (fun vp => vtype (fst vp)) P)) (lbl t))
               then Raise AssertErr
          else match P with
               | [] => Ok (Some [])
               | [(v, _)] => Ok (Some [(v, (here, t))])
               | _ => Ok (Some [(fresh_dummy here (concat (map (fun vp => vtype (fst vp)) P)), (here, t))])
               end
        else if Nat.ltb 1 (length P) then Raise AssertErr
        else Ok (Some (map (fun vp => (fst vp, (here, t))) P))
      else if negb (Nat.eqb (length (kids t)) (length km)) then Ok None
      else if existsb (fun vp => is_nil (snd vp)) P then Raise IndexErr   (* path[0] on () *)
      else
        match
          (fix go (km ks : list tree) (i : nat) (acc : asg) : res (option asg) :=
             match km, ks with
             | k' :: r', k :: r =>
                 match py_match k' k
                         (flat_map (fun vp => match snd vp with
                                              | j :: tl => if Nat.eqb j i then [(fst vp, tl)] else []
                                              | [] => []
                                              end) P)
                         (here ++ [i]) with
                 | Raise e => Raise e
                 | Ok None => Ok None
                 | Ok (Some a) => go r' r (S i) (dict_union acc a)
                 end
             | _, _ => Ok (Some acc)
             end) km (kids t) 0 []
        with
        | Raise e => Raise e
        | Ok None => Ok None
        | Ok (Some r) => if complete_match t here r then Ok (Some r) else Raise AssertErr
        end
  end.

(* BindExpression.match: the FIRST prefix tree whose match is a non-empty dictionary *)
Fixpoint bind_match (trees : list (tree * list (var * path))) (t : tree) : res (option asg) :=
  match trees with
  | [] => Ok None
  | (m, P) :: rest =>
      match py_match m t P [] with
      | Raise e => Raise e
      | Ok (Some (x :: r)) => Ok (Some (x :: r))
      | Ok _ => bind_match rest t
      end
  end.

(* matches_for_quantified_formula(formula, grammar, in_tree, {}) with a match expression;
   paths relative to in_tree *)
Fixpoint mexpr_matches (v : var) (me : mexpr) (l : list (path * tree)) : res (list asg) :=
  match l with
  | [] => Ok []
  | (p, s) :: l' =>
      if str_eqb (lbl s) (vtype v) then
        match bind_match (me_trees me) s with
        | Raise e => Raise e
        | Ok None => mexpr_matches v me l'
        | Ok (Some mm) =>
            let na := fold_left (fun acc kv => dict_set acc (fst kv) (p ++ fst (snd kv), snd (snd kv)))
                                mm [(v, (p, s))] in
            let covered := forallb (fun leaf => existsb (fun kv => prefixb (fst (snd kv)) (fst leaf)) mm)
                                   (py_leaves s) in
            match mexpr_matches v me l' with
            | Raise e => Raise e
            | Ok rest => Ok (if covered then na :: rest else rest)
            end
        end
      else mexpr_matches v me l'
  end.

(* int(s) for the strings the harness produces: optional sign, ASCII digits *)
Definition py_int (s : str) : option Z :=
  let plain := match parse_dec s with Some n => Some (Z.of_N n) | None => None end in
  match s with
  | ch :: s' =>
      if N.eqb ch 45 then match parse_dec s' with Some n => Some (- Z.of_N n)%Z | None => None end
      else if N.eqb ch 43 then match parse_dec s' with Some n => Some (Z.of_N n) | None => None end
      else plain
  | [] => plain
  end.

Section Eval.
  Variable A : Type.
  Variable afree : A -> list var.
  Variable aopen : A -> bool.
  Variable aeval : A -> asg -> res TV.
  Variable ainst : var -> tree -> A -> res A.
  (* quantified_formula_might_match(instantiated formula, path_to_open_leaf, ...) *)
  Variable qmm : var -> path -> option mexpr -> asg -> path -> bool.
  Variable reach : str -> str -> bool.
  Variable count_open : tree -> str -> Z -> res TV.
  Variable strategy2 : tree -> formula A -> res TV.

  (* the reference tree *)
  Variable ref : tree.

  Definition open_leaves : list (path * tree) := filter (fun ps => opn (snd ps)) (nodes ref).

  (* ---- structural predicates ---- *)
  Inductive sarg := SPath (p : path) | SStr (s : str).

  Definition arg_inst (a : asg) (x : parg) : res sarg :=
    match x with
    | PStr s => Ok (SStr s)
    | PTree t => match find_by_id ref t with Some ps => Ok (SPath (fst ps)) | None => Raise StopIter end
    | PVar v => match dict_get a v with Some pt => Ok (SPath (fst pt)) | None => Raise KeyErr end
    end.

  Definition mapM {B C} (f : B -> res C) : list B -> res (list C) :=
    fix go (l : list B) : res (list C) :=
    match l with
    | [] => Ok []
    | x :: l' => match f x with
                 | Raise e => Raise e
                 | Ok y => match go l' with Ok ys => Ok (y :: ys) | Raise e => Raise e end
                 end
    end.

  Definition spred_call (name : str) (args : list sarg) : res bool :=
    match args with
    | [SPath p; SPath q] =>
        if str_eqb name s_before then Ok (is_before p q)
        else if str_eqb name s_after then Ok (is_after p q)
        else if str_eqb name s_inside then Ok (in_tree p q)
        else if str_eqb name s_same_position then Ok (is_same_position p q)
        else if str_eqb name s_different_position then Ok (is_different_position p q)
        else if str_eqb name s_direct_child then Ok (is_direct_child p q)
        else if str_eqb name s_consecutive then consecutive ref p q
        else Raise OtherErr
    | [SStr n; SPath p; SPath q] =>
        if str_eqb name s_nth then
          if negb (in_tree p q) then Ok false
          else match parse_dec n with
               | Some k => is_nth ref (N.to_nat k) p q
               | None => Raise AssertErr          (* assert isinstance(n, int) or n.isnumeric() *)
               end
        else Raise OtherErr
    | [SStr op; SStr nt; SPath p; SPath q] =>
        if str_eqb name s_level then
          match lvl_of_str op with
          | Some o => Ok (level_check ref o nt p q)
          | None => Raise AssertErr
          end
        else Raise OtherErr
    | _ => Raise OtherErr                          (* ill-typed call: not modelled *)
    end.

  Definition eval_spred (a : asg) (name : str) (args : list parg) : res TV :=
    match mapM (arg_inst a) args with
    | Raise e => Raise e
    | Ok l => match spred_call name l with Ok b => Ok (tv_of_bool b) | Raise e => Raise e end
    end.

  (* ---- semantic predicate count ---- *)
  Definition count_nodes (needle : str) (t : tree) : nat :=
    length (filter (fun ps => str_eqb (lbl (snd ps)) needle) (nodes t)).

  Definition count_eval (t : tree) (needle : str) (num : str) : res TV :=
    let n := Z.of_nat (count_nodes needle t) in
    let more := existsb (fun ps => reach (lbl (snd ps)) needle)
                        (filter (fun ps => opn (snd ps)) (nodes t)) in
    match py_int num with
    | None => Raise AssertErr
    | Some target =>
        if (target <? 0)%Z || (target <? n)%Z then Ok FF
        else if negb more then Ok (tv_of_bool (n =? target)%Z)
        else if (n =? target)%Z then Ok UU
        else count_open t needle target
    end.

  Definition eval_sempred (a : asg) (name : str) (args : list parg) : res TV :=
    if negb (str_eqb name s_count) then Raise OtherErr else
    match args with
    | [x; PStr needle; y] =>
        let intree := match x with
                      | PTree t => Some t
                      | PVar v => match dict_get a v with Some pt => Some (snd pt) | None => None end
                      | PStr _ => None
                      end in
        match x, intree with
        | PStr _, _ => Raise OtherErr
        | _, None => Ok UU                       (* in_tree still a Variable: "not ready" *)
        | _, Some t =>
            match y with
            | PStr num => count_eval t needle num
            | PTree nt => if is_nil (kids nt) then count_eval t needle (lbl nt) else Raise AssertErr
            | PVar w =>
                match dict_get a w with
                | Some pt => if is_nil (kids (snd pt)) then count_eval t needle (lbl (snd pt))
                             else Raise AssertErr
                | None =>
                    (* NUM is an unassigned variable: count reports the number; a BoundVariable
                       gives UNKNOWN, a Constant is accepted (the dictionary update that Python
                       performs here is NOT modelled: out of the property's scope) *)
                    if existsb (fun ps => reach (lbl (snd ps)) needle)
                               (filter (fun ps => opn (snd ps)) (nodes t)) then Ok UU
                    else match vk w with VConst => Ok TT | _ => Ok UU end
                end
            end
        end
    | _ => Raise OtherErr
    end.

  (* ---- quantifiers ---- *)
  (* the assert after the assignments are built *)
  Definition asg_ok (a : asg) : bool :=
    forallb (fun kv =>
       let p := fst (snd kv) in let t := snd (snd kv) in
       match subtree ref p with Some _ => true | None => false end
       && existsb (fun ps => N.eqb (tid (snd ps)) (tid t)) (nodes ref)
       && match py_get_subtree ref p with Ok (Some s) => tree_eqb s t | _ => false end) a.

  Definition eval_quant (is_forall : bool) (v : var) (i : invar) (m : option mexpr)
             (body : asg -> res TV) (a : asg) : res TV :=
    match (match i with
           | InTree t => match find_by_id ref t with Some ps => Ok ps | None => Raise StopIter end
           | InVar w => match dict_get a w with Some pt => Ok pt | None => Raise AssertErr end
           end) with
    | Raise e => Raise e
    | Ok (in_path, in_inst) =>
        match (match m with
               | None => Ok (map (fun ps => [(v, ps)])
                                 (filter (fun ps => str_eqb (lbl (snd ps)) (vtype v)) (trie_items ref in_path)))
               | Some me =>
                   match mexpr_matches v me (nodes in_inst) with
                   | Raise e => Raise e
                   | Ok l => Ok (map (map (fun kv => (fst kv, (in_path ++ fst (snd kv), snd (snd kv))))) l)
                   end
               end) with
        | Raise e => Raise e
        | Ok news =>
            let news := map (fun na => dict_union na a) news in
            if negb (forallb asg_ok news) then Raise AssertErr else
            let potential := existsb (fun ps => qmm v in_path m a (fst ps)) open_leaves in
            if is_forall then
              if potential then Ok UU
              else match collect (map body news) with
                   | Raise e => Raise e
                   | Ok l => Ok (tv_all l)
                   end
            else
              match collect (map body news) with
              | Raise e => Raise e
              | Ok l => let r := tv_any l in
                        Ok (if negb (is_tt r) && potential then UU else r)
              end
        end
    end.

  (* ---- evaluate_legacy ---- *)
  Fixpoint eval_legacy (f : formula A) (a : asg) {struct f} : res TV :=
    match f with
    | FExistsInt _ _ => Raise NotImpl
    | FForallInt _ _ => Raise NotImpl
    | FSmt x =>
        if existsb (fun v => negb (dict_mem a v)) (afree x) || aopen x then Ok UU else aeval x a
    | FForall v i m body => eval_quant true v i m (fun a' => eval_legacy body a') a
    | FExists v i m body => eval_quant false v i m (fun a' => eval_legacy body a') a
    | FSPred n args => eval_spred a n args
    | FSemPred n args => eval_sempred a n args
    | FNot g => match eval_legacy g a with Ok x => Ok (tv_not x) | Raise e => Raise e end
    | FAnd fs => match collect (map (fun g => eval_legacy g a) fs) with
                 | Ok l => Ok (tv_all l) | Raise e => Raise e end
    | FOr fs => match collect (map (fun g => eval_legacy g a) fs) with
                | Ok l => Ok (tv_any l) | Raise e => Raise e end
    end.

  (* ---- instantiate_top_level_constant ---- *)
  (* Formula.free_variables() *)
  Definition remove_var (v : var) (l : list var) : list var := filter (fun w => negb (var_eqb w v)) l.
  Definition parg_vars (args : list parg) : list var :=
    flat_map (fun x => match x with PVar v => [v] | _ => [] end) args.
  Fixpoint fvars (f : formula A) : list var :=
    match f with
    | FSmt x => afree x
    | FSPred _ args | FSemPred _ args => parg_vars args
    | FNot g => fvars g
    | FAnd fs | FOr fs => flat_map fvars fs
    | FForall v i m b | FExists v i m b =>
        let bound := v :: match m with
                          | Some me => filter (fun w => match vk w with VBound => true | _ => false end) (me_elems me)
                          | None => []
                          end in
        fold_left (fun acc w => remove_var w acc) bound
                  ((match i with InVar w => [w] | InTree _ => [] end) ++ fvars b)
    | FForallInt v b | FExistsInt v b => remove_var v (fvars b)
    end.

  Definition has_numq := fix has_numq (f : formula A) : bool :=
    match f with
    | FSmt _ | FSPred _ _ | FSemPred _ _ => false
    | FNot g => has_numq g
    | FAnd fs | FOr fs => existsb has_numq fs
    | FForall _ _ _ b | FExists _ _ _ b => has_numq b
    | FForallInt _ _ | FExistsInt _ _ => true
    end.

  Section Inst.
    Variable cst : var.
    Definition inst_arg (x : parg) : parg :=
      match x with PVar v => if var_eqb v cst then PTree ref else x | _ => x end.
    Definition inst_in (i : invar) : invar :=
      match i with InVar v => if var_eqb v cst then InTree ref else i | _ => i end.

    (* formula.substitute_expressions({cst: ref}).  As of /repo commit 0230f8f (fix of the former
       finding K_vacuous_forall) ForallFormula.substitute_expressions KEEPS a universal quantifier
       whose body does not mention the bound variable; before, it returned the body.
       Not modelled: the `&` / `|` smart constructors used to rebuild conjunctions/disjunctions
       (idempotence, true/false units, a & not a): they re-nest n-ary connectives to binary ones and
       do not change verdicts on closed trees. *)
    Fixpoint inst_const (f : formula A) : res (formula A) :=
      match f with
      | FSmt x => match ainst cst ref x with Ok y => Ok (FSmt y) | Raise e => Raise e end
      | FSPred n args => Ok (FSPred n (map inst_arg args))
      | FSemPred n args => Ok (FSemPred n (map inst_arg args))
      | FNot g => match inst_const g with Ok g' => Ok (FNot g') | Raise e => Raise e end
      | FAnd fs => match mapM inst_const fs with Ok l => Ok (FAnd l) | Raise e => Raise e end
      | FOr fs => match mapM inst_const fs with Ok l => Ok (FOr l) | Raise e => Raise e end
      | FForall v i m b =>
          match inst_const b with Ok b' => Ok (FForall v (inst_in i) m b') | Raise e => Raise e end
      | FExists v i m b =>
          match inst_const b with Ok b' => Ok (FExists v (inst_in i) m b') | Raise e => Raise e end
      | FForallInt v b => match inst_const b with Ok b' => Ok (FForallInt v b') | Raise e => Raise e end
      | FExistsInt v b => match inst_const b with Ok b' => Ok (FExistsInt v b') | Raise e => Raise e end
      end.

    (* evaluate(formula, reference_tree, grammar) without assumptions *)
    Definition evaluate (f : formula A) : res TV :=
      match (if existsb (var_eqb cst) (fvars f) then inst_const f else Ok f) with
      | Raise e => Raise e
      | Ok f' => if has_numq f' then strategy2 ref f' else eval_legacy f' []
      end.

    (* ISLaSolver.check(tree): UNKNOWN raises UnknownResultError *)
    Definition solver_check (f : formula A) : res bool :=
      match evaluate f with
      | Raise e => Raise e
      | Ok TT => Ok true
      | Ok FF => Ok false
      | Ok UU => Raise OtherErr
      end.
  End Inst.
End Eval.

(* ------------------------------------------------------------------ *)
(* a concrete family of SMT atoms (the harness generates exactly these): string (in)equality
   between variables and literals, comparisons of str.len with an integer literal, true/false.
   ISLa evaluates them on its fast path (evaluate_z3_expression), without Z3.               *)
(* ------------------------------------------------------------------ *)
Inductive sterm := SVar (v : var) | SLit (s : str).
Inductive cmp := CEq | CNe | CLt | CLe | CGt | CGe.
Inductive atom :=
| AStr (neg : bool) (x y : sterm)        (* (= x y)  /  (not (= x y)) *)
| ALen (op : cmp) (x : sterm) (n : Z)    (* (op (str.len x) n) *)
| ABool (b : bool).

Definition sterm_vars (x : sterm) : list var := match x with SVar v => [v] | SLit _ => [] end.
Fixpoint nodup_vars (l : list var) : list var :=
  match l with
  | [] => []
  | v :: l' => if existsb (var_eqb v) l' then nodup_vars l' else v :: nodup_vars l'
  end.
Definition atom_free (x : atom) : list var :=
  match x with
  | AStr _ s t => nodup_vars (sterm_vars s ++ sterm_vars t)
  | ALen _ s _ => sterm_vars s
  | ABool _ => []
  end.

(* var_map = {var.name: var for var in assignments}; assignments[var_map[name]][1] *)
Definition by_name (a : asg) (name : str) : option tree :=
  match find (fun kv => str_eqb (vname (fst kv)) name) (rev a) with
  | Some kv => Some (snd (snd kv))
  | None => None
  end.

Definition sterm_val (a : asg) (x : sterm) : option str :=
  match x with
  | SLit s => Some s
  | SVar v => match by_name a (vname v) with Some t => Some (yield t) | None => None end
  end.

Definition cmp_eval (op : cmp) (x y : Z) : bool :=
  match op with
  | CEq => Z.eqb x y | CNe => negb (Z.eqb x y) | CLt => Z.ltb x y
  | CLe => Z.leb x y | CGt => Z.ltb y x | CGe => Z.leb y x
  end.

Definition atom_eval (x : atom) (a : asg) : res TV :=
  match x with
  | ABool b => Ok (tv_of_bool b)
  | AStr neg s t =>
      match sterm_val a s, sterm_val a t with
      | Some u, Some w => Ok (tv_of_bool (xorb neg (str_eqb u w)))
      | _, _ => Raise KeyErr
      end
  | ALen op s n =>
      match sterm_val a s with
      | Some u => Ok (tv_of_bool (cmp_eval op (Z.of_nat (length u)) n))
      | None => Raise KeyErr
      end
  end.

(* substitute_expressions({cst: t}) on an atom: a closed tree is inlined as its string; if the
   atom becomes ground it is evaluated at once (smt_atom(is_valid(..).to_bool())) *)
Definition sterm_inst (cst : var) (t : tree) (x : sterm) : sterm :=
  match x with SVar v => if var_eqb v cst then SLit (yield t) else x | _ => x end.
Definition atom_inst (cst : var) (t : tree) (x : atom) : res atom :=
  if is_openT t then Raise NotImpl     (* open reference tree: kept as a substitution; see aopen *)
  else
  let y := match x with
           | AStr neg s u => AStr neg (sterm_inst cst t s) (sterm_inst cst t u)
           | ALen op s n => ALen op (sterm_inst cst t s) n
           | ABool b => ABool b
           end in
  if existsb (var_eqb cst) (atom_free x) && is_nil (atom_free y)
  then match atom_eval y [] with Ok TT => Ok (ABool true) | Ok FF => Ok (ABool false)
                               | Ok UU => Raise AssertErr | Raise e => Raise e end
  else Ok y.
