(* C20 proof extension — composition of the predicate model (SemPreds.v) with the Earley model of
   C10 (Grammar/Earley.v) through mk_parse (SemPredsParser.v).  The abstract parser premise of
   SemPredsFacts.Replacement is discharged by C10's theorems applied to the specialised grammar
   (Grammar/EarleySpecialise.v). *)
From ISLA Require Import SemPreds SemPredsFacts SemPredsParser.
From ISLA Require Import Grammar GrammarFacts Earley EarleyFacts EarleyPrune EarleyTop EarleyTrees
  EarleyComplete EarleyForest EarleyFuel EarleyWrap EarleySpecialise.
From Coq Require Import Lia ZArith List Bool.
Import ListNotations.

Lemma mk_grammar_spec g nt : mk_grammar g nt = spec_grammar g nt.
Proof. reflexivity. Qed.

(* ------------------------------------------------------------------------------------ *)
(* mk_parse: soundness, SyntaxError, outcomes                                            *)
(* ------------------------------------------------------------------------------------ *)
Section MkParse.
  Variable g : grammar.
  Variables fxA fxB : bool.
  Variable fuel : nat.
  Variable nt : str.
  Hypothesis Hgood : good_grammar g.
  Hypothesis Hnd : NoDup (map fst g).
  Hypothesis Hwrap : defined g WRAP = false.
  Hypothesis Hnt : defined g nt = true.
  Let G' := mk_grammar g nt.
  Hypothesis HfxB : fxB = true \/ K_recstart G' START START = false.

  Let HgoodG : good_grammar G' := spec_good g nt Hgood Hnt.
  Let HndG : NoDup (map fst G') := spec_NoDup g nt Hnd.
  Let HwrapG : defined G' WRAP = false := spec_no_WRAP g nt Hwrap.
  Let HstartG : defined G' START = true := spec_defined_START g nt.
  Let HfxA : fxA = true \/ K_multistart G' START = false := or_intror (spec_single_start g nt).

  Lemma earley_head_child w t ts :
    earley_parse fxA fxB fuel G' START START w 1 = Ok (t :: ts) ->
    exists k i, t = Node START i false [k] /\ lbl k = nt /\ wf_tree G' k /\ is_openT k = false
                /\ yield k = w /\ L G' START w.
  Proof.
    intro E.
    destruct (parse_sound_full fxA fxB fuel G' START START w 1 (t :: ts) t HgoodG HndG HwrapG HstartG HstartG
                HfxA HfxB E (or_introl eq_refl)) as (Hwf & Hc & Hl & Hy & HL).
    destruct (spec_root_shape g nt t Hwf Hl Hc) as (k & i & Et & Hk & Hwk).
    exists k, i. subst t. split; [reflexivity|]. split; [exact Hk|]. split; [exact Hwk|].
    cbn [is_openT existsb] in Hc. rewrite orb_false_r in Hc. cbn [orb] in Hc.
    cbn [yield flat_map] in Hy. rewrite app_nil_r in Hy.
    split; [exact Hc|]. split; [exact Hy | exact HL].
  Qed.

  (* the premise of the C20_*_replacement theorems, as a theorem (for the specialised grammar) *)
  Theorem mk_parse_sound_spec w r : mk_parse fxA fxB fuel g nt w = Ok r ->
    wf_tree G' r /\ lbl r = nt /\ is_openT r = false /\ yield r = w /\ L G' START w.
  Proof.
    unfold mk_parse. fold G'. destruct (earley_parse fxA fxB fuel G' START START w 1) as [[|t ts]|e] eqn:E; try discriminate.
    destruct (earley_head_child w t ts E) as (k & i & Et & Hk & Hwk & Hc & Hy & HL). subst t. cbn [kids].
    intro H. inversion H; subst r. repeat split; assumption.
  Qed.

  (* SyntaxError is raised only for strings outside the language (every fuel) *)
  Theorem mk_parse_reject_spec w : mk_parse fxA fxB fuel g nt w = Raise SyntaxErr -> ~ L G' START w.
  Proof.
    unfold mk_parse. fold G'. destruct (earley_parse fxA fxB fuel G' START START w 1) as [[|t ts]|e] eqn:E.
    - discriminate.
    - destruct (earley_head_child w t ts E) as (k & i & Et & _). subst t. cbn [kids]. discriminate.
    - intro H. inversion H; subst e. exact (reject_sound G' START fxA fxB fuel START w 1 HgoodG HstartG HstartG E).
  Qed.

  (* with enough fuel for the chart: exactly three outcomes *)
  Theorem mk_parse_outcomes_spec w : fuel_bound (cgram G' START) (length w) <= fuel ->
    (exists r, mk_parse fxA fxB fuel g nt w = Ok r /\ wf_tree G' r /\ lbl r = nt /\ is_openT r = false
               /\ yield r = w /\ L G' START w)
    \/ (mk_parse fxA fxB fuel g nt w = Raise SyntaxErr /\ ~ L G' START w)
    \/ (mk_parse fxA fxB fuel g nt w = Raise OutOfFuel /\ L G' START w).
  Proof.
    intro Hf.
    destruct (accepts_iff G' START fxA fxB fuel START w HgoodG HndG HwrapG HstartG HstartG HfxA HfxB Hf)
      as (b & _ & Hb).
    destruct b.
    - assert (HL : L G' START w) by (apply Hb; reflexivity).
      destruct (parse_member_outcomes G' START fxA fxB fuel START w 1 HgoodG HwrapG HstartG HstartG HfxA Hf
                  (le_n 1) HL) as [(ts & Hne & E)|E].
      + left. destruct ts as [|t ts]; [contradiction Hne; reflexivity|].
        destruct (earley_head_child w t ts E) as (k & i & Et & Hk & Hwk & Hc & Hy & _). subst t.
        exists k. unfold mk_parse. fold G'. rewrite E. cbn [kids]. repeat split; assumption.
      + right. right. split; [|exact HL]. unfold mk_parse. fold G'. rewrite E. reflexivity.
    - assert (HL : ~ L G' START w) by (intro H; apply Hb in H; discriminate).
      right. left. split; [|exact HL]. unfold mk_parse. fold G'.
      apply (syntaxerr_iff G' START fxA fxB fuel START w 1 HgoodG HndG HwrapG HstartG HstartG HfxA HfxB Hf) in HL.
      rewrite HL. reflexivity.
  Qed.
End MkParse.

(* ---- the same in terms of g itself: <start> on no right-hand side, nt not <start> ---- *)
Section MkParseG.
  Variable g : grammar.
  Variables fxA fxB : bool.
  Variable fuel : nat.
  Variable nt : str.
  Hypothesis Hcanon : canonical_form g = true.
  Hypothesis Hnd : NoDup (map fst g).
  Hypothesis Ho : occurs_rhs g START = false.
  Hypothesis Hnt : defined g nt = true.
  Hypothesis Hne : nt <> START.

  Let Hgood : good_grammar g := proj1 (canonical_form_good g Hcanon).
  Let Hwrap : defined g WRAP = false := proj2 (canonical_form_good g Hcanon).
  Let HfxB : fxB = true \/ K_recstart (mk_grammar g nt) START START = false :=
    or_intror (spec_no_recstart g nt Ho Hne).

  Theorem mk_parse_sound w r : mk_parse fxA fxB fuel g nt w = Ok r ->
    wf_tree g r /\ lbl r = nt /\ is_openT r = false /\ yield r = w /\ L g nt w.
  Proof.
    intro H. destruct (mk_parse_sound_spec g fxA fxB fuel nt Hgood Hnd Hwrap Hnt HfxB w r H) as (Hwf & Hl & Hc & Hy & HL).
    split; [|split; [exact Hl | split; [exact Hc | split; [exact Hy|]]]].
    - apply (spec_tree_transfer g nt Ho r); [rewrite Hl; exact Hne | exact Hwf].
    - apply (spec_language g nt Hgood Hnt Ho Hne). exact HL.
  Qed.

  Theorem mk_parse_reject w : mk_parse fxA fxB fuel g nt w = Raise SyntaxErr -> ~ L g nt w.
  Proof.
    intros H HL. apply (mk_parse_reject_spec g fxA fxB fuel nt Hgood Hnd Hwrap Hnt HfxB w H).
    apply (spec_language g nt Hgood Hnt Ho Hne). exact HL.
  Qed.

  Theorem mk_parse_outcomes w : fuel_bound (cgram (mk_grammar g nt) START) (length w) <= fuel ->
    (exists r, mk_parse fxA fxB fuel g nt w = Ok r /\ wf_tree g r /\ lbl r = nt /\ is_openT r = false
               /\ yield r = w /\ L g nt w)
    \/ (mk_parse fxA fxB fuel g nt w = Raise SyntaxErr /\ ~ L g nt w)
    \/ (mk_parse fxA fxB fuel g nt w = Raise OutOfFuel /\ L g nt w).
  Proof.
    intro Hf. pose proof (spec_language g nt Hgood Hnt Ho Hne w) as HLs.
    destruct (mk_parse_outcomes_spec g fxA fxB fuel nt Hgood Hnd Hwrap Hnt HfxB w Hf)
      as [(r & E & _)|[(E & HL)|(E & HL)]].
    - left. exists r. split; [exact E|]. apply mk_parse_sound. exact E.
    - right. left. split; [exact E|]. intro H. apply HL. apply HLs. exact H.
    - right. right. split; [exact E|]. apply HLs. exact HL.
  Qed.

  Theorem mk_parse_syntaxerr_iff w : fuel_bound (cgram (mk_grammar g nt) START) (length w) <= fuel ->
    (mk_parse fxA fxB fuel g nt w = Raise SyntaxErr <-> ~ L g nt w).
  Proof.
    intro Hf. destruct (mk_parse_outcomes w Hf) as [(r & E & _ & _ & _ & _ & HL)|[(E & HL)|(E & HL)]]; rewrite E.
    - split; [discriminate | intro H; contradiction].
    - split; [intros _; exact HL | reflexivity].
    - split; [discriminate | intro H; contradiction].
  Qed.

  (* "a tree is returned iff the string is in the language of nt": -> in full, <- up to the
     out-of-fuel outcome of the tree enumeration (C10_parse_member_outcomes_partial) *)
  Theorem mk_parse_ok_iff_partial w : fuel_bound (cgram (mk_grammar g nt) START) (length w) <= fuel ->
    mk_parse fxA fxB fuel g nt w <> Raise OutOfFuel ->
    ((exists r, mk_parse fxA fxB fuel g nt w = Ok r) <-> L g nt w).
  Proof.
    intros Hf Hno. destruct (mk_parse_outcomes w Hf) as [(r & E & _ & _ & _ & _ & HL)|[(E & HL)|(E & HL)]].
    - split; [intros _; exact HL | intros _; exists r; exact E].
    - rewrite E. split; [intros (r & Er); discriminate | intro H; contradiction].
    - contradiction.
  Qed.
End MkParseG.

(* ------------------------------------------------------------------------------------ *)
(* what the predicates ask the parser for                                                *)
(* ------------------------------------------------------------------------------------ *)
Lemma sem_eval_request parse fx c k nt s : pre_eval fx c = Ok (PParse k nt s) ->
  sem_eval parse fx c = bind (parse nt s) (fun r => Ok (SAssign k r)).
Proof. intro H. unfold sem_eval. rewrite H. reflexivity. Qed.

Lemma sem_eval_assign_inv parse fx c k r : sem_eval parse fx c = Ok (SAssign k r) ->
  (exists l, pre_eval fx c = Ok (PNum k l) /\ r = Node l 0%N true [])
  \/ (exists nt s, pre_eval fx c = Ok (PParse k nt s) /\ parse nt s = Ok r).
Proof.
  unfold sem_eval. destruct (pre_eval fx c) as [[b| |k' l|k' nt s|]|e]; cbn [bind finish]; try discriminate.
  - intro H. inversion H; subst. left. exists l. split; reflexivity.
  - destruct (parse nt s) as [r'|e] eqn:E; cbn [bind]; [|discriminate].
    intro H. inversion H; subst. right. exists nt, s. split; [reflexivity | exact E].
Qed.

(* crop: the tree is longer than the width -> the cropped string is parsed as lbl t *)
Lemma crop_request t wt n : is_openT t = false -> is_openT wt = false -> numeral 10 (yield wt) n ->
  N.to_nat n < length (yield t) ->
  crop (TTree t) (WTree wt) = Ok (PParse 0 (lbl t) (firstn (N.to_nat n) (yield t))).
Proof.
  intros Hc Hcw Hn Hlt. unfold crop. rewrite Hc, Hcw, (py_int_numeral 10 _ n (or_intror eq_refl) Hn).
  destruct (Z.leb_spec (Z.of_nat (length (yield t))) (Z.of_N n)) as [H|H]; [lia|].
  unfold py_take. destruct (Z.ltb_spec (Z.of_N n) 0) as [H0|H0]; [lia|].
  replace (Z.to_nat (Z.of_N n)) with (N.to_nat n) by lia. reflexivity.
Qed.

Lemma crop_request_inv t wt n k nt s : is_openT t = false -> is_openT wt = false -> numeral 10 (yield wt) n ->
  crop (TTree t) (WTree wt) = Ok (PParse k nt s) ->
  k = 0 /\ nt = lbl t /\ s = firstn (N.to_nat n) (yield t) /\ N.to_nat n < length (yield t).
Proof.
  intros Hc Hcw Hn. unfold crop. rewrite Hc, Hcw, (py_int_numeral 10 _ n (or_intror eq_refl) Hn).
  destruct (Z.leb_spec (Z.of_nat (length (yield t))) (Z.of_N n)) as [H|H]; [discriminate|].
  unfold py_take. destruct (Z.ltb_spec (Z.of_N n) 0) as [H0|H0]; [lia|].
  replace (Z.to_nat (Z.of_N n)) with (N.to_nat n) by lia. intro E. inversion E; subst. repeat split; lia.
Qed.

(* just: width differs from the length (and, without crop, exceeds it) -> the padded / cropped
   string is parsed as lbl t *)
Lemma just_request lj cr t w z fill c : is_openT t = false -> width_denotes w z ->
  fill_of fill (yield t) = Ok [c] ->
  Z.of_nat (length (yield t)) <> z -> (cr = true \/ (Z.of_nat (length (yield t)) < z)%Z) ->
  just lj cr (TTree t) w fill = Ok (PParse 0 (lbl t) (just_output lj cr c z (yield t))).
Proof.
  intros Hc Hw Hf Hne Hcr. rewrite (just_cases lj cr t w z fill Hc Hw), Hf. unfold just_body.
  destruct (Z.eqb_spec (Z.of_nat (length (yield t))) z) as [E|E]; [contradiction|].
  destruct cr; [reflexivity|]. destruct Hcr as [Hcr|Hcr]; [discriminate|].
  cbn [negb andb]. pose proof (pad_length lj c z (yield t)) as Hp.
  destruct (Z.eqb_spec (Z.of_nat (length (pad lj c z (yield t)))) z) as [E2|E2]; [reflexivity|lia].
Qed.

Lemma just_request_inv lj cr t w z fill k nt s : is_openT t = false -> width_denotes w z ->
  just lj cr (TTree t) w fill = Ok (PParse k nt s) ->
  k = 0 /\ nt = lbl t /\ Z.of_nat (length (yield t)) <> z /\
  exists c, fill_of fill (yield t) = Ok [c] /\ s = just_output lj cr c z (yield t)
            /\ (cr = true \/ Z.of_nat (length (pad lj c z (yield t))) = z).
Proof.
  intros Hc Hw. rewrite (just_cases lj cr t w z fill Hc Hw).
  destruct (fill_of fill (yield t)) as [[|c [|c' f]]|e]; try discriminate.
  unfold just_body.
  destruct (Z.eqb_spec (Z.of_nat (length (yield t))) z) as [E|E]; [discriminate|].
  destruct (negb cr && negb (Z.of_nat (length (pad lj c z (yield t))) =? z)%Z) eqn:EA; [discriminate|].
  intro H. inversion H; subst. split; [reflexivity|]. split; [reflexivity|]. split; [exact E|].
  exists c. split; [reflexivity|]. split; [reflexivity|].
  destruct cr; [left; reflexivity|]. right. cbn [negb andb] in EA.
  apply negb_false_iff in EA. apply Z.eqb_eq in EA. exact EA.
Qed.

Lemma octal_to_decimal_request fx os ds o n : is_openT o = false -> numeral 8 (yield o) n ->
  octal fx os ds (TTree o) TVar = Ok (PParse 1 ds (dec_of_N n)).
Proof. intros Hc Hn. unfold octal, conc_octal. rewrite Hc, (octal_value_numeral _ n Hn). reflexivity. Qed.

Lemma decimal_to_octal_request fx os ds d n : is_openT d = false -> numeral 10 (yield d) n ->
  octal fx os ds TVar (TTree d) = Ok (PParse 0 os (oct_of_N n)).
Proof.
  intros Hc Hn. unfold octal, conc_decimal.
  rewrite Hc, (py_int_numeral 10 _ n (or_intror eq_refl) Hn), py_oct_tail_N. reflexivity.
Qed.

(* ------------------------------------------------------------------------------------ *)
(* the predicates with the Earley parser                                                 *)
(* ------------------------------------------------------------------------------------ *)
Section Compose.
  Variable g : grammar.
  Variables fxA fxB : bool.
  Variable fuel : nat.
  Hypothesis Hcanon : canonical_form g = true.
  Hypothesis Hnd : NoDup (map fst g).
  Hypothesis Ho : occurs_rhs g START = false.

  Let P := mk_parse fxA fxB fuel g.

  (* generic: a call whose request is (k, nt, s) *)
  Lemma request_sound fx c k nt s k' r : defined g nt = true -> nt <> START ->
    pre_eval fx c = Ok (PParse k nt s) -> sem_eval P fx c = Ok (SAssign k' r) ->
    k' = k /\ wf_tree g r /\ lbl r = nt /\ is_openT r = false /\ yield r = s /\ L g nt s.
  Proof.
    intros Hd Hne Hp H. rewrite (sem_eval_request P fx c k nt s Hp) in H.
    unfold P in H. destruct (mk_parse fxA fxB fuel g nt s) as [r0|e] eqn:E; cbn [bind] in H; [|discriminate].
    inversion H; subst. split; [reflexivity|].
    exact (mk_parse_sound g fxA fxB fuel nt Hcanon Hnd Ho Hd Hne s r E).
  Qed.

  Lemma request_outcomes fx c k nt s : defined g nt = true -> nt <> START ->
    pre_eval fx c = Ok (PParse k nt s) ->
    fuel_bound (cgram (mk_grammar g nt) START) (length s) <= fuel ->
    (exists r, sem_eval P fx c = Ok (SAssign k r) /\ wf_tree g r /\ lbl r = nt /\ is_openT r = false
               /\ yield r = s /\ L g nt s)
    \/ (sem_eval P fx c = Raise SyntaxErr /\ ~ L g nt s)
    \/ (sem_eval P fx c = Raise OutOfFuel /\ L g nt s).
  Proof.
    intros Hd Hne Hp Hf. rewrite (sem_eval_request P fx c k nt s Hp). unfold P.
    destruct (mk_parse_outcomes g fxA fxB fuel nt Hcanon Hnd Ho Hd Hne s Hf)
      as [(r & E & Hr)|[(E & HL)|(E & HL)]]; rewrite E; cbn [bind].
    - left. exists r. split; [reflexivity | exact Hr].
    - right. left. split; [reflexivity | exact HL].
    - right. right. split; [reflexivity | exact HL].
  Qed.

  Lemma request_syntaxerr_iff fx c k nt s : defined g nt = true -> nt <> START ->
    pre_eval fx c = Ok (PParse k nt s) ->
    fuel_bound (cgram (mk_grammar g nt) START) (length s) <= fuel ->
    (sem_eval P fx c = Raise SyntaxErr <-> ~ L g nt s).
  Proof.
    intros Hd Hne Hp Hf.
    destruct (request_outcomes fx c k nt s Hd Hne Hp Hf) as [(r & E & _ & _ & _ & _ & HL)|[(E & HL)|(E & HL)]]; rewrite E.
    - split; [discriminate | intro H; contradiction].
    - split; [intros _; exact HL | reflexivity].
    - split; [discriminate | intro H; contradiction].
  Qed.

  Lemma request_assign_iff fx c k nt s : defined g nt = true -> nt <> START ->
    pre_eval fx c = Ok (PParse k nt s) ->
    fuel_bound (cgram (mk_grammar g nt) START) (length s) <= fuel ->
    sem_eval P fx c <> Raise OutOfFuel ->
    ((exists r, sem_eval P fx c = Ok (SAssign k r)) <-> L g nt s).
  Proof.
    intros Hd Hne Hp Hf Hno.
    destruct (request_outcomes fx c k nt s Hd Hne Hp Hf) as [(r & E & _ & _ & _ & _ & HL)|[(E & HL)|(E & HL)]].
    - split; [intros _; exact HL | intros _; exists r; exact E].
    - rewrite E. split; [intros (r & Er); discriminate | intro H; contradiction].
    - contradiction.
  Qed.

  (* ---- replacement theorems without parser premise ---- *)
  Theorem just_replacement_earley fx lj cr t w z fill k r :
    is_openT t = false -> defined g (lbl t) = true -> lbl t <> START ->
    width_denotes w z -> (0 <= z)%Z ->
    sem_eval P fx (CJust lj cr (TTree t) w fill) = Ok (SAssign k r) ->
    k = 0 /\ wf_tree g r /\ lbl r = lbl t /\ is_openT r = false
    /\ Z.of_nat (length (yield r)) = z /\ just_rel lj (yield t) (yield r) /\ L g (lbl t) (yield r).
  Proof.
    intros Hc Hd Hne Hw Hz H.
    destruct (sem_eval_assign_inv P fx _ k r H) as [(l & Hp & _)|(nt & s & Hp & _)].
    - exfalso. cbn [pre_eval] in Hp. rewrite (just_cases lj cr t w z fill Hc Hw) in Hp.
      destruct (fill_of fill (yield t)) as [[|c [|c' f]]|e]; try discriminate.
      unfold just_body in Hp.
      destruct (Z.of_nat (length (yield t)) =? z)%Z; [discriminate|].
      destruct (negb cr && negb (Z.of_nat (length (pad lj c z (yield t))) =? z)%Z); discriminate.
    - pose proof Hp as Hp'. cbn [pre_eval] in Hp'.
      destruct (just_request_inv lj cr t w z fill k nt s Hc Hw Hp') as (Ek & Ent & _ & c & _ & Es & Hcr).
      subst k nt.
      destruct (request_sound fx _ 0 (lbl t) s 0 r Hd Hne Hp H) as (_ & Hwf & Hl & Hcl & Hy & HL).
      split; [reflexivity|]. split; [exact Hwf|]. split; [exact Hl|]. split; [exact Hcl|].
      rewrite Hy. split; [|split; [|exact HL]]; rewrite Es.
      + apply just_output_length; assumption.
      + apply just_output_rel.
  Qed.

  Theorem crop_replacement_earley fx t wt n k r :
    is_openT t = false -> defined g (lbl t) = true -> lbl t <> START ->
    is_openT wt = false -> numeral 10 (yield wt) n ->
    sem_eval P fx (CCrop (TTree t) (WTree wt)) = Ok (SAssign k r) ->
    k = 0 /\ wf_tree g r /\ lbl r = lbl t /\ is_openT r = false
    /\ length (yield r) = N.to_nat n /\ (exists rest, yield t = yield r ++ rest) /\ L g (lbl t) (yield r).
  Proof.
    intros Hc Hd Hne Hcw Hn H.
    destruct (sem_eval_assign_inv P fx _ k r H) as [(l & Hp & _)|(nt & s & Hp & _)].
    - exfalso. cbn [pre_eval] in Hp. unfold crop in Hp.
      rewrite Hc, Hcw, (py_int_numeral 10 _ n (or_intror eq_refl) Hn) in Hp.
      destruct (Z.of_nat (length (yield t)) <=? Z.of_N n)%Z; discriminate.
    - pose proof Hp as Hp'. cbn [pre_eval] in Hp'.
      destruct (crop_request_inv t wt n k nt s Hc Hcw Hn Hp') as (Ek & Ent & Es & Hlt). subst k nt.
      destruct (request_sound fx _ 0 (lbl t) s 0 r Hd Hne Hp H) as (_ & Hwf & Hl & Hcl & Hy & HL).
      split; [reflexivity|]. split; [exact Hwf|]. split; [exact Hl|]. split; [exact Hcl|].
      rewrite Hy. split; [|split; [|exact HL]]; rewrite Es.
      + rewrite firstn_length. lia.
      + eexists. symmetry. apply firstn_skipn.
  Qed.

  Theorem octal_to_decimal_replacement_earley fx os ds o n k r :
    is_openT o = false -> defined g ds = true -> ds <> START -> numeral 8 (yield o) n ->
    sem_eval P fx (COctal os ds (TTree o) TVar) = Ok (SAssign k r) ->
    k = 1 /\ wf_tree g r /\ lbl r = ds /\ is_openT r = false /\ octal_rel (yield o) (yield r)
    /\ L g ds (yield r).
  Proof.
    intros Hc Hd Hne Hn H.
    pose proof (octal_to_decimal_request fx os ds o n Hc Hn) as Hp.
    assert (Hp' : pre_eval fx (COctal os ds (TTree o) TVar) = Ok (PParse 1 ds (dec_of_N n))) by exact Hp.
    destruct (request_sound fx _ 1 ds _ k r Hd Hne Hp' H) as (Hk & Hwf & Hl & Hcl & Hy & HL).
    repeat split; try assumption.
    - exists n. rewrite Hy. split; [exact Hn | apply dec_of_N_numeral].
    - rewrite Hy. exact HL.
  Qed.

  Theorem decimal_to_octal_replacement_earley fx os ds d n k r :
    is_openT d = false -> defined g os = true -> os <> START -> numeral 10 (yield d) n ->
    sem_eval P fx (COctal os ds TVar (TTree d)) = Ok (SAssign k r) ->
    k = 0 /\ wf_tree g r /\ lbl r = os /\ is_openT r = false /\ octal_rel (yield r) (yield d)
    /\ L g os (yield r).
  Proof.
    intros Hc Hd Hne Hn H.
    pose proof (decimal_to_octal_request fx os ds d n Hc Hn) as Hp.
    assert (Hp' : pre_eval fx (COctal os ds TVar (TTree d)) = Ok (PParse 0 os (oct_of_N n))) by exact Hp.
    destruct (request_sound fx _ 0 os _ k r Hd Hne Hp' H) as (Hk & Hwf & Hl & Hcl & Hy & HL).
    repeat split; try assumption.
    - exists n. rewrite Hy. split; [apply oct_of_N_numeral | exact Hn].
    - rewrite Hy. exact HL.
  Qed.

  (* ---- SyntaxError of the parser = SyntaxError of the predicate, exactly for non-members ---- *)
  Theorem crop_syntaxerr_iff fx t wt n :
    is_openT t = false -> defined g (lbl t) = true -> lbl t <> START ->
    is_openT wt = false -> numeral 10 (yield wt) n -> N.to_nat n < length (yield t) ->
    fuel_bound (cgram (mk_grammar g (lbl t)) START) (N.to_nat n) <= fuel ->
    (sem_eval P fx (CCrop (TTree t) (WTree wt)) = Raise SyntaxErr
     <-> ~ L g (lbl t) (firstn (N.to_nat n) (yield t))).
  Proof.
    intros Hc Hd Hne Hcw Hn Hlt Hf.
    apply (request_syntaxerr_iff fx _ 0 (lbl t) _ Hd Hne).
    - exact (crop_request t wt n Hc Hcw Hn Hlt).
    - rewrite firstn_length. replace (Nat.min (N.to_nat n) (length (yield t))) with (N.to_nat n) by lia. exact Hf.
  Qed.

  Theorem crop_assign_iff_partial fx t wt n :
    is_openT t = false -> defined g (lbl t) = true -> lbl t <> START ->
    is_openT wt = false -> numeral 10 (yield wt) n -> N.to_nat n < length (yield t) ->
    fuel_bound (cgram (mk_grammar g (lbl t)) START) (N.to_nat n) <= fuel ->
    sem_eval P fx (CCrop (TTree t) (WTree wt)) <> Raise OutOfFuel ->
    ((exists r, sem_eval P fx (CCrop (TTree t) (WTree wt)) = Ok (SAssign 0 r))
     <-> L g (lbl t) (firstn (N.to_nat n) (yield t))).
  Proof.
    intros Hc Hd Hne Hcw Hn Hlt Hf.
    apply (request_assign_iff fx _ 0 (lbl t) _ Hd Hne).
    - exact (crop_request t wt n Hc Hcw Hn Hlt).
    - rewrite firstn_length. replace (Nat.min (N.to_nat n) (length (yield t))) with (N.to_nat n) by lia. exact Hf.
  Qed.

  Theorem just_syntaxerr_iff fx lj cr t w z fill c :
    is_openT t = false -> defined g (lbl t) = true -> lbl t <> START ->
    width_denotes w z -> fill_of fill (yield t) = Ok [c] ->
    Z.of_nat (length (yield t)) <> z -> (cr = true \/ (Z.of_nat (length (yield t)) < z)%Z) ->
    fuel_bound (cgram (mk_grammar g (lbl t)) START) (length (just_output lj cr c z (yield t))) <= fuel ->
    (sem_eval P fx (CJust lj cr (TTree t) w fill) = Raise SyntaxErr
     <-> ~ L g (lbl t) (just_output lj cr c z (yield t))).
  Proof.
    intros Hc Hd Hne Hw Hfill Hz Hcr Hf.
    apply (request_syntaxerr_iff fx _ 0 (lbl t) _ Hd Hne); [|exact Hf].
    exact (just_request lj cr t w z fill c Hc Hw Hfill Hz Hcr).
  Qed.

  Theorem just_assign_iff_partial fx lj cr t w z fill c :
    is_openT t = false -> defined g (lbl t) = true -> lbl t <> START ->
    width_denotes w z -> fill_of fill (yield t) = Ok [c] ->
    Z.of_nat (length (yield t)) <> z -> (cr = true \/ (Z.of_nat (length (yield t)) < z)%Z) ->
    fuel_bound (cgram (mk_grammar g (lbl t)) START) (length (just_output lj cr c z (yield t))) <= fuel ->
    sem_eval P fx (CJust lj cr (TTree t) w fill) <> Raise OutOfFuel ->
    ((exists r, sem_eval P fx (CJust lj cr (TTree t) w fill) = Ok (SAssign 0 r))
     <-> L g (lbl t) (just_output lj cr c z (yield t))).
  Proof.
    intros Hc Hd Hne Hw Hfill Hz Hcr Hf.
    apply (request_assign_iff fx _ 0 (lbl t) _ Hd Hne); [|exact Hf].
    exact (just_request lj cr t w z fill c Hc Hw Hfill Hz Hcr).
  Qed.

  Theorem octal_to_decimal_syntaxerr_iff fx os ds o n :
    is_openT o = false -> defined g ds = true -> ds <> START -> numeral 8 (yield o) n ->
    fuel_bound (cgram (mk_grammar g ds) START) (length (dec_of_N n)) <= fuel ->
    (sem_eval P fx (COctal os ds (TTree o) TVar) = Raise SyntaxErr <-> ~ L g ds (dec_of_N n)).
  Proof.
    intros Hc Hd Hne Hn Hf. apply (request_syntaxerr_iff fx _ 1 ds _ Hd Hne); [|exact Hf].
    exact (octal_to_decimal_request fx os ds o n Hc Hn).
  Qed.

  Theorem decimal_to_octal_syntaxerr_iff fx os ds d n :
    is_openT d = false -> defined g os = true -> os <> START -> numeral 10 (yield d) n ->
    fuel_bound (cgram (mk_grammar g os) START) (length (oct_of_N n)) <= fuel ->
    (sem_eval P fx (COctal os ds TVar (TTree d)) = Raise SyntaxErr <-> ~ L g os (oct_of_N n)).
  Proof.
    intros Hc Hd Hne Hn Hf. apply (request_syntaxerr_iff fx _ 0 os _ Hd Hne); [|exact Hf].
    exact (decimal_to_octal_request fx os ds d n Hc Hn).
  Qed.

  (* all outcomes of crop on closed arguments with the real parser *)
  Theorem crop_earley_outcomes fx t wt n :
    is_openT t = false -> defined g (lbl t) = true -> lbl t <> START ->
    is_openT wt = false -> numeral 10 (yield wt) n ->
    fuel_bound (cgram (mk_grammar g (lbl t)) START) (N.to_nat n) <= fuel ->
    let s := firstn (N.to_nat n) (yield t) in
    let out := sem_eval P fx (CCrop (TTree t) (WTree wt)) in
    (length (yield t) <= N.to_nat n /\ out = Ok (SBool true))
    \/ (N.to_nat n < length (yield t) /\
        ((exists r, out = Ok (SAssign 0 r) /\ wf_tree g r /\ lbl r = lbl t /\ is_openT r = false /\ yield r = s /\ L g (lbl t) s)
         \/ (out = Raise SyntaxErr /\ ~ L g (lbl t) s)
         \/ (out = Raise OutOfFuel /\ L g (lbl t) s))).
  Proof.
    intros Hc Hd Hne Hcw Hn Hf s out.
    destruct (Nat.le_gt_cases (length (yield t)) (N.to_nat n)) as [Hle|Hlt].
    - left. split; [exact Hle|]. unfold out, sem_eval. cbn [pre_eval].
      apply (crop_spec t wt n Hc Hcw Hn) in Hle. rewrite Hle. reflexivity.
    - right. split; [exact Hlt|].
      apply (request_outcomes fx _ 0 (lbl t) s Hd Hne).
      + exact (crop_request t wt n Hc Hcw Hn Hlt).
      + unfold s. rewrite firstn_length. replace (Nat.min (N.to_nat n) (length (yield t))) with (N.to_nat n) by lia. exact Hf.
  Qed.
End Compose.

(* ------------------------------------------------------------------------------------ *)
(* a tree rooted in <start>: mk_parser overwrites the start rule with <start> ::= <start>, *)
(* so the parser rejects EVERY string (pinned and repaired parser alike)                  *)
(* ------------------------------------------------------------------------------------ *)
Lemma last_nth_error {A} (l : list A) d : l <> [] -> exists j, nth_error l j = Some (last l d).
Proof.
  induction l as [|a l IH]; intro H; [contradiction H; reflexivity|].
  destruct l as [|b l].
  - exists 0. reflexivity.
  - destruct IH as (j & Hj); [discriminate|]. exists (S j). exact Hj.
Qed.

Theorem mk_parse_start_syntaxerr g fxA fxB fuel w :
  good_grammar g -> NoDup (map fst g) -> defined g WRAP = false -> defined g START = true ->
  fuel_bound (cgram (mk_grammar g START) START) (length w) <= fuel ->
  mk_parse fxA fxB fuel g START w = Raise SyntaxErr.
Proof.
  intros Hgood Hnd Hwrap Hst Hf.
  pose proof (spec_good g START Hgood Hst) as HgoodG.
  pose proof (spec_NoDup g START Hnd) as HndG.
  pose proof (spec_no_WRAP g START Hwrap) as HwrapG.
  pose proof (spec_defined_START g START) as HstartG.
  assert (HfxA : fxA = true \/ K_multistart (mk_grammar g START) START = false)
    by (right; exact (spec_single_start g START)).
  change (spec_grammar g START) with (mk_grammar g START) in *.
  destruct (chart_enough_fuel (mk_grammar g START) START fxA fuel START w HgoodG HwrapG HstartG HfxA Hf) as (chart & Hch).
  destruct (item_sound (mk_grammar g START) START fxA fuel START w chart HgoodG HndG HwrapG HstartG HfxA Hch) as (Hlen & Hit).
  unfold mk_parse, earley_parse. rewrite HwrapG, Hch.
  destruct (find (accepting fxB START) (last chart [])) as [st|] eqn:Efind; [exfalso | reflexivity].
  apply find_some in Efind. destruct Efind as (Hin & Hacc).
  destruct (last_nth_error chart []) as (j & Hj); [intro E; rewrite E in Hlen; discriminate|].
  destruct (Hit j _ st Hj Hin) as (_ & Hal & Hder).
  unfold accepting in Hacc. apply andb_true_iff in Hacc. destruct Hacc as (Hacc & _).
  apply andb_true_iff in Hacc. destruct Hacc as (Hname & Hfin).
  apply str_eqb_eq in Hname. unfold finished in Hfin. apply Nat.leb_le in Hfin.
  rewrite firstn_all2 in Hder by exact Hfin. rewrite Hname in Hal.
  assert (HL : L (mk_grammar g START) START (sub w (iorg st) j ++ [])).
  { apply (transfer_L (mk_grammar g START) START HgoodG HwrapG START _ HstartG).
    apply (d_nt _ START (iexpr st) []); [reflexivity | exact Hal | exact Hder | constructor]. }
  exact (spec_start_language_empty g _ HL).
Qed.

(* consequence for crop: on a closed tree rooted in <start> that is longer than the width the
   predicate raises SyntaxError, whatever the cropped string is *)
Theorem crop_start_rooted_syntaxerr g fxA fxB fuel fx t wt n :
  good_grammar g -> NoDup (map fst g) -> defined g WRAP = false -> defined g START = true ->
  is_openT t = false -> lbl t = START -> is_openT wt = false -> numeral 10 (yield wt) n ->
  N.to_nat n < length (yield t) ->
  fuel_bound (cgram (mk_grammar g START) START) (N.to_nat n) <= fuel ->
  sem_eval (mk_parse fxA fxB fuel g) fx (CCrop (TTree t) (WTree wt)) = Raise SyntaxErr.
Proof.
  intros Hgood Hnd Hwrap Hst Hc Hl Hcw Hn Hlt Hf.
  rewrite (sem_eval_request _ fx (CCrop (TTree t) (WTree wt)) 0 (lbl t) _ (crop_request t wt n Hc Hcw Hn Hlt)). rewrite Hl.
  rewrite mk_parse_start_syntaxerr; try assumption; [reflexivity|].
  rewrite firstn_length. replace (Nat.min (N.to_nat n) (length (yield t))) with (N.to_nat n) by lia. exact Hf.
Qed.

(* ------------------------------------------------------------------------------------ *)
(* non-vacuity: <start> ::= <o> ; <o> ::= <d><o> | <d> ; <d> ::= 1 | 7 | 0                 *)
(* ------------------------------------------------------------------------------------ *)
Definition ex_gs : grammar := (START, [[[60; 111; 62]%N]]) :: ex_grammar.
Definition ex_w1 : tree := Node [49]%N 0%N false [].                        (* width tree "1" *)
Definition ex_o1 : tree := Node [60; 111; 62]%N 0%N false [ex_d 49].
Definition ex_s17 : tree := Node START 0%N false [ex_o17].

Example ex_compose_hyps :
  canonical_form ex_gs = true /\ NoDup (map fst ex_gs) /\ occurs_rhs ex_gs START = false /\
  is_openT ex_o17 = false /\ defined ex_gs (lbl ex_o17) = true /\ lbl ex_o17 <> START /\
  fuel_bound (cgram (mk_grammar ex_gs (lbl ex_o17)) START) 3 <= 200 /\
  (* ljust("17", 3, "0") -> the parsed tree of "170" *)
  sem_eval (mk_parse false false 200 ex_gs) false (CJust true false (TTree ex_o17) (WInt 3) (Some [48%N]))
    = Ok (SAssign 0 ex_o170) /\
  (* ljust("17", 3, "a") -> "17a" is not in L(<o>): SyntaxError *)
  fill_of (Some [97%N]) (yield ex_o17) = Ok [97%N] /\
  sem_eval (mk_parse false false 200 ex_gs) false (CJust true false (TTree ex_o17) (WInt 3) (Some [97%N]))
    = Raise SyntaxErr /\
  (* crop("17", "1") -> the parsed tree of "1" *)
  numeral 10 (yield ex_w1) 1%N /\
  sem_eval (mk_parse false false 200 ex_gs) false (CCrop (TTree ex_o17) (WTree ex_w1)) = Ok (SAssign 0 ex_o1) /\
  (* the same crop on the <start>-rooted tree of "17": SyntaxError although "1" is in L(<start>) *)
  sem_eval (mk_parse false false 200 ex_gs) false (CCrop (TTree ex_s17) (WTree ex_w1)) = Raise SyntaxErr /\
  L ex_gs START [49]%N.
Proof.
  split; [vm_compute; reflexivity|].
  split; [repeat constructor; simpl; intuition discriminate|].
  split; [vm_compute; reflexivity|].
  split; [reflexivity|]. split; [vm_compute; reflexivity|]. split; [discriminate|].
  split; [apply Nat.leb_le; vm_compute; reflexivity|].
  split; [vm_compute; reflexivity|].
  split; [reflexivity|].
  split; [vm_compute; reflexivity|].
  split; [exact (num_digit 10 1%N eq_refl)|].
  split; [vm_compute; reflexivity|].
  split; [vm_compute; reflexivity|].
  apply (Lb_sound 5). vm_compute. reflexivity.
Qed.
