(* C08 — proof extension 2: the XPath child axis at the level of the evaluation `ev`.
   A one-segment XPath `x.<T>[pos]` on a universally / existentially quantified x is elaborated by
   close_over_xpath_expressions into a conjunction / disjunction of copies of x's quantifier, one per match expression
   produced by expand_mexpr_trees (model: expand / mk_mexpr / addm).  Theorem: under a concrete tree semantics of
   one-level match expressions this means the documented core reading
        "for all <X> x in c: for the pos-th direct child y of type <T> of x (if there is one): body".
   Spec side (independent of the model): match_elems / dom_t (matching the children of a node against a one-level
   match expression), nth_child (filter + nth_error). *)
From Coq Require Import List NArith Bool Arith Lia.
Import ListNotations.
From ISLA Require Import Str Outcome Tree Grammar Formula Sugar SugarFacts SugarMore.

(* ---------- spec: one-level match expressions on trees ---------- *)
Fixpoint match_elems (es : list var) (ks : list tree) : option (list (var * tree)) :=
  match es, ks with
  | [], [] => Some []
  | e :: es', k :: ks' =>
      if str_eqb (vtype e) (lbl k) then
        match match_elems es' ks' with
        | Some a => Some (match vk e with VBound => (e, k) :: a | _ => a end)
        | None => None
        end
      else None
  | _, _ => None
  end.

Definition nth_child (s : tree) (T : str) (pos : nat) : option tree :=
  nth_error (filter (fun k => str_eqb (lbl k) T) (kids s)) pos.

(* a quantifier of f binds qv (AddMexprTransformer rewrites exactly those) *)
Fixpoint binds (qv : var) (f : cform) : bool :=
  match f with
  | FForall v _ _ b | FExists v _ _ b => var_eqb v qv || binds qv b
  | FNot x => binds qv x
  | FAnd fs | FOr fs => existsb (binds qv) fs
  | FForallInt _ b | FExistsInt _ b => binds qv b
  | _ => false
  end.

Lemma mapM_id : forall {X} (h : X -> res X) l, (forall x, In x l -> h x = Ok x) -> mapM h l = Ok l.
Proof.
  intros X h l H. induction l as [|x l IH]; simpl; [reflexivity|].
  rewrite (H x (or_introl eq_refl)). simpl. rewrite IH; [reflexivity|]. intros z Hz. apply H. right; exact Hz.
Qed.

Lemma addm_id : forall qv ms f, binds qv f = false -> addm qv ms f = Ok f.
Proof.
  intros qv ms f. induction f as [a|n args|n args|g IH|fs IH|fs IH|v i m b IH|v i m b IH|v b IH|v b IH]
    using formula_ind'; intros H; simpl in *; try reflexivity.
  - rewrite (IH H). reflexivity.
  - rewrite mapM_id; [reflexivity|]. intros z Hz. rewrite Forall_forall in IH. apply IH; [exact Hz|].
    destruct (binds qv z) eqn:E; [|reflexivity]. assert (existsb (binds qv) fs = true) by (apply existsb_exists; exists z; auto). congruence.
  - rewrite mapM_id; [reflexivity|]. intros z Hz. rewrite Forall_forall in IH. apply IH; [exact Hz|].
    destruct (binds qv z) eqn:E; [|reflexivity]. assert (existsb (binds qv) fs = true) by (apply existsb_exists; exists z; auto). congruence.
  - apply orb_false_iff in H as [Hv Hb]. rewrite (IH Hb). simpl. rewrite Hv. reflexivity.
  - apply orb_false_iff in H as [Hv Hb]. rewrite (IH Hb). simpl. rewrite Hv. reflexivity.
  - rewrite (IH H). reflexivity.
  - rewrite (IH H). reflexivity.
Qed.

Section XP.
  Variable aev : N -> list tree -> bool.
  Variable pev : str -> list (tree + str) -> bool.
  Variable idom : list tree.
  (* the nodes of a given type that a quantifier over container d ranges over (ISLa: the descendants of d with
     that label, in pre-order) — abstract: the theorem holds for any choice *)
  Variable cands : tree -> str -> list tree.

  Definition dom_t (d : tree) (v : var) (m : option mexpr) : list (list (var * tree)) :=
    match m with
    | None => map (fun s => [(v, s)]) (cands d (vtype v))
    | Some me => flat_map (fun s => match match_elems (me_elems me) (kids s) with
                                    | Some a => [(v, s) :: a]
                                    | None => []
                                    end) (cands d (vtype v))
    end.

  Definition tid_ (t : tree) : tree := t.
  Notation evt := (ev tree aev pev dom_t idom tid_).

  (* dom_t satisfies the premise dom_ext of the smart-constructor theorems *)
  Lemma melem_eqb_inv : forall a b, melem_eqb a b = true ->
    vtype a = vtype b /\ ((vk a = VDummy /\ vk b = VDummy) \/ a = b).
  Proof.
    intros a b H. unfold melem_eqb in H.
    destruct (vk a) eqn:Ka, (vk b) eqn:Kb; try discriminate;
      try (apply var_eqb_eq in H; subst; split; [reflexivity|right; reflexivity]).
    apply str_eqb_eq in H. split; [exact H|left; split; reflexivity].
  Qed.

  Lemma match_elems_ext : forall es es', leqb melem_eqb es es' = true ->
    forall ks, match_elems es ks = match_elems es' ks.
  Proof.
    induction es as [|e es IH]; intros [|e' es'] H ks; simpl in H; try discriminate; [reflexivity|].
    apply andb_true_iff in H as [He Hes]. destruct ks as [|k ks]; [reflexivity|]. simpl.
    apply melem_eqb_inv in He as [Ht Hk]. rewrite Ht, (IH _ Hes ks).
    destruct Hk as [[K1 K2]| ->]; [rewrite K1, K2|]; reflexivity.
  Qed.

  Lemma dom_t_ext : forall d v m k, mexpr_eqb m k = true -> dom_t d v m = dom_t d v k.
  Proof.
    intros d v [me|] [ke|] H; simpl in H; try discriminate; [|reflexivity].
    unfold dom_t.
    assert (E : forall s, match_elems (me_elems me) (kids s) = match_elems (me_elems ke) (kids s))
      by (intros s; apply match_elems_ext; exact H).
    induction (cands d (vtype v)) as [|s l IHl]; simpl; [reflexivity|]. rewrite E, IHl. reflexivity.
  Qed.

  (* ---------- combinatorial core ---------- *)
  Lemma nth_occ_shift : forall alt T pos idx,
    nth_occ alt T pos (S idx) = option_map S (nth_occ alt T pos idx).
  Proof.
    induction alt as [|e alt IH]; intros T pos idx; simpl; [reflexivity|].
    destruct (str_eqb e T); [destruct pos; [reflexivity|apply IH]|apply IH].
  Qed.

  Definition eps_free (alt : list str) : Prop := forall sy, In sy alt -> sy <> [].

  Lemma filter_nonnil : forall alt, eps_free alt -> filter (fun s : list chr => negb (isnil s)) alt = alt.
  Proof.
    induction alt as [|e alt IH]; intros H; simpl; [reflexivity|].
    destruct e as [|c e]; [exfalso; apply (H []); [left; reflexivity|reflexivity]|].
    simpl. f_equal. apply IH. intros sy Hsy. apply H. right; exact Hsy.
  Qed.

  Lemma match_dummies : forall r ks,
    match_elems (map dummy r) ks = if leqb str_eqb r (map lbl ks) then Some [] else None.
  Proof.
    induction r as [|e r IH]; intros [|k ks]; simpl; try reflexivity.
    destruct (str_eqb e (lbl k)); [|reflexivity]. simpl. rewrite IH.
    destruct (leqb str_eqb r (map lbl ks)); reflexivity.
  Qed.

  Lemma str_eqb_sym : forall a b, str_eqb a b = str_eqb b a.
  Proof.
    intros a b. destruct (str_eqb a b) eqn:E.
    - apply str_eqb_eq in E; subst. symmetry; apply str_eqb_refl.
    - destruct (str_eqb b a) eqn:E2; [|reflexivity]. apply str_eqb_eq in E2; subst. rewrite str_eqb_refl in E. discriminate.
  Qed.

  Section Core.
    Variable y : var.
    Variable T : str.
    Hypothesis Hyk : vk y = VBound.
    Hypothesis Hyt : vtype y = T.

    Lemma match_mk_melems : forall alt, eps_free alt -> forall ks pos j,
      nth_occ alt T pos 0 = Some j ->
      match_elems (mk_melems alt j y) ks =
      if leqb str_eqb alt (map lbl ks)
      then option_map (fun ch => [(y, ch)]) (nth_error (filter (fun c => str_eqb (lbl c) T) ks) pos)
      else None.
    Proof.
      induction alt as [|e alt IH]; intros Heps ks pos j H; simpl in H; [discriminate|].
      assert (Hee : e <> []) by (apply Heps; left; reflexivity).
      assert (Heps' : eps_free alt) by (intros sy Hsy; apply Heps; right; exact Hsy).
      assert (Hnil : isnil e = false) by (destruct e; [congruence|reflexivity]).
      destruct ks as [|c ks].
      { simpl. destruct j; simpl; [reflexivity|]. rewrite Hnil. reflexivity. }
      destruct (str_eqb e T) eqn:ET.
      - apply str_eqb_eq in ET. subst e. destruct pos as [|p].
        + inversion H; subst j. simpl. rewrite (filter_nonnil _ Heps'). rewrite Hyt, Hyk, match_dummies.
          destruct (str_eqb T (lbl c)) eqn:E1; [|reflexivity]. simpl.
          rewrite (str_eqb_sym (lbl c) T), E1. simpl.
          destruct (leqb str_eqb alt (map lbl ks)); reflexivity.
        + rewrite nth_occ_shift in H. destruct (nth_occ alt T p 0) as [j'|] eqn:EN; [|discriminate].
          inversion H; subst j. simpl. rewrite Hnil. simpl.
          destruct (str_eqb T (lbl c)) eqn:E1; [|reflexivity]. simpl.
          rewrite (IH Heps' ks p j' EN). rewrite (str_eqb_sym (lbl c) T), E1. simpl.
          destruct (leqb str_eqb alt (map lbl ks)); [|reflexivity].
          destruct (nth_error (filter (fun c0 => str_eqb (lbl c0) T) ks) p); reflexivity.
      - rewrite nth_occ_shift in H. destruct (nth_occ alt T pos 0) as [j'|] eqn:EN; [|discriminate].
        inversion H; subst j. simpl. rewrite Hnil. simpl.
        destruct (str_eqb e (lbl c)) eqn:E1; [|reflexivity]. simpl.
        rewrite (IH Heps' ks pos j' EN).
        assert (E2 : str_eqb (lbl c) T = false).
        { apply str_eqb_eq in E1. subst e. exact ET. }
        rewrite E2.
        destruct (leqb str_eqb alt (map lbl ks)); [|reflexivity].
        destruct (nth_error (filter (fun c0 => str_eqb (lbl c0) T) ks) pos); reflexivity.
    Qed.

    Lemma nth_child_occ : forall ks pos ch,
      nth_error (filter (fun c => str_eqb (lbl c) T) ks) pos = Some ch ->
      exists j, nth_occ (map lbl ks) T pos 0 = Some j.
    Proof.
      induction ks as [|c ks IH]; intros pos ch H; simpl in H; [destruct pos; discriminate|].
      simpl. destruct (str_eqb (lbl c) T) eqn:E.
      - destruct pos as [|p]; [exists 0; reflexivity|]. simpl in H. destruct (IH _ _ H) as [j Hj].
        exists (S j). rewrite nth_occ_shift, Hj. reflexivity.
      - destruct (IH _ _ H) as [j Hj]. exists (S j). rewrite nth_occ_shift, Hj. reflexivity.
    Qed.
  End Core.

  Lemma leqb_str_refl : forall l, leqb str_eqb l l = true.
  Proof. induction l as [|x l IH]; simpl; [reflexivity|]. rewrite str_eqb_refl, IH. reflexivity. Qed.

  Lemma expand_one : forall g X T pos lc,
    In lc (expand g X [(T, pos)]) <->
    exists alt j, In alt (alts g X) /\ nth_occ alt T pos 0 = Some j /\ lc = (alt, j).
  Proof.
    intros g X T pos lc. change (expand g X [(T, pos)]) with (expand_step g [([X], 0)] (T, pos)).
    rewrite expand_step_spec. simpl. split.
    - intros [alt [k [Ha [Hn [Hc Hr]]]]]. exists alt, k. rewrite app_nil_r in Hr.
      repeat split; [exact Ha| apply xpath_child_sound; auto | exact Hr].
    - intros [alt [j [Ha [Hn Hr]]]]. apply xpath_child_sound in Hn as [Hn Hc]. exists alt, j.
      rewrite app_nil_r. auto.
  Qed.

  (* ---------- the theorems ---------- *)
  Section Thm.
    Variable g : grammar.
    Variables x y : var.
    Variable T : str.
    Variable pos : nat.
    Hypothesis Hyk : vk y = VBound.
    Hypothesis Hyt : vtype y = T.
    (* guards: no empty-string symbol in the alternatives of x's type (mk_melems drops them), and every node the
       quantifier ranges over is expanded by an alternative of the grammar (derivation trees of g) *)
    Hypothesis Heps : forall alt, In alt (alts g (vtype x)) -> eps_free alt.

    Definition mexprs := map (mk_mexpr y) (expand g (vtype x) [(T, pos)]).

    Lemma in_dom_mexpr : forall d alt j asg, eps_free alt -> nth_occ alt T pos 0 = Some j ->
      (In asg (dom_t d x (Some (mk_mexpr y (alt, j)))) <->
       exists s ch, In s (cands d (vtype x)) /\ map lbl (kids s) = alt /\ nth_child s T pos = Some ch /\
                    asg = [(x, s); (y, ch)]).
    Proof.
      intros d alt j asg He Hn. unfold dom_t. rewrite in_flat_map. simpl me_elems. split.
      - intros [s [Hs Hin]]. rewrite (match_mk_melems y T Hyk Hyt alt He (kids s) pos j Hn) in Hin.
        destruct (leqb str_eqb alt (map lbl (kids s))) eqn:El; [|contradiction].
        apply (leqb_eq str_eqb (fun a b => proj1 (str_eqb_eq a b))) in El.
        unfold nth_child. destruct (nth_error (filter (fun c => str_eqb (lbl c) T) (kids s)) pos) as [ch|] eqn:En;
          simpl in Hin; [|contradiction].
        destruct Hin as [<-|[]]. exists s, ch. rewrite En. auto.
      - intros [s [ch [Hs [Hl [Hc ->]]]]]. exists s. split; [exact Hs|].
        rewrite (match_mk_melems y T Hyk Hyt alt He (kids s) pos j Hn). rewrite Hl, leqb_str_refl.
        unfold nth_child in Hc. rewrite Hc. simpl. left; reflexivity.
    Qed.

    Definition doc_child_forall (rho : var -> tree) (c : invar) (b : cform) : bool :=
      forallb (fun s => match nth_child s T pos with
                        | Some ch => evt (upds tree rho [(x, s); (y, ch)]) b
                        | None => true
                        end) (cands (ival tree tid_ rho c) (vtype x)).
    Definition doc_child_exists (rho : var -> tree) (c : invar) (b : cform) : bool :=
      existsb (fun s => match nth_child s T pos with
                        | Some ch => evt (upds tree rho [(x, s); (y, ch)]) b
                        | None => false
                        end) (cands (ival tree tid_ rho c) (vtype x)).

    Theorem xpath_child_forall_ev : forall rho c b,
      (forall s, In s (cands (ival tree tid_ rho c) (vtype x)) -> In (map lbl (kids s)) (alts g (vtype x))) ->
      evt rho (reduce1 f_and f_true (map (fun me => FForall x c (Some me) b) mexprs)) = doc_child_forall rho c b.
    Proof.
      intros rho c b Hwf. rewrite (reduce_and_sound _ _ _ _ _ _ dom_t_ext).
      apply eq_true_iff_eq. unfold doc_child_forall, mexprs. rewrite !forallb_forall. split.
      - intros H s Hs. destruct (nth_child s T pos) as [ch|] eqn:Ec; [|reflexivity].
        destruct (nth_child_occ T _ _ _ Ec) as [j Hj].
        assert (Ha : In (map lbl (kids s)) (alts g (vtype x))) by (apply Hwf; exact Hs).
        specialize (H (FForall x c (Some (mk_mexpr y (map lbl (kids s), j))) b)).
        assert (Hin : In (FForall x c (Some (mk_mexpr y (map lbl (kids s), j))) b)
                         (map (fun me => FForall x c (Some me) b) (map (mk_mexpr y) (expand g (vtype x) [(T, pos)])))).
        { rewrite map_map. apply in_map_iff. exists (map lbl (kids s), j). split; [reflexivity|].
          apply expand_one. exists (map lbl (kids s)), j. auto. }
        specialize (H Hin). simpl in H. rewrite forallb_forall in H. apply H.
        apply (in_dom_mexpr _ _ _ _ (Heps _ Ha) Hj). exists s, ch. auto.
      - intros H f Hf. rewrite map_map in Hf. apply in_map_iff in Hf as [[alt j] [<- Hlc]].
        apply expand_one in Hlc as [alt' [j' [Ha [Hn E]]]]. inversion E; subst alt' j'.
        simpl. apply forallb_forall. intros asg Hasg.
        apply (in_dom_mexpr _ _ _ _ (Heps _ Ha) Hn) in Hasg as [s [ch [Hs [Hl [Hc ->]]]]].
        specialize (H s Hs). rewrite Hc in H. exact H.
    Qed.

    Theorem xpath_child_exists_ev : forall rho c b,
      (forall s, In s (cands (ival tree tid_ rho c) (vtype x)) -> In (map lbl (kids s)) (alts g (vtype x))) ->
      evt rho (reduce1 f_or f_false (map (fun me => FExists x c (Some me) b) mexprs)) = doc_child_exists rho c b.
    Proof.
      intros rho c b Hwf. rewrite (reduce_or_sound _ _ _ _ _ _ dom_t_ext).
      apply eq_true_iff_eq. unfold doc_child_exists, mexprs. rewrite !existsb_exists. split.
      - intros [f [Hf H]]. rewrite map_map in Hf. apply in_map_iff in Hf as [[alt j] [<- Hlc]].
        apply expand_one in Hlc as [alt' [j' [Ha [Hn E]]]]. inversion E; subst alt' j'.
        simpl in H. apply existsb_exists in H as [asg [Hasg H]].
        apply (in_dom_mexpr _ _ _ _ (Heps _ Ha) Hn) in Hasg as [s [ch [Hs [Hl [Hc ->]]]]].
        exists s. split; [exact Hs|]. rewrite Hc. exact H.
      - intros [s [Hs H]]. destruct (nth_child s T pos) as [ch|] eqn:Ec; [|discriminate].
        destruct (nth_child_occ T _ _ _ Ec) as [j Hj].
        assert (Ha : In (map lbl (kids s)) (alts g (vtype x))) by (apply Hwf; exact Hs).
        exists (FExists x c (Some (mk_mexpr y (map lbl (kids s), j))) b). split.
        + rewrite map_map. apply in_map_iff. exists (map lbl (kids s), j). split; [reflexivity|].
          apply expand_one. exists (map lbl (kids s)), j. auto.
        + simpl. apply existsb_exists. exists [(x, s); (y, ch)]. split; [|exact H].
          apply (in_dom_mexpr _ _ _ _ (Heps _ Ha) Hj). exists s, ch. auto.
    Qed.

    (* the same for the model's AddMexprTransformer applied to the quantifier of x *)
    Theorem xpath_child_addm_forall : forall rho c b f',
      addm x mexprs (FForall x c None b) = Ok f' -> binds x b = false ->
      (forall s, In s (cands (ival tree tid_ rho c) (vtype x)) -> In (map lbl (kids s)) (alts g (vtype x))) ->
      evt rho f' = doc_child_forall rho c b.
    Proof.
      intros rho c b f' H Hb Hwf. simpl in H. rewrite (addm_id _ _ _ Hb) in H. simpl in H.
      rewrite var_eqb_refl in H. inversion H; subst f'. apply xpath_child_forall_ev; exact Hwf.
    Qed.

    (* existential case: AddMexprTransformer reduces with `or`; for an EMPTY list of alternatives the model's
       reduce1 would return f_true, but close_over_xpath_expressions rejects that case before (SyntaxErr), hence
       the premise mexprs <> [] *)
    Theorem xpath_child_addm_exists : forall rho c b f',
      addm x mexprs (FExists x c None b) = Ok f' -> binds x b = false -> mexprs <> [] ->
      (forall s, In s (cands (ival tree tid_ rho c) (vtype x)) -> In (map lbl (kids s)) (alts g (vtype x))) ->
      evt rho f' = doc_child_exists rho c b.
    Proof.
      intros rho c b f' H Hb Hne Hwf. simpl in H. rewrite (addm_id _ _ _ Hb) in H. simpl in H.
      rewrite var_eqb_refl in H. inversion H; subst f'.
      rewrite <- (xpath_child_exists_ev rho c b Hwf).
      destruct mexprs as [|m0 ms]; [congruence|reflexivity].
    Qed.
  End Thm.
End XP.

(* ---------- non-vacuity: grammar G0 (<s> ::= <a> | <a><b>), XPath s.<b> on the tree of "xy" ---------- *)
Definition cands0 (d : tree) (X : str) : list tree := if str_eqb (lbl d) X then [d] else [].
Definition leaf (s : str) : tree := Node s 0 false [].
Definition t_xy : tree := Node (nt 115) 1 false [Node (nt 97) 2 false [leaf [120]%N]; Node (nt 98) 3 false [leaf [121]%N]].
Definition xs_ : var := MkVar VBound [115]%N (nt 115).
Definition yb_ : var := MkVar VBound [98]%N (nt 98).

Example xpath_child_nonvacuous :
  (forall alt, In alt (alts G0 (vtype xs_)) -> eps_free alt) /\
  (forall s, In s (cands0 t_xy (vtype xs_)) -> In (map lbl (kids s)) (alts G0 (vtype xs_))) /\
  vk yb_ = VBound /\ vtype yb_ = nt 98 /\
  mexprs G0 xs_ yb_ (nt 98) 0 = [MkMexpr [dummy (nt 97); yb_] []] /\
  nth_child t_xy (nt 98) 0 = Some (Node (nt 98) 3 false [leaf [121]%N]).
Proof.
  repeat split; try (vm_compute; reflexivity).
  - intros alt Ha sy Hsy. vm_compute in Ha. destruct Ha as [<-|[<-|[]]]; vm_compute in Hsy;
      intuition (subst; discriminate).
  - intros s Hs. vm_compute in Hs. destruct Hs as [<-|[]]. vm_compute. right; left; reflexivity.
Qed.
