(* C20 proof extension — the parser the library semantic predicates call, as a MODEL (no proofs).

   isla_predicates.mk_parser(grammar)(start)(inp):
       specialized_grammar = copy.deepcopy(grammar) | {"<start>": [start]}
       specialized_grammar = delete_unreachable(specialized_grammar)
       parser = EarleyParser(specialized_grammar)            # start_symbol = "<start>"
       return list(parser.parse(inp))
   and the callers take   from_parse_tree(parser(inp)[0]).get_subtree((0,))      (crop, just)
   resp.                  from_parse_tree(parser(inp)[0][1][0])                  (octal_to_dec).

   The Earley parser itself is the model of C10 (Grammar/Earley.v: earley_parse, with the pinned /
   repaired forms fxA, fxB of its two recorded defect spots; set_key = dict `|`, delete_unreachable).
   Differences to ISLaSolver.parse (Earley.specialise / solver_parse): mk_parser does NOT treat
   start = "<start>" specially — the start rule is overwritten with  <start> ::= <start>.
   `[0]` of the fully enumerated list = head of `earley_parse ... 1` (the enumeration `trees`
   computes the complete list before `firstn`); an empty list / a childless root would be IndexError. *)
From ISLA Require Export SemPreds Earley.

Definition mk_grammar (g : grammar) (nt : str) : grammar :=
  delete_unreachable (set_key g START [[nt]]).

Definition mk_parse (fxA fxB : bool) (fuel : nat) (g : grammar) (nt inp : str) : res tree :=
  match earley_parse fxA fxB fuel (mk_grammar g nt) START START inp 1 with
  | Raise e => Raise e
  | Ok [] => Raise IndexErr
  | Ok (t :: _) => match kids t with k :: _ => Ok k | [] => Raise IndexErr end
  end.

(* SemanticPredicate.evaluate with the real parser: sem_eval instantiated *)
Definition sem_eval_earley (fxA fxB : bool) (fuel : nat) (g : grammar) (fx : bool) (c : call) : res sres :=
  sem_eval (mk_parse fxA fxB fuel g) fx c.

(* acceptance of an observed implementation outcome END TO END (predicate + real parser);
   node ids are not compared (tree_eqb) *)
Definition agrees_full (m : res sres) (i : iout) : bool :=
  match m, i with
  | Ok (SBool b), IBool b' => Bool.eqb b b'
  | Ok SNotReady, INotReady => true
  | Ok (SAssign k r), IAssign k' r' => Nat.eqb k k' && tree_eqb r r'
  | Raise e, IRaise e' => exn_eqb e e'
  | _, _ => false
  end.
