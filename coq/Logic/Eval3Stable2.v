(* C06 (second proof extension) — stability of definite verdicts under completion for the fragment
   of Eval3Stable.v EXTENDED by the tree-reading predicates:
     consecutive (the code as it is, defect K_cons_rel included)  — guard K_cons_rel_open,
     nth                                                          — guard K_nth_before,
     count(<variable>, <nonterminal>, <literal>)                  — no guard: the insertion regime
                                                                    (K_count_insert) raises NotImpl in the
                                                                    model and is excluded by the returns-premise,
     tree quantifiers WITH a match expression                     — guard K_mexpr_open (Eval3Mexpr.v).
   The induction re-uses the quantifier lemma (quant_mono) of Eval3Stable.v unchanged. *)
From ISLA Require Import Eval3 EvalFacts GrammarFacts FuzzFacts PathFacts TreeFacts PredsFacts TreeOpsFacts Eval3Facts Eval3Compl Eval3Stable Eval3Preds Eval3Mexpr.
From Coq Require Import Lia ZArith.

(* ------------------------------------------------------------------ *)
(* the extended fragment                                               *)
(* ------------------------------------------------------------------ *)
Definition okname2 (okc okn : bool) (n : str) : bool :=
  okname n || (okc && str_eqb n s_consecutive) || (okn && str_eqb n s_nth).

(* count(in_tree variable, needle nonterminal, number literal) *)
Definition count_args_ok (args : list parg) : bool :=
  match args with
  | [PVar _; PStr needle; PStr _] => is_nt needle
  | _ => false
  end.

Section Frag2.
  Variable A : Type.
  Variables okc okn : bool.
  Fixpoint qfrag2 (f : formula A) : bool :=
    match f with
    | FSmt _ => true
    | FSPred n _ => okname2 okc okn n
    | FSemPred _ args => count_args_ok args
    | FNot h => qfrag2 h
    | FAnd fs | FOr fs => forallb qfrag2 fs
    | FForall _ _ _ b | FExists _ _ _ b => qfrag2 b
    | FForallInt _ _ | FExistsInt _ _ => false
    end.

  (* types of the quantifiers that carry a match expression *)
  Fixpoint mtypes (f : formula A) : list str :=
    match f with
    | FSmt _ | FSPred _ _ | FSemPred _ _ => []
    | FNot h => mtypes h
    | FAnd fs | FOr fs => flat_map mtypes fs
    | FForall v _ m b | FExists v _ m b => (match m with Some _ => [vtype v] | None => [] end) ++ mtypes b
    | FForallInt _ b | FExistsInt _ b => mtypes b
    end.

  Variable g : grammar.
  (* the in-tree argument of count: the same variable, or the two instantiations of the constant *)
  Inductive crel : parg -> parg -> Prop :=
  | cr_var : forall v, crel (PVar v) (PVar v)
  | cr_tree : forall s s', compl g s s' -> is_openT s' = false -> crel (PTree s) (PTree s').

  Variable arel : A -> A -> Prop.
  Inductive frel2 : formula A -> formula A -> Prop :=
  | fr2_smt : forall x x', arel x x' -> frel2 (FSmt x) (FSmt x')
  | fr2_spred : forall n args args', okname2 okc okn n = true -> Forall2 prel args args' ->
      frel2 (FSPred n args) (FSPred n args')
  | fr2_sem : forall n x x' needle num, crel x x' -> is_nt needle = true ->
      frel2 (FSemPred n [x; PStr needle; PStr num]) (FSemPred n [x'; PStr needle; PStr num])
  | fr2_not : forall h h', frel2 h h' -> frel2 (FNot h) (FNot h')
  | fr2_and : forall fs fs', Forall2 frel2 fs fs' -> frel2 (FAnd fs) (FAnd fs')
  | fr2_or : forall fs fs', Forall2 frel2 fs fs' -> frel2 (FOr fs) (FOr fs')
  | fr2_forall : forall v i i' m b b', irel i i' -> frel2 b b' -> frel2 (FForall v i m b) (FForall v i' m b')
  | fr2_exists : forall v i i' m b b', irel i i' -> frel2 b b' -> frel2 (FExists v i m b) (FExists v i' m b').
End Frag2.

Lemma count_args_ok_inv args : count_args_ok args = true ->
  exists v needle num, args = [PVar v; PStr needle; PStr num] /\ is_nt needle = true.
Proof.
  destruct args as [|[v|s|s] [|[v2|needle|s2] [|[v3|num|s3] [|x xs]]]]; simpl; try discriminate.
  intro H. exists v, needle, num. auto.
Qed.

Lemma frel2_refl A okc okn g (arel : A -> A -> Prop) : (forall x, arel x x) ->
  forall f, qfrag2 A okc okn f = true -> frel2 A okc okn g arel f f.
Proof.
  intro Hr. induction f as [x|n args|n args|h IH|fs IH|fs IH|v i m b IH|v i m b IH|v b IH|v b IH] using formula_ind';
    simpl; intro Hf; try discriminate.
  - constructor. apply Hr.
  - constructor; [assumption|]. clear. induction args; constructor; [apply prel_refl | assumption].
  - destruct (count_args_ok_inv args Hf) as (v & needle & num & -> & Hnt). constructor; [constructor | assumption].
  - constructor. auto.
  - constructor. rewrite forallb_forall in Hf. induction IH as [|x l Hx _ IHl]; constructor.
    + apply Hx. apply Hf. left. reflexivity.
    + apply IHl. intros y Hy. apply Hf. right. assumption.
  - constructor. rewrite forallb_forall in Hf. induction IH as [|x l Hx _ IHl]; constructor.
    + apply Hx. apply Hf. left. reflexivity.
    + apply IHl. intros y Hy. apply Hf. right. assumption.
  - constructor; [apply irel_refl | auto].
  - constructor; [apply irel_refl | auto].
Qed.

Lemma qfrag2_numq A okc okn f : qfrag2 A okc okn f = true -> has_numq A f = false.
Proof.
  induction f as [x|n args|n args|h IH|fs IH|fs IH|v i m b IH|v i m b IH|v b IH|v b IH] using formula_ind';
    simpl; intro Hf; try discriminate; try reflexivity; auto.
  - rewrite forallb_forall in Hf. induction IH as [|x l Hx _ IHl]; [reflexivity|]. simpl.
    rewrite Hx; [|apply Hf; left; reflexivity]. apply IHl. intros y Hy. apply Hf. right. assumption.
  - rewrite forallb_forall in Hf. induction IH as [|x l Hx _ IHl]; [reflexivity|]. simpl.
    rewrite Hx; [|apply Hf; left; reflexivity]. apply IHl. intros y Hy. apply Hf. right. assumption.
Qed.

(* the old fragment is the extended one without consecutive, nth, count *)
Lemma qfrag_qfrag2 A okc okn f : qfrag A f = true -> qfrag2 A okc okn f = true.
Proof.
  induction f as [x|n args|n args|h IH|fs IH|fs IH|v i m b IH|v i m b IH|v b IH|v b IH] using formula_ind';
    simpl; intro Hf; try discriminate; try reflexivity; auto.
  - unfold okname2. rewrite Hf. reflexivity.
  - rewrite forallb_forall in *. rewrite Forall_forall in IH. auto.
  - rewrite forallb_forall in *. rewrite Forall_forall in IH. auto.
  - destruct m; [discriminate | auto].
  - destruct m; [discriminate | auto].
Qed.

(* a predicate that is not used may be switched off *)
Lemma qfrag2_weaken A okc okn f : qfrag2 A true true f = true ->
  (okc = false -> ~ In s_consecutive (spred_names A f)) ->
  (okn = false -> ~ In s_nth (spred_names A f)) ->
  qfrag2 A okc okn f = true.
Proof.
  induction f as [x|n args|n args|h IH|fs IH|fs IH|v i m b IH|v i m b IH|v b IH|v b IH] using formula_ind';
    simpl; intros Hf Hc Hn; try discriminate; try reflexivity; auto.
  - unfold okname2 in *. simpl in Hf. destruct (okname n); [reflexivity|]. simpl in *.
    destruct (str_eqb n s_consecutive) eqn:E1.
    + apply str_eqb_eq in E1. subst n. destruct okc; [reflexivity|]. exfalso. apply Hc; auto.
    + destruct (str_eqb n s_nth) eqn:E2; [|discriminate].
      apply str_eqb_eq in E2. subst n. destruct okn; [rewrite andb_false_r; reflexivity|]. exfalso. apply Hn; auto.
  - rewrite forallb_forall in *. rewrite Forall_forall in IH. intros x Hx. apply IH; auto.
    + intros E H. apply (Hc E). apply in_flat_map. eauto.
    + intros E H. apply (Hn E). apply in_flat_map. eauto.
  - rewrite forallb_forall in *. rewrite Forall_forall in IH. intros x Hx. apply IH; auto.
    + intros E H. apply (Hc E). apply in_flat_map. eauto.
    + intros E H. apply (Hn E). apply in_flat_map. eauto.
Qed.

(* ------------------------------------------------------------------ *)
(* the classes (guards of the _partial theorems)                       *)
(* ------------------------------------------------------------------ *)
(* K_cons_rel_open: the formula uses consecutive and the open tree is in the class cons_unsafe
   (Eval3Preds.v) on which the recorded defect K_cons_rel (C04) can flip the verdict *)
Definition K_cons_rel_open (A : Type) (t : tree) (f : formula A) : bool :=
  mem_str s_consecutive (spred_names A f) && cons_unsafe t.
(* K_nth_before: the formula uses nth and an open leaf precedes (pre-order) a node whose label it
   can still produce; refines K_nth_open (= uses nth and the tree is open) *)
Definition K_nth_before (A : Type) (g : grammar) (t : tree) (f : formula A) : bool :=
  mem_str s_nth (spred_names A f) && nth_unsafe g t.

(* K_mexpr_open: some node of the open tree that carries the type of a quantifier WITH match expression
   is not a closed subtree (it is an open leaf or has an open leaf below it); outside this class a
   match found on t is computed on a closed subtree and stays, and new matches need new nodes *)
Definition K_mexpr_open (A : Type) (t : tree) (f : formula A) : bool :=
  existsb (fun ps => mem_str (lbl (snd ps)) (mtypes A f) && is_openT (snd ps)) (nodes t).

Lemma mtypes_qtypes A f : forall T, In T (mtypes A f) -> In T (qtypes A f).
Proof.
  induction f as [x|n args|n args|h IH|fs IH|fs IH|v i m b IH|v i m b IH|v b IH|v b IH] using formula_ind';
    simpl; intros T HT; try contradiction; auto.
  - rewrite Forall_forall in IH. apply in_flat_map in HT as (x & Hx & HT). apply in_flat_map. eauto.
  - rewrite Forall_forall in IH. apply in_flat_map in HT as (x & Hx & HT). apply in_flat_map. eauto.
  - apply in_app_iff in HT as [HT|HT]; [|right; auto]. destruct m; [|contradiction]. destruct HT as [<-|[]]. left. reflexivity.
  - apply in_app_iff in HT as [HT|HT]; [|right; auto]. destruct m; [|contradiction]. destruct HT as [<-|[]]. left. reflexivity.
Qed.

Lemma guards_mx_ok A t (f : formula A) :
  forallb is_nt (qtypes A f) = true -> K_mexpr_open A t f = false -> Forall (mx_ok t) (mtypes A f).
Proof.
  intros Hnt Hk. rewrite forallb_forall in Hnt. apply Forall_forall. intros T HT. split.
  - apply Hnt. apply mtypes_qtypes. assumption.
  - intros p n Hs Hl. unfold K_mexpr_open in Hk. apply nodes_spec in Hs.
    pose proof (existsb_false_In _ _ _ Hk Hs) as X. simpl in X. rewrite Hl in X.
    assert (M : mem_str T (mtypes A f) = true) by (apply mem_str_In; assumption).
    rewrite M in X. exact X.
Qed.

Lemma K_nth_before_open A g t f : K_nth_before A g t f = true -> K_nth_open A t f = true.
Proof.
  unfold K_nth_before, K_nth_open. intro H. apply andb_true_iff in H as [H1 H2]. rewrite H1. simpl.
  unfold nth_unsafe in H2. apply existsb_exists in H2 as ([p n] & Hin & H). simpl in H.
  apply andb_true_iff in H as [Ho _]. apply nodes_spec in Hin.
  apply (proj2 (open_iff_leaf t)). eauto.
Qed.

Lemma guards_frag2 A g t f : qfrag2 A true true f = true ->
  K_cons_rel_open A t f = false -> K_nth_before A g t f = false ->
  qfrag2 A (negb (cons_unsafe t)) (negb (nth_unsafe g t)) f = true.
Proof.
  intros Hf Hc Hn. apply qfrag2_weaken; [assumption| |].
  - intros E H. apply negb_false_iff in E. unfold K_cons_rel_open in Hc. rewrite E, andb_true_r in Hc.
    apply mem_str_In in H. congruence.
  - intros E H. apply negb_false_iff in E. unfold K_nth_before in Hn. rewrite E, andb_true_r in Hn.
    apply mem_str_In in H. congruence.
Qed.

(* ------------------------------------------------------------------ *)
(* the induction                                                       *)
(* ------------------------------------------------------------------ *)
Section Stable2.
  Variable A : Type.
  Variable afree : A -> list var.
  Variable aopen : A -> bool.
  Variable aeval : A -> asg -> res TV.
  Variable qmm' : var -> path -> option mexpr -> asg -> path -> bool.
  Variable arel : A -> A -> Prop.
  Variables okc okn : bool.

  Variable g : grammar.
  Variables t t' : tree.
  Hypothesis Hc : compl g t t'.
  Hypothesis Hcl : is_openT t' = false.
  Hypothesis Hu : uniq_ids t'.
  Hypothesis Hrc : reach_closedb g = true.
  Hypothesis Hokc : okc = true -> cons_unsafe t = false.
  Hypothesis Hokn : okn = true -> nth_unsafe g t = false.

  Local Notation ev := (eval_legacy A afree aopen aeval (m3_qmm g t) (reachb g) count_open3 t).
  Local Notation ev' := (eval_legacy A afree aopen aeval qmm' (reachb g) count_open3 t').

  Hypothesis Hatom : forall x x' a a' r r', arel x x' -> asg_rel t t' a a' ->
    ev (FSmt x) a = Ok r -> ev' (FSmt x') a' = Ok r' -> tv_le r r'.

  (* structural predicates of the extended fragment: the two calls agree whenever both return *)
  Lemma spred_call_compl2 n l b b' : okname2 okc okn n = true ->
    (forall p, In (SPath p) l -> exists s, subtree t p = Some s) ->
    spred_call t n l = Ok b -> spred_call t' n l = Ok b' -> b' = b.
  Proof.
    unfold okname2. intros Hn Hv H H'. destruct (okname n) eqn:E0.
    - rewrite (spred_call_compl g t t' Hc Hcl n l E0 Hv) in H. congruence.
    - simpl in Hn. apply orb_true_iff in Hn as [Hn|Hn]; apply andb_true_iff in Hn as [Hk Hn];
        apply str_eqb_eq in Hn; subst n.
      + (* consecutive *)
        destruct l as [|[p|s] [|[q|s'] [|[r|s''] [|[u|s'''] [|x xs]]]]]; try discriminate; try (cbn in H; discriminate).
        change (consecutive t p q = Ok b) in H. change (consecutive t' p q = Ok b') in H'.
        destruct (Hv p) as (s1 & H1); [simpl; auto|]. destruct (Hv q) as (s2 & H2); [simpl; auto|].
        exact (consecutive_compl g t t' Hc Hcl p q s1 s2 b b' H1 H2 (Hokc Hk) H H').
      + (* nth *)
        destruct l as [|[p|s] [|[q|s'] [|[r|s''] [|[u|s'''] [|x xs]]]]]; try discriminate; try (cbn in H; discriminate).
        change ((if negb (in_tree q r) then Ok false else
                 match parse_dec s with Some k => is_nth t (N.to_nat k) q r | None => Raise AssertErr end) = Ok b) in H.
        change ((if negb (in_tree q r) then Ok false else
                 match parse_dec s with Some k => is_nth t' (N.to_nat k) q r | None => Raise AssertErr end) = Ok b') in H'.
        destruct (negb (in_tree q r)); [congruence|].
        destruct (parse_dec s) as [k|]; [|discriminate].
        destruct (Hv q) as (s1 & H1); [simpl; auto|]. destruct (Hv r) as (s2 & H2); [simpl; auto|].
        rewrite (is_nth_compl_static g t t' Hc Hcl Hrc (N.to_nat k) q r s1 s2 H1 H2 (Hokn Hk)) in H'. congruence.
  Qed.

  (* count *)
  Lemma sempred_mono n x x' needle num a a' r r' : crel g x x' -> is_nt needle = true -> asg_rel t t' a a' ->
    eval_sempred (reachb g) count_open3 a n [x; PStr needle; PStr num] = Ok r ->
    eval_sempred (reachb g) count_open3 a' n [x'; PStr needle; PStr num] = Ok r' -> tv_le r r'.
  Proof.
    intros Hx Hnt Ha H H'. unfold eval_sempred in H, H'.
    destruct (negb (str_eqb n s_count)); [discriminate|].
    destruct Hx as [v | s s' Hcs Hcls].
    - pose proof (rel_get t t' a a' v Ha) as G.
      destruct (dict_get a v) as [[p s]|]; [|inversion H; left; reflexivity].
      destruct (dict_get a' v) as [[p' s']|]; [|contradiction]. simpl in G. destruct G as (-> & Hs & Hs').
      simpl in H, H'.
      destruct (compl_keeps_nodes g p t t' s Hc Hs) as (s2 & Hs2 & _ & _ & Hcs). rewrite Hs' in Hs2. inversion Hs2; subst s2.
      eapply (count_eval_compl g Hrc s s'); try eassumption. eapply closed_subtree; eassumption.
    - simpl in H, H'. eapply (count_eval_compl g Hrc s s'); eassumption.
  Qed.

  Theorem eval_mono2 : forall f f', frel2 A okc okn g arel f f' -> forall a a' r r',
    asg_rel t t' a a' -> Forall (qt_ok g t) (qtypes A f) -> Forall (mx_ok t) (mtypes A f) ->
    ev f a = Ok r -> ev' f' a' = Ok r' -> tv_le r r'.
  Proof.
    induction f as [x|n args|n args|h IH|fs IH|fs IH|v i m b IH|v i m b IH|v b IH|v b IH] using formula_ind';
      intros f' Hf a a' r r' Ha Hq Hm H H';
      inversion Hf as [x0 x' Har | n0 args0 args' Hn Hargs | n0 x0 x0' needle num Hx Hnt | h0 h' Hh | fs0 fs' Hfs | fs0 fs' Hfs
                       | v0 i0 i' m0 b0 b' Hi Hb | v0 i0 i' m0 b0 b' Hi Hb]; subst.
    - eapply Hatom; eassumption.
    - simpl in H, H'. unfold eval_spred in H, H'.
      destruct (mapM (arg_inst t a) args) as [l|e] eqn:E; [|discriminate].
      destruct (mapM (arg_inst t' a') args') as [l'|e] eqn:E'; [|discriminate].
      destruct (mapM_arg_rel g t t' Hc Hu a a' Ha args args' Hargs l l' E E') as [-> Hv].
      destruct (spred_call t n l) as [bb|e] eqn:Es; [|discriminate].
      destruct (spred_call t' n l) as [bb'|e] eqn:Es'; [|discriminate].
      rewrite (spred_call_compl2 n l bb bb' Hn Hv Es Es') in H'. inversion H; inversion H'; subst. right. reflexivity.
    - simpl in H, H'. eapply sempred_mono; eassumption.
    - simpl in H, H'.
      destruct (ev h a) as [y|e] eqn:E; [|discriminate]. destruct (ev' h' a') as [y'|e] eqn:E'; [|discriminate].
      inversion H; inversion H'; subst. apply tv_not_mono. eapply IH; eassumption.
    - simpl in H, H'.
      destruct (collect (map (fun g0 => ev g0 a) fs)) as [l|e] eqn:E; [|discriminate].
      destruct (collect (map (fun g0 => ev' g0 a') fs')) as [l'|e] eqn:E'; [|discriminate].
      inversion H; inversion H'; subst. apply tv_all_mono.
      eapply (collect_le _ _ _ fs fs' Hfs); [|exact E|exact E'].
      intros x x' y y' Hx Hx' HR Hy Hy'. rewrite Forall_forall in IH.
      eapply (IH x Hx x' HR a a'); try eassumption.
      + simpl in Hq. rewrite Forall_forall in *. intros T HT. apply Hq. apply in_flat_map. eauto.
      + simpl in Hm. rewrite Forall_forall in *. intros T HT. apply Hm. apply in_flat_map. eauto.
    - simpl in H, H'.
      destruct (collect (map (fun g0 => ev g0 a) fs)) as [l|e] eqn:E; [|discriminate].
      destruct (collect (map (fun g0 => ev' g0 a') fs')) as [l'|e] eqn:E'; [|discriminate].
      inversion H; inversion H'; subst. apply tv_any_mono.
      eapply (collect_le _ _ _ fs fs' Hfs); [|exact E|exact E'].
      intros x x' y y' Hx Hx' HR Hy Hy'. rewrite Forall_forall in IH.
      eapply (IH x Hx x' HR a a'); try eassumption.
      + simpl in Hq. rewrite Forall_forall in *. intros T HT. apply Hq. apply in_flat_map. eauto.
      + simpl in Hm. rewrite Forall_forall in *. intros T HT. apply Hm. apply in_flat_map. eauto.
    - simpl in Hq. inversion Hq as [|T l HT Hl]; subst. simpl in Hm. destruct m as [me|].
      + inversion Hm as [|T' l' HT' Hl']; subst.
        eapply (quant_mono_mx qmm' g t t' Hc Hcl Hu Hrc true v i i' me _ _ a a' r r' Hi Ha HT'); [|exact H|exact H'].
        intros na na' x x' Hna Hx Hx'. eapply IH; eassumption.
      + eapply (quant_mono qmm' g t t' Hc Hcl Hu Hrc true v i i' _ _ a a' r r' Hi Ha HT); [|exact H|exact H'].
        intros na na' x x' Hna Hx Hx'. eapply IH; eassumption.
    - simpl in Hq. inversion Hq as [|T l HT Hl]; subst. simpl in Hm. destruct m as [me|].
      + inversion Hm as [|T' l' HT' Hl']; subst.
        eapply (quant_mono_mx qmm' g t t' Hc Hcl Hu Hrc false v i i' me _ _ a a' r r' Hi Ha HT'); [|exact H|exact H'].
        intros na na' x x' Hna Hx Hx'. eapply IH; eassumption.
      + eapply (quant_mono qmm' g t t' Hc Hcl Hu Hrc false v i i' _ _ a a' r r' Hi Ha HT); [|exact H|exact H'].
        intros na na' x x' Hna Hx Hx'. eapply IH; eassumption.
  Qed.
End Stable2.

(* ------------------------------------------------------------------ *)
(* evaluate()'s instantiation of the constant, extended fragment       *)
(* ------------------------------------------------------------------ *)
Section Inst2.
  Variable g : grammar.
  Variables t t' : tree.
  Hypothesis Hc : compl g t t'.
  Hypothesis Hcl : is_openT t' = false.
  Variables okc okn : bool.

  (* the list case of the instantiation lemma *)
  Lemma inst_list cst fs :
    Forall (fun f => forall f1 f2, qfrag2 atom3 okc okn f = true ->
       inst_const atom3 ainst3 t cst f = Ok f1 -> inst_const atom3 ainst3 t' cst f = Ok f2 ->
       frel2 atom3 okc okn g (arel3 t t') f1 f2 /\ qtypes atom3 f1 = qtypes atom3 f /\ mtypes atom3 f1 = mtypes atom3 f /\
       has_numq atom3 f1 = false /\ has_numq atom3 f2 = false) fs ->
    forallb (qfrag2 atom3 okc okn) fs = true -> forall l1 l2,
    mapM (inst_const atom3 ainst3 t cst) fs = Ok l1 -> mapM (inst_const atom3 ainst3 t' cst) fs = Ok l2 ->
    Forall2 (frel2 atom3 okc okn g (arel3 t t')) l1 l2 /\ flat_map (qtypes atom3) l1 = flat_map (qtypes atom3) fs /\
    flat_map (mtypes atom3) l1 = flat_map (mtypes atom3) fs /\
    existsb (has_numq atom3) l1 = false /\ existsb (has_numq atom3) l2 = false.
  Proof.
    intros IH. induction IH as [|x fs Hx _ IHl]; intros Hf l1 l2 E1 E2; simpl in E1, E2.
    - inversion E1; inversion E2; subst. repeat split. constructor.
    - simpl in Hf. apply andb_true_iff in Hf as [Hfx Hfl].
      destruct (inst_const atom3 ainst3 t cst x) as [y1|e] eqn:Ey1; [|discriminate].
      destruct (mapM (inst_const atom3 ainst3 t cst) fs) as [ys1|e] eqn:Em1; [|discriminate].
      destruct (inst_const atom3 ainst3 t' cst x) as [y2|e] eqn:Ey2; [|discriminate].
      destruct (mapM (inst_const atom3 ainst3 t' cst) fs) as [ys2|e] eqn:Em2; [|discriminate].
      inversion E1; inversion E2; subst.
      destruct (Hx y1 y2 Hfx eq_refl eq_refl) as (Hr & Hq & Hm & Hn1 & Hn2).
      destruct (IHl Hfl ys1 ys2 eq_refl eq_refl) as (Hrs & Hqs & Hms & Hns1 & Hns2).
      simpl. rewrite Hq, Hqs, Hm, Hms, Hn1, Hn2, Hns1, Hns2. repeat split. constructor; assumption.
  Qed.

  Lemma inst_frel2 cst : forall f f1 f2, qfrag2 atom3 okc okn f = true ->
    inst_const atom3 ainst3 t cst f = Ok f1 -> inst_const atom3 ainst3 t' cst f = Ok f2 ->
    frel2 atom3 okc okn g (arel3 t t') f1 f2 /\ qtypes atom3 f1 = qtypes atom3 f /\ mtypes atom3 f1 = mtypes atom3 f /\
    has_numq atom3 f1 = false /\ has_numq atom3 f2 = false.
  Proof.
    induction f as [x|n args|n args|h IH|fs IH|fs IH|v i m b IH|v i m b IH|v b IH|v b IH] using formula_ind';
      intros f1 f2 Hf H1 H2; simpl in Hf, H1, H2; try discriminate.
    - destruct (ainst3 cst t x) as [y|e] eqn:E1; [|discriminate]. destruct (ainst3 cst t' x) as [y'|e] eqn:E2; [|discriminate].
      inversion H1; inversion H2; subst. repeat split. constructor. right. eauto.
    - inversion H1; inversion H2; subst. repeat split. constructor; [assumption | apply (inst_arg_rel g t t' Hc)].
    - destruct (count_args_ok_inv args Hf) as (v & needle & num & -> & Hnt).
      inversion H1; inversion H2; subst. repeat split. simpl map. constructor; [|assumption].
      simpl. destruct (var_eqb v cst); constructor; assumption.
    - destruct (inst_const atom3 ainst3 t cst h) as [h1|e] eqn:E1; [|discriminate].
      destruct (inst_const atom3 ainst3 t' cst h) as [h2|e] eqn:E2; [|discriminate].
      inversion H1; inversion H2; subst. destruct (IH h1 h2 Hf eq_refl eq_refl) as (Hr & Hq & Hm & Hn1 & Hn2).
      repeat split; try assumption. constructor. assumption.
    - destruct (mapM (inst_const atom3 ainst3 t cst) fs) as [l1|e] eqn:E1; [|discriminate].
      destruct (mapM (inst_const atom3 ainst3 t' cst) fs) as [l2|e] eqn:E2; [|discriminate].
      inversion H1; inversion H2; subst. clear H1 H2.
      destruct (inst_list cst fs IH Hf l1 l2 E1 E2) as (Hr & Hq & Hm & Hn1 & Hn2). repeat split; try assumption. constructor. assumption.
    - destruct (mapM (inst_const atom3 ainst3 t cst) fs) as [l1|e] eqn:E1; [|discriminate].
      destruct (mapM (inst_const atom3 ainst3 t' cst) fs) as [l2|e] eqn:E2; [|discriminate].
      inversion H1; inversion H2; subst. clear H1 H2.
      destruct (inst_list cst fs IH Hf l1 l2 E1 E2) as (Hr & Hq & Hm & Hn1 & Hn2). repeat split; try assumption. constructor. assumption.
    - destruct (inst_const atom3 ainst3 t cst b) as [b1|e] eqn:E1; [|discriminate].
      destruct (inst_const atom3 ainst3 t' cst b) as [b2|e] eqn:E2; [|discriminate].
      inversion H1; inversion H2; subst. destruct (IH b1 b2 Hf eq_refl eq_refl) as (Hr & Hq & Hm & Hn1 & Hn2).
      simpl. rewrite Hq, Hm. repeat split; try assumption. constructor; [apply (inst_in_rel g t t' Hc) | assumption].
    - destruct (inst_const atom3 ainst3 t cst b) as [b1|e] eqn:E1; [|discriminate].
      destruct (inst_const atom3 ainst3 t' cst b) as [b2|e] eqn:E2; [|discriminate].
      inversion H1; inversion H2; subst. destruct (IH b1 b2 Hf eq_refl eq_refl) as (Hr & Hq & Hm & Hn1 & Hn2).
      simpl. rewrite Hq, Hm. repeat split; try assumption. constructor; [apply (inst_in_rel g t t' Hc) | assumption].
  Qed.
End Inst2.

(* ------------------------------------------------------------------ *)
(* the theorems at the level of evaluate()                             *)
(* ------------------------------------------------------------------ *)
(* the syntactic fragment: everything of qfrag plus consecutive, nth, count(var, nonterminal, literal),
   and tree quantifiers with match expressions *)
Definition qfragP (f : formula atom3) : bool := qfrag2 atom3 true true f.

Theorem verdict_mono_preds g t t' cst f v v' :
  compl g t t' -> is_openT t' = false -> uniq_ids t' -> reach_closedb g = true ->
  qfragP f = true -> forallb is_nt (qtypes atom3 f) = true ->
  K_selfrec_open atom3 g t f = false -> K_cons_rel_open atom3 t f = false -> K_nth_before atom3 g t f = false ->
  K_mexpr_open atom3 t f = false ->
  m3_evaluate g t cst f = Ok v -> m3_evaluate g t' cst f = Ok v' -> tv_le v v'.
Proof.
  intros Hc Hcl Hu Hrc Hf Hnt Hk Hkc Hkn Hkm H H'. unfold m3_evaluate, evaluate in H, H'.
  pose proof (guards_qt_ok g t f Hnt Hk) as Hq.
  pose proof (guards_mx_ok atom3 t f Hnt Hkm) as Hm.
  pose proof (guards_frag2 atom3 g t f Hf Hkc Hkn) as Hf2.
  set (okc := negb (cons_unsafe t)) in *. set (okn := negb (nth_unsafe g t)) in *.
  assert (Hokc : okc = true -> cons_unsafe t = false) by (subst okc; intro E; apply negb_true_iff in E; exact E).
  assert (Hokn : okn = true -> nth_unsafe g t = false) by (subst okn; intro E; apply negb_true_iff in E; exact E).
  destruct (existsb (var_eqb cst) (fvars atom3 afree3 f)).
  - destruct (inst_const atom3 ainst3 t cst f) as [f1|e] eqn:E1; [|discriminate].
    destruct (inst_const atom3 ainst3 t' cst f) as [f2|e] eqn:E2; [|discriminate].
    destruct (inst_frel2 g t t' Hc Hcl okc okn cst f f1 f2 Hf2 E1 E2) as (Hr & Hqt & Hmt & Hn1 & Hn2).
    rewrite Hn1 in H. rewrite Hn2 in H'. rewrite <- Hqt in Hq. rewrite <- Hmt in Hm.
    eapply (eval_mono2 atom3 afree3 aopen3 aeval3 (m3_qmm g t') (arel3 t t') okc okn g t t' Hc Hcl Hu Hrc Hokc Hokn);
      [| exact Hr | constructor | exact Hq | exact Hm | exact H | exact H'].
    intros x x' a a' r r'. apply (atom3_mono g t t' Hc).
  - rewrite (qfrag2_numq atom3 okc okn f Hf2) in H, H'.
    eapply (eval_mono2 atom3 afree3 aopen3 aeval3 (m3_qmm g t') (arel3 t t') okc okn g t t' Hc Hcl Hu Hrc Hokc Hokn);
      [| apply frel2_refl; [intro x; left; reflexivity | exact Hf2] | constructor | exact Hq | exact Hm | exact H | exact H'].
    intros x x' a a' r r'. apply (atom3_mono g t t' Hc).
Qed.

Theorem verdict_stable_preds g t t' cst f v v' :
  compl g t t' -> is_openT t' = false -> uniq_ids t' -> reach_closedb g = true ->
  qfragP f = true -> forallb is_nt (qtypes atom3 f) = true ->
  K_selfrec_open atom3 g t f = false -> K_cons_rel_open atom3 t f = false -> K_nth_before atom3 g t f = false ->
  K_mexpr_open atom3 t f = false ->
  m3_evaluate g t cst f = Ok v -> v <> UU -> m3_evaluate g t' cst f = Ok v' -> v' = v.
Proof.
  intros Hc Hcl Hu Hrc Hf Hnt Hk Hkc Hkn Hkm H Hv H'.
  destruct (verdict_mono_preds g t t' cst f v v' Hc Hcl Hu Hrc Hf Hnt Hk Hkc Hkn Hkm H H') as [X|X]; [contradiction | auto].
Qed.

(* the fragment contains the old one *)
Theorem qfrag_in_qfragP f : qfrag atom3 f = true -> qfragP f = true.
Proof. apply qfrag_qfrag2. Qed.

(* ------------------------------------------------------------------ *)
(* witnesses and non-vacuity (literals generated from the implementation's trees; every verdict
   below was also observed on isla.evaluator.evaluate)                                          *)
(* ------------------------------------------------------------------ *)
Definition CW_g : grammar := [([60;115;116;97;114;116;62]%N, [[[60;115;62]%N]]); ([60;115;62]%N, [[[60;97;62]%N; [60;98;62]%N; [60;99;62]%N]]); ([60;97;62]%N, [[[60;100;62]%N; [60;100;62]%N]]); ([60;100;62]%N, [[[49]%N]]); ([60;98;62]%N, [[[98]%N]]); ([60;99;62]%N, [[[99]%N]])].
Definition CW_t : tree := (Node [60;115;116;97;114;116;62]%N 10%N false [(Node [60;115;62]%N 9%N false [(Node [60;97;62]%N 4%N true []); (Node [60;98;62]%N 6%N false [(Node [98]%N 5%N false [])]); (Node [60;99;62]%N 8%N false [(Node [99]%N 7%N false [])])])]).
Definition CW_t' : tree := (Node [60;115;116;97;114;116;62]%N 10%N false [(Node [60;115;62]%N 9%N false [(Node [60;97;62]%N 4%N false [(Node [60;100;62]%N 1%N false [(Node [49]%N 0%N false [])]); (Node [60;100;62]%N 3%N false [(Node [49]%N 2%N false [])])]); (Node [60;98;62]%N 6%N false [(Node [98]%N 5%N false [])]); (Node [60;99;62]%N 8%N false [(Node [99]%N 7%N false [])])])]).
(* exists <a> x in start: exists <c> y in start: consecutive(x, y) : TRUE on `<a>bc`, FALSE on `11bc` *)
Definition CW_f1 : formula atom3 := lift3 (FExists (MkVar VBound [120]%N [60;97;62]%N) (InVar (MkVar VConst [115;116;97;114;116]%N [60;115;116;97;114;116;62]%N)) None (FExists (MkVar VBound [121]%N [60;99;62]%N) (InVar (MkVar VConst [115;116;97;114;116]%N [60;115;116;97;114;116;62]%N)) None (FSPred [99;111;110;115;101;99;117;116;105;118;101]%N [(PVar (MkVar VBound [120]%N [60;97;62]%N)); (PVar (MkVar VBound [121]%N [60;99;62]%N))]))).
(* forall <a> x in start: forall <c> y in start: not consecutive(x, y) : FALSE on `<a>bc`, TRUE on `11bc` *)
Definition CW_f2 : formula atom3 := lift3 (FForall (MkVar VBound [120]%N [60;97;62]%N) (InVar (MkVar VConst [115;116;97;114;116]%N [60;115;116;97;114;116;62]%N)) None (FForall (MkVar VBound [121]%N [60;99;62]%N) (InVar (MkVar VConst [115;116;97;114;116]%N [60;115;116;97;114;116;62]%N)) None (FNot (FSPred [99;111;110;115;101;99;117;116;105;118;101]%N [(PVar (MkVar VBound [120]%N [60;97;62]%N)); (PVar (MkVar VBound [121]%N [60;99;62]%N))])))).
Definition CX_g : grammar := [([60;115;116;97;114;116;62]%N, [[[60;97;62]%N; [60;98;62]%N; [60;99;62]%N]]); ([60;97;62]%N, [[[97]%N]]); ([60;98;62]%N, [[[60;100;62]%N; [60;100;62]%N]]); ([60;100;62]%N, [[[49]%N]]); ([60;99;62]%N, [[[99]%N]])].
Definition CX_t : tree := (Node [60;115;116;97;114;116;62]%N 9%N false [(Node [60;97;62]%N 1%N false [(Node [97]%N 0%N false [])]); (Node [60;98;62]%N 6%N true []); (Node [60;99;62]%N 8%N false [(Node [99]%N 7%N false [])])]).
Definition CX_t' : tree := (Node [60;115;116;97;114;116;62]%N 9%N false [(Node [60;97;62]%N 1%N false [(Node [97]%N 0%N false [])]); (Node [60;98;62]%N 6%N false [(Node [60;100;62]%N 3%N false [(Node [49]%N 2%N false [])]); (Node [60;100;62]%N 5%N false [(Node [49]%N 4%N false [])])]); (Node [60;99;62]%N 8%N false [(Node [99]%N 7%N false [])])]).
(* forall <a> x in start: forall <c> y in start: not consecutive(x, y) : TRUE on `a<b>c`, TRUE on `a11c` *)
Definition CX_f1 : formula atom3 := lift3 (FForall (MkVar VBound [120]%N [60;97;62]%N) (InVar (MkVar VConst [115;116;97;114;116]%N [60;115;116;97;114;116;62]%N)) None (FForall (MkVar VBound [121]%N [60;99;62]%N) (InVar (MkVar VConst [115;116;97;114;116]%N [60;115;116;97;114;116;62]%N)) None (FNot (FSPred [99;111;110;115;101;99;117;116;105;118;101]%N [(PVar (MkVar VBound [120]%N [60;97;62]%N)); (PVar (MkVar VBound [121]%N [60;99;62]%N))])))).
(* exists <a> x in start: exists <c> y in start: consecutive(x, y) : FALSE on `a<b>c`, FALSE on `a11c` *)
Definition CX_f2 : formula atom3 := lift3 (FExists (MkVar VBound [120]%N [60;97;62]%N) (InVar (MkVar VConst [115;116;97;114;116]%N [60;115;116;97;114;116;62]%N)) None (FExists (MkVar VBound [121]%N [60;99;62]%N) (InVar (MkVar VConst [115;116;97;114;116]%N [60;115;116;97;114;116;62]%N)) None (FSPred [99;111;110;115;101;99;117;116;105;118;101]%N [(PVar (MkVar VBound [120]%N [60;97;62]%N)); (PVar (MkVar VBound [121]%N [60;99;62]%N))]))).
Definition NX_g : grammar := [([60;115;116;97;114;116;62]%N, [[[60;108;105;115;116;62]%N]]); ([60;108;105;115;116;62]%N, [[[60;105;116;101;109;62]%N]; [[60;105;116;101;109;62]%N; [44]%N; [60;108;105;115;116;62]%N]]); ([60;105;116;101;109;62]%N, [[[60;100;62]%N]; [[40]%N; [60;108;105;115;116;62]%N; [41]%N]]); ([60;100;62]%N, [[[49]%N]; [[50]%N]; [[51]%N]])].
Definition NX_t : tree := (Node [60;115;116;97;114;116;62]%N 18%N false [(Node [60;108;105;115;116;62]%N 17%N false [(Node [60;105;116;101;109;62]%N 2%N false [(Node [60;100;62]%N 1%N false [(Node [49]%N 0%N false [])])]); (Node [44]%N 3%N false []); (Node [60;108;105;115;116;62]%N 16%N false [(Node [60;105;116;101;109;62]%N 15%N true [])])])]).
Definition NX_t' : tree := (Node [60;115;116;97;114;116;62]%N 18%N false [(Node [60;108;105;115;116;62]%N 17%N false [(Node [60;105;116;101;109;62]%N 2%N false [(Node [60;100;62]%N 1%N false [(Node [49]%N 0%N false [])])]); (Node [44]%N 3%N false []); (Node [60;108;105;115;116;62]%N 16%N false [(Node [60;105;116;101;109;62]%N 15%N false [(Node [40]%N 4%N false []); (Node [60;108;105;115;116;62]%N 13%N false [(Node [60;105;116;101;109;62]%N 7%N false [(Node [60;100;62]%N 6%N false [(Node [50]%N 5%N false [])])]); (Node [44]%N 8%N false []); (Node [60;108;105;115;116;62]%N 12%N false [(Node [60;105;116;101;109;62]%N 11%N false [(Node [60;100;62]%N 10%N false [(Node [51]%N 9%N false [])])])])]); (Node [41]%N 14%N false [])])])])]).
(* exists <d> x in start: nth("1", x, start) : TRUE on `1,<item>`, TRUE on `1,(2,3)` *)
Definition NX_f1 : formula atom3 := lift3 (FExists (MkVar VBound [120]%N [60;100;62]%N) (InVar (MkVar VConst [115;116;97;114;116]%N [60;115;116;97;114;116;62]%N)) None (FSPred [110;116;104]%N [(PStr [49]%N); (PVar (MkVar VBound [120]%N [60;100;62]%N)); (PVar (MkVar VConst [115;116;97;114;116]%N [60;115;116;97;114;116;62]%N))])).
(* forall <item> x in start: not nth("3", x, start) : TRUE on `1,<item>`, FALSE on `1,(2,3)` *)
(* not count(start, "<list>", "1") : TRUE on `1,<item>`, TRUE on `1,(2,3)` *)
Definition NX_f5 : formula atom3 := lift3 (FNot (FSemPred [99;111;117;110;116]%N [(PVar (MkVar VConst [115;116;97;114;116]%N [60;115;116;97;114;116;62]%N)); (PStr [60;108;105;115;116;62]%N); (PStr [49]%N)])).
Definition NY_g : grammar := [([60;115;116;97;114;116;62]%N, [[[60;108;105;115;116;62]%N]]); ([60;108;105;115;116;62]%N, [[[60;105;116;101;109;62]%N]; [[60;105;116;101;109;62]%N; [44]%N; [60;108;105;115;116;62]%N]]); ([60;105;116;101;109;62]%N, [[[60;100;62]%N]; [[40]%N; [60;108;105;115;116;62]%N; [41]%N]]); ([60;100;62]%N, [[[49]%N]; [[50]%N]; [[51]%N]])].
Definition NY_t : tree := (Node [60;115;116;97;114;116;62]%N 18%N false [(Node [60;108;105;115;116;62]%N 17%N false [(Node [60;105;116;101;109;62]%N 11%N false [(Node [40]%N 0%N false []); (Node [60;108;105;115;116;62]%N 9%N false [(Node [60;105;116;101;109;62]%N 3%N false [(Node [60;100;62]%N 2%N false [(Node [49]%N 1%N false [])])]); (Node [44]%N 4%N false []); (Node [60;108;105;115;116;62]%N 8%N false [(Node [60;105;116;101;109;62]%N 7%N false [(Node [60;100;62]%N 6%N false [(Node [50]%N 5%N false [])])])])]); (Node [41]%N 10%N false [])]); (Node [44]%N 12%N false []); (Node [60;108;105;115;116;62]%N 16%N false [(Node [60;105;116;101;109;62]%N 15%N false [(Node [60;100;62]%N 14%N true [])])])])]).
Definition NY_t' : tree := (Node [60;115;116;97;114;116;62]%N 18%N false [(Node [60;108;105;115;116;62]%N 17%N false [(Node [60;105;116;101;109;62]%N 11%N false [(Node [40]%N 0%N false []); (Node [60;108;105;115;116;62]%N 9%N false [(Node [60;105;116;101;109;62]%N 3%N false [(Node [60;100;62]%N 2%N false [(Node [49]%N 1%N false [])])]); (Node [44]%N 4%N false []); (Node [60;108;105;115;116;62]%N 8%N false [(Node [60;105;116;101;109;62]%N 7%N false [(Node [60;100;62]%N 6%N false [(Node [50]%N 5%N false [])])])])]); (Node [41]%N 10%N false [])]); (Node [44]%N 12%N false []); (Node [60;108;105;115;116;62]%N 16%N false [(Node [60;105;116;101;109;62]%N 15%N false [(Node [60;100;62]%N 14%N false [(Node [51]%N 13%N false [])])])])])]).
(* exists <item> i in start: nth("2", i, start) : TRUE on `(1,2),<d>`, TRUE on `(1,2),3` *)
Definition NY_f1 : formula atom3 := lift3 (FExists (MkVar VBound [105]%N [60;105;116;101;109;62]%N) (InVar (MkVar VConst [115;116;97;114;116]%N [60;115;116;97;114;116;62]%N)) None (FSPred [110;116;104]%N [(PStr [50]%N); (PVar (MkVar VBound [105]%N [60;105;116;101;109;62]%N)); (PVar (MkVar VConst [115;116;97;114;116]%N [60;115;116;97;114;116;62]%N))])).
(* count(start, "<item>", "4") : TRUE on `(1,2),<d>`, TRUE on `(1,2),3` *)
Definition NY_f2 : formula atom3 := lift3 (FSemPred [99;111;117;110;116]%N [(PVar (MkVar VConst [115;116;97;114;116]%N [60;115;116;97;114;116;62]%N)); (PStr [60;105;116;101;109;62]%N); (PStr [52]%N)]).
(* not count(start, "<item>", "3") : TRUE on `(1,2),<d>`, TRUE on `(1,2),3` *)
Definition NY_f3 : formula atom3 := lift3 (FNot (FSemPred [99;111;117;110;116]%N [(PVar (MkVar VConst [115;116;97;114;116]%N [60;115;116;97;114;116;62]%N)); (PStr [60;105;116;101;109;62]%N); (PStr [51]%N)])).

(* REFUTATION for consecutive (code as it is): the defect K_cons_rel (C04) makes the verdict of
   evaluate() flip under completion — TRUE on `<a>bc`, FALSE on `11bc` (and FALSE -> TRUE for the
   negated universal form); the tree is in the class K_cons_rel_open and in no other class. *)
Theorem cons_unstable_refuted :
  compl CW_g CW_t CW_t' /\ is_openT CW_t' = false /\ uniq_ids CW_t' /\ reach_closedb CW_g = true /\
  qfragP CW_f1 = true /\ qfragP CW_f2 = true /\
  m3_evaluate CW_g CW_t W_cst3 CW_f1 = Ok TT /\ m3_evaluate CW_g CW_t' W_cst3 CW_f1 = Ok FF /\
  m3_evaluate CW_g CW_t W_cst3 CW_f2 = Ok FF /\ m3_evaluate CW_g CW_t' W_cst3 CW_f2 = Ok TT /\
  K_cons_rel_open atom3 CW_t CW_f1 = true /\
  K_selfrec_open atom3 CW_g CW_t CW_f1 = false /\ K_nth_open atom3 CW_t CW_f1 = false /\
  K_count_insert atom3 CW_g CW_t CW_f1 = false /\
  (* the arguments of the flipping call are in C04's class K_cons_rel *)
  K_cons_rel [0;0] [0;2] = true /\
  consecutive CW_t [0;0] [0;2] = Ok true /\ consecutive CW_t' [0;0] [0;2] = Ok false /\
  (* the repaired predicate is stable here: it answers false on both *)
  consecutive_fixed CW_t [0;0] [0;2] = Ok false /\ consecutive_fixed CW_t' [0;0] [0;2] = Ok false.
Proof.
  split; [unfold CW_t, CW_t'; compl_tac|].
  split; [vm_compute; reflexivity|].
  split; [apply uniq_idsb_spec; vm_compute; reflexivity|].
  repeat split; vm_compute; reflexivity.
Qed.

(* non-vacuity of verdict_stable_preds: all premises hold, the verdict on the open tree is definite *)
Example verdict_stable_preds_example :
  (* consecutive, open leaf between the arguments *)
  (compl CX_g CX_t CX_t' /\ is_openT CX_t' = false /\ uniq_ids CX_t' /\ reach_closedb CX_g = true /\ is_openT CX_t = true /\
   qfragP CX_f1 = true /\ forallb is_nt (qtypes atom3 CX_f1) = true /\ K_selfrec_open atom3 CX_g CX_t CX_f1 = false /\
   K_cons_rel_open atom3 CX_t CX_f1 = false /\ K_nth_before atom3 CX_g CX_t CX_f1 = false /\
   mem_str s_consecutive (spred_names atom3 CX_f1) = true /\
   m3_evaluate CX_g CX_t W_cst3 CX_f1 = Ok TT /\ m3_evaluate CX_g CX_t' W_cst3 CX_f1 = Ok TT /\
   m3_evaluate CX_g CX_t W_cst3 CX_f2 = Ok FF /\ m3_evaluate CX_g CX_t' W_cst3 CX_f2 = Ok FF) /\
  (* nth: the open <item> can still produce <d> nodes, but only AFTER every existing node:
     in K_nth_open, not in K_nth_before *)
  (compl NX_g NX_t NX_t' /\ is_openT NX_t' = false /\ uniq_ids NX_t' /\ reach_closedb NX_g = true /\ is_openT NX_t = true /\
   qfragP NX_f1 = true /\ forallb is_nt (qtypes atom3 NX_f1) = true /\ K_selfrec_open atom3 NX_g NX_t NX_f1 = false /\
   K_cons_rel_open atom3 NX_t NX_f1 = false /\ K_nth_before atom3 NX_g NX_t NX_f1 = false /\
   K_nth_open atom3 NX_t NX_f1 = true /\
   m3_evaluate NX_g NX_t W_cst3 NX_f1 = Ok TT /\ m3_evaluate NX_g NX_t' W_cst3 NX_f1 = Ok TT) /\
  (* count, more needles possible but already more than the target: definite FALSE under the negation *)
  (qfragP NX_f5 = true /\ more_needles NX_g NX_t [60;108;105;115;116;62]%N = true /\
   K_count_insert atom3 NX_g NX_t NX_f5 = false /\
   m3_evaluate NX_g NX_t W_cst3 NX_f5 = Ok TT /\ m3_evaluate NX_g NX_t' W_cst3 NX_f5 = Ok TT) /\
  (* nth and count on `(1,2),<d>`: the open <d> cannot produce any nonterminal *)
  (compl NY_g NY_t NY_t' /\ is_openT NY_t = true /\ nth_unsafe NY_g NY_t = false /\
   qfragP NY_f1 = true /\ qfragP NY_f2 = true /\ qfragP NY_f3 = true /\
   more_needles NY_g NY_t [60;105;116;101;109;62]%N = false /\
   m3_evaluate NY_g NY_t W_cst3 NY_f1 = Ok TT /\ m3_evaluate NY_g NY_t' W_cst3 NY_f1 = Ok TT /\
   m3_evaluate NY_g NY_t W_cst3 NY_f2 = Ok TT /\ m3_evaluate NY_g NY_t' W_cst3 NY_f2 = Ok TT /\
   m3_evaluate NY_g NY_t W_cst3 NY_f3 = Ok TT /\ m3_evaluate NY_g NY_t' W_cst3 NY_f3 = Ok TT).
Proof.
  split; [|split; [|split]].
  - split; [unfold CX_t, CX_t'; compl_tac|].
    split; [vm_compute; reflexivity|].
    split; [apply uniq_idsb_spec; vm_compute; reflexivity|].
    repeat split; vm_compute; reflexivity.
  - split; [unfold NX_t, NX_t'; compl_tac|].
    split; [vm_compute; reflexivity|].
    split; [apply uniq_idsb_spec; vm_compute; reflexivity|].
    repeat split; vm_compute; reflexivity.
  - repeat split; vm_compute; reflexivity.
  - split; [unfold NY_t, NY_t'; compl_tac|].
    repeat split; vm_compute; reflexivity.
Qed.

(* the recorded K_nth_open witness (Eval3Facts.nth_unstable_refuted) lies in the refined class *)
Example nth_witness_in_K_nth_before : K_nth_before atom3 NTH_g NTH_t NTH_f = true.
Proof. vm_compute. reflexivity. Qed.

(* ---- quantifiers with match expressions: non-vacuity ---- *)
Definition MX_g : grammar := [([60;115;116;97;114;116;62]%N, [[[60;97;62]%N; [60;98;62]%N]]); ([60;97;62]%N, [[[40]%N; [60;99;62]%N; [41]%N]]); ([60;99;62]%N, [[[49]%N]; [[51]%N]]); ([60;98;62]%N, [[[60;101;62]%N; [60;101;62]%N]]); ([60;101;62]%N, [[[50]%N]])].
Definition MX_t : tree := (Node [60;115;116;97;114;116;62]%N 10%N false [(Node [60;97;62]%N 4%N false [(Node [40]%N 0%N false []); (Node [60;99;62]%N 2%N false [(Node [49]%N 1%N false [])]); (Node [41]%N 3%N false [])]); (Node [60;98;62]%N 9%N true [])]).
Definition MX_t' : tree := (Node [60;115;116;97;114;116;62]%N 10%N false [(Node [60;97;62]%N 4%N false [(Node [40]%N 0%N false []); (Node [60;99;62]%N 2%N false [(Node [49]%N 1%N false [])]); (Node [41]%N 3%N false [])]); (Node [60;98;62]%N 9%N false [(Node [60;101;62]%N 6%N false [(Node [50]%N 5%N false [])]); (Node [60;101;62]%N 8%N false [(Node [50]%N 7%N false [])])])]).
(* forall <a> v="({<c> x})" in start: (= x "1") : TRUE on `(1)<b>`, TRUE on `(1)22` *)
Definition MX_f1 : formula atom3 := lift3 (FForall (MkVar VBound [118]%N [60;97;62]%N) (InVar (MkVar VConst [115;116;97;114;116]%N [60;115;116;97;114;116;62]%N)) (Some (MkMexpr [(MkVar VDummy [68;85;77;77;89;95;48]%N [40]%N); (MkVar VBound [120]%N [60;99;62]%N); (MkVar VDummy [68;85;77;77;89;95;49]%N [41]%N)] [((Node [60;97;62]%N 42%N false [(Node [40]%N 39%N false []); (Node [60;99;62]%N 40%N true []); (Node [41]%N 41%N false [])]), [((MkVar VDummy [68;85;77;77;89;95;50]%N [40]%N), [0]%nat); ((MkVar VBound [120]%N [60;99;62]%N), [1]%nat); ((MkVar VDummy [68;85;77;77;89;95;51]%N [41]%N), [2]%nat)])])) (FSmt (AStr false (SVar (MkVar VBound [120]%N [60;99;62]%N)) (SLit [49]%N)))).
(* exists <a> v="({<c> x})" in start: (= x "3") : FALSE on `(1)<b>`, FALSE on `(1)22` *)
Definition MX_f2 : formula atom3 := lift3 (FExists (MkVar VBound [118]%N [60;97;62]%N) (InVar (MkVar VConst [115;116;97;114;116]%N [60;115;116;97;114;116;62]%N)) (Some (MkMexpr [(MkVar VDummy [68;85;77;77;89;95;54]%N [40]%N); (MkVar VBound [120]%N [60;99;62]%N); (MkVar VDummy [68;85;77;77;89;95;55]%N [41]%N)] [((Node [60;97;62]%N 74%N false [(Node [40]%N 71%N false []); (Node [60;99;62]%N 72%N true []); (Node [41]%N 73%N false [])]), [((MkVar VDummy [68;85;77;77;89;95;56]%N [40]%N), [0]%nat); ((MkVar VBound [120]%N [60;99;62]%N), [1]%nat); ((MkVar VDummy [68;85;77;77;89;95;57]%N [41]%N), [2]%nat)])])) (FSmt (AStr false (SVar (MkVar VBound [120]%N [60;99;62]%N)) (SLit [51]%N)))).
Definition MY_g : grammar := [([60;115;116;97;114;116;62]%N, [[[60;115;116;109;116;62]%N]]); ([60;115;116;109;116;62]%N, [[[60;97;115;115;103;110;62]%N]; [[60;97;115;115;103;110;62]%N; [32;59;32]%N; [60;115;116;109;116;62]%N]]); ([60;97;115;115;103;110;62]%N, [[[60;118;97;114;62]%N; [32;58;61;32]%N; [60;114;104;115;62]%N]]); ([60;114;104;115;62]%N, [[[60;118;97;114;62]%N]; [[60;100;105;103;105;116;62]%N]]); ([60;118;97;114;62]%N, [[[120]%N]; [[121]%N]]); ([60;100;105;103;105;116;62]%N, [[[49]%N]; [[50]%N]])].
Definition MY_t : tree := (Node [60;115;116;97;114;116;62]%N 17%N false [(Node [60;115;116;109;116;62]%N 16%N false [(Node [60;97;115;115;103;110;62]%N 6%N false [(Node [60;118;97;114;62]%N 1%N false [(Node [120]%N 0%N false [])]); (Node [32;58;61;32]%N 2%N false []); (Node [60;114;104;115;62]%N 5%N false [(Node [60;100;105;103;105;116;62]%N 4%N false [(Node [49]%N 3%N false [])])])]); (Node [32;59;32]%N 7%N false []); (Node [60;115;116;109;116;62]%N 15%N true [])])]).
Definition MY_t' : tree := (Node [60;115;116;97;114;116;62]%N 17%N false [(Node [60;115;116;109;116;62]%N 16%N false [(Node [60;97;115;115;103;110;62]%N 6%N false [(Node [60;118;97;114;62]%N 1%N false [(Node [120]%N 0%N false [])]); (Node [32;58;61;32]%N 2%N false []); (Node [60;114;104;115;62]%N 5%N false [(Node [60;100;105;103;105;116;62]%N 4%N false [(Node [49]%N 3%N false [])])])]); (Node [32;59;32]%N 7%N false []); (Node [60;115;116;109;116;62]%N 15%N false [(Node [60;97;115;115;103;110;62]%N 14%N false [(Node [60;118;97;114;62]%N 9%N false [(Node [121]%N 8%N false [])]); (Node [32;58;61;32]%N 10%N false []); (Node [60;114;104;115;62]%N 13%N false [(Node [60;100;105;103;105;116;62]%N 12%N false [(Node [50]%N 11%N false [])])])])])])]).
(* exists <assgn> a="{<var> l} := {<rhs> r}" in start: (= l "x") : TRUE on `x := 1 ; <stmt>`, TRUE on `x := 1 ; y := 2` *)
Definition MY_f1 : formula atom3 := lift3 (FExists (MkVar VBound [97]%N [60;97;115;115;103;110;62]%N) (InVar (MkVar VConst [115;116;97;114;116]%N [60;115;116;97;114;116;62]%N)) (Some (MkMexpr [(MkVar VBound [108]%N [60;118;97;114;62]%N); (MkVar VDummy [68;85;77;77;89;95;49;50]%N [32;58;61;32]%N); (MkVar VBound [114]%N [60;114;104;115;62]%N)] [((Node [60;97;115;115;103;110;62]%N 136%N false [(Node [60;118;97;114;62]%N 133%N true []); (Node [32;58;61;32]%N 134%N false []); (Node [60;114;104;115;62]%N 135%N true [])]), [((MkVar VBound [108]%N [60;118;97;114;62]%N), [0]%nat); ((MkVar VDummy [68;85;77;77;89;95;50;51]%N [32;58;61;32]%N), [1]%nat); ((MkVar VBound [114]%N [60;114;104;115;62]%N), [2]%nat)])])) (FSmt (AStr false (SVar (MkVar VBound [108]%N [60;118;97;114;62]%N)) (SLit [120]%N)))).

(* every premise of verdict_stable_preds holds for formulas WITH a match expression and a definite
   verdict on the open tree: the <a> node of `(1)<b>` is a closed subtree and the open <b> cannot
   produce an <a>; the first <assgn> of `x := 1 ; <stmt>` is closed and is the witness *)
Example verdict_stable_mexpr_example :
  (compl MX_g MX_t MX_t' /\ is_openT MX_t' = false /\ uniq_ids MX_t' /\ reach_closedb MX_g = true /\ is_openT MX_t = true /\
   qfragP MX_f1 = true /\ has_mexpr atom3 MX_f1 = true /\ forallb is_nt (qtypes atom3 MX_f1) = true /\
   K_selfrec_open atom3 MX_g MX_t MX_f1 = false /\ K_cons_rel_open atom3 MX_t MX_f1 = false /\
   K_nth_before atom3 MX_g MX_t MX_f1 = false /\ K_mexpr_open atom3 MX_t MX_f1 = false /\
   m3_evaluate MX_g MX_t W_cst3 MX_f1 = Ok TT /\ m3_evaluate MX_g MX_t' W_cst3 MX_f1 = Ok TT /\
   qfragP MX_f2 = true /\ K_mexpr_open atom3 MX_t MX_f2 = false /\
   m3_evaluate MX_g MX_t W_cst3 MX_f2 = Ok FF /\ m3_evaluate MX_g MX_t' W_cst3 MX_f2 = Ok FF) /\
  (compl MY_g MY_t MY_t' /\ is_openT MY_t' = false /\ uniq_ids MY_t' /\ reach_closedb MY_g = true /\ is_openT MY_t = true /\
   qfragP MY_f1 = true /\ has_mexpr atom3 MY_f1 = true /\ forallb is_nt (qtypes atom3 MY_f1) = true /\
   K_selfrec_open atom3 MY_g MY_t MY_f1 = false /\ K_cons_rel_open atom3 MY_t MY_f1 = false /\
   K_nth_before atom3 MY_g MY_t MY_f1 = false /\ K_mexpr_open atom3 MY_t MY_f1 = false /\
   m3_evaluate MY_g MY_t W_cst3 MY_f1 = Ok TT /\ m3_evaluate MY_g MY_t' W_cst3 MY_f1 = Ok TT).
Proof.
  split.
  - split; [unfold MX_t, MX_t'; compl_tac|].
    split; [vm_compute; reflexivity|].
    split; [apply uniq_idsb_spec; vm_compute; reflexivity|].
    repeat split; vm_compute; reflexivity.
  - split; [unfold MY_t, MY_t'; compl_tac|].
    split; [vm_compute; reflexivity|].
    split; [apply uniq_idsb_spec; vm_compute; reflexivity|].
    repeat split; vm_compute; reflexivity.
Qed.

(* formulas without match expression are never in K_mexpr_open *)
Lemma no_mexpr_mtypes A f : has_mexpr A f = false -> mtypes A f = [].
Proof.
  induction f as [x|n args|n args|h IH|fs IH|fs IH|v i m b IH|v i m b IH|v b IH|v b IH] using formula_ind';
    simpl; intro Hf; try reflexivity; auto.
  - induction IH as [|x l Hx _ IHl]; [reflexivity|]. simpl in *. apply orb_false_iff in Hf as [H1 H2].
    rewrite (Hx H1), (IHl H2). reflexivity.
  - induction IH as [|x l Hx _ IHl]; [reflexivity|]. simpl in *. apply orb_false_iff in Hf as [H1 H2].
    rewrite (Hx H1), (IHl H2). reflexivity.
  - destruct m; [discriminate|]. simpl in *. auto.
  - destruct m; [discriminate|]. simpl in *. auto.
Qed.

Theorem no_mexpr_not_K A t f : has_mexpr A f = false -> K_mexpr_open A t f = false.
Proof.
  intro Hf. unfold K_mexpr_open. rewrite (no_mexpr_mtypes A f Hf).
  induction (nodes t) as [|x l IH]; [reflexivity|]. simpl. exact IH.
Qed.

(* the instances of verdict_stable_preds_example satisfy the fourth guard too *)
Example preds_examples_not_K_mexpr :
  K_mexpr_open atom3 CX_t CX_f1 = false /\ K_mexpr_open atom3 CX_t CX_f2 = false /\
  K_mexpr_open atom3 NX_t NX_f1 = false /\ K_mexpr_open atom3 NX_t NX_f5 = false /\
  K_mexpr_open atom3 NY_t NY_f1 = false /\ K_mexpr_open atom3 NY_t NY_f2 = false /\ K_mexpr_open atom3 NY_t NY_f3 = false.
Proof. repeat split; vm_compute; reflexivity. Qed.
