(* C07 — print/parse round trip for the core fragment: facts about Logic/ParseCore.v.
   Part 1 (this file): the lexer reads the text of `unp f`, under any indentation, as the token
   list `toks f` (the layout of ISLaUnparser — indentation, the blank prefixed to the lines of the
   first child of a connective and the parenthesis that overwrites the first character — disappears).
   Part 2 (ParseCoreMore.v): token parser, name resolution, print_parse. *)
From ISLA Require Import Unparse ParseCore.
From Coq Require Import Lia ZArith String DecimalN DecimalPos.
Import ListNotations.
Open Scope N_scope.

Ltac ne := first [discriminate | congruence | (intro; discriminate) | (exfalso; congruence)].

(* ---------- small list/text lemmas ---------- *)
Lemma join_cons_ne sep (l : str) L : L <> [] -> join sep (l :: L) = l ++ sep ++ join sep L.
Proof. destruct L; [congruence | reflexivity]. Qed.

Lemma map_last_ne {X} (g : X -> X) L : L <> [] -> map_last g L <> [].
Proof. destruct L as [|x [|y r]]; simpl; congruence. Qed.

Lemma join_map_last sep x L :
  L <> [] -> join sep (map_last (fun l => l ++ x) L) = join sep L ++ x.
Proof.
  induction L as [|l r IH]; intro H; [congruence|].
  destruct r as [|l2 r2]; [reflexivity|].
  change (map_last (fun l0 => l0 ++ x) (l :: l2 :: r2)) with (l :: map_last (fun l0 => l0 ++ x) (l2 :: r2)).
  rewrite join_cons_ne by (apply map_last_ne; discriminate).
  rewrite IH by ne. change (join sep (l :: l2 :: r2)) with (l ++ sep ++ join sep (l2 :: r2)). rewrite <- !app_assoc. reflexivity.
Qed.

Lemma join_app sep L1 L2 :
  L1 <> [] -> L2 <> [] -> join sep (L1 ++ L2) = join sep L1 ++ sep ++ join sep L2.
Proof.
  induction L1 as [|l r IH]; intros H1 H2; [congruence|].
  destruct r as [|l2 r2].
  - simpl app. rewrite join_cons_ne by exact H2. reflexivity.
  - change ((l :: l2 :: r2) ++ L2) with (l :: ((l2 :: r2) ++ L2)).
    rewrite join_cons_ne by (destruct L2; simpl; congruence).
    rewrite IH by ne. change (join sep (l :: l2 :: r2)) with (l ++ sep ++ join sep (l2 :: r2)). rewrite <- !app_assoc. reflexivity.
Qed.

Lemma map_map_last {X} (f g : X -> X) (g' : X -> X) L :
  (forall l, f (g l) = g' (f l)) -> map f (map_last g L) = map_last g' (map f L).
Proof.
  intro H. induction L as [|l r IH]; [reflexivity|].
  destruct r as [|l2 r2]; [simpl; rewrite H; reflexivity|].
  change (map f (map_last g (l :: l2 :: r2))) with (f l :: map f (map_last g (l2 :: r2))).
  rewrite IH. reflexivity.
Qed.

(* ---------- padding of line lists ---------- *)
Definition pad (n : nat) (l : str) : str := repeat 32 n ++ l.
Definition padfm (n m : nat) (L : list str) : list str :=
  match L with [] => [] | l :: r => pad n l :: map (pad m) r end.

Lemma padfm_same k L : padfm k k L = map (pad k) L.
Proof. destruct L; reflexivity. Qed.
Lemma pad0 l : pad 0 l = l.
Proof. reflexivity. Qed.
Lemma padfm00 L : padfm 0 0 L = L.
Proof. rewrite padfm_same. induction L as [|l r IH]; [reflexivity|]. simpl. rewrite IH. reflexivity. Qed.
Lemma padfm_ne n m L : L <> [] -> padfm n m L <> [].
Proof. destruct L; simpl; congruence. Qed.
Lemma pad_pad1 m l : pad m (32 :: l) = pad (S m) l.
Proof. unfold pad. simpl repeat. rewrite repeat_cons. rewrite <- app_assoc. reflexivity. Qed.
Lemma pad_indent m l : pad m (indent l) = pad (S (S m)) l.
Proof. unfold indent. rewrite !pad_pad1. reflexivity. Qed.

Lemma padfm_map_last n m x L :
  padfm n m (map_last (fun l => l ++ x) L) = map_last (fun l => l ++ x) (padfm n m L).
Proof.
  destruct L as [|l r]; [reflexivity|].
  destruct r as [|l2 r2]; [simpl; unfold pad; rewrite app_assoc; reflexivity|].
  change (map_last (fun l0 => l0 ++ x) (l :: l2 :: r2)) with (l :: map_last (fun l0 => l0 ++ x) (l2 :: r2)).
  unfold padfm.
  rewrite (map_map_last (pad m) (fun l0 => l0 ++ x) (fun l0 => l0 ++ x))
    by (intro l0; unfold pad; rewrite app_assoc; reflexivity).
  reflexivity.
Qed.

Lemma join_pad_map_last n m x L :
  L <> [] -> join [10] (padfm n m (map_last (fun l => l ++ x) L)) = join [10] (padfm n m L) ++ x.
Proof. intro H. rewrite padfm_map_last. apply join_map_last. apply padfm_ne. exact H. Qed.

(* text of a binary connective *)
Lemma comb2 c A B :
  comb c [A; B] =
  map_first (fun l => 40 :: tl l) (map (cons 32) (map_last (fun l => l ++ 32 :: c) A))
  ++ map_last (fun l => l ++ [41]) B.
Proof. unfold comb. simpl. rewrite app_nil_r. reflexivity. Qed.

Lemma first_text n m X Y :
  X <> [] -> Y <> [] ->
  join [10] (padfm n m (map_first (fun l => 40 :: tl l) (map (cons 32) X) ++ Y)) =
  repeat 32 n ++ 40 :: join [10] (padfm 0 (S m) X) ++ [10] ++ join [10] (padfm m m Y).
Proof.
  intros HX HY. destruct X as [|x xr]; [congruence|].
  simpl map_first. simpl tl.
  change (((40 :: x) :: map (cons 32) xr) ++ Y) with ((40 :: x) :: (map (cons 32) xr ++ Y)).
  unfold padfm at 1.
  rewrite join_cons_ne by (destruct Y; [congruence | destruct xr; simpl; congruence]).
  rewrite map_app, map_map.
  rewrite (map_ext (fun l => pad m (32 :: l)) (pad (S m))) by (intro l; apply pad_pad1).
  rewrite <- padfm_same with (L := Y).
  destruct xr as [|x2 xr2].
  - simpl. unfold pad at 1. rewrite <- !app_assoc. reflexivity.
  - rewrite join_app by (try apply padfm_ne; simpl; first [assumption | discriminate]).
    change (join [10] (padfm 0 (S m) (x :: x2 :: xr2))) with
      (x ++ [10] ++ join [10] (map (pad (S m)) (x2 :: xr2))).
    unfold pad at 1. rewrite <- !app_assoc. simpl. rewrite <- !app_assoc. reflexivity.
Qed.

Lemma comb_text c n m A B :
  A <> [] -> B <> [] ->
  join [10] (padfm n m (comb c [A; B])) =
  repeat 32 n ++ 40 :: (join [10] (padfm 0 (S m) A) ++ (32 :: c) ++ [10] ++ join [10] (padfm m m B) ++ [41]).
Proof.
  intros HA HB. rewrite comb2.
  rewrite first_text by (apply map_last_ne; assumption).
  rewrite !join_pad_map_last by assumption.
  rewrite <- !app_assoc. reflexivity.
Qed.

Lemma quant_text n m h B :
  B <> [] ->
  join [10] (padfm n m (h :: map indent B)) =
  repeat 32 n ++ h ++ [10] ++ join [10] (padfm (S (S m)) (S (S m)) B).
Proof.
  intro HB. unfold padfm at 1.
  rewrite join_cons_ne by (destruct B; simpl; congruence).
  rewrite map_map. rewrite (map_ext (fun l => pad m (indent l)) (pad (S (S m)))) by (intro l; apply pad_indent).
  rewrite padfm_same. unfold pad at 1. rewrite <- app_assoc. reflexivity.
Qed.

(* ---------- the lexer ---------- *)
Definition omap (ts : list tok) (k : option (list tok)) : option (list tok) :=
  match k with Some l => Some (ts ++ l) | None => None end.
(* s is read, from a token boundary and whatever follows, as the tokens ts *)
Definition LX (s : str) (ts : list tok) : Prop :=
  forall rest, lexm (MW []) (s ++ rest) = omap ts (lexm (MW []) rest).

Lemma omap_nil k : omap [] k = k.
Proof. destruct k; reflexivity. Qed.
Lemma omap_app a b k : omap (a ++ b) k = omap a (omap b k).
Proof. destruct k; simpl; [rewrite app_assoc|]; reflexivity. Qed.
Lemma ctok_omap t k : ctok t k = omap [t] k.
Proof. destruct k; reflexivity. Qed.

Lemma LX_nil : LX [] [].
Proof. intro rest. rewrite omap_nil. reflexivity. Qed.
Lemma LX_app s1 t1 s2 t2 : LX s1 t1 -> LX s2 t2 -> LX (s1 ++ s2) (t1 ++ t2).
Proof. intros H1 H2 rest. rewrite <- app_assoc, H1, H2, omap_app. reflexivity. Qed.
Lemma LX_sp : LX [32] [].
Proof. intro rest. rewrite omap_nil. reflexivity. Qed.
Lemma LX_nl : LX [10] [].
Proof. intro rest. rewrite omap_nil. reflexivity. Qed.
Lemma LX_spaces n : LX (repeat 32 n) [].
Proof.
  induction n as [|n IH]; [apply LX_nil|].
  change (repeat 32 (S n)) with ([32] ++ repeat 32 n). change (@nil tok) with (@nil tok ++ []).
  apply LX_app; [apply LX_sp | exact IH].
Qed.
Lemma LX_rp : LX [41] [TRP].
Proof. intro rest. simpl. rewrite ctok_omap. reflexivity. Qed.

(* words *)
Definition wordc (c : chr) : bool := negb (is_delim c).
Definition word (w : str) : Prop := forallb wordc w = true /\ w <> [].

Lemma wordc_step c acc r : wordc c = true -> lexm (MW acc) (c :: r) = lexm (MW (c :: acc)) r.
Proof.
  unfold wordc, is_delim. rewrite negb_true_iff, !orb_false_iff. intros [[[Hw H40] Hq] Hp].
  simpl. rewrite Hw, H40, Hq. destruct (punct c); [discriminate | reflexivity].
Qed.

Lemma lexm_word w : forall acc rest,
  forallb wordc w = true -> lexm (MW acc) (w ++ rest) = lexm (MW (rev w ++ acc)) rest.
Proof.
  induction w as [|c r IH]; intros acc rest H; [reflexivity|].
  simpl in H. apply andb_true_iff in H as [Hc Hr].
  simpl app. rewrite wordc_step by exact Hc. rewrite IH by exact Hr.
  simpl rev. rewrite <- app_assoc. reflexivity.
Qed.

Lemma flush_word w k : w <> [] -> flush (rev w) k = ctok (TWord w) k.
Proof.
  intro H. unfold flush. destruct (rev w) as [|x y] eqn:E.
  - apply (f_equal (@rev chr)) in E. rewrite rev_involutive in E. simpl in E. congruence.
  - rewrite <- E, rev_involutive. reflexivity.
Qed.

Lemma lexm_word0 w rest : word w -> lexm (MW []) (w ++ rest) = lexm (MW (rev w)) rest.
Proof. intros [H _]. rewrite lexm_word by exact H. rewrite app_nil_r. reflexivity. Qed.

Lemma LX_word_sp w : word w -> LX (w ++ [32]) [TWord w].
Proof.
  intros Hw rest. rewrite <- app_assoc, lexm_word0 by exact Hw. simpl.
  rewrite flush_word by apply Hw. apply ctok_omap.
Qed.
Lemma LX_word_nl w : word w -> LX (w ++ [10]) [TWord w].
Proof.
  intros Hw rest. rewrite <- app_assoc, lexm_word0 by exact Hw. simpl.
  rewrite flush_word by apply Hw. apply ctok_omap.
Qed.
Lemma LX_word_colon w : word w -> LX (w ++ [58]) [TWord w; TColon].
Proof.
  intros Hw rest. rewrite <- app_assoc, lexm_word0 by exact Hw. simpl.
  rewrite flush_word by apply Hw. destruct (lexm (MW []) rest); reflexivity.
Qed.
Lemma LX_word_semi w : word w -> LX (w ++ [59]) [TWord w; TSemi].
Proof.
  intros Hw rest. rewrite <- app_assoc, lexm_word0 by exact Hw. simpl.
  rewrite flush_word by apply Hw. destruct (lexm (MW []) rest); reflexivity.
Qed.
Lemma LX_word_comma w : word w -> LX (w ++ [44]) [TWord w; TComma].
Proof.
  intros Hw rest. rewrite <- app_assoc, lexm_word0 by exact Hw. simpl.
  rewrite flush_word by apply Hw. destruct (lexm (MW []) rest); reflexivity.
Qed.
Lemma LX_word_rp w : word w -> LX (w ++ [41]) [TWord w; TRP].
Proof.
  intros Hw rest. rewrite <- app_assoc, lexm_word0 by exact Hw. simpl.
  rewrite flush_word by apply Hw. destruct (lexm (MW []) rest); reflexivity.
Qed.

(* "not the start of an s-expression": what follows an opening parenthesis of a formula *)
Definition nas (s : str) : Prop := forall rest, atom_start (s ++ rest) = false.

Lemma LX_lp s ts : nas s -> LX s ts -> LX (40 :: s) (TLP :: ts).
Proof.
  intros Hn H rest. simpl. rewrite Hn. rewrite H. destruct (lexm (MW []) rest); reflexivity.
Qed.
Lemma LX_word_lp w s ts : word w -> nas s -> LX s ts -> LX (w ++ 40 :: s) (TWord w :: TLP :: ts).
Proof.
  intros Hw Hn H rest. rewrite <- app_assoc, lexm_word0 by exact Hw. simpl.
  rewrite flush_word by apply Hw. rewrite Hn, H. destruct (lexm (MW []) rest); reflexivity.
Qed.

Lemma head_word_word w d s :
  forallb wordc w = true -> is_delim d = true -> head_word (w ++ d :: s) = (w, d :: s).
Proof.
  intros Hw Hd. induction w as [|c r IH]; simpl.
  - rewrite Hd. reflexivity.
  - simpl in Hw. apply andb_true_iff in Hw as [Hc Hr]. unfold wordc in Hc. apply negb_true_iff in Hc.
    rewrite Hc, (IH Hr). reflexivity.
Qed.

Lemma nas_delim d s : is_delim d = true -> nas (d :: s).
Proof. intros Hd rest. unfold atom_start. simpl. rewrite Hd. reflexivity. Qed.
Lemma nas_word_delim w d s : forallb wordc w = true -> is_delim d = true -> d <> 32 -> nas (w ++ d :: s).
Proof.
  intros Hw Hd H32 rest. unfold atom_start. rewrite <- app_assoc. simpl app.
  rewrite head_word_word by assumption.
  replace (d =? 32) with false by (symmetry; apply N.eqb_neq; exact H32).
  rewrite andb_false_r. reflexivity.
Qed.
Lemma nas_app s t : nas s -> nas (s ++ t).
Proof. intros H rest. rewrite <- app_assoc. apply H. Qed.

(* strings outside atoms *)
Definition strc (c : chr) : bool := negb (c =? c_q) && negb (c =? c_bs).
Lemma lexm_str s : forall acc rest,
  forallb strc s = true ->
  lexm (MStr false acc) (s ++ c_q :: rest) = ctok (TStr (rev acc ++ s)) (lexm (MW []) rest).
Proof.
  induction s as [|c r IH]; intros acc rest H.
  - simpl. rewrite app_nil_r. reflexivity.
  - simpl in H. apply andb_true_iff in H as [Hc Hr]. unfold strc in Hc.
    apply andb_true_iff in Hc as [Hq Hb]. apply negb_true_iff in Hq, Hb.
    simpl. rewrite Hq, Hb. rewrite IH by exact Hr. simpl. rewrite <- app_assoc. reflexivity.
Qed.

(* s-expressions *)
Fixpoint bal (d : nat) (sm : smode) (s : str) : bool :=
  match s with
  | [] => false
  | c :: r =>
      match sm with
      | SS => bal d (if c =? c_q then SN else if c =? c_bs then SB else SS) r
      | SB => bal d SS r
      | SN => if c =? c_q then bal d SS r
              else if c =? 40 then bal (S d) SN r
              else if c =? 41 then match d with
                                   | O => false
                                   | S O => match r with [] => true | _ => false end
                                   | S d' => bal d' SN r
                                   end
              else bal d SN r
      end
  end.
(* t = `(op …)`: balanced parentheses outside string literals, closed exactly at its end,
   op a word that is no connective/quantifier keyword, followed by a blank *)
Definition atom_okb (t : str) : bool :=
  match t with c :: r => (c =? 40) && atom_start r && bal 1 SN r | [] => false end.

Lemma bal_lex s : forall d sm acc rest,
  bal d sm s = true ->
  lexm (MAtom d sm acc) (s ++ rest) = ctok (TAtom (rev acc ++ s)) (lexm (MW []) rest).
Proof.
  induction s as [|c r IH]; intros d sm acc rest H; [discriminate|].
  assert (E : forall x, rev (c :: acc) ++ x = rev acc ++ c :: x)
    by (intro x; simpl; rewrite <- app_assoc; reflexivity).
  simpl in H. simpl app. simpl lexm. destruct sm.
  - destruct (c =? c_q); [rewrite IH by exact H; rewrite E; reflexivity|].
    destruct (c =? 40); [rewrite IH by exact H; rewrite E; reflexivity|].
    destruct (c =? 41).
    + destruct d as [|[|d']]; [discriminate| |].
      * destruct r; [|discriminate]. reflexivity.
      * rewrite IH by exact H. rewrite E. reflexivity.
    + rewrite IH by exact H. rewrite E. reflexivity.
  - rewrite IH by exact H. rewrite E. reflexivity.
  - rewrite IH by exact H. rewrite E. reflexivity.
Qed.

Lemma atom_start_app r rest : atom_start r = true -> atom_start (r ++ rest) = true.
Proof.
  unfold atom_start.
  assert (G : forall s w c t, head_word s = (w, c :: t) -> head_word (s ++ rest) = (w, c :: t ++ rest)).
  { induction s as [|x s IH]; intros w c t H; simpl in H; [inversion H|].
    simpl. destruct (is_delim x).
    - inversion H; subst. reflexivity.
    - destruct (head_word s) as [w' t'] eqn:E. inversion H; subst.
      rewrite (IH _ _ _ eq_refl). reflexivity. }
  destruct (head_word r) as [w t] eqn:E. destruct t as [|c t].
  - rewrite andb_false_r. discriminate.
  - rewrite (G _ _ _ _ E). tauto.
Qed.

Lemma LX_atom t : atom_okb t = true -> LX t [TAtom t].
Proof.
  intros H rest. destruct t as [|c r]; [discriminate|]. simpl in H.
  apply andb_true_iff in H as [H Hb]. apply andb_true_iff in H as [Hc Hs].
  apply N.eqb_eq in Hc. subst c. simpl.
  rewrite atom_start_app by exact Hs. rewrite bal_lex by exact Hb. apply ctok_omap.
Qed.
Lemma nas_atom t : atom_okb t = true -> nas t.
Proof.
  intro H. destruct t as [|c r]; [discriminate|]. simpl in H.
  apply andb_true_iff in H as [H _]. apply andb_true_iff in H as [Hc _].
  apply N.eqb_eq in Hc. subst c. apply nas_delim. reflexivity.
Qed.

Lemma LX_comma : LX [44] [TComma].
Proof. intro rest. simpl. rewrite ctok_omap. reflexivity. Qed.
Lemma LX_str s : forallb strc s = true -> LX (c_q :: s ++ [c_q]) [TStr s].
Proof.
  intros H rest. simpl app. rewrite <- app_assoc. simpl.
  rewrite lexm_str by exact H. apply ctok_omap.
Qed.
Lemma nas_kw w s : forallb wordc w = true -> mem w conn_words = true -> nas (w ++ 32 :: s).
Proof.
  intros Hw Hm rest. unfold atom_start. rewrite <- app_assoc. simpl app.
  rewrite head_word_word by (auto; reflexivity). rewrite Hm. rewrite andb_false_r. reflexivity.
Qed.
Lemma nas_join0 l L k t : nas l -> nas (join [10] (padfm 0 k (l :: L)) ++ t).
Proof.
  intros H rest. destruct L as [|l2 L2].
  - simpl. rewrite <- app_assoc. apply H.
  - change (join [10] (padfm 0 k (l :: l2 :: L2))) with (l ++ [10] ++ join [10] (map (pad k) (l2 :: L2))).
    rewrite <- !app_assoc. apply H.
Qed.

(* ---------- character classes ---------- *)
Lemma is_delim_false c :
  c <> 32 -> c <> 10 -> c <> 9 -> c <> 13 -> c <> 40 -> c <> 34 -> c <> 41 -> c <> 44 -> c <> 58 -> c <> 59 ->
  is_delim c = false.
Proof.
  intros. unfold is_delim, is_wsc, punct, c_q.
  repeat match goal with H : c <> ?k |- _ => apply N.eqb_neq in H; rewrite H; clear H end.
  reflexivity.
Qed.
Lemma idc_wordc c : is_idc c = true -> wordc c = true.
Proof.
  intro H. unfold wordc. rewrite is_delim_false; [reflexivity|..]; intro; subst; vm_compute in H; discriminate.
Qed.
Lemma letter_idc c : is_letter c = true -> is_idc c = true.
Proof. intro H. unfold is_idc. rewrite H. reflexivity. Qed.
Lemma digit_idc c : is_digit c = true -> is_idc c = true.
Proof. intro H. unfold is_idc. rewrite H. rewrite orb_true_r. reflexivity. Qed.
Lemma forallb_imp {X} (p q : X -> bool) l :
  (forall x, p x = true -> q x = true) -> forallb p l = true -> forallb q l = true.
Proof.
  intro H. induction l as [|x r IH]; [reflexivity|]. simpl. rewrite !andb_true_iff.
  intros [Hx Hr]. split; auto.
Qed.
Lemma id_word w : is_id w = true -> word w.
Proof.
  destruct w as [|c r]; [discriminate|]. simpl. rewrite andb_true_iff. intros [Hc Hr]. split; [|discriminate].
  simpl. rewrite (idc_wordc c (letter_idc c Hc)). simpl.
  apply (forallb_imp is_idc); [apply idc_wordc | exact Hr].
Qed.
Lemma name_word w : is_name w = true -> word w.
Proof. unfold is_name. rewrite andb_true_iff. intros [H _]. apply id_word. exact H. Qed.
Lemma name_nokw w k : is_name w = true -> In k keywords -> str_eqb w k = false.
Proof.
  unfold is_name. rewrite andb_true_iff, negb_true_iff. intros [_ H] Hk.
  destruct (str_eqb w k) eqn:E; [|reflexivity]. apply str_eqb_eq in E. subst k.
  assert (G : forall l, In w l -> mem w l = true).
  { induction l as [|y l IH]; simpl; [tauto|]. intros [->|Hi]; [rewrite str_eqb_refl; reflexivity|].
    rewrite IH by exact Hi. apply orb_true_r. }
  rewrite G in H by exact Hk. discriminate.
Qed.
Lemma vartype_word w : is_vartype w = true -> word w.
Proof.
  destruct w as [|c r]; [discriminate|]. simpl. rewrite andb_true_iff. intros [Hc Hr]. split; [|discriminate].
  apply N.eqb_eq in Hc. subst c.
  destruct (rev r) as [|e m] eqn:E; [discriminate|]. apply andb_true_iff in Hr as [He Hm].
  apply N.eqb_eq in He. subst e.
  apply (f_equal (@rev chr)) in E. rewrite rev_involutive in E. subst r. simpl rev.
  simpl. rewrite forallb_app. apply id_word in Hm. destruct Hm as [Hm _]. rewrite Hm. reflexivity.
Qed.
Lemma uint_digits u : forallb is_digit (uint_str u) = true.
Proof. induction u; simpl; auto. Qed.
Lemma digits_word s : forallb is_digit s = true -> forallb wordc s = true.
Proof. apply forallb_imp. intros c H. apply idc_wordc, digit_idc, H. Qed.
Lemma dec_N_ne n : dec_N n <> [].
Proof.
  unfold dec_N. destruct n as [|p]; [discriminate|]. simpl.
  pose proof (Unsigned.to_uint_nonnil p) as H. destruct (Pos.to_uint p); [congruence|..]; discriminate.
Qed.

(* ---------- token printer and the shape part of the fragment ---------- *)
Definition arg_tok (a : parg) : tok := match a with PStr s => TStr s | _ => TWord (parg_str a) end.
Fixpoint sepc (l : list tok) : list tok :=
  match l with [] => [] | x :: r => match r with [] => [x] | _ => x :: TComma :: sepc r end end.
Definition pred_toks (n : str) (args : list parg) : list tok :=
  TWord n :: TLP :: sepc (map arg_tok args) ++ [TRP].
Definition conn_toks (kw : str) (ls : list (list tok)) : list tok :=
  match ls with [a; b] => a ++ TWord kw :: b | _ => [] end.
Fixpoint toks (f : cformula) : list tok :=
  match f with
  | FSmt a => [TAtom (smt_str (fst a))]
  | FSPred n args | FSemPred n args => pred_toks n args
  | FNot g => TWord (lit "not") :: TLP :: toks g ++ [TRP]
  | FAnd fs => TLP :: conn_toks (lit "and") (map toks fs) ++ [TRP]
  | FOr fs => TLP :: conn_toks (lit "or") (map toks fs) ++ [TRP]
  | FForall v i _ b =>
      [TWord (lit "forall"); TWord (vtype v); TWord (vname v); TWord (lit "in"); TWord (invar_str i); TColon] ++ toks b
  | FExists v i _ b =>
      [TWord (lit "exists"); TWord (vtype v); TWord (vname v); TWord (lit "in"); TWord (invar_str i); TColon] ++ toks b
  | FForallInt v b => [TWord (lit "forall"); TWord (lit "int"); TWord (vname v); TColon] ++ toks b
  | FExistsInt v b => [TWord (lit "exists"); TWord (lit "int"); TWord (vname v); TColon] ++ toks b
  end.

Definition not_dummy (v : var) : bool := match vk v with VDummy => false | _ => true end.
Definition wf_argb (a : parg) : bool :=
  match a with
  | PVar v => not_dummy v && is_name (vname v)
  | PStr s => forallb strc s
  | PTree (Node l n neg ks) =>
      str_eqb l (lit "int") && match ks with [] => true | _ => false end && (negb neg || (0 <? n))
  end.
Definition pinfo_eqb (a : option (bool * nat)) (sem : bool) (ar : nat) : bool :=
  match a with Some (s, k) => Bool.eqb s sem && Nat.eqb k ar | None => false end.
Definition wf_predb (sem : bool) (n : str) (args : list parg) : bool :=
  is_name n && pinfo_eqb (pred_info n) sem (List.length args) && forallb wf_argb args.
Definition is_predf (f : cformula) : bool := match f with FSPred _ _ | FSemPred _ _ => true | _ => false end.
Definition wf_qb (v : var) (i : invar) (m : option mexpr) : bool :=
  match m with None => true | Some _ => false end
  && is_vartype (vtype v) && is_name (vname v)
  && match i with InVar w => not_dummy w && is_name (vname w) | InTree _ => false end.
Definition wf_nb (v : var) : bool := is_name (vname v).

Fixpoint wf_shapeb (f : cformula) : bool :=
  match f with
  | FSmt a => atom_okb (smt_str (fst a))
  | FSPred n args => wf_predb false n args
  | FSemPred n args => wf_predb true n args
  | FNot g => is_predf g && wf_shapeb g
  | FAnd fs | FOr fs => match fs with [a; b] => wf_shapeb a && wf_shapeb b | _ => false end
  | FForall v i m b | FExists v i m b => wf_qb v i m && wf_shapeb b
  | FForallInt v b | FExistsInt v b => wf_nb v && wf_shapeb b
  end.

(* ---------- predicate atoms ---------- *)
Lemma arg_cases a : wf_argb a = true ->
  (exists s, a = PStr s /\ forallb strc s = true) \/ (arg_tok a = TWord (parg_str a) /\ word (parg_str a)).
Proof.
  destruct a as [v|s|t]; simpl.
  - rewrite andb_true_iff. intros [Hd Hn]. right. split; [reflexivity|].
    unfold var_str. unfold not_dummy in Hd. destruct (vk v); try discriminate; apply name_word; exact Hn.
  - intro H. left. exists s. auto.
  - destruct t as [l n neg ks]. rewrite !andb_true_iff. intros [[Hl Hk] Hn]. right. split; [reflexivity|].
    apply str_eqb_eq in Hl. subst l. simpl.
    destruct neg.
    + split; [|discriminate]. simpl. unfold dec_N. rewrite (digits_word _ (uint_digits _)). reflexivity.
    + split; [|apply dec_N_ne]. unfold dec_N. apply digits_word, uint_digits.
Qed.

Lemma LX_arg a : wf_argb a = true ->
  LX (parg_str a ++ [44]) [arg_tok a; TComma] /\ LX (parg_str a ++ [41]) [arg_tok a; TRP] /\
  (forall t, nas (parg_str a ++ 44 :: t)) /\ (forall t, nas (parg_str a ++ 41 :: t)).
Proof.
  intro H. destruct (arg_cases a H) as [(s & -> & Hs) | (Ht & Hw)].
  - simpl. unfold c_q in *. split; [|split; [|split]].
    + apply (LX_app (34 :: s ++ [34]) [TStr s] [44] [TComma]); [apply (LX_str s Hs) | apply LX_comma].
    + apply (LX_app (34 :: s ++ [34]) [TStr s] [41] [TRP]); [apply (LX_str s Hs) | apply LX_rp].
    + intro t. apply nas_delim. reflexivity.
    + intro t. apply nas_delim. reflexivity.
  - rewrite Ht. split; [|split; [|split]].
    + apply LX_word_comma, Hw.
    + apply LX_word_rp, Hw.
    + intro t. apply nas_word_delim; [apply Hw | reflexivity | discriminate].
    + intro t. apply nas_word_delim; [apply Hw | reflexivity | discriminate].
Qed.

Definition args_text (args : list parg) : str := join [44; 32] (map parg_str args).
Lemma LX_args args : forallb wf_argb args = true ->
  LX (args_text args ++ [41]) (sepc (map arg_tok args) ++ [TRP]) /\ nas (args_text args ++ [41]).
Proof.
  unfold args_text. induction args as [|a r IH]; intro H.
  - split; [apply LX_rp | apply nas_delim; reflexivity].
  - simpl in H. apply andb_true_iff in H as [Ha Hr]. specialize (IH Hr). destruct IH as [IH _].
    destruct (LX_arg a Ha) as (Hc & Hp & Hnc & Hnp).
    destruct r as [|b r].
    + simpl. split; [exact Hp | apply Hnp].
    + change (join [44; 32] (map parg_str (a :: b :: r))) with
        (parg_str a ++ [44; 32] ++ join [44; 32] (map parg_str (b :: r))).
      change (sepc (map arg_tok (a :: b :: r))) with (arg_tok a :: TComma :: sepc (map arg_tok (b :: r))).
      split.
      * replace ((parg_str a ++ [44; 32] ++ join [44; 32] (map parg_str (b :: r))) ++ [41])
          with ((parg_str a ++ [44]) ++ [32] ++ (join [44; 32] (map parg_str (b :: r)) ++ [41]))
          by (rewrite <- !app_assoc; reflexivity).
        change ((arg_tok a :: TComma :: sepc (map arg_tok (b :: r))) ++ [TRP]) with
          ([arg_tok a; TComma] ++ [] ++ (sepc (map arg_tok (b :: r)) ++ [TRP])).
        apply LX_app; [exact Hc|]. apply LX_app; [apply LX_sp | exact IH].
      * rewrite <- app_assoc. apply Hnc.
Qed.

Lemma LX_pred n args : is_name n = true -> forallb wf_argb args = true ->
  LX (n ++ [40] ++ join [44; 32] (map parg_str args) ++ [41]) (pred_toks n args)
  /\ nas (n ++ [40] ++ join [44; 32] (map parg_str args) ++ [41]).
Proof.
  intros Hn Ha. destruct (LX_args args Ha) as [H1 H2]. split.
  - apply LX_word_lp; [apply name_word, Hn | exact H2 | exact H1].
  - apply nas_word_delim; [apply name_word, Hn | reflexivity | discriminate].
Qed.

(* ---------- the lexer on the lines of the unparser, under any indentation ---------- *)
Definition lex_ok (f : cformula) : Prop :=
  (exists l L, unp f = l :: L /\ nas l) /\
  forall n m, LX (join [10] (padfm n m (unp f))) (toks f).

Lemma lex_single t ts n m : LX t ts -> LX (join [10] (padfm n m [t])) ts.
Proof.
  intro H. simpl. unfold pad. change ts with ([] ++ ts). apply LX_app; [apply LX_spaces | exact H].
Qed.

Lemma lex_quant h hts b n m :
  LX (h ++ [10]) hts -> lex_ok b ->
  LX (join [10] (padfm n m (h :: map indent (unp b)))) (hts ++ toks b).
Proof.
  intros Hh [(l & L & E & _) Hb]. rewrite quant_text by (rewrite E; discriminate).
  rewrite (app_assoc h [10]). change (hts ++ toks b) with ([] ++ hts ++ toks b).
  apply LX_app; [apply LX_spaces|]. apply LX_app; [exact Hh | apply Hb].
Qed.

Lemma word_forall : word (lit "forall"). Proof. split; [reflexivity | discriminate]. Qed.
Lemma word_exists : word (lit "exists"). Proof. split; [reflexivity | discriminate]. Qed.
Lemma word_in : word (lit "in"). Proof. split; [reflexivity | discriminate]. Qed.
Lemma word_int : word (lit "int"). Proof. split; [reflexivity | discriminate]. Qed.
Lemma word_and : word (lit "and"). Proof. split; [reflexivity | discriminate]. Qed.
Lemma word_or : word (lit "or"). Proof. split; [reflexivity | discriminate]. Qed.
Lemma word_not : word (lit "not"). Proof. split; [reflexivity | discriminate]. Qed.
Lemma word_const : word (lit "const"). Proof. split; [reflexivity | discriminate]. Qed.

Lemma LX_qheader q v i m :
  word q -> wf_qb v i m = true ->
  LX (qheader q v i m ++ [10]) [TWord q; TWord (vtype v); TWord (vname v); TWord (lit "in"); TWord (invar_str i); TColon].
Proof.
  intros Hq H. unfold wf_qb in H. rewrite !andb_true_iff in H. destruct H as [[[Hm Ht] Hn] Hi].
  destruct m; [discriminate|]. destruct i as [w|t]; [|discriminate].
  apply andb_true_iff in Hi as [Hd Hw].
  assert (Hs : invar_str (InVar w) = vname w).
  { simpl. unfold var_str. unfold not_dummy in Hd. destruct (vk w); try reflexivity; discriminate. }
  rewrite Hs.
  replace (qheader q v (InVar w) None ++ [10]) with
    ((q ++ [32]) ++ (vtype v ++ [32]) ++ (vname v ++ [32]) ++ (lit "in" ++ [32]) ++ (vname w ++ [58]) ++ [10]).
  2:{ unfold qheader, mexpr_str. rewrite Hs. rewrite <- !app_assoc. reflexivity. }
  change [TWord q; TWord (vtype v); TWord (vname v); TWord (lit "in"); TWord (vname w); TColon] with
    ([TWord q] ++ [TWord (vtype v)] ++ [TWord (vname v)] ++ [TWord (lit "in")] ++ [TWord (vname w); TColon] ++ []).
  repeat apply LX_app.
  - apply LX_word_sp, Hq.
  - apply LX_word_sp, vartype_word, Ht.
  - apply LX_word_sp, name_word, Hn.
  - apply LX_word_sp, word_in.
  - apply LX_word_colon, name_word, Hw.
  - apply LX_nl.
Qed.

Lemma LX_iheader q v :
  word q -> wf_nb v = true ->
  LX ((q ++ lit " int " ++ vname v ++ [58]) ++ [10]) [TWord q; TWord (lit "int"); TWord (vname v); TColon].
Proof.
  intros Hq H.
  replace ((q ++ lit " int " ++ vname v ++ [58]) ++ [10]) with
    ((q ++ [32]) ++ (lit "int" ++ [32]) ++ (vname v ++ [58]) ++ [10]) by (rewrite <- !app_assoc; reflexivity).
  change [TWord q; TWord (lit "int"); TWord (vname v); TColon] with
    ([TWord q] ++ [TWord (lit "int")] ++ [TWord (vname v); TColon] ++ []).
  repeat apply LX_app.
  - apply LX_word_sp, Hq.
  - apply LX_word_sp, word_int.
  - apply LX_word_colon, name_word, H.
  - apply LX_nl.
Qed.

Lemma LX_kw c : word c -> LX ((32 :: c) ++ [10]) [TWord c].
Proof.
  intro H. change ((32 :: c) ++ [10]) with ([32] ++ (c ++ [10])). change [TWord c] with ([] ++ [TWord c]).
  apply LX_app; [apply LX_sp | apply LX_word_nl, H].
Qed.

Lemma lex_comb c a b :
  word c -> lex_ok a -> lex_ok b ->
  (exists l L, comb c [unp a; unp b] = l :: L /\ nas l) /\
  forall n m, LX (join [10] (padfm n m (comb c [unp a; unp b]))) (TLP :: (toks a ++ TWord c :: toks b) ++ [TRP]).
Proof.
  intros Hc [(la & La & Ea & Hna) Ha] [(lb & Lb & Eb & _) Hb]. split.
  - rewrite comb2.
    destruct (map_last (fun l => l ++ 32 :: c) (unp a)) as [|x xr] eqn:E.
    + exfalso. revert E. apply map_last_ne. rewrite Ea. discriminate.
    + simpl. eexists; eexists; split; [reflexivity|]. apply nas_delim. reflexivity.
  - intros n m. rewrite comb_text by (rewrite ?Ea, ?Eb; discriminate).
    change (TLP :: (toks a ++ TWord c :: toks b) ++ [TRP]) with ([] ++ TLP :: (toks a ++ TWord c :: toks b) ++ [TRP]).
    apply LX_app; [apply LX_spaces|]. apply LX_lp.
    + rewrite Ea. apply nas_join0. exact Hna.
    + rewrite (app_assoc (32 :: c) [10]).
      replace ((toks a ++ TWord c :: toks b) ++ [TRP]) with (toks a ++ [TWord c] ++ toks b ++ [TRP])
        by (rewrite <- !app_assoc; reflexivity).
      apply LX_app; [apply Ha|]. apply LX_app; [apply LX_kw, Hc|]. apply LX_app; [apply Hb | apply LX_rp].
Qed.

Lemma nas_q q s : q = lit "forall" \/ q = lit "exists" -> nas (q ++ 32 :: s).
Proof. intros [->| ->]; apply nas_kw; reflexivity. Qed.

Theorem lex_unp f : wf_shapeb f = true -> lex_ok f.
Proof.
  induction f as [a|n args|n args|g IH|fs IH|fs IH|v i m b IH|v i m b IH|v b IH|v b IH] using formula_ind';
    intro H; simpl in H.
  - split.
    + eexists; eexists; split; [reflexivity | apply nas_atom, H].
    + intros n m. apply lex_single. apply LX_atom, H.
  - unfold wf_predb in H. rewrite !andb_true_iff in H. destruct H as [[Hn _] Ha].
    destruct (LX_pred n args Hn Ha) as [H1 H2]. split.
    + eexists; eexists; split; [reflexivity | exact H2].
    + intros k m. apply lex_single. exact H1.
  - unfold wf_predb in H. rewrite !andb_true_iff in H. destruct H as [[Hn _] Ha].
    destruct (LX_pred n args Hn Ha) as [H1 H2]. split.
    + eexists; eexists; split; [reflexivity | exact H2].
    + intros k m. apply lex_single. exact H1.
  - apply andb_true_iff in H as [Hp Hg]. specialize (IH Hg). destruct IH as [(l & L & E & Hnl) IH].
    assert (EL : L = []) by (destruct g; try discriminate; simpl in E; inversion E; reflexivity).
    subst L.
    assert (EU : unp (FNot g) = [lit "not" ++ 40 :: (l ++ [41])]) by (simpl; rewrite E; reflexivity).
    unfold lex_ok. rewrite EU. split.
    + eexists; eexists; split; [reflexivity|].
      apply (nas_word_delim (lit "not") 40 (l ++ [41])); [reflexivity | reflexivity | discriminate].
    + intros n m. apply lex_single.
      apply (LX_word_lp (lit "not") (l ++ [41]) (toks g ++ [TRP])); [apply word_not | apply nas_app, Hnl |].
      apply LX_app; [|apply LX_rp]. specialize (IH 0%nat 0%nat). rewrite E in IH. simpl in IH. exact IH.
  - destruct fs as [|a [|b [|c r]]]; try discriminate. apply andb_true_iff in H as [Ha Hb].
    inversion IH as [|? ? IHa IH2]; subst. inversion IH2 as [|? ? IHb _]; subst.
    simpl. apply lex_comb; [apply word_and | apply IHa, Ha | apply IHb, Hb].
  - destruct fs as [|a [|b [|c r]]]; try discriminate. apply andb_true_iff in H as [Ha Hb].
    inversion IH as [|? ? IHa IH2]; subst. inversion IH2 as [|? ? IHb _]; subst.
    simpl. apply lex_comb; [apply word_or | apply IHa, Ha | apply IHb, Hb].
  - apply andb_true_iff in H as [Hq Hb]. simpl. split.
    + eexists; eexists; split; [reflexivity|]. unfold qheader. apply nas_q. auto.
    + intros n k. apply (lex_quant _ [_; _; _; _; _; _]); [apply LX_qheader; [apply word_forall | exact Hq] | apply IH, Hb].
  - apply andb_true_iff in H as [Hq Hb]. simpl. split.
    + eexists; eexists; split; [reflexivity|]. unfold qheader. apply nas_q. auto.
    + intros n k. apply (lex_quant _ [_; _; _; _; _; _]); [apply LX_qheader; [apply word_exists | exact Hq] | apply IH, Hb].
  - apply andb_true_iff in H as [Hq Hb]. simpl. split.
    + eexists; eexists; split; [reflexivity|].
      change (lit "forall int " ++ vname v ++ [58]) with (lit "forall" ++ 32 :: (lit "int " ++ vname v ++ [58])).
      apply nas_q. auto.
    + intros n k. apply (lex_quant _ [_; _; _; _]); [|apply IH, Hb].
      apply (LX_iheader (lit "forall")); [apply word_forall | exact Hq].
  - apply andb_true_iff in H as [Hq Hb]. simpl. split.
    + eexists; eexists; split; [reflexivity|].
      change (lit "exists int " ++ vname v ++ [58]) with (lit "exists" ++ 32 :: (lit "int " ++ vname v ++ [58])).
      apply nas_q. auto.
    + intros n k. apply (lex_quant _ [_; _; _; _]); [|apply IH, Hb].
      apply (LX_iheader (lit "exists")); [apply word_exists | exact Hq].
Qed.

Corollary lex_unp_text f : wf_shapeb f = true -> LX (join [10] (unp f)) (toks f).
Proof. intro H. destruct (lex_unp f H) as [_ G]. specialize (G 0%nat 0%nat). rewrite padfm00 in G. exact G. Qed.
