(* C21 (XML attribute rule) -- xml_no_attr_redef_constraint implies that no tag has two attributes
   with the same name (xml_attrs_unique), for every closed derivation tree of
   XML_GRAMMAR_WITH_NAMESPACE_PREFIXES. *)
From Coq Require Import Lia Bool.
From ISLA Require Import Grammar GrammarFacts PathFacts TreeFacts Csv CsvFacts Xml XmlFacts XmlValid XmlNs XmlNsFacts
  XmlNsReader XmlNsValid.

Lemma leaf_attrs_in a q i :
  In (q, i) (leaf_attrs a) <-> exists d, subtree a q = Some d /\ lbl d = X_attr /\ mmatch ME_leaf d = Some [i].
Proof.
  unfold leaf_attrs. rewrite in_flat_map. split.
  - intros ([p d] & Hin & Hm). unfold nodes_at in Hin. apply filter_In in Hin as [Hin Hl]. cbn [fst snd] in *.
    apply str_eqb_eq in Hl. apply nodes_spec in Hin.
    destruct (mmatch ME_leaf d) as [[|i' [|x xs]]|] eqn:E; try contradiction.
    destruct Hm as [Hm|[]]. inversion Hm; subst. eauto.
  - intros (d & Hs & Hl & Hm). exists (q, d). split.
    + unfold nodes_at. apply filter_In. split; [apply nodes_spec; assumption|]. cbn [snd]. rewrite Hl. apply str_eqb_refl.
    + cbn [fst snd]. rewrite Hm. left. reflexivity.
Qed.

(* the body of the constraint for one choice of attr_outer *)
Definition inner_ok (A : tree) : bool :=
  forallb (fun d1 => forallb (fun d2 =>
     xorb (path_eqb (fst d1) (fst d2)) (negb (str_eqb (yield (snd d1)) (yield (snd d2)))))
     (leaf_attrs A)) (leaf_attrs A).

Lemma NoDup_app' {A} (l1 l2 : list A) :
  NoDup l1 -> NoDup l2 -> (forall x, In x l1 -> ~ In x l2) -> NoDup (l1 ++ l2).
Proof.
  induction l1 as [|x l1 IH]; intros H1 H2 Hd; [assumption|]. cbn [app].
  inversion H1 as [|y l Hx Hn]; subst. constructor.
  - rewrite in_app_iff. intros [H|H]; [contradiction | exact (Hd x (or_introl eq_refl) H)].
  - apply IH; auto. intros z Hz. apply Hd. right. assumption.
Qed.

Lemma nodes_lbl_kid l t k A : In k (kids t) -> In A (nodes_lbl l k) -> In A (nodes_lbl l t).
Proof.
  destruct t as [l' i o ks]. cbn [kids nodes_lbl]. intros Hk HA. apply in_app_iff. right.
  apply in_flat_map. eauto.
Qed.

Lemma names_unique a : wfx a -> closedT a -> lbl a = X_attr ->
  (forall A, In A (nodes_lbl X_attr a) -> inner_ok A = true) -> NoDup (map fst (attr_pairs a)).
Proof.
  induction a as [l i o ks IH] using tree_ind'. intros Hwf Hcl Hl Hok. cbn [lbl] in Hl. subst l.
  destruct (attr_struct _ Hwf Hcl eq_refl) as [Ho [(a1 & a2 & Hp) | (idt & tx & Hlf)]].
  - destruct Hp as (s & Hk & L1 & Ls & L2 & Ws & W1 & C1 & W2 & C2 & Hy). cbn [kids] in Hk. subst ks.
    cbn [opn] in Ho. subst o. rewrite attr_pairs_pair, map_app.
    set (a := Node X_attr i false [a1; s; a2]) in *. apply NoDup_app'.
    + apply (Forall_in _ _ a1 IH (or_introl eq_refl) W1 C1 L1). intros A HA. apply Hok.
      apply (nodes_lbl_kid X_attr a a1); [left; reflexivity | assumption].
    + apply (Forall_in _ _ a2 IH (or_intror (or_intror (or_introl eq_refl))) W2 C2 L2). intros A HA. apply Hok.
      apply (nodes_lbl_kid X_attr a a2); [right; right; left; reflexivity | assumption].
    + intros k H1 H2. apply in_map_iff in H1 as ([k1 v1] & E1 & H1). apply in_map_iff in H2 as ([k2 v2] & E2 & H2).
      cbn [fst] in E1, E2. subst k1 k2.
      destruct (attr_pairs_in a1 W1 C1 L1 k v1 H1) as (q1 & d1 & i1 & t1 & S1 & Ld1 & Od1 & Lf1 & Ek1 & _).
      destruct (attr_pairs_in a2 W2 C2 L2 k v2 H2) as (q2 & d2 & i2 & t2 & S2 & Ld2 & Od2 & Lf2 & Ek2 & _).
      assert (In1 : In (0 :: q1, i1) (leaf_attrs a)).
      { apply leaf_attrs_in. exists d1. repeat split; auto. apply (leaf_match d1 i1 t1); assumption. }
      assert (In2 : In (2 :: q2, i2) (leaf_attrs a)).
      { apply leaf_attrs_in. exists d2. repeat split; auto. apply (leaf_match d2 i2 t2); assumption. }
      assert (Ha : inner_ok a = true).
      { apply Hok. cbn [nodes_lbl]. change (str_eqb X_attr X_attr) with true. left. reflexivity. }
      unfold inner_ok in Ha. rewrite forallb_forall in Ha. specialize (Ha _ In1).
      rewrite forallb_forall in Ha. specialize (Ha _ In2). cbn [fst snd path_eqb] in Ha.
      rewrite <- Ek1, <- Ek2, str_eqb_refl in Ha. discriminate.
  - pose proof Hlf as (e & q & Hk & _). cbn [kids] in Hk. subst ks. rewrite attr_pairs_leaf.
    cbn [map fst]. constructor; [intros [] | constructor].
Qed.

Lemma nodup_strb_spec l : NoDup l -> nodup_strb l = true.
Proof.
  induction 1 as [|x l Hx Hn IH]; [reflexivity|]. cbn [nodup_strb]. rewrite IH, andb_true_r.
  apply negb_true_iff. destruct (in_strb x l) eqn:E; [|reflexivity].
  apply in_strb_spec in E. contradiction.
Qed.

Lemma tag_unique tg fin : wfx tg -> closedT tg ->
  (lbl tg = X_open /\ fin = T_gt) \/ (lbl tg = X_oc /\ fin = T_sgt) ->
  (forall A, In A (nodes_lbl X_attr tg) -> inner_ok A = true) ->
  nodup_strb (map fst (tag_ats tg)) = true.
Proof.
  intros Wt Ct Lt Hok.
  destruct (tag_struct tg fin Wt Ct Lt) as [_ [(idt & at_ & a & s & f & Hko & _ & _ & _ & _ & La & _ & _ & Wa & Ca & _) |
                                             (idt & a & f & Hko & _)]];
    unfold tag_ats; rewrite Hko; [|reflexivity].
  apply nodup_strb_spec. apply (names_unique at_ Wa Ca La). intros A HA. apply Hok.
  apply (nodes_lbl_kid X_attr tg at_); [rewrite Hko; simpl; auto 6 | assumption].
Qed.

Lemma attrs_uniqueb_app l1 l2 : attrs_uniqueb (l1 ++ l2) = attrs_uniqueb l1 && attrs_uniqueb l2.
Proof. unfold attrs_uniqueb. apply forallb_app. Qed.

Lemma tree_unique r : wfx r -> closedT r -> lbl r = X_tree \/ lbl r = X_inner ->
  (forall A, In A (nodes_lbl X_attr r) -> inner_ok A = true) -> attrs_uniqueb (tree_events r) = true.
Proof.
  induction r as [l i o ks IH] using tree_ind'. intros Hwf Hcl Hl Hok.
  assert (Hkid : forall k, In k ks -> forall A, In A (nodes_lbl X_attr k) -> inner_ok A = true).
  { intros k Hk A HA. apply Hok. apply (nodes_lbl_kid X_attr (Node l i o ks) k); assumption. }
  destruct Hl as [Hl|Hl].
  - destruct (tree_struct _ Hwf Hcl Hl) as [_ [(op & inn & c & Hk & L1 & L2 & L3 & W1 & C1 & W2 & C2 & W3 & C3 & Hy) |
                                              (e & Hk & L1 & W1 & C1 & Hy)]];
      cbn [kids] in Hk; subst ks; cbn [tree_events].
    + change (EvOpen (tag_id op) (tag_ats op) :: tree_events inn ++ [EvClose (tag_id c)])
        with ([EvOpen (tag_id op) (tag_ats op)] ++ tree_events inn ++ [EvClose (tag_id c)]).
      rewrite !attrs_uniqueb_app. unfold attrs_uniqueb at 1 3. cbn [forallb ev_attrs map nodup_strb].
      rewrite (tag_unique op T_gt W1 C1 (or_introl (conj L1 eq_refl)) (Hkid op (or_introl eq_refl))).
      rewrite (Forall_in _ _ inn IH (or_intror (or_introl eq_refl)) W2 C2 (or_intror L2)
                 (Hkid inn (or_intror (or_introl eq_refl)))). reflexivity.
    + rewrite L1. change (str_eqb X_oc X_oc) with true. cbv iota. unfold attrs_uniqueb. cbn [forallb ev_attrs].
      rewrite (tag_unique e T_sgt W1 C1 (or_intror (conj L1 eq_refl)) (Hkid e (or_introl eq_refl))). reflexivity.
  - destruct (inner_struct _ Hwf Hcl Hl) as [_ [(x & inn & Hk & L1 & L2 & W1 & C1 & W2 & C2 & Hy) |
                        [(x & Hk & L1 & W1 & C1 & Hy) | (x & Hk & L1 & W1 & C1 & Hy)]]];
      cbn [kids] in Hk; subst ks; cbn [tree_events].
    + rewrite attrs_uniqueb_app.
      rewrite (Forall_in _ _ x IH (or_introl eq_refl) W1 C1 (or_introl L1) (Hkid x (or_introl eq_refl))).
      rewrite (Forall_in _ _ inn IH (or_intror (or_introl eq_refl)) W2 C2 (or_intror L2)
                 (Hkid inn (or_intror (or_introl eq_refl)))). reflexivity.
    + rewrite L1. change (str_eqb X_tree X_oc) with false. change (str_eqb X_tree X_tree) with true. cbv iota.
      exact (Forall_in _ _ x IH (or_introl eq_refl) W1 C1 (or_introl L1) (Hkid x (or_introl eq_refl))).
    + rewrite L1. reflexivity.
Qed.

(* MAIN THEOREM (attributes), on the constraint as evaluated *)
Theorem xml_attrs_valid_b t : wfx t -> closedT t -> lbl t = X_start ->
  xml_noredef_satb t = true -> xml_attrs_unique (yield t) = true.
Proof.
  intros Hwf Hcl Hl Hsat. unfold xml_noredef_satb in Hsat. rewrite forallb_forall in Hsat.
  destruct (xml_events_exact t Hwf Hcl Hl) as (x & Hk & L1 & W1 & C1 & Hev).
  unfold xml_attrs_unique. rewrite Hev. apply (tree_unique x W1 C1 (or_introl L1)).
  intros A HA. apply Hsat. apply (nodes_lbl_kid X_attr t x); [rewrite Hk; left; reflexivity | assumption].
Qed.
