(* C21 (XML part) — the shipped XML formalization (src/isla_formalizations/xml_lang.py) and an
   independent tag-balance checker.  MODEL FILE: definitions only, no proofs.

   1. TRANSCRIPTION of  XML_GRAMMAR  and  XML_GRAMMAR_WITH_NAMESPACE_PREFIXES  (canonical form) and of
      xml_wellformedness_constraint  (source text + the parameters of the parsed formula: the
      quantified type, the text of the match expression, the types of the two bound ids, the SMT
      atom).  harness/c21.py diffs all of them against the live Python objects on every run.

   2. MODEL of the constraint as evaluated on closed trees: xml_wf_satb (verdict of
      evaluator.evaluate(XML_WELLFORMEDNESS_CONSTRAINT, t, grammar)).

   3. The INDEPENDENT validity notion: xml_balanced, a one-pass reader over the characters of a
      text with a stack of open tag names, written without reference to the grammar.  Tied to a
      Python reference and to xml.etree by the correspondence check.
   Comments avoid the double-quote character (it would open a Coq string). *)
From Coq Require Import String Ascii.
From ISLA Require Export Grammar Csv.
Local Open Scope list_scope.

(* ------------------------------------------------------------------------- *)
(* 1. transcription                                                          *)
(* ------------------------------------------------------------------------- *)

Definition c_slash : chr := 47%N.
Definition c_apos  : chr := 39%N.
Definition c_amp   : chr := 38%N.

Definition ascii_letters : str := Eval vm_compute in
  lit "abcdefghijklmnopqrstuvwxyzABCDEFGHIJKLMNOPQRSTUVWXYZ".
Definition digits : str := Eval vm_compute in lit "0123456789".

(* html.escape(c) (quote=True) on a one-character string *)
Definition html_escape (c : chr) : str :=
  if N.eqb c c_amp then lit "&amp;"
  else if N.eqb c c_lt then lit "&lt;"
  else if N.eqb c c_gt then lit "&gt;"
  else if N.eqb c c_quote then lit "&quot;"
  else if N.eqb c c_apos then lit "&#x27;"
  else [c].

(* srange(s): one single-terminal alternative per character *)
Definition srange_alts (s : str) : list alt := List.map (fun c => [[c]]) s.

Definition X_start   : str := Eval vm_compute in lit "<start>".
Definition X_tree    : str := Eval vm_compute in lit "<xml-tree>".
Definition X_inner   : str := Eval vm_compute in lit "<inner-xml-tree>".
Definition X_open    : str := Eval vm_compute in lit "<xml-open-tag>".
Definition X_oc      : str := Eval vm_compute in lit "<xml-openclose-tag>".
Definition X_close   : str := Eval vm_compute in lit "<xml-close-tag>".
Definition X_attr    : str := Eval vm_compute in lit "<xml-attribute>".
Definition X_id      : str := Eval vm_compute in lit "<id>".
Definition X_idsc    : str := Eval vm_compute in lit "<id-start-char>".
Definition X_idcs    : str := Eval vm_compute in lit "<id-chars>".
Definition X_idc     : str := Eval vm_compute in lit "<id-char>".
Definition X_text    : str := Eval vm_compute in lit "<text>".
Definition X_tchar   : str := Eval vm_compute in lit "<text-char>".
Definition X_idnp    : str := Eval vm_compute in lit "<id-no-prefix>".
Definition X_idwp    : str := Eval vm_compute in lit "<id-with-prefix>".

(* terminal symbols of the tag rules *)
Definition T_lt   : str := [c_lt].              (* <  *)
Definition T_gt   : str := [c_gt].              (* >  *)
Definition T_sp   : str := [c_sp].
Definition T_lts  : str := [c_lt; c_slash].     (* </ *)
Definition T_sgt  : str := [c_slash; c_gt].     (* /> *)
Definition T_eqq  : str := [61%N; c_quote].     (* =, quote *)
Definition T_q    : str := [c_quote].

(* XML_GRAMMAR, rule by rule, in the order of the Python dict *)
Definition XML : grammar := Eval vm_compute in
  [ (X_start, [[X_tree]]);
    (X_tree,  [[X_open; X_inner; X_close]; [X_oc]]);
    (X_inner, [[X_tree; X_inner]; [X_tree]; [X_text]]);
    (X_open,  [[T_lt; X_id; T_sp; X_attr; T_gt]; [T_lt; X_id; T_gt]]);
    (X_oc,    [[T_lt; X_id; T_sp; X_attr; T_sgt]; [T_lt; X_id; T_sgt]]);
    (X_close, [[T_lts; X_id; T_gt]]);
    (X_attr,  [[X_attr; T_sp; X_attr]; [X_id; T_eqq; X_text; T_q]]);
    (X_id,    [[X_idsc; X_idcs]; [X_idsc]]);
    (X_idsc,  srange_alts (lit "_" ++ ascii_letters));
    (X_idcs,  [[X_idc; X_idcs]; [X_idc]]);
    (X_idc,   [X_idsc] :: srange_alts (lit "-." ++ digits));
    (X_text,  [[X_tchar; X_text]; [X_tchar]]);
    (X_tchar, List.map (fun c => [html_escape c])
                (ascii_letters ++ digits ++ [c_quote] ++ lit "'. " ++ [c_tab] ++ lit "/?-,=:+")) ].

(* dict.update: existing key <id> keeps its position, the two new keys are appended *)
Fixpoint g_update (g : grammar) (A : str) (al : list alt) : grammar :=
  match g with
  | [] => [(A, al)]
  | (B, bl) :: g' => if str_eqb A B then (B, al) :: g' else (B, bl) :: g_update g' A al
  end.

Definition XMLNS : grammar := Eval vm_compute in
  g_update (g_update (g_update XML
    X_id   [[X_idwp]; [X_idnp]])
    X_idnp [[X_idsc; X_idcs]; [X_idsc]])
    X_idwp [[X_idnp; [58%N]; X_idnp]].

(* xml_wellformedness_constraint (source text, line breaks are LF):

   forall <xml-tree> tree=MEXPR in start:
       (= opid clid)
   with MEXPR the quoted text  <{<id> opid}[ <xml-attribute>]><inner-xml-tree></{<id> clid}>     *)
Definition wf_mexpr : str := Eval vm_compute in
  lit "<{<id> opid}[ <xml-attribute>]><inner-xml-tree></{<id> clid}>".
Definition wf_src : str := Eval vm_compute in
  [c_nl] ++ lit "forall <xml-tree> tree=""" ++ wf_mexpr ++ lit """ in start:" ++ [c_nl]
  ++ lit "    (= opid clid)" ++ [c_nl].

(* parameters of the parsed formula: ForallFormula over wf_qtype in the start constant with the
   match expression wf_mexpr binding two variables of type wf_idtype; body: SMT atom wf_atom *)
Definition wf_qtype  : str := X_tree.
Definition wf_idtype : str := X_id.
Definition wf_atom   : str := Eval vm_compute in lit "opid == clid".

(* the two shapes of the match expression (optional attribute part absent / present), as label
   sequences of the children of the open tag, and the shape of the close tag *)
Definition open_shape1 : alt := [T_lt; X_id; T_gt].
Definition open_shape2 : alt := [T_lt; X_id; T_sp; X_attr; T_gt].
Definition close_shape : alt := [T_lts; X_id; T_gt].

(* ------------------------------------------------------------------------- *)
(* 2. the constraint on closed trees, as evaluated                           *)
(* ------------------------------------------------------------------------- *)

Definition lbls_are (ks : list tree) (a : alt) : bool := alt_eqb (List.map lbl ks) a.

(* does the match expression match the node r?  If so: the subtrees bound to opid and clid *)
Definition match_ids (r : tree) : option (tree * tree) :=
  match kids r with
  | [o; inn; c] =>
      if lbls_are [o; inn; c] [X_open; X_inner; X_close]
         && (lbls_are (kids o) open_shape1 || lbls_are (kids o) open_shape2)
         && lbls_are (kids c) close_shape
      then match nth_error (kids o) 1, nth_error (kids c) 1 with
           | Some a, Some b => Some (a, b)
           | _, _ => None
           end
      else None
  | _ => None
  end.

(* (= opid clid) under the assignment: the two texts are equal *)
Definition ids_okb (r : tree) : bool :=
  match match_ids r with
  | Some (a, b) => str_eqb (yield a) (yield b)
  | None => true
  end.

Definition xml_wf_satb (t : tree) : bool := forallb ids_okb (nodes_lbl wf_qtype t).

(* ------------------------------------------------------------------------- *)
(* 3. independent tag-balance checker                                        *)
(* ------------------------------------------------------------------------- *)

(* where the reader is: in character data, or inside a tag (then: inside a quoted attribute
   value?, and the characters of the tag read so far, last one first) *)
Inductive xmode := Content | InTag (inq : bool) (rbody : str).

(* reader state: mode, names of the elements that are open (innermost first), no error so far *)
Record xst := XSt { xmd : xmode; xstk : list str; xok : bool }.

Definition xst0 : xst := XSt Content [] true.

Definition is_ws (c : chr) : bool := memc c [c_sp; c_tab; c_nl; c_cr].

(* the name of a tag: its characters up to the first white space *)
Fixpoint tag_name (body : str) : str :=
  match body with
  | [] => []
  | c :: b => if is_ws c then [] else c :: tag_name b
  end.

(* the closing > of a tag has been read; rbody = the characters between < and >, reversed *)
Definition end_tag (rbody : str) (stk : list str) (ok : bool) : xst :=
  match rev rbody with
  | c :: b =>
      if N.eqb c c_slash then                        (* </name> : must close the innermost element *)
        match stk with
        | top :: stk' => XSt Content stk' (ok && str_eqb top (tag_name b))
        | [] => XSt Content [] false
        end
      else match rbody with
           | l :: _ => if N.eqb l c_slash then XSt Content stk ok      (* <name .../> *)
                       else XSt Content (tag_name (c :: b) :: stk) ok  (* <name ...>  *)
           | [] => XSt Content stk false
           end
  | [] => XSt Content stk false                      (* <> *)
  end.

Definition xstep (st : xst) (c : chr) : xst :=
  let '(XSt m stk ok) := st in
  match m with
  | Content => if N.eqb c c_lt then XSt (InTag false []) stk ok else st
  | InTag q rb =>
      if N.eqb c c_lt then XSt (InTag q (c :: rb)) stk false         (* < inside a tag *)
      else if q then XSt (InTag (negb (N.eqb c c_quote)) (c :: rb)) stk ok
      else if N.eqb c c_gt then end_tag rb stk ok
      else XSt (InTag (N.eqb c c_quote) (c :: rb)) stk ok
  end.

Definition xrun (s : str) (st : xst) : xst := fold_left xstep s st.

Definition xml_balanced (s : str) : bool :=
  let st := xrun s xst0 in
  match xmd st, xstk st with
  | Content, [] => xok st
  | _, _ => false
  end.
