(* C21 (XML, namespace and attribute rules) -- part 3: the shipped namespace constraints imply
   prefix binding (xml_ns_bound), the shipped attribute constraint implies attribute uniqueness
   (xml_attrs_unique), for every closed derivation tree of XML_GRAMMAR_WITH_NAMESPACE_PREFIXES. *)
From Coq Require Import Lia Bool.
From ISLA Require Import Grammar GrammarFacts PathFacts TreeFacts Csv CsvFacts Xml XmlFacts XmlValid XmlNs XmlNsFacts XmlNsReader.

(* ========================================================================= *)
(* match expressions on valid trees                                          *)
(* ========================================================================= *)

Ltac inv_pm :=
  repeat match goal with
  | H : pmatch (MN _ _) _ = true |- _ => apply pmatch_MN in H; destruct H as (? & ? & ?)
  | H : pmatch (MO _) _ = true |- _ => apply pmatch_MO in H
  | H : Forall2 _ (_ :: _) _ |- _ => inversion H; clear H; subst
  | H : Forall2 _ [] _ |- _ => inversion H; clear H; subst
  end.

Ltac pm_solve :=
  repeat first
    [ assumption | reflexivity
    | match goal with |- pmatch (MN _ _) _ = true => apply pmatch_MN; split; [|split] end
    | match goal with |- pmatch (MO _) _ = true => apply pmatch_MO end
    | match goal with H : kids ?t = _ |- Forall2 _ _ (kids ?t) => rewrite H end
    | match goal with |- Forall2 _ _ _ => constructor end ].

Lemma sub0 t k ks p : kids t = k :: ks -> subtree t (0 :: p) = subtree k p.
Proof. intro H. cbn [subtree]. rewrite H. reflexivity. Qed.
Lemma subn t n ks k p : kids t = ks -> nth_error ks n = Some k -> subtree t (n :: p) = subtree k p.
Proof. intros H Hn. cbn [subtree]. rewrite H, Hn. reflexivity. Qed.

(* ---- attribute leaves ---- *)

Lemma leaf_match d idt tx : attr_leaf d idt tx -> lbl d = X_attr -> opn d = false ->
  mmatch ME_leaf d = Some [idt].
Proof.
  intros (e & q & Hk & L1 & L2 & L3 & L4 & Oe & Ke & Oq & Kq & _) Hl Ho.
  unfold ME_leaf. cbn [mmatch].
  match goal with |- context [pmatch ?M d] => assert (Hm : pmatch M d = true) by pm_solve end.
  rewrite Hm. cbn [map all_some]. rewrite (subn d 0 _ idt [] Hk eq_refl). reflexivity.
Qed.

Lemma leaf_match_inv d i : mmatch ME_leaf d = Some [i] ->
  exists e tx q, kids d = [i; e; tx; q].
Proof.
  unfold ME_leaf. cbn [mmatch].
  match goal with |- context [pmatch ?M d] => destruct (pmatch M d) eqn:Hm; [|discriminate] end.
  inv_pm. match goal with H : _ = kids d |- _ => symmetry in H; rename H into Hk end.
  cbn [map all_some]. rewrite (subn d 0 _ _ [] Hk eq_refl). cbn [subtree]. intro E. inversion E; subst. eauto.
Qed.

Lemma attr_match d idt tx pu md : attr_leaf d idt tx -> lbl d = X_attr -> opn d = false ->
  opn idt = false -> id_prefixed idt pu md -> mmatch ME_attr d = Some [pu; md].
Proof.
  intros (e & q & Hk & L1 & L2 & L3 & L4 & Oe & Ke & Oq & Kq & _) Hl Ho Hoi
         (w & c & Hki & Lw & Ow & Hkw & Lp & Lc & Oc & Kc & Ll & _).
  unfold ME_attr. cbn [mmatch].
  match goal with |- context [pmatch ?M d] => assert (Hm : pmatch M d = true) by pm_solve end.
  rewrite Hm. cbn [map all_some].
  rewrite (subn d 0 _ idt _ Hk eq_refl), (subn idt 0 _ w _ Hki eq_refl), (subn w 0 _ pu [] Hkw eq_refl).
  rewrite (subn d 0 _ idt _ Hk eq_refl), (subn idt 0 _ w _ Hki eq_refl), (subn w 2 _ md [] Hkw eq_refl).
  reflexivity.
Qed.

Lemma xmlns_lit_yield x : pmatch (m_idnp s_xmlns) x = true -> yield x = s_xmlns.
Proof.
  intro H. assert (Hc : mclosed (m_idnp s_xmlns) = true) by (vm_compute; reflexivity).
  rewrite (pmatch_yield _ Hc x H). vm_compute. reflexivity.
Qed.

Lemma def_match_inv d pd : mmatch ME_def d = Some [pd] ->
  exists idt e tx q, kids d = [idt; e; tx; q] /\ yield idt = s_xmlns ++ 58%N :: yield pd.
Proof.
  unfold ME_def. cbn [mmatch].
  match goal with |- context [pmatch ?M d] => destruct (pmatch M d) eqn:Hm; [|discriminate] end.
  apply pmatch_MN in Hm as (Hl & Ho & Hf).
  inversion Hf as [|m1 idt ms1 ks1 Hm1 Hf1 E1 E2]; subst. clear Hf.
  inversion Hf1 as [|m2 e ms2 ks2 Hm2 Hf2]; subst. clear Hf1.
  inversion Hf2 as [|m3 tx ms3 ks3 Hm3 Hf3]; subst. clear Hf2.
  inversion Hf3 as [|m4 q ms4 ks4 Hm4 Hf4]; subst. clear Hf3. inversion Hf4; subst. clear Hf4.
  match goal with H : _ = kids d |- _ => symmetry in H; rename H into Hk end.
  apply pmatch_MN in Hm1 as (Li & Oi & Hfi).
  inversion Hfi as [|m5 w ms5 ks5 Hm5 Hf5]; subst. clear Hfi. inversion Hf5; subst. clear Hf5.
  match goal with H : _ = kids idt |- _ => symmetry in H; rename H into Hki end.
  apply pmatch_MN in Hm5 as (Lw & Ow & Hfw).
  inversion Hfw as [|m6 x ms6 ks6 Hm6 Hf6]; subst. clear Hfw.
  inversion Hf6 as [|m7 c ms7 ks7 Hm7 Hf7]; subst. clear Hf6.
  inversion Hf7 as [|m8 l ms8 ks8 Hm8 Hf8]; subst. clear Hf7. inversion Hf8; subst. clear Hf8.
  match goal with H : _ = kids w |- _ => symmetry in H; rename H into Hkw end.
  cbn [map all_some].
  rewrite (subn d 0 _ idt _ Hk eq_refl), (subn idt 0 _ w _ Hki eq_refl), (subn w 2 _ l [] Hkw eq_refl).
  cbn [subtree]. intro E. inversion E; subst pd.
  exists idt, e, tx, q. split; [first [assumption | reflexivity]|].
  destruct idt as [li ii oi ki]. cbn [kids] in Hki. subst ki. rewrite yield_kids by discriminate.
  cbn [flat_map]. rewrite app_nil_r.
  destruct w as [lw iw ow kw]. cbn [kids] in Hkw. subst kw. rewrite yield_kids by discriminate.
  cbn [flat_map]. rewrite app_nil_r.
  rewrite (xmlns_lit_yield x Hm6).
  apply pmatch_MN in Hm7 as (Lc & Oc & Hfc). inversion Hfc as [Ec|]; subst.
  destruct c as [lc ic oc kc]. cbn [lbl opn kids] in *. subst lc oc kc. reflexivity.
Qed.

(* ---- tags ---- *)

Lemma outer_match_inv o cont : mmatch ME_outer o = Some [cont] ->
  exists op inn c a idt s f, kids o = [op; inn; c] /\ kids op = [a; idt; s; cont; f].
Proof.
  unfold ME_outer. cbn [mmatch].
  match goal with |- context [pmatch ?M o] => destruct (pmatch M o) eqn:Hm; [|discriminate] end.
  apply pmatch_MN in Hm as (Hl & Ho & Hf).
  inversion Hf as [|m1 op ms1 ks1 Hm1 Hf1]; subst. clear Hf.
  inversion Hf1 as [|m2 inn ms2 ks2 Hm2 Hf2]; subst. clear Hf1.
  inversion Hf2 as [|m3 c ms3 ks3 Hm3 Hf3]; subst. clear Hf2. inversion Hf3; subst. clear Hf3.
  match goal with H : _ = kids o |- _ => symmetry in H; rename H into Hk end.
  apply pmatch_MN in Hm1 as (Lo & Oo & Hfo).
  inversion Hfo as [|m4 a ms4 ks4 Hm4 Hf4]; subst. clear Hfo.
  inversion Hf4 as [|m5 idt ms5 ks5 Hm5 Hf5]; subst. clear Hf4.
  inversion Hf5 as [|m6 s ms6 ks6 Hm6 Hf6]; subst. clear Hf5.
  inversion Hf6 as [|m7 at_ ms7 ks7 Hm7 Hf7]; subst. clear Hf6.
  inversion Hf7 as [|m8 f ms8 ks8 Hm8 Hf8]; subst. clear Hf7. inversion Hf8; subst. clear Hf8.
  match goal with H : _ = kids op |- _ => symmetry in H; rename H into Hko end.
  cbn [map all_some]. rewrite (subn o 0 _ op _ Hk eq_refl), (subn op 3 _ at_ [] Hko eq_refl).
  cbn [subtree]. intro E. inversion E; subst cont. eauto 10.
Qed.

(* a tag whose name has a prefix matches one of the four shapes of ME_tag *)
Lemma tag_match r tg idt pu l :
  lbl r = X_tree -> opn r = false -> opn tg = false -> opn idt = false ->
  ((exists inn c, kids r = [tg; inn; c] /\ lbl inn = X_inner /\ lbl c = X_close /\ lbl tg = X_open /\
      ((exists at_, tag_attrs tg idt at_ T_gt) \/ tag_plain tg idt T_gt)) \/
   (kids r = [tg] /\ lbl tg = X_oc /\ ((exists at_, tag_attrs tg idt at_ T_sgt) \/ tag_plain tg idt T_sgt))) ->
  id_prefixed idt pu l -> mmatch ME_tag r = Some [pu].
Proof.
  intros Hl Ho Hot Hoi Hshape (w & c0 & Hki & Lw & Ow & Hkw & Lp & Lc & Oc & Kc & Ll & _).
  assert (Hsub : forall ks, kids r = tg :: ks -> forall ks', kids tg = ks' -> nth_error ks' 1 = Some idt ->
                 all_some (map (subtree r) [[0; 1; 0; 0]]) = Some [pu]).
  { intros ks Hk ks' Hkt Hn. cbn [map all_some].
    rewrite (subn r 0 _ tg _ Hk eq_refl), (subn tg 1 _ idt _ Hkt Hn), (subn idt 0 _ w _ Hki eq_refl),
      (subn w 0 _ pu [] Hkw eq_refl). reflexivity. }
  unfold ME_tag. cbn [mmatch].
  destruct Hshape as [(inn & c & Hk & Li & Lcl & Lt & [(at_ & Ht) | Ht]) | (Hk & Lt & [(at_ & Ht) | Ht])].
  - destruct Ht as (a & s & f & Hkt & (La & Oa & Ka) & (Ls & Os & Ks) & (Lf & Of & Kf) & Lid & Lat & _).
    repeat match goal with |- context [if pmatch ?M r then _ else _] =>
      destruct (pmatch M r) eqn:?; [apply (Hsub _ Hk _ Hkt eq_refl)|] end.
    exfalso. match goal with H : pmatch (MN _ [MN _ [_; _; _; _; _]; _; _]) r = false |- _ =>
      match type of H with pmatch ?M r = false => assert (X : pmatch M r = true) by pm_solve; rewrite X in H; discriminate end end.
  - destruct Ht as (a & f & Hkt & (La & Oa & Ka) & (Lf & Of & Kf) & Lid & _).
    repeat match goal with |- context [if pmatch ?M r then _ else _] =>
      destruct (pmatch M r) eqn:?; [apply (Hsub _ Hk _ Hkt eq_refl)|] end.
    exfalso. match goal with H : pmatch (MN _ [MN _ [_; _; _]; _; _]) r = false |- _ =>
      match type of H with pmatch ?M r = false => assert (X : pmatch M r = true) by pm_solve; rewrite X in H; discriminate end end.
  - destruct Ht as (a & s & f & Hkt & (La & Oa & Ka) & (Ls & Os & Ks) & (Lf & Of & Kf) & Lid & Lat & _).
    repeat match goal with |- context [if pmatch ?M r then _ else _] =>
      destruct (pmatch M r) eqn:?; [apply (Hsub _ Hk _ Hkt eq_refl)|] end.
    exfalso. match goal with H : pmatch (MN _ [MN _ [_; _; _; _; _]]) r = false |- _ =>
      match type of H with pmatch ?M r = false => assert (X : pmatch M r = true) by pm_solve; rewrite X in H; discriminate end end.
  - destruct Ht as (a & f & Hkt & (La & Oa & Ka) & (Lf & Of & Kf) & Lid & _).
    repeat match goal with |- context [if pmatch ?M r then _ else _] =>
      destruct (pmatch M r) eqn:?; [apply (Hsub _ Hk _ Hkt eq_refl)|] end.
    exfalso. match goal with H : pmatch (MN _ [MN _ [_; _; _]]) r = false |- _ =>
      match type of H with pmatch ?M r = false => assert (X : pmatch M r = true) by pm_solve; rewrite X in H; discriminate end end.
Qed.

(* ========================================================================= *)
(* attribute leaves of an attribute tree                                     *)
(* ========================================================================= *)

Lemma attr_pairs_in a : wfx a -> closedT a -> lbl a = X_attr -> forall k v, In (k, v) (attr_pairs a) ->
  exists q d idt tx, subtree a q = Some d /\ lbl d = X_attr /\ opn d = false /\ attr_leaf d idt tx /\
    k = yield idt /\ v = yield tx.
Proof.
  induction a as [l i o ks IH] using tree_ind'. intros Hwf Hcl Hl k v Hin.
  destruct (attr_struct _ Hwf Hcl Hl) as [Ho [(a1 & a2 & Hp) | (idt & tx & Hlf)]].
  - destruct Hp as (s & Hk & L1 & Ls & L2 & Ws & W1 & C1 & W2 & C2 & Hy). cbn [kids] in Hk. subst ks.
    rewrite attr_pairs_pair in Hin. apply in_app_iff in Hin as [Hin|Hin].
    + destruct (Forall_in _ _ a1 IH (or_introl eq_refl) W1 C1 L1 k v Hin) as (q & d & R).
      exists (0 :: q), d. exact R.
    + destruct (Forall_in _ _ a2 IH (or_intror (or_intror (or_introl eq_refl))) W2 C2 L2 k v Hin) as (q & d & R).
      exists (2 :: q), d. exact R.
  - pose proof Hlf as (e & q & Hk & _). cbn [kids] in Hk. subst ks. rewrite attr_pairs_leaf in Hin.
    destruct Hin as [E|[]]. inversion E; subst k v.
    exists [], (Node l i o [idt; e; tx; q]), idt, tx. repeat split; auto.
Qed.

Lemma attr_pairs_of_node a : wfx a -> closedT a -> lbl a = X_attr -> forall d idt e tx q,
  In d (nodes_lbl X_attr a) -> kids d = [idt; e; tx; q] -> In (yield idt, yield tx) (attr_pairs a).
Proof.
  induction a as [l i o ks IH] using tree_ind'. intros Hwf Hcl Hl d idt e tx q Hin Hkd.
  cbn [lbl] in Hl. subst l.
  destruct (attr_struct _ Hwf Hcl eq_refl) as [Ho [(a1 & a2 & Hp) | (idt' & tx' & Hlf)]].
  - destruct Hp as (s & Hk & L1 & Ls & L2 & Ws & W1 & C1 & W2 & C2 & Hy). cbn [kids] in Hk. subst ks.
    cbn [nodes_lbl flat_map] in Hin. change (str_eqb X_attr X_attr) with true in Hin. cbv iota in Hin.
    rewrite (terminal_no_label X_attr s Ws) in Hin by (rewrite ?Ls; reflexivity).
    rewrite app_nil_r in Hin. cbn [app] in Hin. rewrite attr_pairs_pair.
    destruct Hin as [E|Hin]; [subst d; discriminate|]. apply in_app_iff in Hin. apply in_app_iff.
    destruct Hin as [Hin|Hin]; [left | right].
    + exact (Forall_in _ _ a1 IH (or_introl eq_refl) W1 C1 L1 d idt e tx q Hin Hkd).
    + exact (Forall_in _ _ a2 IH (or_intror (or_intror (or_introl eq_refl))) W2 C2 L2 d idt e tx q Hin Hkd).
  - destruct Hlf as (e' & q' & Hk & L1 & L2 & L3 & L4 & Oe & Ke & Oq & Kq & W1 & C1 & W3 & C3 & Hy).
    cbn [kids] in Hk. subst ks.
    cbn [nodes_lbl flat_map] in Hin. change (str_eqb X_attr X_attr) with true in Hin. cbv iota in Hin.
    assert (N1 : nodes_lbl X_attr idt' = []).
    { apply (no_label_below S_noattr); try reflexivity; try assumption; try exact ns_noattr_closed;
        rewrite L1; reflexivity. }
    assert (N3 : nodes_lbl X_attr tx' = []).
    { apply (no_label_below S_noattr); try reflexivity; try assumption; try exact ns_noattr_closed;
        rewrite L3; reflexivity. }
    assert (N2 : nodes_lbl X_attr e' = []).
    { destruct e' as [le ie oe ke]. cbn [lbl opn kids] in *. subst le oe ke. reflexivity. }
    assert (N4 : nodes_lbl X_attr q' = []).
    { destruct q' as [lq iq oq kq]. cbn [lbl opn kids] in *. subst lq oq kq. reflexivity. }
    rewrite N1, N2, N3, N4 in Hin. cbn [app] in Hin. destruct Hin as [E|[]]. subst d.
    cbn [kids] in Hkd. inversion Hkd; subst. rewrite attr_pairs_leaf. left. reflexivity.
Qed.

Lemma xmlns_nmc : Forall (fun c => nmc c = true) s_xmlns.
Proof. repeat constructor. Qed.

Lemma declared_in ats k v pd : In (k, v) ats -> k = s_xmlns ++ 58%N :: pd -> In pd (declared ats).
Proof.
  intros Hin Hk. unfold declared. apply in_flat_map. exists (k, v). split; [assumption|].
  cbn [fst]. rewrite Hk, (split_colon_some s_xmlns pd xmlns_nmc), str_eqb_refl. left. reflexivity.
Qed.

(* ========================================================================= *)
(* the stack walk over the tags of a tree                                    *)
(* ========================================================================= *)

Fixpoint ns_rec (scope : list str) (r : tree) : bool :=
  match r with
  | Node _ _ _ ks =>
      match ks with
      | [o; inn; c] => let sc := declared (tag_ats o) ++ scope in
                       tag_okb sc (tag_id o) (tag_ats o) && ns_rec sc inn
      | [x; inn] => ns_rec scope x && ns_rec scope inn
      | [x] => if str_eqb (lbl x) X_oc then tag_okb (declared (tag_ats x) ++ scope) (tag_id x) (tag_ats x)
               else if str_eqb (lbl x) X_tree then ns_rec scope x else true
      | _ => true
      end
  end.

Lemma scope_cons d stk : scope_of (d :: stk) = d ++ scope_of stk.
Proof. unfold scope_of. cbn [concat]. rewrite app_assoc. reflexivity. Qed.

Lemma ns_fold r : wfx r -> closedT r -> lbl r = X_tree \/ lbl r = X_inner ->
  forall stk ok, fold_left ns_step (tree_events r) (stk, ok) = (stk, ok && ns_rec (scope_of stk) r).
Proof.
  induction r as [l i o ks IH] using tree_ind'. intros Hwf Hcl Hl stk ok.
  destruct Hl as [Hl|Hl].
  - destruct (tree_struct _ Hwf Hcl Hl) as [_ [(op & inn & c & Hk & L1 & L2 & L3 & W1 & C1 & W2 & C2 & W3 & C3 & Hy) |
                                              (e & Hk & L1 & W1 & C1 & Hy)]];
      cbn [kids] in Hk; subst ks.
    + pose proof (Forall_in _ _ inn IH (or_intror (or_introl eq_refl)) W2 C2 (or_intror L2)) as IHinn.
      cbn [tree_events ns_rec fold_left ns_step]. rewrite fold_left_app, IHinn. cbn [fold_left ns_step].
      rewrite scope_cons, andb_assoc. reflexivity.
    + cbn [tree_events ns_rec]. rewrite L1. change (str_eqb X_oc X_oc) with true. cbv iota.
      cbn [fold_left ns_step]. rewrite scope_cons. reflexivity.
  - destruct (inner_struct _ Hwf Hcl Hl) as [_ [(x & inn & Hk & L1 & L2 & W1 & C1 & W2 & C2 & Hy) |
                        [(x & Hk & L1 & W1 & C1 & Hy) | (x & Hk & L1 & W1 & C1 & Hy)]]];
      cbn [kids] in Hk; subst ks.
    + pose proof (Forall_in _ _ x IH (or_introl eq_refl) W1 C1 (or_introl L1)) as IHx.
      pose proof (Forall_in _ _ inn IH (or_intror (or_introl eq_refl)) W2 C2 (or_intror L2)) as IHinn.
      cbn [tree_events ns_rec]. rewrite fold_left_app, IHx, IHinn, andb_assoc. reflexivity.
    + pose proof (Forall_in _ _ x IH (or_introl eq_refl) W1 C1 (or_introl L1)) as IHx.
      cbn [tree_events ns_rec]. rewrite L1. change (str_eqb X_tree X_oc) with false.
      change (str_eqb X_tree X_tree) with true. cbv iota. apply IHx.
    + cbn [tree_events ns_rec]. rewrite L1. change (str_eqb X_text X_oc) with false.
      change (str_eqb X_text X_tree) with false. cbv iota. cbn [fold_left]. rewrite andb_true_r. reflexivity.
Qed.

(* ========================================================================= *)
(* from the constraints (positions, inside) to the stack walk                *)
(* ========================================================================= *)

Lemma prefix_comparable (a b c : path) : prefix a c -> prefix b c -> prefix a b \/ prefix b a.
Proof.
  revert b c. induction a as [|x a IH]; intros b c Ha Hb; [left; apply prefix_nil|].
  destruct b as [|y b]; [right; apply prefix_nil|].
  destruct c as [|z c]; [destruct Ha as [r Hr]; discriminate|].
  apply prefix_cons_inv in Ha as [E1 Ha]. apply prefix_cons_inv in Hb as [E2 Hb]. subst x y.
  destruct (IH b c Ha Hb) as [H|H]; [left | right]; apply prefix_cons; assumption.
Qed.

Lemma prefix_app_inv (p s q : path) : prefix (p ++ s) (p ++ q) -> prefix s q.
Proof. intros [r Hr]. rewrite <- app_assoc in Hr. apply app_inv_head in Hr. exists r. assumption. Qed.

(* the xmlns:pd declarations on the matching elements that properly contain position p are in scope *)
Definition anc_ok (T : tree) (p : path) (scope : list str) : Prop :=
  forall po o cont d pd, sprefix po p -> subtree T po = Some o -> lbl o = X_tree ->
    mmatch ME_outer o = Some [cont] -> In d (nodes_lbl X_attr cont) -> mmatch ME_def d = Some [pd] ->
    In (yield pd) scope.

Lemma outer_resolve T px p r scope ok :
  outer_ok T px ok = true -> prefix p px -> subtree T p = Some r -> anc_ok T p scope ->
  (forall s' o', s' <> [] -> prefix (p ++ s') px -> subtree T (p ++ s') = Some o' -> lbl o' <> X_tree) ->
  exists pd, ok pd = true /\
    (In (yield pd) scope \/
     exists cont d, mmatch ME_outer r = Some [cont] /\ In d (nodes_lbl X_attr cont) /\ mmatch ME_def d = Some [pd]).
Proof.
  intros Hok Hp Hr Hanc Hbetween. unfold outer_ok in Hok. apply existsb_exists in Hok as ([po o] & Hin & Hb).
  unfold nodes_at in Hin. apply filter_In in Hin as [Hin Hl]. cbn [fst snd] in *.
  apply str_eqb_eq in Hl. apply nodes_spec in Hin.
  destruct (mmatch ME_outer o) as [[|cont [|x xs]]|] eqn:Hmo; try discriminate.
  apply andb_true_iff in Hb as [Hpre Hdecl]. apply prefixb_spec in Hpre.
  unfold decl_in in Hdecl. apply existsb_exists in Hdecl as (d & Hd & Hokd).
  destruct (mmatch ME_def d) as [[|pd [|y ys]]|] eqn:Hmd; try discriminate.
  exists pd. split; [assumption|].
  destruct (prefix_comparable po p px Hpre Hp) as [Hc|Hc].
  - destruct (list_eq_dec Nat.eq_dec po p) as [E|NE].
    + subst po. right. rewrite Hr in Hin. inversion Hin; subst o. eauto.
    + left. apply (Hanc po o cont d pd); auto. apply sprefix_iff. split; assumption.
  - destruct Hc as [s' Hs']. destruct s' as [|a s'].
    + rewrite app_nil_r in Hs'. subst po. right. rewrite Hr in Hin. inversion Hin; subst o. eauto.
    + exfalso. subst po. apply (Hbetween (a :: s') o); [discriminate | assumption | assumption | assumption].
Qed.

(* the declarations found by the constraint on an element are those the reader sees on its start tag *)
Lemma decl_from_outer r op inn c cont d pd :
  kids r = [op; inn; c] -> wfx op -> closedT op -> lbl op = X_open ->
  mmatch ME_outer r = Some [cont] -> In d (nodes_lbl X_attr cont) -> mmatch ME_def d = Some [pd] ->
  In (yield pd) (declared (tag_ats op)).
Proof.
  intros Hk Wo Co Lo Hmo Hd Hmd.
  destruct (outer_match_inv r cont Hmo) as (op' & inn' & c' & a & idt & s & f & Hk' & Hko).
  rewrite Hk in Hk'. inversion Hk'; subst op' inn' c'.
  destruct (tag_struct op T_gt Wo Co (or_introl (conj Lo eq_refl))) as
    [_ [(idt' & at_ & a' & s' & f' & Hko' & _ & _ & _ & L2 & L4 & W2 & C2 & W4 & C4 & _) | (idt' & a' & f' & Hko' & _)]].
  2:{ rewrite Hko in Hko'. discriminate. }
  rewrite Hko in Hko'. inversion Hko'; subst a' idt' s' at_ f'.
  unfold tag_ats. rewrite Hko.
  destruct (def_match_inv d pd Hmd) as (idd & e & tx & q & Hkd & Hyd).
  pose proof (attr_pairs_of_node cont W4 C4 L4 d idd e tx q Hd Hkd) as Hin.
  exact (declared_in _ _ _ _ Hin Hyd).
Qed.

Lemma sprefix_snoc (po p : path) (n : nat) : sprefix po (p ++ [n]) -> po = p \/ sprefix po p.
Proof.
  intros (a & r & Hr). destruct (list_eq_dec Nat.eq_dec po p) as [E|NE]; [left; assumption | right].
  apply sprefix_iff. split; [|assumption].
  assert (Hc : prefix po p \/ prefix p po).
  { apply (prefix_comparable po p (p ++ [n])); [exists (a :: r); assumption | exists [n]; reflexivity]. }
  destruct Hc as [Hc|[s Hs]]; [assumption|].
  destruct s as [|b s]; [rewrite app_nil_r in Hs; congruence|].
  subst po. rewrite <- app_assoc in Hr. apply app_inv_head in Hr. cbn [app] in Hr.
  inversion Hr as [[E1 E2]]. destruct s; discriminate.
Qed.

Lemma in_strb_spec s l : in_strb s l = true <-> In s l.
Proof. apply mem_str_spec. Qed.

Lemma no_tree_in_tag op s' o' : wfx op -> closedT op -> lbl op = X_open \/ lbl op = X_oc ->
  subtree op s' = Some o' -> lbl o' <> X_tree.
Proof.
  intros Wo Co Lo Hs Hl.
  assert (N : nodes_lbl X_tree op = []).
  { apply (no_label_below S_leaf_ns); try reflexivity; try assumption; try exact ns_leaf_closed;
      destruct Lo as [E|E]; rewrite E; reflexivity. }
  assert (Hin : In o' (nodes_lbl X_tree op)) by (apply nodes_lbl_spec; eauto).
  rewrite N in Hin. contradiction.
Qed.

Section Bridge.
  Variable T : tree.
  Hypothesis Htag : tag_ns_satb T = true.
  Hypothesis Hattr : attr_ns_satb T = true.

  (* the name of a tag: r the element at p, tg its start / empty-element tag, idt its <id> *)
  Lemma name_ok p r tg idt scope local :
    subtree T p = Some r -> lbl r = X_tree -> opn r = false -> opn tg = false ->
    wfx idt -> closedT idt -> lbl idt = X_id ->
    ((exists inn c, kids r = [tg; inn; c] /\ lbl inn = X_inner /\ lbl c = X_close /\ lbl tg = X_open /\
        ((exists at_, tag_attrs tg idt at_ T_gt) \/ tag_plain tg idt T_gt)) \/
     (kids r = [tg] /\ lbl tg = X_oc /\ ((exists at_, tag_attrs tg idt at_ T_sgt) \/ tag_plain tg idt T_sgt))) ->
    anc_ok T p scope ->
    (forall cont d pd, mmatch ME_outer r = Some [cont] -> In d (nodes_lbl X_attr cont) ->
       mmatch ME_def d = Some [pd] -> In (yield pd) local) ->
    name_okb (local ++ scope) (yield idt) = true.
  Proof.
    intros Hr Lr Or Ot Wi Ci Li Hshape Hanc Hlocal. unfold name_okb.
    destruct (id_struct idt Wi Ci Li) as [Oi [(pu & l & Hpre) | (n & _ & _ & Hplain)]].
    2:{ rewrite (split_colon_none _ Hplain). reflexivity. }
    pose proof Hpre as (w & c0 & _ & _ & _ & _ & Lp & _ & _ & _ & _ & Wp & Cp & _ & _ & Hy).
    rewrite Hy, (split_colon_some _ _ (proj1 (idnp_facts pu Wp Cp Lp))).
    apply in_strb_spec. apply in_app_iff.
    pose proof (tag_match r tg idt pu l Lr Or Ot Oi Hshape Hpre) as Hm.
    unfold tag_ns_satb in Htag. rewrite forallb_forall in Htag.
    assert (Hin : In (p, r) (nodes_at X_tree T)).
    { unfold nodes_at. apply filter_In. split; [apply nodes_spec; assumption|].
      cbn [snd]. rewrite Lr. apply str_eqb_refl. }
    specialize (Htag _ Hin). cbn [fst snd] in Htag. rewrite Hm in Htag.
    destruct (outer_resolve T p p r scope _ Htag (prefix_refl p) Hr Hanc) as (pd & Hpd & [Hs | (cont & d & Hmo & Hd & Hmd)]).
    { intros s' o' Hne [x Hx] _. exfalso. apply (f_equal (@length nat)) in Hx. rewrite !app_length in Hx.
      destruct s'; [contradiction|]. cbn [length] in Hx. lia. }
    - apply str_eqb_eq in Hpd. rewrite Hpd. right. assumption.
    - apply str_eqb_eq in Hpd. rewrite Hpd. left. eapply Hlocal; eauto.
  Qed.

  (* the attributes of a tag: at_ the attribute tree at position p ++ [0; 3] *)
  Lemma attrs_ok p r tg at_ scope local :
    subtree T p = Some r -> subtree r [0] = Some tg -> subtree tg [3] = Some at_ ->
    wfx tg -> closedT tg -> lbl tg = X_open \/ lbl tg = X_oc ->
    wfx at_ -> closedT at_ -> lbl at_ = X_attr ->
    anc_ok T p scope ->
    (forall cont d pd, mmatch ME_outer r = Some [cont] -> In d (nodes_lbl X_attr cont) ->
       mmatch ME_def d = Some [pd] -> In (yield pd) local) ->
    forallb (fun kv => attr_okb (local ++ scope) (fst kv)) (attr_pairs at_) = true.
  Proof.
    intros Hr Htg Hat Wt Ct Lt Wa Ca La Hanc Hlocal. apply forallb_forall. intros [k v] Hkv. cbn [fst].
    destruct (attr_pairs_in at_ Wa Ca La k v Hkv) as (q & d & idt & tx & Hq & Ld & Od & Hlf & Ek & _).
    subst k. pose proof Hlf as (e & q' & _ & Li & _ & _ & _ & _ & _ & _ & _ & Wi & Ci & _).
    unfold attr_okb.
    destruct (id_struct idt Wi Ci Li) as [Oi [(pu & md & Hpre) | (n & _ & _ & Hplain)]].
    2:{ rewrite (split_colon_none _ Hplain). reflexivity. }
    pose proof Hpre as (w & c0 & _ & _ & _ & _ & Lp & _ & _ & _ & _ & Wp & Cp & _ & _ & Hy).
    rewrite Hy, (split_colon_some _ _ (proj1 (idnp_facts pu Wp Cp Lp))).
    pose proof (attr_match d idt tx pu md Hlf Ld Od Oi Hpre) as Hm.
    assert (Hd : subtree T (p ++ 0 :: 3 :: q) = Some d).
    { rewrite subtree_app, Hr. change (0 :: 3 :: q) with ([0] ++ [3] ++ q).
      rewrite subtree_app, Htg, subtree_app, Hat. assumption. }
    unfold attr_ns_satb in Hattr. rewrite forallb_forall in Hattr.
    assert (Hin : In (p ++ 0 :: 3 :: q, d) (nodes_at X_attr T)).
    { unfold nodes_at. apply filter_In. split; [apply nodes_spec; assumption|].
      cbn [snd]. rewrite Ld. apply str_eqb_refl. }
    specialize (Hattr _ Hin). cbn [fst snd] in Hattr. rewrite Hm in Hattr.
    assert (Hres : forall ok, outer_ok T (p ++ 0 :: 3 :: q) ok = true ->
              exists pd, ok pd = true /\ In (yield pd) (local ++ scope)).
    { intros ok Hok.
      destruct (outer_resolve T _ p r scope ok Hok (ex_intro _ _ eq_refl) Hr Hanc) as (pd & Hpd & [Hs | (cont & d' & Hmo & Hd' & Hmd)]).
      - intros s' o' Hne Hpre' Hsub. apply prefix_app_inv in Hpre'.
        destruct s' as [|a s']; [contradiction|]. apply prefix_cons_inv in Hpre' as [Ea _]. subst a.
        rewrite subtree_app, Hr in Hsub. change (0 :: s') with ([0] ++ s') in Hsub.
        rewrite subtree_app, Htg in Hsub. exact (no_tree_in_tag tg s' o' Wt Ct Lt Hsub).
      - exists pd. split; [assumption|]. apply in_app_iff. right. assumption.
      - exists pd. split; [assumption|]. apply in_app_iff. left. eapply Hlocal; eauto. }
    destruct (str_eqb (yield pu) s_xmlns) eqn:Ex.
    - apply orb_true_iff in Hattr as [H1|H2].
      + cbn [andb] in H1. assumption.
      + destruct (Hres _ H2) as (pd & Hpd & _). apply andb_true_iff in Hpd as [N E].
        apply str_eqb_eq in E. rewrite <- E, Ex in N. discriminate.
    - cbn [andb orb] in Hattr. destruct (Hres _ Hattr) as (pd & Hpd & Hin').
      apply andb_true_iff in Hpd as [_ E]. apply str_eqb_eq in E. rewrite E. apply in_strb_spec. assumption.
  Qed.
End Bridge.

Lemma anc_ext T p r n scope local : subtree T p = Some r -> anc_ok T p scope ->
  (forall cont d pd, lbl r = X_tree -> mmatch ME_outer r = Some [cont] -> In d (nodes_lbl X_attr cont) ->
     mmatch ME_def d = Some [pd] -> In (yield pd) local) ->
  anc_ok T (p ++ [n]) (local ++ scope).
Proof.
  intros Hr Hanc Hlocal po o cont d pd Hsp Ho Lo Hmo Hd Hmd. apply in_app_iff.
  destruct (sprefix_snoc po p n Hsp) as [E|Hsp'].
  - subst po. rewrite Hr in Ho. inversion Ho; subst o. left. eapply Hlocal; eauto.
  - right. eapply Hanc; eauto.
Qed.

Lemma ns_rec_ok T : tag_ns_satb T = true -> attr_ns_satb T = true ->
  forall r, wfx r -> closedT r -> lbl r = X_tree \/ lbl r = X_inner ->
  forall p scope, subtree T p = Some r -> anc_ok T p scope -> ns_rec scope r = true.
Proof.
  intros Htag Hattr. induction r as [l i o ks IH] using tree_ind'. intros Hwf Hcl Hl p scope Hr Hanc.
  destruct Hl as [Hl|Hl].
  - destruct (tree_struct _ Hwf Hcl Hl) as [Or [(op & inn & c & Hk & L1 & L2 & L3 & W1 & C1 & W2 & C2 & W3 & C3 & Hy) |
                                              (e & Hk & L1 & W1 & C1 & Hy)]];
      cbn [kids] in Hk; subst ks; cbn [lbl opn] in Hl, Or; subst l o.
    + set (r := Node X_tree i false [op; inn; c]) in *.
      assert (Hlocal : forall cont d pd, mmatch ME_outer r = Some [cont] -> In d (nodes_lbl X_attr cont) ->
                mmatch ME_def d = Some [pd] -> In (yield pd) (declared (tag_ats op))).
      { intros cont d pd Hmo Hd Hmd. exact (decl_from_outer r op inn c cont d pd eq_refl W1 C1 L1 Hmo Hd Hmd). }
      cbn [ns_rec]. apply andb_true_iff. split.
      * unfold tag_okb. apply andb_true_iff.
        destruct (tag_struct op T_gt W1 C1 (or_introl (conj L1 eq_refl))) as [Oo [(idt & at_ & Hta) | (idt & Htp)]].
        -- pose proof Hta as (a & s & f & Hko & _ & _ & _ & Li & La & Wi & Ci & Wa & Ca & _).
           assert (Eid : tag_id op = yield idt) by (unfold tag_id; rewrite Hko; reflexivity).
           assert (Eat : tag_ats op = attr_pairs at_) by (unfold tag_ats; rewrite Hko; reflexivity).
           rewrite Eat in Hlocal. rewrite Eid, Eat. split.
           ++ apply (name_ok T Htag p r op idt scope _ Hr eq_refl eq_refl Oo Wi Ci Li); auto.
              left. exists inn, c. repeat split; auto. left. exists at_. assumption.
           ++ apply (attrs_ok T Hattr p r op at_ scope _ Hr eq_refl); auto.
              cbn [subtree]. rewrite Hko. reflexivity.
        -- pose proof Htp as (a & f & Hko & _ & _ & Li & Wi & Ci & _).
           assert (Eid : tag_id op = yield idt) by (unfold tag_id; rewrite Hko; reflexivity).
           assert (Eat : tag_ats op = []) by (unfold tag_ats; rewrite Hko; reflexivity).
           rewrite Eat in Hlocal. rewrite Eid, Eat. split; [|reflexivity].
           apply (name_ok T Htag p r op idt scope _ Hr eq_refl eq_refl Oo Wi Ci Li); auto.
           left. exists inn, c. repeat split; auto.
      * apply (Forall_in _ _ inn IH (or_intror (or_introl eq_refl)) W2 C2 (or_intror L2) (p ++ [1])).
        -- rewrite subtree_app, Hr. reflexivity.
        -- apply (anc_ext T p r 1 scope _ Hr Hanc). intros cont d pd _. apply Hlocal.
    + cbn [ns_rec]. rewrite L1. change (str_eqb X_oc X_oc) with true. cbv iota.
      set (r := Node X_tree i false [e]) in *.
      assert (Hlocal : forall cont d pd, mmatch ME_outer r = Some [cont] -> In d (nodes_lbl X_attr cont) ->
                mmatch ME_def d = Some [pd] -> In (yield pd) (declared (tag_ats e))).
      { intros cont d pd Hmo _ _. destruct (outer_match_inv r cont Hmo) as (op' & inn' & c' & a & idt & s & f & Hk' & _).
        discriminate. }
      unfold tag_okb. apply andb_true_iff.
      destruct (tag_struct e T_sgt W1 C1 (or_intror (conj L1 eq_refl))) as [Oo [(idt & at_ & Hta) | (idt & Htp)]].
      * pose proof Hta as (a & s & f & Hko & _ & _ & _ & Li & La & Wi & Ci & Wa & Ca & _).
        assert (Eid : tag_id e = yield idt) by (unfold tag_id; rewrite Hko; reflexivity).
        assert (Eat : tag_ats e = attr_pairs at_) by (unfold tag_ats; rewrite Hko; reflexivity).
        rewrite Eat in Hlocal. rewrite Eid, Eat. split.
        -- apply (name_ok T Htag p r e idt scope _ Hr eq_refl eq_refl Oo Wi Ci Li); auto.
           right. repeat split; auto. left. exists at_. assumption.
        -- apply (attrs_ok T Hattr p r e at_ scope _ Hr eq_refl); auto.
           cbn [subtree]. rewrite Hko. reflexivity.
      * pose proof Htp as (a & f & Hko & _ & _ & Li & Wi & Ci & _).
        assert (Eid : tag_id e = yield idt) by (unfold tag_id; rewrite Hko; reflexivity).
        assert (Eat : tag_ats e = []) by (unfold tag_ats; rewrite Hko; reflexivity).
        rewrite Eat in Hlocal. rewrite Eid, Eat. split; [|reflexivity].
        apply (name_ok T Htag p r e idt scope _ Hr eq_refl eq_refl Oo Wi Ci Li); auto.
  - assert (Hnt : forall n, anc_ok T (p ++ [n]) scope).
    { intro n. apply (anc_ext T p _ n scope [] Hr Hanc). intros cont d pd Lr. cbn [lbl] in Lr, Hl.
      rewrite Hl in Lr. discriminate. }
    destruct (inner_struct _ Hwf Hcl Hl) as [_ [(x & inn & Hk & L1 & L2 & W1 & C1 & W2 & C2 & Hy) |
                        [(x & Hk & L1 & W1 & C1 & Hy) | (x & Hk & L1 & W1 & C1 & Hy)]]];
      cbn [kids] in Hk; subst ks; cbn [ns_rec].
    + apply andb_true_iff. split.
      * apply (Forall_in _ _ x IH (or_introl eq_refl) W1 C1 (or_introl L1) (p ++ [0])); [|apply Hnt].
        rewrite subtree_app, Hr. reflexivity.
      * apply (Forall_in _ _ inn IH (or_intror (or_introl eq_refl)) W2 C2 (or_intror L2) (p ++ [1])); [|apply Hnt].
        rewrite subtree_app, Hr. reflexivity.
    + rewrite L1. change (str_eqb X_tree X_oc) with false. change (str_eqb X_tree X_tree) with true. cbv iota.
      apply (Forall_in _ _ x IH (or_introl eq_refl) W1 C1 (or_introl L1) (p ++ [0])); [|apply Hnt].
      rewrite subtree_app, Hr. reflexivity.
    + rewrite L1. reflexivity.
Qed.

(* MAIN THEOREM (namespaces), on the constraint as evaluated *)
Theorem xml_ns_valid_b t : wfx t -> closedT t -> lbl t = X_start ->
  xml_ns_satb t = true -> xml_ns_bound (yield t) = true.
Proof.
  intros Hwf Hcl Hl Hsat. unfold xml_ns_satb in Hsat. apply andb_true_iff in Hsat as [Htag Hattr].
  destruct (xml_events_exact t Hwf Hcl Hl) as (x & Hk & L1 & W1 & C1 & Hev).
  unfold xml_ns_bound. rewrite Hev. unfold ns_boundb. rewrite (ns_fold x W1 C1 (or_introl L1)).
  cbn [snd andb].
  apply (ns_rec_ok t Htag Hattr x W1 C1 (or_introl L1) [0]).
  - cbn [subtree]. rewrite Hk. reflexivity.
  - intros po o cont d pd Hsp Ho Lo _ _ _. exfalso.
    destruct (sprefix_snoc po [] 0 Hsp) as [E|(a & r & Hr)].
    + subst po. cbn [subtree] in Ho. inversion Ho; subst o. rewrite Hl in Lo. discriminate.
    + destruct po; discriminate.
Qed.
