(* C21 (XML part) — specification and proofs.

   SPEC (independent of the model functions of Xml.v):
     matches_openclose r opid clid   the node r has the shape of the match expression
                                     <{<id> opid}[ <xml-attribute>]><inner-xml-tree></{<id> clid}>
                                     and opid / clid are the subtrees bound by it
     xml_wf_sat t                    documented meaning of xml_wellformedness_constraint: for every
                                     <xml-tree> node of t of that shape, the texts of opid and clid
                                     are equal
   MAIN THEOREM (for every grammar g that has the seven structural XML rules and whose <id> / <text>
   sub-grammars stay inside the character classes idcb / txc; instantiated for XML_GRAMMAR and
   XML_GRAMMAR_WITH_NAMESPACE_PREFIXES):
     wf_tree g t -> closed t -> lbl t = <start> -> xml_balanced (yield t) = xml_wf_satb t
   hence  xml_wf_sat t <-> xml_balanced (yield t) = true. *)
From Coq Require Import Lia Bool.
From ISLA Require Import Grammar GrammarFacts TreeFacts Csv CsvFacts Xml.

(* ========================================================================= *)
(* Specification                                                             *)
(* ========================================================================= *)

Definition matches_openclose (r opid clid : tree) : Prop :=
  exists o inn c,
    kids r = [o; inn; c] /\ lbl o = X_open /\ lbl inn = X_inner /\ lbl c = X_close /\
    (map lbl (kids o) = open_shape1 \/ map lbl (kids o) = open_shape2) /\
    map lbl (kids c) = close_shape /\
    nth_error (kids o) 1 = Some opid /\ nth_error (kids c) 1 = Some clid.

Definition xml_wf_sat (t : tree) : Prop :=
  forall p r opid clid, subtree t p = Some r -> lbl r = X_tree ->
    matches_openclose r opid clid -> yield opid = yield clid.

(* ========================================================================= *)
(* the decision procedure agrees with the specification                      *)
(* ========================================================================= *)

Lemma lbls_are_spec ks a : lbls_are ks a = true <-> map lbl ks = a.
Proof. unfold lbls_are. apply alt_eqb_eq. Qed.

Lemma match_ids_spec r a b : match_ids r = Some (a, b) <-> matches_openclose r a b.
Proof.
  unfold match_ids, matches_openclose. split.
  - destruct (kids r) as [|o [|inn [|c [|x ks]]]]; try discriminate.
    destruct (lbls_are [o; inn; c] [X_open; X_inner; X_close]) eqn:E1; [|discriminate].
    destruct (lbls_are (kids o) open_shape1 || lbls_are (kids o) open_shape2) eqn:E2; [|discriminate].
    destruct (lbls_are (kids c) close_shape) eqn:E3; [|discriminate]. cbn [andb].
    destruct (nth_error (kids o) 1) as [a'|] eqn:Ea; [|discriminate].
    destruct (nth_error (kids c) 1) as [b'|] eqn:Eb; [|discriminate].
    intro H. inversion H; subst a' b'.
    apply lbls_are_spec in E1. cbn [map] in E1. inversion E1 as [[Ho Hi Hc]].
    apply lbls_are_spec in E3. apply orb_true_iff in E2.
    exists o, inn, c. repeat split; auto.
    destruct E2 as [E2|E2]; apply lbls_are_spec in E2; auto.
  - intros (o & inn & c & Hk & Ho & Hi & Hc & Hs & Hcs & Ha & Hb). rewrite Hk.
    assert (E1 : lbls_are [o; inn; c] [X_open; X_inner; X_close] = true).
    { apply lbls_are_spec. cbn [map]. rewrite Ho, Hi, Hc. reflexivity. }
    assert (E2 : lbls_are (kids o) open_shape1 || lbls_are (kids o) open_shape2 = true).
    { apply orb_true_iff. destruct Hs as [Hs|Hs]; [left|right]; apply lbls_are_spec; assumption. }
    assert (E3 : lbls_are (kids c) close_shape = true) by (apply lbls_are_spec; assumption).
    rewrite E1, E2, E3, Ha, Hb. reflexivity.
Qed.

Theorem xml_wf_satb_spec t : xml_wf_satb t = true <-> xml_wf_sat t.
Proof.
  unfold xml_wf_satb, xml_wf_sat. rewrite forallb_forall. split.
  - intros H p r a b Hp Hl Hm.
    assert (Hin : In r (nodes_lbl wf_qtype t)) by (apply nodes_lbl_spec; eauto).
    specialize (H r Hin). unfold ids_okb in H.
    apply match_ids_spec in Hm. rewrite Hm in H. apply str_eqb_eq. assumption.
  - intros H r Hin. apply nodes_lbl_spec in Hin as (p & Hp & Hl).
    unfold ids_okb. destruct (match_ids r) as [[a b]|] eqn:E; [|reflexivity].
    apply str_eqb_eq. apply match_ids_spec in E. eapply H; eauto.
Qed.

(* ========================================================================= *)
(* The reader                                                                *)
(* ========================================================================= *)

(* characters that may occur in character data and inside attribute values *)
Definition txc (c : chr) : bool := negb (memc c [c_lt; c_quote]).
(* characters that may occur in a name *)
Definition idcb (c : chr) : bool :=
  negb (memc c [c_lt; c_gt; c_quote; c_slash; c_sp; c_tab; c_nl; c_cr]).

Lemma xrun_app u v st : xrun (u ++ v) st = xrun v (xrun u st).
Proof. unfold xrun. apply fold_left_app. Qed.
Lemma xrun_cons c w st : xrun (c :: w) st = xrun w (xstep st c).
Proof. reflexivity. Qed.

Lemma memc_cons c x l : memc c (x :: l) = N.eqb c x || memc c l.
Proof. reflexivity. Qed.

Lemma txc_inv c : txc c = true -> N.eqb c c_lt = false /\ N.eqb c c_quote = false.
Proof.
  unfold txc. rewrite !memc_cons. destruct (N.eqb c c_lt), (N.eqb c c_quote); simpl; intro H;
    try discriminate; auto.
Qed.

Lemma idcb_inv c : idcb c = true ->
  N.eqb c c_lt = false /\ N.eqb c c_gt = false /\ N.eqb c c_quote = false /\
  N.eqb c c_slash = false /\ is_ws c = false.
Proof.
  unfold idcb, is_ws. rewrite !memc_cons. intro H. apply negb_true_iff in H.
  repeat (apply orb_false_iff in H; let H1 := fresh "E" in destruct H as [H1 H]).
  repeat split; try assumption.
  repeat (apply orb_false_iff; split; try assumption).
Qed.

Lemma run_content w k b :
  Forall (fun c => txc c = true) w -> xrun w (XSt Content k b) = XSt Content k b.
Proof.
  induction 1 as [|c w Hc Hw IH]; [reflexivity|].
  rewrite xrun_cons. cbn [xstep]. apply txc_inv in Hc as [E _]. rewrite E. assumption.
Qed.

(* w is read inside a tag, outside quotes, without leaving that state *)
Definition tagsafe (w : str) : Prop :=
  forall rb k b, xrun w (XSt (InTag false rb) k b) = XSt (InTag false (rev w ++ rb)) k b.

Lemma tagsafe_nil : tagsafe [].
Proof. intros rb k b. reflexivity. Qed.

Lemma tagsafe_app u v : tagsafe u -> tagsafe v -> tagsafe (u ++ v).
Proof.
  intros Hu Hv rb k b. rewrite xrun_app, Hu, Hv, rev_app_distr, app_assoc. reflexivity.
Qed.

Lemma tagsafe_id w : Forall (fun c => idcb c = true) w -> tagsafe w.
Proof.
  induction 1 as [|c w Hc Hw IH]; [apply tagsafe_nil|].
  intros rb k b. rewrite xrun_cons. cbn [xstep].
  apply idcb_inv in Hc as (E1 & E2 & E3 & _). rewrite E1, E2, E3.
  rewrite IH. cbn [rev]. rewrite <- app_assoc. reflexivity.
Qed.

Lemma tagsafe_sp : tagsafe T_sp.
Proof. intros rb k b. reflexivity. Qed.

Lemma run_quoted_val w rb k b :
  Forall (fun c => txc c = true) w ->
  xrun w (XSt (InTag true rb) k b) = XSt (InTag true (rev w ++ rb)) k b.
Proof.
  intro H. revert rb. induction H as [|c w Hc Hw IH]; intro rb; [reflexivity|].
  rewrite xrun_cons. cbn [xstep]. apply txc_inv in Hc as [E1 E2]. rewrite E1, E2. cbn [negb].
  rewrite IH. cbn [rev]. rewrite <- app_assoc. reflexivity.
Qed.

Lemma xstep_eqsign rb k b :
  xstep (XSt (InTag false rb) k b) 61%N = XSt (InTag false (61%N :: rb)) k b.
Proof. reflexivity. Qed.
Lemma xstep_quote_open rb k b :
  xstep (XSt (InTag false rb) k b) c_quote = XSt (InTag true (c_quote :: rb)) k b.
Proof. reflexivity. Qed.
Lemma xstep_quote_close rb k b :
  xstep (XSt (InTag true rb) k b) c_quote = XSt (InTag false (c_quote :: rb)) k b.
Proof. reflexivity. Qed.
Lemma xstep_lt k b : xstep (XSt Content k b) c_lt = XSt (InTag false []) k b.
Proof. reflexivity. Qed.
Lemma xstep_slash rb k b :
  xstep (XSt (InTag false rb) k b) c_slash = XSt (InTag false (c_slash :: rb)) k b.
Proof. reflexivity. Qed.
Lemma xstep_gt rb k b : xstep (XSt (InTag false rb) k b) c_gt = end_tag rb k b.
Proof. reflexivity. Qed.

Lemma tagsafe_attrval w : Forall (fun c => txc c = true) w -> tagsafe (T_eqq ++ w ++ T_q).
Proof.
  intros H rb k b. unfold T_eqq, T_q.
  change ([61%N; c_quote] ++ w ++ [c_quote]) with (61%N :: c_quote :: w ++ [c_quote]).
  rewrite xrun_cons, xstep_eqsign, xrun_cons, xstep_quote_open, xrun_app, run_quoted_val by assumption.
  rewrite xrun_cons, xstep_quote_close. cbn [xrun fold_left].
  f_equal. f_equal. cbn [rev app]. rewrite rev_app_distr. cbn [rev app].
  rewrite <- !app_assoc. reflexivity.
Qed.

Lemma tag_name_id w : Forall (fun c => idcb c = true) w -> tag_name w = w.
Proof.
  induction 1 as [|c w Hc Hw IH]; [reflexivity|].
  cbn [tag_name]. apply idcb_inv in Hc as (_ & _ & _ & _ & E). rewrite E, IH. reflexivity.
Qed.

Lemma tag_name_sp w r : Forall (fun c => idcb c = true) w -> tag_name (w ++ c_sp :: r) = w.
Proof.
  induction 1 as [|c w Hc Hw IH]; [reflexivity|].
  cbn [tag_name app]. apply idcb_inv in Hc as (_ & _ & _ & _ & E). rewrite E, IH. reflexivity.
Qed.

Lemma end_tag_close b top k ok :
  end_tag (rev (c_slash :: b)) (top :: k) ok = XSt Content k (ok && str_eqb top (tag_name b)).
Proof. unfold end_tag. rewrite rev_involutive. reflexivity. Qed.

Lemma end_tag_open c b l r k ok :
  N.eqb c c_slash = false -> rev (c :: b) = l :: r -> N.eqb l c_slash = false ->
  end_tag (rev (c :: b)) k ok = XSt Content (tag_name (c :: b) :: k) ok.
Proof.
  intros Hc Hr Hl. unfold end_tag. rewrite rev_involutive, Hc, Hr, Hl. reflexivity.
Qed.

Lemma end_tag_empty c b r k ok :
  N.eqb c c_slash = false -> rev (c :: b) = c_slash :: r ->
  end_tag (rev (c :: b)) k ok = XSt Content k ok.
Proof.
  intros Hc Hr. unfold end_tag. rewrite rev_involutive, Hc, Hr. reflexivity.
Qed.

(* the part of a tag after the name: nothing, or a blank and attributes ending in a quote *)
Definition attr_part (rest : str) : Prop :=
  tagsafe rest /\ (rest = [] \/ exists a', rest = c_sp :: a' ++ [c_quote]).

Lemma rev_last_id w : Forall (fun c => idcb c = true) w -> w <> [] ->
  exists l r, rev w = l :: r /\ idcb l = true.
Proof.
  intros H Hne. apply Forall_rev in H. destruct (rev w) as [|l r] eqn:E.
  - apply (f_equal (@rev chr)) in E. rewrite rev_involutive in E. contradiction.
  - exists l, r. split; [reflexivity|]. inversion H; assumption.
Qed.

(* the last character of  name ++ rest  is not a slash *)
Lemma body_last yid rest : Forall (fun c => idcb c = true) yid -> yid <> [] ->
  (rest = [] \/ exists a', rest = c_sp :: a' ++ [c_quote]) ->
  exists l r, rev (yid ++ rest) = l :: r /\ N.eqb l c_slash = false.
Proof.
  intros Hid Hne [E|(a' & E)]; subst rest.
  - rewrite app_nil_r. destruct (rev_last_id yid Hid Hne) as (l & r & E & Hl).
    exists l, r. split; [assumption|]. apply idcb_inv in Hl. tauto.
  - exists c_quote, (rev (yid ++ c_sp :: a')). split; [|reflexivity].
    change (c_sp :: a' ++ [c_quote]) with ((c_sp :: a') ++ [c_quote]).
    rewrite app_assoc, rev_app_distr. reflexivity.
Qed.

Lemma body_name yid rest : Forall (fun c => idcb c = true) yid ->
  (rest = [] \/ exists a', rest = c_sp :: a' ++ [c_quote]) -> tag_name (yid ++ rest) = yid.
Proof.
  intros Hid [E|(a' & E)]; subst rest.
  - rewrite app_nil_r. apply tag_name_id. assumption.
  - apply tag_name_sp. assumption.
Qed.

Lemma run_in_tag yid rest tail k b :
  Forall (fun c => idcb c = true) yid -> tagsafe rest ->
  xrun (c_lt :: yid ++ rest ++ tail) (XSt Content k b) =
  xrun tail (XSt (InTag false (rev (yid ++ rest))) k b).
Proof.
  intros Hid Hr. rewrite xrun_cons, xstep_lt.
  rewrite app_assoc, xrun_app. f_equal.
  rewrite (tagsafe_app yid rest (tagsafe_id yid Hid) Hr). rewrite app_nil_r. reflexivity.
Qed.

Lemma run_open yid rest k b :
  Forall (fun c => idcb c = true) yid -> yid <> [] -> attr_part rest ->
  xrun (c_lt :: yid ++ rest ++ [c_gt]) (XSt Content k b) = XSt Content (yid :: k) b.
Proof.
  intros Hid Hne [Hsafe Hrest]. rewrite run_in_tag by assumption.
  rewrite xrun_cons, xstep_gt. cbn [xrun fold_left].
  destruct (body_last yid rest Hid Hne Hrest) as (l & r & Hrev & Hl).
  destruct yid as [|c y]; [contradiction|]. cbn [app] in *.
  assert (Hc : N.eqb c c_slash = false).
  { inversion Hid as [|c' y' Hc' Hy']; subst. apply idcb_inv in Hc'. tauto. }
  etransitivity; [exact (end_tag_open c (y ++ rest) l r k b Hc Hrev Hl)|].
  change (c :: y ++ rest) with ((c :: y) ++ rest). rewrite body_name by assumption. reflexivity.
Qed.

Lemma run_openclose yid rest k b :
  Forall (fun c => idcb c = true) yid -> yid <> [] -> attr_part rest ->
  xrun (c_lt :: yid ++ rest ++ [c_slash; c_gt]) (XSt Content k b) = XSt Content k b.
Proof.
  intros Hid Hne [Hsafe Hrest]. rewrite run_in_tag by assumption.
  rewrite xrun_cons, xstep_slash, xrun_cons, xstep_gt. cbn [xrun fold_left].
  destruct yid as [|c y]; [contradiction|]. cbn [app] in *.
  assert (Hc : N.eqb c c_slash = false).
  { inversion Hid as [|c' y' Hc' Hy']; subst. apply idcb_inv in Hc'. tauto. }
  change (c_slash :: rev (c :: y ++ rest)) with (rev [c_slash] ++ rev (c :: y ++ rest)).
  rewrite <- rev_app_distr. change ((c :: y ++ rest) ++ [c_slash]) with (c :: (y ++ rest) ++ [c_slash]).
  apply (end_tag_empty c ((y ++ rest) ++ [c_slash]) (rev (c :: y ++ rest)) k b Hc).
  change (c :: (y ++ rest) ++ [c_slash]) with ((c :: y ++ rest) ++ [c_slash]).
  rewrite rev_app_distr. reflexivity.
Qed.

Lemma run_close yid n k b :
  Forall (fun c => idcb c = true) yid ->
  xrun (c_lt :: c_slash :: yid ++ [c_gt]) (XSt Content (n :: k) b) =
  XSt Content k (b && str_eqb n yid).
Proof.
  intro Hid. rewrite xrun_cons, xstep_lt, xrun_cons, xstep_slash.
  rewrite xrun_app, (tagsafe_id yid Hid). rewrite xrun_cons, xstep_gt. cbn [xrun fold_left].
  change (rev yid ++ [c_slash]) with (rev yid ++ rev [c_slash]). rewrite <- rev_app_distr.
  change ([c_slash] ++ yid) with (c_slash :: yid).
  rewrite end_tag_close, tag_name_id by assumption. reflexivity.
Qed.
